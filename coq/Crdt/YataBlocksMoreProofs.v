(* More theorems about YataBlocks.v.  Stdlib only; no axioms. *)
From Coq Require Import List NArith ZArith Bool Lia Arith.
From YV Require Import Gen.Consts Lib.Bytes Codec.Varint Codec.AnyCodec Codec.IdSetCodec Codec.UpdateV1
  Codec.V2Cols Codec.V2Proofs Ids.Ranges Crdt.Doc Crdt.Blocks Crdt.BlocksProofs Crdt.YataProofs
  Crdt.YataBlocks Crdt.YataBlocksProofs.
From YV.Crdt Require Import YataBlocksMore.
Import ListNotations.
Open Scope N_scope.

(* ================================================================================================ *)
(* A. the commit-time squash is invisible at unit level                                              *)
(* ================================================================================================ *)
(* ItemPtr::try_squash also asks `self.is_deleted() == other.is_deleted()`: the deleted flags agree *)
Theorem yib_squash_is_invisible : forall s1 a b s2,
  blk_wf (yib_b a) = true -> blk_wf (yib_b b) = true -> blk_nonempty (yib_b a) = true ->
  blk_can_squash (yib_b a) (yib_b b) = true -> yib_del a = yib_del b ->
  yib_expand (s1 ++ yib_mk (blk_squash (yib_b a) (yib_b b)) (yib_del a) :: s2) = yib_expand (s1 ++ a :: b :: s2).
Proof.
  intros s1 a b s2 Ha Hb Hne Hc Hd. rewrite !yib_expand_app, !yib_expand_cons. f_equal. rewrite app_assoc. f_equal.
  unfold yib_ditems. cbn [yib_b yib_del]. rewrite (blk_squash_units _ _ Ha Hb Hne Hc), flat_map_app, Hd. reflexivity.
Qed.
Print Assumptions yib_squash_is_invisible.

(* ================================================================================================ *)
(* B. the invariant is kept                                                                          *)
(* ================================================================================================ *)
Lemma yib_nodupb_intro : forall x c, yib_nodupb x = true -> yib_nodupb c = true ->
  (forall i, In i x -> ~ In i c) -> yib_nodupb (x ++ c) = true.
Proof.
  induction x as [|j r IH]; intros c Hx Hc Hd; [exact Hc|].
  cbn [app yib_nodupb] in *. apply andb_prop in Hx. destruct Hx as [Hj Hr].
  rewrite IH; [|exact Hr|exact Hc|intros i Hi; apply Hd; right; exact Hi]. rewrite andb_true_r.
  apply negb_true_iff. apply yib_mem_false. intro Hin. apply in_app_or in Hin. destruct Hin as [Hin|Hin].
  - apply negb_true_iff in Hj. apply yib_mem_false in Hj. contradiction.
  - apply (Hd j); [left; reflexivity|exact Hin].
Qed.

Lemma yib_nodupb_insert : forall a x c, yib_nodupb (a ++ c) = true -> yib_nodupb x = true ->
  (forall i, In i x -> ~ In i (a ++ c)) -> yib_nodupb (a ++ x ++ c) = true.
Proof.
  induction a as [|j r IH]; intros x c Hac Hx Hd.
  - cbn [app] in *. apply yib_nodupb_intro; assumption.
  - cbn [app yib_nodupb] in *. apply andb_prop in Hac. destruct Hac as [Hj Hr].
    rewrite IH; [|exact Hr|exact Hx|intros i Hi Hin; apply (Hd i Hi); right; exact Hin]. rewrite andb_true_r.
    apply negb_true_iff. apply yib_mem_false. intro Hin.
    apply negb_true_iff in Hj. apply yib_mem_false in Hj.
    apply in_app_or in Hin. destruct Hin as [Hin|Hin]; [apply Hj; apply in_or_app; left; exact Hin|].
    apply in_app_or in Hin. destruct Hin as [Hin|Hin]; [|apply Hj; apply in_or_app; right; exact Hin].
    apply (Hd j Hin). left. reflexivity.
Qed.

Lemma yib_dunits_nodup : forall us c k o ro p ps del, yib_nodupb (yib_ids (yib_dunits c k o ro p ps del us)) = true.
Proof.
  induction us as [|u r IH]; intros; [reflexivity|]. cbn [yib_dunits yib_ids map yib_nodupb].
  fold (yib_ids (yib_dunits c (k + 1) (Some (mkid c k)) ro p ps del r)). rewrite IH, andb_true_r.
  apply negb_true_iff. apply yib_mem_false. intro Hin. apply yib_dunits_ids in Hin. cbn [did d_op oid cl ck] in Hin. lia.
Qed.

Lemma yib_origins_left_insert : forall a x c, yib_origins_left (a ++ c) = true ->
  (forall u o, In u a -> oorigin (d_op u) = Some o -> ~ In o (yib_ids x)) ->
  yib_origins_left (x ++ c) = true -> yib_origins_left (a ++ x ++ c) = true.
Proof.
  induction a as [|u r IH]; intros x c Hac Ha Hxc; [exact Hxc|].
  cbn [app yib_origins_left] in *. apply andb_prop in Hac. destruct Hac as [Hu Hr].
  rewrite IH; [|exact Hr|intros v o Hv; apply Ha; right; exact Hv|exact Hxc]. rewrite andb_true_r.
  destruct (oorigin (d_op u)) as [o|] eqn:Eo; [|reflexivity].
  apply negb_true_iff. apply yib_mem_false. apply negb_true_iff in Hu. apply yib_mem_false in Hu.
  intro Hin. change (u :: r ++ x ++ c) with ((u :: r) ++ x ++ c) in Hin. rewrite !yib_ids_app in Hin.
  apply in_app_or in Hin. destruct Hin as [Hin|Hin].
  - apply Hu. change (u :: r ++ c) with ((u :: r) ++ c). rewrite yib_ids_app. apply in_or_app. left. exact Hin.
  - apply in_app_or in Hin. destruct Hin as [Hin|Hin].
    + apply (Ha u o (or_introl eq_refl) Eo Hin).
    + apply Hu. change (u :: r ++ c) with ((u :: r) ++ c). rewrite yib_ids_app. apply in_or_app. right. exact Hin.
Qed.

Lemma yib_dunits_origins_left : forall us c k o ro p ps del ec,
  yib_origins_left ec = true ->
  match o with Some oo => ~ In oo (yib_ids (yib_dunits c k o ro p ps del us)) /\ ~ In oo (yib_ids ec) | None => True end ->
  (forall j, k <= j -> j < k + N.of_nat (length us) -> ~ In (mkid c j) (yib_ids ec)) ->
  yib_origins_left (yib_dunits c k o ro p ps del us ++ ec) = true.
Proof.
  induction us as [|u r IH]; intros c k o ro p ps del ec Hec Ho Hc; [exact Hec|].
  cbn [yib_dunits app yib_origins_left]. cbn [d_op oorigin].
  rewrite IH; [|exact Hec| |intros j Hj Hj2; apply Hc; [lia|cbn [length]; lia]].
  - rewrite andb_true_r. destruct o as [oo|]; [|reflexivity]. destruct Ho as [H1 H2].
    apply negb_true_iff. apply yib_mem_false. intro Hin.
    change (?u0 :: ?l ++ ec) with ((u0 :: l) ++ ec) in Hin. rewrite yib_ids_app in Hin.
    apply in_app_or in Hin. destruct Hin as [Hin|Hin]; [apply H1; exact Hin|apply H2; exact Hin].
  - split; [|apply Hc; [lia|cbn [length]; lia]]. intro Hin. apply yib_dunits_ids in Hin. cbn [cl ck] in Hin. lia.
Qed.

(* a new block put between two parts of a well-formed sequence *)
Lemma yib_insert_inv : forall A C x, yib_seq_inv (A ++ C) -> yib_new_for (A ++ C) x ->
  (forall o, yib_origin x = Some o -> ~ In o (yib_ids (yib_expand C))) ->
  yib_seq_inv (A ++ x :: C).
Proof.
  intros A C x (Hok & Hnd & Hol) (Hokx & Hfresh & Hxo) HoC.
  destruct (yib_blk_ok_inv x Hokx) as (xi & o & ro & p & ps & c & Ex & Hwf & Hlen & Hpos).
  destruct xi as [xc xk].
  assert (Edit : yib_ditems x = yib_dunits xc xk o ro p ps (yib_del x) (content_units c)).
  { rewrite Ex at 1. apply yib_ditems_item. }
  assert (Hfr : forall i, In i (yib_ids (yib_ditems x)) -> ~ In i (yib_ids (yib_expand (A ++ C)))).
  { intros i Hi Hin. unfold yib_ids in Hin. apply in_map_iff in Hin. destruct Hin as (u & <- & Hu).
    destruct (Hfresh u Hu) as [Hf _]. apply yib_mem_In in Hi. rewrite yib_contains_ids in Hi by exact Hokx. congruence. }
  repeat split.
  - rewrite forallb_app in *. cbn [forallb]. apply andb_prop in Hok. destruct Hok as [H1 H2]. rewrite H1, Hokx, H2. reflexivity.
  - rewrite yib_expand_app, yib_expand_cons, !yib_ids_app. rewrite yib_expand_app, yib_ids_app in Hnd, Hfr.
    apply yib_nodupb_insert; [exact Hnd|rewrite Edit; apply yib_dunits_nodup|exact Hfr].
  - rewrite yib_expand_app, yib_expand_cons. rewrite yib_expand_app in Hol.
    apply yib_origins_left_insert; [exact Hol| |].
    + intros u oo Hu Eo Hin. destruct (Hfresh u) as [_ Hf]; [rewrite yib_expand_app; apply in_or_app; left; exact Hu|].
      specialize (Hf oo Eo). apply yib_mem_In in Hin. rewrite yib_contains_ids in Hin by exact Hokx. congruence.
    + rewrite Edit. apply yib_dunits_origins_left.
      * eapply yib_origins_left_app_r. exact Hol.
      * assert (Exo : yib_origin x = o) by (rewrite Ex; reflexivity).
        destruct o as [oo|]; [|exact I]. split.
        -- intro Hin. rewrite <- Edit in Hin. apply yib_mem_In in Hin. rewrite yib_contains_ids in Hin by exact Hokx.
           rewrite (Hxo oo Exo) in Hin. discriminate.
        -- apply HoC. exact Exo.
      * intros j Hj Hlt Hin. apply (Hfr (mkid xc j)).
        -- rewrite Edit. apply yib_dunits_ids. cbn [cl ck]. repeat split; assumption.
        -- rewrite yib_expand_app, yib_ids_app. apply in_or_app. right. exact Hin.
Qed.

Lemma yib_new_for_set_del : forall s x d, yib_new_for s x -> yib_new_for s (yib_set_del x d).
Proof. intros s x d H. exact H. Qed.

Lemma yib_left_origin_not_in_suf : forall x l s pre suf, yib_seq_inv s -> yib_left_ok x l s pre suf ->
  forall o, yib_origin x = Some o -> ~ In o (yib_ids (yib_expand suf)).
Proof.
  intros x l s pre suf (Hok & Hnd & _) (Es & Hl) o Ho Hin.
  destruct Hl as [(_ & _ & Habs)|(P & L & EP & _ & HoL)].
  - apply (Habs o Ho). rewrite Es, yib_expand_app, yib_ids_app. apply in_or_app. right. exact Hin.
  - rewrite Ho in HoL. injection HoL as ->.
    assert (Hokpre : forallb yib_blk_ok pre = true) by (rewrite Es, forallb_app in Hok; apply andb_prop in Hok; apply Hok).
    assert (HokL : yib_blk_ok L = true).
    { eapply yib_forallb_In; [exact Hokpre|]. rewrite EP. apply in_or_app. right. left. reflexivity. }
    rewrite Es, yib_expand_app, yib_ids_app in Hnd.
    eapply (yib_nodupb_app _ _ (yib_last_id L) Hnd); [|exact Hin].
    destruct (yib_ditems_last L HokL) as (init & ul & El & Hul).
    rewrite EP, yib_expand_app, yib_ids_app. apply in_or_app. right. cbn [yib_expand flat_map].
    rewrite app_nil_r, El, yib_ids_app. apply in_or_app. right. left. exact Hul.
Qed.

Theorem yib_seq_ok_preserved : forall s b pdel s',
  yib_seq_ok s = true -> yib_fresh s b = true -> yib_psub b = None ->
  yib_integrate_off s b 0 pdel = yib_ok s' -> yib_seq_ok s' = true.
Proof.
  intros s b pdel s' Hok Hfresh Hps H. apply yib_seq_ok_inv in Hok. apply yib_seq_ok_inv.
  unfold yib_integrate_off in H. destruct (yib_resolve b s) as [[[l r] s2]|] eqn:Er; [|discriminate].
  cbn [yib_bind] in H. change (0 <? 0) with false in H. cbv iota in H.
  destruct (yib_resolve_spec s b l r s2 Hok Hfresh Er) as (Ee & Hinv2 & pre & suf & Hl & Hr).
  pose proof Hinv2 as (Hok2 & Hnd2 & Hol2).
  destruct (yib_fresh_inv s b Hfresh) as [Hnew _].
  pose proof (yib_new_for_expand s s2 b Ee Hnew) as Hnew2.
  destruct (yib_integrate_ptrs_refines s2 b l r pdel pre suf Hok2 Hnd2 Hol2 Hnew2 Hps Hl Hr) as (n & E1 & _).
  rewrite E1 in H. injection H as <-.
  assert (Es2 : s2 = (pre ++ firstn n suf) ++ skipn n suf).
  { rewrite <- app_assoc, firstn_skipn. apply Hl. }
  rewrite app_assoc. apply yib_insert_inv.
  - rewrite <- Es2. exact Hinv2.
  - rewrite <- Es2. apply yib_new_for_set_del. exact Hnew2.
  - intros o Ho Hin. apply (yib_left_origin_not_in_suf b l s2 pre suf Hinv2 Hl o Ho).
    rewrite <- (firstn_skipn n suf), yib_expand_app, yib_ids_app. apply in_or_app. right. exact Hin.
Qed.
Print Assumptions yib_seq_ok_preserved.

(* theorem 1 iterated over a history *)
Theorem yib_history_refines_units : forall bs s,
  yib_seq_ok s = true -> yib_hist_ok s bs = true ->
  exists s', yib_integrate_all s bs = yib_ok s' /\ yib_seq_ok s' = true /\
    yib_expand s' = fold_left (fun l b => fold_left yata_insert (yib_ditems (yib_arrival b false)) l) bs (yib_expand s).
Proof.
  induction bs as [|b r IH]; intros s Hok H.
  - exists s. repeat split. exact Hok.
  - cbn [yib_hist_ok] in H. apply andb_prop in H. destruct H as [H H3]. apply andb_prop in H. destruct H as [H1 H2].
    destruct (yib_psub b) eqn:Eps; [discriminate|].
    destruct (yib_integrate s b) as [s1|] eqn:E1; [|discriminate].
    pose proof (yib_seq_ok_preserved s b false s1 Hok H1 Eps E1) as Hok1.
    pose proof (yib_integrate_refines_units s b false s1 Hok H1 Eps E1) as Hr1.
    destruct (IH s1 Hok1 H3) as (s' & Ea & Hok' & Ee).
    exists s'. cbn [yib_integrate_all fold_left]. rewrite E1. cbn [yib_bind]. rewrite <- Hr1. repeat split; assumption.
Qed.
Print Assumptions yib_history_refines_units.

(* ================================================================================================ *)
(* C. no split is refused: yib_integrate_succeeds                                                    *)
(* ================================================================================================ *)
(* split_str on a string that is the concatenation of two valid strings *)
Lemma yib_take16_app_ge_n : forall n P Q k, (length P <= n)%nat -> utf8_valid P = true -> utf8_valid Q = true ->
  utf16_len P <= k ->
  take16 k (P ++ Q) = (P ++ fst (take16 (k - utf16_len P) Q), snd (take16 (k - utf16_len P) Q)).
Proof.
  induction n as [|n IH]; intros P Q k Hl HP HQ Hk.
  - destruct P; [|cbn [length] in Hl; lia]. cbn [app]. change (utf16_len []) with 0. rewrite N.sub_0_r.
    destruct (take16 k Q); reflexivity.
  - destruct P as [|b0 r].
    + cbn [app]. change (utf16_len []) with 0. rewrite N.sub_0_r. destruct (take16 k Q); reflexivity.
    + destruct (blk_valid_step _ _ HP) as [r' [E [Hr' Hlen]]].
      destruct (blk_char_decomp _ _ _ E) as [c [Hc [Hvc [Hl16 [Hge1 [_ [_ Htake]]]]]]].
      rewrite Hc in *. rewrite blk_utf16_len_app, Hl16 in *. rewrite <- app_assoc, Htake.
      replace (k =? 0) with false by (symmetry; apply N.eqb_neq; lia).
      rewrite (IH r' Q (k - utf16_len_byte b0)); [|cbn [length] in *; lia|exact Hr'|exact HQ|lia].
      cbn [fst snd]. rewrite <- app_assoc. rewrite N.sub_add_distr. reflexivity.
Qed.
Lemma yib_take16_app_ge : forall P Q k, utf8_valid P = true -> utf8_valid Q = true -> utf16_len P <= k ->
  take16 k (P ++ Q) = (P ++ fst (take16 (k - utf16_len P) Q), snd (take16 (k - utf16_len P) Q)).
Proof. intros P Q k. apply (yib_take16_app_ge_n (length P)). lia. Qed.

Lemma yib_take16_zero : forall Q, utf8_valid Q = true -> take16 0 Q = ([], Q).
Proof.
  intros [|b0 r] H; [reflexivity|].
  destruct (blk_valid_step _ _ H) as [r' [E _]].
  destruct (blk_char_decomp _ _ _ E) as [c [Hc [_ [_ [_ [_ [_ Htake]]]]]]].
  rewrite Hc, Htake. reflexivity.
Qed.

(* a string that can be cut at k1 and at k2: the halves of the first cut can be cut where the second cut falls *)
Definition yib_str_boundary (s : list N) (k : N) : bool := str_len16 (fst (take16 k s)) =? k.

Lemma yib_str_boundary_right : forall s k1 k2, utf8_valid s = true -> k1 < k2 ->
  yib_str_boundary s k1 = true -> yib_str_boundary s k2 = true ->
  yib_str_boundary (snd (take16 k1 s)) (k2 - k1) = true.
Proof.
  intros s k1 k2 Hs Hlt H1 H2. unfold yib_str_boundary in *. apply N.eqb_eq in H1. apply N.eqb_eq in H2. apply N.eqb_eq.
  destruct (blk_take16_valid s k1 Hs) as [HP HQ].
  destruct (blk_take16_valid (snd (take16 k1 s)) (k2 - k1) HQ) as [HP3 _].
  rewrite blk_str_len16_valid in H1 by exact HP. rewrite blk_str_len16_valid by exact HP3.
  rewrite <- (blk_take16_app s k1) in H2 at 1.
  rewrite yib_take16_app_ge in H2; [|exact HP|exact HQ|lia]. cbn [fst] in H2. rewrite H1 in H2.
  rewrite blk_str_len16_valid in H2 by (apply utf8_valid_app; assumption).
  rewrite blk_utf16_len_app, H1 in H2. lia.
Qed.

Lemma yib_str_boundary_left : forall s k1 k2, utf8_valid s = true -> k2 < k1 ->
  yib_str_boundary s k1 = true -> yib_str_boundary s k2 = true ->
  yib_str_boundary (fst (take16 k1 s)) k2 = true.
Proof.
  intros s k1 k2 Hs Hlt H1 H2. unfold yib_str_boundary in *. apply N.eqb_eq in H1. apply N.eqb_eq in H2. apply N.eqb_eq.
  destruct (blk_take16_valid s k2 Hs) as [HP2 HQ2].
  rewrite blk_str_len16_valid in H2 by exact HP2.
  assert (E : fst (take16 k1 s) = fst (take16 k2 s) ++ fst (take16 (k1 - k2) (snd (take16 k2 s)))).
  { rewrite <- (blk_take16_app s k2) at 1. rewrite yib_take16_app_ge; [|exact HP2|exact HQ2|lia]. cbn [fst]. rewrite H2. reflexivity. }
  rewrite E. destruct (blk_take16_valid _ (k1 - k2) HQ2) as [HQ' _].
  rewrite yib_take16_app_ge; [|exact HP2|exact HQ'|lia]. rewrite H2, N.sub_diag, yib_take16_zero by exact HQ'.
  cbn [fst]. rewrite app_nil_r. rewrite blk_str_len16_valid by exact HP2. exact H2.
Qed.

Lemma yib_blk_split_some : forall b k, (exists l r, blk_split b k = Some (l, r)) <->
  (0 < k /\ k < block_len b /\ match b with
                              | BItem _ _ _ _ _ c => blk_content_split c k <> None
                              | _ => True end).
Proof.
  intros b k. unfold blk_split. destruct ((0 <? k) && (k <? block_len b)) eqn:G.
  - apply andb_prop in G. destruct G as [G1 G2]. apply N.ltb_lt in G1. apply N.ltb_lt in G2.
    destruct b as [i o ro p ps c|i n|i n].
    + destruct (blk_content_split c k) as [[c1 c2]|]; split.
      * intros _. repeat split; try assumption. discriminate.
      * intros _. eexists _, _. reflexivity.
      * intros (l & r & H). discriminate.
      * intros (_ & _ & H). congruence.
    + split; [intros _; repeat split; assumption|intros _; eexists _, _; reflexivity].
    + split; [intros _; repeat split; assumption|intros _; eexists _, _; reflexivity].
  - split; [intros (l & r & H); discriminate|]. intros (H1 & H2 & _). exfalso.
    apply andb_false_iff in G. destruct G as [G|G]; [apply N.ltb_ge in G|apply N.ltb_ge in G]; lia.
Qed.

Lemma yib_content_split_some : forall c k, blk_content_split c k <> None <->
  match c with
  | BAny _ | BJson _ | BDeleted _ => True
  | BString s => yib_str_boundary s k = true
  | _ => False
  end.
Proof.
  intros c k. destruct c; cbn [blk_content_split]; try (split; [congruence|intros []]); try (split; [intros _; exact I|discriminate]).
  unfold yib_str_boundary, blk_split_str. destruct (str_len16 (fst (take16 k s)) =? k); split; congruence.
Qed.

(* the halves of a split can be split where the whole could *)
Lemma yib_split_right_half : forall b k1 k2 l r, blk_wf b = true -> blk_split b k1 = Some (l, r) -> k1 < k2 ->
  (exists l2 r2, blk_split b k2 = Some (l2, r2)) -> exists l3 r3, blk_split r (k2 - k1) = Some (l3, r3).
Proof.
  intros b k1 k2 l r Hwf H1 Hlt H2. destruct (blk_split_wf _ _ _ _ Hwf H1) as (_ & _ & _ & Hlr & _ & _).
  apply yib_blk_split_some in H2. destruct H2 as (H20 & H2l & H2c).
  apply yib_blk_split_some. split; [lia|]. split; [lia|].
  unfold blk_split in H1. destruct ((0 <? k1) && (k1 <? block_len b)); [|discriminate].
  destruct b as [i o ro p ps c|i n|i n]; [|injection H1 as <- <-; exact I|injection H1 as <- <-; exact I].
  destruct (blk_content_split c k1) as [[c1 c2]|] eqn:E1; [|discriminate]. injection H1 as <- <-.
  apply yib_content_split_some. apply yib_content_split_some in H2c.
  destruct c; cbn [blk_content_split] in E1; try discriminate; try (injection E1 as <- <-; exact I).
  unfold blk_split_str in E1. destruct (str_len16 (fst (take16 k1 s)) =? k1) eqn:Eb; [|discriminate].
  injection E1 as <- <-. cbn [blk_wf blk_content_wf] in Hwf. apply yib_str_boundary_right; assumption.
Qed.

Lemma yib_split_left_half : forall b k1 k2 l r, blk_wf b = true -> blk_split b k1 = Some (l, r) -> 0 < k2 -> k2 < k1 ->
  (exists l2 r2, blk_split b k2 = Some (l2, r2)) -> exists l3 r3, blk_split l k2 = Some (l3, r3).
Proof.
  intros b k1 k2 l r Hwf H1 H0 Hlt H2. destruct (blk_split_wf _ _ _ _ Hwf H1) as (_ & _ & Hll & _ & _ & _).
  apply yib_blk_split_some in H2. destruct H2 as (H20 & H2l & H2c).
  apply yib_blk_split_some. split; [lia|]. split; [lia|].
  unfold blk_split in H1. destruct ((0 <? k1) && (k1 <? block_len b)); [|discriminate].
  destruct b as [i o ro p ps c|i n|i n]; [|injection H1 as <- <-; exact I|injection H1 as <- <-; exact I].
  destruct (blk_content_split c k1) as [[c1 c2]|] eqn:E1; [|discriminate]. injection H1 as <- <-.
  apply yib_content_split_some. apply yib_content_split_some in H2c.
  destruct c; cbn [blk_content_split] in E1; try discriminate; try (injection E1 as <- <-; exact I).
  unfold blk_split_str in E1. destruct (str_len16 (fst (take16 k1 s)) =? k1) eqn:Eb; [|discriminate].
  injection E1 as <- <-. cbn [blk_wf blk_content_wf] in Hwf. apply yib_str_boundary_left; assumption.
Qed.

Lemma yib_split_at_fail_inv : forall p k s t, yib_split_at p k s = yib_fail t ->
  t = 1 \/ exists A b C, s = A ++ b :: C /\ yib_id b = p /\ blk_split (yib_b b) k = None.
Proof.
  intros p k s. induction s as [|b0 rr IH]; intros t H; cbn [yib_split_at] in H.
  - left. congruence.
  - destruct (id_eqb (yib_id b0) p) eqn:E.
    + destruct (blk_split (yib_b b0) k) as [[l r]|] eqn:Es; [discriminate|].
      right. exists [], b0, rr. apply id_eqb_eq in E. repeat split; assumption.
    + destruct (yib_split_at p k rr) as [r'|t'] eqn:Er; [discriminate|]. cbn [yib_bind] in H. injection H as <-.
      destruct (IH t' eq_refl) as [->|(A & b & C & -> & Hid & Hs)]; [left; reflexivity|].
      right. exists (b0 :: A), b, C. repeat split; assumption.
Qed.

Lemma yib_split_at_ok : forall s B k, yib_seq_inv s -> In B s ->
  (exists l r, blk_split (yib_b B) k = Some (l, r)) -> exists s', yib_split_at (yib_id B) k s = yib_ok s'.
Proof.
  intros s B k (Hok & Hnd & _) HB (l & r & Hs).
  destruct (yib_split_at (yib_id B) k s) as [s'|t] eqn:E; [exists s'; reflexivity|]. exfalso.
  destruct (yib_split_at_fail_inv _ _ _ _ E) as [->|(A & b & C & Es & Hid & Hn)].
  - exact (yib_split_at_no_fail1 B k s HB E).
  - assert (b = B).
    { apply (yib_ids_distinct s b B (yib_canon_of_nodup s Hok Hnd) (fun X => yib_forallb_In s X Hok)); [|exact HB|exact Hid].
      rewrite Es. apply in_or_app. right. left. reflexivity. }
    subst b. congruence.
Qed.

Lemma yib_contains_inv : forall b i, yib_contains b i = true <->
  cl (yib_id b) = cl i /\ ck (yib_id b) <= ck i /\ ck i < ck (yib_id b) + yib_len b.
Proof.
  intros b i. unfold yib_contains. rewrite !andb_true_iff, N.eqb_eq, N.leb_le, N.ltb_lt. tauto.
Qed.

Lemma yib_cut_before_ok_after_split : forall A B C l r k ro, yib_seq_inv (A ++ B :: C) ->
  blk_split (yib_b B) k = Some (l, r) -> yib_cut_before_ok ro (A ++ B :: C) = true ->
  yib_cut_before_ok ro (A ++ yib_mk l (yib_del B) :: yib_mk r (yib_del B) :: C) = true.
Proof.
  intros A B C l r k ro Hinv Hs Hcut. pose proof Hinv as (Hok & Hnd & _).
  pose proof (yib_canon_of_nodup _ Hok Hnd) as Hcan.
  assert (HB : In B (A ++ B :: C)) by (apply in_or_app; right; left; reflexivity).
  pose proof (yib_forallb_In _ _ Hok HB) as HokB.
  assert (Hwf : blk_wf (yib_b B) = true).
  { unfold yib_blk_ok in HokB. apply andb_prop in HokB. destruct HokB as [Hb _]. apply andb_prop in Hb. apply Hb. }
  destruct (yib_split_halves_ok B k l r HokB Hs) as (Hl1 & Hr1 & Hidl & Hlenl & Hidr & Hk0 & Hk1).
  assert (Hlenr : yib_len (yib_mk r (yib_del B)) = yib_len B - k).
  { destruct (blk_split_wf _ _ _ _ Hwf Hs) as (_ & _ & _ & Hlr & _). exact Hlr. }
  unfold yib_cut_before_ok in *.
  destruct (yib_get_item ro (A ++ yib_mk l (yib_del B) :: yib_mk r (yib_del B) :: C)) as [B2|] eqn:G; [|reflexivity].
  destruct (yib_get_item_some _ _ _ G) as [HB2 Hc2].
  assert (Hold : In B2 (A ++ B :: C) ->
    (if ck ro - ck (yib_id B2) =? 0 then true else match blk_split (yib_b B2) (ck ro - ck (yib_id B2)) with Some _ => true | None => false end) = true).
  { intros Hin. rewrite (Hcan B2 ro Hin Hc2) in Hcut. exact Hcut. }
  apply in_app_or in HB2. destruct HB2 as [HB2|[<-|[<-|HB2]]].
  - apply Hold. apply in_or_app. left. exact HB2.
  - apply yib_contains_inv in Hc2. rewrite Hidl, Hlenl in Hc2. destruct Hc2 as (Hc & H1 & H2).
    assert (HcB : yib_contains B ro = true) by (apply yib_contains_inv; repeat split; [exact Hc|exact H1|lia]).
    rewrite (Hcan B ro HB HcB) in Hcut. rewrite Hidl.
    destruct (ck ro - ck (yib_id B) =? 0) eqn:E0; [reflexivity|]. apply N.eqb_neq in E0. cbn [yib_b].
    destruct (blk_split (yib_b B) (ck ro - ck (yib_id B))) as [[l2 r2]|] eqn:E2; [|discriminate].
    destruct (yib_split_left_half (yib_b B) k (ck ro - ck (yib_id B)) l r Hwf Hs) as (l3 & r3 & E3); [lia|lia|eexists _, _; exact E2|].
    rewrite E3. reflexivity.
  - apply yib_contains_inv in Hc2. rewrite Hidr, Hlenr in Hc2. cbn [cl ck] in Hc2. destruct Hc2 as (Hc & H1 & H2).
    assert (HcB : yib_contains B ro = true) by (apply yib_contains_inv; repeat split; [exact Hc|lia|lia]).
    rewrite (Hcan B ro HB HcB) in Hcut. rewrite Hidr. cbn [cl ck yib_b].
    destruct (ck ro - (ck (yib_id B) + k) =? 0) eqn:E0; [reflexivity|]. apply N.eqb_neq in E0.
    replace (ck ro - ck (yib_id B) =? 0) with false in Hcut by (symmetry; apply N.eqb_neq; lia).
    destruct (blk_split (yib_b B) (ck ro - ck (yib_id B))) as [[l2 r2]|] eqn:E2; [|discriminate].
    destruct (yib_split_right_half (yib_b B) k (ck ro - ck (yib_id B)) l r Hwf Hs) as (l3 & r3 & E3); [lia|eexists _, _; exact E2|].
    replace (ck ro - (ck (yib_id B) + k)) with (ck ro - ck (yib_id B) - k) by lia. rewrite E3. reflexivity.
  - apply Hold. apply in_or_app. right. right. exact HB2.
Qed.

Lemma yib_clean_end_ok : forall s o, yib_seq_inv s -> yib_cut_after_ok o s = true ->
  exists l s1, yib_clean_end o s = yib_ok (l, s1) /\
    forall ro, yib_cut_before_ok ro s = true -> yib_cut_before_ok ro s1 = true.
Proof.
  intros s o Hinv Ha. pose proof Hinv as (Hok & Hnd & _).
  unfold yib_clean_end, yib_cut_after_ok in *. destruct (yib_get_item o s) as [B|] eqn:G.
  - destruct (yib_get_item_some _ _ _ G) as [HB Hc].
    pose proof (yib_forallb_In _ _ Hok HB) as HokB.
    destruct (ck o - ck (yib_id B) =? yib_len B - 1) eqn:E; [eexists _, _; split; [reflexivity|intros ro Hb; exact Hb]|].
    apply N.eqb_neq in E. apply yib_contains_inv in Hc.
    replace (ck o - ck (yib_id B) + 1 =? yib_len B) with false in Ha by (symmetry; apply N.eqb_neq; lia).
    destruct (blk_split (yib_b B) (ck o - ck (yib_id B) + 1)) as [[l r]|] eqn:Es; [|discriminate].
    destruct (yib_split_at_ok s B _ Hinv HB (ex_intro _ l (ex_intro _ r Es))) as (s1 & E1).
    rewrite E1. cbn [yib_bind]. eexists _, _. split; [reflexivity|]. intros ro Hb.
    destruct (yib_split_at_inv _ _ _ _ E1) as (A & b' & C & l0 & r0 & Es0 & Hid & Hs0 & ->).
    assert (b' = B).
    { apply (yib_ids_distinct s b' B (yib_canon_of_nodup s Hok Hnd) (fun X => yib_forallb_In s X Hok)); [|exact HB|exact Hid].
      rewrite Es0. apply in_or_app. right. left. reflexivity. }
    subst b'. rewrite Es0 in Hinv, Hb. eapply yib_cut_before_ok_after_split; eassumption.
  - eexists _, _. split; [reflexivity|intros ro Hb; exact Hb].
Qed.

Lemma yib_clean_start_ok : forall s ro, yib_seq_inv s -> yib_cut_before_ok ro s = true ->
  exists res, yib_clean_start ro s = yib_ok res.
Proof.
  intros s ro Hinv Hb. pose proof Hinv as (Hok & Hnd & _).
  unfold yib_clean_start, yib_cut_before_ok in *. destruct (yib_get_item ro s) as [B|] eqn:G; [|eexists; reflexivity].
  destruct (yib_get_item_some _ _ _ G) as [HB Hc].
  destruct (ck ro - ck (yib_id B) =? 0); [eexists; reflexivity|].
  destruct (blk_split (yib_b B) (ck ro - ck (yib_id B))) as [[l r]|] eqn:Es; [|discriminate].
  destruct (yib_split_at_ok s B _ Hinv HB (ex_intro _ l (ex_intro _ r Es))) as (s1 & E1).
  rewrite E1. cbn [yib_bind]. eexists. reflexivity.
Qed.

(* the integration of a block that asks only for cuts at character boundaries cannot fail *)
Theorem yib_integrate_succeeds : forall s b pdel,
  yib_seq_ok s = true -> yib_fresh s b = true -> yib_psub b = None -> yib_cut_ok s b = true ->
  exists s', yib_integrate_off s b 0 pdel = yib_ok s'.
Proof.
  intros s b pdel Hok Hfresh Hps Hcut. pose proof Hok as Hok0. apply yib_seq_ok_inv in Hok.
  unfold yib_cut_ok in Hcut. apply andb_prop in Hcut. destruct Hcut as [Hc1 Hc2].
  assert (Hres : exists lrs, yib_resolve b s = yib_ok lrs).
  { unfold yib_resolve. destruct (yib_origin b) as [o|] eqn:Eo.
    - destruct (yib_clean_end_ok s o Hok Hc1) as (l & s1 & E1 & Hb1). rewrite E1. cbn [yib_bind snd fst].
      destruct (yib_clean_end_spec b o s l s1 Hok Eo E1) as (_ & Hinv1 & _).
      destruct (yib_rorigin b) as [ro|].
      + destruct (yib_clean_start_ok s1 ro Hinv1 (Hb1 ro Hc2)) as (res & E2). rewrite E2. cbn [yib_bind]. eexists. reflexivity.
      + cbn [yib_bind]. eexists. reflexivity.
    - cbn [yib_bind snd fst]. destruct (yib_rorigin b) as [ro|].
      + destruct (yib_clean_start_ok s ro Hok Hc2) as (res & E2). rewrite E2. cbn [yib_bind]. eexists. reflexivity.
      + cbn [yib_bind]. eexists. reflexivity. }
  destruct Hres as ([[l r] s2] & Er).
  unfold yib_integrate_off. rewrite Er. cbn [yib_bind]. change (0 <? 0) with false. cbv iota.
  destruct (yib_resolve_spec s b l r s2 Hok Hfresh Er) as (Ee & (Hok2 & Hnd2 & Hol2) & pre & suf & Hl & Hr).
  destruct (yib_fresh_inv s b Hfresh) as [Hnew _].
  pose proof (yib_new_for_expand s s2 b Ee Hnew) as Hnew2.
  destruct (yib_integrate_ptrs_refines s2 b l r pdel pre suf Hok2 Hnd2 Hol2 Hnew2 Hps Hl Hr) as (n & E1 & _).
  eexists. exact E1.
Qed.
Print Assumptions yib_integrate_succeeds.

(* ================================================================================================ *)
(* D. map entries                                                                                   *)
(* ================================================================================================ *)
(* yib_integrate_ptrs_refines without the restriction to sequences: where the block lands, whatever its
   parent_sub, and for any deleted flag it is stored with (the proof is that of yib_integrate_ptrs_refines) *)
Theorem yib_integrate_ptrs_shape : forall s x left right pdel pre suf,
  forallb yib_blk_ok s = true -> yib_nodupb (yib_ids (yib_expand s)) = true ->
  yib_origins_left (yib_expand s) = true ->
  yib_new_for s x ->
  yib_left_ok x left s pre suf -> yib_right_ok x right s suf ->
  exists n, yib_integrate_ptrs s x left right pdel = yib_ok (yib_link x pdel (pre ++ firstn n suf) (skipn n suf)) /\
    forall dd, yib_expand (pre ++ firstn n suf ++ yib_set_del x dd :: skipn n suf)
    = fold_left yata_insert (yib_ditems (yib_set_del x dd)) (yib_expand s).
Proof.
  intros s x left right pdel pre suf Hok Hnd Hol (Hokx & Hfresh & Hxo) (Es & Hleft) Hright.
  set (n := yib_resolve_conflict x right s suf).
  exists n.
  assert (Hoksuf : forallb yib_blk_ok suf = true).
  { rewrite Es, forallb_app in Hok. apply andb_prop in Hok. apply Hok. }
  assert (Hokpre : forallb yib_blk_ok pre = true).
  { rewrite Es, forallb_app in Hok. apply andb_prop in Hok. apply Hok. }
  assert (Hnd2 : yib_nodupb (yib_ids (yib_expand pre) ++ yib_ids (yib_expand suf)) = true).
  { rewrite <- yib_ids_app, <- yib_expand_app, <- Es. exact Hnd. }
  (* 1. the block-level result *)
  assert (Hcut : match left with None => pre = [] /\ suf = s | Some p => yib_cut_after p s = Some (pre, suf) end).
  { destruct Hleft as [(-> & -> & _)|(P & L & -> & -> & _)].
    - rewrite Es. split; reflexivity.
    - rewrite Es, <- app_assoc. cbn [app]. apply yib_cut_after_app; [|reflexivity].
      intros B HB E.
      assert (HokB : yib_blk_ok B = true).
      { eapply yib_forallb_In; [exact Hokpre|]. apply in_or_app. left. exact HB. }
      assert (HokL : yib_blk_ok L = true).
      { eapply yib_forallb_In; [exact Hokpre|]. apply in_or_app. right. left. reflexivity. }
      rewrite forallb_app in Hokpre. apply andb_prop in Hokpre. destruct Hokpre as [HokP _].
      rewrite yib_expand_app, yib_ids_app, <- app_assoc in Hnd2.
      eapply (yib_nodupb_app _ _ (yib_id B) Hnd2).
      + eapply yib_contains_expand; [exact HokP|exact HB|]. apply yib_contains_own_id. exact HokB.
      + apply in_or_app. left. cbn [yib_expand flat_map]. rewrite app_nil_r. apply yib_mem_In.
        rewrite yib_contains_ids by exact HokL. rewrite E. apply yib_contains_own_id. exact HokL. }
  assert (Hres : yib_integrate_ptrs s x left right pdel =
                 yib_ok (yib_link x pdel (pre ++ firstn n suf) (skipn n suf))).
  { assert (En : (if yib_detect_conflict left right suf then yib_resolve_conflict x right s suf else O) = n).
    { destruct (yib_detect_conflict left right suf) eqn:Ed; [reflexivity|].
      symmetry. eapply yib_no_conflict_loop_zero. exact Ed. }
    unfold yib_integrate_ptrs. destruct left as [lp|].
    - rewrite Hcut, En. reflexivity.
    - destruct Hcut as [Ep Esf]. clearbody n. subst suf. cbv beta iota zeta. rewrite En.
      rewrite Ep. reflexivity. }
  split; [exact Hres|]. intros d.
  (* 2. the unit level *)
  destruct (yib_ditems_set_del x d Hokx)
    as (xi & xo & xro & xp & xps & xc & Ex & Edit & Hlen & Hpos).
  destruct xi as [c k]. cbn [cl ck] in Edit.
  destruct (content_units xc) as [|u us] eqn:Ecu; [cbn [length] in Hlen; lia|].
  set (u0 := mkditem (mkop (mkid c k) xo xro xp xps u) d).
  assert (Exo : yib_origin x = xo) by (rewrite Ex; reflexivity).
  assert (Exro : yib_rorigin x = xro) by (rewrite Ex; reflexivity).
  assert (Exid : yib_id x = mkid c k) by (rewrite Ex; reflexivity).
  assert (Hxr : forall i, yib_contains x i = true <-> cl i = c /\ k <= ck i /\ ck i <= k + N.of_nat (length us)).
  { intros i. rewrite Ex. unfold yib_contains, yib_id, yib_len. cbn [yib_b block_id block_len cl ck].
    rewrite <- Hlen. cbn [length]. rewrite !andb_true_iff, N.eqb_eq, N.leb_le, N.ltb_lt. split.
    - intros [[H1 H2] H3]. repeat split; [congruence|exact H2|lia].
    - intros (H1 & H2 & H3). repeat split; [congruence|exact H2|lia]. }
  (* the scan of the first unit *)
  assert (Hscan : yata_scan (d_op u0) (yib_expand suf) 0 0 [] [] = length (yib_expand (firstn n suf))).
  { apply (yib_conflict_loop_spec x (d_op u0) right s pre suf); try assumption.
    - cbn. symmetry. exact Exo.
    - cbn. symmetry. exact Exro.
    - cbn. rewrite Exid. reflexivity.
    - intros o Ho Hin. destruct Hleft as [(_ & _ & Habs)|(P & L & EP & _ & HoL)].
      + apply (Habs o Ho). rewrite Es, yib_expand_app, yib_ids_app. apply in_or_app. right. exact Hin.
      + rewrite Ho in HoL. injection HoL as ->.
        eapply (yib_nodupb_app _ _ (yib_last_id L) Hnd2); [|exact Hin].
        assert (HokL : yib_blk_ok L = true).
        { eapply yib_forallb_In; [exact Hokpre|]. rewrite EP. apply in_or_app. right. left. reflexivity. }
        destruct (yib_ditems_last L HokL) as (init & ul & El & Hul).
        rewrite EP, yib_expand_app, yib_ids_app. apply in_or_app. right. cbn [yib_expand flat_map].
        rewrite app_nil_r, El, yib_ids_app. apply in_or_app. right. left. exact Hul. }
  (* the first unit *)
  assert (Hfirst : yata_insert (yib_expand s) u0 =
                   (yib_expand pre ++ yib_expand (firstn n suf)) ++ u0 :: yib_expand (skipn n suf)).
  { assert (Hsplit : match oorigin (d_op u0) with
                     | None => ([], yib_expand s)
                     | Some o => match split_after o (yib_expand s) with Some pp => pp | None => ([], yib_expand s) end
                     end = (yib_expand pre, yib_expand suf)).
    { cbn [u0 d_op oorigin]. rewrite <- Exo. destruct Hleft as [(_ & -> & Habs)|(P & L & EP & _ & HoL)].
      - rewrite Es. cbn [app yib_expand flat_map]. destruct (yib_origin x) as [o|]; [|reflexivity].
        replace (split_after o (flat_map yib_ditems suf)) with (@None (list ditem * list ditem)); [reflexivity|].
        symmetry. apply split_after_none. intros z Hz E. apply (Habs o eq_refl).
        rewrite Es. cbn [app]. unfold yib_ids. rewrite <- E. apply in_map. exact Hz.
      - rewrite HoL.
        assert (HokL : yib_blk_ok L = true).
        { eapply yib_forallb_In; [exact Hokpre|]. rewrite EP. apply in_or_app. right. left. reflexivity. }
        destruct (yib_ditems_last L HokL) as (init & ul & El & Hul).
        assert (Epre : yib_expand pre = (yib_expand P ++ init) ++ [ul]).
        { rewrite EP, yib_expand_app. cbn [yib_expand flat_map]. rewrite app_nil_r, El, app_assoc. reflexivity. }
        rewrite Es, yib_expand_app, Epre, <- app_assoc. cbn [app].
        rewrite (split_after_first (yib_last_id L) (yib_expand P ++ init) ul (yib_expand suf)); [reflexivity| |exact Hul].
        intros z Hz E. rewrite Epre, yib_ids_app in Hnd2. apply yib_nodupb_app_l in Hnd2.
        eapply (yib_nodupb_app _ _ (yib_last_id L) Hnd2).
        + unfold yib_ids. rewrite <- E. apply in_map. exact Hz.
        + left. exact Hul. }
    unfold yata_insert. rewrite Hsplit, Hscan.
    assert (Esuf : yib_expand suf = yib_expand (firstn n suf) ++ yib_expand (skipn n suf)).
    { rewrite <- yib_expand_app, firstn_skipn. reflexivity. }
    rewrite Esuf at 1 2. rewrite blk_firstn_app_len, blk_skipn_app_len, app_assoc. reflexivity. }
  rewrite Edit. cbn [yib_dunits fold_left]. fold u0. rewrite Hfirst.
  rewrite yib_fold_chain.
  - rewrite !yib_expand_app, yib_expand_cons. rewrite Edit.
    cbn [yib_dunits]. fold u0. rewrite <- !app_assoc. reflexivity.
  - reflexivity.
  - intros z Hz Hr. assert (Hzs : In z (yib_expand s)).
    { rewrite Es, yib_expand_app. apply in_app_or in Hz. apply in_or_app. destruct Hz as [Hz|Hz]; [left; exact Hz|right].
      rewrite <- (firstn_skipn n suf), yib_expand_app. apply in_or_app. left. exact Hz. }
    destruct (Hfresh z Hzs) as [Hf _]. apply Hxr in Hr. congruence.
  - destruct (yib_expand (skipn n suf)) as [|o R'] eqn:ER; [exact I|].
    assert (Hos : In o (yib_expand s)).
    { rewrite Es, yib_expand_app. apply in_or_app. right.
      rewrite <- (firstn_skipn n suf), yib_expand_app. apply in_or_app. right. rewrite ER. left. reflexivity. }
    split.
    + intros j H1 H2 E. destruct (Hfresh o Hos) as [_ Hf]. specialize (Hf _ E).
      assert (yib_contains x (mkid c j) = true) by (apply Hxr; cbn [cl ck]; repeat split; assumption). congruence.
    + eapply yib_origins_left_In; eassumption.
Qed.
Print Assumptions yib_integrate_ptrs_shape.

Lemma yib_mark_deleted_app : forall A y r i, (forall z, In z A -> did z <> i) -> did y = i ->
  mark_deleted i (A ++ y :: r) = A ++ mkditem (d_op y) true :: r.
Proof.
  induction A as [|h t IH]; intros y r i Hn Hy; cbn [app mark_deleted].
  - rewrite Hy, id_eqb_refl. reflexivity.
  - replace (id_eqb (did h) i) with false by (symmetry; apply id_eqb_neq; apply Hn; left; reflexivity).
    rewrite IH; [reflexivity| |exact Hy]. intros z Hz. apply Hn. right. exact Hz.
Qed.

Lemma yib_one_unit : forall x, yib_blk_ok x = true -> yib_len x = 1 ->
  exists o, oid o = yib_id x /\ forall dd, yib_ditems (yib_set_del x dd) = [mkditem o dd].
Proof.
  intros x Hok Hlen.
  destruct (yib_ditems_set_del x true Hok) as (xi & xo & xro & xp & xps & xc & Ex & _ & Hl & _).
  assert (Hc : content_len xc = 1) by (rewrite Ex in Hlen; exact Hlen).
  destruct (content_units xc) as [|u [|u2 us]] eqn:Ecu; cbn [length] in Hl; try lia.
  exists (mkop (mkid (cl xi) (ck xi)) xo xro xp xps u). split; [rewrite Ex; destruct xi; reflexivity|].
  intros dd. rewrite Ex. unfold yib_set_del. cbn [yib_b]. rewrite yib_ditems_item, Ecu. reflexivity.
Qed.

Lemma yib_resolve_len1 : forall s b, (forall B, In B s -> yib_len B = 1) ->
  exists l r, yib_resolve b s = yib_ok (l, r, s).
Proof.
  intros s b Hlen.
  assert (Hce : forall o, exists l, yib_clean_end o s = yib_ok (l, s)).
  { intros o. unfold yib_clean_end. destruct (yib_get_item o s) as [B|] eqn:G; [|eexists; reflexivity].
    destruct (yib_get_item_some _ _ _ G) as [HB Hc]. apply yib_contains_inv in Hc. rewrite (Hlen B HB) in *.
    replace (ck o - ck (yib_id B) =? 1 - 1) with true by (symmetry; apply N.eqb_eq; lia). eexists. reflexivity. }
  assert (Hcs : forall o, exists l, yib_clean_start o s = yib_ok (l, s)).
  { intros o. unfold yib_clean_start. destruct (yib_get_item o s) as [B|] eqn:G; [|eexists; reflexivity].
    destruct (yib_get_item_some _ _ _ G) as [HB Hc]. apply yib_contains_inv in Hc. rewrite (Hlen B HB) in *.
    replace (ck o - ck (yib_id B) =? 0) with true by (symmetry; apply N.eqb_eq; lia). eexists. reflexivity. }
  unfold yib_resolve. destruct (yib_origin b) as [o|].
  - destruct (Hce o) as (l & ->). cbn [yib_bind fst snd]. destruct (yib_rorigin b) as [ro|].
    + destruct (Hcs ro) as (r & ->). eexists _, _. reflexivity.
    + eexists _, _. reflexivity.
  - cbn [yib_bind fst snd]. destruct (yib_rorigin b) as [ro|].
    + destruct (Hcs ro) as (r & ->). eexists _, _. reflexivity.
    + eexists _, _. reflexivity.
Qed.

(* THEOREM 5 (one-unit entries): integrating an entry into the chain of its key refines the keyed list of
   Doc.integrate_op.  The chain afterwards, with its deleted flags, is yib_umap_step of the unit. *)
Theorem yib_map_entry_refines : forall s b key s',
  yib_seq_ok s = true -> yib_fresh s b = true -> yib_psub b = Some key ->
  yib_len b = 1 -> (forall B, In B s -> yib_len B = 1) ->
  yib_integrate s b = yib_ok s' ->
  exists u, yib_ditems (yib_arrival b false) = [u] /\ yib_expand s' = yib_umap_step (yib_expand s) u.
Proof.
  intros s b key s' Hok Hfresh Hps Hlb Hls H. apply yib_seq_ok_inv in Hok.
  destruct (yib_resolve_len1 s b Hls) as (l & r & Er).
  unfold yib_integrate, yib_integrate_off in H. rewrite Er in H. cbn [yib_bind] in H.
  change (0 <? 0) with false in H. cbv iota in H.
  destruct (yib_resolve_spec s b l r s Hok Hfresh Er) as (_ & _ & pre & suf & Hl & Hr).
  pose proof Hok as (Hoks & Hnds & Hols).
  destruct (yib_fresh_inv s b Hfresh) as [Hnew _]. pose proof Hnew as (Hokb & Hfr & _).
  destruct (yib_integrate_ptrs_shape s b l r false pre suf Hoks Hnds Hols Hnew Hl Hr) as (n & E1 & Hexp).
  rewrite E1 in H. injection H as <-.
  destruct (yib_one_unit b Hokb Hlb) as (o & Hoid & Hdit).
  set (d0 := yib_is_deleted_content b || yib_del b || false).
  exists (mkditem o d0). split; [unfold yib_arrival; fold d0; apply Hdit|].
  set (before := pre ++ firstn n suf) in *. set (after := skipn n suf) in *.
  assert (Es : s = before ++ after).
  { unfold before, after. rewrite <- app_assoc, firstn_skipn. apply Hl. }
  assert (Hins : forall dd, yata_insert (yib_expand s) (mkditem o dd) =
                            yib_expand before ++ mkditem o dd :: yib_expand after).
  { intros dd. specialize (Hexp dd). rewrite Hdit in Hexp. cbn [fold_left] in Hexp. rewrite <- Hexp.
    unfold before, after. rewrite app_assoc, yib_expand_app, yib_expand_cons, Hdit. reflexivity. }
  assert (HA : forall z, In z (yib_expand before) -> did z <> did (mkditem o d0)).
  { intros z Hz E. destruct (Hfr z) as [Hf _]; [rewrite Es, yib_expand_app; apply in_or_app; left; exact Hz|].
    rewrite E in Hf. change (did (mkditem o d0)) with (oid o) in Hf. rewrite Hoid, yib_contains_own_id in Hf by exact Hokb. discriminate. }
  unfold yib_umap_step. rewrite Hins.
  rewrite (split_after_first (did (mkditem o d0)) (yib_expand before) (mkditem o d0) (yib_expand after) HA eq_refl).
  unfold yib_link. rewrite Hps.
  destruct after as [|B1 after'] eqn:Eaf.
  - cbn [yib_expand flat_map]. rewrite rev_app_distr. cbn [rev app].
    destruct (rev before) as [|LB rb] eqn:Erb.
    + assert (before = []) by (rewrite <- (rev_involutive before), Erb; reflexivity).
      rewrite H. unfold yib_delete_last. cbn [rev app yib_expand flat_map]. fold d0. rewrite Hdit. reflexivity.
    + assert (Eb : before = rev rb ++ [LB]) by (rewrite <- (rev_involutive before), Erb; reflexivity).
      rewrite Eb. unfold yib_delete_last. rewrite rev_app_distr. cbn [rev app]. rewrite rev_involutive.
      assert (HLB : In LB s) by (rewrite Es, Eb; apply in_or_app; left; apply in_or_app; right; left; reflexivity).
      destruct (yib_one_unit LB (yib_forallb_In s LB Hoks HLB) (Hls LB HLB)) as (oL & HoidL & HditL).
      assert (EL : yib_ditems LB = [mkditem oL (yib_del LB)]).
      { rewrite <- (HditL (yib_del LB)). destruct LB; reflexivity. }
      rewrite !yib_expand_app. cbn [yib_expand flat_map]. rewrite !app_nil_r, EL, HditL. fold d0. rewrite Hdit.
      rewrite rev_app_distr. cbn [rev app].
      rewrite <- !app_assoc. cbn [app].
      rewrite yib_mark_deleted_app; [reflexivity| |reflexivity].
      intros z Hz E. rewrite Es, Eb, !yib_expand_app, !yib_ids_app in Hnds. cbn [yib_expand flat_map] in Hnds.
      rewrite app_nil_r, EL in Hnds.
      eapply (yib_nodupb_app _ _ (did z) Hnds); [unfold yib_ids; apply in_map; exact Hz|].
      rewrite E. left. reflexivity.
  - assert (HokB1 : yib_blk_ok B1 = true).
    { apply (yib_forallb_In s B1 Hoks). rewrite Es. apply in_or_app. right. left. reflexivity. }
    destruct (yib_ditems_head B1 HokB1) as (u1 & r1 & Eu1 & _).
    rewrite yib_expand_cons, Eu1. cbn [app].
    rewrite yib_mark_deleted_app; [|exact HA|reflexivity].
    rewrite yib_expand_app, yib_expand_cons, Hdit, yib_expand_cons, Eu1. reflexivity.
Qed.
Print Assumptions yib_map_entry_refines.
