(* Proofs about the flat undo / redo model of Crdt/Undo.v and the oracle of Crdt/UndoSpec.v (C12).

   A. inverse_law_holds : inverse_law.
        THE INVERSE LAW, UNBOUNDED, no added hypothesis: every program of capture steps, undo calls and redo
        calls (no other origin), started from ustate0 / mirror0, is accepted by the mirror oracle.
        Method: an abstract representation of the state by LINEAGES (Section "abstract representation"):
        a sequence is a list of blocks (newest copy first, only the head may be live, the copy sits
        immediately before the tombstone it re-creates), a map chain is a list of units labelled with the
        root of their lineage (the redone pointer is the next unit to the right with the same root).  Every
        concrete operation of Undo.v is shown to be an abstract operation on a concretised state
        (conc_ins, conc_del, conc_set, conc_rem, conc_redo_seq, conc_redo_map, conc_delete_id, follow_conc).
        The content is a function `render` of the set of live roots (cont_render).  A stack entry denotes the
        transformation `tau` on sets of live roots; the run invariant INV says that mu / mr are the renders
        of the iterated transformations of the current live set (ulist / rlist), that every such set holds at
        most one root per key (kex), and that the entries are well placed (ent_ok, STK).  uprocess_spec:
        processing an entry E turns the live set S into tau E S and pushes an entry whose transformation
        leads back to S (TS, TS_entry); walk_ok: the walk to the right in ItemPtr::redo succeeds.
      inverse_law_bounded : the exhaustive check that was run BEFORE attempting the proof (kept).
      tracked_run_invariant : every tracked run ends in a concretised well-formed abstract state.
   B. undo_redo_keep_foreign_units : with other origins editing (programs may contain AOther), a live unit
        that another origin inserted is still live after an undo call and after a redo call
        (frun threads the ids allocated by AOther actions).
   C. undo_never_touches_other_keys_or_values : for EVERY state and action, every unit survives with the
        same id and value, and a deleted unit stays deleted.
   D. non-vacuity examples (ex_passed_over, ex_key_older, ex_key_older2, ex_recreated_range).

   Standard library only; every theorem is closed under the global context. *)
From Coq Require Import List NArith Bool Lia Arith Permutation.
From YV Require Import Crdt.Undo Crdt.UndoSpec.
Import ListNotations.
Open Scope N_scope.

Local Arguments N.add : simpl never.
Local Arguments N.ltb : simpl never.
Local Arguments N.eqb : simpl never.



(* ---------------------------------------------------------------------------------------------- *)
(* C. units are never lost, values never change, deletion is monotone *)

Definition ukeeps (x x' : uitem) : Prop :=
  u_id x' = u_id x /\ u_val x' = u_val x /\ (u_del x = true -> u_del x' = true).
Definition keeps (l l' : list uitem) : Prop :=
  forall x, In x l -> exists x', In x' l' /\ ukeeps x x'.

Lemma ukeeps_refl x : ukeeps x x.
Proof. repeat split; auto. Qed.
Lemma ukeeps_set_del x : ukeeps x (set_del x).
Proof. repeat split; auto. Qed.
Lemma ukeeps_set_red x r : ukeeps x (set_red x r).
Proof. repeat split; auto. Qed.

Lemma keeps_refl l : keeps l l.
Proof. intros x Hx. exists x. split; auto using ukeeps_refl. Qed.
Lemma keeps_trans l1 l2 l3 : keeps l1 l2 -> keeps l2 l3 -> keeps l1 l3.
Proof.
  intros H1 H2 x Hx. destruct (H1 x Hx) as (y & Hy & (A1 & A2 & A3)).
  destruct (H2 y Hy) as (z & Hz & (B1 & B2 & B3)). exists z. split; auto.
  repeat split; try congruence. auto.
Qed.
Lemma keeps_app l1 l2 r1 r2 : keeps l1 r1 -> keeps l2 r2 -> keeps (l1 ++ l2) (r1 ++ r2).
Proof.
  intros H1 H2 x Hx. apply in_app_or in Hx. destruct Hx as [Hx | Hx].
  - destruct (H1 x Hx) as (y & Hy & K). exists y. split; auto. apply in_or_app; auto.
  - destruct (H2 x Hx) as (y & Hy & K). exists y. split; auto. apply in_or_app; auto.
Qed.
Lemma keeps_cons x x' l l' : ukeeps x x' -> keeps l l' -> keeps (x :: l) (x' :: l').
Proof.
  intros Hx Hl y [<- | Hy].
  - exists x'. split; [left; auto | auto].
  - destruct (Hl y Hy) as (z & Hz & K). exists z. split; [right; auto | auto].
Qed.
Lemma keeps_skip x' l l' : keeps l l' -> keeps l (x' :: l').
Proof. intros Hl y Hy. destruct (Hl y Hy) as (z & Hz & K). exists z. split; [right; auto | auto]. Qed.
Lemma keeps_app_r l r : keeps l (l ++ r).
Proof. intros x Hx. exists x. split; [apply in_or_app; auto | apply ukeeps_refl]. Qed.

Lemma keeps_insert_before_visible l pos x : keeps l (insert_before_visible l pos x).
Proof.
  revert pos. induction l as [| y r IH]; intros pos; cbn.
  - intros z [].
  - destruct (u_del y).
    + apply keeps_cons; auto using ukeeps_refl.
    + destruct pos as [| p].
      * apply keeps_skip. apply keeps_refl.
      * apply keeps_cons; auto using ukeeps_refl.
Qed.

Lemma keeps_delete_visible l pos : keeps l (fst (delete_visible l pos)).
Proof.
  revert pos. induction l as [| y r IH]; intros pos; cbn.
  - intros z [].
  - destruct (u_del y).
    + specialize (IH pos). destruct (delete_visible r pos) as [r' o]. cbn in *.
      apply keeps_cons; auto using ukeeps_refl.
    + destruct pos as [| p]; cbn.
      * apply keeps_cons; auto using ukeeps_set_del, keeps_refl.
      * specialize (IH p). destruct (delete_visible r p) as [r' o]. cbn in *.
        apply keeps_cons; auto using ukeeps_refl.
Qed.

Lemma keeps_delete_last c : keeps c (fst (delete_last c)).
Proof.
  induction c as [| y r IH]; cbn.
  - intros z [].
  - destruct r as [| y2 r2].
    + destruct (u_del y); cbn; apply keeps_cons; auto using ukeeps_refl, ukeeps_set_del, keeps_refl.
    + destruct (delete_last (y2 :: r2)) as [r' o]. cbn in *.
      apply keeps_cons; auto using ukeeps_refl.
Qed.

Lemma keeps_umark_deleted l i : keeps l (umark_deleted l i).
Proof.
  induction l as [| y r IH]; cbn.
  - intros z [].
  - destruct (u_id y =? i).
    + apply keeps_cons; auto using ukeeps_set_del, keeps_refl.
    + apply keeps_cons; auto using ukeeps_refl.
Qed.

Lemma keeps_redo_in_seq l i fresh : keeps l (fst (redo_in_seq l i fresh)).
Proof.
  induction l as [| y r IH]; cbn.
  - intros z [].
  - destruct (u_id y =? i); cbn.
    + apply keeps_skip. apply keeps_cons; auto using ukeeps_set_red, keeps_refl.
    + destruct (redo_in_seq r i fresh) as [r' b]. cbn in *. apply keeps_cons; auto using ukeeps_refl.
Qed.

Lemma keeps_map_set_red c i fresh :
  keeps c (map (fun z => if u_id z =? i then set_red z fresh else z) c).
Proof.
  induction c as [| y r IH]; cbn.
  - intros z [].
  - apply keeps_cons; auto. destruct (u_id y =? i); auto using ukeeps_set_red, ukeeps_refl.
Qed.

Lemma keeps_redo_in_chain c i fresh td s1 s2 c' :
  redo_in_chain c i fresh td s1 s2 = Some c' -> keeps c c'.
Proof.
  unfold redo_in_chain. destruct (ufind c i) as [y |]; [| discriminate].
  destruct (walk_right _ _ _ _ _ _); [| discriminate].
  pose proof (keeps_delete_last (map (fun z => if u_id z =? i then set_red z fresh else z) c)) as K.
  destruct (delete_last _) as [c'' o]. cbn in K. intros E. inversion E; subst c'.
  eapply keeps_trans; [apply keeps_map_set_red |]. eapply keeps_trans; [apply K |]. apply keeps_app_r.
Qed.

Lemma keeps_redo_in_maps (m : list (N * list uitem)) i fresh td s1 s2 m' :
  redo_in_maps m i fresh td s1 s2 = Some m' -> keeps (flat_map snd m) (flat_map snd m').
Proof.
  revert m'. induction m as [| [k c] r IH]; intros m'; cbn.
  - discriminate.
  - destruct (existsb _ c).
    + destruct (redo_in_chain c i fresh td s1 s2) as [c' |] eqn:E; cbn; [| discriminate].
      intros H; inversion H; subst m'. cbn. apply keeps_app; [eapply keeps_redo_in_chain; eauto | apply keeps_refl].
    + destruct (redo_in_maps r i fresh td s1 s2) as [r' |] eqn:E; cbn; [| discriminate].
      intros H; inversion H; subst m'. cbn. apply keeps_app; [apply keeps_refl | auto].
Qed.

Lemma keeps_set_chain (m : list (N * list uitem)) k c' :
  keeps (chain_of m k) c' -> keeps (flat_map snd m) (flat_map snd (set_chain m k c')).
Proof.
  induction m as [| [k' c] r IH]; cbn; intros H.
  - intros z [].
  - destruct (k' =? k); cbn.
    + apply keeps_app; auto using keeps_refl.
    + apply keeps_app; auto using keeps_refl.
Qed.

Lemma keeps_map_umark (m : list (N * list uitem)) i :
  keeps (flat_map snd m) (flat_map snd (map (fun kc => (fst kc, umark_deleted (snd kc) i)) m)).
Proof.
  induction m as [| [k c] r IH]; cbn.
  - intros z [].
  - apply keeps_app; auto using keeps_umark_deleted.
Qed.

Definition skeeps (s s' : ustate) : Prop := keeps (all_items s) (all_items s').
Lemma skeeps_refl s : skeeps s s.
Proof. apply keeps_refl. Qed.
Lemma skeeps_trans s1 s2 s3 : skeeps s1 s2 -> skeeps s2 s3 -> skeeps s1 s3.
Proof. apply keeps_trans. Qed.

Lemma skeeps_do_call s c : skeeps s (fst (do_call s c)).
Proof.
  unfold skeeps, all_items. destruct c as [pos v | pos | k v | k]; cbn.
  - apply keeps_app; auto using keeps_refl, keeps_insert_before_visible.
  - pose proof (keeps_delete_visible (seqc s) pos) as K.
    destruct (delete_visible (seqc s) pos) as [l o]. cbn in *. apply keeps_app; auto using keeps_refl.
  - pose proof (keeps_delete_last (chain_of (mapc s) k)) as K.
    destruct (delete_last (chain_of (mapc s) k)) as [c0 o]. cbn in *.
    apply keeps_app; auto using keeps_refl. apply keeps_set_chain.
    eapply keeps_trans; [apply K | apply keeps_app_r].
  - pose proof (keeps_delete_last (chain_of (mapc s) k)) as K.
    destruct (delete_last (chain_of (mapc s) k)) as [c0 o]. cbn in *.
    apply keeps_app; auto using keeps_refl. destruct o; auto using keeps_refl. apply keeps_set_chain; auto.
Qed.

Lemma skeeps_do_txn_gen cs : forall s e, skeeps s (fst (fold_left (fun acc c => let '(s1, e1) := acc in let '(s2, e2) := do_call s1 c in (s2, eff_app e1 e2)) cs (s, e))).
Proof.
  induction cs as [| c r IH]; intros s e; cbn.
  - apply skeeps_refl.
  - pose proof (skeeps_do_call s c) as K. destruct (do_call s c) as [s2 e2]. cbn in K.
    eapply skeeps_trans; [apply K | apply IH].
Qed.
Lemma skeeps_do_txn s cs : skeeps s (fst (do_txn s cs)).
Proof. apply skeeps_do_txn_gen. Qed.

Lemma skeeps_txns txns : forall s e, skeeps s (fst (fold_left (fun acc cs => let '(s1, e1) := acc in let '(s2, e2) := do_txn s1 cs in (s2, eff_app e1 e2)) txns (s, e))).
Proof.
  induction txns as [| cs r IH]; intros s e; cbn.
  - apply skeeps_refl.
  - pose proof (skeeps_do_txn s cs) as K. destruct (do_txn s cs) as [s2 e2]. cbn in K.
    eapply skeeps_trans; [apply K | apply IH].
Qed.

Lemma skeeps_tracked_step s txns : skeeps s (tracked_step s txns).
Proof.
  unfold tracked_step. pose proof (skeeps_txns txns s eff0) as K.
  destruct (fold_left _ txns (s, eff0)) as [s' e]. cbn in K.
  destruct (eff_empty e); auto.
Qed.

Lemma skeeps_delete_id s i : skeeps s (delete_id s i).
Proof.
  unfold skeeps, all_items, delete_id; cbn. apply keeps_app; auto using keeps_umark_deleted, keeps_map_umark.
Qed.

Lemma skeeps_redo_item s i td s1 s2 : skeeps s (fst (fst (redo_item s i td s1 s2))).
Proof.
  unfold redo_item. destruct (ufind (all_items s) i) as [y |]; [| apply skeeps_refl].
  destruct (u_red y); [apply skeeps_refl |].
  destruct (existsb _ (seqc s)).
  - pose proof (keeps_redo_in_seq (seqc s) i (unext s)) as K.
    destruct (redo_in_seq (seqc s) i (unext s)) as [l b]. cbn in *.
    unfold skeeps, all_items; cbn. apply keeps_app; auto using keeps_refl.
  - destruct (redo_in_maps (mapc s) i (unext s) td s1 s2) as [m |] eqn:E; cbn; [| apply skeeps_refl].
    unfold skeeps, all_items; cbn. apply keeps_app; auto using keeps_refl. eapply keeps_redo_in_maps; eauto.
Qed.

Lemma skeeps_fold_redo td s1 s2 l : forall s c e,
  skeeps s (fst (fst (fold_left (fun acc i => let '(s0, c0, e0) := acc in
                                              let '(s1', c1, e1) := redo_item s0 i td s1 s2 in (s1', c0 || c1, eff_app e0 e1))
                                 l (s, c, e)))).
Proof.
  induction l as [| i r IH]; intros s c e; cbn.
  - apply skeeps_refl.
  - pose proof (skeeps_redo_item s i td s1 s2) as K. destruct (redo_item s i td s1 s2) as [[s1' c1] e1]. cbn in K.
    eapply skeeps_trans; [apply K | apply IH].
Qed.

Lemma skeeps_fold_delete l : forall s, skeeps s (fold_left delete_id l s).
Proof.
  induction l as [| i r IH]; intros s; cbn.
  - apply skeeps_refl.
  - eapply skeeps_trans; [apply skeeps_delete_id | apply IH].
Qed.

Lemma skeeps_uprocess s it s1 s2 : skeeps s (fst (fst (uprocess s it s1 s2))).
Proof.
  unfold uprocess.
  match goal with |- context [fold_left ?f ?l (s, false, eff0)] => pose proof (skeeps_fold_redo (st_ins it) s1 s2 l s false eff0) as K; destruct (fold_left f l (s, false, eff0)) as [[sa ca] ea] end.
  cbn in *. eapply skeeps_trans; [apply K | apply skeeps_fold_delete].
Qed.

Lemma skeeps_pop_undo fuel : forall s, skeeps s (fst (pop_undo fuel s)).
Proof.
  induction fuel as [| f IH]; intros s; cbn.
  - apply skeeps_refl.
  - destruct (ustack s) as [| it rest]; [apply skeeps_refl |].
    pose proof (skeeps_uprocess s it rest (rstack s)) as K.
    destruct (uprocess s it rest (rstack s)) as [[s' changed] e]. cbn in K.
    destruct changed; cbn; auto.
    eapply skeeps_trans; [apply K |]. eapply skeeps_trans; [| apply IH]. apply keeps_refl.
Qed.
Lemma skeeps_pop_redo fuel : forall s, skeeps s (fst (pop_redo fuel s)).
Proof.
  induction fuel as [| f IH]; intros s; cbn.
  - apply skeeps_refl.
  - destruct (rstack s) as [| it rest]; [apply skeeps_refl |].
    pose proof (skeeps_uprocess s it rest (ustack s)) as K.
    destruct (uprocess s it rest (ustack s)) as [[s' changed] e]. cbn in K.
    destruct changed; cbn; auto.
    eapply skeeps_trans; [apply K |]. eapply skeeps_trans; [| apply IH]. apply keeps_refl.
Qed.

(* C: for EVERY state (no well-formedness needed) and every action *)
Theorem undo_never_touches_other_keys_or_values : forall s a x,
  In x (all_items s) ->
  exists x', In x' (all_items (uact s a)) /\ u_id x' = u_id x /\ u_val x' = u_val x /\ (u_del x = true -> u_del x' = true).
Proof.
  intros s a. change (skeeps s (uact s a)). destruct a as [txns | cs | |]; unfold uact, other_txn, undo, redo.
  - apply skeeps_tracked_step.
  - apply skeeps_do_txn.
  - apply skeeps_pop_undo.
  - apply skeeps_pop_redo.
Qed.



(* ---------------------------------------------------------------------------------------------- *)
(* B. interference: foreign units survive undo / redo *)

Notation ids := (map u_id).
Definition redsub (l l' : list uitem) (P : N -> Prop) : Prop :=
  forall y' r, In y' l' -> u_red y' = Some r -> (exists y, In y l /\ u_red y = Some r) \/ P r.
Definition deadin (l : list uitem) (i : N) : Prop := exists y, In y l /\ u_id y = i /\ u_del y = true.

Lemma redsub_refl l P : redsub l l P.
Proof. intros y r Hy Hr. left. eauto. Qed.
Lemma redsub_app l1 l2 r1 r2 P : redsub l1 r1 P -> redsub l2 r2 P -> redsub (l1 ++ l2) (r1 ++ r2) P.
Proof.
  intros H1 H2 y r Hy Hr. apply in_app_or in Hy. destruct Hy as [Hy | Hy].
  - destruct (H1 y r Hy Hr) as [(z & Hz & E) | K]; auto. left. exists z. split; auto. apply in_or_app; auto.
  - destruct (H2 y r Hy Hr) as [(z & Hz & E) | K]; auto. left. exists z. split; auto. apply in_or_app; auto.
Qed.
Lemma redsub_cons x x' l l' P : u_red x' = u_red x -> redsub l l' P -> redsub (x :: l) (x' :: l') P.
Proof.
  intros E H y r [<- | Hy] Hr.
  - left. exists x. split; [left; auto | congruence].
  - destruct (H y r Hy Hr) as [(z & Hz & E') | K]; auto. left. exists z. split; [right; auto | auto].
Qed.
Lemma redsub_trans l1 l2 l3 (P Q : N -> Prop) : (forall r, P r -> Q r) -> redsub l1 l2 P -> redsub l2 l3 Q -> redsub l1 l3 Q.
Proof.
  intros PQ H1 H2 y r Hy Hr. destruct (H2 y r Hy Hr) as [(z & Hz & E) | K]; auto.
  destruct (H1 z r Hz E) as [K | K]; auto.
Qed.
Lemma redsub_weaken l l' (P Q : N -> Prop) : (forall r, P r -> Q r) -> redsub l l' P -> redsub l l' Q.
Proof. intros PQ H y r Hy Hr. destruct (H y r Hy Hr); auto. Qed.

Lemma ids_ibv l pos x : Permutation (ids (insert_before_visible l pos x)) (u_id x :: ids l).
Proof.
  revert pos. induction l as [| y r IH]; intros pos; cbn.
  - apply Permutation_refl.
  - destruct (u_del y).
    + cbn. eapply perm_trans; [apply perm_skip, IH | apply perm_swap].
    + destruct pos as [| p]; cbn.
      * apply Permutation_refl.
      * eapply perm_trans; [apply perm_skip, IH | apply perm_swap].
Qed.
Lemma redsub_ibv l pos x P : u_red x = None -> redsub l (insert_before_visible l pos x) P.
Proof.
  intros Hx. revert pos. induction l as [| y r IH]; intros pos; cbn.
  - intros z rr [<- | []] Hr. congruence.
  - destruct (u_del y).
    + apply redsub_cons; auto.
    + destruct pos as [| p].
      * intros z rr [<- | Hz] Hr; [congruence |]. left. eauto.
      * apply redsub_cons; auto.
Qed.

Lemma ids_delete_visible l pos : ids (fst (delete_visible l pos)) = ids l.
Proof.
  revert pos. induction l as [| y r IH]; intros pos; cbn; auto.
  destruct (u_del y).
  - specialize (IH pos). destruct (delete_visible r pos) as [r' o]. cbn in *. congruence.
  - destruct pos as [| p]; cbn; auto. specialize (IH p). destruct (delete_visible r p) as [r' o]. cbn in *. congruence.
Qed.
Lemma redsub_delete_visible l pos P : redsub l (fst (delete_visible l pos)) P.
Proof.
  revert pos. induction l as [| y r IH]; intros pos; cbn.
  - apply redsub_refl.
  - destruct (u_del y).
    + specialize (IH pos). destruct (delete_visible r pos) as [r' o]. cbn in *. apply redsub_cons; auto.
    + destruct pos as [| p]; cbn.
      * apply redsub_cons; auto. apply redsub_refl.
      * specialize (IH p). destruct (delete_visible r p) as [r' o]. cbn in *. apply redsub_cons; auto.
Qed.
Lemma dead_delete_visible l pos i : snd (delete_visible l pos) = Some i -> deadin (fst (delete_visible l pos)) i.
Proof.
  revert pos. induction l as [| y r IH]; intros pos; cbn.
  - discriminate.
  - destruct (u_del y).
    + specialize (IH pos). destruct (delete_visible r pos) as [r' o]. cbn in *. intros H.
      destruct (IH H) as (z & Hz & K). exists z. split; [right; auto | auto].
    + destruct pos as [| p]; cbn.
      * intros H. inversion H; subst. exists (set_del y). split; [left; auto | auto].
      * specialize (IH p). destruct (delete_visible r p) as [r' o]. cbn in *. intros H.
        destruct (IH H) as (z & Hz & K). exists z. split; [right; auto | auto].
Qed.

Lemma delete_last_app c0 w :
  delete_last (c0 ++ [w]) = (c0 ++ [if u_del w then w else set_del w], if u_del w then None else Some (u_id w)).
Proof.
  induction c0 as [| y r IH]; cbn.
  - destruct (u_del w); reflexivity.
  - rewrite IH. destruct (r ++ [w]) eqn:E; [destruct r; discriminate | reflexivity].
Qed.
Lemma delete_last_nil : delete_last [] = ([], None).
Proof. reflexivity. Qed.
Lemma list_last_case {X} (l : list X) : l = [] \/ exists l0 x, l = l0 ++ [x].
Proof.
  destruct l as [| a l]; [left; reflexivity | right].
  destruct (@exists_last X (a :: l)) as (l0 & x & E); [discriminate | eauto].
Qed.

Lemma ids_delete_last c : ids (fst (delete_last c)) = ids c.
Proof.
  destruct (list_last_case c) as [-> | (c0 & w & ->)]; [reflexivity |].
  rewrite delete_last_app. cbn. rewrite !map_app. cbn. destruct (u_del w); reflexivity.
Qed.
Lemma redsub_delete_last c P : redsub c (fst (delete_last c)) P.
Proof.
  destruct (list_last_case c) as [-> | (c0 & w & ->)]; [apply redsub_refl |].
  rewrite delete_last_app. cbn. apply redsub_app; [apply redsub_refl |].
  apply redsub_cons; [destruct (u_del w); reflexivity | apply redsub_refl].
Qed.
Lemma dead_delete_last c i : snd (delete_last c) = Some i -> deadin (fst (delete_last c)) i.
Proof.
  destruct (list_last_case c) as [-> | (c0 & w & ->)]; [discriminate |].
  rewrite delete_last_app. cbn. destruct (u_del w) eqn:D; [discriminate |]. intros H; inversion H; subst.
  exists (set_del w). split; [apply in_or_app; right; left; auto | auto].
Qed.

Lemma ids_umark l i : ids (umark_deleted l i) = ids l.
Proof. induction l as [| y r IH]; cbn; auto. destruct (u_id y =? i); cbn; congruence. Qed.
Lemma redsub_umark l i P : redsub l (umark_deleted l i) P.
Proof.
  induction l as [| y r IH]; cbn; [apply redsub_refl |].
  destruct (u_id y =? i); apply redsub_cons; auto. apply redsub_refl.
Qed.

Lemma ids_redo_in_seq l i fresh :
  existsb (fun z => u_id z =? i) l = true -> Permutation (ids (fst (redo_in_seq l i fresh))) (fresh :: ids l).
Proof.
  induction l as [| y r IH]; cbn; [discriminate |].
  destruct (u_id y =? i); cbn.
  - intros _. apply Permutation_refl.
  - intros H. specialize (IH H). destruct (redo_in_seq r i fresh) as [r' b]. cbn in *.
    eapply perm_trans; [apply perm_skip, IH | apply perm_swap].
Qed.
Lemma redsub_redo_in_seq l i fresh (P : N -> Prop) : P fresh -> redsub l (fst (redo_in_seq l i fresh)) P.
Proof.
  intros HP. induction l as [| y r IH]; cbn; [apply redsub_refl |].
  destruct (u_id y =? i); cbn.
  - intros z rr [<- | [<- | Hz]] Hr; cbn in Hr; try discriminate.
    + inversion Hr; subst; auto.
    + left. exists z. split; [right; auto | auto].
  - destruct (redo_in_seq r i fresh) as [r' b]. cbn in *. apply redsub_cons; auto.
Qed.

Lemma ids_map_set_red c i fresh : ids (map (fun z => if u_id z =? i then set_red z fresh else z) c) = ids c.
Proof. induction c as [| y r IH]; cbn; auto. rewrite IH. destruct (u_id y =? i); reflexivity. Qed.
Lemma redsub_map_set_red c i fresh (P : N -> Prop) : P fresh -> redsub c (map (fun z => if u_id z =? i then set_red z fresh else z) c) P.
Proof.
  intros HP. induction c as [| y r IH]; cbn; [apply redsub_refl |].
  intros z rr [<- | Hz] Hr.
  - destruct (u_id y =? i); cbn in Hr.
    + inversion Hr; subst; auto.
    + left. exists y. split; [left; auto | auto].
  - destruct (IH z rr Hz Hr) as [(w & Hw & E) | K]; auto. left. exists w. split; [right; auto | auto].
Qed.

Lemma ids_redo_in_chain c i fresh td s1 s2 c' :
  redo_in_chain c i fresh td s1 s2 = Some c' -> ids c' = ids c ++ [fresh].
Proof.
  unfold redo_in_chain. destruct (ufind c i) as [y |]; [| discriminate].
  destruct (walk_right _ _ _ _ _ _); [| discriminate].
  pose proof (ids_delete_last (map (fun z => if u_id z =? i then set_red z fresh else z) c)) as K.
  destruct (delete_last _) as [c'' o]. cbn in K. intros E. inversion E; subst c'.
  rewrite map_app, K, ids_map_set_red. reflexivity.
Qed.
Lemma redsub_redo_in_chain c i fresh td s1 s2 c' (P : N -> Prop) :
  P fresh -> redo_in_chain c i fresh td s1 s2 = Some c' -> redsub c c' P.
Proof.
  intros HP. unfold redo_in_chain. destruct (ufind c i) as [y |]; [| discriminate].
  destruct (walk_right _ _ _ _ _ _); [| discriminate].
  pose proof (redsub_delete_last (map (fun z => if u_id z =? i then set_red z fresh else z) c) P) as K.
  destruct (delete_last _) as [c'' o]. cbn in K. intros E. inversion E; subst c'.
  intros z rr Hz Hr. apply in_app_or in Hz. destruct Hz as [Hz | [<- | []]]; [| discriminate].
  destruct (K z rr Hz Hr) as [(w & Hw & E') | Q]; auto.
  apply (redsub_map_set_red c i fresh P HP w rr Hw E').
Qed.

Lemma ids_redo_in_maps (m : list (N * list uitem)) i fresh td s1 s2 m' :
  redo_in_maps m i fresh td s1 s2 = Some m' ->
  Permutation (ids (flat_map snd m')) (fresh :: ids (flat_map snd m)).
Proof.
  revert m'. induction m as [| [k c] r IH]; intros m'; cbn; [discriminate |].
  destruct (existsb _ c).
  - destruct (redo_in_chain c i fresh td s1 s2) as [c' |] eqn:E; cbn; [| discriminate].
    intros H; inversion H; subst m'. cbn. rewrite !map_app. rewrite (ids_redo_in_chain _ _ _ _ _ _ _ E).
    rewrite <- app_assoc. cbn. apply Permutation_sym. apply Permutation_middle.
  - destruct (redo_in_maps r i fresh td s1 s2) as [r' |] eqn:E; cbn; [| discriminate].
    intros H; inversion H; subst m'. cbn. rewrite !map_app.
    eapply perm_trans; [apply Permutation_app_head, IH; reflexivity |].
    apply Permutation_sym. apply Permutation_middle.
Qed.
Lemma redsub_redo_in_maps (m : list (N * list uitem)) i fresh td s1 s2 m' (P : N -> Prop) :
  P fresh -> redo_in_maps m i fresh td s1 s2 = Some m' -> redsub (flat_map snd m) (flat_map snd m') P.
Proof.
  intros HP. revert m'. induction m as [| [k c] r IH]; intros m'; cbn; [discriminate |].
  destruct (existsb _ c).
  - destruct (redo_in_chain c i fresh td s1 s2) as [c' |] eqn:E; cbn; [| discriminate].
    intros H; inversion H; subst m'. cbn. apply redsub_app; [eapply redsub_redo_in_chain; eauto | apply redsub_refl].
  - destruct (redo_in_maps r i fresh td s1 s2) as [r' |] eqn:E; cbn; [| discriminate].
    intros H; inversion H; subst m'. cbn. apply redsub_app; [apply redsub_refl | auto].
Qed.

Lemma ids_set_chain (m : list (N * list uitem)) k c' extra :
  ids c' = ids (chain_of m k) ++ extra ->
  Permutation (ids (flat_map snd (set_chain m k c'))) (extra ++ ids (flat_map snd m)).
Proof.
  induction m as [| [k' c] r IH]; cbn; intros H.
  - rewrite app_nil_r in *. cbn in H. rewrite H. rewrite app_nil_r. apply Permutation_refl.
  - destruct (k' =? k); cbn; rewrite !map_app.
    + rewrite H. rewrite (app_assoc extra). apply Permutation_app_tail. apply Permutation_app_comm.
    + eapply perm_trans; [apply Permutation_app_head, IH; auto |].
      rewrite !app_assoc. apply Permutation_app_tail. apply Permutation_app_comm.
Qed.
Lemma redsub_set_chain (m : list (N * list uitem)) k c' P :
  redsub (chain_of m k) c' P -> redsub (flat_map snd m) (flat_map snd (set_chain m k c')) P.
Proof.
  induction m as [| [k' c] r IH]; cbn; intros H.
  - rewrite app_nil_r. auto.
  - destruct (k' =? k); cbn.
    + apply redsub_app; auto using redsub_refl.
    + apply redsub_app; auto using redsub_refl.
Qed.
Lemma ids_map_umark (m : list (N * list uitem)) i :
  ids (flat_map snd (map (fun kc => (fst kc, umark_deleted (snd kc) i)) m)) = ids (flat_map snd m).
Proof. induction m as [| [k c] r IH]; cbn; auto. rewrite !map_app, IH, ids_umark. reflexivity. Qed.
Lemma redsub_map_umark (m : list (N * list uitem)) i P :
  redsub (flat_map snd m) (flat_map snd (map (fun kc => (fst kc, umark_deleted (snd kc) i)) m)) P.
Proof. induction m as [| [k c] r IH]; cbn; [apply redsub_refl |]. apply redsub_app; auto using redsub_umark. Qed.

Lemma nodup_app {X} (l1 l2 : list X) : NoDup l1 -> NoDup l2 -> (forall x, In x l1 -> ~ In x l2) -> NoDup (l1 ++ l2).
Proof.
  induction l1 as [| a l1 IH]; cbn; intros H1 H2 D; auto.
  inversion H1; subst. constructor.
  - intros H. apply in_app_or in H. destruct H as [H | H]; [auto | apply (D a); auto].
  - apply IH; auto.
Qed.

Lemma nodup_app_l {X} (l1 l2 : list X) : NoDup (l1 ++ l2) -> NoDup l1.
Proof.
  induction l1 as [| a l1 IH]; cbn; intros H; [constructor |]. inversion H; subst. constructor; auto.
  intros F. apply H2. apply in_or_app; auto.
Qed.
Lemma nodup_app_r {X} (l1 l2 : list X) : NoDup (l1 ++ l2) -> NoDup l2.
Proof. induction l1 as [| a l1 IH]; cbn; intros H; auto. inversion H; auto. Qed.
Lemma nodup_app_disj {X} (l1 l2 : list X) x : NoDup (l1 ++ l2) -> In x l1 -> In x l2 -> False.
Proof.
  induction l1 as [| a l1 IH]; cbn; intros H H1 H2; [destruct H1 |]. inversion H; subst.
  destruct H1 as [-> | H1]; [apply H4; apply in_or_app; auto | auto].
Qed.

Lemma deadin_keeps l l' i : deadin l i -> keeps l l' -> deadin l' i.
Proof.
  intros (y & Hy & E & D) K. destruct (K y Hy) as (y' & Hy' & (A & _ & C)). exists y'. repeat split; auto. congruence.
Qed.

Record tspec (s s' : ustate) (e : ueff) : Prop := {
  ts_next : unext s <= unext s';
  ts_us : ustack s' = ustack s;
  ts_rs : rstack s' = rstack s;
  ts_perm : Permutation (all_ids s') (e_ins e ++ all_ids s);
  ts_ins : forall i, In i (e_ins e) -> unext s <= i < unext s';
  ts_nodup : NoDup (e_ins e);
  ts_reds : redsub (all_items s) (all_items s') (fun r => unext s <= r < unext s');
  ts_del : forall i, In i (e_del e) -> deadin (all_items s') i;
  ts_keeps : skeeps s s' }.

Lemma tspec_refl s : tspec s s eff0.
Proof.
  constructor; cbn; [lia | reflexivity | reflexivity | apply Permutation_refl | intros i [] | constructor
                    | apply redsub_refl | intros i [] | apply skeeps_refl].
Qed.

Lemma tspec_trans s s1 s2 e1 e2 : tspec s s1 e1 -> tspec s1 s2 e2 -> tspec s s2 (eff_app e1 e2).
Proof.
  intros A B. destruct A as [a1 a2 a3 a4 a5 a6 a7 a8 a9]. destruct B as [b1 b2 b3 b4 b5 b6 b7 b8 b9].
  constructor; cbn; try congruence; try lia.
  - eapply perm_trans; [apply b4 |]. eapply perm_trans; [apply Permutation_app_head, a4 |].
    rewrite app_assoc. apply Permutation_app_tail. apply Permutation_app_comm.
  - intros i Hi. apply in_app_or in Hi. destruct Hi as [Hi | Hi]; [apply a5 in Hi | apply b5 in Hi]; lia.
  - apply nodup_app; auto. intros x H1 H2. apply a5 in H1. apply b5 in H2. lia.
  - apply (redsub_trans _ (all_items s1) _ (fun r => unext s <= r < unext s2) (fun r => unext s <= r < unext s2)); [auto | |].
    + eapply redsub_weaken; [| apply a7]. cbn; intros; lia.
    + eapply redsub_weaken; [| apply b7]. cbn; intros; lia.
  - intros i Hi. apply in_app_or in Hi. destruct Hi as [Hi | Hi]; [| auto]. eapply deadin_keeps; [apply a8; auto | apply b9].
  - eapply skeeps_trans; eauto.
Qed.

Lemma deadin_app_l l r i : deadin l i -> deadin (l ++ r) i.
Proof. intros (y & Hy & K). exists y. split; [apply in_or_app; auto | auto]. Qed.
Lemma deadin_app_r l r i : deadin r i -> deadin (l ++ r) i.
Proof. intros (y & Hy & K). exists y. split; [apply in_or_app; auto | auto]. Qed.
Lemma deadin_set_chain (m : list (N * list uitem)) k c i : deadin c i -> deadin (flat_map snd (set_chain m k c)) i.
Proof.
  induction m as [| [k' c'] r IH]; cbn; intros H.
  - rewrite app_nil_r; auto.
  - destruct (k' =? k); cbn; [apply deadin_app_l; auto | apply deadin_app_r; auto].
Qed.

Lemma tspec_do_call s c : tspec s (fst (do_call s c)) (snd (do_call s c)).
Proof.
  pose proof (skeeps_do_call s c) as KP.
  destruct c as [pos v | pos | k v | k]; cbn in *.
  - constructor; cbn.
    + lia.
    + reflexivity.
    + reflexivity.
    + unfold all_ids, all_items; cbn. rewrite !map_app.
      eapply perm_trans; [apply Permutation_app_tail, ids_ibv |]. cbn. apply Permutation_refl.
    + intros i [<- | []]. lia.
    + repeat constructor. intros [].
    + unfold all_items; cbn. apply redsub_app; [apply redsub_ibv; reflexivity | apply redsub_refl].
    + intros i [].
    + exact KP.
  - pose proof (ids_delete_visible (seqc s) pos) as K1. pose proof (redsub_delete_visible (seqc s) pos (fun r => unext s <= r < unext s)) as K2.
    pose proof (dead_delete_visible (seqc s) pos) as K3.
    destruct (delete_visible (seqc s) pos) as [l o]. cbn in *.
    constructor; cbn.
    + lia.
    + reflexivity.
    + reflexivity.
    + unfold all_ids, all_items; cbn. rewrite !map_app, K1. apply Permutation_refl.
    + intros i [].
    + constructor.
    + unfold all_items; cbn. apply redsub_app; [auto | apply redsub_refl].
    + intros i Hi. destruct o as [j |]; [| destruct Hi]. destruct Hi as [<- | []].
      unfold all_items; cbn. apply deadin_app_l. auto.
    + exact KP.
  - pose proof (ids_delete_last (chain_of (mapc s) k)) as K1.
    pose proof (redsub_delete_last (chain_of (mapc s) k) (fun r => unext s <= r < unext s + 1)) as K2.
    pose proof (dead_delete_last (chain_of (mapc s) k)) as K3.
    destruct (delete_last (chain_of (mapc s) k)) as [c0 o]. cbn in *.
    constructor; cbn.
    + lia.
    + reflexivity.
    + reflexivity.
    + unfold all_ids, all_items; cbn. rewrite !map_app.
      eapply perm_trans; [apply Permutation_app_head, (ids_set_chain _ _ _ [unext s]) |].
      * rewrite map_app, K1. reflexivity.
      * cbn. apply Permutation_sym, Permutation_middle.
    + intros i [<- | []]. lia.
    + repeat constructor. intros [].
    + unfold all_items; cbn. apply redsub_app; [apply redsub_refl |]. apply redsub_set_chain.
      intros z rr Hz Hr. apply in_app_or in Hz. destruct Hz as [Hz | [<- | []]]; [| discriminate]. apply (K2 z rr Hz Hr).
    + intros i Hi. destruct o as [j |]; [| destruct Hi]. destruct Hi as [<- | []].
      unfold all_items; cbn. apply deadin_app_r. apply deadin_set_chain. apply deadin_app_l. auto.
    + exact KP.
  - pose proof (ids_delete_last (chain_of (mapc s) k)) as K1.
    pose proof (redsub_delete_last (chain_of (mapc s) k) (fun r => unext s <= r < unext s)) as K2.
    pose proof (dead_delete_last (chain_of (mapc s) k)) as K3.
    destruct (delete_last (chain_of (mapc s) k)) as [c0 o]. cbn in *.
    constructor; cbn.
    + lia.
    + reflexivity.
    + reflexivity.
    + unfold all_ids, all_items; cbn. rewrite !map_app. apply Permutation_app_head.
      destruct o; [| apply Permutation_refl].
      eapply perm_trans; [apply (ids_set_chain _ _ _ []); rewrite app_nil_r; auto | apply Permutation_refl].
    + intros i [].
    + constructor.
    + unfold all_items; cbn. apply redsub_app; [apply redsub_refl |]. destruct o; [| apply redsub_refl].
      apply redsub_set_chain. auto.
    + intros i Hi. destruct o as [j |]; [| destruct Hi]. destruct Hi as [<- | []].
      unfold all_items; cbn. apply deadin_app_r. apply deadin_set_chain. auto.
    + exact KP.
Qed.

Lemma tspec_fold_calls cs : forall s0 s e, tspec s0 s e ->
  let r := fold_left (fun acc c => let '(s1, e1) := acc in let '(s2, e2) := do_call s1 c in (s2, eff_app e1 e2)) cs (s, e) in
  tspec s0 (fst r) (snd r).
Proof.
  induction cs as [| c r IH]; intros s0 s e H; cbn; auto.
  pose proof (tspec_do_call s c) as K. destruct (do_call s c) as [s2 e2]. cbn in K.
  apply IH. eapply tspec_trans; eauto.
Qed.
Lemma tspec_do_txn s cs : tspec s (fst (do_txn s cs)) (snd (do_txn s cs)).
Proof. apply (tspec_fold_calls cs s s eff0). apply tspec_refl. Qed.

Lemma tspec_fold_txns txns : forall s0 s e, tspec s0 s e ->
  let r := fold_left (fun acc cs => let '(s1, e1) := acc in let '(s2, e2) := do_txn s1 cs in (s2, eff_app e1 e2)) txns (s, e) in
  tspec s0 (fst r) (snd r).
Proof.
  induction txns as [| c r IH]; intros s0 s e H; cbn; auto.
  pose proof (tspec_do_txn s c) as K. destruct (do_txn s c) as [s2 e2]. cbn in K.
  apply IH. eapply tspec_trans; eauto.
Qed.

Lemma tspec_add_del s s' e extra :
  tspec s s' e -> (forall i, In i extra -> deadin (all_items s') i) ->
  tspec s s' {| e_ins := e_ins e; e_del := e_del e ++ extra |}.
Proof.
  intros [a1 a2 a3 a4 a5 a6 a7 a8 a9] H. constructor; cbn; auto.
  intros i Hi. apply in_app_or in Hi. destruct Hi; auto.
Qed.

Lemma ufind_in l i y : ufind l i = Some y -> In y l /\ u_id y = i.
Proof.
  induction l as [| z r IH]; cbn; [discriminate |].
  destruct (u_id z =? i) eqn:E.
  - intros H; inversion H; subst. apply N.eqb_eq in E. auto.
  - intros H. destruct (IH H). auto.
Qed.
Lemma ufind_app l1 l2 i : ufind (l1 ++ l2) i = match ufind l1 i with Some y => Some y | None => ufind l2 i end.
Proof. induction l1 as [| z r IH]; cbn; auto. destruct (u_id z =? i); auto. Qed.
Lemma ufind_none l i : ufind l i = None -> ~ In i (ids l).
Proof.
  induction l as [| z r IH]; cbn; auto. destruct (u_id z =? i) eqn:E; [discriminate |].
  intros H [K | K]; [apply N.eqb_neq in E; auto | apply IH; auto].
Qed.
Lemma ufind_some_of_in l i : In i (ids l) -> exists y, ufind l i = Some y.
Proof.
  intros H. destruct (ufind l i) eqn:E; eauto. apply ufind_none in E. contradiction.
Qed.

Lemma dead_umark l i y : ufind l i = Some y -> deadin (umark_deleted l i) i.
Proof.
  induction l as [| z r IH]; cbn; [discriminate |].
  destruct (u_id z =? i) eqn:E.
  - intros _. apply N.eqb_eq in E. exists (set_del z). split; [left; auto | auto].
  - intros H. destruct (IH H) as (w & Hw & K). exists w. split; [right; auto | auto].
Qed.
Lemma dead_map_umark (m : list (N * list uitem)) i y :
  ufind (flat_map snd m) i = Some y -> deadin (flat_map snd (map (fun kc => (fst kc, umark_deleted (snd kc) i)) m)) i.
Proof.
  induction m as [| [k c] r IH]; cbn; [discriminate |].
  rewrite ufind_app. destruct (ufind c i) as [w |] eqn:E.
  - intros _. apply deadin_app_l. eapply dead_umark; eauto.
  - intros H. apply deadin_app_r. auto.
Qed.

Lemma tspec_delete_id s i : tspec s (delete_id s i) eff0.
Proof.
  constructor; cbn.
  - lia. - reflexivity. - reflexivity.
  - unfold all_ids, all_items; cbn. rewrite !map_app, ids_umark, ids_map_umark. apply Permutation_refl.
  - intros j []. - constructor.
  - unfold all_items; cbn. apply redsub_app; [apply redsub_umark | apply redsub_map_umark].
  - intros j [].
  - apply skeeps_delete_id.
Qed.
Lemma dead_delete_id s i y : ufind (all_items s) i = Some y -> deadin (all_items (delete_id s i)) i.
Proof.
  unfold all_items; cbn. rewrite ufind_app. destruct (ufind (seqc s) i) as [w |] eqn:E.
  - intros _. apply deadin_app_l. eapply dead_umark; eauto.
  - intros H. apply deadin_app_r. eapply dead_map_umark; eauto.
Qed.

Lemma tspec_eff0_trans s s1 s2 : tspec s s1 eff0 -> tspec s1 s2 eff0 -> tspec s s2 eff0.
Proof. intros A B. apply (tspec_trans _ _ _ _ _ A B). Qed.

Lemma tspec_delete_fold l : forall s, tspec s (fold_left delete_id l s) eff0.
Proof.
  induction l as [| i r IH]; intros s; cbn; [apply tspec_refl |].
  eapply tspec_eff0_trans; [apply tspec_delete_id | apply IH].
Qed.
Lemma ids_perm_in s s' e : tspec s s' e -> forall i, In i (all_ids s) -> In i (all_ids s').
Proof.
  intros H i Hi. eapply Permutation_in; [apply Permutation_sym, (ts_perm _ _ _ H) |]. apply in_or_app; auto.
Qed.
Lemma dead_delete_fold l : forall s i, In i l -> In i (all_ids s) -> deadin (all_items (fold_left delete_id l s)) i.
Proof.
  induction l as [| j r IH]; intros s i Hi Hs; cbn; [destruct Hi |].
  destruct Hi as [-> | Hi].
  - destruct (ufind_some_of_in _ _ Hs) as (y & Hy).
    eapply deadin_keeps; [eapply dead_delete_id; eauto | apply (ts_keeps _ _ _ (tspec_delete_fold r _))].
  - apply IH; auto. eapply ids_perm_in; [apply tspec_delete_id | auto].
Qed.

Lemma tspec_redo_item s i td s1 s2 :
  tspec s (fst (fst (redo_item s i td s1 s2))) (snd (redo_item s i td s1 s2)).
Proof.
  pose proof (skeeps_redo_item s i td s1 s2) as KP.
  unfold redo_item in *. destruct (ufind (all_items s) i) as [y |]; [| apply tspec_refl].
  destruct (u_red y); [apply tspec_refl |].
  destruct (existsb (fun z => u_id z =? i) (seqc s)) eqn:EX.
  - pose proof (ids_redo_in_seq (seqc s) i (unext s) EX) as K1.
    pose proof (redsub_redo_in_seq (seqc s) i (unext s) (fun r => unext s <= r < unext s + 1)) as K2.
    destruct (redo_in_seq (seqc s) i (unext s)) as [l b]. cbn in *.
    constructor; cbn.
    + lia. + reflexivity. + reflexivity.
    + unfold all_ids, all_items; cbn. rewrite !map_app. apply (Permutation_app_tail _ K1).
    + intros j [<- | []]. lia.
    + repeat constructor. intros [].
    + unfold all_items; cbn. apply redsub_app; [apply K2; lia | apply redsub_refl].
    + intros j [].
    + exact KP.
  - destruct (redo_in_maps (mapc s) i (unext s) td s1 s2) as [m |] eqn:E; cbn in *; [| apply tspec_refl].
    constructor; cbn.
    + lia. + reflexivity. + reflexivity.
    + unfold all_ids, all_items; cbn. rewrite !map_app.
      eapply perm_trans; [apply Permutation_app_head, (ids_redo_in_maps _ _ _ _ _ _ _ E) |].
      apply Permutation_sym, Permutation_middle.
    + intros j [<- | []]. lia.
    + repeat constructor. intros [].
    + unfold all_items; cbn. apply redsub_app; [apply redsub_refl |].
      eapply redsub_redo_in_maps; [| apply E]. cbn. lia.
    + intros j Hj. apply in_map_iff in Hj. destruct Hj as (z & <- & Hz).
      apply filter_In in Hz. destruct Hz as (Hz & G). apply filter_In in Hz. destruct Hz as (Hz & L).
      destruct (KP z Hz) as (z' & Hz' & (A & _ & _)).
      exists z'. split; [exact Hz' | split; [exact A |]].
      destruct (u_del z') eqn:D; auto. exfalso.
      apply negb_true_iff in G. rewrite <- not_true_iff_false in G. apply G.
      apply existsb_exists. exists z'. split.
      * apply filter_In. split; [exact Hz' | rewrite D; reflexivity].
      * apply N.eqb_eq. auto.
    + exact KP.
Qed.

Definition redo_fold (td : list N) (s1 s2 : list stackitem) (l : list N) (acc : ustate * bool * ueff) :=
  fold_left (fun acc i => let '(s0, c0, e0) := acc in
                          let '(s1', c1, e1) := redo_item s0 i td s1 s2 in (s1', c0 || c1, eff_app e0 e1)) l acc.

Lemma tspec_redo_fold td s1 s2 l : forall s0 s c e, tspec s0 s e ->
  tspec s0 (fst (fst (redo_fold td s1 s2 l (s, c, e)))) (snd (redo_fold td s1 s2 l (s, c, e))).
Proof.
  induction l as [| i r IH]; intros s0 s c e H; cbn; auto.
  pose proof (tspec_redo_item s i td s1 s2) as K. destruct (redo_item s i td s1 s2) as [[s1' c1] e1]. cbn in K.
  apply IH. eapply tspec_trans; eauto.
Qed.

Lemma uprocess_unfold s it s1 s2 :
  uprocess s it s1 s2 =
  let items := all_items s in
  let fuel := S (length items) in
  let to_delete := flat_map (fun i => match ufollow fuel items i with
                                      | Some y => if u_del y then [] else [u_id y]
                                      | None => []
                                      end) (st_ins it) in
  let to_redo := filter (fun i => negb (umem i (st_ins it))) (st_del it) in
  let r := redo_fold (st_ins it) s1 s2 to_redo (s, false, eff0) in
  let sa := fst (fst r) in let ca := snd (fst r) in let ea := snd r in
  let live_now := fun i => match ufind (all_items sa) i with Some y => negb (u_del y) | None => false end in
  let newly := filter live_now (rev to_delete) in
  let sb := fold_left delete_id (rev to_delete) sa in
  let changed := ca || negb (match to_delete with [] => true | _ => false end) in
  (sb, changed, {| e_ins := e_ins ea; e_del := e_del ea ++ newly |}).
Proof.
  unfold uprocess, redo_fold. cbv zeta.
  destruct (fold_left _ _ (s, false, eff0)) as [[sa ca] ea]. reflexivity.
Qed.

Lemma tspec_uprocess s it s1 s2 :
  tspec s (fst (fst (uprocess s it s1 s2))) (snd (uprocess s it s1 s2)).
Proof.
  rewrite uprocess_unfold. cbv zeta.
  set (td := flat_map _ (st_ins it)). set (tr := filter _ (st_del it)).
  pose proof (tspec_redo_fold (st_ins it) s1 s2 tr s s false eff0 (tspec_refl s)) as K.
  destruct (redo_fold (st_ins it) s1 s2 tr (s, false, eff0)) as [[sa ca] ea]. cbn in *.
  apply tspec_add_del.
  - pose proof (tspec_trans _ _ _ _ _ K (tspec_delete_fold (rev td) sa)) as K2.
    destruct K2 as [a1 a2 a3 a4 a5 a6 a7 a8 a9]. cbn in *. rewrite app_nil_r in *.
    constructor; auto.
  - intros i Hi. apply filter_In in Hi. destruct Hi as (Hi & L).
    apply dead_delete_fold; auto.
    destruct (ufind (all_items sa) i) as [y |] eqn:E; [| discriminate].
    apply ufind_in in E. destruct E as (E1 & <-). unfold all_ids. apply in_map; auto.
Qed.

Lemma in_sort_insert x y l : In x (sort_insert y l) <-> x = y \/ In x l.
Proof.
  induction l as [| z r IH]; cbn.
  - intuition.
  - destruct (y <? z); cbn; [intuition |]. destruct (y =? z) eqn:E.
    + apply N.eqb_eq in E. subst. cbn. intuition.
    + cbn. rewrite IH. intuition.
Qed.
Lemma in_sort_ids x l : In x (sort_ids l) <-> In x l.
Proof.
  induction l as [| z r IH]; cbn; [intuition |]. rewrite in_sort_insert, IH. intuition.
Qed.

Definition nrange (lo hi : N) : list N := map N.of_nat (seq (N.to_nat lo) (N.to_nat hi - N.to_nat lo)).
Lemma in_nrange lo hi i : In i (nrange lo hi) <-> lo <= i < hi.
Proof.
  unfold nrange. rewrite in_map_iff. split.
  - intros (n & <- & H). apply in_seq in H. lia.
  - intros H. exists (N.to_nat i). split; [apply N2Nat.id | apply in_seq; lia].
Qed.

Record BIg (s : ustate) (fo : list N) (stk : list stackitem) : Prop := {
  bi_nodup : NoDup (all_ids s);
  bi_lt : forall i, In i (all_ids s) -> i < unext s;
  bi_fo : forall i, In i fo -> i < unext s;
  bi_ins : forall E i, In E stk -> In i (st_ins E) -> i < unext s /\ ~ In i fo;
  bi_del : forall E i, In E stk -> In i (st_del E) -> deadin (all_items s) i;
  bi_red : forall y r, In y (all_items s) -> u_red y = Some r -> r < unext s /\ ~ In r fo }.

Lemma big_tspec s s' e fo stk : BIg s fo stk -> tspec s s' e -> BIg s' fo stk.
Proof.
  intros [a1 a2 a3 a4 a5 a6] [b1 b2 b3 b4 b5 b6 b7 b8 b9]. constructor.
  - eapply Permutation_NoDup; [apply Permutation_sym, b4 |]. apply nodup_app; auto.
    intros x H1 H2. apply b5 in H1. apply a2 in H2. lia.
  - intros i Hi. eapply Permutation_in in Hi; [| apply b4]. apply in_app_or in Hi.
    destruct Hi as [Hi | Hi]; [apply b5 in Hi | apply a2 in Hi]; lia.
  - intros i Hi. apply a3 in Hi. lia.
  - intros E i HE Hi. destruct (a4 E i HE Hi). split; auto. lia.
  - intros E i HE Hi. eapply deadin_keeps; [apply (a5 E i HE Hi) | apply b9].
  - intros y r Hy Hr. destruct (b7 y r Hy Hr) as [(z & Hz & Ez) | K].
    + destruct (a6 z r Hz Ez). split; auto. lia.
    + split; [lia |]. intros F. apply a3 in F. lia.
Qed.

Lemma big_push s0 s e fo stk0 stk :
  BIg s0 fo stk0 -> tspec s0 s e -> BIg s fo stk ->
  BIg s fo ({| st_ins := sort_ids (e_ins e); st_del := sort_ids (e_del e) |} :: stk).
Proof.
  intros [a1 a2 a3 a4 a5 a6] [b1 b2 b3 b4 b5 b6 b7 b8 b9] [c1 c2 c3 c4 c5 c6]. constructor; auto.
  - intros E i [<- | HE] Hi; [| eauto]. cbn in Hi. rewrite in_sort_ids in Hi. apply b5 in Hi.
    split; [lia |]. intros F. apply a3 in F. lia.
  - intros E i [<- | HE] Hi; [| eauto]. cbn in Hi. rewrite in_sort_ids in Hi. auto.
Qed.

Lemma big_sub s fo stk stk' : BIg s fo stk -> incl stk' stk -> BIg s fo stk'.
Proof. intros [a1 a2 a3 a4 a5 a6] H. constructor; eauto. Qed.

Lemma big_stacks s fo stk us rs :
  BIg s fo stk -> BIg {| seqc := seqc s; mapc := mapc s; unext := unext s; ustack := us; rstack := rs |} fo stk.
Proof. intros [a1 a2 a3 a4 a5 a6]. constructor; auto. Qed.

Definition BI (s : ustate) (fo : list N) : Prop := BIg s fo (ustack s ++ rstack s).

(* other origins: no new redone pointers *)
Lemma noreds_do_call s c : redsub (all_items s) (all_items (fst (do_call s c))) (fun _ => False).
Proof.
  destruct c as [pos v | pos | k v | k]; cbn in *; unfold all_items.
  - cbn. apply redsub_app; [apply redsub_ibv; reflexivity | apply redsub_refl].
  - pose proof (redsub_delete_visible (seqc s) pos (fun _ => False)) as K2.
    destruct (delete_visible (seqc s) pos) as [l o]. cbn in *. apply redsub_app; [auto | apply redsub_refl].
  - pose proof (redsub_delete_last (chain_of (mapc s) k) (fun _ => False)) as K2.
    destruct (delete_last (chain_of (mapc s) k)) as [c0 o]. cbn in *.
    apply redsub_app; [apply redsub_refl |]. apply redsub_set_chain.
    intros z rr Hz Hr. apply in_app_or in Hz. destruct Hz as [Hz | [<- | []]]; [| discriminate]. apply (K2 z rr Hz Hr).
  - pose proof (redsub_delete_last (chain_of (mapc s) k) (fun _ => False)) as K2.
    destruct (delete_last (chain_of (mapc s) k)) as [c0 o]. cbn in *.
    apply redsub_app; [apply redsub_refl |]. destruct o; [| apply redsub_refl]. apply redsub_set_chain. auto.
Qed.
Lemma noreds_fold_calls cs : forall s0 s e, redsub (all_items s0) (all_items s) (fun _ => False) ->
  redsub (all_items s0) (all_items (fst (fold_left (fun acc c => let '(s1, e1) := acc in let '(s2, e2) := do_call s1 c in (s2, eff_app e1 e2)) cs (s, e)))) (fun _ => False).
Proof.
  induction cs as [| c r IH]; intros s0 s e H; cbn; auto.
  pose proof (noreds_do_call s c) as K. destruct (do_call s c) as [s2 e2]. cbn in K.
  apply IH. apply (redsub_trans _ (all_items s) _ (fun _ => False) (fun _ => False)); auto.
Qed.
Lemma noreds_do_txn s cs : redsub (all_items s) (all_items (fst (do_txn s cs))) (fun _ => False).
Proof. apply noreds_fold_calls. apply redsub_refl. Qed.

Lemma big_foreign s cs fo :
  BI s fo -> BI (other_txn s cs) (fo ++ nrange (unext s) (unext (other_txn s cs))).
Proof.
  unfold BI, other_txn. intros H. pose proof (tspec_do_txn s cs) as T. pose proof (noreds_do_txn s cs) as R.
  pose proof (big_tspec _ _ _ _ _ H T) as [c1 c2 c3 c4 c5 c6].
  destruct H as [a1 a2 a3 a4 a5 a6]. destruct T as [b1 b2 b3 b4 b5 b6 b7 b8 b9].
  rewrite b2, b3. constructor; auto.
  - intros i Hi. apply in_app_or in Hi. destruct Hi as [Hi | Hi]; [auto | apply in_nrange in Hi; lia].
  - intros E i HE Hi. destruct (a4 E i HE Hi) as (L & NF). split; [lia |].
    intros F. apply in_app_or in F. destruct F as [F | F]; [auto | apply in_nrange in F; lia].
  - intros y r Hy Hr. destruct (R y r Hy Hr) as [(z & Hz & Ez) | []].
    destruct (a6 z r Hz Ez) as (L & NF). split; [lia |].
    intros F. apply in_app_or in F. destruct F as [F | F]; [auto | apply in_nrange in F; lia].
Qed.

Lemma bi_tracked_step s txns fo : BI s fo -> BI (tracked_step s txns) fo.
Proof.
  unfold BI, tracked_step. intros H.
  pose proof (tspec_fold_txns txns s s eff0 (tspec_refl s)) as T. cbv zeta in T.
  destruct (fold_left _ txns (s, eff0)) as [s' e]. cbn in T.
  pose proof (big_tspec _ _ _ _ _ H T) as H'.
  destruct (eff_empty e).
  - rewrite (ts_us _ _ _ T), (ts_rs _ _ _ T). auto.
  - cbn. apply big_stacks. rewrite (ts_us _ _ _ T).
    eapply big_sub; [eapply big_push; [apply H | apply T | apply H'] |].
    intros E HE. cbn in HE. rewrite app_nil_r in HE. destruct HE as [<- | HE]; [left; auto | right; apply in_or_app; auto].
Qed.

(* ---- liveness of foreign ids through processing ---- *)
Definition livein (l : list uitem) (i : N) : Prop := exists y, In y l /\ u_id y = i /\ u_del y = false.
Lemma live_ids_iff s i : In i (live_ids s) <-> livein (all_items s) i.
Proof.
  unfold live_ids, livein. rewrite in_map_iff. split.
  - intros (y & E & H). apply filter_In in H. destruct H as (H & L). exists y. repeat split; auto.
    apply negb_true_iff in L. auto.
  - intros (y & H & E & L). exists y. split; auto. apply filter_In. split; auto. rewrite L. reflexivity.
Qed.
Lemma livein_app_l l r i : livein l i -> livein (l ++ r) i.
Proof. intros (y & Hy & K). exists y. split; [apply in_or_app; auto | auto]. Qed.
Lemma livein_app_r l r i : livein r i -> livein (l ++ r) i.
Proof. intros (y & Hy & K). exists y. split; [apply in_or_app; auto | auto]. Qed.
Lemma livein_app_or l r i : livein (l ++ r) i -> livein l i \/ livein r i.
Proof. intros (y & Hy & K). apply in_app_or in Hy. destruct Hy; [left | right]; exists y; auto. Qed.

Lemma nodup_ids_inj c a b : NoDup (ids c) -> In a c -> In b c -> u_id a = u_id b -> a = b.
Proof.
  induction c as [| y r IH]; cbn; intros ND Ha Hb E; [destruct Ha |].
  inversion ND; subst. destruct Ha as [<- | Ha], Hb as [<- | Hb]; auto.
  - exfalso. apply H1. rewrite E. apply in_map; auto.
  - exfalso. apply H1. rewrite <- E. apply in_map; auto.
Qed.

Lemma livein_umark l h i : livein l i -> i <> h -> livein (umark_deleted l h) i.
Proof.
  intros (y & Hy & E & L) NE. induction l as [| z r IH]; cbn; [destruct Hy |].
  destruct (u_id z =? h) eqn:Q.
  - destruct Hy as [<- | Hy].
    + apply N.eqb_eq in Q. congruence.
    + exists y. split; [right; auto | auto].
  - destruct Hy as [<- | Hy].
    + exists z. split; [left; auto | auto].
    + destruct (IH Hy) as (w & Hw & K). exists w. split; [right; auto | auto].
Qed.
Lemma livein_map_umark (m : list (N * list uitem)) h i :
  livein (flat_map snd m) i -> i <> h -> livein (flat_map snd (map (fun kc => (fst kc, umark_deleted (snd kc) h)) m)) i.
Proof.
  intros H NE. induction m as [| [k c] r IH]; cbn in *; auto.
  apply livein_app_or in H. destruct H as [H | H].
  - apply livein_app_l. apply livein_umark; auto.
  - apply livein_app_r. auto.
Qed.
Lemma livein_delete_id s h i : livein (all_items s) i -> i <> h -> livein (all_items (delete_id s h)) i.
Proof.
  unfold all_items; cbn. intros H NE. apply livein_app_or in H. destruct H as [H | H].
  - apply livein_app_l. apply livein_umark; auto.
  - apply livein_app_r. apply livein_map_umark; auto.
Qed.
Lemma livein_delete_fold l : forall s i, livein (all_items s) i -> ~ In i l -> livein (all_items (fold_left delete_id l s)) i.
Proof.
  induction l as [| h r IH]; intros s i H NI; cbn; auto.
  apply IH; [apply livein_delete_id; auto |]; intros F; apply NI; [left | right]; auto.
Qed.

Lemma livein_redo_in_seq l j fresh i : livein l i -> livein (fst (redo_in_seq l j fresh)) i.
Proof.
  intros (y & Hy & E & L). induction l as [| z r IH]; cbn; [destruct Hy |].
  destruct (u_id z =? j) eqn:Q; cbn.
  - destruct Hy as [<- | Hy].
    + exists (set_red z fresh). split; [right; left; auto | auto].
    + exists y. split; [right; right; auto | auto].
  - destruct (redo_in_seq r j fresh) as [r' b] eqn:R. cbn in *. destruct Hy as [<- | Hy].
    + exists z. split; [left; auto | auto].
    + destruct (IH Hy) as (w & Hw & K). exists w. split; [right; auto | auto].
Qed.

Lemma ufollow_spec f l : forall i w, ufollow f l i = Some w ->
  In w l /\ u_red w = None /\ (u_id w = i \/ exists y, In y l /\ u_red y = Some (u_id w)).
Proof.
  induction f as [| f IH]; intros i w; cbn; [discriminate |].
  destruct (ufind l i) as [y |] eqn:E; [| discriminate]. apply ufind_in in E. destruct E as (Hy & Ey).
  destruct (u_red y) as [r |] eqn:R.
  - intros H. destruct (IH r w H) as (A & B & C). split; auto. split; auto. right.
    destruct C as [C | C]; auto. exists y. split; auto. congruence.
  - intros H. inversion H; subst. auto.
Qed.

Lemma right_of_in c i z : right_of c i = Some z -> In z c.
Proof.
  induction c as [| y r IH]; cbn; [discriminate |]. destruct (u_id y =? i).
  - destruct r as [| z' r']; [discriminate |]. intros H; inversion H; subst. right; left; auto.
  - intros H. right. auto.
Qed.
Lemma right_of_none_last c w : NoDup (ids c) -> In w c -> right_of c (u_id w) = None -> exists c0, c = c0 ++ [w].
Proof.
  induction c as [| y r IH]; cbn; intros ND Hw H; [destruct Hw |].
  inversion ND; subst. destruct (u_id y =? u_id w) eqn:Q.
  - apply N.eqb_eq in Q. assert (y = w) as ->.
    { destruct Hw as [Hw | Hw]; auto. exfalso. apply H2. rewrite Q. apply in_map; auto. }
    destruct r; [exists []; reflexivity | discriminate].
  - destruct Hw as [-> | Hw]; [rewrite N.eqb_refl in Q; discriminate |].
    destruct (IH H3 Hw H) as (c0 & ->). exists (y :: c0). reflexivity.
Qed.

Lemma walk_end f c : forall cur td s1 s2, walk_right f c cur td s1 s2 = true ->
  exists fin, right_of c fin = None /\
    (fin = cur \/ exists z w, In z c /\ passable td s1 s2 z = true /\ ufollow (S (length c)) c (u_id z) = Some w /\ u_id w = fin).
Proof.
  induction f as [| f IH]; intros cur td s1 s2; [discriminate |].
  cbn -[ufollow]. destruct (right_of c cur) as [z |] eqn:R.
  - destruct (passable td s1 s2 z) eqn:P; [| discriminate].
    destruct (ufollow (S (length c)) c (u_id z)) as [w |] eqn:F; [| discriminate].
    intros H. destruct (IH _ _ _ _ H) as (fin & A & B). exists fin. split; auto. right.
    destruct B as [-> | B]; auto. exists z, w. repeat split; auto. eapply right_of_in; eauto.
  - intros _. exists cur. auto.
Qed.

Lemma redo_in_chain_fkeep fo c j fresh td s1 s2 c' :
  NoDup (ids c) ->
  (forall y r, In y c -> u_red y = Some r -> ~ In r fo) ->
  (forall i, In i td -> ~ In i fo) ->
  (forall y, In y c -> stack_deleted s1 (u_id y) || stack_deleted s2 (u_id y) = true -> u_del y = true) ->
  (forall y, In y c -> u_id y = j -> u_del y = true) ->
  redo_in_chain c j fresh td s1 s2 = Some c' ->
  forall i, In i fo -> livein c i -> livein c' i.
Proof.
  intros ND HR HT HS HJ. unfold redo_in_chain.
  destruct (ufind c j) as [y0 |] eqn:F0; [| discriminate]. apply ufind_in in F0. destruct F0 as (Hy0 & Ey0).
  destruct (walk_right (S (length c)) c j td s1 s2) eqn:W; [| discriminate].
  destruct (list_last_case c) as [-> | (c0 & w & ->)]; [destruct Hy0 |].
  rewrite map_app. cbn [map]. rewrite delete_last_app. intros H; inversion H; subst c'. clear H.
  intros i Hi (y & Hy & Ey & Ly). apply in_app_or in Hy. destruct Hy as [Hy | [<- | []]].
  - exists (if u_id y =? j then set_red y fresh else y). split.
    + apply in_or_app; left. apply in_or_app; left. apply (in_map (fun z => if u_id z =? j then set_red z fresh else z)); auto.
    + destruct (u_id y =? j); auto.
  - exfalso. (* the last unit is live and foreign: impossible *)
    apply walk_end in W. destruct W as (fin & RN & [-> | (z & w' & Hz & Pz & Fz & Ew)]).
    + (* the walk never moved: the last unit is the re-created one, which is dead *)
      destruct (right_of_none_last _ y0 ND Hy0) as (c1 & E1); [rewrite Ey0; auto |].
      apply app_inj_tail in E1. destruct E1 as (_ & <-).
      rewrite (HJ w) in Ly; [discriminate | apply in_or_app; right; left; auto | auto].
    + apply ufollow_spec in Fz. destruct Fz as (Hw' & Rw' & Cw').
      destruct (right_of_none_last _ w' ND Hw') as (c1 & E1); [rewrite Ew; auto |].
      apply app_inj_tail in E1. destruct E1 as (_ & <-).
      destruct Cw' as [Cw' | (y1 & Hy1 & Ry1)].
      * assert (w = z) as <- by (eapply nodup_ids_inj; eauto).
        unfold passable in Pz. rewrite Rw', Ly in Pz. cbn in Pz.
        destruct (umem (u_id w) td) eqn:M.
        -- unfold umem in M. apply existsb_exists in M. destruct M as (x & Hx & Ex). apply N.eqb_eq in Ex. subst x.
           apply (HT _ Hx). rewrite Ey. auto.
        -- cbn in Pz. rewrite (HS w Hw' Pz) in Ly. discriminate.
      * apply (HR y1 (u_id w) Hy1 Ry1). rewrite Ey. auto.
Qed.

Lemma redo_in_maps_fkeep fo (m : list (N * list uitem)) j fresh td s1 s2 m' :
  NoDup (ids (flat_map snd m)) ->
  (forall y r, In y (flat_map snd m) -> u_red y = Some r -> ~ In r fo) ->
  (forall i, In i td -> ~ In i fo) ->
  (forall y, In y (flat_map snd m) -> stack_deleted s1 (u_id y) || stack_deleted s2 (u_id y) = true -> u_del y = true) ->
  (forall y, In y (flat_map snd m) -> u_id y = j -> u_del y = true) ->
  redo_in_maps m j fresh td s1 s2 = Some m' ->
  forall i, In i fo -> livein (flat_map snd m) i -> livein (flat_map snd m') i.
Proof.
  revert m'. induction m as [| [k c] r IH]; intros m' ND HR HT HS HJ; cbn in *; [discriminate |].
  rewrite map_app in ND.
  destruct (existsb _ c).
  - destruct (redo_in_chain c j fresh td s1 s2) as [c' |] eqn:E; cbn; [| discriminate].
    intros H; inversion H; subst m'. cbn. intros i Hi L. apply livein_app_or in L. destruct L as [L | L].
    + apply livein_app_l. eapply (redo_in_chain_fkeep fo c); eauto.
      * eapply nodup_app_l; eauto.
      * intros y rr Hy. apply HR. apply in_or_app; auto.
      * intros y Hy. apply HS. apply in_or_app; auto.
      * intros y Hy. apply HJ. apply in_or_app; auto.
    + apply livein_app_r. auto.
  - destruct (redo_in_maps r j fresh td s1 s2) as [r' |] eqn:E; cbn; [| discriminate].
    intros H; inversion H; subst m'. cbn. intros i Hi L. apply livein_app_or in L. destruct L as [L | L].
    + apply livein_app_l. auto.
    + apply livein_app_r. eapply IH; eauto.
      * eapply nodup_app_r; eauto.
      * intros y rr Hy. apply HR. apply in_or_app; auto.
      * intros y Hy. apply HS. apply in_or_app; auto.
      * intros y Hy. apply HJ. apply in_or_app; auto.
Qed.

Definition fkeep (fo : list N) (s s' : ustate) : Prop := forall i, In i fo -> livein (all_items s) i -> livein (all_items s') i.

Lemma deadin_dead s i y : NoDup (all_ids s) -> deadin (all_items s) i -> In y (all_items s) -> u_id y = i -> u_del y = true.
Proof.
  intros ND (z & Hz & Ez & Dz) Hy Ey. assert (y = z) as -> by (eapply nodup_ids_inj; eauto; congruence). auto.
Qed.

Lemma stack_deleted_in st i : stack_deleted st i = true -> exists E, In E st /\ In i (st_del E).
Proof.
  unfold stack_deleted. intros H. apply existsb_exists in H. destruct H as (E & HE & M).
  unfold umem in M. apply existsb_exists in M. destruct M as (x & Hx & Ex). apply N.eqb_eq in Ex. subst x. eauto.
Qed.

Lemma redo_item_fkeep fo s j it s1 s2 :
  BIg s fo (it :: s1 ++ s2) -> In j (st_del it) ->
  fkeep fo s (fst (fst (redo_item s j (st_ins it) s1 s2))).
Proof.
  intros [a1 a2 a3 a4 a5 a6] Hj i Hi L. unfold redo_item.
  destruct (ufind (all_items s) j) as [y |]; [| exact L].
  destruct (u_red y); [exact L |].
  destruct (existsb (fun z => u_id z =? j) (seqc s)).
  - pose proof (livein_redo_in_seq (seqc s) j (unext s) i) as K.
    destruct (redo_in_seq (seqc s) j (unext s)) as [l b]. cbn in *.
    unfold all_items in *; cbn. apply livein_app_or in L. destruct L as [L | L]; [apply livein_app_l; auto | apply livein_app_r; auto].
  - destruct (redo_in_maps (mapc s) j (unext s) (st_ins it) s1 s2) as [m |] eqn:E; cbn; [| exact L].
    unfold all_items in *; cbn. apply livein_app_or in L. destruct L as [L | L]; [apply livein_app_l; auto | apply livein_app_r].
    assert (IM : forall y, In y (flat_map snd (mapc s)) -> In y (seqc s ++ flat_map snd (mapc s))) by (intros; apply in_or_app; auto).
    eapply (redo_in_maps_fkeep fo (mapc s)); eauto.
    + unfold all_ids, all_items in a1. rewrite map_app in a1. eapply nodup_app_r; eauto.
    + intros y0 r Hy0 Hr. apply (a6 y0 r (IM _ Hy0) Hr).
    + intros i0 Hi0. apply (a4 it i0); [left; auto | auto].
    + intros y0 Hy0 SD. apply orb_true_iff in SD.
      assert (exists E0, In E0 (it :: s1 ++ s2) /\ In (u_id y0) (st_del E0)) as (E0 & HE0 & HD0).
      { destruct SD as [SD | SD]; apply stack_deleted_in in SD; destruct SD as (E0 & HE0 & HD0); exists E0; split; auto;
          right; apply in_or_app; auto. }
      eapply (deadin_dead s); eauto.
    + intros y0 Hy0 Ey0. eapply (deadin_dead s); eauto. apply (a5 it j); [left; auto | auto].
Qed.

Lemma fkeep_redo_fold fo it s1 s2 l : forall s c e,
  BIg s fo (it :: s1 ++ s2) -> (forall j, In j l -> In j (st_del it)) ->
  fkeep fo s (fst (fst (redo_fold (st_ins it) s1 s2 l (s, c, e)))).
Proof.
  induction l as [| j r IH]; intros s c e B HL; cbn; [intros i _ L; exact L |].
  pose proof (redo_item_fkeep fo s j it s1 s2 B (HL j (or_introl eq_refl))) as K.
  pose proof (tspec_redo_item s j (st_ins it) s1 s2) as T.
  destruct (redo_item s j (st_ins it) s1 s2) as [[s1' c1] e1]. cbn in K, T.
  intros i Hi L. apply IH; auto.
  - eapply big_tspec; eauto.
  - intros j' Hj'. apply HL. right; auto.
Qed.

Lemma uprocess_fkeep fo s it s1 s2 :
  BIg s fo (it :: s1 ++ s2) -> fkeep fo s (fst (fst (uprocess s it s1 s2))).
Proof.
  intros B. rewrite uprocess_unfold. cbv zeta.
  set (td := flat_map _ (st_ins it)). set (tr := filter _ (st_del it)).
  pose proof (fkeep_redo_fold fo it s1 s2 tr s false eff0 B) as K.
  destruct (redo_fold (st_ins it) s1 s2 tr (s, false, eff0)) as [[sa ca] ea]. cbn [fst snd] in *.
  intros i Hi L. apply livein_delete_fold.
  - apply K; auto. intros j Hj. apply filter_In in Hj. tauto.
  - intros F. apply in_rev in F. unfold td in F. apply in_flat_map in F. destruct F as (x & Hx & F).
    destruct (ufollow (S (length (all_items s))) (all_items s) x) as [w |] eqn:FW; [| destruct F].
    destruct (u_del w); [destruct F |]. destruct F as [<- | []].
    apply ufollow_spec in FW. destruct FW as (Hw & _ & [Ew | (y1 & Hy1 & Ry1)]).
    + destruct (bi_ins _ _ _ B it x (or_introl eq_refl) Hx) as (_ & NF). apply NF. rewrite <- Ew. auto.
    + destruct (bi_red _ _ _ B y1 _ Hy1 Ry1) as (_ & NF). auto.
Qed.

Lemma bi_pop_undo_step fo s it rest :
  BI s fo -> ustack s = it :: rest ->
  let r := uprocess s it rest (rstack s) in
  BI {| seqc := seqc (fst (fst r)); mapc := mapc (fst (fst r)); unext := unext (fst (fst r)); ustack := rest;
        rstack := if snd (fst r) && negb (eff_empty (snd r)) then {| st_ins := sort_ids (e_ins (snd r)); st_del := sort_ids (e_del (snd r)) |} :: rstack s else rstack s |} fo
  /\ fkeep fo s (fst (fst r)).
Proof.
  unfold BI. intros B E. rewrite E in B. cbn in B. cbv zeta.
  pose proof (tspec_uprocess s it rest (rstack s)) as T.
  pose proof (uprocess_fkeep fo s it rest (rstack s) B) as K.
  destruct (uprocess s it rest (rstack s)) as [[s' ch] e]. cbn in *. split; auto.
  pose proof (big_tspec _ _ _ _ _ B T) as B'. apply big_stacks.
  destruct (ch && negb (eff_empty e)).
  - eapply big_sub; [eapply big_push; [apply B | apply T | apply B'] |].
    intros x Hx. apply in_app_or in Hx. destruct Hx as [Hx | [<- | Hx]].
    + right. right. apply in_or_app; auto.
    + left. auto.
    + right. right. apply in_or_app; auto.
  - eapply big_sub; [apply B' |]. intros x Hx. right. auto.
Qed.
Lemma bi_pop_redo_step fo s it rest :
  BI s fo -> rstack s = it :: rest ->
  let r := uprocess s it rest (ustack s) in
  BI {| seqc := seqc (fst (fst r)); mapc := mapc (fst (fst r)); unext := unext (fst (fst r));
        ustack := if snd (fst r) && negb (eff_empty (snd r)) then {| st_ins := sort_ids (e_ins (snd r)); st_del := sort_ids (e_del (snd r)) |} :: ustack s else ustack s;
        rstack := rest |} fo
  /\ fkeep fo s (fst (fst r)).
Proof.
  unfold BI. intros B E. rewrite E in B. cbv zeta.
  assert (B0 : BIg s fo (it :: rest ++ ustack s)).
  { eapply big_sub; [apply B |]. intros x [<- | Hx]; [apply in_or_app; right; left; auto |].
    apply in_app_or in Hx. apply in_or_app. destruct Hx; [right; right; auto | left; auto]. }
  pose proof (tspec_uprocess s it rest (ustack s)) as T.
  pose proof (uprocess_fkeep fo s it rest (ustack s) B0) as K.
  destruct (uprocess s it rest (ustack s)) as [[s' ch] e]. cbn in *. split; auto.
  pose proof (big_tspec _ _ _ _ _ B0 T) as B'. apply big_stacks.
  destruct (ch && negb (eff_empty e)).
  - eapply big_sub; [eapply big_push; [apply B0 | apply T | apply B'] |].
    intros x Hx. cbn in Hx. destruct Hx as [<- | Hx]; [left; auto |].
    apply in_app_or in Hx. right. right. apply in_or_app. destruct Hx; auto.
  - eapply big_sub; [apply B' |]. intros x Hx. right. apply in_app_or in Hx. apply in_or_app. destruct Hx; auto.
Qed.

Lemma bi_pop_undo fo fuel : forall s, BI s fo -> BI (fst (pop_undo fuel s)) fo /\ fkeep fo s (fst (pop_undo fuel s)).
Proof.
  induction fuel as [| f IH]; intros s B; cbn [pop_undo].
  - split; auto. intros i _ L; exact L.
  - destruct (ustack s) as [| it rest] eqn:E.
    + split; auto. intros i _ L; exact L.
    + pose proof (bi_pop_undo_step fo s it rest B E) as K. cbv zeta in K.
      destruct (uprocess s it rest (rstack s)) as [[s' ch] e]. cbn [fst snd] in K. destruct K as (K1 & K2).
      destruct ch; cbn [fst].
      * split; auto.
      * cbn [andb] in K1. destruct (IH _ K1) as (I1 & I2). split; auto.
        intros i Hi L. apply I2; [exact Hi | exact (K2 i Hi L)].
Qed.
Lemma bi_pop_redo fo fuel : forall s, BI s fo -> BI (fst (pop_redo fuel s)) fo /\ fkeep fo s (fst (pop_redo fuel s)).
Proof.
  induction fuel as [| f IH]; intros s B; cbn [pop_redo].
  - split; auto. intros i _ L; exact L.
  - destruct (rstack s) as [| it rest] eqn:E.
    + split; auto. intros i _ L; exact L.
    + pose proof (bi_pop_redo_step fo s it rest B E) as K. cbv zeta in K.
      destruct (uprocess s it rest (ustack s)) as [[s' ch] e]. cbn [fst snd] in K. destruct K as (K1 & K2).
      destruct ch; cbn [fst].
      * split; auto.
      * cbn [andb] in K1. destruct (IH _ K1) as (I1 & I2). split; auto.
        intros i Hi L. apply I2; [exact Hi | exact (K2 i Hi L)].
Qed.

(* the instrumented run: fo collects the ids created by AOther actions *)
Definition fstep (sf : ustate * list N) (a : uaction) : ustate * list N :=
  let s' := uact (fst sf) a in
  (s', match a with AOther _ => snd sf ++ nrange (unext (fst sf)) (unext s') | _ => snd sf end).
Definition frun (p : list uaction) : ustate * list N := fold_left fstep p (ustate0, []).

Lemma bi_init : BI ustate0 [].
Proof.
  unfold BI. constructor; cbn.
  - constructor. - intros i []. - intros i []. - intros E i []. - intros E i []. - intros y r [].
Qed.
Lemma bi_fstep sf a : BI (fst sf) (snd sf) -> BI (fst (fstep sf a)) (snd (fstep sf a)).
Proof.
  destruct sf as [s fo]. cbn [fst snd fstep]. intros B. destruct a as [txns | cs | |]; cbn [uact].
  - apply bi_tracked_step; auto.
  - apply big_foreign; auto.
  - apply bi_pop_undo; auto.
  - apply bi_pop_redo; auto.
Qed.
Lemma bi_fold p : forall sf, BI (fst sf) (snd sf) -> BI (fst (fold_left fstep p sf)) (snd (fold_left fstep p sf)).
Proof. induction p as [| a r IH]; intros sf B; cbn; auto. apply IH. apply bi_fstep; auto. Qed.

(* B: for every program (any actions, other origins included), every reached state s: a live unit that another
   origin inserted is still live after an undo call and after a redo call *)
Theorem undo_redo_keep_foreign_units : forall p i,
  let s := fst (frun p) in let fo := snd (frun p) in
  In i fo -> In i (live_ids s) ->
  In i (live_ids (fst (undo s))) /\ In i (live_ids (fst (redo s))).
Proof.
  intros p i s fo Hi L. pose proof (bi_fold p (ustate0, []) bi_init) as B. fold (frun p) in B. fold s fo in B.
  rewrite live_ids_iff in L. rewrite !live_ids_iff. split.
  - apply (proj2 (bi_pop_undo fo _ s B)); auto.
  - apply (proj2 (bi_pop_redo fo _ s B)); auto.
Qed.

(* the foreign ids of a run are exactly the ids allocated by its AOther actions *)
Lemma fstep_fo_spec sf a : snd (fstep sf a) = match a with AOther _ => snd sf ++ nrange (unext (fst sf)) (unext (uact (fst sf) a)) | _ => snd sf end.
Proof. reflexivity. Qed.


(* ---------------------------------------------------------------------------------------------- *)
(* A (bounded). The exhaustive check that was run before attempting the unbounded proof.
   Universe: at position d of a program the available actions are AUndo, ARedo and capture steps whose calls are
   drawn from calls_at (positions {0,1}, keys {1,2}, values distinct per position):
     acts_small d : the 8 single-call steps                                  (10 actions)
     acts_big d   : additionally all 64 two-call steps, each as one transaction of two calls and as two
                    transactions of one call                                 (138 actions)
   inverse_law_bounded covers ALL programs of length 6 over acts_small (10^6 programs, and all their prefixes) and
   ALL programs of length 3 over acts_big (138^3 = 2 628 072 programs, and all their prefixes). *)
Definition calls_at (v : N) : list ucall :=
  [CIns 0 v; CIns 1 (v + 1); CDel 0; CDel 1; CSet 1 (v + 2); CSet 2 (v + 3); CRem 1; CRem 2].
Definition steps1 (v : N) : list uaction := map (fun c => AStep [[c]]) (calls_at v).
Definition steps2 (v : N) : list uaction :=
  flat_map (fun c1 => flat_map (fun c2 => [AStep [[c1; c2]]; AStep [[c1]; [c2]]]) (calls_at (v + 4))) (calls_at v).
Definition acts_small (d : nat) : list uaction := AUndo :: ARedo :: steps1 (N.of_nat d * 8).
Definition acts_big (d : nat) : list uaction := AUndo :: ARedo :: steps1 (N.of_nat d * 8) ++ steps2 (N.of_nat d * 8).

Fixpoint progs (acts : nat -> list uaction) (d n : nat) : list (list uaction) :=
  match n with
  | O => [[]]
  | S n' => flat_map (fun a => map (cons a) (progs acts (S d) n')) (acts d)
  end.
Definition universe : list (list uaction) := progs acts_small 0 6 ++ progs acts_big 0 3.

Fixpoint check (acts : nat -> list uaction) (d n : nat) (s : ustate) (m : mirror) : bool :=
  match n with
  | O => true
  | S n' => forallb (fun a => match mirror_step s m a with Some (s', m') => check acts (S d) n' s' m' | None => false end) (acts d)
  end.

Lemma check_sound acts n : forall d s m, check acts d n s m = true -> forall p, In p (progs acts d n) -> mirror_run s m p = true.
Proof.
  induction n as [| n IH]; intros d s m H p Hp; cbn in *.
  - destruct Hp as [<- | []]. reflexivity.
  - apply in_flat_map in Hp. destruct Hp as (a & Ha & Hp). apply in_map_iff in Hp. destruct Hp as (q & <- & Hq).
    rewrite forallb_forall in H. specialize (H a Ha). cbn.
    destruct (mirror_step s m a) as [[s' m'] |]; [| discriminate]. eapply IH; eauto.
Qed.

Lemma check_small : check acts_small 0 6 ustate0 mirror0 = true.
Proof. vm_compute. reflexivity. Qed.
Lemma check_big : check acts_big 0 3 ustate0 mirror0 = true.
Proof. vm_compute. reflexivity. Qed.

Theorem inverse_law_bounded : forall p, In p universe -> mirror_run ustate0 mirror0 p = true.
Proof.
  intros p Hp. apply in_app_or in Hp. destruct Hp as [Hp | Hp].
  - eapply check_sound; [apply check_small | exact Hp].
  - eapply check_sound; [apply check_big | exact Hp].
Qed.

(* ---------------------------------------------------------------------------------------------- *)
(* D. non-vacuity *)

(* a step that inserts and deletes the same unit is passed over by undo: ONE undo call pops both entries and
   lands on the empty content before the first step *)
Definition ex_passed_over : list uaction := [AStep [[CIns 0 10]]; AStep [[CIns 1 11; CDel 1]]; AUndo].
Example ex_passed_over_ok : mirror_run ustate0 mirror0 ex_passed_over = true.
Proof. vm_compute. reflexivity. Qed.
Example ex_passed_over_cont :
  cont (urun ustate0 (firstn 2 ex_passed_over)) = ([10], []) /\
  cont (urun ustate0 ex_passed_over) = ([], []) /\
  length (ustack (urun ustate0 ex_passed_over)) = 0%nat /\ length (rstack (urun ustate0 ex_passed_over)) = 1%nat.
Proof. vm_compute. auto. Qed.

(* a key written and removed in one step, after an older value was removed in an earlier step: the step is
   invisible, the undo call passes over it and its second pop brings the OLDER value back *)
Definition ex_key_older : list uaction := [AStep [[CSet 1 10]]; AStep [[CRem 1]]; AStep [[CSet 1 11; CRem 1]]; AUndo].
Example ex_key_older_ok : mirror_run ustate0 mirror0 ex_key_older = true.
Proof. vm_compute. reflexivity. Qed.
Example ex_key_older_cont :
  cont (urun ustate0 (firstn 3 ex_key_older)) = ([], []) /\ cont (urun ustate0 ex_key_older) = ([], [(1, 10)]).
Proof. vm_compute. auto. Qed.
(* the same with a visible change in the third step: the first undo call removes only that step, the SECOND
   undo call brings the older value back; two redo calls go forward again *)
Definition ex_key_older2 : list uaction :=
  [AStep [[CSet 1 10]]; AStep [[CRem 1]]; AStep [[CSet 1 11; CRem 1]; [CIns 0 12]]; AUndo; AUndo; ARedo; ARedo].
Example ex_key_older2_ok : mirror_run ustate0 mirror0 ex_key_older2 = true.
Proof. vm_compute. reflexivity. Qed.
Example ex_key_older2_cont :
  cont (urun ustate0 (firstn 3 ex_key_older2)) = ([12], []) /\
  cont (urun ustate0 (firstn 4 ex_key_older2)) = ([], []) /\
  cont (urun ustate0 (firstn 5 ex_key_older2)) = ([], [(1, 10)]) /\
  cont (urun ustate0 ex_key_older2) = ([12], []).
Proof. vm_compute. auto. Qed.

(* redo after undo after a later deletion inside a re-created range: 10 11 12 inserted, all deleted, undo
   re-creates the range, a new step deletes the middle copy, undo re-creates the copy, redo deletes it again;
   two more undo calls and two redo calls walk the whole history *)
Definition ex_recreated_range : list uaction :=
  [AStep [[CIns 0 10; CIns 1 11; CIns 2 12]]; AStep [[CDel 0; CDel 0; CDel 0]]; AUndo; AStep [[CDel 1]]; AUndo; ARedo].
Example ex_recreated_range_ok : mirror_run ustate0 mirror0 (ex_recreated_range ++ [AUndo; AUndo; ARedo; ARedo]) = true.
Proof. vm_compute. reflexivity. Qed.
Example ex_recreated_range_cont :
  map (fun n => cont (urun ustate0 (firstn n (ex_recreated_range ++ [AUndo; AUndo; ARedo; ARedo])))) (seq 0 11) =
  [([], []); ([10; 11; 12], []); ([], []); ([10; 11; 12], []); ([10; 12], []); ([10; 11; 12], []); ([10; 12], []);
   ([10; 11; 12], []); ([], []); ([10; 11; 12], []); ([10; 12], [])].
Proof. vm_compute. reflexivity. Qed.
Example ex_recreated_range_units :
  map (fun x => (u_id x, u_del x, u_red x)) (seqc (urun ustate0 ex_recreated_range)) =
  [(3, false, None); (0, true, Some 3); (6, true, None); (4, true, Some 6); (1, true, Some 4); (5, false, None); (2, true, Some 5)].
Proof. vm_compute. reflexivity. Qed.



(* ---------------------------------------------------------------------------------------------- *)
(* A. the inverse law.  Abstract representation: lineages.
   A sequence is a list of blocks; a block is one lineage: the newest copy (head) followed by the older members,
   each pointing at the next newer one; only the head may be live.  A map chain is a list of units annotated with
   the root (label) of their lineage; the redone pointer of a unit is the next unit to its right with the same
   root. *)

Record blk := { b_hd : N; b_tl : list N; b_rt : N; b_val : utok; b_live : bool }.
Fixpoint ctail (h : N) (t : list N) (v : utok) : list uitem :=
  match t with [] => [] | i :: t' => mk i v true (Some h) :: ctail i t' v end.
Definition cblk (b : blk) : list uitem :=
  mk (b_hd b) (b_val b) (negb (b_live b)) None :: ctail (b_hd b) (b_tl b) (b_val b).
Definition cseq (bs : list blk) : list uitem := flat_map cblk bs.
Definition b_ids (b : blk) : list N := b_hd b :: b_tl b.

Record aunit := { a_id : N; a_rt : N; a_val : utok; a_del : bool }.
Fixpoint next_same (r : N) (l : list aunit) : option N :=
  match l with [] => None | x :: t => if a_rt x =? r then Some (a_id x) else next_same r t end.
Fixpoint cchain (l : list aunit) : list uitem :=
  match l with [] => [] | x :: t => mk (a_id x) (a_val x) (a_del x) (next_same (a_rt x) t) :: cchain t end.
Definition cmap (m : list (N * list aunit)) : list (N * list uitem) := map (fun kc => (fst kc, cchain (snd kc))) m.

Record astate := { a_seq : list blk; a_map : list (N * list aunit) }.
Definition conc (a : astate) (nx : N) (us rs : list stackitem) : ustate :=
  {| seqc := cseq (a_seq a); mapc := cmap (a_map a); unext := nx; ustack := us; rstack := rs |}.

(* ---- sequence: concrete operations on a concretised block list ---- *)

Lemma ctail_dead h t v : forall y, In y (ctail h t v) -> u_del y = true.
Proof. revert h. induction t as [| i t IH]; intros h y; cbn; [intros [] |]. intros [<- | H]; eauto. Qed.
Lemma ctail_ids h t v : ids (ctail h t v) = t.
Proof. revert h. induction t as [| i t IH]; intros h; cbn; auto. rewrite IH. reflexivity. Qed.
Lemma cblk_ids b : ids (cblk b) = b_ids b.
Proof. unfold cblk, b_ids. cbn. rewrite ctail_ids. reflexivity. Qed.
Lemma cseq_ids bs : ids (cseq bs) = flat_map b_ids bs.
Proof. induction bs as [| b r IH]; cbn; auto. unfold cseq in IH. rewrite map_app, IH, ctail_ids. reflexivity. Qed.

Lemma ibv_dead_prefix d l pos x : (forall y, In y d -> u_del y = true) ->
  insert_before_visible (d ++ l) pos x = d ++ insert_before_visible l pos x.
Proof.
  induction d as [| y r IH]; cbn; intros H; auto. rewrite (H y (or_introl eq_refl)). rewrite IH; auto.
Qed.
Lemma delvis_dead_prefix d l pos : (forall y, In y d -> u_del y = true) ->
  delete_visible (d ++ l) pos = (d ++ fst (delete_visible l pos), snd (delete_visible l pos)).
Proof.
  induction d as [| y r IH]; cbn; intros H.
  - destruct (delete_visible l pos); reflexivity.
  - rewrite (H y (or_introl eq_refl)). rewrite IH; auto.
Qed.
Lemma uvisible_app l1 l2 : uvisible (l1 ++ l2) = uvisible l1 ++ uvisible l2.
Proof. unfold uvisible. rewrite filter_app, map_app. reflexivity. Qed.
Lemma uvisible_dead d : (forall y, In y d -> u_del y = true) -> uvisible d = [].
Proof.
  unfold uvisible. induction d as [| y r IH]; cbn; intros H; auto. rewrite (H y (or_introl eq_refl)). cbn. auto.
Qed.

Definition newblk (i : N) (v : utok) : blk := {| b_hd := i; b_tl := []; b_rt := i; b_val := v; b_live := true |}.
Definition kill (b : blk) : blk := {| b_hd := b_hd b; b_tl := b_tl b; b_rt := b_rt b; b_val := b_val b; b_live := false |}.
Definition recopy (b : blk) (fresh : N) : blk :=
  {| b_hd := fresh; b_tl := b_hd b :: b_tl b; b_rt := b_rt b; b_val := b_val b; b_live := true |}.

Fixpoint bins (bs : list blk) (pos : nat) (b : blk) : list blk :=
  match bs with
  | [] => [b]
  | y :: r => if b_live y then match pos with O => b :: y :: r | S p => y :: bins r p b end else y :: bins r pos b
  end.
Fixpoint bdel (bs : list blk) (pos : nat) : list blk * option N :=
  match bs with
  | [] => ([], None)
  | y :: r => if b_live y then match pos with O => (kill y :: r, Some (b_hd y)) | S p => let '(r', o) := bdel r p in (y :: r', o) end
              else let '(r', o) := bdel r pos in (y :: r', o)
  end.

Lemma cseq_cons b r : cseq (b :: r) = cblk b ++ cseq r.
Proof. reflexivity. Qed.
Lemma cblk_uvisible b : uvisible (cblk b) = if b_live b then [b_val b] else [].
Proof.
  unfold cblk. change (uvisible ([mk (b_hd b) (b_val b) (negb (b_live b)) None] ++ ctail (b_hd b) (b_tl b) (b_val b)) = if b_live b then [b_val b] else []).
  rewrite uvisible_app, (uvisible_dead (ctail _ _ _)) by apply ctail_dead.
  unfold uvisible. cbn. destruct (b_live b); reflexivity.
Qed.
Lemma cseq_uvisible bs : uvisible (cseq bs) = map b_val (filter b_live bs).
Proof.
  induction bs as [| b r IH]; [reflexivity |]. rewrite cseq_cons, uvisible_app, IH, cblk_uvisible.
  cbn. destruct (b_live b); reflexivity.
Qed.

Lemma cseq_ibv bs pos i v :
  insert_before_visible (cseq bs) pos (mk i v false None) = cseq (bins bs pos (newblk i v)).
Proof.
  revert pos. induction bs as [| b r IH]; intros pos; [reflexivity |].
  rewrite cseq_cons. unfold cblk at 1. cbn [app insert_before_visible u_del mk bins].
  destruct (b_live b) eqn:L; cbn [negb].
  - destruct pos as [| p].
    + rewrite !cseq_cons. unfold cblk at 2. rewrite L. reflexivity.
    + rewrite ibv_dead_prefix by apply ctail_dead. rewrite IH. rewrite cseq_cons. unfold cblk. rewrite L. reflexivity.
  - rewrite ibv_dead_prefix by apply ctail_dead. rewrite IH. rewrite cseq_cons. unfold cblk. rewrite L. reflexivity.
Qed.

Lemma cseq_delvis bs pos :
  delete_visible (cseq bs) pos = (cseq (fst (bdel bs pos)), snd (bdel bs pos)).
Proof.
  revert pos. induction bs as [| b r IH]; intros pos; [reflexivity |].
  rewrite cseq_cons. unfold cblk at 1. cbn [app delete_visible u_del mk bdel].
  destruct (b_live b) eqn:L; cbn [negb].
  - destruct pos as [| p].
    + cbn [fst snd]. rewrite cseq_cons. reflexivity.
    + rewrite delvis_dead_prefix by apply ctail_dead. rewrite IH. destruct (bdel r p) as [r' o]. cbn [fst snd].
      rewrite cseq_cons. unfold cblk. rewrite L. reflexivity.
  - rewrite delvis_dead_prefix by apply ctail_dead. rewrite IH. destruct (bdel r pos) as [r' o]. cbn [fst snd].
    rewrite cseq_cons. unfold cblk. rewrite L. reflexivity.
Qed.

(* ---- generic facts on umark_deleted / redo_in_seq / ufind ---- *)
Lemma set_del_dead y : u_del y = true -> set_del y = y.
Proof. destruct y as [i v d r]. cbn. intros ->. reflexivity. Qed.
Lemma umark_notin l h : ~ In h (ids l) -> umark_deleted l h = l.
Proof.
  induction l as [| y r IH]; cbn; intros H; auto. destruct (u_id y =? h) eqn:E.
  - apply N.eqb_eq in E. exfalso. apply H. left. auto.
  - rewrite IH; auto.
Qed.
Lemma umark_app_notin l1 l2 h : ~ In h (ids l1) -> umark_deleted (l1 ++ l2) h = l1 ++ umark_deleted l2 h.
Proof.
  induction l1 as [| y r IH]; cbn; intros H; auto. destruct (u_id y =? h) eqn:E.
  - apply N.eqb_eq in E. exfalso. apply H. left. auto.
  - rewrite IH; auto.
Qed.
Lemma umark_app_in l1 l2 h : In h (ids l1) -> umark_deleted (l1 ++ l2) h = umark_deleted l1 h ++ l2.
Proof.
  induction l1 as [| y r IH]; cbn; intros H; [destruct H |]. destruct (u_id y =? h) eqn:E; auto.
  destruct H as [H | H]; [apply N.eqb_neq in E; contradiction |]. rewrite IH; auto.
Qed.
Lemma umark_dead l h : (forall y, In y l -> u_del y = true) -> umark_deleted l h = l.
Proof.
  induction l as [| y r IH]; cbn; intros H; auto. destruct (u_id y =? h).
  - rewrite set_del_dead; auto.
  - rewrite IH; auto.
Qed.
Lemma redo_seq_app_notin l1 l2 j f : ~ In j (ids l1) ->
  redo_in_seq (l1 ++ l2) j f = (l1 ++ fst (redo_in_seq l2 j f), snd (redo_in_seq l2 j f)).
Proof.
  induction l1 as [| y r IH]; cbn; intros H.
  - destruct (redo_in_seq l2 j f); reflexivity.
  - destruct (u_id y =? j) eqn:E.
    + apply N.eqb_eq in E. exfalso. apply H. left. auto.
    + rewrite IH; auto.
Qed.
Lemma ufind_nodup l y : NoDup (ids l) -> In y l -> ufind l (u_id y) = Some y.
Proof.
  induction l as [| z r IH]; cbn; intros ND H; [destruct H |]. inversion ND; subst.
  destruct H as [-> | H]; [rewrite N.eqb_refl; reflexivity |].
  destruct (u_id z =? u_id y) eqn:E; auto.
  apply N.eqb_eq in E. exfalso. apply H2. rewrite E. apply in_map; auto.
Qed.
Lemma existsb_id_iff l i : existsb (fun z => u_id z =? i) l = true <-> In i (ids l).
Proof.
  rewrite existsb_exists, in_map_iff. split.
  - intros (x & H & E). apply N.eqb_eq in E. eauto.
  - intros (x & E & H). exists x. split; auto. apply N.eqb_eq; auto.
Qed.
Lemma existsb_id_false l i : ~ In i (ids l) -> existsb (fun z => u_id z =? i) l = false.
Proof. intros H. destruct (existsb _ l) eqn:E; auto. apply existsb_id_iff in E. contradiction. Qed.

(* ---- sequence: marking and re-creating ---- *)
Definition bmark (bs : list blk) (h : N) : list blk := map (fun b => if b_hd b =? h then kill b else b) bs.
Definition bredo (bs : list blk) (j fresh : N) : list blk := map (fun b => if b_hd b =? j then recopy b fresh else b) bs.

Lemma bmark_notin bs h : (forall b, In b bs -> b_hd b <> h) -> bmark bs h = bs.
Proof.
  unfold bmark. induction bs as [| b r IH]; cbn; intros H; auto. rewrite IH by (intros; apply H; right; auto).
  destruct (b_hd b =? h) eqn:E; auto. apply N.eqb_eq in E. exfalso. apply (H b); auto.
Qed.
Lemma bredo_notin bs j f : (forall b, In b bs -> b_hd b <> j) -> bredo bs j f = bs.
Proof.
  unfold bredo. induction bs as [| b r IH]; cbn; intros H; auto. rewrite IH by (intros; apply H; right; auto).
  destruct (b_hd b =? j) eqn:E; auto. apply N.eqb_eq in E. exfalso. apply (H b); auto.
Qed.
Lemma in_flat_ids b bs i : In b bs -> In i (b_ids b) -> In i (flat_map b_ids bs).
Proof. intros H1 H2. apply in_flat_map. eauto. Qed.

Lemma cseq_umark bs h : NoDup (flat_map b_ids bs) -> umark_deleted (cseq bs) h = cseq (bmark bs h).
Proof.
  induction bs as [| b r IH]; intros ND; [reflexivity |].
  cbn [flat_map] in ND. pose proof (nodup_app_r _ _ ND) as NDr.
  rewrite cseq_cons. cbn [bmark map]. fold (bmark r h). rewrite cseq_cons.
  destruct (b_hd b =? h) eqn:E.
  - apply N.eqb_eq in E. rewrite umark_app_in by (rewrite cblk_ids; left; auto).
    rewrite bmark_notin.
    + f_equal. unfold cblk. cbn. rewrite E, N.eqb_refl. reflexivity.
    + intros b' Hb' E'. apply (nodup_app_disj _ _ h ND); [left; auto | eapply in_flat_ids; eauto; left; auto].
  - destruct (in_dec N.eq_dec h (b_tl b)) as [I | NI].
    + rewrite umark_app_in by (rewrite cblk_ids; right; auto).
      rewrite bmark_notin.
      * f_equal. unfold cblk. cbn. rewrite E. f_equal. apply umark_dead. apply ctail_dead.
      * intros b' Hb' E'. apply (nodup_app_disj _ _ h ND); [right; auto | eapply in_flat_ids; eauto; left; auto].
    + rewrite umark_app_notin.
      * rewrite IH; auto.
      * rewrite cblk_ids. intros [F | F]; [apply N.eqb_neq in E; auto | auto].
Qed.

Lemma cseq_redo bs j fresh :
  NoDup (flat_map b_ids bs) -> (exists b, In b bs /\ b_hd b = j /\ b_live b = false) ->
  redo_in_seq (cseq bs) j fresh = (cseq (bredo bs j fresh), true).
Proof.
  induction bs as [| b r IH]; intros ND (b0 & Hb0 & E0 & L0); [destruct Hb0 |].
  cbn [flat_map] in ND. pose proof (nodup_app_r _ _ ND) as NDr.
  rewrite cseq_cons. cbn [bredo map]. fold (bredo r j fresh). rewrite cseq_cons.
  destruct (b_hd b =? j) eqn:E.
  - apply N.eqb_eq in E. assert (b0 = b) as ->.
    { destruct Hb0 as [<- | Hb0]; auto. exfalso.
      apply (nodup_app_disj _ _ j ND); [left; auto | eapply in_flat_ids; eauto; left; auto]. }
    rewrite bredo_notin.
    + unfold cblk. cbn. rewrite E, N.eqb_refl, L0. cbn. reflexivity.
    + intros b' Hb' E'. apply (nodup_app_disj _ _ j ND); [left; auto | eapply in_flat_ids; eauto; left; auto].
  - destruct Hb0 as [<- | Hb0]; [apply N.eqb_neq in E; contradiction |].
    rewrite redo_seq_app_notin.
    + rewrite IH; eauto.
    + rewrite cblk_ids. intros F. apply (nodup_app_disj _ _ j ND); auto. eapply in_flat_ids; eauto. left; auto.
Qed.

Lemma bmark_ids bs h : flat_map b_ids (bmark bs h) = flat_map b_ids bs.
Proof. unfold bmark. induction bs as [| b r IH]; cbn; auto. rewrite IH. destruct (b_hd b =? h); reflexivity. Qed.



Lemma u_id_mk i v d r : u_id (mk i v d r) = i. Proof. reflexivity. Qed.
Lemma u_val_mk i v d r : u_val (mk i v d r) = v. Proof. reflexivity. Qed.
Lemma u_del_mk i v d r : u_del (mk i v d r) = d. Proof. reflexivity. Qed.
Lemma u_red_mk i v d r : u_red (mk i v d r) = r. Proof. reflexivity. Qed.

(* ---- map chains ---- *)
Notation aids := (map a_id).
Definition akill (x : aunit) : aunit := {| a_id := a_id x; a_rt := a_rt x; a_val := a_val x; a_del := true |}.
Definition cunit (x : aunit) (r : option N) : uitem := mk (a_id x) (a_val x) (a_del x) r.

Lemma u_id_cunit x r : u_id (cunit x r) = a_id x. Proof. reflexivity. Qed.
Lemma u_red_cunit x r : u_red (cunit x r) = r. Proof. reflexivity. Qed.
Lemma u_del_cunit x r : u_del (cunit x r) = a_del x. Proof. reflexivity. Qed.
Lemma u_val_cunit x r : u_val (cunit x r) = a_val x. Proof. reflexivity. Qed.

Fixpoint adel_last (c : list aunit) : list aunit * option N :=
  match c with
  | [] => ([], None)
  | y :: r => match r with
              | [] => if a_del y then ([y], None) else ([akill y], Some (a_id y))
              | _ => let '(r', o) := adel_last r in (y :: r', o)
              end
  end.
Fixpoint last_same (r : N) (l : list aunit) : option N :=
  match l with
  | [] => None
  | x :: t => match last_same r t with Some j => Some j | None => if a_rt x =? r then Some (a_id x) else None end
  end.

Lemma cchain_ids c : ids (cchain c) = aids c.
Proof. induction c as [| x t IH]; cbn; auto. rewrite IH. reflexivity. Qed.
Lemma cchain_length c : length (cchain c) = length c.
Proof. induction c as [| x t IH]; cbn; auto. Qed.

Lemma adel_last_snoc c0 w : adel_last (c0 ++ [w]) = (c0 ++ [if a_del w then w else akill w], if a_del w then None else Some (a_id w)).
Proof.
  induction c0 as [| y r IH]; cbn.
  - destruct (a_del w); reflexivity.
  - rewrite IH. destruct (r ++ [w]) eqn:E; [destruct r; discriminate | reflexivity].
Qed.
Lemma adel_last_nil : adel_last [] = ([], None).
Proof. reflexivity. Qed.

Lemma next_same_app r l1 l2 : next_same r (l1 ++ l2) = match next_same r l1 with Some i => Some i | None => next_same r l2 end.
Proof. induction l1 as [| x t IH]; cbn; auto. destruct (a_rt x =? r); auto. Qed.

(* the concrete chain of c0 ++ [w] when only the deletion flag of w changes *)
Lemma cchain_snoc_flag c0 w w' : a_id w' = a_id w -> a_rt w' = a_rt w -> a_val w' = a_val w ->
  exists p, cchain (c0 ++ [w]) = p ++ [cunit w None] /\ cchain (c0 ++ [w']) = p ++ [cunit w' None].
Proof.
  intros E1 E2 E3. induction c0 as [| y r IH]; cbn.
  - exists []. split; reflexivity.
  - destruct IH as (p & A & B). rewrite A, B.
    exists (mk (a_id y) (a_val y) (a_del y) (next_same (a_rt y) (r ++ [w])) :: p). split; [reflexivity |].
    rewrite !next_same_app. cbn. rewrite E1, E2. reflexivity.
Qed.

Lemma cchain_delete_last c : delete_last (cchain c) = (cchain (fst (adel_last c)), snd (adel_last c)).
Proof.
  destruct (list_last_case c) as [-> | (c0 & w & ->)]; [reflexivity |].
  rewrite adel_last_snoc. cbn [fst snd].
  destruct (a_del w) eqn:D.
  - destruct (cchain_snoc_flag c0 w w eq_refl eq_refl eq_refl) as (p & A & _). rewrite A.
    rewrite delete_last_app. unfold cunit. cbn. rewrite D. reflexivity.
  - destruct (cchain_snoc_flag c0 w (akill w) eq_refl eq_refl eq_refl) as (p & A & B). rewrite A, B.
    rewrite delete_last_app. unfold cunit. cbn. rewrite D. reflexivity.
Qed.

Lemma last_same_none_next r l : last_same r l = None -> next_same r l = None.
Proof.
  induction l as [| x t IH]; cbn; auto. destruct (last_same r t); [discriminate |].
  destruct (a_rt x =? r); [discriminate | auto].
Qed.
Lemma last_same_some_next r l j : last_same r l = Some j -> exists i, next_same r l = Some i.
Proof.
  revert j. induction l as [| x t IH]; intros j; cbn; [discriminate |]. destruct (a_rt x =? r); [intros _; eauto |].
  destruct (last_same r t) as [j0 |]; [| discriminate]. intros _. apply (IH j0). reflexivity.
Qed.
Lemma last_same_in r l j : last_same r l = Some j -> In j (aids l).
Proof.
  induction l as [| x t IH]; cbn; [discriminate |]. destruct (last_same r t) as [j' |].
  - intros H; inversion H; subst. right. auto.
  - destruct (a_rt x =? r); [| discriminate]. intros H; inversion H; subst. left; auto.
Qed.

Lemma map_setred_notin (cc : list uitem) j f : ~ In j (ids cc) -> map (fun z => if u_id z =? j then set_red z f else z) cc = cc.
Proof.
  induction cc as [| y r IH]; cbn; intros H; auto. destruct (u_id y =? j) eqn:E.
  - apply N.eqb_eq in E. exfalso. apply H. left; auto.
  - rewrite IH; auto.
Qed.

Lemma cchain_snoc c x : NoDup (aids c) ->
  cchain (c ++ [x]) =
  match last_same (a_rt x) c with
  | Some j => map (fun z => if u_id z =? j then set_red z (a_id x) else z) (cchain c)
  | None => cchain c
  end ++ [cunit x None].
Proof.
  induction c as [| y r IH]; intros ND; [reflexivity |]. inversion ND; subst.
  cbn [app cchain last_same]. rewrite IH by auto. rewrite next_same_app. cbn [next_same].
  destruct (last_same (a_rt x) r) as [j |] eqn:LS.
  - cbn [map app]. f_equal. rewrite u_id_mk.
    assert (a_id y =? j = false) as ->.
    { apply N.eqb_neq. intros EQ. subst j. apply H1. eapply last_same_in; eauto. }
    destruct (a_rt x =? a_rt y) eqn:R.
    + apply N.eqb_eq in R. rewrite <- R. destruct (last_same_some_next _ _ _ LS) as (i & ->). reflexivity.
    + destruct (next_same (a_rt y) r); reflexivity.
  - destruct (a_rt y =? a_rt x) eqn:R.
    + cbn [map app]. rewrite u_id_mk. rewrite N.eqb_refl. apply N.eqb_eq in R. rewrite R.
      rewrite (last_same_none_next _ _ LS). rewrite N.eqb_refl.
      rewrite map_setred_notin; [reflexivity |]. rewrite cchain_ids. auto.
    + cbn [app]. f_equal. rewrite N.eqb_sym, R. destruct (next_same (a_rt y) r); reflexivity.
Qed.

Definition amark (c : list aunit) (h : N) : list aunit := map (fun x => if a_id x =? h then akill x else x) c.
Lemma next_same_amark r c h : next_same r (amark c h) = next_same r c.
Proof. unfold amark. induction c as [| x t IH]; cbn; auto. rewrite IH. destruct (a_id x =? h); reflexivity. Qed.
Lemma amark_notin c h : ~ In h (aids c) -> amark c h = c.
Proof.
  unfold amark. induction c as [| x t IH]; cbn; intros H; auto. rewrite IH by auto.
  destruct (a_id x =? h) eqn:E; auto. apply N.eqb_eq in E. exfalso. apply H. left; auto.
Qed.
Lemma amark_ids c h : aids (amark c h) = aids c.
Proof. unfold amark. induction c as [| x t IH]; cbn; auto. rewrite IH. destruct (a_id x =? h); reflexivity. Qed.
Lemma cchain_umark c h : NoDup (aids c) -> umark_deleted (cchain c) h = cchain (amark c h).
Proof.
  induction c as [| x t IH]; intros ND; [reflexivity |]. inversion ND; subst.
  cbn [cchain umark_deleted]. rewrite u_id_mk. unfold amark. cbn [map]. fold (amark t h).
  destruct (a_id x =? h) eqn:E.
  - apply N.eqb_eq in E. subst h. rewrite amark_notin by auto. reflexivity.
  - cbn [cchain]. rewrite next_same_amark, IH by auto. reflexivity.
Qed.

Lemma delete_last_map_setred cc j f :
  delete_last (map (fun z => if u_id z =? j then set_red z f else z) cc) =
  (map (fun z => if u_id z =? j then set_red z f else z) (fst (delete_last cc)), snd (delete_last cc)).
Proof.
  destruct (list_last_case cc) as [-> | (c0 & w & ->)]; [reflexivity |].
  rewrite map_app. cbn [map]. rewrite !delete_last_app. cbn [fst snd]. rewrite map_app. cbn [map].
  destruct (u_id w =? j) eqn:E; cbn; destruct (u_del w) eqn:D; cbn; rewrite ?E; reflexivity.
Qed.

(* ---- key lookup on the concretised map ---- *)
Fixpoint achain_of (m : list (N * list aunit)) (k : N) : list aunit :=
  match m with [] => [] | (k', c) :: r => if k' =? k then c else achain_of r k end.
Fixpoint aset_chain (m : list (N * list aunit)) (k : N) (c : list aunit) : list (N * list aunit) :=
  match m with
  | [] => [(k, c)]
  | (k', c') :: r => if k' =? k then (k, c) :: r else (k', c') :: aset_chain r k c
  end.
Lemma cmap_chain_of m k : chain_of (cmap m) k = cchain (achain_of m k).
Proof. unfold cmap. induction m as [| [k' c] r IH]; cbn; auto. destruct (k' =? k); auto. Qed.
Lemma cmap_set_chain m k c : set_chain (cmap m) k (cchain c) = cmap (aset_chain m k c).
Proof. unfold cmap. induction m as [| [k' c'] r IH]; cbn; auto. destruct (k' =? k); cbn; [reflexivity | rewrite IH; reflexivity]. Qed.

(* ---- following redone pointers ---- *)
Lemma ufollow_mono f items i w : ufollow f items i = Some w -> forall f', (f <= f')%nat -> ufollow f' items i = Some w.
Proof.
  revert i. induction f as [| f IH]; intros i H f' L; [discriminate |].
  destruct f' as [| f']; [lia |]. cbn in *. destruct (ufind items i) as [y |]; [| discriminate].
  destruct (u_red y); auto. apply IH; auto. lia.
Qed.

Fixpoint lastu (r : N) (l : list aunit) : option aunit :=
  match l with
  | [] => None
  | x :: t => match lastu r t with Some w => Some w | None => if a_rt x =? r then Some x else None end
  end.
Lemma last_same_lastu r l : last_same r l = option_map a_id (lastu r l).
Proof. induction l as [| x t IH]; cbn; auto. rewrite IH. destruct (lastu r t); cbn; auto. destruct (a_rt x =? r); reflexivity. Qed.
Lemma lastu_app r l1 l2 : lastu r (l1 ++ l2) = match lastu r l2 with Some w => Some w | None => lastu r l1 end.
Proof.
  induction l1 as [| x t IH]; cbn; [destruct (lastu r l2); reflexivity |].
  rewrite IH. destruct (lastu r l2); reflexivity.
Qed.
Lemma lastu_in r l w : lastu r l = Some w -> In w l /\ a_rt w = r.
Proof.
  induction l as [| x t IH]; cbn; [discriminate |]. destruct (lastu r t) as [w' |].
  - intros H; inversion H; subst. destruct (IH eq_refl). auto.
  - destruct (a_rt x =? r) eqn:E; [| discriminate]. intros H; inversion H; subst. apply N.eqb_eq in E. auto.
Qed.
Lemma lastu_none r l : lastu r l = None -> forall z, In z l -> a_rt z <> r.
Proof.
  induction l as [| x t IH]; cbn; [intros _ z [] |]. destruct (lastu r t); [discriminate |].
  destruct (a_rt x =? r) eqn:E; [discriminate |]. intros _ z [<- | H]; [apply N.eqb_neq; auto | apply IH; auto].
Qed.
Lemma lastu_none_of r l : (forall z, In z l -> a_rt z <> r) -> lastu r l = None.
Proof.
  induction l as [| x t IH]; cbn; intros H; auto. rewrite IH by (intros; apply H; right; auto).
  destruct (a_rt x =? r) eqn:E; auto. apply N.eqb_eq in E. exfalso. apply (H x); auto.
Qed.
Lemma next_same_split r l i : next_same r l = Some i ->
  exists m1 x' m2, l = m1 ++ x' :: m2 /\ a_id x' = i /\ a_rt x' = r /\ (forall z, In z m1 -> a_rt z <> r).
Proof.
  induction l as [| x t IH]; cbn; [discriminate |]. destruct (a_rt x =? r) eqn:E.
  - intros H; inversion H; subst. apply N.eqb_eq in E. exists [], x, t. repeat split; auto; intros z [].
  - intros H. destruct (IH H) as (m1 & x' & m2 & -> & A & B & C). exists (x :: m1), x', m2. repeat split; auto.
    intros z [<- | Hz]; [apply N.eqb_neq; auto | auto].
Qed.
Lemma next_same_none r l : next_same r l = None -> forall z, In z l -> a_rt z <> r.
Proof.
  induction l as [| x t IH]; cbn; [intros _ z [] |]. destruct (a_rt x =? r) eqn:E; [discriminate |].
  intros H z [<- | Hz]; [apply N.eqb_neq; auto | auto].
Qed.

Lemma cchain_suffix l1 l : exists p, cchain (l1 ++ l) = p ++ cchain l /\ ids p = aids l1.
Proof.
  induction l1 as [| x t IH]; cbn.
  - exists []. auto.
  - destruct IH as (p & -> & E). eexists (_ :: p). split; [reflexivity |]. cbn. rewrite E. reflexivity.
Qed.
Lemma cchain_in_mid l1 x l2 : In (cunit x (next_same (a_rt x) l2)) (cchain (l1 ++ x :: l2)).
Proof.
  destruct (cchain_suffix l1 (x :: l2)) as (p & -> & _). apply in_or_app. right. left. reflexivity.
Qed.

Lemma follow_chain items c :
  (forall y, In y (cchain c) -> ufind items (u_id y) = Some y) ->
  forall n l1 x l2 w, length l2 = n -> c = l1 ++ x :: l2 -> lastu (a_rt x) (x :: l2) = Some w ->
  forall f, (n < f)%nat -> ufollow f items (a_id x) = Some (cunit w None).
Proof.
  intros HF n. induction n as [n IH] using lt_wf_ind. intros l1 x l2 w Ln -> LW f Lf.
  destruct f as [| f]; [lia |]. cbn [ufollow].
  pose proof (HF _ (cchain_in_mid l1 x l2)) as F. rewrite u_id_cunit in F. rewrite F. rewrite u_red_cunit.
  destruct (next_same (a_rt x) l2) as [i |] eqn:NS.
  - destruct (next_same_split _ _ _ NS) as (m1 & x' & m2 & -> & A & B & C). subst i.
    assert (Lm : (length m2 < n)%nat) by (rewrite app_length in Ln; cbn in Ln; lia).
    apply (IH (length m2) Lm (l1 ++ x :: m1) x' m2 w eq_refl).
    + rewrite <- app_assoc. reflexivity.
    + rewrite B. cbn [lastu] in LW. rewrite lastu_app in LW. cbn [lastu] in LW.
      cbn [lastu]. destruct (lastu (a_rt x) m2) as [w' |]; auto.
      rewrite B, N.eqb_refl in *. auto.
    + lia.
  - cbn [lastu] in LW. rewrite (lastu_none_of _ _ (next_same_none _ _ NS)) in LW. rewrite N.eqb_refl in LW.
    inversion LW; subst. reflexivity.
Qed.

Lemma follow_ctail items v : forall t h f0 w,
  ufollow f0 items h = Some w ->
  (forall y, In y (ctail h t v) -> ufind items (u_id y) = Some y) ->
  forall k i, nth_error t k = Some i -> ufollow (f0 + k + 1) items i = Some w.
Proof.
  induction t as [| i0 t IH]; intros h f0 w F HF k i Hk; [destruct k; discriminate |].
  cbn [ctail] in HF.
  assert (F0 : ufollow (S f0) items i0 = Some w).
  { cbn [ufollow]. pose proof (HF _ (or_introl eq_refl)) as E. rewrite u_id_mk in E. rewrite E, u_red_mk. exact F. }
  destruct k as [| k]; cbn in Hk.
  - inversion Hk; subst. replace (f0 + 0 + 1)%nat with (S f0) by lia. exact F0.
  - replace (f0 + S k + 1)%nat with (S f0 + k + 1)%nat by lia.
    eapply IH; eauto. intros y Hy. apply HF. right; auto.
Qed.

Definition hunit (b : blk) : uitem := mk (b_hd b) (b_val b) (negb (b_live b)) None.
Lemma follow_blk items b i f :
  (forall y, In y (cblk b) -> ufind items (u_id y) = Some y) ->
  In i (b_ids b) -> (length (b_tl b) < f)%nat -> ufollow f items i = Some (hunit b).
Proof.
  intros HF Hi Lf.
  assert (F1 : ufollow 1 items (b_hd b) = Some (hunit b)).
  { cbn [ufollow]. pose proof (HF (hunit b) (or_introl eq_refl)) as E. unfold hunit in E at 1. rewrite u_id_mk in E.
    rewrite E. unfold hunit. rewrite u_red_mk. reflexivity. }
  destruct Hi as [<- | Hi].
  - eapply ufollow_mono; eauto. lia.
  - apply In_nth_error in Hi. destruct Hi as (k & Hk).
    pose proof (follow_ctail items (b_val b) (b_tl b) (b_hd b) 1 (hunit b) F1) as K.
    eapply ufollow_mono; [eapply K; eauto |].
    + intros y Hy. apply HF. right. exact Hy.
    + assert (k < length (b_tl b))%nat by (apply nth_error_Some; congruence). lia.
Qed.



(* ---- whole abstract states ---- *)
Definition aunits (a : astate) : list aunit := flat_map snd (a_map a).
Definition seq_ids (a : astate) : list N := flat_map b_ids (a_seq a).
Definition a_ids (a : astate) : list N := seq_ids a ++ aids (aunits a).

Lemma cmap_items m : flat_map snd (cmap m) = flat_map (fun kc => cchain (snd kc)) m.
Proof. unfold cmap. induction m as [| [k c] r IH]; cbn; auto. rewrite IH. reflexivity. Qed.
Lemma cmap_ids m : ids (flat_map snd (cmap m)) = aids (flat_map snd m).
Proof. rewrite cmap_items. induction m as [| [k c] r IH]; cbn; auto. rewrite !map_app, IH, cchain_ids. reflexivity. Qed.
Lemma conc_all_ids a nx us rs : all_ids (conc a nx us rs) = a_ids a.
Proof. unfold all_ids, all_items, a_ids, seq_ids, aunits. cbn. rewrite map_app, cseq_ids, cmap_ids. reflexivity. Qed.
Lemma cmap_keys m : map fst (cmap m) = map fst m.
Proof. unfold cmap. rewrite map_map. reflexivity. Qed.

Lemma umem_iff i l : umem i l = true <-> In i l.
Proof.
  unfold umem. rewrite existsb_exists. split.
  - intros (x & H & E). apply N.eqb_eq in E. subst. auto.
  - intros H. exists i. split; auto. apply N.eqb_refl.
Qed.
Lemma umem_false i l : umem i l = false <-> ~ In i l.
Proof. rewrite <- umem_iff. destruct (umem i l); split; intros; try discriminate; auto. exfalso; auto. Qed.

Definition blk_of (a : astate) (i : N) : option blk := find (fun b => umem i (b_ids b)) (a_seq a).
Definition unit_of (a : astate) (i : N) : option aunit := find (fun x => a_id x =? i) (aunits a).
Definition rt_of (a : astate) (i : N) : option N :=
  match blk_of a i with Some b => Some (b_rt b) | None => option_map a_rt (unit_of a i) end.
Definition roots (a : astate) (l : list N) : list N :=
  flat_map (fun i => match rt_of a i with Some r => [r] | None => [] end) l.
Definition live (a : astate) : list N :=
  map b_rt (filter b_live (a_seq a)) ++ map a_rt (filter (fun x => negb (a_del x)) (aunits a)).
Definition to_redo_of (E : stackitem) : list N := filter (fun i => negb (umem i (st_ins E))) (st_del E).
Definition tau (a : astate) (E : stackitem) (S : list N) : list N :=
  filter (fun r => negb (umem r (roots a (st_ins E)))) S ++ roots a (to_redo_of E).
Definition render (a : astate) (S : list N) : ucont :=
  (map b_val (filter (fun b => umem (b_rt b) S) (a_seq a)),
   flat_map (fun kc => match find (fun x => umem (a_rt x) S) (snd kc) with Some x => [(fst kc, a_val x)] | None => [] end) (a_map a)).
Definition seteq (S S' : list N) : Prop := forall r, In r S <-> In r S'.

Lemma in_roots a l r : In r (roots a l) <-> exists i, In i l /\ rt_of a i = Some r.
Proof.
  unfold roots. rewrite in_flat_map. split.
  - intros (i & Hi & H). destruct (rt_of a i) as [r' |] eqn:E; [| destruct H]. destruct H as [<- | []]. eauto.
  - intros (i & Hi & E). exists i. split; auto. rewrite E. left; auto.
Qed.
Lemma in_tau a E S r : In r (tau a E S) <->
  (In r S /\ ~ In r (roots a (st_ins E))) \/ In r (roots a (to_redo_of E)).
Proof.
  unfold tau. rewrite in_app_iff, filter_In, negb_true_iff, umem_false. tauto.
Qed.
Lemma in_to_redo E i : In i (to_redo_of E) <-> In i (st_del E) /\ ~ In i (st_ins E).
Proof. unfold to_redo_of. rewrite filter_In, negb_true_iff, umem_false. tauto. Qed.

Lemma seteq_refl S : seteq S S. Proof. intros r; tauto. Qed.
Lemma seteq_sym S S' : seteq S S' -> seteq S' S. Proof. intros H r; rewrite (H r); tauto. Qed.
Lemma seteq_trans S1 S2 S3 : seteq S1 S2 -> seteq S2 S3 -> seteq S1 S3.
Proof. intros H1 H2 r; rewrite (H1 r), (H2 r); tauto. Qed.
Lemma tau_seteq a E S S' : seteq S S' -> seteq (tau a E S) (tau a E S').
Proof. intros H r. rewrite !in_tau, (H r). tauto. Qed.

Lemma umem_seteq S S' r : seteq S S' -> umem r S = umem r S'.
Proof.
  intros H. destruct (umem r S) eqn:E1, (umem r S') eqn:E2; auto.
  - apply umem_iff in E1. apply H in E1. apply umem_iff in E1. congruence.
  - apply umem_iff in E2. apply H in E2. apply umem_iff in E2. congruence.
Qed.
Lemma render_seteq a S S' : seteq S S' -> render a S = render a S'.
Proof.
  intros H. unfold render. f_equal.
  - f_equal. apply filter_ext. intros b. apply umem_seteq; auto.
  - apply flat_map_ext. intros [k c]. cbn.
    assert (find (fun x => umem (a_rt x) S) c = find (fun x => umem (a_rt x) S') c) as ->; auto.
    induction c as [| x t IH]; cbn; auto. rewrite (umem_seteq S S' _ H), IH. reflexivity.
Qed.

Fixpoint incr (l : list N) : Prop := match l with [] => True | i :: t => (forall j, In j t -> i < j) /\ incr t end.
Lemma incr_snoc l n : incr (l ++ [n]) <-> incr l /\ (forall i, In i l -> i < n).
Proof.
  induction l as [| i t IH]; cbn.
  - split; [intros _; split; auto; intros i [] | intros _; split; auto; intros j []].
  - rewrite IH. split.
    + intros (A & B & C). repeat split; auto.
      * intros j Hj. apply A. apply in_or_app; auto.
      * intros j [<- | Hj]; auto. apply A. apply in_or_app; right; left; auto.
    + intros ((A & B) & C). repeat split; auto. intros j Hj. apply in_app_or in Hj. destruct Hj as [Hj | [<- | []]]; auto.
Qed.

Record WF (a : astate) (nx : N) : Prop := {
  wf_nodup : NoDup (a_ids a);
  wf_lt : forall i, In i (a_ids a) -> i < nx;
  wf_keys : NoDup (map fst (a_map a));
  wf_rseq : NoDup (map b_rt (a_seq a));
  wf_rsm : forall b x, In b (a_seq a) -> In x (aunits a) -> b_rt b <> a_rt x;
  wf_rmap : forall k1 c1 k2 c2 x1 x2, In (k1, c1) (a_map a) -> In (k2, c2) (a_map a) -> In x1 c1 -> In x2 c2 -> a_rt x1 = a_rt x2 -> k1 = k2;
  wf_rlt : forall r, In r (map b_rt (a_seq a) ++ map a_rt (aunits a)) -> r < nx;
  wf_clive : forall k c l1 x l2, In (k, c) (a_map a) -> c = l1 ++ x :: l2 -> l2 <> [] -> a_del x = true;
  wf_cval : forall k c x y, In (k, c) (a_map a) -> In x c -> In y c -> a_rt x = a_rt y -> a_val x = a_val y;
  wf_incr : forall k c, In (k, c) (a_map a) -> incr (aids c) }.

Lemma in_live a r : In r (live a) <->
  (exists b, In b (a_seq a) /\ b_live b = true /\ b_rt b = r) \/ (exists x, In x (aunits a) /\ a_del x = false /\ a_rt x = r).
Proof.
  unfold live. rewrite in_app_iff, !in_map_iff. split.
  - intros [(b & E & H) | (x & E & H)]; apply filter_In in H; destruct H as (H & L).
    + left. eauto.
    + right. apply negb_true_iff in L. eauto.
  - intros [(b & H & L & E) | (x & H & L & E)].
    + left. exists b. split; auto. apply filter_In. auto.
    + right. exists x. split; auto. apply filter_In. split; auto. rewrite L. reflexivity.
Qed.
Lemma in_aunits a x : In x (aunits a) <-> exists k c, In (k, c) (a_map a) /\ In x c.
Proof.
  unfold aunits. rewrite in_flat_map. split.
  - intros ([k c] & H & Hx). eauto.
  - intros (k & c & H & Hx). exists (k, c). auto.
Qed.

Lemma achain_of_in m k c : NoDup (map fst m) -> In (k, c) m -> achain_of m k = c.
Proof.
  induction m as [| [k' c'] r IH]; cbn; intros ND H; [destruct H |]. inversion ND; subst.
  destruct H as [H | H].
  - inversion H; subst. rewrite N.eqb_refl. reflexivity.
  - destruct (k' =? k) eqn:E; auto. apply N.eqb_eq in E. subst. exfalso. apply H2.
    change k with (fst (k, c)). apply in_map; auto.
Qed.
Lemma flat_keys_ext {X} (G : list aunit -> N -> list X) m0 m :
  (forall k c, In (k, c) m -> achain_of m0 k = c) ->
  flat_map (fun k => G (achain_of m0 k) k) (map fst m) = flat_map (fun kc => G (snd kc) (fst kc)) m.
Proof.
  induction m as [| [k c] r IH]; cbn; intros H; auto. rewrite (H k c) by auto. rewrite IH; auto.
Qed.

Lemma umap_value_cchain m k : umap_value (cmap m) k =
  match rev (achain_of m k) with x :: _ => if a_del x then None else Some (a_val x) | [] => None end.
Proof.
  unfold umap_value. rewrite cmap_chain_of.
  destruct (list_last_case (achain_of m k)) as [-> | (c0 & w & ->)]; [reflexivity |].
  destruct (cchain_snoc_flag c0 w w eq_refl eq_refl eq_refl) as (p & -> & _).
  rewrite !rev_app_distr. cbn. reflexivity.
Qed.

Lemma live_chain_last a nx k c x : WF a nx -> In (k, c) (a_map a) -> In x c -> a_del x = false -> exists c0, c = c0 ++ [x].
Proof.
  intros W H Hx L. apply in_split in Hx. destruct Hx as (l1 & l2 & ->).
  destruct l2 as [| y l2]; [eauto |]. exfalso.
  rewrite (wf_clive _ _ W k _ l1 x (y :: l2) H eq_refl) in L; discriminate.
Qed.

Lemma flat_map_ext_in' {X Y} (f g : X -> list Y) l : (forall x, In x l -> f x = g x) -> flat_map f l = flat_map g l.
Proof. induction l as [| x t IH]; cbn; intros H; auto. rewrite H, IH; auto. Qed.
Lemma find_none_iff' {X} (f : X -> bool) l : (forall x, In x l -> f x = false) -> find f l = None.
Proof. induction l as [| x t IH]; cbn; intros H; auto. rewrite H, IH; auto. Qed.

Definition entry_of (kc : N * list aunit) : list (N * utok) :=
  match rev (snd kc) with x :: _ => if a_del x then [] else [(fst kc, a_val x)] | [] => [] end.
Lemma live_entries_gen m0 m :
  (forall k c, In (k, c) m -> achain_of m0 k = c) ->
  flat_map (fun k => match umap_value (cmap m0) k with Some v => [(k, v)] | None => [] end) (map fst m) = flat_map entry_of m.
Proof.
  induction m as [| [k c] r IH]; cbn [map flat_map]; intros H; auto.
  rewrite IH by (intros; apply H; right; auto). f_equal.
  cbn [fst]. rewrite umap_value_cchain, (H k c) by (left; auto). unfold entry_of. cbn [fst snd].
  destruct (rev c) as [| x t]; auto. destruct (a_del x); reflexivity.
Qed.
Lemma live_entries_conc a nx us rs : NoDup (map fst (a_map a)) ->
  live_entries (conc a nx us rs) = flat_map entry_of (a_map a).
Proof.
  intros ND. unfold live_entries, keys_of. cbn [mapc conc]. rewrite cmap_keys.
  apply live_entries_gen. intros; apply achain_of_in; auto.
Qed.

Lemma cont_render a nx us rs : WF a nx -> cont (conc a nx us rs) = render a (live a).
Proof.
  intros W. unfold cont, render. f_equal.
  - cbn [seqc conc]. rewrite cseq_uvisible. f_equal. apply filter_ext_in. intros b Hb.
    destruct (b_live b) eqn:L; symmetry.
    + apply umem_iff. apply in_live. left. eauto.
    + apply umem_false. intros F. apply in_live in F. destruct F as [(b' & Hb' & L' & E) | (x & Hx & _ & E)].
      * assert (b' = b) as ->; [| congruence].
        pose proof (wf_rseq _ _ W) as ND. clear - ND Hb Hb' E. induction (a_seq a) as [| z t IH]; [destruct Hb |].
        cbn in ND. inversion ND; subst. destruct Hb as [-> | Hb], Hb' as [-> | Hb']; auto.
        -- exfalso. apply H1. rewrite <- E. apply in_map; auto.
        -- exfalso. apply H1. rewrite E. apply in_map; auto.
      * apply (wf_rsm _ _ W b x Hb Hx). auto.
  - rewrite live_entries_conc by apply (wf_keys _ _ W).
    apply flat_map_ext_in'. intros [k c] Hkc. unfold entry_of. cbn [fst snd].
    destruct (list_last_case c) as [-> | (c0 & w & ->)]; [reflexivity |].
    rewrite rev_app_distr. cbn [rev app].
    destruct (a_del w) eqn:D.
    + (* every unit of the chain is dead: no root of the chain is live *)
      assert (find (fun x => umem (a_rt x) (live a)) (c0 ++ [w]) = None) as ->; auto.
      apply find_none_iff'. intros x Hx. apply umem_false. intros F. apply in_live in F.
      destruct F as [(b & Hb & _ & E) | (x' & Hx' & L' & E)].
      * apply (wf_rsm _ _ W b x Hb); auto. apply in_aunits. eauto.
      * apply in_aunits in Hx'. destruct Hx' as (k' & c' & Hc' & Hx').
        assert (k' = k) as -> by (eapply (wf_rmap _ _ W); eauto).
        assert (c' = c0 ++ [w]) as ->.
        { rewrite <- (achain_of_in _ _ _ (wf_keys _ _ W) Hc'), <- (achain_of_in _ _ _ (wf_keys _ _ W) Hkc). reflexivity. }
        destruct (live_chain_last _ _ _ _ _ W Hkc Hx' L') as (c1 & E1). apply app_inj_tail in E1. destruct E1 as (_ & <-). congruence.
    + destruct (find (fun x => umem (a_rt x) (live a)) (c0 ++ [w])) as [x |] eqn:F.
      * apply find_some in F. destruct F as (Hx & F). apply umem_iff in F. apply in_live in F.
        destruct F as [(b & Hb & _ & E) | (x' & Hx' & L' & E)].
        -- exfalso. apply (wf_rsm _ _ W b x Hb); auto. apply in_aunits. eauto.
        -- apply in_aunits in Hx'. destruct Hx' as (k' & c' & Hc' & Hx').
           assert (k' = k) as -> by (eapply (wf_rmap _ _ W); eauto).
           assert (c' = c0 ++ [w]) as ->.
           { rewrite <- (achain_of_in _ _ _ (wf_keys _ _ W) Hc'), <- (achain_of_in _ _ _ (wf_keys _ _ W) Hkc). reflexivity. }
           destruct (live_chain_last _ _ _ _ _ W Hkc Hx' L') as (c1 & E1). apply app_inj_tail in E1. destruct E1 as (_ & <-).
           rewrite (wf_cval _ _ W k _ x w Hkc Hx Hx'); auto.
      * exfalso. eapply find_none in F; [| apply in_or_app; right; left; reflexivity].
        apply umem_false in F. apply F. apply in_live. right. exists w. split; auto.
        apply in_aunits. exists k, (c0 ++ [w]). split; auto. apply in_or_app; right; left; auto.
Qed.



(* ---- heads of lineages ---- *)
Definition seq_head (bs : list blk) (h r : N) (lv : bool) : Prop :=
  exists b, In b bs /\ b_hd b = h /\ b_rt b = r /\ b_live b = lv.
Definition chain_head (c : list aunit) (h r : N) (lv : bool) : Prop :=
  exists l1 x l2, c = l1 ++ x :: l2 /\ a_id x = h /\ a_rt x = r /\ a_del x = negb lv /\ (forall z, In z l2 -> a_rt z <> r).
Definition map_head (m : list (N * list aunit)) (h r : N) (lv : bool) : Prop :=
  exists k c, In (k, c) m /\ chain_head c h r lv.
Definition is_head (a : astate) (h r : N) (lv : bool) : Prop :=
  seq_head (a_seq a) h r lv \/ map_head (a_map a) h r lv.

(* ---- the four abstract operations ---- *)
Definition akill_id (a : astate) (h : N) : astate :=
  {| a_seq := bmark (a_seq a) h; a_map := map (fun kc => (fst kc, amark (snd kc) h)) (a_map a) |}.
Definition ains (a : astate) (pos : nat) (i : N) (v : utok) : astate :=
  {| a_seq := bins (a_seq a) pos (newblk i v); a_map := a_map a |}.
Definition acopy_seq (a : astate) (j f : N) : astate :=
  {| a_seq := bredo (a_seq a) j f; a_map := a_map a |}.
Definition aappend (a : astate) (k : N) (x : aunit) : astate :=
  {| a_seq := a_seq a; a_map := aset_chain (a_map a) k (achain_of (a_map a) k ++ [x]) |}.

(* ---- generic list facts about the sequence operations ---- *)
Lemma in_bins bs pos b b' : In b' (bins bs pos b) <-> b' = b \/ In b' bs.
Proof.
  revert pos. induction bs as [| y r IH]; intros pos; cbn.
  - intuition.
  - destruct (b_live y).
    + destruct pos as [| p]; cbn; [intuition |]. rewrite IH. intuition.
    + cbn. rewrite IH. intuition.
Qed.
Lemma in_bmark bs h b' : In b' (bmark bs h) <-> exists b, In b bs /\ b' = (if b_hd b =? h then kill b else b).
Proof. unfold bmark. rewrite in_map_iff. split; intros (b & A & B); exists b; auto. Qed.
Lemma in_bredo bs j f b' : In b' (bredo bs j f) <-> exists b, In b bs /\ b' = (if b_hd b =? j then recopy b f else b).
Proof. unfold bredo. rewrite in_map_iff. split; intros (b & A & B); exists b; auto. Qed.

Lemma seq_head_bins bs pos i v h r lv :
  seq_head (bins bs pos (newblk i v)) h r lv <-> seq_head bs h r lv \/ (h = i /\ r = i /\ lv = true).
Proof.
  unfold seq_head. split.
  - intros (b & Hb & A & B & C). apply in_bins in Hb. destruct Hb as [-> | Hb]; [right; cbn in *; auto | left; eauto].
  - intros [(b & Hb & A) | (-> & -> & ->)].
    + exists b. split; auto. apply in_bins; auto.
    + exists (newblk i v). split; [apply in_bins; auto | cbn; auto].
Qed.
Lemma seq_head_bmark bs h' h r lv :
  seq_head (bmark bs h') h r lv <-> (seq_head bs h r lv /\ h <> h') \/ (h = h' /\ lv = false /\ exists lv0, seq_head bs h r lv0).
Proof.
  unfold seq_head. split.
  - intros (b' & Hb & A & B & C). apply in_bmark in Hb. destruct Hb as (b & Hb & ->).
    destruct (b_hd b =? h') eqn:E.
    + apply N.eqb_eq in E. cbn in *. right. repeat split; try congruence. exists (b_live b), b. auto.
    + apply N.eqb_neq in E. left. split; [eauto | congruence].
  - intros [((b & Hb & A & B & C) & NE) | (-> & -> & lv0 & b & Hb & A & B & C)].
    + exists b. split; auto. apply in_bmark. exists b. split; auto.
      destruct (b_hd b =? h') eqn:E; auto. apply N.eqb_eq in E. congruence.
    + exists (kill b). split; [| cbn; auto]. apply in_bmark. exists b. split; auto. rewrite A, N.eqb_refl. reflexivity.
Qed.
Lemma seq_head_bredo bs j f h r lv :
  seq_head (bredo bs j f) h r lv <-> (seq_head bs h r lv /\ h <> j) \/ (h = f /\ lv = true /\ exists lv0, seq_head bs j r lv0).
Proof.
  unfold seq_head. split.
  - intros (b' & Hb & A & B & C). apply in_bredo in Hb. destruct Hb as (b & Hb & ->).
    destruct (b_hd b =? j) eqn:E.
    + apply N.eqb_eq in E. cbn in *. right. repeat split; try congruence. exists (b_live b), b. auto.
    + apply N.eqb_neq in E. left. split; [eauto | congruence].
  - intros [((b & Hb & A & B & C) & NE) | (-> & -> & lv0 & b & Hb & A & B & C)].
    + exists b. split; auto. apply in_bredo. exists b. split; auto.
      destruct (b_hd b =? j) eqn:E; auto. apply N.eqb_eq in E. congruence.
    + exists (recopy b f). split; [| cbn; auto]. apply in_bredo. exists b. split; auto. rewrite A, N.eqb_refl. reflexivity.
Qed.

Lemma amark_rt_in c h z : In z (amark c h) -> exists z0, In z0 c /\ a_rt z = a_rt z0 /\ a_id z = a_id z0.
Proof.
  unfold amark. rewrite in_map_iff. intros (z0 & <- & H). exists z0. split; auto. destruct (a_id z0 =? h); auto.
Qed.
Lemma chain_head_amark c h' h r lv :
  chain_head (amark c h') h r lv <-> (chain_head c h r lv /\ h <> h') \/ (h = h' /\ lv = false /\ exists lv0, chain_head c h r lv0).
Proof.
  unfold chain_head. split.
  - intros (l1 & x & l2 & E & A & B & C & D). unfold amark in E.
    apply map_eq_app in E. destruct E as (m1 & m2 & -> & E1 & E2).
    apply map_eq_cons in E2. destruct E2 as (x0 & m3 & -> & E2 & E3). subst l1 l2 x.
    assert (D' : forall z, In z m3 -> a_rt z <> r).
    { intros z Hz. pose proof (D _ (in_map (fun x => if a_id x =? h' then akill x else x) m3 z Hz)) as K.
      destruct (a_id z =? h'); exact K. }
    destruct (a_id x0 =? h') eqn:E.
    + apply N.eqb_eq in E. cbn in *. right. split; [congruence |]. split.
      * destruct lv; [cbn in C; discriminate | reflexivity].
      * exists (negb (a_del x0)), m1, x0, m3. rewrite negb_involutive. repeat split; auto.
    + apply N.eqb_neq in E. left. split; [| congruence]. exists m1, x0, m3. repeat split; auto.
  - intros [((l1 & x & l2 & -> & A & B & C & D) & NE) | (-> & -> & lv0 & l1 & x & l2 & -> & A & B & C & D)].
    + exists (amark l1 h'), x, (amark l2 h'). unfold amark. rewrite map_app. cbn [map].
      assert (a_id x =? h' = false) as -> by (apply N.eqb_neq; congruence). repeat split; auto.
      intros z Hz. apply amark_rt_in in Hz. destruct Hz as (z0 & Hz0 & -> & _). auto.
    + exists (amark l1 h'), (akill x), (amark l2 h'). unfold amark. rewrite map_app. cbn [map].
      assert (a_id x =? h' = true) as -> by (apply N.eqb_eq; congruence). repeat split; auto.
      intros z Hz. apply amark_rt_in in Hz. destruct Hz as (z0 & Hz0 & -> & _). auto.
Qed.

Lemma chain_head_snoc c x h r lv :
  chain_head (c ++ [x]) h r lv <-> (chain_head c h r lv /\ r <> a_rt x) \/ (h = a_id x /\ r = a_rt x /\ a_del x = negb lv).
Proof.
  unfold chain_head. split.
  - intros (l1 & y & l2 & E & A & B & C & D).
    destruct (list_last_case l2) as [-> | (l2' & w & ->)].
    + apply app_inj_tail in E. destruct E as (-> & ->). right. auto.
    + rewrite app_comm_cons, app_assoc in E. apply app_inj_tail in E. destruct E as (-> & ->).
      left. split.
      * exists l1, y, l2'. repeat split; auto. intros z Hz. apply D. apply in_or_app; auto.
      * intros F. apply (D w); [apply in_or_app; right; left; auto | auto].
  - intros [((l1 & y & l2 & -> & A & B & C & D) & NE) | (-> & -> & C)].
    + exists l1, y, (l2 ++ [x]). rewrite <- app_assoc. repeat split; auto.
      intros z Hz. apply in_app_or in Hz. destruct Hz as [Hz | [<- | []]]; auto.
    + exists c, x, []. repeat split; auto; intros z [].
Qed.

Lemma in_aset_chain m k c' k0 c0 : NoDup (map fst m) ->
  (In (k0, c0) (aset_chain m k c') <-> (k0 = k /\ c0 = c') \/ (k0 <> k /\ In (k0, c0) m)).
Proof.
  induction m as [| [k1 c1] r IH]; cbn; intros ND.
  - split; [intros [H | []]; inversion H; auto | intros [(-> & ->) | (_ & [])]; auto].
  - inversion ND; subst. destruct (k1 =? k) eqn:E.
    + apply N.eqb_eq in E. subst k1. cbn. split.
      * intros [H | H]; [inversion H; auto |]. right. split; auto. intros ->. apply H1.
        change k with (fst (k, c0)). apply in_map; auto.
      * intros [(-> & ->) | (NE & [H | H])]; auto. inversion H; subst. contradiction.
    + apply N.eqb_neq in E. cbn. rewrite IH by auto. split.
      * intros [H | [H | H]]; auto; [inversion H; subst; auto | tauto].
      * intros [H | (NE & [H | H])]; auto.
Qed.
Lemma aset_chain_keys m k c : map fst (aset_chain m k c) = if existsb (N.eqb k) (map fst m) then map fst m else map fst m ++ [k].
Proof.
  induction m as [| [k1 c1] r IH]; cbn; auto. rewrite (N.eqb_sym k k1). destruct (k1 =? k) eqn:E; cbn.
  - apply N.eqb_eq in E. subst. reflexivity.
  - rewrite IH. destruct (existsb (N.eqb k) (map fst r)); reflexivity.
Qed.
Lemma achain_of_notin m k : ~ In k (map fst m) -> achain_of m k = [].
Proof.
  induction m as [| [k1 c1] r IH]; cbn; intros H; auto. destruct (k1 =? k) eqn:E.
  - apply N.eqb_eq in E. exfalso. apply H. left; auto.
  - apply IH. intros F. apply H. right; auto.
Qed.
Lemma achain_of_some m k : In k (map fst m) -> In (k, achain_of m k) m.
Proof.
  induction m as [| [k1 c1] r IH]; cbn; intros H; [destruct H |]. destruct (k1 =? k) eqn:E.
  - apply N.eqb_eq in E. subst. left; auto.
  - right. apply IH. destruct H as [H | H]; auto. apply N.eqb_neq in E. contradiction.
Qed.

(* chain_head of the empty chain is impossible *)
Lemma chain_head_nil h r lv : ~ chain_head [] h r lv.
Proof. intros (l1 & x & l2 & E & _). destruct l1; discriminate. Qed.

Lemma map_head_chain m k h r lv : NoDup (map fst m) ->
  (map_head m h r lv <-> chain_head (achain_of m k) h r lv \/ (exists k' c, In (k', c) m /\ k' <> k /\ chain_head c h r lv)).
Proof.
  intros ND. unfold map_head. split.
  - intros (k' & c & H & CH). destruct (N.eq_dec k' k) as [-> | NE].
    + left. rewrite (achain_of_in _ _ _ ND H). auto.
    + right. eauto.
  - intros [CH | (k' & c & H & _ & CH)]; [| eauto].
    destruct (in_dec N.eq_dec k (map fst m)) as [I | NI].
    + exists k, (achain_of m k). split; auto. apply achain_of_some; auto.
    + rewrite achain_of_notin in CH by auto. destruct (chain_head_nil _ _ _ CH).
Qed.

Lemma map_head_aset m k c' h r lv : NoDup (map fst m) ->
  (map_head (aset_chain m k c') h r lv <-> chain_head c' h r lv \/ (exists k' c, In (k', c) m /\ k' <> k /\ chain_head c h r lv)).
Proof.
  intros ND. unfold map_head. split.
  - intros (k' & c & H & CH). apply in_aset_chain in H; auto. destruct H as [(-> & ->) | (NE & H)]; [left; auto | right; eauto].
  - intros [CH | (k' & c & H & NE & CH)].
    + exists k, c'. split; auto. apply in_aset_chain; auto.
    + exists k', c. split; auto. apply in_aset_chain; auto.
Qed.

Lemma map_head_amark m h' h r lv :
  map_head (map (fun kc => (fst kc, amark (snd kc) h')) m) h r lv <->
  (map_head m h r lv /\ h <> h') \/ (h = h' /\ lv = false /\ exists lv0, map_head m h r lv0).
Proof.
  unfold map_head. split.
  - intros (k & c' & H & CH). apply in_map_iff in H. destruct H as ([k0 c] & E & H). cbn in E. inversion E; subst.
    apply chain_head_amark in CH. destruct CH as [(CH & NE) | (-> & -> & lv0 & CH)]; [left | right]; eauto 8.
  - intros [((k & c & H & CH) & NE) | (-> & -> & lv0 & k & c & H & CH)].
    + exists k, (amark c h'). split; [apply in_map_iff; exists (k, c); auto | apply chain_head_amark; auto].
    + exists k, (amark c h'). split; [apply in_map_iff; exists (k, c); auto | apply chain_head_amark; eauto].
Qed.

(* ---- is_head under the four operations ---- *)
Lemma is_head_kill a h' h r lv :
  is_head (akill_id a h') h r lv <-> (is_head a h r lv /\ h <> h') \/ (h = h' /\ lv = false /\ exists lv0, is_head a h r lv0).
Proof.
  unfold is_head, akill_id. cbn [a_seq a_map]. rewrite seq_head_bmark, map_head_amark. split.
  - intros [[(A & B) | (A & B & lv0 & C)] | [(A & B) | (A & B & lv0 & C)]]; eauto 8.
  - intros [([A | A] & B) | (A & B & lv0 & [C | C])]; eauto 8.
Qed.
Lemma is_head_ains a pos i v h r lv :
  is_head (ains a pos i v) h r lv <-> is_head a h r lv \/ (h = i /\ r = i /\ lv = true).
Proof. unfold is_head, ains. cbn [a_seq a_map]. rewrite seq_head_bins. tauto. Qed.
Lemma is_head_acopy_seq a j f h r lv :
  is_head (acopy_seq a j f) h r lv <->
  (seq_head (a_seq a) h r lv /\ h <> j) \/ (h = f /\ lv = true /\ exists lv0, seq_head (a_seq a) j r lv0) \/ map_head (a_map a) h r lv.
Proof. unfold is_head, acopy_seq. cbn [a_seq a_map]. rewrite seq_head_bredo. tauto. Qed.
Lemma is_head_aappend a k x h r lv : NoDup (map fst (a_map a)) ->
  (is_head (aappend a k x) h r lv <->
   seq_head (a_seq a) h r lv \/
   (chain_head (achain_of (a_map a) k) h r lv /\ r <> a_rt x) \/ (h = a_id x /\ r = a_rt x /\ a_del x = negb lv) \/
   (exists k' c, In (k', c) (a_map a) /\ k' <> k /\ chain_head c h r lv)).
Proof.
  intros ND. unfold is_head, aappend. cbn [a_seq a_map]. rewrite map_head_aset by auto. rewrite chain_head_snoc. tauto.
Qed.



(* ---- the root of an id ---- *)
Definition has_rt (a : astate) (i r : N) : Prop :=
  (exists b, In b (a_seq a) /\ In i (b_ids b) /\ b_rt b = r) \/ (exists x, In x (aunits a) /\ a_id x = i /\ a_rt x = r).

Lemma in_seq_ids a i : In i (seq_ids a) <-> exists b, In b (a_seq a) /\ In i (b_ids b).
Proof. unfold seq_ids. rewrite in_flat_map. tauto. Qed.
Lemma in_a_ids a i : In i (a_ids a) <-> exists r, has_rt a i r.
Proof.
  unfold a_ids, has_rt. rewrite in_app_iff, in_seq_ids, in_map_iff. split.
  - intros [(b & A & B) | (x & A & B)]; [exists (b_rt b); left; eauto | exists (a_rt x); right; eauto].
  - intros (r & [(b & A & B & C) | (x & A & B & C)]); [left; eauto | right; eauto].
Qed.

Lemma nodup_flat_unique {X} (f : X -> list N) l x y i :
  NoDup (flat_map f l) -> In x l -> In y l -> In i (f x) -> In i (f y) -> x = y.
Proof.
  induction l as [| z t IH]; cbn; intros ND Hx Hy Ix Iy; [destruct Hx |].
  destruct Hx as [<- | Hx], Hy as [<- | Hy]; auto.
  - exfalso. apply (nodup_app_disj _ _ i ND); auto. apply in_flat_map; eauto.
  - exfalso. apply (nodup_app_disj _ _ i ND); auto. apply in_flat_map; eauto.
  - apply IH; auto. eapply nodup_app_r; eauto.
Qed.
Lemma nodup_map_unique {X} (f : X -> N) l x y : NoDup (map f l) -> In x l -> In y l -> f x = f y -> x = y.
Proof.
  induction l as [| z t IH]; cbn; intros ND Hx Hy E; [destruct Hx |]. inversion ND; subst.
  destruct Hx as [<- | Hx], Hy as [<- | Hy]; auto.
  - exfalso. apply H1. rewrite E. apply in_map; auto.
  - exfalso. apply H1. rewrite <- E. apply in_map; auto.
Qed.

Lemma has_rt_unique a i r r' : NoDup (a_ids a) -> has_rt a i r -> has_rt a i r' -> r = r'.
Proof.
  unfold a_ids. intros ND [(b & A & B & C) | (x & A & B & C)] [(b' & A' & B' & C') | (x' & A' & B' & C')].
  - assert (b = b') by (eapply (nodup_flat_unique b_ids); eauto; eapply nodup_app_l; eauto). congruence.
  - exfalso. apply (nodup_app_disj _ _ i ND); [apply in_seq_ids; eauto | rewrite <- B'; apply in_map; auto].
  - exfalso. apply (nodup_app_disj _ _ i ND); [apply in_seq_ids; eauto | rewrite <- B; apply in_map; auto].
  - assert (x = x') by (eapply (nodup_map_unique a_id); eauto; [eapply nodup_app_r; eauto | congruence]). congruence.
Qed.

Lemma rt_of_has a i r : rt_of a i = Some r -> has_rt a i r.
Proof.
  unfold rt_of, blk_of, unit_of. destruct (find _ (a_seq a)) as [b |] eqn:F.
  - intros H; inversion H; subst. apply find_some in F. destruct F as (A & B). apply umem_iff in B. left. eauto.
  - destruct (find _ (aunits a)) as [x |] eqn:G; cbn; [| discriminate]. intros H; inversion H; subst.
    apply find_some in G. destruct G as (A & B). apply N.eqb_eq in B. right. eauto.
Qed.
Lemma rt_of_none a i : rt_of a i = None -> ~ In i (a_ids a).
Proof.
  unfold rt_of, blk_of, unit_of. destruct (find _ (a_seq a)) as [b |] eqn:F; [discriminate |].
  destruct (find _ (aunits a)) as [x |] eqn:G; cbn; [discriminate |]. intros _ H. apply in_a_ids in H.
  destruct H as (r & [(b & A & B & C) | (x & A & B & C)]).
  - eapply find_none in F; eauto. apply umem_false in F. contradiction.
  - eapply find_none in G; eauto. apply N.eqb_neq in G. contradiction.
Qed.
Lemma has_rt_of a i r : NoDup (a_ids a) -> has_rt a i r -> rt_of a i = Some r.
Proof.
  intros ND H. destruct (rt_of a i) as [r' |] eqn:E.
  - f_equal. eapply has_rt_unique; eauto. apply rt_of_has; auto.
  - exfalso. apply (rt_of_none _ _ E). apply in_a_ids. eauto.
Qed.

(* has_rt under the operations *)
Lemma has_rt_kill a h i r : has_rt (akill_id a h) i r <-> has_rt a i r.
Proof.
  unfold has_rt, akill_id, aunits. cbn [a_seq a_map]. split.
  - intros [(b' & A & B & C) | (x' & A & B & C)].
    + apply in_bmark in A. destruct A as (b & A & ->). left. exists b. destruct (b_hd b =? h); auto.
    + apply in_flat_map in A. destruct A as ([k c'] & A & A'). apply in_map_iff in A. destruct A as ([k0 c] & E & A).
      cbn in E. inversion E; subst. cbn in A'. apply amark_rt_in in A'. destruct A' as (z0 & Hz & E1 & E2).
      right. exists z0. split; [apply in_flat_map; exists (k, c); auto | split; congruence].
  - intros [(b & A & B & C) | (x & A & B & C)].
    + left. exists (if b_hd b =? h then kill b else b). split; [apply in_bmark; eauto |]. destruct (b_hd b =? h); auto.
    + apply in_flat_map in A. destruct A as ([k c] & A & A'). cbn in A'.
      right. exists (if a_id x =? h then akill x else x). split.
      * apply in_flat_map. exists (k, amark c h). split; [apply in_map_iff; exists (k, c); auto |].
        cbn. unfold amark. apply (in_map (fun x => if a_id x =? h then akill x else x)); auto.
      * destruct (a_id x =? h); auto.
Qed.
Lemma has_rt_ains a pos n v i r : has_rt (ains a pos n v) i r <-> has_rt a i r \/ (i = n /\ r = n).
Proof.
  unfold has_rt, ains. cbn [a_seq a_map]. unfold aunits at 1. cbn [a_map]. fold (aunits a). split.
  - intros [(b & A & B & C) | H]; [| left; right; auto]. apply in_bins in A. destruct A as [-> | A].
    + cbn in B, C. destruct B as [<- | []]. right; auto.
    + left. left. eauto.
  - intros [[(b & A & B & C) | H] | (-> & ->)].
    + left. exists b. split; auto. apply in_bins; auto.
    + right; auto.
    + left. exists (newblk n v). split; [apply in_bins; auto | cbn; auto].
Qed.
Lemma has_rt_acopy_seq a j f i r :
  has_rt (acopy_seq a j f) i r <-> has_rt a i r \/ (i = f /\ exists lv, seq_head (a_seq a) j r lv).
Proof.
  unfold has_rt, acopy_seq. cbn [a_seq a_map]. unfold aunits at 1. cbn [a_map]. fold (aunits a). split.
  - intros [(b' & A & B & C) | H]; [| left; right; auto]. apply in_bredo in A. destruct A as (b & A & ->).
    destruct (b_hd b =? j) eqn:E.
    + apply N.eqb_eq in E. cbn in B, C. destruct B as [<- | B].
      * right. split; auto. exists (b_live b), b. auto.
      * left. left. exists b. auto.
    + left. left. eauto.
  - intros [[(b & A & B & C) | H] | (-> & lv & b & A & B & C & D)].
    + left. exists (if b_hd b =? j then recopy b f else b). split; [apply in_bredo; eauto |].
      destruct (b_hd b =? j); auto; try (cbn; split; auto; right; exact B).
    + right; auto.
    + left. exists (recopy b f). split; [apply in_bredo; exists b; split; auto; rewrite B, N.eqb_refl; auto | cbn; auto].
Qed.
Lemma in_aunits_aappend a k x0 x : NoDup (map fst (a_map a)) ->
  (In x (aunits (aappend a k x0)) <-> In x (aunits a) \/ x = x0).
Proof.
  intros ND. rewrite !in_aunits. unfold aappend. cbn [a_map]. split.
  - intros (k' & c & A & B). apply in_aset_chain in A; auto. destruct A as [(-> & ->) | (NE & A)].
    + apply in_app_or in B. destruct B as [B | [<- | []]]; auto. left.
      destruct (in_dec N.eq_dec k (map fst (a_map a))) as [I | NI].
      * exists k, (achain_of (a_map a) k). split; auto. apply achain_of_some; auto.
      * rewrite achain_of_notin in B by auto. destruct B.
    + left. eauto.
  - intros [(k' & c & A & B) | ->].
    + destruct (N.eq_dec k' k) as [-> | NE].
      * exists k, (achain_of (a_map a) k ++ [x0]). split; [apply in_aset_chain; auto |].
        apply in_or_app. left. rewrite (achain_of_in _ _ _ ND A). auto.
      * exists k', c. split; auto. apply in_aset_chain; auto.
    + exists k, (achain_of (a_map a) k ++ [x0]). split; [apply in_aset_chain; auto | apply in_or_app; right; left; auto].
Qed.
Lemma has_rt_aappend a k x0 i r : NoDup (map fst (a_map a)) ->
  (has_rt (aappend a k x0) i r <-> has_rt a i r \/ (i = a_id x0 /\ r = a_rt x0)).
Proof.
  intros ND. unfold has_rt. change (a_seq (aappend a k x0)) with (a_seq a). split.
  - intros [H | (x & A & B & C)]; [left; left; auto |]. apply in_aunits_aappend in A; auto.
    destruct A as [A | ->]; [left; right; eauto | right; auto].
  - intros [[H | (x & A & B & C)] | (-> & ->)]; [left; auto | |].
    + right. exists x. split; auto. apply in_aunits_aappend; auto.
    + right. exists x0. split; auto. apply in_aunits_aappend; auto.
Qed.



(* ---- concrete operations on concretised states ---- *)
Lemma nodup_seq_ids a : NoDup (a_ids a) -> NoDup (flat_map b_ids (a_seq a)).
Proof. unfold a_ids, seq_ids. apply nodup_app_l. Qed.
Lemma nodup_map_ids a : NoDup (a_ids a) -> NoDup (aids (aunits a)).
Proof. unfold a_ids. apply nodup_app_r. Qed.
Lemma nodup_chain_in (m : list (N * list aunit)) k c : NoDup (aids (flat_map snd m)) -> In (k, c) m -> NoDup (aids c).
Proof.
  induction m as [| [k' c'] r IH]; cbn; intros ND H; [destruct H |]. rewrite map_app in ND.
  destruct H as [H | H]; [inversion H; subst; eapply nodup_app_l; eauto | apply IH; auto; eapply nodup_app_r; eauto].
Qed.
Lemma nodup_achain a k : NoDup (a_ids a) -> NoDup (aids (achain_of (a_map a) k)).
Proof.
  intros ND. destruct (in_dec N.eq_dec k (map fst (a_map a))) as [I | NI].
  - eapply nodup_chain_in; [apply nodup_map_ids; eauto | apply achain_of_some; eauto].
  - rewrite achain_of_notin by auto. constructor.
Qed.

Lemma conc_delete_id a nx us rs h : NoDup (a_ids a) ->
  delete_id (conc a nx us rs) h = conc (akill_id a h) nx us rs.
Proof.
  intros ND. unfold delete_id, conc, akill_id. cbn [seqc mapc unext ustack rstack a_seq a_map]. f_equal.
  - apply cseq_umark. apply nodup_seq_ids; auto.
  - pose proof (nodup_map_ids _ ND) as NDm. unfold aunits in NDm. unfold cmap. rewrite !map_map. cbn [fst snd].
    apply map_ext_in. intros [k c] H. cbn [fst snd]. f_equal. apply cchain_umark. eapply nodup_chain_in; eauto.
Qed.

Lemma nvisible_cseq bs : nvisible (cseq bs) = length (filter b_live bs).
Proof. unfold nvisible. rewrite cseq_uvisible, map_length. reflexivity. Qed.

Lemma conc_ins a nx us rs pos v :
  do_call (conc a nx us rs) (CIns pos v) =
  (conc (ains a (Nat.min pos (length (filter b_live (a_seq a)))) nx v) (nx + 1) us rs, {| e_ins := [nx]; e_del := [] |}).
Proof.
  unfold do_call, conc, ains. cbn [seqc mapc unext ustack rstack a_seq a_map]. rewrite nvisible_cseq, cseq_ibv. reflexivity.
Qed.

(* bdel is a kill of the head it reports *)
Lemma bdel_spec bs pos : NoDup (flat_map b_ids bs) ->
  match snd (bdel bs pos) with
  | Some h => fst (bdel bs pos) = bmark bs h /\ seq_head bs h (match find (fun b => b_hd b =? h) bs with Some b => b_rt b | None => 0 end) true
  | None => fst (bdel bs pos) = bs
  end.
Proof.
  revert pos. induction bs as [| b r IH]; intros pos ND; [reflexivity |].
  cbn [flat_map] in ND. pose proof (nodup_app_r _ _ ND) as NDr.
  assert (HN : forall h, In h (map b_hd r) -> b_hd b <> h).
  { intros h Hh E. apply in_map_iff in Hh. destruct Hh as (b' & E' & Hb').
    apply (nodup_app_disj _ _ h ND); [left; auto | eapply in_flat_ids; eauto; left; auto]. }
  cbn [bdel]. destruct (b_live b) eqn:L.
  - destruct pos as [| p].
    + cbn [fst snd]. split.
      * unfold bmark. cbn [map]. rewrite N.eqb_refl. f_equal. fold (bmark r (b_hd b)). symmetry. apply bmark_notin.
        intros b' Hb' E. apply (HN (b_hd b)); auto. rewrite <- E. apply in_map; auto.
      * cbn [find]. rewrite N.eqb_refl. exists b. split; [left; auto | auto].
    + specialize (IH p NDr). destruct (bdel r p) as [r' o]. cbn [fst snd] in *. destruct o as [h |]; [| congruence].
      destruct IH as (-> & SH). assert (b_hd b <> h).
      { destruct SH as (b' & Hb' & E' & _). apply HN. rewrite <- E'. apply in_map; auto. }
      split.
      * unfold bmark. cbn [map]. apply N.eqb_neq in H. rewrite H. reflexivity.
      * cbn [find]. apply N.eqb_neq in H. rewrite H. destruct SH as (b' & Hb' & A). exists b'. split; [right; auto | auto].
  - specialize (IH pos NDr). destruct (bdel r pos) as [r' o]. cbn [fst snd] in *. destruct o as [h |]; [| congruence].
    destruct IH as (-> & SH). assert (b_hd b <> h).
    { destruct SH as (b' & Hb' & E' & _). apply HN. rewrite <- E'. apply in_map; auto. }
    split.
    + unfold bmark. cbn [map]. apply N.eqb_neq in H. rewrite H. reflexivity.
    + cbn [find]. apply N.eqb_neq in H. rewrite H. destruct SH as (b' & Hb' & A). exists b'. split; [right; auto | auto].
Qed.

Definition akill_opt (a : astate) (o : option N) : astate := match o with Some h => akill_id a h | None => a end.
Definition dels (o : option N) : list N := match o with Some i => [i] | None => [] end.
Definition newunit (i : N) (v : utok) : aunit := {| a_id := i; a_rt := i; a_val := v; a_del := false |}.

Lemma amark_map_notin (m : list (N * list aunit)) h : ~ In h (aids (flat_map snd m)) ->
  map (fun kc => (fst kc, amark (snd kc) h)) m = m.
Proof.
  induction m as [| [k c] r IH]; cbn [map fst snd flat_map]; intros H; auto. rewrite map_app in H.
  rewrite IH by (intros F; apply H; apply in_or_app; auto).
  rewrite amark_notin by (intros F; apply H; apply in_or_app; auto). reflexivity.
Qed.
Lemma amark_map_set (m : list (N * list aunit)) k h :
  NoDup (map fst m) -> NoDup (aids (flat_map snd m)) -> In h (aids (achain_of m k)) ->
  map (fun kc => (fst kc, amark (snd kc) h)) m = aset_chain m k (amark (achain_of m k) h).
Proof.
  induction m as [| [k' c] r IH]; cbn [map fst snd flat_map achain_of aset_chain]; intros NK ND H; [destruct H |]. inversion NK; subst. rewrite map_app in ND.
  destruct (k' =? k) eqn:E.
  - apply N.eqb_eq in E. subst k'. f_equal. apply amark_map_notin. intros F. apply (nodup_app_disj _ _ h ND); auto.
  - rewrite IH; auto; [| eapply nodup_app_r; eauto].
    rewrite amark_notin; auto. intros F. apply (nodup_app_disj _ _ h ND); auto.
    destruct (in_dec N.eq_dec k (map fst r)) as [I | NI].
    + apply achain_of_some in I. apply in_map_iff in H. destruct H as (x & <- & Hx).
      apply in_map. apply in_flat_map. exists (k, achain_of r k). auto.
    + rewrite achain_of_notin in H by auto. destruct H.
Qed.
Lemma bmark_not_head bs h : ~ In h (flat_map b_ids bs) -> bmark bs h = bs.
Proof. intros H. apply bmark_notin. intros b Hb E. apply H. eapply in_flat_ids; eauto. left; auto. Qed.

Lemma akill_seq_only a h : NoDup (a_ids a) -> In h (seq_ids a) ->
  akill_id a h = {| a_seq := bmark (a_seq a) h; a_map := a_map a |}.
Proof.
  intros ND H. unfold akill_id. f_equal. apply amark_map_notin. intros F. apply (nodup_app_disj _ _ h ND); auto.
Qed.
Lemma akill_map_only a k h : NoDup (a_ids a) -> NoDup (map fst (a_map a)) -> In h (aids (achain_of (a_map a) k)) ->
  akill_id a h = {| a_seq := a_seq a; a_map := aset_chain (a_map a) k (amark (achain_of (a_map a) k) h) |}.
Proof.
  intros ND NK H. unfold akill_id. f_equal.
  - apply bmark_not_head. intros F. apply (nodup_app_disj _ _ h ND); auto.
    destruct (in_dec N.eq_dec k (map fst (a_map a))) as [I | NI].
    + apply achain_of_some in I. apply in_map_iff in H. destruct H as (x & <- & Hx). apply in_map.
      apply in_flat_map. exists (k, achain_of (a_map a) k). auto.
    + rewrite achain_of_notin in H by auto. destruct H.
  - apply amark_map_set; auto. apply nodup_map_ids; auto.
Qed.

Lemma conc_del a nx us rs pos : NoDup (a_ids a) ->
  let o := snd (bdel (a_seq a) pos) in
  do_call (conc a nx us rs) (CDel pos) = (conc (akill_opt a o) nx us rs, {| e_ins := []; e_del := dels o |})
  /\ (forall h, o = Some h -> exists r, seq_head (a_seq a) h r true).
Proof.
  intros ND o. pose proof (bdel_spec (a_seq a) pos (nodup_seq_ids _ ND)) as K. fold o in K.
  unfold do_call. cbn [seqc conc]. rewrite cseq_delvis. fold o. split.
  - destruct o as [h |].
    + destruct K as (K1 & K2). cbn [akill_opt dels]. rewrite akill_seq_only; auto.
      * rewrite K1. reflexivity.
      * destruct K2 as (b & Hb & E & _). apply in_seq_ids. exists b. split; auto. left; auto.
    + rewrite K. reflexivity.
  - intros h E. rewrite E in K. destruct K as (_ & K). eauto.
Qed.

Lemma adel_last_spec c : NoDup (aids c) ->
  match snd (adel_last c) with
  | Some h => fst (adel_last c) = amark c h /\ exists c0 w, c = c0 ++ [w] /\ a_id w = h /\ a_del w = false
  | None => fst (adel_last c) = c
  end.
Proof.
  intros ND. destruct (list_last_case c) as [-> | (c0 & w & ->)]; [reflexivity |].
  rewrite adel_last_snoc. cbn [fst snd]. destruct (a_del w) eqn:D; [reflexivity |]. split; [| eauto].
  unfold amark. rewrite map_app. cbn [map]. rewrite N.eqb_refl. f_equal.
  fold (amark c0 (a_id w)). symmetry. apply amark_notin.
  rewrite map_app in ND. intros F. apply (nodup_app_disj _ _ (a_id w) ND); auto. left; auto.
Qed.

Lemma achain_of_aset m k c : achain_of (aset_chain m k c) k = c.
Proof. induction m as [| [k' c'] r IH]; cbn; [rewrite N.eqb_refl; auto |]. destruct (k' =? k) eqn:E; cbn; [rewrite N.eqb_refl | rewrite E]; auto. Qed.
Lemma aset_aset m k c1 c2 : aset_chain (aset_chain m k c1) k c2 = aset_chain m k c2.
Proof. induction m as [| [k' c'] r IH]; cbn; [rewrite N.eqb_refl; auto |]. destruct (k' =? k) eqn:E; cbn; [rewrite N.eqb_refl | rewrite E, IH]; auto. Qed.

Lemma conc_rem a nx us rs k : NoDup (a_ids a) -> NoDup (map fst (a_map a)) ->
  let o := snd (adel_last (achain_of (a_map a) k)) in
  do_call (conc a nx us rs) (CRem k) = (conc (akill_opt a o) nx us rs, {| e_ins := []; e_del := dels o |}).
Proof.
  intros ND NK o. pose proof (adel_last_spec _ (nodup_achain a k ND)) as K. fold o in K.
  unfold do_call. cbn [mapc conc]. rewrite cmap_chain_of, cchain_delete_last. fold o.
  destruct o as [h |]; [| reflexivity]. destruct K as (K1 & c0 & w & K2 & K3 & K4). cbn [akill_opt dels].
  rewrite (akill_map_only a k h); auto.
  - rewrite K1, cmap_set_chain. reflexivity.
  - rewrite K2, map_app. apply in_or_app. right. left. auto.
Qed.



Lemma last_same_fresh r c : (forall x, In x c -> a_rt x <> r) -> last_same r c = None.
Proof. intros H. rewrite last_same_lastu, (lastu_none_of _ _ H). reflexivity. Qed.

Lemma conc_set a nx us rs k v : NoDup (a_ids a) -> NoDup (map fst (a_map a)) -> (forall x, In x (aunits a) -> a_rt x <> nx) ->
  let o := snd (adel_last (achain_of (a_map a) k)) in
  do_call (conc a nx us rs) (CSet k v) =
  (conc (aappend (akill_opt a o) k (newunit nx v)) (nx + 1) us rs, {| e_ins := [nx]; e_del := dels o |}).
Proof.
  intros ND NK NR o. pose proof (adel_last_spec _ (nodup_achain a k ND)) as K. fold o in K.
  unfold do_call. cbn [mapc conc]. rewrite cmap_chain_of, cchain_delete_last. fold o.
  set (c := achain_of (a_map a) k) in *. set (c1 := fst (adel_last c)) in *.
  assert (NR1 : forall x, In x c1 -> a_rt x <> nx).
  { assert (forall x, In x c -> a_rt x <> nx) as NRc.
    { intros x Hx. apply NR. destruct (in_dec N.eq_dec k (map fst (a_map a))) as [I | NI].
      - apply in_aunits. exists k, c. split; auto. apply achain_of_some; auto.
      - unfold c in Hx. rewrite achain_of_notin in Hx by auto. destruct Hx. }
    destruct o as [h |].
    - destruct K as (-> & _). intros x Hx. apply amark_rt_in in Hx. destruct Hx as (z & Hz & -> & _). auto.
    - rewrite K. auto. }
  assert (ND1 : NoDup (aids c1)).
  { destruct o as [h |]; [destruct K as (-> & _); rewrite amark_ids | rewrite K]; apply nodup_achain; auto. }
  assert (E : cchain c1 ++ [mk nx v false None] = cchain (c1 ++ [newunit nx v])).
  { rewrite cchain_snoc by auto. cbn [a_rt newunit]. rewrite last_same_fresh by auto. reflexivity. }
  cbn [unext seqc ustack rstack conc]. rewrite E, cmap_set_chain.
  assert (EA : aappend (akill_opt a o) k (newunit nx v) = {| a_seq := a_seq a; a_map := aset_chain (a_map a) k (c1 ++ [newunit nx v]) |}).
  { unfold aappend. destruct o as [h |]; cbn [akill_opt a_seq a_map].
    - destruct K as (K1 & c0 & w & K2 & K3 & K4).
      assert (Hh : In h (aids (achain_of (a_map a) k))) by (fold c; rewrite K2, map_app; apply in_or_app; right; left; auto).
      rewrite (akill_map_only a k h ND NK Hh).
      cbn [a_seq a_map]. rewrite achain_of_aset, aset_aset. fold c. rewrite <- K1. reflexivity.
    - fold c. rewrite <- K. reflexivity. }
  rewrite EA. reflexivity.
Qed.

(* ---- items of a concretised state ---- *)
Lemma conc_all_items a nx us rs : all_items (conc a nx us rs) = cseq (a_seq a) ++ flat_map (fun kc => cchain (snd kc)) (a_map a).
Proof. unfold all_items. cbn [seqc mapc conc]. rewrite cmap_items. reflexivity. Qed.
Lemma in_items_blk a nx us rs b y : In b (a_seq a) -> In y (cblk b) -> In y (all_items (conc a nx us rs)).
Proof. intros H1 H2. rewrite conc_all_items. apply in_or_app. left. unfold cseq. apply in_flat_map. eauto. Qed.
Lemma in_items_chain a nx us rs k c y : In (k, c) (a_map a) -> In y (cchain c) -> In y (all_items (conc a nx us rs)).
Proof. intros H1 H2. rewrite conc_all_items. apply in_or_app. right. apply in_flat_map. exists (k, c). auto. Qed.
Lemma ufind_conc a nx us rs y : NoDup (a_ids a) -> In y (all_items (conc a nx us rs)) ->
  ufind (all_items (conc a nx us rs)) (u_id y) = Some y.
Proof. intros ND H. apply ufind_nodup; auto. change (NoDup (all_ids (conc a nx us rs))). rewrite conc_all_ids. auto. Qed.

Lemma in_cchain c y : In y (cchain c) -> exists l1 x l2, c = l1 ++ x :: l2 /\ y = cunit x (next_same (a_rt x) l2).
Proof.
  induction c as [| x t IH]; cbn; [intros [] |]. intros [<- | H].
  - exists [], x, t. auto.
  - destruct (IH H) as (l1 & x' & l2 & -> & ->). exists (x :: l1), x', l2. auto.
Qed.
Lemma next_same_none_of r l : (forall z, In z l -> a_rt z <> r) -> next_same r l = None.
Proof.
  induction l as [| x t IH]; cbn; intros H; auto. destruct (a_rt x =? r) eqn:E.
  - apply N.eqb_eq in E. exfalso. apply (H x); auto.
  - apply IH. intros; apply H; right; auto.
Qed.
Lemma in_ctail h t v y : In y (ctail h t v) -> u_del y = true /\ In (u_id y) t.
Proof.
  revert h. induction t as [| i t IH]; intros h; cbn; [intros [] |]. intros [<- | H]; [cbn; auto |].
  destruct (IH _ H). auto.
Qed.

Lemma conc_redo_seq a nx us rs j td s1 s2 : NoDup (a_ids a) -> (exists r, seq_head (a_seq a) j r false) ->
  redo_item (conc a nx us rs) j td s1 s2 = (conc (acopy_seq a j nx) (nx + 1) us rs, true, {| e_ins := [nx]; e_del := [] |}).
Proof.
  intros ND (r & b & Hb & E & R & L). unfold redo_item.
  assert (F : ufind (all_items (conc a nx us rs)) j = Some (hunit b)).
  { rewrite <- E. change (b_hd b) with (u_id (hunit b)). apply ufind_conc; auto. eapply in_items_blk; eauto. left; reflexivity. }
  rewrite F. unfold hunit at 1. rewrite u_red_mk. cbn [seqc conc].
  assert (existsb (fun z => u_id z =? j) (cseq (a_seq a)) = true) as ->.
  { apply existsb_id_iff. rewrite cseq_ids. eapply in_flat_ids; eauto. left; auto. }
  rewrite cseq_redo; [reflexivity | apply nodup_seq_ids; auto | eauto].
Qed.

Lemma redo_in_maps_cmap (m : list (N * list aunit)) k c j f td s1 s2 :
  NoDup (map fst m) -> NoDup (aids (flat_map snd m)) -> In (k, c) m -> In j (aids c) ->
  redo_in_maps (cmap m) j f td s1 s2 = option_map (fun cc' => set_chain (cmap m) k cc') (redo_in_chain (cchain c) j f td s1 s2).
Proof.
  induction m as [| [k' c'] r IH]; intros NK ND H Hj; [destruct H |].
  cbn [map fst] in NK. apply NoDup_cons_iff in NK. destruct NK as (NK1 & NK2). cbn [flat_map snd] in ND. rewrite map_app in ND.
  change (cmap ((k', c') :: r)) with ((k', cchain c') :: cmap r). cbn [redo_in_maps set_chain].
  destruct H as [H | H].
  - inversion H; subst. rewrite N.eqb_refl.
    assert (existsb (fun y => u_id y =? j) (cchain c) = true) as -> by (apply existsb_id_iff; rewrite cchain_ids; auto).
    destruct (redo_in_chain _ _ _ _ _ _); reflexivity.
  - assert (NE : k' <> k) by (intros ->; apply NK1; change k with (fst (k, c)); apply in_map; auto).
    apply N.eqb_neq in NE. rewrite NE.
    assert (existsb (fun y => u_id y =? j) (cchain c') = false) as ->.
    { apply existsb_id_false. rewrite cchain_ids. intros F. apply (nodup_app_disj _ _ j ND); auto.
      apply in_map_iff in Hj. destruct Hj as (x & <- & Hx). apply in_map. apply in_flat_map. exists (k, c). auto. }
    rewrite IH; auto; [| eapply nodup_app_r; eauto]. destruct (redo_in_chain _ _ _ _ _ _); reflexivity.
Qed.

Lemma last_same_amark r c h : last_same r (amark c h) = last_same r c.
Proof. unfold amark. induction c as [| x t IH]; cbn; auto. rewrite IH. destruct (a_id x =? h); reflexivity. Qed.
Lemma last_same_mid l1 x l2 : (forall z, In z l2 -> a_rt z <> a_rt x) -> last_same (a_rt x) (l1 ++ x :: l2) = Some (a_id x).
Proof.
  intros H. rewrite last_same_lastu, lastu_app. cbn [lastu]. rewrite (lastu_none_of _ _ H), N.eqb_refl. reflexivity.
Qed.

Definition copyunit (x : aunit) (f : N) : aunit := {| a_id := f; a_rt := a_rt x; a_val := a_val x; a_del := false |}.

Lemma redo_in_chain_cchain l1 x l2 f td s1 s2 :
  let c := l1 ++ x :: l2 in
  NoDup (aids c) -> (forall z, In z l2 -> a_rt z <> a_rt x) ->
  walk_right (S (length (cchain c))) (cchain c) (a_id x) td s1 s2 = true ->
  redo_in_chain (cchain c) (a_id x) f td s1 s2 = Some (cchain (fst (adel_last c) ++ [copyunit x f])).
Proof.
  intros c ND HL W. unfold redo_in_chain.
  assert (F : ufind (cchain c) (a_id x) = Some (cunit x None)).
  { change (a_id x) with (u_id (cunit x None)). apply ufind_nodup; [rewrite cchain_ids; auto |].
    rewrite <- (next_same_none_of (a_rt x) l2 HL). apply cchain_in_mid. }
  rewrite F, W. rewrite delete_last_map_setred, cchain_delete_last. cbn [fst snd].
  pose proof (adel_last_spec c ND) as K. f_equal.
  assert (ND1 : NoDup (aids (fst (adel_last c)))).
  { destruct (snd (adel_last c)); [destruct K as (-> & _); rewrite amark_ids | rewrite K]; auto. }
  rewrite cchain_snoc by auto. cbn [a_rt copyunit].
  assert (last_same (a_rt x) (fst (adel_last c)) = Some (a_id x)) as ->.
  { destruct (snd (adel_last c)); [destruct K as (-> & _); rewrite last_same_amark | rewrite K]; apply last_same_mid; auto. }
  reflexivity.
Qed.

Lemma aappend_kill_eq a k x0 : NoDup (a_ids a) -> NoDup (map fst (a_map a)) ->
  let c := achain_of (a_map a) k in
  aappend (akill_opt a (snd (adel_last c))) k x0 = {| a_seq := a_seq a; a_map := aset_chain (a_map a) k (fst (adel_last c) ++ [x0]) |}.
Proof.
  intros ND NK c. pose proof (adel_last_spec _ (nodup_achain a k ND)) as K. fold c in K.
  unfold aappend. destruct (snd (adel_last c)) as [h |]; cbn [akill_opt a_seq a_map].
  - destruct K as (K1 & c0 & w & K2 & K3 & K4).
    assert (Hh : In h (aids (achain_of (a_map a) k))) by (fold c; rewrite K2, map_app; apply in_or_app; right; left; auto).
    rewrite (akill_map_only a k h ND NK Hh).
    cbn [a_seq a_map]. rewrite achain_of_aset, aset_aset. fold c. rewrite <- K1. reflexivity.
  - fold c. rewrite K. reflexivity.
Qed.

Lemma gone_spec s s' i :
  In i (map u_id (filter (fun z => negb (existsb (fun w => u_id w =? u_id z) (filter (fun z => negb (u_del z)) (all_items s'))))
                         (filter (fun z => negb (u_del z)) (all_items s)))) <->
  livein (all_items s) i /\ ~ livein (all_items s') i.
Proof.
  rewrite in_map_iff. split.
  - intros (z & <- & H). apply filter_In in H. destruct H as (H & G). apply filter_In in H. destruct H as (H & L).
    apply negb_true_iff in L. split; [exists z; auto |].
    intros (w & Hw & E & Lw). apply negb_true_iff in G. rewrite <- not_true_iff_false in G. apply G.
    apply existsb_exists. exists w. split; [apply filter_In; split; auto; rewrite Lw; auto | apply N.eqb_eq; auto].
  - intros ((z & H & E & L) & NL). exists z. split; auto. apply filter_In. split; [apply filter_In; split; auto; rewrite L; auto |].
    apply negb_true_iff. rewrite <- not_true_iff_false. intros G. apply existsb_exists in G. destruct G as (w & Hw & Ew).
    apply filter_In in Hw. destruct Hw as (Hw & Lw). apply negb_true_iff in Lw. apply N.eqb_eq in Ew.
    apply NL. exists w. repeat split; auto. congruence.
Qed.

Lemma livein_conc a nx us rs i : WF a nx ->
  (livein (all_items (conc a nx us rs)) i <-> exists r, is_head a i r true).
Proof.
  intros W. rewrite conc_all_items. split.
  - intros (y & Hy & E & L). apply in_app_or in Hy. destruct Hy as [Hy | Hy].
    + unfold cseq in Hy. apply in_flat_map in Hy. destruct Hy as (b & Hb & Hy). destruct Hy as [<- | Hy].
      * cbn in E, L. apply negb_false_iff in L. exists (b_rt b). left. exists b. auto.
      * apply in_ctail in Hy. destruct Hy as (D & _). congruence.
    + apply in_flat_map in Hy. destruct Hy as ([k c] & Hc & Hy). cbn [snd] in Hy.
      apply in_cchain in Hy. destruct Hy as (l1 & x & l2 & -> & ->). rewrite u_id_cunit in E. rewrite u_del_cunit in L.
      exists (a_rt x). right. exists k, (l1 ++ x :: l2). split; auto. exists l1, x, l2. repeat split; auto.
      destruct l2 as [| z l2]; [intros z [] |]. rewrite (wf_clive _ _ W k _ l1 x (z :: l2) Hc eq_refl) in L; discriminate.
  - intros (r & [(b & Hb & E & R & L) | (k & c & Hc & l1 & x & l2 & -> & E & R & D & HL)]).
    + exists (hunit b). split; [| unfold hunit; cbn; rewrite L; auto].
      apply in_or_app. left. unfold cseq. apply in_flat_map. exists b. split; auto. left; reflexivity.
    + exists (cunit x (next_same (a_rt x) l2)). split; [| rewrite u_id_cunit, u_del_cunit; auto].
      apply in_or_app. right. apply in_flat_map. exists (k, l1 ++ x :: l2). split; auto. apply cchain_in_mid.
Qed.

Lemma conc_redo_map a nx us rs td s1 s2 k l1 x l2 :
  let c := l1 ++ x :: l2 in
  NoDup (a_ids a) -> NoDup (map fst (a_map a)) -> In (k, c) (a_map a) ->
  (forall z, In z l2 -> a_rt z <> a_rt x) ->
  walk_right (S (length (cchain c))) (cchain c) (a_id x) td s1 s2 = true ->
  let a' := aappend (akill_opt a (snd (adel_last c))) k (copyunit x nx) in
  exists e, redo_item (conc a nx us rs) (a_id x) td s1 s2 = (conc a' (nx + 1) us rs, true, e) /\ e_ins e = [nx] /\
    (forall i, In i (e_del e) <-> livein (all_items (conc a nx us rs)) i /\ ~ livein (all_items (conc a' (nx + 1) us rs)) i).
Proof.
  intros c ND NK Hc HL W a'. unfold redo_item.
  assert (NDc : NoDup (aids c)) by (eapply nodup_chain_in; [apply nodup_map_ids; eauto | eauto]).
  assert (Hx : In (cunit x None) (cchain c)).
  { rewrite <- (next_same_none_of (a_rt x) l2 HL). apply cchain_in_mid. }
  assert (F : ufind (all_items (conc a nx us rs)) (a_id x) = Some (cunit x None)).
  { change (a_id x) with (u_id (cunit x None)). apply ufind_conc; auto. eapply in_items_chain; eauto. }
  rewrite F. rewrite u_red_cunit. cbn [seqc mapc unext conc].
  assert (Hj : In (a_id x) (aids c)) by (unfold c; rewrite map_app; apply in_or_app; right; left; auto).
  assert (existsb (fun z => u_id z =? a_id x) (cseq (a_seq a)) = false) as ->.
  { apply existsb_id_false. rewrite cseq_ids. intros F'. apply (nodup_app_disj _ _ (a_id x) ND); auto.
    apply in_map_iff in Hj. destruct Hj as (y & <- & Hy). apply in_map. apply in_flat_map. exists (k, c). auto. }
  rewrite (redo_in_maps_cmap (a_map a) k c); auto; [| apply nodup_map_ids; auto].
  pose proof (redo_in_chain_cchain l1 x l2 nx td s1 s2 NDc HL W) as RC. cbv zeta in RC. fold c in RC. rewrite RC. cbn [option_map ustack rstack conc].
  rewrite cmap_set_chain.
  assert (EA : a' = {| a_seq := a_seq a; a_map := aset_chain (a_map a) k (fst (adel_last c) ++ [copyunit x nx]) |}).
  { unfold a'. rewrite <- (achain_of_in _ _ _ NK Hc). apply aappend_kill_eq; auto. }
  eexists. split.
  { rewrite EA. reflexivity. }
  split; [reflexivity |].
  intros i. cbn [e_del]. rewrite EA. apply gone_spec.
Qed.

Lemma lastu_split r l w : lastu r l = Some w -> exists m1 m2, l = m1 ++ w :: m2 /\ a_rt w = r /\ (forall z, In z m2 -> a_rt z <> r).
Proof.
  induction l as [| x t IH]; cbn; [discriminate |]. destruct (lastu r t) as [w' |] eqn:L.
  - intros H; inversion H; subst. destruct (IH eq_refl) as (m1 & m2 & -> & A & B). exists (x :: m1), m2. auto.
  - destruct (a_rt x =? r) eqn:E; [| discriminate]. intros H; inversion H; subst. apply N.eqb_eq in E.
    exists [], t. repeat split; auto. apply lastu_none; auto.
Qed.
Lemma length_flat_in {X Y} (f : X -> list Y) l x : In x l -> (length (f x) <= length (flat_map f l))%nat.
Proof.
  induction l as [| y t IH]; cbn; intros H; [destruct H |]. rewrite app_length. destruct H as [-> | H]; [lia |].
  specialize (IH H). lia.
Qed.

Lemma ctail_ids_len h t v : length (ctail h t v) = length t.
Proof. rewrite <- (ctail_ids h t v) at 2. rewrite map_length. reflexivity. Qed.

Lemma follow_conc a nx us rs i r : NoDup (a_ids a) -> has_rt a i r ->
  exists h lv w, is_head a h r lv /\
    ufollow (S (length (all_items (conc a nx us rs)))) (all_items (conc a nx us rs)) i = Some w /\ u_id w = h /\ u_del w = negb lv.
Proof.
  intros ND [(b & Hb & Hi & R) | (x & Hx & Hi & R)].
  - exists (b_hd b), (b_live b), (hunit b). split; [left; exists b; auto |]. split; [| split; reflexivity].
    apply follow_blk; auto.
    + intros y Hy. apply ufind_conc; auto. eapply in_items_blk; eauto.
    + rewrite conc_all_items, app_length. pose proof (length_flat_in cblk _ _ Hb) as L. unfold cblk at 1 in L. cbn [length] in L.
      rewrite ctail_ids_len in L. unfold cseq. lia.
  - apply in_aunits in Hx. destruct Hx as (k & c & Hc & Hx). apply in_split in Hx. destruct Hx as (l1 & l2 & ->).
    destruct (lastu (a_rt x) (x :: l2)) as [w0 |] eqn:LU.
    2:{ exfalso. apply (lastu_none _ _ LU x); auto. left; auto. }
    exists (a_id w0), (negb (a_del w0)), (cunit w0 None). split; [| split; [| split; [reflexivity | rewrite u_del_cunit, negb_involutive; reflexivity]]].
    + right. exists k, (l1 ++ x :: l2). split; auto. destruct (lastu_split _ _ _ LU) as (m1 & m2 & E & A & B).
      exists (l1 ++ m1), w0, m2. rewrite E, <- app_assoc, negb_involutive. subst r. repeat split; auto.
    + subst i. eapply (follow_chain _ (l1 ++ x :: l2)); [| reflexivity | reflexivity | exact LU |].
      * intros y Hy. apply ufind_conc; auto. eapply in_items_chain; eauto.
      * rewrite conc_all_items, app_length.
        pose proof (length_flat_in (fun kc : N * list aunit => cchain (snd kc)) _ _ Hc) as L. cbn [snd] in L.
        rewrite cchain_length, app_length in L. cbn [length] in L. lia.
Qed.



(* ---- heads are unique ---- *)
Lemma chain_head_lastu c h r lv : chain_head c h r lv -> exists x, lastu r c = Some x /\ a_id x = h /\ a_del x = negb lv.
Proof.
  intros (l1 & x & l2 & -> & A & B & C & D). exists x. split; auto.
  rewrite lastu_app. cbn [lastu]. rewrite (lastu_none_of _ _ D), B, N.eqb_refl. reflexivity.
Qed.
Lemma chain_head_in c h r lv : chain_head c h r lv -> exists x, In x c /\ a_id x = h /\ a_rt x = r /\ a_del x = negb lv.
Proof. intros (l1 & x & l2 & -> & A & B & C & D). exists x. split; auto. apply in_or_app; right; left; auto. Qed.

Lemma is_head_has_rt a h r lv : is_head a h r lv -> has_rt a h r.
Proof.
  intros [(b & Hb & A & B & C) | (k & c & Hc & CH)].
  - left. exists b. split; auto. split; auto. left; auto.
  - apply chain_head_in in CH. destruct CH as (x & Hx & A & B & C). right. exists x. split; auto. apply in_aunits. eauto.
Qed.

Lemma is_head_unique_root a nx h h' r lv lv' : WF a nx -> is_head a h r lv -> is_head a h' r lv' -> h = h' /\ lv = lv'.
Proof.
  intros W [(b & Hb & A & B & C) | (k & c & Hc & CH)] [(b' & Hb' & A' & B' & C') | (k' & c' & Hc' & CH')].
  - assert (b = b') by (eapply (nodup_map_unique b_rt); eauto; [apply (wf_rseq _ _ W) | congruence]). subst. split; congruence.
  - exfalso. apply chain_head_in in CH'. destruct CH' as (x & Hx & _ & R & _).
    apply (wf_rsm _ _ W b x Hb); [apply in_aunits; eauto | congruence].
  - exfalso. apply chain_head_in in CH. destruct CH as (x & Hx & _ & R & _).
    apply (wf_rsm _ _ W b' x Hb'); [apply in_aunits; eauto | congruence].
  - pose proof (chain_head_in _ _ _ _ CH) as (x & Hx & _ & R & _). pose proof (chain_head_in _ _ _ _ CH') as (x' & Hx' & _ & R' & _).
    assert (k = k') by (eapply (wf_rmap _ _ W); eauto; congruence). subst k'.
    assert (c = c') by (rewrite <- (achain_of_in _ _ _ (wf_keys _ _ W) Hc), <- (achain_of_in _ _ _ (wf_keys _ _ W) Hc'); reflexivity). subst c'.
    apply chain_head_lastu in CH, CH'. destruct CH as (y & L & E1 & E2). destruct CH' as (y' & L' & E1' & E2').
    rewrite L in L'. inversion L'; subst y'. split; [congruence |].
    destruct lv, lv'; auto; cbn in *; congruence.
Qed.
Lemma is_head_unique_id a nx h r r' lv lv' : WF a nx -> is_head a h r lv -> is_head a h r' lv' -> r = r' /\ lv = lv'.
Proof.
  intros W H H'. assert (r = r') by (eapply has_rt_unique; [apply (wf_nodup _ _ W) | eapply is_head_has_rt; eauto | eapply is_head_has_rt; eauto]).
  subst r'. split; auto. eapply is_head_unique_root; eauto.
Qed.

Lemma live_is_head a nx r : WF a nx -> (In r (live a) <-> exists h, is_head a h r true).
Proof.
  intros W. rewrite in_live. split.
  - intros [(b & Hb & L & R) | (x & Hx & L & R)].
    + exists (b_hd b). left. exists b. auto.
    + apply in_aunits in Hx. destruct Hx as (k & c & Hc & Hx).
      destruct (live_chain_last _ _ _ _ _ W Hc Hx L) as (c0 & ->).
      exists (a_id x). right. exists k, (c0 ++ [x]). split; auto. exists c0, x, []. repeat split; auto; intros z [].
  - intros (h & [(b & Hb & A & B & C) | (k & c & Hc & CH)]).
    + left. eauto.
    + apply chain_head_in in CH. destruct CH as (x & Hx & A & B & C). right. exists x. split; [apply in_aunits; eauto | auto].
Qed.

Lemma kill_dead b : b_live b = false -> kill b = b.
Proof. destruct b as [h t r v l]. cbn. intros ->. reflexivity. Qed.
Lemma akill_dead x : a_del x = true -> akill x = x.
Proof. destruct x as [i r v d]. cbn. intros ->. reflexivity. Qed.

(* killing an id that is not a live head changes nothing *)
Lemma akill_noop a nx h : WF a nx -> (forall r, ~ is_head a h r true) -> akill_id a h = a.
Proof.
  intros W NH. destruct a as [bs m]. unfold akill_id. cbn [a_seq a_map] in *. f_equal.
  - unfold bmark. rewrite <- (map_id bs) at 2. apply map_ext_in. intros b Hb.
    destruct (b_hd b =? h) eqn:E; auto. apply N.eqb_eq in E. apply kill_dead.
    destruct (b_live b) eqn:L; auto. exfalso. apply (NH (b_rt b)). left. exists b. auto.
  - rewrite <- (map_id m) at 2. apply map_ext_in. intros [k c] Hc. cbn [fst snd]. f_equal.
    unfold amark. rewrite <- (map_id c) at 2. apply map_ext_in. intros x Hx.
    destruct (a_id x =? h) eqn:E; auto. apply N.eqb_eq in E. apply akill_dead.
    destruct (a_del x) eqn:L; auto. exfalso.
    destruct (live_chain_last _ _ _ _ _ W Hc Hx L) as (c0 & ->).
    apply (NH (a_rt x)). right. exists k, (c0 ++ [x]). split; auto. exists c0, x, []. repeat split; auto; intros z [].
Qed.

(* ---- well-formedness under the four operations ---- *)
Lemma akill_ids a h : a_ids (akill_id a h) = a_ids a.
Proof.
  unfold a_ids, seq_ids, aunits, akill_id. cbn [a_seq a_map]. rewrite bmark_ids. f_equal.
  induction (a_map a) as [| [k c] r IH]; cbn [map flat_map fst snd]; auto. rewrite !map_app, IH, amark_ids. reflexivity.
Qed.
Lemma bmark_rts bs h : map b_rt (bmark bs h) = map b_rt bs.
Proof. unfold bmark. rewrite map_map. apply map_ext. intros b. destruct (b_hd b =? h); reflexivity. Qed.
Lemma in_map_kill a h k c' : In (k, c') (a_map (akill_id a h)) <-> exists c, In (k, c) (a_map a) /\ c' = amark c h.
Proof.
  unfold akill_id. cbn [a_map]. rewrite in_map_iff. split.
  - intros ([k0 c] & E & H). cbn in E. inversion E; subst. eauto.
  - intros (c & H & ->). exists (k, c). auto.
Qed.
Lemma in_amark c h x' : In x' (amark c h) <-> exists x, In x c /\ x' = (if a_id x =? h then akill x else x).
Proof. unfold amark. rewrite in_map_iff. split; intros (x & A & B); exists x; auto. Qed.

Lemma WF_kill a nx h : WF a nx -> WF (akill_id a h) nx.
Proof.
  intros W. constructor.
  - rewrite akill_ids. apply (wf_nodup _ _ W).
  - rewrite akill_ids. apply (wf_lt _ _ W).
  - unfold akill_id. cbn [a_map]. rewrite map_map. cbn [fst]. apply (wf_keys _ _ W).
  - unfold akill_id. cbn [a_seq]. rewrite bmark_rts. apply (wf_rseq _ _ W).
  - intros b' x' Hb Hx. cbn [a_seq akill_id] in Hb. apply in_bmark in Hb. destruct Hb as (b & Hb & ->).
    apply in_aunits in Hx. destruct Hx as (k & c' & Hc & Hx). apply in_map_kill in Hc. destruct Hc as (c & Hc & ->).
    apply in_amark in Hx. destruct Hx as (x & Hx & ->).
    assert (b_rt b <> a_rt x) by (apply (wf_rsm _ _ W b x Hb); apply in_aunits; eauto).
    destruct (b_hd b =? h), (a_id x =? h); auto.
  - intros k1 c1 k2 c2 x1 x2 H1 H2 I1 I2 E. apply in_map_kill in H1, H2. destruct H1 as (d1 & H1 & ->). destruct H2 as (d2 & H2 & ->).
    apply in_amark in I1, I2. destruct I1 as (y1 & I1 & ->). destruct I2 as (y2 & I2 & ->).
    apply (wf_rmap _ _ W k1 d1 k2 d2 y1 y2); auto. destruct (a_id y1 =? h), (a_id y2 =? h); auto.
  - intros r Hr. apply (wf_rlt _ _ W). apply in_app_or in Hr. apply in_or_app. destruct Hr as [Hr | Hr].
    + left. cbn [a_seq akill_id] in Hr. rewrite bmark_rts in Hr. auto.
    + right. apply in_map_iff in Hr. destruct Hr as (x' & <- & Hx). apply in_aunits in Hx. destruct Hx as (k & c' & Hc & Hx).
      apply in_map_kill in Hc. destruct Hc as (c & Hc & ->). apply in_amark in Hx. destruct Hx as (x & Hx & ->).
      replace (a_rt (if a_id x =? h then akill x else x)) with (a_rt x) by (destruct (a_id x =? h); auto).
      apply in_map. apply in_aunits. eauto.
  - intros k c' l1 x' l2 Hc E NE. apply in_map_kill in Hc. destruct Hc as (c & Hc & ->).
    unfold amark in E. apply map_eq_app in E. destruct E as (m1 & m2 & -> & E1 & E2).
    apply map_eq_cons in E2. destruct E2 as (x & m3 & -> & E2 & E3). subst x'.
    assert (a_del x = true).
    { apply (wf_clive _ _ W k _ m1 x m3 Hc eq_refl). intros ->. apply NE. subst l2. reflexivity. }
    destruct (a_id x =? h); auto.
  - intros k c' x' y' Hc Hx Hy E. apply in_map_kill in Hc. destruct Hc as (c & Hc & ->).
    apply in_amark in Hx, Hy. destruct Hx as (x & Hx & ->). destruct Hy as (y & Hy & ->).
    assert (a_val x = a_val y) by (apply (wf_cval _ _ W k c x y); auto; destruct (a_id x =? h), (a_id y =? h); auto).
    destruct (a_id x =? h), (a_id y =? h); auto.
  - intros k c' Hc. apply in_map_kill in Hc. destruct Hc as (c & Hc & ->). rewrite amark_ids. apply (wf_incr _ _ W k c Hc).
Qed.

Lemma bins_perm {X} (f : blk -> list X) bs pos b : Permutation (flat_map f (bins bs pos b)) (f b ++ flat_map f bs).
Proof.
  revert pos. induction bs as [| y r IH]; intros pos; cbn.
  - apply Permutation_refl.
  - destruct (b_live y).
    + destruct pos as [| p]; cbn; [apply Permutation_refl |].
      eapply perm_trans; [apply Permutation_app_head, IH |]. rewrite !app_assoc. apply Permutation_app_tail, Permutation_app_comm.
    + cbn. eapply perm_trans; [apply Permutation_app_head, IH |]. rewrite !app_assoc. apply Permutation_app_tail, Permutation_app_comm.
Qed.
Lemma flat_map_single {X Y} (f : X -> Y) l : flat_map (fun x => [f x]) l = map f l.
Proof. induction l; cbn; congruence. Qed.

Lemma WF_ains a nx pos v : WF a nx -> WF (ains a pos nx v) (nx + 1).
Proof.
  intros W. pose proof (wf_lt _ _ W) as LT. pose proof (wf_rlt _ _ W) as RLT.
  assert (PI : Permutation (a_ids (ains a pos nx v)) (nx :: a_ids a)).
  { unfold a_ids, seq_ids, ains. cbn [a_seq a_map]. unfold aunits at 1. cbn [a_map]. fold (aunits a).
    eapply perm_trans; [apply Permutation_app_tail, bins_perm |]. cbn. apply Permutation_refl. }
  assert (PR : Permutation (map b_rt (bins (a_seq a) pos (newblk nx v))) (nx :: map b_rt (a_seq a))).
  { rewrite <- !flat_map_single. eapply perm_trans; [apply bins_perm |]. cbn. apply Permutation_refl. }
  constructor.
  - eapply Permutation_NoDup; [apply Permutation_sym, PI |]. constructor; [| apply (wf_nodup _ _ W)].
    intros F. apply LT in F. lia.
  - intros i Hi. eapply Permutation_in in Hi; [| apply PI]. destruct Hi as [<- | Hi]; [lia | apply LT in Hi; lia].
  - apply (wf_keys _ _ W).
  - cbn [a_seq ains]. eapply Permutation_NoDup; [apply Permutation_sym, PR |]. constructor; [| apply (wf_rseq _ _ W)].
    intros F. assert (nx < nx) by (apply RLT; apply in_or_app; auto). lia.
  - intros b x Hb Hx. cbn [a_seq ains] in Hb. apply in_bins in Hb. destruct Hb as [-> | Hb]; [| apply (wf_rsm _ _ W); auto].
    cbn. intros E. assert (nx < nx) by (apply RLT; apply in_or_app; right; rewrite E; apply in_map; auto). lia.
  - apply (wf_rmap _ _ W).
  - intros r Hr. apply in_app_or in Hr. destruct Hr as [Hr | Hr].
    + cbn [a_seq ains] in Hr. eapply Permutation_in in Hr; [| apply PR]. destruct Hr as [<- | Hr]; [lia |].
      assert (r < nx) by (apply RLT; apply in_or_app; auto). lia.
    + assert (r < nx) by (apply RLT; apply in_or_app; auto). lia.
  - apply (wf_clive _ _ W).
  - apply (wf_cval _ _ W).
  - apply (wf_incr _ _ W).
Qed.

Lemma bredo_perm bs j f : NoDup (flat_map b_ids bs) -> (exists b, In b bs /\ b_hd b = j) ->
  Permutation (flat_map b_ids (bredo bs j f)) (f :: flat_map b_ids bs).
Proof.
  induction bs as [| b r IH]; intros ND (b0 & Hb0 & E0); [destruct Hb0 |].
  cbn [flat_map] in ND. unfold bredo. cbn [map flat_map]. fold (bredo r j f).
  destruct (b_hd b =? j) eqn:E.
  - apply N.eqb_eq in E. rewrite bredo_notin; [cbn; apply Permutation_refl |].
    intros b' Hb' E'. apply (nodup_app_disj _ _ j ND); [left; auto | eapply in_flat_ids; eauto; left; auto].
  - destruct Hb0 as [<- | Hb0]; [apply N.eqb_neq in E; contradiction |].
    eapply perm_trans; [apply Permutation_app_head, IH; eauto; eapply nodup_app_r; eauto |].
    apply Permutation_sym, Permutation_middle.
Qed.
Lemma bredo_rts bs j f : map b_rt (bredo bs j f) = map b_rt bs.
Proof. unfold bredo. rewrite map_map. apply map_ext. intros b. destruct (b_hd b =? j); reflexivity. Qed.

Lemma WF_acopy_seq a nx j : WF a nx -> (exists b, In b (a_seq a) /\ b_hd b = j) -> WF (acopy_seq a j nx) (nx + 1).
Proof.
  intros W HJ. pose proof (wf_lt _ _ W) as LT. pose proof (wf_rlt _ _ W) as RLT.
  assert (PI : Permutation (a_ids (acopy_seq a j nx)) (nx :: a_ids a)).
  { unfold a_ids, seq_ids, acopy_seq. cbn [a_seq a_map]. unfold aunits at 1. cbn [a_map]. fold (aunits a).
    eapply perm_trans; [apply Permutation_app_tail, bredo_perm; auto; apply nodup_seq_ids, (wf_nodup _ _ W) |]. apply Permutation_refl. }
  constructor.
  - eapply Permutation_NoDup; [apply Permutation_sym, PI |]. constructor; [| apply (wf_nodup _ _ W)].
    intros F. apply LT in F. lia.
  - intros i Hi. eapply Permutation_in in Hi; [| apply PI]. destruct Hi as [<- | Hi]; [lia | apply LT in Hi; lia].
  - apply (wf_keys _ _ W).
  - cbn [a_seq acopy_seq]. rewrite bredo_rts. apply (wf_rseq _ _ W).
  - intros b' x Hb Hx. cbn [a_seq acopy_seq] in Hb. apply in_bredo in Hb. destruct Hb as (b & Hb & ->).
    assert (b_rt b <> a_rt x) by (apply (wf_rsm _ _ W); auto). destruct (b_hd b =? j); auto.
  - apply (wf_rmap _ _ W).
  - intros r Hr. cbn [a_seq acopy_seq] in Hr. rewrite bredo_rts in Hr. apply RLT in Hr. lia.
  - apply (wf_clive _ _ W).
  - apply (wf_cval _ _ W).
  - apply (wf_incr _ _ W).
Qed.

Lemma aset_snoc_perm (m : list (N * list aunit)) k x0 :
  Permutation (flat_map snd (aset_chain m k (achain_of m k ++ [x0]))) (x0 :: flat_map snd m).
Proof.
  induction m as [| [k' c'] r IH]; cbn [aset_chain achain_of flat_map snd app]; [apply Permutation_refl |].
  destruct (k' =? k); cbn [flat_map snd].
  - rewrite <- app_assoc. apply Permutation_sym. apply (Permutation_middle c' (flat_map snd r) x0).
  - eapply perm_trans; [apply Permutation_app_head, IH |]. apply Permutation_sym, Permutation_middle.
Qed.

Lemma in_chain_aappend a k x0 k' c' x : NoDup (map fst (a_map a)) ->
  In (k', c') (a_map (aappend a k x0)) -> In x c' -> (exists c, In (k', c) (a_map a) /\ In x c) \/ (k' = k /\ x = x0).
Proof.
  intros NK Hc Hx. unfold aappend in Hc. cbn [a_map] in Hc. apply in_aset_chain in Hc; auto.
  destruct Hc as [(-> & ->) | (NE & Hc)]; [| eauto].
  apply in_app_or in Hx. destruct Hx as [Hx | [<- | []]]; auto. left.
  destruct (in_dec N.eq_dec k (map fst (a_map a))) as [I | NI].
  - exists (achain_of (a_map a) k). split; auto. apply achain_of_some; auto.
  - rewrite achain_of_notin in Hx by auto. destruct Hx.
Qed.

Lemma WF_aappend a nx k x0 : WF a nx ->
  (forall y, In y (achain_of (a_map a) k) -> a_del y = true) -> a_id x0 = nx ->
  (a_rt x0 = nx \/ exists y, In y (achain_of (a_map a) k) /\ a_rt y = a_rt x0 /\ a_val y = a_val x0) ->
  WF (aappend a k x0) (nx + 1).
Proof.
  intros W DEAD EI RT. pose proof (wf_lt _ _ W) as LT. pose proof (wf_rlt _ _ W) as RLT. pose proof (wf_keys _ _ W) as NK.
  set (c := achain_of (a_map a) k) in *.
  assert (INC : forall y, In y c -> In y (aunits a) /\ In (k, c) (a_map a)).
  { intros y Hy. destruct (in_dec N.eq_dec k (map fst (a_map a))) as [I | NI].
    - apply achain_of_some in I. fold c in I. split; auto. apply in_aunits. eauto.
    - unfold c in Hy. rewrite achain_of_notin in Hy by auto. destruct Hy. }
  assert (PI : Permutation (a_ids (aappend a k x0)) (nx :: a_ids a)).
  { unfold a_ids, seq_ids, aappend. cbn [a_seq a_map]. unfold aunits at 1. cbn [a_map]. fold (aunits a).
    eapply perm_trans; [apply Permutation_app_head, Permutation_map, aset_snoc_perm |]. cbn [map]. rewrite EI.
    apply Permutation_sym, Permutation_middle. }
  assert (RX : a_rt x0 < nx + 1).
  { destruct RT as [-> | (y & Hy & E & _)]; [lia |]. rewrite <- E.
    assert (a_rt y < nx) by (apply RLT; apply in_or_app; right; apply in_map; apply (INC y Hy)). lia. }
  constructor.
  - eapply Permutation_NoDup; [apply Permutation_sym, PI |]. constructor; [| apply (wf_nodup _ _ W)].
    intros F. apply LT in F. lia.
  - intros i Hi. eapply Permutation_in in Hi; [| apply PI]. destruct Hi as [<- | Hi]; [lia | apply LT in Hi; lia].
  - unfold aappend. cbn [a_map]. rewrite aset_chain_keys. destruct (existsb (N.eqb k) (map fst (a_map a))) eqn:EX; auto.
    apply nodup_app; auto; [repeat constructor; intros [] |]. intros x Hx [E | []]. subst x.
    rewrite <- not_true_iff_false in EX. apply EX. apply existsb_exists. exists k. split; auto. apply N.eqb_refl.
  - apply (wf_rseq _ _ W).
  - intros b x Hb Hx. cbn [a_seq aappend] in Hb. apply in_aunits_aappend in Hx; auto.
    destruct Hx as [Hx | ->]; [apply (wf_rsm _ _ W); auto |].
    destruct RT as [-> | (y & Hy & E & _)].
    + intros F. assert (nx < nx) by (apply RLT; apply in_or_app; left; rewrite <- F; apply in_map; auto). lia.
    + rewrite <- E. apply (wf_rsm _ _ W); auto. apply (INC y Hy).
  - intros k1 c1 k2 c2 x1 x2 H1 H2 I1 I2 E.
    destruct (in_chain_aappend _ _ _ _ _ _ NK H1 I1) as [(d1 & G1 & J1) | (-> & ->)];
      destruct (in_chain_aappend _ _ _ _ _ _ NK H2 I2) as [(d2 & G2 & J2) | (-> & ->)]; auto.
    + eapply (wf_rmap _ _ W); eauto.
    + destruct RT as [RT | (y & Hy & Ey & _)].
      * exfalso. assert (a_rt x1 < nx) by (apply RLT; apply in_or_app; right; apply in_map; apply in_aunits; eauto). lia.
      * apply (wf_rmap _ _ W k1 d1 k c x1 y); auto; [apply (INC y Hy) | congruence].
    + destruct RT as [RT | (y & Hy & Ey & _)].
      * exfalso. assert (a_rt x2 < nx) by (apply RLT; apply in_or_app; right; apply in_map; apply in_aunits; eauto). lia.
      * symmetry. apply (wf_rmap _ _ W k2 d2 k c x2 y); auto; [apply (INC y Hy) | congruence].
  - intros r Hr. apply in_app_or in Hr. destruct Hr as [Hr | Hr].
    + assert (r < nx) by (apply RLT; apply in_or_app; auto). lia.
    + apply in_map_iff in Hr. destruct Hr as (x & <- & Hx). apply in_aunits_aappend in Hx; auto. destruct Hx as [Hx | ->]; auto.
      assert (a_rt x < nx) by (apply RLT; apply in_or_app; right; apply in_map; auto). lia.
  - intros k' c' l1 x l2 Hc E NE. unfold aappend in Hc. cbn [a_map] in Hc. apply in_aset_chain in Hc; auto.
    destruct Hc as [(-> & ->) | (NEk & Hc)]; [| eapply (wf_clive _ _ W); eauto].
    apply DEAD. fold c in E. destruct (list_last_case l2) as [-> | (l2' & w & ->)]; [contradiction |].
    rewrite app_comm_cons, app_assoc in E. apply app_inj_tail in E. destruct E as (-> & _). apply in_or_app; right; left; auto.
  - intros k' c' x y Hc Hx Hy E.
    destruct (in_chain_aappend _ _ _ _ _ _ NK Hc Hx) as [(d1 & G1 & J1) | (-> & ->)];
      destruct (in_chain_aappend _ _ _ _ _ _ NK Hc Hy) as [(d2 & G2 & J2) | (EK & ->)]; auto.
    + assert (d1 = d2) by (rewrite <- (achain_of_in _ _ _ NK G1), <- (achain_of_in _ _ _ NK G2); reflexivity). subst d2.
      eapply (wf_cval _ _ W); eauto.
    + subst k'. destruct RT as [RT | (y & Hy0 & Ey & Ev)].
      * exfalso. assert (a_rt x < nx) by (apply RLT; apply in_or_app; right; apply in_map; apply in_aunits; eauto). lia.
      * rewrite <- Ev. assert (d1 = c) by (rewrite <- (achain_of_in _ _ _ NK G1); reflexivity). subst d1.
        apply (wf_cval _ _ W k c x y); auto. congruence.
    + destruct RT as [RT | (y0 & Hy0 & Ey & Ev)].
      * exfalso. assert (a_rt y < nx) by (apply RLT; apply in_or_app; right; apply in_map; apply in_aunits; eauto). lia.
      * rewrite <- Ev. assert (d2 = c) by (rewrite <- (achain_of_in _ _ _ NK G2); reflexivity). subst d2.
        apply (wf_cval _ _ W k c y0 y); auto. congruence.
  - intros k' c' Hc. unfold aappend in Hc. cbn [a_map] in Hc. apply in_aset_chain in Hc; auto.
    destruct Hc as [(-> & ->) | (NEk & Hc)]; [| eapply (wf_incr _ _ W); eauto]. fold c.
    rewrite map_app. cbn [map]. apply incr_snoc. split.
    + destruct (in_dec N.eq_dec k (map fst (a_map a))) as [I | NI].
      * apply (wf_incr _ _ W k c). apply achain_of_some in I. auto.
      * unfold c. rewrite achain_of_notin by auto. exact I.
    + intros i Hi. rewrite EI. apply LT. unfold a_ids. apply in_or_app. right.
      apply in_map_iff in Hi. destruct Hi as (y & <- & Hy). apply in_map. apply (INC y Hy).
Qed.



(* ---- extension of an abstract state: what later states preserve ---- *)
Record AX (X : list N) (a : astate) (nx : N) (a' : astate) (nx' : N) : Prop := {
  ax_nx : nx <= nx';
  ax_rt : forall i r, has_rt a i r -> has_rt a' i r;
  ax_rt_new : forall i r, has_rt a' i r -> has_rt a i r \/ nx <= i;
  ax_render : forall S, (forall r, In r S -> r < nx) -> render a' S = render a S;
  ax_ids : forall k, exists extra, aids (achain_of (a_map a') k) = aids (achain_of (a_map a) k) ++ extra /\ forall i, In i extra -> nx <= i;
  ax_crt : forall k x, In x (achain_of (a_map a') k) -> a_rt x < nx -> exists y, In y (achain_of (a_map a) k) /\ a_rt y = a_rt x;
  ax_heads : forall h r, is_head a h r false -> In h X \/ is_head a' h r false }.

Lemma AX_refl a nx : AX [] a nx a nx.
Proof.
  constructor; auto; try lia.
  - intros k. exists []. rewrite app_nil_r. split; auto. intros i [].
  - intros k x Hx _. eauto.
Qed.
Lemma AX_trans X1 X2 a1 n1 a2 n2 a3 n3 : AX X1 a1 n1 a2 n2 -> AX X2 a2 n2 a3 n3 -> AX (X1 ++ X2) a1 n1 a3 n3.
Proof.
  intros [p1 p2 p3 p4 p5 p6 p7] [q1 q2 q3 q4 q5 q6 q7]. constructor.
  - lia.
  - auto.
  - intros i r H. destruct (q3 i r H) as [H' | H']; [| right; lia]. destruct (p3 i r H'); auto.
  - intros S HS. rewrite q4, p4; auto. intros r Hr. apply HS in Hr. lia.
  - intros k. destruct (p5 k) as (e1 & E1 & F1). destruct (q5 k) as (e2 & E2 & F2). exists (e1 ++ e2).
    rewrite E2, E1, app_assoc. split; auto. intros i Hi. apply in_app_or in Hi. destruct Hi as [Hi | Hi]; [auto | apply F2 in Hi; lia].
  - intros k x Hx L. destruct (q6 k x Hx) as (y & Hy & Ey); [lia |]. destruct (p6 k y Hy) as (z & Hz & Ez); [rewrite Ey; auto |].
    exists z. split; auto. congruence.
  - intros h r H. destruct (p7 h r H) as [I | H']; [left; apply in_or_app; auto |].
    destruct (q7 h r H') as [I | H'']; [left; apply in_or_app; auto | auto].
Qed.
Lemma AX_weaken X X' a n a' n' : AX X a n a' n' -> incl X X' -> AX X' a n a' n'.
Proof. intros [p1 p2 p3 p4 p5 p6 p7] I. constructor; auto. intros h r H. destruct (p7 h r H); auto. Qed.

(* render ignores liveness flags and copies *)
Lemma render_seq_ext (bs bs' : list blk) S :
  map (fun b => (b_rt b, b_val b)) bs' = map (fun b => (b_rt b, b_val b)) bs ->
  map b_val (filter (fun b => umem (b_rt b) S) bs') = map b_val (filter (fun b => umem (b_rt b) S) bs).
Proof.
  revert bs'. induction bs as [| b r IH]; intros bs' E; destruct bs' as [| b' r']; try discriminate; auto.
  cbn in E. inversion E. cbn. rewrite H0. destruct (umem (b_rt b) S); cbn; rewrite ?H1, IH; auto.
Qed.
Lemma find_rt_ext (c c' : list aunit) S :
  map (fun x => (a_rt x, a_val x)) c' = map (fun x => (a_rt x, a_val x)) c ->
  option_map a_val (find (fun x => umem (a_rt x) S) c') = option_map a_val (find (fun x => umem (a_rt x) S) c).
Proof.
  revert c'. induction c as [| x t IH]; intros c' E; destruct c' as [| x' t']; try discriminate; auto.
  cbn in E. inversion E. cbn. rewrite H0. destruct (umem (a_rt x) S); cbn; [congruence | auto].
Qed.
Definition rentry (S : list N) (kc : N * list aunit) : list (N * utok) :=
  match find (fun x => umem (a_rt x) S) (snd kc) with Some x => [(fst kc, a_val x)] | None => [] end.
Lemma rentry_alt S kc : rentry S kc = match option_map a_val (find (fun x => umem (a_rt x) S) (snd kc)) with Some v => [(fst kc, v)] | None => [] end.
Proof. unfold rentry. destruct (find _ (snd kc)); reflexivity. Qed.
Lemma render_unfold a S : render a S = (map b_val (filter (fun b => umem (b_rt b) S) (a_seq a)), flat_map (rentry S) (a_map a)).
Proof. reflexivity. Qed.

Lemma achain_of_map_amark (m : list (N * list aunit)) h k :
  achain_of (map (fun kc => (fst kc, amark (snd kc) h)) m) k = amark (achain_of m k) h.
Proof. induction m as [| [k' c] r IH]; cbn [map achain_of fst snd]; auto. destruct (k' =? k); auto. Qed.

Lemma AX_kill a nx h : AX [] a nx (akill_id a h) nx.
Proof.
  constructor.
  - lia.
  - intros i r. apply has_rt_kill.
  - intros i r H. left. apply has_rt_kill in H. auto.
  - intros S _. rewrite !render_unfold. f_equal.
    + apply render_seq_ext. unfold akill_id, bmark. cbn [a_seq]. rewrite map_map. apply map_ext.
      intros b. destruct (b_hd b =? h); reflexivity.
    + unfold akill_id. cbn [a_map]. rewrite flat_map_concat_map, map_map, <- flat_map_concat_map.
      apply flat_map_ext. intros [k c]. rewrite !rentry_alt. cbn [fst snd].
      rewrite (find_rt_ext c (amark c h)); auto. unfold amark. rewrite map_map. apply map_ext.
      intros x. destruct (a_id x =? h); reflexivity.
  - intros k. exists []. rewrite app_nil_r. split; [| intros i []]. unfold akill_id. cbn [a_map].
    rewrite achain_of_map_amark, amark_ids. reflexivity.
  - intros k x Hx _. unfold akill_id in Hx. cbn [a_map] in Hx. rewrite achain_of_map_amark in Hx.
    apply amark_rt_in in Hx. destruct Hx as (z & Hz & E & _). eauto.
  - intros h0 r H. right. apply is_head_kill. destruct (N.eq_dec h0 h) as [-> | NE]; [right; eauto | left; auto].
Qed.

Lemma filter_bins (P : blk -> bool) bs pos b : P b = false -> filter P (bins bs pos b) = filter P bs.
Proof.
  intros HP. revert pos. induction bs as [| y r IH]; intros pos; cbn; [rewrite HP; auto |].
  destruct (b_live y).
  - destruct pos as [| p]; cbn; [rewrite HP; auto | rewrite IH; auto].
  - cbn. rewrite IH; auto.
Qed.

Lemma AX_ains a nx pos v : AX [] a nx (ains a pos nx v) (nx + 1).
Proof.
  constructor.
  - lia.
  - intros i r H. apply has_rt_ains. auto.
  - intros i r H. apply has_rt_ains in H. destruct H as [H | (-> & _)]; [auto | right; lia].
  - intros S HS. rewrite !render_unfold. f_equal. cbn [a_seq ains]. rewrite filter_bins; auto.
    cbn. apply umem_false. intros F. apply HS in F. lia.
  - intros k. exists []. rewrite app_nil_r. split; auto. intros i [].
  - intros k x Hx _. eauto.
  - intros h r H. right. apply is_head_ains. auto.
Qed.

Lemma AX_acopy_seq a nx j : AX [j] a nx (acopy_seq a j nx) (nx + 1).
Proof.
  constructor.
  - lia.
  - intros i r H. apply has_rt_acopy_seq. auto.
  - intros i r H. apply has_rt_acopy_seq in H. destruct H as [H | (-> & _)]; [auto | right; lia].
  - intros S _. rewrite !render_unfold. f_equal. apply render_seq_ext. unfold acopy_seq, bredo. cbn [a_seq].
    rewrite map_map. apply map_ext. intros b. destruct (b_hd b =? j); reflexivity.
  - intros k. exists []. rewrite app_nil_r. split; auto. intros i [].
  - intros k x Hx _. eauto.
  - intros h r H. destruct (N.eq_dec h j) as [-> | NE]; [left; left; auto | right].
    apply is_head_acopy_seq. destruct H as [H | H]; [left; auto | right; right; auto].
Qed.

Lemma achain_of_aset_other m k c k' : k' <> k -> achain_of (aset_chain m k c) k' = achain_of m k'.
Proof.
  intros NE. induction m as [| [k1 c1] r IH]; cbn.
  - assert (k =? k' = false) as -> by (apply N.eqb_neq; auto). reflexivity.
  - destruct (k1 =? k) eqn:E; cbn.
    + apply N.eqb_eq in E. subst k1. assert (k =? k' = false) as -> by (apply N.eqb_neq; auto). reflexivity.
    + destruct (k1 =? k'); auto.
Qed.
Lemma find_snoc {X} (f : X -> bool) l x : find f (l ++ [x]) = match find f l with Some y => Some y | None => if f x then Some x else None end.
Proof. induction l as [| y t IH]; cbn; auto. destruct (f y); auto. Qed.
Lemma flat_rentry_aset m k c' S :
  option_map a_val (find (fun x => umem (a_rt x) S) c') = option_map a_val (find (fun x => umem (a_rt x) S) (achain_of m k)) ->
  flat_map (rentry S) (aset_chain m k c') = flat_map (rentry S) m.
Proof.
  induction m as [| [k1 c1] r IH]; cbn [aset_chain achain_of flat_map]; intros H.
  - rewrite rentry_alt. cbn [fst snd]. rewrite H. reflexivity.
  - destruct (k1 =? k) eqn:E; cbn [flat_map].
    + apply N.eqb_eq in E. subst k1. f_equal. rewrite !rentry_alt. cbn [fst snd]. rewrite H. reflexivity.
    + rewrite IH; auto.
Qed.

Lemma AX_aappend X a nx k x0 : NoDup (map fst (a_map a)) -> a_id x0 = nx ->
  (a_rt x0 = nx \/ exists y, In y (achain_of (a_map a) k) /\ a_rt y = a_rt x0 /\ a_val y = a_val x0) ->
  (forall h, is_head a h (a_rt x0) false -> In h X) ->
  AX X a nx (aappend a k x0) (nx + 1).
Proof.
  intros NK EI RT HX. constructor.
  - lia.
  - intros i r H. apply has_rt_aappend; auto.
  - intros i r H. apply has_rt_aappend in H; auto. destruct H as [H | (-> & _)]; [auto | right; lia].
  - intros S HS. rewrite !render_unfold. f_equal. unfold aappend. cbn [a_map]. apply flat_rentry_aset.
    rewrite find_snoc. destruct (find _ (achain_of (a_map a) k)) as [y |] eqn:F; auto.
    destruct (umem (a_rt x0) S) eqn:M; auto. exfalso. apply umem_iff in M.
    destruct RT as [RT | (y & Hy & Ey & _)].
    + apply HS in M. lia.
    + eapply find_none in F; eauto. apply umem_false in F. apply F. rewrite Ey. auto.
  - intros k'. unfold aappend. cbn [a_map]. destruct (N.eq_dec k' k) as [-> | NE].
    + rewrite achain_of_aset. exists [nx]. rewrite map_app. cbn. rewrite EI. split; auto. intros i [<- | []]. lia.
    + rewrite achain_of_aset_other by auto. exists []. rewrite app_nil_r. split; auto. intros i [].
  - intros k' x Hx L. unfold aappend in Hx. cbn [a_map] in Hx. destruct (N.eq_dec k' k) as [-> | NE].
    + rewrite achain_of_aset in Hx. apply in_app_or in Hx. destruct Hx as [Hx | [<- | []]]; [eauto |].
      destruct RT as [RT | (y & Hy & Ey & _)]; [lia | eauto].
    + rewrite achain_of_aset_other in Hx by auto. eauto.
  - intros h r H. destruct (N.eq_dec r (a_rt x0)) as [-> | NE]; [left; auto | right].
    apply is_head_aappend; auto. destruct H as [H | H]; [left; auto |]. right.
    apply (map_head_chain _ k) in H; auto. destruct H as [H | H]; [left; auto | right; right; auto].
Qed.



(* ---- births and deaths of lineages ---- *)
Definition birth (a : astate) (nx : N) (a' : astate) (r0 : N) : Prop :=
  (forall h r lv, is_head a' h r lv <-> (is_head a h r lv /\ r <> r0) \/ (h = nx /\ r = r0 /\ lv = true)) /\
  (forall i r, has_rt a' i r <-> has_rt a i r \/ (i = nx /\ r = r0)).

Lemma birth_live a nx a' n' r0 : WF a nx -> WF a' n' -> birth a nx a' r0 -> ~ In r0 (live a) ->
  forall r, In r (live a') <-> In r (live a) \/ r = r0.
Proof.
  intros W W' (BH & _) NL r. rewrite (live_is_head _ _ _ W'), (live_is_head _ _ _ W). split.
  - intros (h & H). apply BH in H. destruct H as [(H & _) | (_ & -> & _)]; eauto.
  - intros [(h & H) | ->].
    + exists h. apply BH. left. split; auto. intros ->. apply NL. apply (live_is_head _ _ _ W). eauto.
    + exists nx. apply BH. right. auto.
Qed.

Lemma kill_live a nx h rh : WF a nx -> is_head a h rh true ->
  forall r, In r (live (akill_id a h)) <-> In r (live a) /\ r <> rh.
Proof.
  intros W H r. rewrite (live_is_head _ _ _ (WF_kill _ _ h W)), (live_is_head _ _ _ W). split.
  - intros (h' & H'). apply is_head_kill in H'. destruct H' as [(H' & NE) | (_ & F & _)]; [| discriminate].
    split; [eauto |]. intros ->. destruct (is_head_unique_root _ _ _ _ _ _ _ W H H'). congruence.
  - intros ((h' & H') & NE). exists h'. apply is_head_kill. left. split; auto. intros ->.
    destruct (is_head_unique_id _ _ _ _ _ _ _ W H H'). congruence.
Qed.

(* births: the three operations *)
Lemma birth_ains a nx pos v : WF a nx -> birth a nx (ains a pos nx v) nx.
Proof.
  intros W. split.
  - intros h r lv. rewrite is_head_ains. split.
    + intros [H | H]; auto. left. split; auto. intros ->.
      apply is_head_has_rt in H. assert (nx < nx); [| lia]. apply (wf_rlt _ _ W).
      destruct H as [(b & A & B & C) | (x & A & B & C)]; apply in_or_app; [left | right]; rewrite <- C; apply in_map; auto.
    + intros [(H & _) | H]; auto.
  - intros i r. apply has_rt_ains.
Qed.

Lemma birth_acopy_seq a nx j rj : WF a nx -> seq_head (a_seq a) j rj false -> birth a nx (acopy_seq a j nx) rj.
Proof.
  intros W SH. assert (HJ : is_head a j rj false) by (left; auto). split.
  - intros h r lv. rewrite is_head_acopy_seq. split.
    + intros [(H & NE) | [(-> & -> & lv0 & H) | H]].
      * left. split; [left; auto |]. intros ->. destruct (is_head_unique_root _ _ _ _ _ _ _ W HJ (or_introl H)). congruence.
      * right. destruct (is_head_unique_id _ _ _ _ _ _ _ W HJ (or_introl H)). auto.
      * left. split; [right; auto |]. intros ->. destruct H as (k & c & Hc & CH). apply chain_head_in in CH.
        destruct CH as (x & Hx & _ & R & _). destruct SH as (b & Hb & _ & R' & _).
        apply (wf_rsm _ _ W b x Hb); [apply in_aunits; eauto | congruence].
    + intros [([H | H] & NE) | (-> & -> & ->)].
      * left. split; auto. intros ->. destruct (is_head_unique_id _ _ _ _ _ _ _ W HJ (or_introl H)). congruence.
      * right; right; auto.
      * right; left. split; auto. split; auto. eauto.
  - intros i r. rewrite has_rt_acopy_seq. split.
    + intros [H | (-> & lv & H)]; auto. right. destruct (is_head_unique_id _ _ _ _ _ _ _ W HJ (or_introl H)). auto.
    + intros [H | (-> & ->)]; auto. right. split; auto. eauto.
Qed.

Lemma birth_aappend a nx k x0 : WF a nx -> a_id x0 = nx -> a_del x0 = false ->
  (a_rt x0 = nx \/ exists y, In y (achain_of (a_map a) k) /\ a_rt y = a_rt x0) ->
  birth a nx (aappend a k x0) (a_rt x0).
Proof.
  intros W EI LV RT. pose proof (wf_keys _ _ W) as NK. split.
  - intros h r lv. rewrite is_head_aappend by auto. split.
    + intros [H | [(H & NE) | [(-> & -> & D) | (k' & c & Hc & NE & H)]]].
      * left. split; [left; auto |]. intros ->. destruct H as (b & Hb & _ & R & _).
        destruct RT as [RT | (y & Hy & Ey)].
        -- assert (nx < nx); [| lia]. apply (wf_rlt _ _ W). apply in_or_app. left. rewrite <- RT, <- R. apply in_map; auto.
        -- apply (wf_rsm _ _ W b y Hb); [| congruence].
           destruct (in_dec N.eq_dec k (map fst (a_map a))) as [I | NI];
             [apply in_aunits; exists k, (achain_of (a_map a) k); split; auto; apply achain_of_some; auto | rewrite achain_of_notin in Hy by auto; destruct Hy].
      * left. split; auto. right. apply (map_head_chain _ k); auto.
      * right. rewrite LV in D. destruct lv; auto; discriminate.
      * left. split; [right; exists k', c; auto |]. intros ->. apply chain_head_in in H. destruct H as (x & Hx & _ & R & _).
        destruct RT as [RT | (y & Hy & Ey)].
        -- assert (nx < nx); [| lia]. apply (wf_rlt _ _ W). apply in_or_app. right. rewrite <- RT, <- R. apply in_map. apply in_aunits; eauto.
        -- apply NE. destruct (in_dec N.eq_dec k (map fst (a_map a))) as [I | NI]; [| rewrite achain_of_notin in Hy by auto; destruct Hy].
           apply (wf_rmap _ _ W k' c k (achain_of (a_map a) k) x y); auto; [apply achain_of_some; auto | congruence].
    + intros [([H | H] & NE) | (-> & -> & ->)].
      * left; auto.
      * apply (map_head_chain _ k) in H; auto. destruct H as [H | H]; [right; left; auto | right; right; right; auto].
      * right; right; left. rewrite LV. auto.
  - intros i r. rewrite has_rt_aappend by auto. rewrite EI. tauto.
Qed.

(* ---- summary of a transaction in progress: from (a0, nx0) to (a, nx) with effect e ---- *)
Record TS (X : list N) (a0 : astate) (nx0 : N) (a : astate) (nx : N) (e : ueff) : Prop := {
  ts_ax : AX X a0 nx0 a nx;
  ts_wf : WF a nx;
  ts_in : forall i, In i (e_ins e) -> nx0 <= i < nx;
  ts_new : forall i r, has_rt a i r -> nx0 <= i -> In i (e_ins e);
  ts_dh : forall j, In j (e_del e) -> exists r, is_head a j r false;
  ts_c : forall n, In n (e_ins e) -> (forall r, ~ is_head a n r true) -> In n (e_del e);
  ts_hd : forall i r h lv, In i (e_ins e) -> has_rt a i r -> is_head a h r lv -> In h (e_ins e);
  ts_1 : forall i r, In i (e_ins e) -> has_rt a i r -> ~ In r (live a0);
  ts_2 : forall r, In r (live a) -> In r (live a0) \/ exists i, In i (e_ins e) /\ has_rt a i r;
  ts_3 : forall r, In r (live a0) -> ~ In r (live a) -> exists j, In j (e_del e) /\ ~ In j (e_ins e) /\ has_rt a j r;
  ts_4 : forall j, In j (e_del e) -> ~ In j (e_ins e) -> exists r, has_rt a j r /\ In r (live a0) /\ ~ In r (live a);
  ts_n4 : forall X0 k, In X0 (e_del e) -> ~ In X0 (e_ins e) -> In X0 (aids (achain_of (a_map a) k)) ->
          forall i, In i (aids (achain_of (a_map a) k)) -> i < nx0 -> i <= X0;
  ts_wf0 : WF a0 nx0 }.

Lemma TS_init a nx : WF a nx -> TS [] a nx a nx eff0.
Proof.
  intros W. constructor; cbn; auto; try (intros; contradiction).
  - apply AX_refl.
  - intros i r H L. apply (wf_lt _ _ W) in H0 || idtac. assert (i < nx); [| lia]. apply (wf_lt _ _ W). apply in_a_ids. eauto.
Qed.

Lemma has_rt_lt a nx i r : WF a nx -> has_rt a i r -> i < nx.
Proof. intros W H. apply (wf_lt _ _ W). apply in_a_ids. eauto. Qed.

Lemma TS_birth X Xop a0 nx0 a nx e a' r0 e' :
  TS X a0 nx0 a nx e -> WF a' (nx + 1) -> AX Xop a nx a' (nx + 1) -> birth a nx a' r0 ->
  ~ In r0 (live a0) -> ~ In r0 (live a) -> (forall j, In j Xop -> ~ In j (e_del e)) ->
  (forall i, In i (e_ins e') <-> In i (e_ins e) \/ i = nx) -> (forall i, In i (e_del e') <-> In i (e_del e)) ->
  TS (X ++ Xop) a0 nx0 a' (nx + 1) e'.
Proof.
  intros T W' A B N0 N1 NX EI ED. pose proof (ts_wf _ _ _ _ _ _ T) as W. destruct B as (BH & BR).
  pose proof (birth_live a nx a' (nx + 1) r0 W W' (conj BH BR) N1) as BL.
  assert (NXK : forall r, ~ has_rt a nx r) by (intros r H; apply (has_rt_lt _ _ _ _ W) in H; lia).
  constructor.
  - eapply AX_trans; eauto. apply (ts_ax _ _ _ _ _ _ T).
  - auto.
  - intros i Hi. apply EI in Hi. destruct Hi as [Hi | ->].
    + apply (ts_in _ _ _ _ _ _ T) in Hi. lia.
    + pose proof (ax_nx _ _ _ _ _ (ts_ax _ _ _ _ _ _ T)). lia.
  - intros i r H L. apply EI. apply BR in H. destruct H as [H | (-> & _)]; auto. left. eapply (ts_new _ _ _ _ _ _ T); eauto.
  - intros j Hj. apply ED in Hj. destruct (ts_dh _ _ _ _ _ _ T j Hj) as (r & H). exists r.
    destruct (ax_heads _ _ _ _ _ A j r H) as [F | H']; auto. exfalso. apply (NX j F Hj).
  - intros n Hn NL. apply ED. apply EI in Hn. destruct Hn as [Hn | ->].
    + apply (ts_c _ _ _ _ _ _ T n Hn). intros r H. apply (NL r). apply BH. left. split; auto.
      intros ->. apply N1. apply (live_is_head _ _ _ W). eauto.
    + exfalso. apply (NL r0). apply BH. right. auto.
  - intros i r h lv Hi HR HH. apply EI. apply BH in HH. destruct HH as [(HH & NE) | (-> & _)]; auto. left.
    apply BR in HR. destruct HR as [HR | (_ & ->)]; [| contradiction].
    apply EI in Hi. destruct Hi as [Hi | ->]; [| destruct (NXK _ HR)]. eapply (ts_hd _ _ _ _ _ _ T); eauto.
  - intros i r Hi HR. apply BR in HR. destruct HR as [HR | (-> & ->)]; auto.
    apply EI in Hi. destruct Hi as [Hi | ->]; [| destruct (NXK _ HR)]. eapply (ts_1 _ _ _ _ _ _ T); eauto.
  - intros r Hr. apply BL in Hr. destruct Hr as [Hr | ->].
    + destruct (ts_2 _ _ _ _ _ _ T r Hr) as [H | (i & Hi & H)]; auto. right. exists i. split; [apply EI; auto | apply BR; auto].
    + right. exists nx. split; [apply EI; auto | apply BR; auto].
  - intros r Hr NL. destruct (ts_3 _ _ _ _ _ _ T r Hr) as (j & Hj & NJ & H).
    + intros F. apply NL. apply BL. auto.
    + exists j. split; [apply ED; auto |]. split; [| apply BR; auto].
      intros F. apply EI in F. destruct F as [F | ->]; [auto | destruct (NXK _ H)].
  - intros j Hj NJ. apply ED in Hj. destruct (ts_4 _ _ _ _ _ _ T j Hj) as (r & H & L0 & NL).
    + intros F. apply NJ. apply EI. auto.
    + exists r. split; [apply BR; auto |]. split; auto. intros F. apply BL in F. destruct F as [F | ->]; auto.
  - intros X0 k HX NI IX i Hi Li. apply ED in HX.
    assert (NI' : ~ In X0 (e_ins e)) by (intros F; apply NI; apply EI; auto).
    destruct (ax_ids _ _ _ _ _ A k) as (extra & EQ & EX). rewrite EQ in IX, Hi.
    pose proof (ax_nx _ _ _ _ _ (ts_ax _ _ _ _ _ _ T)) as LE.
    assert (X0 < nx). { destruct (ts_dh _ _ _ _ _ _ T X0 HX) as (r & H). apply is_head_has_rt in H. eapply has_rt_lt; eauto. }
    apply in_app_or in IX. destruct IX as [IX | IX]; [| apply EX in IX; lia].
    apply in_app_or in Hi. destruct Hi as [Hi | Hi]; [| apply EX in Hi; lia].
    eapply (ts_n4 _ _ _ _ _ _ T); eauto.
  - apply (ts_wf0 _ _ _ _ _ _ T).
Qed.

Lemma chain_last_max a nx k c x : WF a nx -> In (k, c) (a_map a) -> In x c -> a_del x = false ->
  forall i, In i (aids c) -> i <= a_id x.
Proof.
  intros W Hc Hx L i Hi. destruct (live_chain_last _ _ _ _ _ W Hc Hx L) as (c0 & ->).
  pose proof (wf_incr _ _ W k _ Hc) as INC. rewrite map_app in INC, Hi. cbn [map] in INC, Hi.
  apply incr_snoc in INC. destruct INC as (_ & INC). apply in_app_or in Hi. destruct Hi as [Hi | [<- | []]]; [apply INC in Hi |]; lia.
Qed.
Lemma chain_of_id a k c i : NoDup (a_ids a) -> NoDup (map fst (a_map a)) -> In (k, c) (a_map a) -> In i (aids c) ->
  forall k', In i (aids (achain_of (a_map a) k')) -> k' = k.
Proof.
  intros ND NK Hc Hi k' Hi'. destruct (in_dec N.eq_dec k' (map fst (a_map a))) as [I | NI]; [| rewrite achain_of_notin in Hi' by auto; destruct Hi'].
  apply achain_of_some in I. pose proof (nodup_map_ids _ ND) as NDm. unfold aunits in NDm. rewrite flat_map_concat_map, concat_map, map_map, <- flat_map_concat_map in NDm.
  assert ((k', achain_of (a_map a) k') = (k, c)) as E by (eapply (nodup_flat_unique (fun kc => aids (snd kc))); eauto).
  inversion E; auto.
Qed.

Lemma TS_kill X a0 nx0 a nx e h rh e' :
  TS X a0 nx0 a nx e -> is_head a h rh true ->
  (forall i, In i (e_ins e') <-> In i (e_ins e)) -> (forall i, In i (e_del e') <-> In i (e_del e) \/ i = h) ->
  TS X a0 nx0 (akill_id a h) nx e'.
Proof.
  intros T HH EI ED. pose proof (ts_wf _ _ _ _ _ _ T) as W. pose proof (WF_kill _ _ h W) as W'.
  pose proof (kill_live a nx h rh W HH) as KL.
  constructor.
  - rewrite <- (app_nil_r X). eapply AX_trans; [apply (ts_ax _ _ _ _ _ _ T) | apply AX_kill].
  - auto.
  - intros i Hi. apply EI in Hi. apply (ts_in _ _ _ _ _ _ T); auto.
  - intros i r H L. apply EI. apply has_rt_kill in H. eapply (ts_new _ _ _ _ _ _ T); eauto.
  - intros j Hj. apply ED in Hj. destruct Hj as [Hj | ->].
    + destruct (ts_dh _ _ _ _ _ _ T j Hj) as (r & H). exists r. apply is_head_kill.
      destruct (N.eq_dec j h) as [-> | NE]; [right; eauto | left; auto].
    + exists rh. apply is_head_kill. right. eauto.
  - intros n Hn NL. apply ED. apply EI in Hn. destruct (N.eq_dec n h) as [-> | NE]; auto. left.
    apply (ts_c _ _ _ _ _ _ T n Hn). intros r H. apply (NL r). apply is_head_kill. left. auto.
  - intros i r h0 lv Hi HR HHd. apply EI. apply EI in Hi. apply has_rt_kill in HR. apply is_head_kill in HHd.
    destruct HHd as [(HHd & _) | (-> & _ & lv0 & HHd)]; eapply (ts_hd _ _ _ _ _ _ T); eauto.
  - intros i r Hi HR. apply EI in Hi. apply has_rt_kill in HR. eapply (ts_1 _ _ _ _ _ _ T); eauto.
  - intros r Hr. apply KL in Hr. destruct Hr as (Hr & _).
    destruct (ts_2 _ _ _ _ _ _ T r Hr) as [H | (i & Hi & H)]; auto. right. exists i. split; [apply EI; auto | apply has_rt_kill; auto].
  - intros r Hr NL. destruct (in_dec N.eq_dec r (live a)) as [I | NI].
    + assert (r = rh) as -> by (destruct (N.eq_dec r rh); auto; exfalso; apply NL; apply KL; auto).
      exists h. split; [apply ED; auto |]. split; [| apply has_rt_kill; eapply is_head_has_rt; eauto].
      intros F. apply EI in F. apply (ts_1 _ _ _ _ _ _ T h rh F); auto. eapply is_head_has_rt; eauto.
    + destruct (ts_3 _ _ _ _ _ _ T r Hr NI) as (j & Hj & NJ & H). exists j. split; [apply ED; auto |].
      split; [intros F; apply NJ; apply EI; auto | apply has_rt_kill; auto].
  - intros j Hj NJ. assert (NJ' : ~ In j (e_ins e)) by (intros F; apply NJ; apply EI; auto).
    apply ED in Hj. destruct Hj as [Hj | ->].
    + destruct (ts_4 _ _ _ _ _ _ T j Hj NJ') as (r & H & L0 & NL). exists r. split; [apply has_rt_kill; auto |]. split; auto.
      intros F. apply KL in F. tauto.
    + exists rh. split; [apply has_rt_kill; eapply is_head_has_rt; eauto |].
      assert (Lh : In rh (live a)) by (apply (live_is_head _ _ _ W); eauto). split.
      * destruct (ts_2 _ _ _ _ _ _ T rh Lh) as [H | (i & Hi & H)]; auto. exfalso. apply NJ'.
        eapply (ts_hd _ _ _ _ _ _ T); eauto.
      * intros F. apply KL in F. tauto.
  - intros X0 k HX NI IX i Hi Li. assert (NI' : ~ In X0 (e_ins e)) by (intros F; apply NI; apply EI; auto).
    unfold akill_id in IX, Hi. cbn [a_map] in IX, Hi. rewrite achain_of_map_amark, amark_ids in IX, Hi.
    apply ED in HX. destruct HX as [HX | ->]; [eapply (ts_n4 _ _ _ _ _ _ T); eauto |].
    destruct HH as [(b & Hb & E & _) | (k' & c & Hc & CH)].
    + exfalso. apply (nodup_app_disj _ _ h (wf_nodup _ _ W)).
      * apply in_seq_ids. exists b. split; auto. left; auto.
      * destruct (in_dec N.eq_dec k (map fst (a_map a))) as [I | NI2]; [| rewrite achain_of_notin in IX by auto; destruct IX].
        apply in_map_iff in IX. destruct IX as (y & <- & Hy). apply in_map. apply in_aunits. exists k, (achain_of (a_map a) k). split; auto. apply achain_of_some; auto.
    + apply chain_head_in in CH. destruct CH as (x & Hx & E & _ & D). cbn in D.
      assert (k = k') as -> by (eapply (chain_of_id a k' c h); eauto; [apply (wf_nodup _ _ W) | apply (wf_keys _ _ W) | rewrite <- E; apply in_map; auto]).
      rewrite (achain_of_in _ _ _ (wf_keys _ _ W) Hc) in Hi. rewrite <- E. apply (chain_last_max a nx k' c x W Hc Hx D i Hi).
  - apply (ts_wf0 _ _ _ _ _ _ T).
Qed.



Lemma TS_eff_equiv X a0 nx0 a nx e e' :
  TS X a0 nx0 a nx e -> (forall i, In i (e_ins e') <-> In i (e_ins e)) -> (forall i, In i (e_del e') <-> In i (e_del e)) ->
  TS X a0 nx0 a nx e'.
Proof.
  intros [t1 t2 t3 t4 t5 t6 t7 t8 t9 t10 t11 t12 t13] EI ED. constructor; auto.
  - intros i Hi. apply EI in Hi. auto.
  - intros i r H L. apply EI. eauto.
  - intros j Hj. apply ED in Hj. auto.
  - intros n Hn NL. apply ED. apply EI in Hn. auto.
  - intros i r h lv Hi HR HH. apply EI. apply EI in Hi. eauto.
  - intros i r Hi. apply EI in Hi. eauto.
  - intros r Hr. destruct (t9 r Hr) as [H | (i & Hi & H)]; auto. right. exists i. split; auto. apply EI; auto.
  - intros r Hr NL. destruct (t10 r Hr NL) as (j & Hj & NJ & H). exists j. split; [apply ED; auto |]. split; auto.
    intros F. apply NJ. apply EI; auto.
  - intros j Hj NJ. apply ED in Hj. apply t11; auto. intros F. apply NJ. apply EI; auto.
  - intros X0 k HX NI. apply ED in HX. apply t12; auto. intros F. apply NI. apply EI; auto.
Qed.

Lemma live_lt a nx r : WF a nx -> In r (live a) -> r < nx.
Proof.
  intros W H. apply (wf_rlt _ _ W). apply in_live in H. apply in_or_app.
  destruct H as [(b & Hb & _ & <-) | (x & Hx & _ & <-)]; [left | right]; apply in_map; auto.
Qed.

(* all units of the chain are dead once its last unit is *)
Lemma chain_all_dead a nx k : WF a nx ->
  (forall h r, ~ (chain_head (achain_of (a_map a) k) h r true)) -> forall y, In y (achain_of (a_map a) k) -> a_del y = true.
Proof.
  intros W NH y Hy. destruct (a_del y) eqn:D; auto. exfalso.
  destruct (in_dec N.eq_dec k (map fst (a_map a))) as [I | NI]; [| rewrite achain_of_notin in Hy by auto; destruct Hy].
  apply achain_of_some in I. destruct (live_chain_last _ _ _ _ _ W I Hy D) as (c0 & E).
  apply (NH (a_id y) (a_rt y)). rewrite E. exists c0, y, []. repeat split; auto; intros z [].
Qed.

Lemma adel_last_head a nx k h : WF a nx -> snd (adel_last (achain_of (a_map a) k)) = Some h ->
  exists r, is_head a h r true /\ chain_head (achain_of (a_map a) k) h r true.
Proof.
  intros W E. pose proof (adel_last_spec _ (nodup_achain a k (wf_nodup _ _ W))) as K. rewrite E in K.
  destruct K as (_ & c0 & w & EC & EW & D). exists (a_rt w).
  assert (CH : chain_head (achain_of (a_map a) k) h (a_rt w) true).
  { rewrite EC. exists c0, w, []. repeat split; auto; intros z []. }
  split; auto. right. exists k, (achain_of (a_map a) k). split; auto. apply achain_of_some.
  destruct (in_dec N.eq_dec k (map fst (a_map a))) as [I | NI]; auto. rewrite achain_of_notin in EC by auto. destruct c0; discriminate.
Qed.

(* after the optional kill of its last unit, the chain of k has no live unit *)
Lemma akill_opt_dead a nx k : WF a nx ->
  let o := snd (adel_last (achain_of (a_map a) k)) in
  forall y, In y (achain_of (a_map (akill_opt a o)) k) -> a_del y = true.
Proof.
  intros W o. pose proof (adel_last_spec _ (nodup_achain a k (wf_nodup _ _ W))) as K. fold o in K.
  destruct o as [h |] eqn:EO; cbn [akill_opt].
  - destruct K as (_ & c0 & w & EC & EW & D). unfold akill_id. cbn [a_map]. rewrite achain_of_map_amark.
    intros y Hy. apply in_amark in Hy. destruct Hy as (x & Hx & ->).
    destruct (a_id x =? h) eqn:E; [reflexivity |]. rewrite EC in Hx. apply in_app_or in Hx. destruct Hx as [Hx | [<- | []]].
    + destruct (in_dec N.eq_dec k (map fst (a_map a))) as [I | NI]; [| rewrite achain_of_notin in EC by auto; destruct c0; discriminate].
      apply achain_of_some in I. apply in_split in Hx. destruct Hx as (l1 & l2 & ->).
      apply (wf_clive _ _ W k _ l1 x (l2 ++ [w]) I); [rewrite EC, <- app_assoc; reflexivity | destruct l2; discriminate].
    + apply N.eqb_neq in E. contradiction.
  - apply (chain_all_dead a nx k W). intros h r CH. unfold o in EO.
    destruct CH as (l1 & x & l2 & EC & A & B & C & D).
    destruct (in_dec N.eq_dec k (map fst (a_map a))) as [I | NI]; [| rewrite achain_of_notin in EC by auto; destruct l1; discriminate].
    apply achain_of_some in I. cbn in C.
    assert (In x (achain_of (a_map a) k)) as Hx by (rewrite EC; apply in_or_app; right; left; auto).
    destruct (live_chain_last _ _ _ _ _ W I Hx C) as (c0 & EC'). rewrite EC', adel_last_snoc in EO. cbn in EO. rewrite C in EO. discriminate.
Qed.

Lemma TS_kill_opt X a0 nx0 a nx e o e' :
  TS X a0 nx0 a nx e -> (forall h, o = Some h -> exists r, is_head a h r true) ->
  (forall i, In i (e_ins e') <-> In i (e_ins e)) -> (forall i, In i (e_del e') <-> In i (e_del e) \/ In i (dels o)) ->
  TS X a0 nx0 (akill_opt a o) nx e'.
Proof.
  intros T HO EI ED. destruct o as [h |]; cbn [akill_opt dels] in *.
  - destruct (HO h eq_refl) as (r & H). eapply TS_kill; eauto. intros i. rewrite ED. cbn. intuition.
  - eapply TS_eff_equiv; eauto. intros i. rewrite ED. cbn. intuition.
Qed.

Lemma TS_do_call X a0 nx0 a nx e us rs c : TS X a0 nx0 a nx e ->
  exists a' nx' e2, do_call (conc a nx us rs) c = (conc a' nx' us rs, e2) /\ TS X a0 nx0 a' nx' (eff_app e e2).
Proof.
  intros T. pose proof (ts_wf _ _ _ _ _ _ T) as W. pose proof (wf_nodup _ _ W) as ND. pose proof (wf_keys _ _ W) as NK.
  pose proof (ax_nx _ _ _ _ _ (ts_ax _ _ _ _ _ _ T)) as LE.
  destruct c as [pos v | pos | k v | k].
  - (* insert *)
    rewrite conc_ins. eexists _, _, _. split; [reflexivity |].
    rewrite <- (app_nil_r X). eapply (TS_birth X [] a0 nx0 a nx e _ nx); [exact T | | | | | | | |].
    + apply WF_ains; auto.
    + apply AX_ains.
    + apply birth_ains; auto.
    + intros F. apply (live_lt _ _ _ (ts_wf0 _ _ _ _ _ _ T)) in F. lia.
    + intros F. apply (live_lt _ _ _ W) in F. lia.
    + intros j [].
    + intros i. cbn. rewrite in_app_iff. cbn. intuition.
    + intros i. cbn. rewrite app_nil_r. tauto.
  - (* delete *)
    destruct (conc_del a nx us rs pos ND) as (EQ & HO). rewrite EQ. eexists _, _, _. split; [reflexivity |].
    eapply TS_kill_opt; eauto.
    + intros h E. destruct (HO h E) as (r & H). exists r. left. auto.
    + intros i. cbn. rewrite app_nil_r. tauto.
    + intros i. cbn. rewrite in_app_iff. tauto.
  - (* set *)
    rewrite conc_set; auto.
    2:{ intros x Hx E. assert (a_rt x < nx); [| lia]. apply (wf_rlt _ _ W). apply in_or_app. right. apply in_map; auto. }
    eexists _, _, _. split; [reflexivity |].
    set (o := snd (adel_last (achain_of (a_map a) k))).
    assert (T1 : TS X a0 nx0 (akill_opt a o) nx {| e_ins := e_ins e; e_del := e_del e ++ dels o |}).
    { eapply TS_kill_opt; eauto.
      - intros h E. destruct (adel_last_head a nx k h W E) as (r & H & _). eauto.
      - intros i. cbn. tauto.
      - intros i. cbn. rewrite in_app_iff. tauto. }
    pose proof (ts_wf _ _ _ _ _ _ T1) as W1.
    rewrite <- (app_nil_r X). eapply (TS_birth X [] a0 nx0 _ nx _ _ nx); [apply T1 | | | | | | | |].
    + apply WF_aappend; auto. apply (akill_opt_dead a nx k W).
    + apply AX_aappend; auto; [apply (wf_keys _ _ W1) |]. cbn [a_rt newunit]. intros h H. exfalso.
      apply is_head_has_rt in H. assert (nx < nx); [| lia]. apply (wf_rlt _ _ W1).
      destruct H as [(b & A & B & C) | (x & A & B & C)]; apply in_or_app; [left | right]; rewrite <- C; apply in_map; auto.
    + apply (birth_aappend _ nx k (newunit nx v) W1); auto.
    + intros F. apply (live_lt _ _ _ (ts_wf0 _ _ _ _ _ _ T)) in F. lia.
    + intros F. apply (live_lt _ _ _ W1) in F. lia.
    + intros j [].
    + intros i. cbn. rewrite in_app_iff. cbn. intuition.
    + intros i. cbn. tauto.
  - (* remove *)
    rewrite conc_rem; auto. eexists _, _, _. split; [reflexivity |].
    eapply TS_kill_opt; eauto.
    + intros h E. destruct (adel_last_head a nx k h W E) as (r & H & _). eauto.
    + intros i. cbn. rewrite app_nil_r. tauto.
    + intros i. cbn. rewrite in_app_iff. tauto.
Qed.



(* ---- stack entries ---- *)
Record ent_ok (a : astate) (nx : N) (E : stackitem) : Prop := {
  eo_lt : forall i, In i (st_ins E) \/ In i (st_del E) -> i < nx;
  eo_dh : forall j, In j (st_del E) -> exists r, is_head a j r false;
  eo_d3 : forall i j r, In i (st_ins E) -> In j (to_redo_of E) -> has_rt a i r -> has_rt a j r -> False;
  eo_pos : forall X k n, In X (to_redo_of E) -> In X (aids (achain_of (a_map a) k)) ->
           In n (st_ins E) -> In n (aids (achain_of (a_map a) k)) ->
           X < n /\ (forall i, In i (aids (achain_of (a_map a) k)) -> X < i -> i < n -> In i (st_ins E)) /\
           (forall n', In n' (st_ins E) -> In n' (aids (achain_of (a_map a) k)) -> n < n' -> In n (st_del E));
  eo_nd : NoDup (st_del E) }.

Fixpoint pdisj (l : list stackitem) : Prop :=
  match l with
  | [] => True
  | E :: r => (forall F i, In F r -> In i (st_del E) -> ~ In i (st_del F)) /\ pdisj r
  end.
Definition STK (a : astate) (nx : N) (stk : list stackitem) : Prop := (forall E, In E stk -> ent_ok a nx E) /\ pdisj stk.

Lemma ent_ok_stable X a nx a' nx' E : WF a nx -> WF a' nx' ->
  AX X a nx a' nx' -> (forall j, In j (st_del E) -> ~ In j X) -> ent_ok a nx E -> ent_ok a' nx' E.
Proof.
  intros W W' A NX [p1 p2 p3 p4 p5]. pose proof (ax_nx _ _ _ _ _ A) as LE.
  assert (OLD : forall i r, i < nx -> has_rt a' i r -> has_rt a i r).
  { intros i r L H. destruct (ax_rt_new _ _ _ _ _ A i r H); auto. lia. }
  assert (OLDC : forall k i, i < nx -> In i (aids (achain_of (a_map a') k)) -> In i (aids (achain_of (a_map a) k))).
  { intros k i L H. destruct (ax_ids _ _ _ _ _ A k) as (extra & EQ & EX). rewrite EQ in H. apply in_app_or in H.
    destruct H as [H | H]; auto. apply EX in H. lia. }
  constructor; auto.
  - intros i Hi. apply p1 in Hi. lia.
  - intros j Hj. destruct (p2 j Hj) as (r & H). exists r. destruct (ax_heads _ _ _ _ _ A j r H) as [F | H']; auto.
    destruct (NX j Hj F).
  - intros i j r Hi Hj H1 H2. apply (p3 i j r Hi Hj); apply OLD; auto.
    apply in_to_redo in Hj. apply p1. tauto.
  - intros X0 k n HX IX Hn In'. assert (X0 < nx) by (apply in_to_redo in HX; apply p1; tauto). assert (n < nx) by (apply p1; auto).
    destruct (p4 X0 k n HX (OLDC k _ H IX) Hn (OLDC k _ H0 In')) as (A1 & A2 & A3). split; auto. split.
    + intros i Hi L1 L2. apply A2; auto. apply OLDC; [lia | auto].
    + intros n' Hn' In'' L. apply (A3 n'); auto.
Qed.

Lemma pdisj_app l1 l2 : pdisj (l1 ++ l2) <->
  pdisj l1 /\ pdisj l2 /\ (forall E F i, In E l1 -> In F l2 -> In i (st_del E) -> ~ In i (st_del F)).
Proof.
  induction l1 as [| E r IH]; cbn.
  - intuition.
  - rewrite IH. split.
    + intros (A & B & C & D). repeat split; auto.
      * intros F i HF. apply A. apply in_or_app; auto.
      * intros E0 F i [<- | HE] HF; [apply A; apply in_or_app; auto | eauto].
    + intros ((A & B) & C & D). repeat split; auto.
      * intros F i HF. apply in_app_or in HF. destruct HF; [apply A; auto | apply (D E F i); auto].
      * intros E0 F i HE HF. apply (D E0 F i); auto.
Qed.
Lemma pdisj_sym_cross l E : pdisj (E :: l) -> forall F i, In F l -> In i (st_del F) -> ~ In i (st_del E).
Proof. intros (A & _) F i HF Hi Hi'. apply (A F i HF Hi' Hi). Qed.

(* ---- the content sets behind the two stacks ---- *)
Fixpoint ulist (a : astate) (us : list stackitem) (S : list N) : list (list N) :=
  match us with [] => [S] | E :: rest => S :: ulist a rest (tau a E S) end.
Fixpoint rlist (a : astate) (rs : list stackitem) (S : list N) : list (list N) :=
  match rs with [] => [] | F :: rest => tau a F S :: rlist a rest (tau a F S) end.
Definition kex (a : astate) (S : list N) : Prop :=
  forall k x y, In x (achain_of (a_map a) k) -> In y (achain_of (a_map a) k) -> In (a_rt x) S -> In (a_rt y) S -> a_rt x = a_rt y.
Definition bounded (nx : N) (S : list N) : Prop := forall r, In r S -> r < nx.

Lemma ulist_length a us S : length (ulist a us S) = Datatypes.S (length us).
Proof. revert S. induction us as [| E r IH]; intros S; cbn; auto. Qed.
Lemma rlist_length a rs S : length (rlist a rs S) = length rs.
Proof. revert S. induction rs as [| E r IH]; intros S; cbn; auto. Qed.

Lemma roots_stable X a nx a' nx' l : WF a nx -> WF a' nx' -> AX X a nx a' nx' -> (forall i, In i l -> i < nx) -> roots a' l = roots a l.
Proof.
  intros W W' A HL. unfold roots. apply flat_map_ext_in'. intros i Hi.
  destruct (rt_of a i) as [r |] eqn:E.
  - apply rt_of_has in E. apply (ax_rt _ _ _ _ _ A) in E. rewrite (has_rt_of _ _ _ (wf_nodup _ _ W') E). reflexivity.
  - destruct (rt_of a' i) as [r' |] eqn:E'; auto. exfalso. apply rt_of_has in E'.
    destruct (ax_rt_new _ _ _ _ _ A i r' E') as [H | H]; [| apply HL in Hi; lia].
    apply (rt_of_none _ _ E). apply in_a_ids. eauto.
Qed.
Lemma tau_stable X a nx a' nx' E S : WF a nx -> WF a' nx' -> AX X a nx a' nx' ->
  (forall i, In i (st_ins E) \/ In i (st_del E) -> i < nx) -> tau a' E S = tau a E S.
Proof.
  intros W W' A HL. unfold tau. rewrite (roots_stable X a nx a' nx' (st_ins E)), (roots_stable X a nx a' nx' (to_redo_of E)); auto.
  intros i Hi. apply in_to_redo in Hi. apply HL. tauto.
Qed.
Lemma ulist_stable X a nx a' nx' us S : WF a nx -> WF a' nx' -> AX X a nx a' nx' ->
  (forall E i, In E us -> In i (st_ins E) \/ In i (st_del E) -> i < nx) -> ulist a' us S = ulist a us S.
Proof.
  intros W W' A. revert S. induction us as [| E r IH]; intros S HL; cbn; auto.
  rewrite (tau_stable X a nx a' nx'), IH; auto.
  - intros E0 i HE Hi. apply (HL E0 i); auto. right; auto.
  - intros i Hi. apply (HL E i); auto. left; auto.
Qed.
Lemma rlist_stable X a nx a' nx' rs S : WF a nx -> WF a' nx' -> AX X a nx a' nx' ->
  (forall E i, In E rs -> In i (st_ins E) \/ In i (st_del E) -> i < nx) -> rlist a' rs S = rlist a rs S.
Proof.
  intros W W' A. revert S. induction rs as [| E r IH]; intros S HL; cbn; auto.
  rewrite (tau_stable X a nx a' nx'), IH; auto.
  - intros E0 i HE Hi. apply (HL E0 i); auto. right; auto.
  - intros i Hi. apply (HL E i); auto. left; auto.
Qed.

Lemma roots_bounded a nx l : WF a nx -> bounded nx (roots a l).
Proof.
  intros W r Hr. apply in_roots in Hr. destruct Hr as (i & _ & H). apply rt_of_has in H.
  apply (wf_rlt _ _ W). apply in_or_app. destruct H as [(b & A & B & C) | (x & A & B & C)]; [left | right]; rewrite <- C; apply in_map; auto.
Qed.
Lemma tau_bounded a nx E S : WF a nx -> bounded nx S -> bounded nx (tau a E S).
Proof.
  intros W B r Hr. apply in_tau in Hr. destruct Hr as [(Hr & _) | Hr]; auto. eapply roots_bounded; eauto.
Qed.
Lemma ulist_bounded a nx us S : WF a nx -> bounded nx S -> forall S', In S' (ulist a us S) -> bounded nx S'.
Proof.
  intros W. revert S. induction us as [| E r IH]; intros S B S'; cbn.
  - intros [<- | []]; auto.
  - intros [<- | H]; auto. apply (IH (tau a E S)); auto. apply tau_bounded; auto.
Qed.
Lemma rlist_bounded a nx rs S : WF a nx -> bounded nx S -> forall S', In S' (rlist a rs S) -> bounded nx S'.
Proof.
  intros W. revert S. induction rs as [| E r IH]; intros S B S'; cbn; [intros [] |].
  intros [<- | H]; [apply tau_bounded; auto |]. apply (IH (tau a E S)); auto. apply tau_bounded; auto.
Qed.
Lemma live_bounded a nx : WF a nx -> bounded nx (live a).
Proof. intros W r. apply live_lt; auto. Qed.

Lemma map_render_seteq a l l' : Forall2 seteq l l' -> map (render a) l = map (render a) l'.
Proof. induction 1; cbn; auto. rewrite (render_seteq a x y); auto. congruence. Qed.
Lemma ulist_seteq a us S S' : seteq S S' -> Forall2 seteq (ulist a us S) (ulist a us S').
Proof.
  revert S S'. induction us as [| E r IH]; intros S S' H; cbn; constructor; auto. apply IH. apply tau_seteq; auto.
Qed.
Lemma rlist_seteq a rs S S' : seteq S S' -> Forall2 seteq (rlist a rs S) (rlist a rs S').
Proof.
  revert S S'. induction rs as [| E r IH]; intros S S' H; cbn; constructor; [apply tau_seteq; auto |]. apply IH. apply tau_seteq; auto.
Qed.
Lemma map_render_stable X a nx a' nx' l : AX X a nx a' nx' -> (forall S, In S l -> bounded nx S) -> map (render a') l = map (render a) l.
Proof. intros A H. apply map_ext_in. intros S HS. apply (ax_render _ _ _ _ _ A). apply H; auto. Qed.

Lemma kex_stable X a nx a' nx' S : AX X a nx a' nx' -> bounded nx S -> kex a S -> kex a' S.
Proof.
  intros A B K k x y Hx Hy Ix Iy.
  destruct (ax_crt _ _ _ _ _ A k x Hx (B _ Ix)) as (x0 & Hx0 & Ex). destruct (ax_crt _ _ _ _ _ A k y Hy (B _ Iy)) as (y0 & Hy0 & Ey).
  rewrite <- Ex, <- Ey. apply (K k); auto; congruence.
Qed.
Lemma kex_seteq a S S' : seteq S S' -> kex a S -> kex a S'.
Proof. intros H K k x y Hx Hy Ix Iy. apply (K k); auto; apply H; auto. Qed.
Lemma kex_live a nx : WF a nx -> kex a (live a).
Proof.
  intros W k x y Hx Hy Ix Iy.
  destruct (in_dec N.eq_dec k (map fst (a_map a))) as [I | NI]; [| rewrite achain_of_notin in Hx by auto; destruct Hx].
  apply achain_of_some in I. set (c := achain_of (a_map a) k) in *.
  assert (LR : forall z, In z c -> In (a_rt z) (live a) -> exists w, In w c /\ a_del w = false /\ a_rt w = a_rt z).
  { intros z Hz Iz. apply in_live in Iz. destruct Iz as [(b & Hb & _ & E) | (w & Hw & L & E)].
    - exfalso. apply (wf_rsm _ _ W b z Hb); auto. apply in_aunits; eauto.
    - apply in_aunits in Hw. destruct Hw as (k' & c' & Hc' & Hw).
      assert (k' = k) as -> by (eapply (wf_rmap _ _ W); eauto).
      assert (c' = c) as -> by (rewrite <- (achain_of_in _ _ _ (wf_keys _ _ W) Hc'); reflexivity). eauto. }
  destruct (LR x Hx Ix) as (w1 & Hw1 & L1 & E1). destruct (LR y Hy Iy) as (w2 & Hw2 & L2 & E2).
  destruct (live_chain_last _ _ _ _ _ W I Hw1 L1) as (c1 & EC1). destruct (live_chain_last _ _ _ _ _ W I Hw2 L2) as (c2 & EC2).
  rewrite EC1 in EC2. apply app_inj_tail in EC2. destruct EC2 as (_ & <-). congruence.
Qed.

Lemma incr_sort_insert x l : incr l -> incr (sort_insert x l).
Proof.
  induction l as [| y r IH]; cbn; intros H; [split; auto; intros j [] |].
  destruct H as (A & B). destruct (x <? y) eqn:L1.
  - apply N.ltb_lt in L1. cbn. split; [| split; auto]. intros j [<- | Hj]; auto. apply A in Hj. lia.
  - apply N.ltb_ge in L1. destruct (x =? y) eqn:L2; [cbn; auto |]. apply N.eqb_neq in L2. cbn. split; auto.
    intros j Hj. apply in_sort_insert in Hj. destruct Hj as [-> | Hj]; [lia | auto].
Qed.
Lemma incr_sort_ids l : incr (sort_ids l).
Proof. induction l as [| x r IH]; cbn; auto. apply incr_sort_insert; auto. Qed.
Lemma incr_nodup l : incr l -> NoDup l.
Proof.
  induction l as [| x r IH]; cbn; intros H; constructor; destruct H as (A & B); auto.
  intros F. apply A in F. lia.
Qed.

Definition entry_of_eff (e : ueff) : stackitem := {| st_ins := sort_ids (e_ins e); st_del := sort_ids (e_del e) |}.

Lemma TS_entry X a0 nx0 a nx e : TS X a0 nx0 a nx e ->
  ent_ok a nx (entry_of_eff e) /\ seteq (tau a (entry_of_eff e) (live a)) (live a0).
Proof.
  intros T. pose proof (ts_wf _ _ _ _ _ _ T) as W. pose proof (wf_nodup _ _ W) as ND.
  assert (OLD : forall j r, has_rt a j r -> ~ In j (e_ins e) -> j < nx0).
  { intros j r H NI. destruct (N.lt_ge_cases j nx0); auto. exfalso. apply NI. eapply (ts_new _ _ _ _ _ _ T); eauto. }
  assert (TR : forall j, In j (to_redo_of (entry_of_eff e)) <-> In j (e_del e) /\ ~ In j (e_ins e)).
  { intros j. rewrite in_to_redo. cbn. rewrite !in_sort_ids. tauto. }
  split.
  - constructor.
    + cbn. intros i [Hi | Hi]; rewrite in_sort_ids in Hi.
      * apply (ts_in _ _ _ _ _ _ T) in Hi. lia.
      * destruct (ts_dh _ _ _ _ _ _ T i Hi) as (r & H). apply is_head_has_rt in H. eapply has_rt_lt; eauto.
    + cbn. intros j Hj. rewrite in_sort_ids in Hj. apply (ts_dh _ _ _ _ _ _ T); auto.
    + intros i j r Hi Hj H1 H2. cbn in Hi. rewrite in_sort_ids in Hi. apply TR in Hj. destruct Hj as (Hj & NJ).
      destruct (ts_4 _ _ _ _ _ _ T j Hj NJ) as (r' & H' & L0 & _). assert (r = r') by (eapply has_rt_unique; eauto). subst r'.
      apply (ts_1 _ _ _ _ _ _ T i r Hi H1 L0).
    + intros X0 k n HX IX Hn In'. apply TR in HX. destruct HX as (HX & NX). cbn in Hn. rewrite in_sort_ids in Hn.
      assert (KN : forall i, In i (aids (achain_of (a_map a) k)) -> exists r, has_rt a i r /\ In (k, achain_of (a_map a) k) (a_map a)).
      { intros i Hi. destruct (in_dec N.eq_dec k (map fst (a_map a))) as [I | NI]; [| rewrite achain_of_notin in Hi by auto; destruct Hi].
        apply achain_of_some in I. apply in_map_iff in Hi. destruct Hi as (x & <- & Hx). exists (a_rt x). split; auto.
        right. exists x. split; auto. apply in_aunits; eauto. }
      destruct (KN X0 IX) as (rX & HrX & Hc). pose proof (OLD X0 rX HrX NX) as LX. pose proof (ts_in _ _ _ _ _ _ T n Hn) as Ln.
      split; [lia |]. split.
      * intros i Hi L1 L2. cbn. rewrite in_sort_ids. destruct (N.lt_ge_cases i nx0) as [L | L].
        -- pose proof (ts_n4 _ _ _ _ _ _ T X0 k HX NX IX i Hi L). lia.
        -- destruct (KN i Hi) as (ri & Hri & _). eapply (ts_new _ _ _ _ _ _ T); eauto.
      * intros n' Hn' In'' L. cbn in Hn' |- *. rewrite in_sort_ids in Hn'. rewrite in_sort_ids.
        apply (ts_c _ _ _ _ _ _ T n Hn). intros r H.
        destruct H as [(b & Hb & E & _) | (k' & c & Hc' & CH)].
        -- apply (nodup_app_disj _ _ n ND); [apply in_seq_ids; exists b; split; auto; left; auto |].
           apply in_map_iff in In'. destruct In' as (x & <- & Hx). apply in_map. apply in_aunits; eauto.
        -- apply chain_head_in in CH. destruct CH as (x & Hx & E & _ & D). cbn in D.
           assert (k = k') as <- by (eapply (chain_of_id a k' c n); eauto; [apply (wf_keys _ _ W) | rewrite <- E; apply in_map; auto]).
           rewrite <- (achain_of_in _ _ _ (wf_keys _ _ W) Hc') in Hx.
           pose proof (chain_last_max a nx k _ x W Hc Hx D n' In''). lia.
    + cbn. apply incr_nodup, incr_sort_ids.
  - intros r. rewrite in_tau. split.
    + intros [(L & NR) | HR].
      * destruct (ts_2 _ _ _ _ _ _ T r L) as [H | (i & Hi & H)]; auto. exfalso. apply NR. apply in_roots.
        exists i. split; [cbn; rewrite in_sort_ids; auto | apply has_rt_of; auto].
      * apply in_roots in HR. destruct HR as (j & Hj & H). apply TR in Hj. destruct Hj as (Hj & NJ). apply rt_of_has in H.
        destruct (ts_4 _ _ _ _ _ _ T j Hj NJ) as (r' & H' & L0 & _). assert (r = r') by (eapply has_rt_unique; eauto). congruence.
    + intros L0. destruct (in_dec N.eq_dec r (live a)) as [L | NL].
      * left. split; auto. intros HR. apply in_roots in HR. destruct HR as (i & Hi & H). cbn in Hi. rewrite in_sort_ids in Hi.
        apply rt_of_has in H. apply (ts_1 _ _ _ _ _ _ T i r Hi H L0).
      * right. destruct (ts_3 _ _ _ _ _ _ T r L0 NL) as (j & Hj & NJ & H). apply in_roots. exists j. split; [apply TR; auto | apply has_rt_of; auto].
Qed.



Lemma eff_app_assoc e1 e2 e3 : eff_app (eff_app e1 e2) e3 = eff_app e1 (eff_app e2 e3).
Proof. unfold eff_app. cbn. rewrite !app_assoc. reflexivity. Qed.
Lemma eff_app_0_r e : eff_app e eff0 = e.
Proof. destruct e. unfold eff_app. cbn. rewrite !app_nil_r. reflexivity. Qed.
Lemma eff_app_0_l e : eff_app eff0 e = e.
Proof. destruct e. reflexivity. Qed.

Lemma TS_calls X a0 nx0 us rs cs : forall a nx e1 e, TS X a0 nx0 a nx (eff_app e1 e) ->
  exists a' nx' e', fold_left (fun acc c => let '(s1, e1) := acc in let '(s2, e2) := do_call s1 c in (s2, eff_app e1 e2)) cs (conc a nx us rs, e)
                    = (conc a' nx' us rs, e') /\ TS X a0 nx0 a' nx' (eff_app e1 e').
Proof.
  induction cs as [| c r IH]; intros a nx e1 e T; cbn [fold_left].
  - eauto.
  - destruct (TS_do_call X a0 nx0 a nx (eff_app e1 e) us rs c T) as (a' & nx' & e2 & EQ & T'). rewrite EQ.
    apply IH. rewrite <- eff_app_assoc. auto.
Qed.
Lemma TS_txns X a0 nx0 us rs txns : forall a nx e, TS X a0 nx0 a nx e ->
  exists a' nx' e', fold_left (fun acc cs => let '(s1, e1) := acc in let '(s2, e2) := do_txn s1 cs in (s2, eff_app e1 e2)) txns (conc a nx us rs, e)
                    = (conc a' nx' us rs, e') /\ TS X a0 nx0 a' nx' e'.
Proof.
  induction txns as [| cs r IH]; intros a nx e T; cbn [fold_left].
  - eauto.
  - unfold do_txn. destruct (TS_calls X a0 nx0 us rs cs a nx e eff0) as (a' & nx' & e2 & EQ & T'); [rewrite eff_app_0_r; auto |].
    rewrite EQ. apply IH. auto.
Qed.

Lemma tracked_step_spec a nx us rs txns : WF a nx ->
  exists a' nx' e, TS [] a nx a' nx' e /\
    tracked_step (conc a nx us rs) txns =
    if eff_empty e then conc a' nx' us rs else conc a' nx' (entry_of_eff e :: us) [].
Proof.
  intros W. destruct (TS_txns [] a nx us rs txns a nx eff0 (TS_init a nx W)) as (a' & nx' & e & EQ & T).
  exists a', nx', e. split; auto. unfold tracked_step. rewrite EQ. destruct (eff_empty e); reflexivity.
Qed.

Lemma eff_empty_true e : eff_empty e = true -> e_ins e = [] /\ e_del e = [].
Proof. unfold eff_empty. destruct (e_ins e), (e_del e); try discriminate; auto. Qed.

(* an effect-free transaction leaves the live set unchanged *)
Lemma TS_empty_live X a0 nx0 a nx e : TS X a0 nx0 a nx e -> e_ins e = [] -> e_del e = [] -> seteq (live a) (live a0).
Proof.
  intros T E1 E2 r. split.
  - intros H. destruct (ts_2 _ _ _ _ _ _ T r H) as [H' | (i & Hi & _)]; auto. rewrite E1 in Hi. destruct Hi.
  - intros H. destruct (in_dec N.eq_dec r (live a)) as [I | NI]; auto.
    destruct (ts_3 _ _ _ _ _ _ T r H NI) as (j & Hj & _). rewrite E2 in Hj. destruct Hj.
Qed.

(* ---- the invariant of the run ---- *)
Definition INV (s : ustate) (m : mirror) : Prop :=
  exists a nx us rs, s = conc a nx us rs /\ WF a nx /\ STK a nx (us ++ rs) /\
    rev (mu m) = map (render a) (ulist a us (live a)) /\
    rev (mr m) = map (render a) (rlist a rs (live a)) /\
    (forall S, In S (ulist a us (live a) ++ rlist a rs (live a)) -> kex a S).

Lemma tok_list_eqb_refl l : tok_list_eqb l l = true.
Proof. unfold tok_list_eqb. destruct (list_eq_dec N.eq_dec l l); auto. Qed.
Lemma entries_eqb_refl l : entries_eqb l l = true.
Proof. induction l as [| [k v] r IH]; cbn; auto. rewrite !N.eqb_refl, IH. reflexivity. Qed.
Lemma cont_eqb_refl c : cont_eqb c c = true.
Proof. unfold cont_eqb. rewrite tok_list_eqb_refl, entries_eqb_refl. reflexivity. Qed.
Lemma entries_eqb_eq l l' : entries_eqb l l' = true -> l = l'.
Proof.
  revert l'. induction l as [| [k v] r IH]; intros [| [k' v'] r']; cbn; try discriminate; auto.
  intros H. apply andb_true_iff in H. destruct H as (H & H3). apply andb_true_iff in H. destruct H as (H1 & H2).
  apply N.eqb_eq in H1, H2. subst. f_equal. auto.
Qed.
Lemma cont_eqb_eq c c' : cont_eqb c c' = true -> c = c'.
Proof.
  destruct c as [a b], c' as [a' b']. unfold cont_eqb. cbn. intros H. apply andb_true_iff in H. destruct H as (H1 & H2).
  apply entries_eqb_eq in H2. unfold tok_list_eqb in H1. destruct (list_eq_dec N.eq_dec a a'); [| discriminate]. congruence.
Qed.

Lemma inv_init : INV ustate0 mirror0.
Proof.
  exists {| a_seq := []; a_map := [] |}, 0, [], []. split; [reflexivity |]. split.
  - constructor; cbn; try (intros; contradiction); try constructor; try (intros; contradiction).
  - split; [split; [intros E [] | exact I] |]. cbn. split; [reflexivity |]. split; [reflexivity |].
    intros S [<- | []]. intros k x y [].
Qed.

Lemma Forall2_in_l {X Y} (R : X -> Y -> Prop) l l' x : Forall2 R l l' -> In x l -> exists y, In y l' /\ R x y.
Proof.
  induction 1; intros H'; [destruct H' |]. destruct H' as [<- | H']; [eexists; split; [left; reflexivity | auto] |].
  destruct (IHForall2 H') as (y' & A & B). exists y'. split; [right; auto | auto].
Qed.
Lemma Forall2_app {X Y} (R : X -> Y -> Prop) l1 l1' l2 l2' : Forall2 R l1 l1' -> Forall2 R l2 l2' -> Forall2 R (l1 ++ l2) (l1' ++ l2').
Proof. induction 1; cbn; auto. Qed.
Lemma bounded_seteq nx S S' : seteq S' S -> bounded nx S -> bounded nx S'.
Proof. intros H B r Hr. apply B. apply H. auto. Qed.

Lemma sets_transport X a nx a' nx' us rs S S' : WF a nx -> WF a' nx' -> AX X a nx a' nx' ->
  (forall E i, In E (us ++ rs) -> In i (st_ins E) \/ In i (st_del E) -> i < nx) ->
  seteq S' S -> bounded nx S ->
  map (render a') (ulist a' us S') = map (render a) (ulist a us S) /\
  map (render a') (rlist a' rs S') = map (render a) (rlist a rs S) /\
  ((forall T, In T (ulist a us S ++ rlist a rs S) -> kex a T) -> (forall T, In T (ulist a' us S' ++ rlist a' rs S') -> kex a' T)).
Proof.
  intros W W' A HL SE B. pose proof (bounded_seteq _ _ _ SE B) as B'.
  rewrite (ulist_stable X a nx a' nx') by (auto; intros; eapply HL; eauto; apply in_or_app; auto).
  rewrite (rlist_stable X a nx a' nx') by (auto; intros; eapply HL; eauto; apply in_or_app; auto).
  split; [| split].
  - rewrite (map_render_stable X a nx a' nx') by (auto; intros; eapply ulist_bounded; eauto).
    apply map_render_seteq. apply ulist_seteq; auto.
  - rewrite (map_render_stable X a nx a' nx') by (auto; intros; eapply rlist_bounded; eauto).
    apply map_render_seteq. apply rlist_seteq; auto.
  - intros K T HT.
    assert (F2 : Forall2 seteq (ulist a us S' ++ rlist a rs S') (ulist a us S ++ rlist a rs S)) by (apply Forall2_app; [apply ulist_seteq | apply rlist_seteq]; auto).
    destruct (Forall2_in_l _ _ _ _ F2 HT) as (T0 & HT0 & SE0).
    eapply kex_stable; eauto.
    + apply in_app_or in HT. destruct HT as [HT | HT]; [eapply ulist_bounded | eapply rlist_bounded]; eauto.
    + eapply kex_seteq; [apply seteq_sym; eauto | auto].
Qed.

Lemma STK_lt a nx stk : STK a nx stk -> forall E i, In E stk -> In i (st_ins E) \/ In i (st_del E) -> i < nx.
Proof. intros (H & _) E i HE Hi. apply (eo_lt _ _ _ (H E HE)); auto. Qed.

Lemma STK_stable X a nx a' nx' stk : WF a nx -> WF a' nx' -> AX X a nx a' nx' ->
  (forall E j, In E stk -> In j (st_del E) -> ~ In j X) -> STK a nx stk -> STK a' nx' stk.
Proof.
  intros W W' A NX (H & PD). split; auto. intros E HE. apply (ent_ok_stable X a nx a' nx' E W W' A); auto. intros j Hj. apply (NX E j); auto.
Qed.

Lemma mu_length us m a S0 : rev (mu m) = map (render a) (ulist a us S0) -> length (mu m) = Datatypes.S (length us).
Proof. intros H. rewrite <- rev_length, H, map_length, ulist_length. reflexivity. Qed.
Lemma mr_length rs m a S0 : rev (mr m) = map (render a) (rlist a rs S0) -> length (mr m) = length rs.
Proof. intros H. rewrite <- rev_length, H, map_length, rlist_length. reflexivity. Qed.

Lemma inv_step_astep s m txns : INV s m -> exists s' m', mirror_step s m (AStep txns) = Some (s', m') /\ INV s' m'.
Proof.
  intros (a & nx & us & rs & -> & W & ST & MU & MR & KX).
  destruct (tracked_step_spec a nx us rs txns W) as (a' & nx' & e & T & EQ).
  pose proof (ts_wf _ _ _ _ _ _ T) as W'. pose proof (ts_ax _ _ _ _ _ _ T) as A.
  pose proof (mu_length _ _ _ _ MU) as LU.
  unfold mirror_step. cbn [uact]. rewrite EQ.
  destruct (eff_empty e) eqn:EE.
  - (* nothing captured *)
    apply eff_empty_true in EE. destruct EE as (E1 & E2).
    pose proof (TS_empty_live _ _ _ _ _ _ T E1 E2) as SE.
    destruct (sets_transport [] a nx a' nx' us rs (live a) (live a') W W' A (STK_lt _ _ _ ST) SE (live_bounded _ _ W)) as (TU & TR & TK).
    cbn [ustack rstack conc]. rewrite Nat.eqb_refl.
    assert (Nat.eqb (length us) (Datatypes.S (length us)) = false) as -> by (apply Nat.eqb_neq; lia).
    assert (CE : cont (conc a' nx' us rs) = cont (conc a nx us rs)).
    { rewrite !(cont_render _ _ _ _ W'), !(cont_render _ _ _ _ W) by auto.
      rewrite (render_seteq a' _ _ SE). apply (ax_render _ _ _ _ _ A). apply live_bounded; auto. }
    rewrite CE, cont_eqb_refl. eexists _, _. split; [reflexivity |].
    exists a', nx', us, rs. split; [reflexivity |]. split; auto. split.
    + apply (STK_stable [] a nx a' nx' _ W W' A); auto.
    + rewrite TU, TR. auto.
  - (* a new entry *)
    cbn [ustack rstack conc length]. rewrite Nat.eqb_refl. cbn [Nat.eqb].
    eexists _, _. split; [reflexivity |].
    destruct (TS_entry _ _ _ _ _ _ T) as (EO & TA).
    destruct (sets_transport [] a nx a' nx' us rs (live a) (tau a' (entry_of_eff e) (live a')) W W' A (STK_lt _ _ _ ST) TA (live_bounded _ _ W)) as (TU & TR & TK).
    exists a', nx', (entry_of_eff e :: us), []. cbn [mu mr]. split; [reflexivity |]. split; auto. split; [| split; [| split]].
    + rewrite app_nil_r. destruct ST as (SO & PD). split.
      * intros E [<- | HE]; auto. apply (ent_ok_stable [] a nx a' nx' E W W' A); [intros j _ [] | apply SO; apply in_or_app; auto].
      * cbn. apply pdisj_app in PD. destruct PD as (PD & _ & _). split; auto.
        intros F i HF Hi Hi'. cbn in Hi. rewrite in_sort_ids in Hi.
        assert (OF : ent_ok a nx F) by (apply SO; apply in_or_app; auto).
        destruct (eo_dh _ _ _ OF i Hi') as (r & HD).
        destruct (in_dec N.eq_dec i (e_ins e)) as [I | NI].
        -- apply (ts_in _ _ _ _ _ _ T) in I. assert (i < nx) by (apply (eo_lt _ _ _ OF); auto). lia.
        -- destruct (ts_4 _ _ _ _ _ _ T i Hi NI) as (r' & HR & L0 & _).
           assert (r' = r).
           { pose proof (ax_rt _ _ _ _ _ A i r (is_head_has_rt _ _ _ _ HD)). eapply has_rt_unique; eauto. apply (wf_nodup _ _ W'). }
           subst r'. apply (live_is_head _ _ _ W) in L0. destruct L0 as (h & HL).
           destruct (is_head_unique_root _ _ _ _ _ _ _ W HD HL). discriminate.
    + rewrite firstn_all2 by lia. rewrite rev_app_distr. cbn [rev app ulist map]. rewrite MU, TU.
      rewrite (cont_render _ _ _ _ W'). reflexivity.
    + reflexivity.
    + intros S0 HS0. rewrite app_nil_r in HS0. cbn [ulist] in HS0. destruct HS0 as [<- | HS0].
      * apply (kex_live _ _ W').
      * apply TK; auto. apply in_or_app; auto.
Qed.



(* ---- the walk to the right succeeds ---- *)
Lemma right_of_app_notin p l i : ~ In i (ids p) -> right_of (p ++ l) i = right_of l i.
Proof.
  induction p as [| y r IH]; cbn; intros H; auto. destruct (u_id y =? i) eqn:E.
  - apply N.eqb_eq in E. exfalso. apply H. left; auto.
  - apply IH. intros F. apply H. right; auto.
Qed.
Lemma right_of_cchain l1 xc z t : NoDup (aids (l1 ++ xc :: z :: t)) ->
  right_of (cchain (l1 ++ xc :: z :: t)) (a_id xc) = Some (cunit z (next_same (a_rt z) t)).
Proof.
  intros ND. destruct (cchain_suffix l1 (xc :: z :: t)) as (p & -> & EP).
  rewrite right_of_app_notin.
  - cbn [cchain right_of]. rewrite u_id_mk, N.eqb_refl. reflexivity.
  - rewrite EP. rewrite map_app in ND. intros F. apply (nodup_app_disj _ _ (a_id xc) ND); auto. left; auto.
Qed.
Lemma right_of_cchain_last l1 xc : NoDup (aids (l1 ++ [xc])) -> right_of (cchain (l1 ++ [xc])) (a_id xc) = None.
Proof.
  intros ND. destruct (cchain_suffix l1 [xc]) as (p & -> & EP).
  rewrite right_of_app_notin.
  - cbn [cchain right_of]. rewrite u_id_mk, N.eqb_refl. reflexivity.
  - rewrite EP. rewrite map_app in ND. intros F. apply (nodup_app_disj _ _ (a_id xc) ND); auto. left; auto.
Qed.

Lemma follow_in_cchain c l1 x l2 w : NoDup (aids c) -> c = l1 ++ x :: l2 -> lastu (a_rt x) (x :: l2) = Some w ->
  ufollow (S (length (cchain c))) (cchain c) (a_id x) = Some (cunit w None).
Proof.
  intros ND E LU. eapply (follow_chain (cchain c) c); [| reflexivity | exact E | exact LU |].
  - intros y Hy. apply ufind_nodup; auto. rewrite cchain_ids. auto.
  - rewrite cchain_length, E, app_length. cbn. lia.
Qed.

Lemma passable_dead td s1 s2 y : u_del y = true -> passable td s1 s2 y = true.
Proof. intros H. unfold passable. rewrite H. destruct (u_red y); reflexivity. Qed.
Lemma passable_td td s1 s2 y : In (u_id y) td -> passable td s1 s2 y = true.
Proof.
  intros H. unfold passable. apply umem_iff in H. rewrite H. destruct (u_red y), (u_del y); reflexivity.
Qed.

Lemma lastu_some_of r x t : a_rt x = r -> exists w, lastu r (x :: t) = Some w.
Proof. intros E. cbn. destruct (lastu r t); eauto. rewrite E, N.eqb_refl. eauto. Qed.

Lemma walk_all_dead c td s1 s2 : NoDup (aids c) -> (forall z, In z c -> a_del z = true) ->
  forall n l1 xc l2, length l2 = n -> c = l1 ++ xc :: l2 ->
  forall f, (n < f)%nat -> walk_right f (cchain c) (a_id xc) td s1 s2 = true.
Proof.
  intros ND DEAD n. induction n as [n IH] using lt_wf_ind. intros l1 xc l2 Ln EC f Lf.
  destruct f as [| f]; [lia |]. cbn [walk_right].
  destruct l2 as [| z t].
  - rewrite EC, right_of_cchain_last; auto. rewrite <- EC; auto.
  - rewrite EC at 1. rewrite right_of_cchain by (rewrite <- EC; auto).
    rewrite passable_dead by (rewrite u_del_cunit; apply DEAD; rewrite EC; apply in_or_app; right; right; left; auto).
    rewrite u_id_cunit.
    destruct (lastu_some_of (a_rt z) z t eq_refl) as (w & LU).
    rewrite (follow_in_cchain c (l1 ++ [xc]) z t w ND) by (auto; rewrite EC, <- app_assoc; reflexivity).
    rewrite u_id_cunit.
    destruct (lastu_split _ _ _ LU) as (m1 & m2 & EM & _ & _).
    assert (Lm : (length m2 < n)%nat).
    { rewrite <- Ln. cbn [length]. assert (length (z :: t) = length (m1 ++ w :: m2)) by congruence.
      rewrite app_length in H. cbn [length] in H. lia. }
    apply (IH (length m2) Lm ((l1 ++ [xc]) ++ m1) w m2 eq_refl).
    + rewrite EC, <- !app_assoc. cbn [app]. rewrite EM. reflexivity.
    + lia.
Qed.

Lemma incr_app_lt l1 l2 : incr (l1 ++ l2) -> forall i j, In i l1 -> In j l2 -> i < j.
Proof.
  induction l1 as [| x t IH]; cbn; intros H i j Hi Hj; [destruct Hi |]. destruct H as (A & B).
  destruct Hi as [<- | Hi]; [apply A; apply in_or_app; auto | eapply IH; eauto].
Qed.
Lemma incr_app_r l1 l2 : incr (l1 ++ l2) -> incr l2.
Proof. induction l1 as [| x t IH]; cbn; auto. intros (_ & B). auto. Qed.

Lemma walk_caseB c td s1 s2 c0 w Nm : NoDup (aids c) -> incr (aids c) -> c = c0 ++ [w] ->
  In Nm c -> a_rt Nm = a_rt w -> In (a_id Nm) td ->
  forall l2 l1 xc, c = l1 ++ xc :: l2 -> In Nm l2 ->
  (forall z, In z l2 -> a_id z < a_id Nm -> In (a_id z) td /\ lastu (a_rt z) c = Some z) ->
  forall f, (length l2 < f)%nat -> walk_right f (cchain c) (a_id xc) td s1 s2 = true.
Proof.
  intros ND INC EC HN RN TN. induction l2 as [| z t IH]; intros l1 xc E1 HNm H3 f Lf; [destruct HNm |].
  destruct f as [| f]; [cbn in Lf; lia |]. cbn [walk_right].
  rewrite E1 at 1. rewrite right_of_cchain by (rewrite <- E1; auto). rewrite u_id_cunit.
  assert (LW : lastu (a_rt w) c = Some w).
  { rewrite EC, lastu_app. cbn [lastu]. rewrite N.eqb_refl. reflexivity. }
  destruct (N.eq_dec (a_id z) (a_id Nm)) as [EZ | NZ].
  - assert (z = Nm) as ->.
    { eapply (nodup_map_unique a_id); eauto. rewrite E1. apply in_or_app; right; right; left; auto. }
    rewrite passable_td by (rewrite u_id_cunit; auto).
    assert (LU : lastu (a_rt Nm) (Nm :: t) = Some w).
    { rewrite RN. rewrite E1 in LW. rewrite <- RN in LW. change (l1 ++ xc :: Nm :: t) with (l1 ++ [xc] ++ Nm :: t) in LW.
      rewrite app_assoc, lastu_app in LW. destruct (lastu_some_of (a_rt Nm) Nm t eq_refl) as (w' & LU'). rewrite LU' in LW. rewrite <- RN. congruence. }
    rewrite (follow_in_cchain c (l1 ++ [xc]) Nm t w ND) by (auto; rewrite E1, <- app_assoc; reflexivity).
    rewrite u_id_cunit. destruct f as [| f]; [cbn in Lf; lia |]. cbn [walk_right].
    rewrite EC, right_of_cchain_last; auto. rewrite <- EC; auto.
  - assert (LZ : a_id z < a_id Nm).
    { destruct HNm as [<- | HNm]; [contradiction |].
      rewrite E1 in INC. rewrite map_app in INC. apply incr_app_r in INC. cbn in INC. destruct INC as (_ & INC & _).
      apply INC. apply in_map; auto. }
    destruct (H3 z (or_introl eq_refl) LZ) as (TZ & LUZ).
    rewrite passable_td by (rewrite u_id_cunit; auto).
    assert (LU : lastu (a_rt z) (z :: t) = Some z).
    { rewrite E1 in LUZ. change (l1 ++ xc :: z :: t) with (l1 ++ [xc] ++ z :: t) in LUZ.
      rewrite app_assoc, lastu_app in LUZ. destruct (lastu_some_of (a_rt z) z t eq_refl) as (w' & LU'). rewrite LU' in LUZ. congruence. }
    rewrite (follow_in_cchain c (l1 ++ [xc]) z t z ND) by (auto; rewrite E1, <- app_assoc; reflexivity).
    rewrite u_id_cunit. apply (IH (l1 ++ [xc]) z).
    + rewrite E1, <- app_assoc. reflexivity.
    + destruct HNm as [<- | HNm]; [contradiction | auto].
    + intros z' Hz' L'. apply H3; auto. right; auto.
    + cbn in Lf. lia.
Qed.

Lemma walk_ok a nx E k l1 x l2 s1 s2 :
  let c := l1 ++ x :: l2 in
  WF a nx -> ent_ok a nx E -> kex a (tau a E (live a)) -> In (k, c) (a_map a) ->
  In (a_id x) (to_redo_of E) -> a_del x = true -> (forall z, In z l2 -> a_rt z <> a_rt x) ->
  walk_right (S (length (cchain c))) (cchain c) (a_id x) (st_ins E) s1 s2 = true.
Proof.
  intros c W EO KX Hc HX DX HL.
  pose proof (wf_keys _ _ W) as NK. pose proof (wf_nodup _ _ W) as ND.
  assert (NDc : NoDup (aids c)) by (eapply nodup_chain_in; [apply nodup_map_ids; eauto | eauto]).
  pose proof (wf_incr _ _ W k c Hc) as INC.
  pose proof (achain_of_in _ _ _ NK Hc) as ECH.
  destruct (list_last_case c) as [EN | (c0 & w & EC)]; [unfold c in EN; destruct l1; discriminate |].
  destruct (a_del w) eqn:DW.
  - (* everything is dead *)
    apply (walk_all_dead c _ s1 s2 NDc) with (n := length l2) (l1 := l1) (l2 := l2); auto.
    + intros z Hz. rewrite EC in Hz. apply in_app_or in Hz. destruct Hz as [Hz | [<- | []]]; auto.
      apply in_split in Hz. destruct Hz as (m1 & m2 & ->).
      apply (wf_clive _ _ W k c m1 z (m2 ++ [w]) Hc); [rewrite EC, <- app_assoc; reflexivity | destruct m2; discriminate].
    + rewrite cchain_length. unfold c. rewrite app_length. cbn. lia.
  - (* the last unit is live: its lineage was inserted by the step that is being undone *)
    assert (Hw : In w c) by (rewrite EC; apply in_or_app; right; left; auto).
    assert (Hx : In x c) by (unfold c; apply in_or_app; right; left; auto).
    assert (Lq : In (a_rt w) (live a)) by (apply in_live; right; exists w; split; [apply in_aunits; eauto | auto]).
    assert (Rx : has_rt a (a_id x) (a_rt x)) by (right; exists x; split; [apply in_aunits; eauto | auto]).
    assert (Q : In (a_rt w) (roots a (st_ins E))).
    { destruct (in_dec N.eq_dec (a_rt w) (roots a (st_ins E))) as [I | NI]; auto. exfalso.
      assert (E1 : a_rt w = a_rt x).
      { apply (KX k); try (rewrite ECH; auto).
        - apply in_tau. left. auto.
        - apply in_tau. right. apply in_roots. exists (a_id x). split; auto. apply has_rt_of; auto. }
      unfold c in EC. destruct (list_last_case l2) as [-> | (l2' & w' & ->)].
      - apply app_inj_tail in EC. destruct EC as (_ & ->). congruence.
      - rewrite app_comm_cons, app_assoc in EC. apply app_inj_tail in EC. destruct EC as (_ & ->).
        apply (HL w); auto. apply in_or_app; right; left; auto. }
    apply in_roots in Q. destruct Q as (i & Hi & Ri). apply rt_of_has in Ri.
    assert (exists Nm, In Nm c /\ a_id Nm = i /\ a_rt Nm = a_rt w) as (Nm & HN & EN & RN).
    { destruct Ri as [(b & Hb & _ & R) | (y & Hy & EI & R)].
      - exfalso. apply (wf_rsm _ _ W b w Hb); auto. apply in_aunits; eauto.
      - apply in_aunits in Hy. destruct Hy as (k' & c' & Hc' & Hy).
        assert (k' = k) as -> by (apply (wf_rmap _ _ W k' c' k c y w); auto).
        assert (c' = c) as -> by (rewrite <- (achain_of_in _ _ _ NK Hc'); auto). eauto. }
    assert (IXc : In (a_id x) (aids (achain_of (a_map a) k))) by (rewrite ECH; apply in_map; auto).
    assert (INc : In i (aids (achain_of (a_map a) k))) by (rewrite ECH, <- EN; apply in_map; auto).
    destruct (eo_pos _ _ _ EO (a_id x) k i HX IXc Hi INc) as (N1 & N2 & _).
    assert (HN2 : In Nm l2).
    { unfold c in HN, INC. apply in_app_or in HN. destruct HN as [HN | [<- | HN]]; auto.
      - rewrite map_app in INC. cbn [map] in INC. pose proof (incr_app_lt _ _ INC (a_id Nm) (a_id x) (in_map a_id _ _ HN) (or_introl eq_refl)). lia.
      - lia. }
    apply (walk_caseB c _ s1 s2 c0 w Nm NDc INC EC HN RN) with (l1 := l1) (l2 := l2); auto; [rewrite EN; auto | |].
    + intros z Hz LZ.
      assert (LXZ : a_id x < a_id z).
      { unfold c in INC. rewrite map_app in INC. apply incr_app_r in INC. cbn in INC. destruct INC as (INC & _). apply INC. apply in_map; auto. }
      assert (Hzc : In z c) by (unfold c; apply in_or_app; right; right; auto).
      assert (IZc : In (a_id z) (aids (achain_of (a_map a) k))) by (rewrite ECH; apply in_map; auto).
      assert (TZ : In (a_id z) (st_ins E)) by (apply N2; auto; lia).
      split; auto.
      destruct (eo_pos _ _ _ EO (a_id x) k (a_id z) HX IXc TZ IZc) as (_ & _ & N3).
      assert (DZ : In (a_id z) (st_del E)) by (apply (N3 i); auto; lia).
      destruct (eo_dh _ _ _ EO _ DZ) as (r & [(b & Hb & EB & _) | (k' & c' & Hc' & CH)]).
      * exfalso. apply (nodup_app_disj _ _ (a_id z) ND); [apply in_seq_ids; exists b; split; auto; left; auto |].
        apply in_map. apply in_aunits; eauto.
      * pose proof (chain_head_in _ _ _ _ CH) as (z' & Hz' & EZ' & _).
        assert (k = k') as <- by (eapply (chain_of_id a k' c' (a_id z)); eauto; rewrite <- EZ'; apply in_map; auto).
        assert (c' = c) as -> by (rewrite <- (achain_of_in _ _ _ NK Hc'); auto).
        apply chain_head_lastu in CH. destruct CH as (z'' & LU & EZ'' & _).
        pose proof (lastu_in _ _ _ LU) as (Hz'' & RZ'').
        assert (z'' = z) as -> by (eapply (nodup_map_unique a_id); eauto). rewrite RZ''. exact LU.
    + rewrite cchain_length. unfold c. rewrite app_length. cbn. lia.
Qed.



(* ---- the deletion phase of uprocess ---- *)
Lemma live_head_dec a nx h : WF a nx -> {exists r, is_head a h r true} + {forall r, ~ is_head a h r true}.
Proof.
  intros W. destruct (in_dec N.eq_dec h (live_ids (conc a nx [] []))) as [I | NI].
  - left. apply live_ids_iff in I. apply (livein_conc _ _ _ _ _ W) in I. exact I.
  - right. intros r H. apply NI. apply live_ids_iff. apply (livein_conc _ _ _ _ _ W). eauto.
Qed.

Lemma kill_fold X a0 nx0 us rs L : forall at_ nt et, TS X a0 nx0 at_ nt et ->
  exists at', fold_left delete_id L (conc at_ nt us rs) = conc at' nt us rs /\
    (forall e', (forall i, In i (e_ins e') <-> In i (e_ins et)) ->
                (forall i, In i (e_del e') <-> In i (e_del et) \/ (In i L /\ exists r, is_head at_ i r true)) -> TS X a0 nx0 at' nt e') /\
    (forall r, In r (live at') <-> In r (live at_) /\ forall h, In h L -> ~ is_head at_ h r true) /\
    (forall h r lv, is_head at_ h r lv -> exists lv', is_head at' h r lv').
Proof.
  induction L as [| h L IH]; intros at_ nt et T; cbn [fold_left].
  - exists at_. split; auto. split; [| split].
    + intros e' EI ED. eapply TS_eff_equiv; eauto. intros i. rewrite ED. split; [intros [H | ([] & _)]; auto | auto].
    + intros r. split; [intros H; split; auto; intros h [] | tauto].
    + eauto.
  - pose proof (ts_wf _ _ _ _ _ _ T) as W. rewrite conc_delete_id by apply (wf_nodup _ _ W).
    destruct (live_head_dec at_ nt h W) as [(rh & HH) | NH].
    + assert (T1 : TS X a0 nx0 (akill_id at_ h) nt {| e_ins := e_ins et; e_del := e_del et ++ [h] |}).
      { eapply TS_kill; eauto; intros i; cbn; [tauto | rewrite in_app_iff; cbn; intuition]. }
      destruct (IH _ _ _ T1) as (at' & EQ & TE & LV & HD). exists at'. split; auto. split; [| split].
      * intros e' EI ED. apply TE; auto. intros i. rewrite ED. cbn [e_del]. rewrite in_app_iff. cbn [In]. split.
        -- intros [H | ([<- | H] & (r & H'))]; auto. destruct (N.eq_dec i h) as [-> | NE]; auto.
           right. split; auto. exists r. apply is_head_kill. left. auto.
        -- intros [[H | [<- | []]] | (H & (r & H'))]; auto; [right; split; eauto |].
           apply is_head_kill in H'. destruct H' as [(H' & _) | (_ & F & _)]; [| discriminate]. right. split; eauto.
      * intros r. rewrite LV, (kill_live _ _ _ _ W HH). split.
        -- intros ((Lr & NE) & K). split; auto. intros h' [<- | Hh'] F.
           ++ destruct (is_head_unique_id _ _ _ _ _ _ _ W HH F). congruence.
           ++ apply (K h' Hh'). apply is_head_kill. left. split; auto. intros ->.
              destruct (is_head_unique_id _ _ _ _ _ _ _ W HH F). congruence.
        -- intros (Lr & K). split; [split; auto |].
           ++ intros ->. apply (K h); [left; auto | auto].
           ++ intros h' Hh' F. apply is_head_kill in F. destruct F as [(F & _) | (_ & F & _)]; [| discriminate].
              apply (K h'); [right; auto | auto].
      * intros h' r lv H. destruct (N.eq_dec h' h) as [-> | NE].
        -- apply (HD h r false). apply is_head_kill. right. eauto.
        -- apply (HD h' r lv). apply is_head_kill. left. auto.
    + rewrite (akill_noop _ _ _ W NH). destruct (IH _ _ _ T) as (at' & EQ & TE & LV & HD). exists at'. split; auto. split; [| split]; auto.
      * intros e' EI ED. apply TE; auto. intros i. rewrite ED. cbn [In]. split.
        -- intros [H | ([<- | H] & (r & H'))]; auto; [destruct (NH _ H') | right; eauto].
        -- intros [H | (H & H')]; auto.
      * intros r. rewrite LV. split.
        -- intros (Lr & K). split; auto. intros h' [<- | Hh']; auto.
        -- intros (Lr & K). split; auto. intros h' Hh'. apply K. right; auto.
Qed.

(* the ids uprocess deletes: the live heads of the lineages of the tracked insertions *)
Lemma ufollow_unknown f items i : ~ In i (ids items) -> ufollow f items i = None.
Proof.
  intros H. destruct f; cbn; auto. destruct (ufind items i) as [y |] eqn:E; auto.
  apply ufind_in in E. destruct E as (A & B). exfalso. apply H. rewrite <- B. apply in_map; auto.
Qed.
Lemma to_delete_spec a nx us rs l h : WF a nx ->
  (In h (flat_map (fun i => match ufollow (S (length (all_items (conc a nx us rs)))) (all_items (conc a nx us rs)) i with
                            | Some y => if u_del y then [] else [u_id y]
                            | None => []
                            end) l) <->
   exists i r, In i l /\ has_rt a i r /\ is_head a h r true).
Proof.
  intros W. rewrite in_flat_map. split.
  - intros (i & Hi & H). destruct (rt_of a i) as [r |] eqn:R.
    + apply rt_of_has in R. destruct (follow_conc a nx us rs i r (wf_nodup _ _ W) R) as (h' & lv & w & HH & F & E1 & E2).
      rewrite F, E2 in H. destruct lv; cbn in H; [| destruct H]. destruct H as [<- | []]. exists i, r. rewrite E1. auto.
    + rewrite ufollow_unknown in H; [destruct H |]. change (ids (all_items (conc a nx us rs))) with (all_ids (conc a nx us rs)).
      rewrite conc_all_ids. apply rt_of_none; auto.
  - intros (i & r & Hi & R & HH). exists i. split; auto.
    destruct (follow_conc a nx us rs i r (wf_nodup _ _ W) R) as (h' & lv & w & HH' & F & E1 & E2).
    destruct (is_head_unique_root _ _ _ _ _ _ _ W HH HH') as (<- & <-). rewrite F, E2. cbn. left; auto.
Qed.

Lemma live_now_iff a nx us rs i : WF a nx ->
  (match ufind (all_items (conc a nx us rs)) i with Some y => negb (u_del y) | None => false end = true <-> exists r, is_head a i r true).
Proof.
  intros W. rewrite <- (livein_conc a nx us rs i W). split.
  - destruct (ufind _ i) as [y |] eqn:E; [| discriminate]. intros H. apply ufind_in in E. destruct E as (A & B).
    exists y. repeat split; auto. apply negb_true_iff; auto.
  - intros (y & A & B & C). rewrite <- B, ufind_conc by (auto; apply (wf_nodup _ _ W)). rewrite C. reflexivity.
Qed.



(* ---- the re-creation phase of uprocess ---- *)
Record PH1 (a : astate) (nx : N) (E : stackitem) (done : list N) (at_ : astate) (nt : N) (et : ueff) : Prop := {
  p1_ts : TS done a nx at_ nt et;
  p1_chain : forall k, (forall j, In j done -> ~ In j (aids (achain_of (a_map a) k))) -> achain_of (a_map at_) k = achain_of (a_map a) k;
  p1_lb : forall r, In r (live a) -> ~ In r (roots a (st_ins E)) -> In r (live at_);
  p1_lc : forall j r, In j done -> has_rt a j r -> In r (live at_);
  p1_hd : forall h r lv, is_head a h r lv -> In r (roots a (st_ins E)) -> exists lv', is_head at_ h r lv';
  p1_ins : forall i r, In i (e_ins et) -> has_rt at_ i r -> exists j, In j done /\ has_rt a j r;
  p1_ne : done = [] \/ e_ins et <> [] }.

Lemma PH1_init a nx E : WF a nx -> PH1 a nx E [] a nx eff0.
Proof.
  intros W. constructor; auto.
  - apply TS_init; auto.
  - intros j r [].
  - eauto.
  - intros i r [].
Qed.

(* facts about an id that is about to be re-created *)
Lemma redo_id_facts a nx E done at_ nt et j :
  WF a nx -> ent_ok a nx E -> PH1 a nx E done at_ nt et -> In j (to_redo_of E) -> ~ In j done ->
  exists r, is_head a j r false /\ is_head at_ j r false /\ ~ In r (live a) /\ ~ In r (live at_) /\
            ~ In r (roots a (st_ins E)) /\ ~ In j (e_del et) /\ j < nx.
Proof.
  intros W EO P HJ ND. pose proof (p1_ts _ _ _ _ _ _ _ P) as T. pose proof (ts_wf _ _ _ _ _ _ T) as Wt.
  pose proof (ts_ax _ _ _ _ _ _ T) as A.
  assert (HD : In j (st_del E)) by (apply in_to_redo in HJ; tauto).
  destruct (eo_dh _ _ _ EO j HD) as (r & H). exists r.
  assert (Ht : is_head at_ j r false) by (destruct (ax_heads _ _ _ _ _ A j r H); [contradiction | auto]).
  assert (NL : ~ In r (live a)).
  { intros F. apply (live_is_head _ _ _ W) in F. destruct F as (h & F). destruct (is_head_unique_root _ _ _ _ _ _ _ W H F). discriminate. }
  assert (NLt : ~ In r (live at_)).
  { intros F. apply (live_is_head _ _ _ Wt) in F. destruct F as (h & F). destruct (is_head_unique_root _ _ _ _ _ _ _ Wt Ht F). discriminate. }
  assert (Lj : j < nx) by (apply (eo_lt _ _ _ EO); auto).
  repeat split; auto.
  - intros F. apply in_roots in F. destruct F as (i & Hi & Ri). apply rt_of_has in Ri.
    apply (eo_d3 _ _ _ EO i j r Hi HJ Ri). eapply is_head_has_rt; eauto.
  - intros F. assert (NI : ~ In j (e_ins et)) by (intros G; apply (ts_in _ _ _ _ _ _ T) in G; lia).
    destruct (ts_4 _ _ _ _ _ _ T j F NI) as (r' & HR & L0 & _).
    assert (r' = r) by (eapply has_rt_unique; [apply (wf_nodup _ _ Wt) | eauto | eapply is_head_has_rt; eauto]). subst. contradiction.
Qed.

Lemma PH1_step_seq a nx E s1 s2 us rs done at_ nt et j r :
  WF a nx -> ent_ok a nx E -> PH1 a nx E done at_ nt et ->
  is_head a j r false -> seq_head (a_seq at_) j r false -> ~ In r (live a) -> ~ In r (live at_) ->
  ~ In r (roots a (st_ins E)) -> ~ In j (e_del et) ->
  exists at' e2, redo_item (conc at_ nt us rs) j (st_ins E) s1 s2 = (conc at' (nt + 1) us rs, true, e2) /\
                 PH1 a nx E (done ++ [j]) at' (nt + 1) (eff_app et e2).
Proof.
  intros W EO P H SH NL NLt NR ND. pose proof (p1_ts _ _ _ _ _ _ _ P) as T. pose proof (ts_wf _ _ _ _ _ _ T) as Wt.
  rewrite (conc_redo_seq at_ nt us rs j _ s1 s2 (wf_nodup _ _ Wt)) by eauto.
  eexists _, _. split; [reflexivity |].
  assert (W' : WF (acopy_seq at_ j nt) (nt + 1)) by (apply WF_acopy_seq; auto; destruct SH as (b & Hb & E1 & _); eauto).
  pose proof (birth_acopy_seq at_ nt j r Wt SH) as B.
  pose proof (birth_live _ _ _ _ _ Wt W' B NLt) as BL.
  assert (T' : TS (done ++ [j]) a nx (acopy_seq at_ j nt) (nt + 1) (eff_app et {| e_ins := [nt]; e_del := [] |})).
  { eapply (TS_birth done [j]); eauto.
    - apply AX_acopy_seq.
    - intros j' [<- | []]; auto.
    - intros i. cbn. rewrite in_app_iff. cbn. intuition.
    - intros i. cbn. rewrite app_nil_r. tauto. }
  destruct B as (BH & BR).
  constructor; auto.
  - intros k HK. cbn [a_map acopy_seq]. apply (p1_chain _ _ _ _ _ _ _ P). intros j' Hj'. apply HK. apply in_or_app; auto.
  - intros r' L NR'. apply BL. left. apply (p1_lb _ _ _ _ _ _ _ P); auto.
  - intros j' r' Hj' HR. apply BL. apply in_app_or in Hj'. destruct Hj' as [Hj' | [<- | []]].
    + left. eapply (p1_lc _ _ _ _ _ _ _ P); eauto.
    + right. eapply has_rt_unique; [apply (wf_nodup _ _ W) | eauto | eapply is_head_has_rt; eauto].
  - intros h r' lv H' R'. destruct (p1_hd _ _ _ _ _ _ _ P h r' lv H' R') as (lv' & H''). exists lv'. apply BH. left. split; auto. intros ->. contradiction.
  - intros i r' Hi HR. cbn in Hi. apply in_app_or in Hi. apply BR in HR. destruct HR as [HR | (-> & ->)].
    + destruct Hi as [Hi | [<- | []]]; [| apply (has_rt_lt _ _ _ _ Wt) in HR; lia].
      destruct (p1_ins _ _ _ _ _ _ _ P i r' Hi HR) as (j' & Hj' & HR'). exists j'. split; auto. apply in_or_app; auto.
    + exists j. split; [apply in_or_app; right; left; auto | eapply is_head_has_rt; eauto].
  - right. cbn. destruct (e_ins et); discriminate.
Qed.

Lemma live_last_in_ins a nx E k c j r h rh :
  WF a nx -> kex a (tau a E (live a)) -> In (k, c) (a_map a) ->
  chain_head c j r false -> In j (to_redo_of E) -> chain_head c h rh true -> In rh (roots a (st_ins E)).
Proof.
  intros W KX Hc CJ HJ CH. destruct (in_dec N.eq_dec rh (roots a (st_ins E))) as [I | NI]; auto. exfalso.
  pose proof (achain_of_in _ _ _ (wf_keys _ _ W) Hc) as EC.
  assert (HJ' : is_head a j r false) by (right; exists k, c; auto).
  assert (HH' : is_head a h rh true) by (right; exists k, c; auto).
  pose proof (chain_head_in _ _ _ _ CJ) as (x & Hx & E1 & R1 & _). pose proof (chain_head_in _ _ _ _ CH) as (w & Hw & E2 & R2 & _).
  assert (EQ : a_rt w = a_rt x).
  { apply (KX k); try (rewrite EC; auto).
    - apply in_tau. left. rewrite R2. split; auto. apply (live_is_head _ _ _ W). eauto.
    - apply in_tau. right. apply in_roots. exists j. split; auto. apply has_rt_of; [apply (wf_nodup _ _ W) |]. rewrite R1. eapply is_head_has_rt; eauto. }
  assert (ERR : rh = r) by congruence. rewrite ERR in HH'. destruct (is_head_unique_root _ _ _ _ _ _ _ W HJ' HH'). discriminate.
Qed.

Lemma achain_akill_opt_in a nx k x : WF a nx -> In x (achain_of (a_map a) k) ->
  exists y, In y (achain_of (a_map (akill_opt a (snd (adel_last (achain_of (a_map a) k))))) k) /\
            a_rt y = a_rt x /\ a_val y = a_val x /\ a_id y = a_id x.
Proof.
  intros W Hx. destruct (snd (adel_last (achain_of (a_map a) k))) as [h |]; cbn [akill_opt]; [| eauto].
  unfold akill_id. cbn [a_map]. rewrite achain_of_map_amark.
  exists (if a_id x =? h then akill x else x). split; [apply in_amark; eauto |]. destruct (a_id x =? h); auto.
Qed.

Lemma PH1_step_map a nx E s1 s2 us rs done at_ nt et j r :
  WF a nx -> ent_ok a nx E -> kex a (tau a E (live a)) -> PH1 a nx E done at_ nt et ->
  In j (to_redo_of E) -> ~ In j done -> (forall j', In j' done -> In j' (to_redo_of E)) ->
  is_head a j r false -> map_head (a_map at_) j r false -> ~ In r (live a) -> ~ In r (live at_) ->
  ~ In r (roots a (st_ins E)) -> ~ In j (e_del et) -> j < nx ->
  exists at' e2, redo_item (conc at_ nt us rs) j (st_ins E) s1 s2 = (conc at' (nt + 1) us rs, true, e2) /\
                 PH1 a nx E (done ++ [j]) at' (nt + 1) (eff_app et e2).
Proof.
  intros W EO KX P HJ NDone DR H MH NL NLt NR ND Lj.
  pose proof (p1_ts _ _ _ _ _ _ _ P) as T. pose proof (ts_wf _ _ _ _ _ _ T) as Wt. pose proof (ts_ax _ _ _ _ _ _ T) as A.
  pose proof (wf_keys _ _ Wt) as NKt. pose proof (wf_nodup _ _ Wt) as NDt.
  destruct MH as (k & c & Hc & CH).
  pose proof (achain_of_in _ _ _ NKt Hc) as ECt.
  pose proof (chain_head_in _ _ _ _ CH) as (x0 & Hx0 & EX0 & RX0 & _).
  (* j lies in the chain of k in a as well *)
  assert (JA : In j (aids (achain_of (a_map a) k))).
  { destruct (ax_ids _ _ _ _ _ A k) as (extra & EQ & EX). rewrite ECt in EQ.
    assert (In j (aids c)) as I by (rewrite <- EX0; apply in_map; auto). rewrite EQ in I. apply in_app_or in I.
    destruct I as [I | I]; auto. apply EX in I. lia. }
  (* no id re-created so far lies in that chain *)
  assert (CA : achain_of (a_map a) k = c).
  { rewrite <- ECt. symmetry. apply (p1_chain _ _ _ _ _ _ _ P). intros j' Hj' F.
    pose proof (DR j' Hj') as TJ'. assert (DJ' : In j' (st_del E)) by (apply in_to_redo in TJ'; tauto).
    destruct (eo_dh _ _ _ EO j' DJ') as (r' & H').
    apply in_map_iff in JA. destruct JA as (y & EY & Hy). apply in_map_iff in F. destruct F as (y' & EY' & Hy').
    assert (KA : In (k, achain_of (a_map a) k) (a_map a)).
    { apply achain_of_some. destruct (in_dec N.eq_dec k (map fst (a_map a))); auto. rewrite achain_of_notin in Hy by auto. destruct Hy. }
    assert (RY : a_rt y = r).
    { eapply has_rt_unique; [apply (wf_nodup _ _ W) | | eapply is_head_has_rt; eauto]. right. exists y. split; auto. apply in_aunits; eauto. }
    assert (RY' : a_rt y' = r').
    { eapply has_rt_unique; [apply (wf_nodup _ _ W) | | eapply is_head_has_rt; eauto]. right. exists y'. split; auto. apply in_aunits; eauto. }
    assert (ERR : r = r').
    { rewrite <- RY, <- RY'. apply (KX k); auto.
      - apply in_tau. right. apply in_roots. exists j. split; auto. apply has_rt_of; [apply (wf_nodup _ _ W) |]. rewrite RY. eapply is_head_has_rt; eauto.
      - apply in_tau. right. apply in_roots. exists j'. split; auto. apply has_rt_of; [apply (wf_nodup _ _ W) |]. rewrite RY'. eapply is_head_has_rt; eauto. }
    assert (H'' : is_head a j' r false) by (rewrite ERR; exact H').
    destruct (is_head_unique_root _ _ _ _ _ _ _ W H H'') as (EJ & _). apply NDone. rewrite EJ. exact Hj'. }
  assert (KA : In (k, c) (a_map a)).
  { rewrite <- CA. apply achain_of_some. destruct (in_dec N.eq_dec k (map fst (a_map a))); auto. rewrite achain_of_notin in JA by auto. destruct JA. }
  destruct CH as (l1 & x & l2 & EC & EX & RX & DX & HL). cbn in DX. subst c.
  (* the walk succeeds *)
  assert (WK : walk_right (S (length (cchain (l1 ++ x :: l2)))) (cchain (l1 ++ x :: l2)) (a_id x) (st_ins E) s1 s2 = true).
  { apply (walk_ok a nx E k l1 x l2 s1 s2); auto; [rewrite EX; auto | intros z Hz; rewrite RX; auto]. }
  destruct (conc_redo_map at_ nt us rs (st_ins E) s1 s2 k l1 x l2 NDt NKt Hc) as (e2 & EQ & EI2 & ED2); auto; [intros z Hz; rewrite RX; auto |].
  rewrite EX in EQ. rewrite EQ. set (c := l1 ++ x :: l2) in *. set (o := snd (adel_last c)) in *.
  set (a1 := akill_opt at_ o) in *. set (cp := copyunit x nt) in *. set (at' := aappend a1 k cp) in *.
  exists at', e2. split; [reflexivity |].
  assert (HO : forall h, o = Some h -> exists rh, is_head at_ h rh true /\ chain_head c h rh true).
  { intros h EO'. unfold o in EO'. rewrite <- ECt in EO'. destruct (adel_last_head at_ nt k h Wt EO') as (rh & A1 & A2). rewrite ECt in A2. eauto. }
  assert (T1 : TS done a nx a1 nt {| e_ins := e_ins et; e_del := e_del et ++ dels o |}).
  { apply (TS_kill_opt done a nx at_ nt et o); auto.
    - intros h EO'. destruct (HO h EO') as (rh & A1 & _). eauto.
    - intros i. cbn. tauto.
    - intros i. cbn. rewrite in_app_iff. tauto. }
  pose proof (ts_wf _ _ _ _ _ _ T1) as W1.
  assert (DEAD1 : forall y, In y (achain_of (a_map a1) k) -> a_del y = true).
  { unfold a1, o. rewrite <- ECt. apply (akill_opt_dead at_ nt k Wt). }
  assert (RT1 : exists y, In y (achain_of (a_map a1) k) /\ a_rt y = a_rt cp /\ a_val y = a_val cp).
  { assert (Hx : In x (achain_of (a_map at_) k)) by (rewrite ECt; unfold c; apply in_or_app; right; left; auto).
    destruct (achain_akill_opt_in at_ nt k x Wt Hx) as (y & Hy & A1 & A2 & _). rewrite ECt in Hy. exists y. auto. }
  assert (W' : WF at' (nt + 1)) by (apply WF_aappend; auto).
  assert (NL1 : ~ In r (live a1)).
  { intros F. apply NLt. unfold a1 in F. destruct o as [h |]; cbn [akill_opt] in F; auto.
    destruct (HO h eq_refl) as (rh & A1 & _). apply (kill_live _ _ _ _ Wt A1) in F. tauto. }
  assert (B : birth a1 nt at' r).
  { rewrite <- RX. apply (birth_aappend a1 nt k cp W1); auto. destruct RT1 as (y & Hy & A1 & _). eauto. }
  pose proof (birth_live _ _ _ _ _ W1 W' B NL1) as BL.
  assert (HJ1 : forall h', is_head a1 h' r false -> h' = j).
  { intros h' F. assert (exists lv0, is_head at_ h' r lv0) as (lv0 & F0).
    { unfold a1 in F. destruct o as [h |]; cbn [akill_opt] in F; [| eauto]. apply is_head_kill in F. destruct F as [(F & _) | (_ & _ & lv0 & F)]; eauto. }
    assert (Ht : is_head at_ j r false).
    { right. exists k, c. split; auto. exists l1, x, l2. repeat split; auto; intros z Hz; rewrite <- RX; auto. }
    destruct (is_head_unique_root _ _ _ _ _ _ _ Wt Ht F0). auto. }
  (* what the integration of the copy deleted *)
  assert (ED : forall i, In i (e_del e2) <-> In i (dels o)).
  { intros i. rewrite ED2. fold c o a1 cp at'. rewrite (livein_conc _ _ _ _ _ Wt), (livein_conc _ _ _ _ _ W'). destruct B as (BH & _). split.
    - intros ((ri & Hi) & NA). destruct o as [h |] eqn:EO'.
      + destruct (N.eq_dec i h) as [-> | NE]; [left; auto |]. exfalso. apply NA. exists ri. apply BH. left. split.
        * unfold a1. cbn [akill_opt]. apply is_head_kill. left. auto.
        * intros ->. apply NLt. apply (live_is_head _ _ _ Wt). eauto.
      + exfalso. apply NA. exists ri. apply BH. left. split; auto. intros ->. apply NLt. apply (live_is_head _ _ _ Wt). eauto.
    - intros Hi. destruct o as [h |] eqn:EO'; [| destruct Hi]. destruct Hi as [<- | []].
      destruct (HO h eq_refl) as (rh & A1 & _). split; [eauto |]. intros (ri & F). apply BH in F.
      destruct F as [(F & _) | (F & _)].
      + unfold a1 in F. cbn [akill_opt] in F. apply is_head_kill in F. destruct F as [(_ & F) | (_ & F & _)]; [contradiction | discriminate].
      + apply is_head_has_rt in A1. apply (has_rt_lt _ _ _ _ Wt) in A1. lia. }
  assert (T' : TS (done ++ [j]) a nx at' (nt + 1) (eff_app et e2)).
  { eapply (TS_birth done [j] a nx a1 nt _ at' r); [apply T1 | auto | | auto | auto | auto | | |].
    - apply AX_aappend; [apply (wf_keys _ _ W1) | reflexivity | right; auto |]. cbn [a_rt cp copyunit]. rewrite RX. intros h' F. left. symmetry. auto.
    - intros j' [<- | []]. cbn [e_del]. intros F. apply in_app_or in F. destruct F as [F | F]; [contradiction |].
      destruct o as [h |] eqn:EO'; [| destruct F]. destruct F as [<- | []].
      destruct (HO h eq_refl) as (rh & A1 & _).
      assert (Ht : is_head at_ h r false) by (right; exists k, c; split; auto; exists l1, x, l2; repeat split; auto; intros z Hz; rewrite <- RX; auto).
      destruct (is_head_unique_id _ _ _ _ _ _ _ Wt A1 Ht). discriminate.
    - intros i. cbn. rewrite EI2, in_app_iff. cbn. intuition.
    - intros i. cbn. rewrite !in_app_iff, ED. tauto. }
  destruct B as (BH & BR).
  assert (EAT : at' = {| a_seq := a_seq at_; a_map := aset_chain (a_map at_) k (fst (adel_last c) ++ [cp]) |}).
  { unfold at', a1, o. rewrite <- ECt. apply aappend_kill_eq; auto. }
  assert (RHI : forall h rh, o = Some h -> is_head at_ h rh true -> In rh (roots a (st_ins E))).
  { intros h rh EO' A1. destruct (HO h EO') as (rh' & A1' & A2). destruct (is_head_unique_id _ _ _ _ _ _ _ Wt A1 A1') as (-> & _).
    apply (live_last_in_ins a nx E k c j r h rh' W KX KA); auto. exists l1, x, l2. repeat split; auto; intros z Hz; rewrite <- RX; auto. }
  assert (LV1 : forall r', In r' (live at_) -> (forall h rh, o = Some h -> is_head at_ h rh true -> r' <> rh) -> In r' (live at')).
  { intros r' L NE. apply BL. left. unfold a1. destruct o as [h |] eqn:EO'; cbn [akill_opt]; auto.
    destruct (HO h eq_refl) as (rh & A1 & _). apply (kill_live _ _ _ _ Wt A1). split; auto. apply (NE h rh); auto. }
  constructor; auto.
  - intros k' HK. assert (k' <> k). { intros ->. apply (HK j); [apply in_or_app; right; left; auto | auto]. }
    rewrite EAT. cbn [a_map]. rewrite achain_of_aset_other by auto. apply (p1_chain _ _ _ _ _ _ _ P). intros j' Hj'. apply HK. apply in_or_app; auto.
  - intros r' L NR'. apply LV1; [apply (p1_lb _ _ _ _ _ _ _ P); auto |]. intros h rh EO' A1 ->. apply NR'. eapply RHI; eauto.
  - intros j' r' Hj' HR. apply in_app_or in Hj'. destruct Hj' as [Hj' | [<- | []]].
    + apply LV1; [eapply (p1_lc _ _ _ _ _ _ _ P); eauto |]. intros h rh EO' A1 ->.
      pose proof (RHI h rh EO' A1) as RI. apply in_roots in RI. destruct RI as (i & Hi & Ri). apply rt_of_has in Ri.
      apply (eo_d3 _ _ _ EO i j' rh Hi (DR j' Hj') Ri HR).
    + apply BL. right. eapply has_rt_unique; [apply (wf_nodup _ _ W) | eauto | eapply is_head_has_rt; eauto].
  - intros h r' lv H' R'. destruct (p1_hd _ _ _ _ _ _ _ P h r' lv H' R') as (lv' & H'').
    assert (exists lv1, is_head a1 h r' lv1) as (lv1 & H1).
    { unfold a1. destruct o as [h0 |]; cbn [akill_opt]; [| eauto]. destruct (N.eq_dec h h0) as [-> | NE].
      - exists false. apply is_head_kill. right. eauto.
      - exists lv'. apply is_head_kill. left. auto. }
    exists lv1. apply BH. left. split; auto. intros ->. contradiction.
  - intros i r' Hi HR. cbn in Hi. rewrite EI2 in Hi. apply in_app_or in Hi. apply BR in HR. destruct HR as [HR | (-> & ->)].
    + assert (HRt : has_rt at_ i r').
      { unfold a1 in HR. destruct o as [h |]; cbn [akill_opt] in HR; auto. apply has_rt_kill in HR. auto. }
      destruct Hi as [Hi | [<- | []]]; [| apply (has_rt_lt _ _ _ _ Wt) in HRt; lia].
      destruct (p1_ins _ _ _ _ _ _ _ P i r' Hi HRt) as (j' & Hj' & HR'). exists j'. split; auto. apply in_or_app; auto.
    + exists j. split; [apply in_or_app; right; left; auto | eapply is_head_has_rt; eauto].
  - right. cbn. rewrite EI2. destruct (e_ins et); discriminate.
Qed.



Lemma PH1_fold a nx E s1 s2 us rs : WF a nx -> ent_ok a nx E -> kex a (tau a E (live a)) ->
  forall Q done at_ nt et c0, PH1 a nx E done at_ nt et -> NoDup Q ->
  (forall j, In j Q -> In j (to_redo_of E) /\ ~ In j done) -> (forall j', In j' done -> In j' (to_redo_of E)) ->
  exists at' nt' et', redo_fold (st_ins E) s1 s2 Q (conc at_ nt us rs, c0, et) =
                      (conc at' nt' us rs, c0 || match Q with [] => false | _ => true end, et') /\
                      PH1 a nx E (done ++ Q) at' nt' et'.
Proof.
  intros W EO KX Q. induction Q as [| j Q IH]; intros done at_ nt et c0 P NDQ HQ HD.
  - exists at_, nt, et. rewrite app_nil_r, orb_false_r. auto.
  - apply NoDup_cons_iff in NDQ. destruct NDQ as (NJQ & H3). destruct (HQ j (or_introl eq_refl)) as (HJ & NJ).
    destruct (redo_id_facts a nx E done at_ nt et j W EO P HJ NJ) as (r & H & Ht & NL & NLt & NR & ND & Lj).
    assert (exists at' e2, redo_item (conc at_ nt us rs) j (st_ins E) s1 s2 = (conc at' (nt + 1) us rs, true, e2) /\
                           PH1 a nx E (done ++ [j]) at' (nt + 1) (eff_app et e2)) as (at' & e2 & EQ & P').
    { destruct Ht as [SH | MH]; [eapply PH1_step_seq; eauto | eapply PH1_step_map; eauto]. }
    cbn [redo_fold fold_left]. rewrite EQ. fold (redo_fold (st_ins E) s1 s2 Q (conc at' (nt + 1) us rs, c0 || true, eff_app et e2)).
    destruct (IH (done ++ [j]) at' (nt + 1) (eff_app et e2) (c0 || true) P' H3) as (at'' & nt'' & et'' & EQ' & P'').
    + intros j' Hj'. destruct (HQ j' (or_intror Hj')) as (A & B). split; auto. intros F. apply in_app_or in F.
      destruct F as [F | [<- | []]]; auto.
    + intros j' Hj'. apply in_app_or in Hj'. destruct Hj' as [Hj' | [<- | []]]; auto.
    + exists at'', nt'', et''. rewrite EQ'. rewrite <- app_assoc in P''. split; auto. f_equal. f_equal.
      destruct c0, Q; reflexivity.
Qed.

Lemma to_redo_nodup E : NoDup (st_del E) -> NoDup (to_redo_of E).
Proof. intros H. unfold to_redo_of. apply NoDup_filter. auto. Qed.

(* ---- one stack entry processed ---- *)
Definition to_delete_of (s : ustate) (E : stackitem) : list N :=
  flat_map (fun i => match ufollow (S (length (all_items s))) (all_items s) i with
                     | Some y => if u_del y then [] else [u_id y]
                     | None => []
                     end) (st_ins E).
Definition nonnil {X} (l : list X) : bool := match l with [] => false | _ => true end.

Lemma eff_nonempty e : (exists i, In i (e_ins e)) \/ (exists i, In i (e_del e)) -> eff_empty e = false.
Proof. unfold eff_empty. intros [(i & H) | (i & H)]; destruct (e_ins e), (e_del e); auto; destruct H. Qed.

Lemma uprocess_gen a nx E s1 s2 us rs :
  WF a nx -> ent_ok a nx E -> kex a (tau a E (live a)) ->
  exists a' nx' e X,
    uprocess (conc a nx us rs) E s1 s2 =
      (conc a' nx' us rs, nonnil (to_redo_of E) || nonnil (to_delete_of (conc a nx us rs) E), e) /\
    TS X a nx a' nx' e /\ (forall j, In j X -> In j (st_del E)) /\
    seteq (live a') (tau a E (live a)) /\
    (nonnil (to_redo_of E) || nonnil (to_delete_of (conc a nx us rs) E) = true -> eff_empty e = false).
Proof.
  intros W EO KX. rewrite uprocess_unfold. cbv zeta. fold (to_redo_of E). fold (to_delete_of (conc a nx us rs) E).
  set (L0 := to_delete_of (conc a nx us rs) E).
  assert (L0S : forall h, In h L0 <-> exists i r, In i (st_ins E) /\ has_rt a i r /\ is_head a h r true) by (intros h; apply to_delete_spec; auto).
  destruct (PH1_fold a nx E s1 s2 us rs W EO KX (to_redo_of E) [] a nx eff0 false (PH1_init a nx E W) (to_redo_nodup E (eo_nd _ _ _ EO)))
    as (asa & nsa & ea & EQ & P); [intros j Hj; split; auto | intros j' [] |].
  rewrite EQ. cbn [fst snd app orb] in *.
  pose proof (p1_ts _ _ _ _ _ _ _ P) as Ta. pose proof (ts_wf _ _ _ _ _ _ Ta) as Wa.
  destruct (kill_fold (to_redo_of E) a nx us rs (rev L0) asa nsa ea Ta) as (a' & EQ2 & TE & LV & HD).
  rewrite EQ2.
  set (newly := filter _ (rev L0)).
  assert (NW : forall i, In i newly <-> In i (rev L0) /\ exists r, is_head asa i r true).
  { intros i. unfold newly. rewrite filter_In. rewrite (live_now_iff asa nsa us rs i Wa). tauto. }
  set (e := {| e_ins := e_ins ea; e_del := e_del ea ++ newly |}).
  assert (T : TS (to_redo_of E) a nx a' nsa e).
  { apply TE; [intros i; cbn; tauto |]. intros i. cbn. rewrite in_app_iff, NW. tauto. }
  assert (L0H : forall h, In h L0 -> exists r, In r (roots a (st_ins E)) /\ is_head a h r true /\ exists lv', is_head asa h r lv').
  { intros h Hh. apply L0S in Hh. destruct Hh as (i & r & Hi & HR & HH). exists r.
    assert (In r (roots a (st_ins E))) by (apply in_roots; exists i; split; auto; apply has_rt_of; auto; apply (wf_nodup _ _ W)).
    split; auto. split; auto. eapply (p1_hd _ _ _ _ _ _ _ P); eauto. }
  assert (SE : seteq (live a') (tau a E (live a))).
  { intros r. rewrite LV, in_tau. split.
    - intros (La & K).
      destruct (ts_2 _ _ _ _ _ _ Ta r La) as [L | (i & Hi & HR)].
      + left. split; auto. intros RI. apply (live_is_head _ _ _ W) in L. destruct L as (h & HH).
        assert (Hh : In h L0). { apply L0S. apply in_roots in RI. destruct RI as (i & Hi & Ri). apply rt_of_has in Ri. eauto. }
        destruct (p1_hd _ _ _ _ _ _ _ P h r true HH RI) as (lv' & HA).
        apply (live_is_head _ _ _ Wa) in La. destruct La as (h2 & HA2).
        destruct (is_head_unique_root _ _ _ _ _ _ _ Wa HA HA2) as (<- & ->).
        apply (K h); [apply in_rev; rewrite rev_involutive; auto | auto].
      + right. destruct (p1_ins _ _ _ _ _ _ _ P i r Hi HR) as (j & Hj & HRj). apply in_roots. exists j. split; auto.
        apply has_rt_of; auto. apply (wf_nodup _ _ W).
    - intros [(L & NR) | RR].
      + split; [apply (p1_lb _ _ _ _ _ _ _ P); auto |]. intros h Hh F. apply in_rev in Hh.
        destruct (L0H h Hh) as (r' & RI & _ & lv' & HA). destruct (is_head_unique_id _ _ _ _ _ _ _ Wa HA F) as (<- & _). contradiction.
      + apply in_roots in RR. destruct RR as (j & Hj & Rj). apply rt_of_has in Rj.
        split; [eapply (p1_lc _ _ _ _ _ _ _ P); eauto |]. intros h Hh F. apply in_rev in Hh.
        destruct (L0H h Hh) as (r' & RI & _ & lv' & HA). destruct (is_head_unique_id _ _ _ _ _ _ _ Wa HA F) as (<- & _).
        apply in_roots in RI. destruct RI as (i & Hi & Ri). apply rt_of_has in Ri. apply (eo_d3 _ _ _ EO i j r' Hi Hj Ri Rj). }
  exists a', nsa, e, (to_redo_of E).
  split.
  { f_equal. f_equal. unfold nonnil. destruct (to_redo_of E), L0; reflexivity. }
  split; auto. split; [intros j Hj; apply in_to_redo in Hj; tauto |]. split; auto.
  intros CH. apply eff_nonempty. apply orb_true_iff in CH. destruct CH as [CH | CH].
  - left. cbn [e e_ins]. destruct (p1_ne _ _ _ _ _ _ _ P) as [F | F]; [rewrite F in CH; discriminate |].
    destruct (e_ins ea) as [| i l]; [contradiction | exists i; left; auto].
  - right. cbn [e e_del]. destruct L0 as [| h0 L1] eqn:EL; [discriminate |].
    destruct (L0H h0 (or_introl eq_refl)) as (r & RI & HH & lv' & HA). destruct lv'.
    + exists h0. apply in_or_app. right. apply NW. split; [apply in_rev; rewrite rev_involutive; left; auto | eauto].
    + destruct (ts_3 _ _ _ _ _ _ Ta r) as (j & Hj & _).
      * apply (live_is_head _ _ _ W). eauto.
      * intros F. apply (live_is_head _ _ _ Wa) in F. destruct F as (h2 & F). destruct (is_head_unique_root _ _ _ _ _ _ _ Wa HA F). discriminate.
      * exists j. apply in_or_app. auto.
Qed.

Lemma uprocess_spec a nx E s1 s2 us rs :
  WF a nx -> ent_ok a nx E -> kex a (tau a E (live a)) ->
  exists a' nx' ch e X,
    uprocess (conc a nx us rs) E s1 s2 = (conc a' nx' us rs, ch, e) /\
    TS X a nx a' nx' e /\ (forall j, In j X -> In j (st_del E)) /\
    seteq (live a') (tau a E (live a)) /\
    (ch = false -> a' = a /\ nx' = nx) /\
    (ch = true -> eff_empty e = false).
Proof.
  intros W EO KX.
  destruct (nonnil (to_redo_of E) || nonnil (to_delete_of (conc a nx us rs) E)) eqn:CH.
  - destruct (uprocess_gen a nx E s1 s2 us rs W EO KX) as (a' & nx' & e & X & EQ & T & HX & SE & NE).
    rewrite CH in *. exists a', nx', true, e, X. split; auto. split; auto. split; auto. split; auto. split; [discriminate | auto].
  - apply orb_false_iff in CH. destruct CH as (C1 & C2).
    assert (L0S : forall h, In h (to_delete_of (conc a nx us rs) E) <-> exists i r, In i (st_ins E) /\ has_rt a i r /\ is_head a h r true) by (intros h; apply to_delete_spec; auto).
    rewrite uprocess_unfold. cbv zeta. fold (to_redo_of E). fold (to_delete_of (conc a nx us rs) E).
    destruct (to_redo_of E) as [| j0 Q0] eqn:ER; [| discriminate]. destruct (to_delete_of (conc a nx us rs) E) as [| h0 L1] eqn:EL; [| discriminate].
    cbn [redo_fold fold_left fst snd rev filter app e_ins e_del eff0 orb negb].
    exists a, nx, false, {| e_ins := []; e_del := [] |}, []. split; [reflexivity |]. split; [apply TS_init; auto |].
    split; [intros j [] |]. split; [| split; [auto | discriminate]].
    intros r. rewrite in_tau, ER. cbn [roots flat_map]. split.
    + intros L. left. split; auto. intros RI. apply (live_is_head _ _ _ W) in L. destruct L as (h & HH).
      assert (Hh : In h []) by (apply L0S; apply in_roots in RI; destruct RI as (i & Hi & Ri); apply rt_of_has in Ri; eauto). destruct Hh.
    + intros [(L & _) | []]; auto.
Qed.



(* ---- the pop loops ---- *)
Lemma STK_tail a nx E l : STK a nx (E :: l) -> STK a nx l.
Proof. intros (H & PD). split; [intros F HF; apply H; right; auto | destruct PD; auto]. Qed.

Lemma ulist_hd a us S0 : exists t, ulist a us S0 = S0 :: t.
Proof. destruct us; cbn; eauto. Qed.

Lemma pop_undo_spec fuel : forall a nx us rs S0, WF a nx -> STK a nx (us ++ rs) ->
  seteq S0 (live a) -> (forall S, In S (ulist a us S0) -> kex a S) -> (length us < fuel)%nat ->
  (fst (pop_undo fuel (conc a nx us rs)) = conc a nx [] rs /\ (forall S, In S (ulist a us S0) -> seteq S (live a)))
  \/ (exists skipped E rest a' nx' e X,
        us = skipped ++ E :: rest /\ (forall S, In S (ulist a skipped S0) -> seteq S (live a)) /\
        fst (pop_undo fuel (conc a nx us rs)) = conc a' nx' rest (entry_of_eff e :: rs) /\
        TS X a nx a' nx' e /\ (forall j, In j X -> In j (st_del E)) /\ seteq (live a') (tau a E (live a))).
Proof.
  induction fuel as [| f IH]; intros a nx us rs S0 W ST SE KX LF; [lia |].
  destruct us as [| E rest].
  - left. cbn. split; auto. intros S [<- | []]; auto.
  - cbn [pop_undo ustack rstack conc].
    assert (EO : ent_ok a nx E) by (apply (proj1 ST); left; auto).
    assert (KE : kex a (tau a E (live a))).
    { eapply kex_seteq; [apply tau_seteq; eauto |]. apply KX. cbn. right. destruct (ulist_hd a rest (tau a E S0)) as (t & ->). left; auto. }
    destruct (uprocess_spec a nx E rest rs (E :: rest) rs W EO KE) as (a' & nx' & ch & e & X & EQ & T & HX & SL & CF & CT).
    rewrite EQ. destruct ch.
    + right. exists [], E, rest, a', nx', e, X. cbn [app fst]. rewrite (CT eq_refl). cbn [andb negb].
      split; auto. split; [intros S [<- | []]; auto |]. split; [reflexivity |]. auto.
    + destruct (CF eq_refl) as (-> & ->). cbn [andb seqc mapc unext conc].
      change {| seqc := cseq (a_seq a); mapc := cmap (a_map a); unext := nx; ustack := rest; rstack := rs |} with (conc a nx rest rs).
      assert (SE' : seteq (tau a E S0) (live a)).
      { eapply seteq_trans; [apply tau_seteq; eauto | apply seteq_sym; auto]. }
      destruct (IH a nx rest rs (tau a E S0) W (STK_tail _ _ _ _ ST) SE') as [(EQ' & AL) | (sk & E1 & rest' & a1 & nx1 & e1 & X1 & EU & AL & EQ' & T1 & HX1 & SL1)].
      * intros S HS. apply KX. cbn. right; auto.
      * cbn in LF. lia.
      * left. split; auto. intros S [<- | HS]; auto.
      * right. exists (E :: sk), E1, rest', a1, nx1, e1, X1. split; [rewrite EU; reflexivity |].
        split; [intros S [<- | HS]; auto |]. auto.
Qed.

Lemma pop_redo_spec fuel : forall a nx us rs S0, WF a nx -> STK a nx (us ++ rs) ->
  seteq S0 (live a) -> (forall S, In S (ulist a rs S0) -> kex a S) -> (length rs < fuel)%nat ->
  (fst (pop_redo fuel (conc a nx us rs)) = conc a nx us [] /\ (forall S, In S (ulist a rs S0) -> seteq S (live a)))
  \/ (exists skipped E rest a' nx' e X,
        rs = skipped ++ E :: rest /\ (forall S, In S (ulist a skipped S0) -> seteq S (live a)) /\
        fst (pop_redo fuel (conc a nx us rs)) = conc a' nx' (entry_of_eff e :: us) rest /\
        TS X a nx a' nx' e /\ (forall j, In j X -> In j (st_del E)) /\ seteq (live a') (tau a E (live a))).
Proof.
  induction fuel as [| f IH]; intros a nx us rs S0 W ST SE KX LF; [lia |].
  destruct rs as [| E rest].
  - left. cbn. split; auto. intros S [<- | []]; auto.
  - cbn [pop_redo ustack rstack conc].
    assert (EO : ent_ok a nx E) by (apply (proj1 ST); apply in_or_app; right; left; auto).
    assert (KE : kex a (tau a E (live a))).
    { eapply kex_seteq; [apply tau_seteq; eauto |]. apply KX. cbn. right. destruct (ulist_hd a rest (tau a E S0)) as (t & ->). left; auto. }
    destruct (uprocess_spec a nx E rest us us (E :: rest) W EO KE) as (a' & nx' & ch & e & X & EQ & T & HX & SL & CF & CT).
    rewrite EQ. destruct ch.
    + right. exists [], E, rest, a', nx', e, X. cbn [app fst]. rewrite (CT eq_refl). cbn [andb negb].
      split; auto. split; [intros S [<- | []]; auto |]. split; [reflexivity |]. auto.
    + destruct (CF eq_refl) as (-> & ->). cbn [andb seqc mapc unext conc].
      change {| seqc := cseq (a_seq a); mapc := cmap (a_map a); unext := nx; ustack := us; rstack := rest |} with (conc a nx us rest).
      assert (SE' : seteq (tau a E S0) (live a)).
      { eapply seteq_trans; [apply tau_seteq; eauto | apply seteq_sym; auto]. }
      assert (ST' : STK a nx (us ++ rest)).
      { destruct ST as (SO & PD). split; [intros F HF; apply SO; apply in_app_or in HF; apply in_or_app; destruct HF; [left | right; right]; auto |].
        apply pdisj_app in PD. destruct PD as (P1 & (P2a & P2) & P3). apply pdisj_app. split; auto. split; auto.
        intros E0 F i HE HF. apply (P3 E0 F i); auto. right; auto. }
      destruct (IH a nx us rest (tau a E S0) W ST' SE') as [(EQ' & AL) | (sk & E1 & rest' & a1 & nx1 & e1 & X1 & EU & AL & EQ' & T1 & HX1 & SL1)].
      * intros S HS. apply KX. cbn. right; auto.
      * cbn in LF. lia.
      * left. split; auto. intros S [<- | HS]; auto.
      * right. exists (E :: sk), E1, rest', a1, nx1, e1, X1. split; [rewrite EU; reflexivity |].
        split; [intros S [<- | HS]; auto |]. auto.
Qed.



(* ---- list bookkeeping for the mirror ---- *)
Fixpoint heads (a : astate) (l : list stackitem) (S0 : list N) : list (list N) :=
  match l with [] => [] | E :: r => S0 :: heads a r (tau a E S0) end.
Fixpoint ufold (a : astate) (l : list stackitem) (S0 : list N) : list N :=
  match l with [] => S0 | E :: r => ufold a r (tau a E S0) end.
Lemma ulist_app a l1 l2 S0 : ulist a (l1 ++ l2) S0 = heads a l1 S0 ++ ulist a l2 (ufold a l1 S0).
Proof. revert S0. induction l1 as [| E r IH]; intros S0; cbn; auto. rewrite IH. reflexivity. Qed.
Lemma ulist_heads a l S0 : ulist a l S0 = heads a l S0 ++ [ufold a l S0].
Proof. rewrite <- (app_nil_r l) at 1. rewrite ulist_app. reflexivity. Qed.
Lemma heads_length a l S0 : length (heads a l S0) = length l.
Proof. revert S0. induction l as [| E r IH]; intros S0; cbn; auto. Qed.
Lemma ulist_rlist a l S0 : ulist a l S0 = S0 :: rlist a l S0.
Proof. revert S0. induction l as [| E r IH]; intros S0; cbn; auto. rewrite IH. reflexivity. Qed.

Lemma all_same_as_prev_true l : forall n lo, (forall j, (lo <= j < lo + n)%nat -> nth_cont l j = nth_cont l (pred j)) -> all_same_as_prev l lo n = true.
Proof.
  induction n as [| n IH]; intros lo H; cbn; auto. rewrite H by lia. rewrite cont_eqb_refl. cbn. apply IH. intros j Hj. apply H. lia.
Qed.
Lemma all_eq_from_true l c : forall n lo, (forall j, (lo <= j < lo + n)%nat -> nth_cont l j = c) -> all_eq_from l lo n c = true.
Proof.
  induction n as [| n IH]; intros lo H; cbn; auto. rewrite H by lia. rewrite cont_eqb_refl. cbn. apply IH. intros j Hj. apply H. lia.
Qed.

(* mu = rev B ++ rev A where every element of A is c0 *)
Lemma nth_revB (A B : list ucont) j : (j < length B)%nat -> nth_cont (rev B ++ rev A) j = nth_cont B (length B - Datatypes.S j).
Proof. intros H. unfold nth_cont. rewrite app_nth1 by (rewrite rev_length; auto). apply rev_nth. auto. Qed.
Lemma nth_revA (A B : list ucont) c0 j : (forall x, In x A -> x = c0) -> (length B <= j < length B + length A)%nat ->
  nth_cont (rev B ++ rev A) j = c0.
Proof.
  intros HA H. unfold nth_cont. rewrite app_nth2 by (rewrite rev_length; lia). apply HA. apply in_rev. apply nth_In. rewrite !rev_length. lia.
Qed.
Lemma firstn_revB (A B : list ucont) : firstn (length B) (rev B ++ rev A) = rev B.
Proof. rewrite <- (rev_length B). rewrite firstn_app, Nat.sub_diag, firstn_all. cbn. apply app_nil_r. Qed.
Lemma rev_eq_app {X} (l A B : list X) : rev l = A ++ B -> l = rev B ++ rev A.
Proof. intros H. rewrite <- (rev_involutive l), H, rev_app_distr. reflexivity. Qed.

Lemma map_all_eq a (l : list (list N)) : (forall S, In S l -> seteq S (live a)) -> forall x, In x (map (render a) l) -> x = render a (live a).
Proof. intros H x Hx. apply in_map_iff in Hx. destruct Hx as (S & <- & HS). apply render_seteq. auto. Qed.

Lemma pdisj_perm l l' : Permutation l l' -> pdisj l -> pdisj l'.
Proof.
  induction 1; cbn; auto.
  - intros (A & B). split; auto. intros F i HF. apply A. eapply Permutation_in; [apply Permutation_sym; eauto | auto].
  - intros (A & B & C). split; [| split; [| exact C]].
    + intros F i [<- | HF] Hi Hi'; [apply (A x i (or_introl eq_refl) Hi' Hi) | apply (B F i HF Hi Hi')].
    + intros F i HF. apply A. right; auto.
Qed.
Lemma STK_perm a nx l l' : Permutation l l' -> STK a nx l -> STK a nx l'.
Proof.
  intros P (A & B). split; [| eapply pdisj_perm; eauto]. intros E HE. apply A. eapply Permutation_in; [apply Permutation_sym; eauto | auto].
Qed.

Lemma new_entry_disj X a nx a' nx' e F : WF a nx -> TS X a nx a' nx' e -> ent_ok a nx F ->
  forall i, In i (e_del e) -> ~ In i (st_del F).
Proof.
  intros W T OF i Hi Hi'. pose proof (ts_wf _ _ _ _ _ _ T) as W'. pose proof (ts_ax _ _ _ _ _ _ T) as A.
  destruct (eo_dh _ _ _ OF i Hi') as (r & HD).
  destruct (in_dec N.eq_dec i (e_ins e)) as [I | NI].
  - apply (ts_in _ _ _ _ _ _ T) in I. assert (i < nx) by (apply (eo_lt _ _ _ OF); auto). lia.
  - destruct (ts_4 _ _ _ _ _ _ T i Hi NI) as (r' & HR & L0 & _).
    assert (r' = r).
    { pose proof (ax_rt _ _ _ _ _ A i r (is_head_has_rt _ _ _ _ HD)). eapply has_rt_unique; eauto. apply (wf_nodup _ _ W'). }
    subst r'. apply (live_is_head _ _ _ W) in L0. destruct L0 as (h & HL).
    destruct (is_head_unique_root _ _ _ _ _ _ _ W HD HL). discriminate.
Qed.

Lemma STK_post X a nx a' nx' e E l : WF a nx -> TS X a nx a' nx' e -> (forall j, In j X -> In j (st_del E)) ->
  STK a nx (E :: l) -> STK a' nx' (entry_of_eff e :: l).
Proof.
  intros W T HX (SO & PD). pose proof (ts_wf _ _ _ _ _ _ T) as W'. pose proof (ts_ax _ _ _ _ _ _ T) as A.
  destruct PD as (PD1 & PD2). split.
  - intros F [<- | HF]; [apply (TS_entry _ _ _ _ _ _ T) |].
    apply (ent_ok_stable X a nx a' nx' F W W' A); [| apply SO; right; auto].
    intros j Hj Fj. apply (PD1 F j HF (HX j Fj) Hj).
  - split; auto. intros F i HF Hi. cbn in Hi. rewrite in_sort_ids in Hi.
    apply (new_entry_disj X a nx a' nx' e F W T); auto. apply SO. right; auto.
Qed.



Lemma cont_conc_stacks a nx us rs us' rs' : cont (conc a nx us rs) = cont (conc a nx us' rs').
Proof. reflexivity. Qed.

Lemma all_c0_nth (l : list ucont) c0 j : (forall x, In x l -> x = c0) -> (j < length l)%nat -> nth_cont l j = c0.
Proof. intros H L. apply H. apply nth_In. auto. Qed.

Lemma inv_step_undo s m : INV s m -> exists s' m', mirror_step s m AUndo = Some (s', m') /\ INV s' m'.
Proof.
  intros (a & nx & us & rs & -> & W & ST & MU & MR & KX).
  pose proof (mu_length _ _ _ _ MU) as LMU. pose proof (mr_length _ _ _ _ MR) as LMR.
  set (c0 := render a (live a)).
  assert (C0 : cont (conc a nx us rs) = c0) by (apply cont_render; auto).
  unfold mirror_step. cbn [uact]. unfold undo. cbn [ustack rstack conc].
  destruct (pop_undo_spec (S (length us)) a nx us rs (live a) W ST (seteq_refl _)) as [(EQ & AL) | (sk & E & rest & a' & nx' & e & X & EU & AL & EQ & T & HX & SL)];
    [intros S HS; apply KX; apply in_or_app; auto | lia | |].
  - (* every entry was passed over (or the stack was empty) *)
    rewrite EQ. cbn [ustack rstack conc length]. rewrite (cont_conc_stacks a nx [] rs us rs), C0.
    assert (ALL : forall x, In x (mu m) -> x = c0).
    { intros x Hx. apply in_rev in Hx. rewrite MU in Hx. eapply map_all_eq; eauto. }
    assert (Nat.ltb (length us) 0 = false) as -> by (apply Nat.ltb_ge; lia).
    rewrite (all_c0_nth (mu m) c0 0 ALL) by lia. rewrite cont_eqb_refl. cbn [negb].
    rewrite all_same_as_prev_true.
    2:{ intros j Hj. rewrite !(all_c0_nth (mu m) c0) by (auto; lia). reflexivity. }
    cbn [negb]. assert (Nat.eqb (length rs) (S (length rs)) = false) as -> by (apply Nat.eqb_neq; lia).
    rewrite Nat.eqb_refl. eexists _, _. split; [reflexivity |].
    exists a, nx, [], rs. split; [reflexivity |]. split; auto. split; [| split; [| split]].
    + destruct ST as (SO & PD). split; [intros F HF; apply SO; apply in_or_app; auto |]. apply pdisj_app in PD. tauto.
    + cbn [mu ulist map]. destruct (mu m) as [| x t] eqn:EM; [cbn in LMU; lia |]. cbn. rewrite (ALL x) by (left; auto). reflexivity.
    + cbn [mr]. exact MR.
    + intros S HS. cbn [ulist app] in HS. destruct HS as [<- | HS]; [apply (kex_live _ _ W) | apply KX; apply in_or_app; auto].
  - (* entry E performed a change *)
    rewrite EQ. cbn [ustack rstack conc length].
    pose proof (ts_wf _ _ _ _ _ _ T) as W'. pose proof (ts_ax _ _ _ _ _ _ T) as A.
    set (Sp := ufold a sk (live a)) in *. set (p := length sk).
    assert (ESp : seteq Sp (live a)). { apply AL. rewrite ulist_heads. apply in_or_app. right. left. reflexivity. }
    (* the shape of mu *)
    assert (UL : ulist a us (live a) = ulist a sk (live a) ++ ulist a rest (tau a E Sp)).
    { rewrite EU, ulist_app. cbn [ulist]. rewrite (ulist_heads a sk), <- app_assoc. reflexivity. }
    set (A0 := map (render a) (ulist a sk (live a))). set (B := map (render a) (ulist a rest (tau a E Sp))).
    assert (EMU : mu m = rev B ++ rev A0) by (apply rev_eq_app; rewrite MU, UL, map_app; reflexivity).
    assert (HA0 : forall x, In x A0 -> x = c0) by (apply map_all_eq; auto).
    assert (LB : length B = S (length rest)) by (unfold B; rewrite map_length, ulist_length; reflexivity).
    assert (LA0 : length A0 = S p) by (unfold A0; rewrite map_length, ulist_length; reflexivity).
    assert (LUS : length us = (p + S (length rest))%nat) by (rewrite EU, app_length; reflexivity).
    (* the content after the call *)
    assert (SE1 : seteq (live a') (tau a E Sp)).
    { eapply seteq_trans; [apply SL | apply tau_seteq, seteq_sym; auto]. }
    assert (BSp : bounded nx (tau a E Sp)) by (apply tau_bounded; auto; eapply bounded_seteq; eauto; apply live_bounded; auto).
    assert (CUR : cont (conc a' nx' rest (entry_of_eff e :: rs)) = nth_cont B 0).
    { rewrite (cont_render _ _ _ _ W'). rewrite (render_seteq a' _ _ SE1), (ax_render _ _ _ _ _ A) by auto.
      unfold B. destruct (ulist_hd a rest (tau a E Sp)) as (t & ->). reflexivity. }
    rewrite CUR, C0.
    assert (Nat.ltb (length us) (length rest) = false) as -> by (apply Nat.ltb_ge; lia).
    rewrite EMU. rewrite (nth_revB A0 B (length rest)) by lia. rewrite LB, Nat.sub_diag, cont_eqb_refl. cbn [negb].
    rewrite all_same_as_prev_true.
    2:{ intros j Hj. rewrite !(nth_revA A0 B c0) by (auto; lia). reflexivity. }
    cbn [negb]. rewrite Nat.eqb_refl.
    eexists _, _. split; [reflexivity |].
    exists a', nx', rest, (entry_of_eff e :: rs). cbn [mu mr]. split; [reflexivity |]. split; auto.
    assert (STE : STK a nx (E :: rest ++ rs)).
    { destruct ST as (SO & PD). rewrite EU in SO, PD. rewrite <- app_assoc in SO, PD. apply pdisj_app in PD. destruct PD as (_ & PD & _).
      split; auto. intros F HF. apply SO. apply in_or_app. right. auto. }
    destruct (TS_entry _ _ _ _ _ _ T) as (EO' & TA).
    assert (LT : forall F i, In F (rest ++ rs) -> In i (st_ins F) \/ In i (st_del F) -> i < nx).
    { intros F i HF. apply (STK_lt _ _ _ STE). right; auto. }
    destruct (sets_transport X a nx a' nx' rest [] (tau a E Sp) (live a') W W' A) as (TU & _ & TK1); auto;
      [intros F i HF; apply LT; rewrite app_nil_r in HF; apply in_or_app; auto |].
    destruct (sets_transport X a nx a' nx' rs [] (live a) (tau a' (entry_of_eff e) (live a')) W W' A) as (TR & _ & TK2); auto;
      [intros F i HF; apply LT; rewrite app_nil_r in HF; apply in_or_app; auto | apply live_bounded; auto |].
    split; [| split; [| split]].
    + apply (STK_perm _ _ (entry_of_eff e :: rest ++ rs)); [apply Permutation_middle |]. apply (STK_post X a nx a' nx' e E (rest ++ rs) W T HX STE).
    + rewrite <- LB, firstn_revB, rev_involutive. unfold B. symmetry. exact TU.
    + rewrite firstn_all2 by lia. rewrite rev_app_distr. cbn [rev app].
      rewrite (nth_revA A0 B c0) by (auto; lia). cbn [rlist map]. rewrite MR.
      rewrite ulist_rlist in TR. cbn [map] in TR. rewrite ulist_rlist in TR. cbn [map] in TR. inversion TR. unfold c0. congruence.
    + intros S HS. apply in_app_or in HS. destruct HS as [HS | HS].
      * apply TK1; [| apply in_or_app; left; auto]. intros S' HS'. rewrite app_nil_r in HS'. apply KX. apply in_or_app. left.
        rewrite UL. apply in_or_app. right. auto.
      * cbn [rlist] in HS. apply TK2; [| rewrite app_nil_r, ulist_rlist; exact HS].
        intros S' HS'. rewrite app_nil_r, ulist_rlist in HS'. destruct HS' as [<- | HS']; [apply (kex_live _ _ W) | apply KX; apply in_or_app; auto].
Qed.

Lemma inv_step_redo s m : INV s m -> exists s' m', mirror_step s m ARedo = Some (s', m') /\ INV s' m'.
Proof.
  intros (a & nx & us & rs & -> & W & ST & MU & MR & KX).
  pose proof (mu_length _ _ _ _ MU) as LMU. pose proof (mr_length _ _ _ _ MR) as LMR.
  set (c0 := render a (live a)).
  assert (C0 : cont (conc a nx us rs) = c0) by (apply cont_render; auto).
  unfold mirror_step. cbn [uact]. unfold redo. cbn [ustack rstack conc].
  destruct (pop_redo_spec (S (length rs)) a nx us rs (live a) W ST (seteq_refl _)) as [(EQ & AL) | (sk & E & rest & a' & nx' & e & X & EU & AL & EQ & T & HX & SL)];
    [intros S HS; rewrite ulist_rlist in HS; destruct HS as [<- | HS]; [apply (kex_live _ _ W) | apply KX; apply in_or_app; auto] | lia | |].
  - (* every redo entry was passed over (or the redo stack was empty) *)
    rewrite EQ. cbn [ustack rstack conc length]. rewrite (cont_conc_stacks a nx us [] us rs), C0.
    assert (ALL : forall x, In x (mr m) -> x = c0).
    { intros x Hx. apply in_rev in Hx. rewrite MR in Hx. apply (map_all_eq a (rlist a rs (live a))); auto. intros S HS. apply AL. rewrite ulist_rlist. right; auto. }
    assert (Nat.ltb (length rs) 0 = false) as -> by (apply Nat.ltb_ge; lia).
    rewrite cont_eqb_refl, Nat.eqb_refl. cbn [andb negb].
    destruct rs as [| F0 rs0].
    + cbn [length Nat.eqb]. eexists _, _. split; [reflexivity |].
      exists a, nx, us, []. split; [reflexivity |]. auto 10.
    + cbn [length Nat.eqb].
      assert (Nat.eqb (length us) (S (length us)) = false) as -> by (apply Nat.eqb_neq; lia).
      rewrite all_eq_from_true.
      2:{ intros j Hj. apply (all_c0_nth (mr m) c0); auto. cbn [length] in LMR. lia. }
      cbn [negb]. eexists _, _. split; [reflexivity |].
      exists a, nx, us, []. split; [reflexivity |]. split; auto. split; [| split; [| split]].
      * destruct ST as (SO & PD). rewrite app_nil_r. split; [intros F HF; apply SO; apply in_or_app; auto |]. apply pdisj_app in PD. tauto.
      * exact MU.
      * reflexivity.
      * intros S HS. rewrite app_nil_r in HS. apply KX. apply in_or_app; auto.
  - (* entry E performed a change *)
    rewrite EQ. cbn [ustack rstack conc length].
    pose proof (ts_wf _ _ _ _ _ _ T) as W'. pose proof (ts_ax _ _ _ _ _ _ T) as A.
    set (Sp := ufold a sk (live a)) in *. set (p := length sk).
    assert (ESp : seteq Sp (live a)). { apply AL. rewrite ulist_heads. apply in_or_app. right. left. reflexivity. }
    assert (UL : rlist a rs (live a) = rlist a sk (live a) ++ ulist a rest (tau a E Sp)).
    { assert (ulist a rs (live a) = ulist a sk (live a) ++ ulist a rest (tau a E Sp)) as UL0.
      { rewrite EU, ulist_app. cbn [ulist]. rewrite (ulist_heads a sk), <- app_assoc. reflexivity. }
      rewrite (ulist_rlist a rs), (ulist_rlist a sk) in UL0. cbn [app] in UL0. inversion UL0. reflexivity. }
    set (A0 := map (render a) (rlist a sk (live a))). set (B := map (render a) (ulist a rest (tau a E Sp))).
    assert (EMR : mr m = rev B ++ rev A0) by (apply rev_eq_app; rewrite MR, UL, map_app; reflexivity).
    assert (HA0 : forall x, In x A0 -> x = c0).
    { apply map_all_eq. intros S HS. apply AL. rewrite ulist_rlist. right; auto. }
    assert (LB : length B = S (length rest)) by (unfold B; rewrite map_length, ulist_length; reflexivity).
    assert (LA0 : length A0 = p) by (unfold A0; rewrite map_length, rlist_length; reflexivity).
    assert (LRS : length rs = (p + S (length rest))%nat) by (rewrite EU, app_length; reflexivity).
    assert (SE1 : seteq (live a') (tau a E Sp)).
    { eapply seteq_trans; [apply SL | apply tau_seteq, seteq_sym; auto]. }
    assert (BSp : bounded nx (tau a E Sp)) by (apply tau_bounded; auto; eapply bounded_seteq; eauto; apply live_bounded; auto).
    assert (CUR : cont (conc a' nx' (entry_of_eff e :: us) rest) = nth_cont B 0).
    { rewrite (cont_render _ _ _ _ W'). rewrite (render_seteq a' _ _ SE1), (ax_render _ _ _ _ _ A) by auto.
      unfold B. destruct (ulist_hd a rest (tau a E Sp)) as (t & ->). reflexivity. }
    rewrite C0.
    assert (Nat.ltb (length rs) (length rest) = false) as -> by (apply Nat.ltb_ge; lia).
    assert (Nat.eqb (length rs) (length rest) = false) as -> by (apply Nat.eqb_neq; lia).
    rewrite Nat.eqb_refl.
    assert (CB : cont_eqb (cont (conc a' nx' (entry_of_eff e :: us) rest)) (nth_cont (mr m) (length rest)) = true).
    { rewrite CUR, EMR. rewrite (nth_revB A0 B (length rest)) by lia. rewrite LB, Nat.sub_diag. apply cont_eqb_refl. }
    assert (AE : all_eq_from (mr m) (S (length rest)) (length rs - length rest - 1) c0 = true).
    { rewrite EMR. apply all_eq_from_true. intros j Hj. apply (nth_revA A0 B c0); auto. lia. }
    rewrite CB, AE. cbn [negb]. eexists _, _. split; [reflexivity |].
    exists a', nx', (entry_of_eff e :: us), rest. cbn [mu mr]. split; [reflexivity |]. split; auto.
    assert (STE : STK a nx (E :: us ++ rest)).
    { assert (P0 : Permutation (us ++ rs) (sk ++ E :: us ++ rest)).
      { rewrite EU. eapply perm_trans; [apply Permutation_app_swap_app |]. apply Permutation_app_head. apply Permutation_sym, Permutation_middle. }
      apply (STK_perm _ _ _ _ P0) in ST. destruct ST as (SO & PD). apply pdisj_app in PD. destruct PD as (_ & PD & _).
      split; auto. intros F HF. apply SO. apply in_or_app. right. auto. }
    destruct (TS_entry _ _ _ _ _ _ T) as (EO' & TA).
    assert (LT : forall F i, In F (us ++ rest) -> In i (st_ins F) \/ In i (st_del F) -> i < nx).
    { intros F i HF. apply (STK_lt _ _ _ STE). right; auto. }
    destruct (sets_transport X a nx a' nx' [] rest (tau a E Sp) (live a') W W' A) as (_ & TR & TK1); auto;
      [intros F i HF; apply LT; cbn [app] in HF; apply in_or_app; auto |].
    destruct (sets_transport X a nx a' nx' us [] (live a) (tau a' (entry_of_eff e) (live a')) W W' A) as (TU & _ & TK2); auto;
      [intros F i HF; apply LT; rewrite app_nil_r in HF; apply in_or_app; auto | apply live_bounded; auto |].
    assert (EB : B = nth_cont B 0 :: map (render a) (rlist a rest (tau a E Sp))).
    { unfold B. rewrite ulist_rlist. reflexivity. }
    split; [| split; [| split]].
    + apply (STK_post X a nx a' nx' e E (us ++ rest) W T HX STE).
    + rewrite firstn_all2 by lia. rewrite rev_app_distr. cbn [rev app ulist map]. rewrite MU, TU, CUR.
      rewrite (cont_render _ _ _ _ W') in CUR. rewrite <- CUR. reflexivity.
    + rewrite EMR, EB. cbn [rev]. rewrite <- app_assoc.
      assert (length rest = length (rev (map (render a) (rlist a rest (tau a E Sp))))) as -> by (rewrite rev_length, map_length, rlist_length; reflexivity).
      rewrite firstn_app, Nat.sub_diag, firstn_all. cbn [firstn]. rewrite app_nil_r, rev_involutive. symmetry. exact TR.
    + intros S HS. apply in_app_or in HS. destruct HS as [HS | HS].
      * cbn [ulist] in HS. destruct HS as [<- | HS]; [apply (kex_live _ _ W') |].
        apply TK2; [| rewrite app_nil_r; exact HS]. intros S' HS'. rewrite app_nil_r in HS'. apply KX. apply in_or_app; auto.
      * apply TK1; [| cbn [ulist app]; right; exact HS]. intros S' HS'. cbn [ulist app] in HS'. destruct HS' as [<- | HS'].
        -- apply KX. apply in_or_app. right. rewrite UL. apply in_or_app. right. destruct (ulist_hd a rest (tau a E Sp)) as (t & ->). left; auto.
        -- apply KX. apply in_or_app. right. rewrite UL. apply in_or_app. right. rewrite ulist_rlist. right; auto.
Qed.



(* ---- A. the inverse law, unbounded ---- *)
Lemma inv_step s m a : INV s m -> (match a with AOther _ => false | _ => true end) = true ->
  exists s' m', mirror_step s m a = Some (s', m') /\ INV s' m'.
Proof.
  intros I H. destruct a as [txns | cs | |]; [apply inv_step_astep | discriminate | apply inv_step_undo | apply inv_step_redo]; auto.
Qed.

Lemma inv_run p : forall s m, INV s m -> only_tracked p = true -> mirror_run s m p = true.
Proof.
  induction p as [| a r IH]; intros s m I H; [reflexivity |].
  unfold only_tracked in H. cbn [forallb] in H. apply andb_true_iff in H. destruct H as (H1 & H2).
  destruct (inv_step s m a I H1) as (s' & m' & EQ & I'). cbn [mirror_run]. rewrite EQ. apply IH; auto.
Qed.

Theorem inverse_law_holds : inverse_law.
Proof. intros p H. apply inv_run; auto. apply inv_init. Qed.

(* the invariant is an invariant of every tracked run: a corollary that exposes what was proved along the way *)
Corollary tracked_run_invariant p : only_tracked p = true ->
  exists a nx us rs, urun ustate0 p = conc a nx us rs /\ WF a nx /\ cont (urun ustate0 p) = render a (live a).
Proof.
  intros H. assert (G : forall p s m, INV s m -> only_tracked p = true -> exists m', INV (urun s p) m').
  { clear. induction p as [| a r IH]; intros s m I H; [exists m; auto |].
    unfold only_tracked in H. cbn [forallb] in H. apply andb_true_iff in H. destruct H as (H1 & H2).
    destruct (inv_step s m a I H1) as (s' & m' & EQ & I'). cbn [urun fold_left].
    assert (s' = uact s a) as ->.
    { unfold mirror_step in EQ. destruct a as [t | c | |]; try discriminate;
        repeat match type of EQ with context [if ?b then _ else _] => destruct b end; try discriminate; inversion EQ; reflexivity. }
    apply (IH _ m'); auto. }
  destruct (G p ustate0 mirror0 inv_init H) as (m' & a & nx & us & rs & E & W & _).
  exists a, nx, us, rs. split; auto. split; auto. rewrite E. apply cont_render; auto.
Qed.



(* ---------------------------------------------------------------------------------------------- *)
Print Assumptions inverse_law_holds.
Print Assumptions inverse_law_bounded.
Print Assumptions tracked_run_invariant.
Print Assumptions undo_redo_keep_foreign_units.
Print Assumptions undo_never_touches_other_keys_or_values.
