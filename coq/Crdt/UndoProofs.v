(* Proofs about the flat undo / redo model of Crdt/Undo.v and the oracle of Crdt/UndoSpec.v (C12).
   (header is completed at the end of the development)

   Standard library only; every theorem is closed under the global context. *)
From Coq Require Import List NArith Bool Lia Arith Permutation.
From YV Require Import Crdt.Undo Crdt.UndoSpec.
Import ListNotations.
Open Scope N_scope.

Local Arguments N.add : simpl never.
Local Arguments N.ltb : simpl never.
Local Arguments N.eqb : simpl never.



(* ---------------------------------------------------------------------------------------------- *)
(* C. units are never lost, values never change, deletion is monotone *)

Definition ukeeps (x x' : uitem) : Prop :=
  u_id x' = u_id x /\ u_val x' = u_val x /\ (u_del x = true -> u_del x' = true).
Definition keeps (l l' : list uitem) : Prop :=
  forall x, In x l -> exists x', In x' l' /\ ukeeps x x'.

Lemma ukeeps_refl x : ukeeps x x.
Proof. repeat split; auto. Qed.
Lemma ukeeps_set_del x : ukeeps x (set_del x).
Proof. repeat split; auto. Qed.
Lemma ukeeps_set_red x r : ukeeps x (set_red x r).
Proof. repeat split; auto. Qed.

Lemma keeps_refl l : keeps l l.
Proof. intros x Hx. exists x. split; auto using ukeeps_refl. Qed.
Lemma keeps_trans l1 l2 l3 : keeps l1 l2 -> keeps l2 l3 -> keeps l1 l3.
Proof.
  intros H1 H2 x Hx. destruct (H1 x Hx) as (y & Hy & (A1 & A2 & A3)).
  destruct (H2 y Hy) as (z & Hz & (B1 & B2 & B3)). exists z. split; auto.
  repeat split; try congruence. auto.
Qed.
Lemma keeps_app l1 l2 r1 r2 : keeps l1 r1 -> keeps l2 r2 -> keeps (l1 ++ l2) (r1 ++ r2).
Proof.
  intros H1 H2 x Hx. apply in_app_or in Hx. destruct Hx as [Hx | Hx].
  - destruct (H1 x Hx) as (y & Hy & K). exists y. split; auto. apply in_or_app; auto.
  - destruct (H2 x Hx) as (y & Hy & K). exists y. split; auto. apply in_or_app; auto.
Qed.
Lemma keeps_cons x x' l l' : ukeeps x x' -> keeps l l' -> keeps (x :: l) (x' :: l').
Proof.
  intros Hx Hl y [<- | Hy].
  - exists x'. split; [left; auto | auto].
  - destruct (Hl y Hy) as (z & Hz & K). exists z. split; [right; auto | auto].
Qed.
Lemma keeps_skip x' l l' : keeps l l' -> keeps l (x' :: l').
Proof. intros Hl y Hy. destruct (Hl y Hy) as (z & Hz & K). exists z. split; [right; auto | auto]. Qed.
Lemma keeps_app_r l r : keeps l (l ++ r).
Proof. intros x Hx. exists x. split; [apply in_or_app; auto | apply ukeeps_refl]. Qed.

Lemma keeps_insert_before_visible l pos x : keeps l (insert_before_visible l pos x).
Proof.
  revert pos. induction l as [| y r IH]; intros pos; cbn.
  - intros z [].
  - destruct (u_del y).
    + apply keeps_cons; auto using ukeeps_refl.
    + destruct pos as [| p].
      * apply keeps_skip. apply keeps_refl.
      * apply keeps_cons; auto using ukeeps_refl.
Qed.

Lemma keeps_delete_visible l pos : keeps l (fst (delete_visible l pos)).
Proof.
  revert pos. induction l as [| y r IH]; intros pos; cbn.
  - intros z [].
  - destruct (u_del y).
    + specialize (IH pos). destruct (delete_visible r pos) as [r' o]. cbn in *.
      apply keeps_cons; auto using ukeeps_refl.
    + destruct pos as [| p]; cbn.
      * apply keeps_cons; auto using ukeeps_set_del, keeps_refl.
      * specialize (IH p). destruct (delete_visible r p) as [r' o]. cbn in *.
        apply keeps_cons; auto using ukeeps_refl.
Qed.

Lemma keeps_delete_last c : keeps c (fst (delete_last c)).
Proof.
  induction c as [| y r IH]; cbn.
  - intros z [].
  - destruct r as [| y2 r2].
    + destruct (u_del y); cbn; apply keeps_cons; auto using ukeeps_refl, ukeeps_set_del, keeps_refl.
    + destruct (delete_last (y2 :: r2)) as [r' o]. cbn in *.
      apply keeps_cons; auto using ukeeps_refl.
Qed.

Lemma keeps_umark_deleted l i : keeps l (umark_deleted l i).
Proof.
  induction l as [| y r IH]; cbn.
  - intros z [].
  - destruct (u_id y =? i).
    + apply keeps_cons; auto using ukeeps_set_del, keeps_refl.
    + apply keeps_cons; auto using ukeeps_refl.
Qed.

Lemma keeps_redo_in_seq l i fresh : keeps l (fst (redo_in_seq l i fresh)).
Proof.
  induction l as [| y r IH]; cbn.
  - intros z [].
  - destruct (u_id y =? i); cbn.
    + apply keeps_skip. apply keeps_cons; auto using ukeeps_set_red, keeps_refl.
    + destruct (redo_in_seq r i fresh) as [r' b]. cbn in *. apply keeps_cons; auto using ukeeps_refl.
Qed.

Lemma keeps_map_set_red c i fresh :
  keeps c (map (fun z => if u_id z =? i then set_red z fresh else z) c).
Proof.
  induction c as [| y r IH]; cbn.
  - intros z [].
  - apply keeps_cons; auto. destruct (u_id y =? i); auto using ukeeps_set_red, ukeeps_refl.
Qed.

Lemma keeps_redo_in_chain c i fresh td s1 s2 c' :
  redo_in_chain c i fresh td s1 s2 = Some c' -> keeps c c'.
Proof.
  unfold redo_in_chain. destruct (ufind c i) as [y |]; [| discriminate].
  destruct (walk_right _ _ _ _ _ _); [| discriminate].
  pose proof (keeps_delete_last (map (fun z => if u_id z =? i then set_red z fresh else z) c)) as K.
  destruct (delete_last _) as [c'' o]. cbn in K. intros E. inversion E; subst c'.
  eapply keeps_trans; [apply keeps_map_set_red |]. eapply keeps_trans; [apply K |]. apply keeps_app_r.
Qed.

Lemma keeps_redo_in_maps (m : list (N * list uitem)) i fresh td s1 s2 m' :
  redo_in_maps m i fresh td s1 s2 = Some m' -> keeps (flat_map snd m) (flat_map snd m').
Proof.
  revert m'. induction m as [| [k c] r IH]; intros m'; cbn.
  - discriminate.
  - destruct (existsb _ c).
    + destruct (redo_in_chain c i fresh td s1 s2) as [c' |] eqn:E; cbn; [| discriminate].
      intros H; inversion H; subst m'. cbn. apply keeps_app; [eapply keeps_redo_in_chain; eauto | apply keeps_refl].
    + destruct (redo_in_maps r i fresh td s1 s2) as [r' |] eqn:E; cbn; [| discriminate].
      intros H; inversion H; subst m'. cbn. apply keeps_app; [apply keeps_refl | auto].
Qed.

Lemma keeps_set_chain (m : list (N * list uitem)) k c' :
  keeps (chain_of m k) c' -> keeps (flat_map snd m) (flat_map snd (set_chain m k c')).
Proof.
  induction m as [| [k' c] r IH]; cbn; intros H.
  - intros z [].
  - destruct (k' =? k); cbn.
    + apply keeps_app; auto using keeps_refl.
    + apply keeps_app; auto using keeps_refl.
Qed.

Lemma keeps_map_umark (m : list (N * list uitem)) i :
  keeps (flat_map snd m) (flat_map snd (map (fun kc => (fst kc, umark_deleted (snd kc) i)) m)).
Proof.
  induction m as [| [k c] r IH]; cbn.
  - intros z [].
  - apply keeps_app; auto using keeps_umark_deleted.
Qed.

Definition skeeps (s s' : ustate) : Prop := keeps (all_items s) (all_items s').
Lemma skeeps_refl s : skeeps s s.
Proof. apply keeps_refl. Qed.
Lemma skeeps_trans s1 s2 s3 : skeeps s1 s2 -> skeeps s2 s3 -> skeeps s1 s3.
Proof. apply keeps_trans. Qed.

Lemma skeeps_do_call s c : skeeps s (fst (do_call s c)).
Proof.
  unfold skeeps, all_items. destruct c as [pos v | pos | k v | k]; cbn.
  - apply keeps_app; auto using keeps_refl, keeps_insert_before_visible.
  - pose proof (keeps_delete_visible (seqc s) pos) as K.
    destruct (delete_visible (seqc s) pos) as [l o]. cbn in *. apply keeps_app; auto using keeps_refl.
  - pose proof (keeps_delete_last (chain_of (mapc s) k)) as K.
    destruct (delete_last (chain_of (mapc s) k)) as [c0 o]. cbn in *.
    apply keeps_app; auto using keeps_refl. apply keeps_set_chain.
    eapply keeps_trans; [apply K | apply keeps_app_r].
  - pose proof (keeps_delete_last (chain_of (mapc s) k)) as K.
    destruct (delete_last (chain_of (mapc s) k)) as [c0 o]. cbn in *.
    apply keeps_app; auto using keeps_refl. destruct o; auto using keeps_refl. apply keeps_set_chain; auto.
Qed.

Lemma skeeps_do_txn_gen cs : forall s e, skeeps s (fst (fold_left (fun acc c => let '(s1, e1) := acc in let '(s2, e2) := do_call s1 c in (s2, eff_app e1 e2)) cs (s, e))).
Proof.
  induction cs as [| c r IH]; intros s e; cbn.
  - apply skeeps_refl.
  - pose proof (skeeps_do_call s c) as K. destruct (do_call s c) as [s2 e2]. cbn in K.
    eapply skeeps_trans; [apply K | apply IH].
Qed.
Lemma skeeps_do_txn s cs : skeeps s (fst (do_txn s cs)).
Proof. apply skeeps_do_txn_gen. Qed.

Lemma skeeps_txns txns : forall s e, skeeps s (fst (fold_left (fun acc cs => let '(s1, e1) := acc in let '(s2, e2) := do_txn s1 cs in (s2, eff_app e1 e2)) txns (s, e))).
Proof.
  induction txns as [| cs r IH]; intros s e; cbn.
  - apply skeeps_refl.
  - pose proof (skeeps_do_txn s cs) as K. destruct (do_txn s cs) as [s2 e2]. cbn in K.
    eapply skeeps_trans; [apply K | apply IH].
Qed.

Lemma skeeps_tracked_step s txns : skeeps s (tracked_step s txns).
Proof.
  unfold tracked_step. pose proof (skeeps_txns txns s eff0) as K.
  destruct (fold_left _ txns (s, eff0)) as [s' e]. cbn in K.
  destruct (eff_empty e); auto.
Qed.

Lemma skeeps_delete_id s i : skeeps s (delete_id s i).
Proof.
  unfold skeeps, all_items, delete_id; cbn. apply keeps_app; auto using keeps_umark_deleted, keeps_map_umark.
Qed.

Lemma skeeps_redo_item s i td s1 s2 : skeeps s (fst (fst (redo_item s i td s1 s2))).
Proof.
  unfold redo_item. destruct (ufind (all_items s) i) as [y |]; [| apply skeeps_refl].
  destruct (u_red y); [apply skeeps_refl |].
  destruct (existsb _ (seqc s)).
  - pose proof (keeps_redo_in_seq (seqc s) i (unext s)) as K.
    destruct (redo_in_seq (seqc s) i (unext s)) as [l b]. cbn in *.
    unfold skeeps, all_items; cbn. apply keeps_app; auto using keeps_refl.
  - destruct (redo_in_maps (mapc s) i (unext s) td s1 s2) as [m |] eqn:E; cbn; [| apply skeeps_refl].
    unfold skeeps, all_items; cbn. apply keeps_app; auto using keeps_refl. eapply keeps_redo_in_maps; eauto.
Qed.

Lemma skeeps_fold_redo td s1 s2 l : forall s c e,
  skeeps s (fst (fst (fold_left (fun acc i => let '(s0, c0, e0) := acc in
                                              let '(s1', c1, e1) := redo_item s0 i td s1 s2 in (s1', c0 || c1, eff_app e0 e1))
                                 l (s, c, e)))).
Proof.
  induction l as [| i r IH]; intros s c e; cbn.
  - apply skeeps_refl.
  - pose proof (skeeps_redo_item s i td s1 s2) as K. destruct (redo_item s i td s1 s2) as [[s1' c1] e1]. cbn in K.
    eapply skeeps_trans; [apply K | apply IH].
Qed.

Lemma skeeps_fold_delete l : forall s, skeeps s (fold_left delete_id l s).
Proof.
  induction l as [| i r IH]; intros s; cbn.
  - apply skeeps_refl.
  - eapply skeeps_trans; [apply skeeps_delete_id | apply IH].
Qed.

Lemma skeeps_uprocess s it s1 s2 : skeeps s (fst (fst (uprocess s it s1 s2))).
Proof.
  unfold uprocess.
  match goal with |- context [fold_left ?f ?l (s, false, eff0)] => pose proof (skeeps_fold_redo (st_ins it) s1 s2 l s false eff0) as K; destruct (fold_left f l (s, false, eff0)) as [[sa ca] ea] end.
  cbn in *. eapply skeeps_trans; [apply K | apply skeeps_fold_delete].
Qed.

Lemma skeeps_pop_undo fuel : forall s, skeeps s (fst (pop_undo fuel s)).
Proof.
  induction fuel as [| f IH]; intros s; cbn.
  - apply skeeps_refl.
  - destruct (ustack s) as [| it rest]; [apply skeeps_refl |].
    pose proof (skeeps_uprocess s it rest (rstack s)) as K.
    destruct (uprocess s it rest (rstack s)) as [[s' changed] e]. cbn in K.
    destruct changed; cbn; auto.
    eapply skeeps_trans; [apply K |]. eapply skeeps_trans; [| apply IH]. apply keeps_refl.
Qed.
Lemma skeeps_pop_redo fuel : forall s, skeeps s (fst (pop_redo fuel s)).
Proof.
  induction fuel as [| f IH]; intros s; cbn.
  - apply skeeps_refl.
  - destruct (rstack s) as [| it rest]; [apply skeeps_refl |].
    pose proof (skeeps_uprocess s it rest (ustack s)) as K.
    destruct (uprocess s it rest (ustack s)) as [[s' changed] e]. cbn in K.
    destruct changed; cbn; auto.
    eapply skeeps_trans; [apply K |]. eapply skeeps_trans; [| apply IH]. apply keeps_refl.
Qed.

(* C: for EVERY state (no well-formedness needed) and every action *)
Theorem undo_never_touches_other_keys_or_values : forall s a x,
  In x (all_items s) ->
  exists x', In x' (all_items (uact s a)) /\ u_id x' = u_id x /\ u_val x' = u_val x /\ (u_del x = true -> u_del x' = true).
Proof.
  intros s a. change (skeeps s (uact s a)). destruct a as [txns | cs | |]; unfold uact, other_txn, undo, redo.
  - apply skeeps_tracked_step.
  - apply skeeps_do_txn.
  - apply skeeps_pop_undo.
  - apply skeeps_pop_redo.
Qed.



(* ---------------------------------------------------------------------------------------------- *)
(* B. interference: foreign units survive undo / redo *)

Notation ids := (map u_id).
Definition redsub (l l' : list uitem) (P : N -> Prop) : Prop :=
  forall y' r, In y' l' -> u_red y' = Some r -> (exists y, In y l /\ u_red y = Some r) \/ P r.
Definition deadin (l : list uitem) (i : N) : Prop := exists y, In y l /\ u_id y = i /\ u_del y = true.

Lemma redsub_refl l P : redsub l l P.
Proof. intros y r Hy Hr. left. eauto. Qed.
Lemma redsub_app l1 l2 r1 r2 P : redsub l1 r1 P -> redsub l2 r2 P -> redsub (l1 ++ l2) (r1 ++ r2) P.
Proof.
  intros H1 H2 y r Hy Hr. apply in_app_or in Hy. destruct Hy as [Hy | Hy].
  - destruct (H1 y r Hy Hr) as [(z & Hz & E) | K]; auto. left. exists z. split; auto. apply in_or_app; auto.
  - destruct (H2 y r Hy Hr) as [(z & Hz & E) | K]; auto. left. exists z. split; auto. apply in_or_app; auto.
Qed.
Lemma redsub_cons x x' l l' P : u_red x' = u_red x -> redsub l l' P -> redsub (x :: l) (x' :: l') P.
Proof.
  intros E H y r [<- | Hy] Hr.
  - left. exists x. split; [left; auto | congruence].
  - destruct (H y r Hy Hr) as [(z & Hz & E') | K]; auto. left. exists z. split; [right; auto | auto].
Qed.
Lemma redsub_trans l1 l2 l3 (P Q : N -> Prop) : (forall r, P r -> Q r) -> redsub l1 l2 P -> redsub l2 l3 Q -> redsub l1 l3 Q.
Proof.
  intros PQ H1 H2 y r Hy Hr. destruct (H2 y r Hy Hr) as [(z & Hz & E) | K]; auto.
  destruct (H1 z r Hz E) as [K | K]; auto.
Qed.
Lemma redsub_weaken l l' (P Q : N -> Prop) : (forall r, P r -> Q r) -> redsub l l' P -> redsub l l' Q.
Proof. intros PQ H y r Hy Hr. destruct (H y r Hy Hr); auto. Qed.

Lemma ids_ibv l pos x : Permutation (ids (insert_before_visible l pos x)) (u_id x :: ids l).
Proof.
  revert pos. induction l as [| y r IH]; intros pos; cbn.
  - apply Permutation_refl.
  - destruct (u_del y).
    + cbn. eapply perm_trans; [apply perm_skip, IH | apply perm_swap].
    + destruct pos as [| p]; cbn.
      * apply Permutation_refl.
      * eapply perm_trans; [apply perm_skip, IH | apply perm_swap].
Qed.
Lemma redsub_ibv l pos x P : u_red x = None -> redsub l (insert_before_visible l pos x) P.
Proof.
  intros Hx. revert pos. induction l as [| y r IH]; intros pos; cbn.
  - intros z rr [<- | []] Hr. congruence.
  - destruct (u_del y).
    + apply redsub_cons; auto.
    + destruct pos as [| p].
      * intros z rr [<- | Hz] Hr; [congruence |]. left. eauto.
      * apply redsub_cons; auto.
Qed.

Lemma ids_delete_visible l pos : ids (fst (delete_visible l pos)) = ids l.
Proof.
  revert pos. induction l as [| y r IH]; intros pos; cbn; auto.
  destruct (u_del y).
  - specialize (IH pos). destruct (delete_visible r pos) as [r' o]. cbn in *. congruence.
  - destruct pos as [| p]; cbn; auto. specialize (IH p). destruct (delete_visible r p) as [r' o]. cbn in *. congruence.
Qed.
Lemma redsub_delete_visible l pos P : redsub l (fst (delete_visible l pos)) P.
Proof.
  revert pos. induction l as [| y r IH]; intros pos; cbn.
  - apply redsub_refl.
  - destruct (u_del y).
    + specialize (IH pos). destruct (delete_visible r pos) as [r' o]. cbn in *. apply redsub_cons; auto.
    + destruct pos as [| p]; cbn.
      * apply redsub_cons; auto. apply redsub_refl.
      * specialize (IH p). destruct (delete_visible r p) as [r' o]. cbn in *. apply redsub_cons; auto.
Qed.
Lemma dead_delete_visible l pos i : snd (delete_visible l pos) = Some i -> deadin (fst (delete_visible l pos)) i.
Proof.
  revert pos. induction l as [| y r IH]; intros pos; cbn.
  - discriminate.
  - destruct (u_del y).
    + specialize (IH pos). destruct (delete_visible r pos) as [r' o]. cbn in *. intros H.
      destruct (IH H) as (z & Hz & K). exists z. split; [right; auto | auto].
    + destruct pos as [| p]; cbn.
      * intros H. inversion H; subst. exists (set_del y). split; [left; auto | auto].
      * specialize (IH p). destruct (delete_visible r p) as [r' o]. cbn in *. intros H.
        destruct (IH H) as (z & Hz & K). exists z. split; [right; auto | auto].
Qed.

Lemma delete_last_app c0 w :
  delete_last (c0 ++ [w]) = (c0 ++ [if u_del w then w else set_del w], if u_del w then None else Some (u_id w)).
Proof.
  induction c0 as [| y r IH]; cbn.
  - destruct (u_del w); reflexivity.
  - rewrite IH. destruct (r ++ [w]) eqn:E; [destruct r; discriminate | reflexivity].
Qed.
Lemma delete_last_nil : delete_last [] = ([], None).
Proof. reflexivity. Qed.
Lemma list_last_case {X} (l : list X) : l = [] \/ exists l0 x, l = l0 ++ [x].
Proof.
  destruct l as [| a l]; [left; reflexivity | right].
  destruct (@exists_last X (a :: l)) as (l0 & x & E); [discriminate | eauto].
Qed.

Lemma ids_delete_last c : ids (fst (delete_last c)) = ids c.
Proof.
  destruct (list_last_case c) as [-> | (c0 & w & ->)]; [reflexivity |].
  rewrite delete_last_app. cbn. rewrite !map_app. cbn. destruct (u_del w); reflexivity.
Qed.
Lemma redsub_delete_last c P : redsub c (fst (delete_last c)) P.
Proof.
  destruct (list_last_case c) as [-> | (c0 & w & ->)]; [apply redsub_refl |].
  rewrite delete_last_app. cbn. apply redsub_app; [apply redsub_refl |].
  apply redsub_cons; [destruct (u_del w); reflexivity | apply redsub_refl].
Qed.
Lemma dead_delete_last c i : snd (delete_last c) = Some i -> deadin (fst (delete_last c)) i.
Proof.
  destruct (list_last_case c) as [-> | (c0 & w & ->)]; [discriminate |].
  rewrite delete_last_app. cbn. destruct (u_del w) eqn:D; [discriminate |]. intros H; inversion H; subst.
  exists (set_del w). split; [apply in_or_app; right; left; auto | auto].
Qed.

Lemma ids_umark l i : ids (umark_deleted l i) = ids l.
Proof. induction l as [| y r IH]; cbn; auto. destruct (u_id y =? i); cbn; congruence. Qed.
Lemma redsub_umark l i P : redsub l (umark_deleted l i) P.
Proof.
  induction l as [| y r IH]; cbn; [apply redsub_refl |].
  destruct (u_id y =? i); apply redsub_cons; auto. apply redsub_refl.
Qed.

Lemma ids_redo_in_seq l i fresh :
  existsb (fun z => u_id z =? i) l = true -> Permutation (ids (fst (redo_in_seq l i fresh))) (fresh :: ids l).
Proof.
  induction l as [| y r IH]; cbn; [discriminate |].
  destruct (u_id y =? i); cbn.
  - intros _. apply Permutation_refl.
  - intros H. specialize (IH H). destruct (redo_in_seq r i fresh) as [r' b]. cbn in *.
    eapply perm_trans; [apply perm_skip, IH | apply perm_swap].
Qed.
Lemma redsub_redo_in_seq l i fresh (P : N -> Prop) : P fresh -> redsub l (fst (redo_in_seq l i fresh)) P.
Proof.
  intros HP. induction l as [| y r IH]; cbn; [apply redsub_refl |].
  destruct (u_id y =? i); cbn.
  - intros z rr [<- | [<- | Hz]] Hr; cbn in Hr; try discriminate.
    + inversion Hr; subst; auto.
    + left. exists z. split; [right; auto | auto].
  - destruct (redo_in_seq r i fresh) as [r' b]. cbn in *. apply redsub_cons; auto.
Qed.

Lemma ids_map_set_red c i fresh : ids (map (fun z => if u_id z =? i then set_red z fresh else z) c) = ids c.
Proof. induction c as [| y r IH]; cbn; auto. rewrite IH. destruct (u_id y =? i); reflexivity. Qed.
Lemma redsub_map_set_red c i fresh (P : N -> Prop) : P fresh -> redsub c (map (fun z => if u_id z =? i then set_red z fresh else z) c) P.
Proof.
  intros HP. induction c as [| y r IH]; cbn; [apply redsub_refl |].
  intros z rr [<- | Hz] Hr.
  - destruct (u_id y =? i); cbn in Hr.
    + inversion Hr; subst; auto.
    + left. exists y. split; [left; auto | auto].
  - destruct (IH z rr Hz Hr) as [(w & Hw & E) | K]; auto. left. exists w. split; [right; auto | auto].
Qed.

Lemma ids_redo_in_chain c i fresh td s1 s2 c' :
  redo_in_chain c i fresh td s1 s2 = Some c' -> ids c' = ids c ++ [fresh].
Proof.
  unfold redo_in_chain. destruct (ufind c i) as [y |]; [| discriminate].
  destruct (walk_right _ _ _ _ _ _); [| discriminate].
  pose proof (ids_delete_last (map (fun z => if u_id z =? i then set_red z fresh else z) c)) as K.
  destruct (delete_last _) as [c'' o]. cbn in K. intros E. inversion E; subst c'.
  rewrite map_app, K, ids_map_set_red. reflexivity.
Qed.
Lemma redsub_redo_in_chain c i fresh td s1 s2 c' (P : N -> Prop) :
  P fresh -> redo_in_chain c i fresh td s1 s2 = Some c' -> redsub c c' P.
Proof.
  intros HP. unfold redo_in_chain. destruct (ufind c i) as [y |]; [| discriminate].
  destruct (walk_right _ _ _ _ _ _); [| discriminate].
  pose proof (redsub_delete_last (map (fun z => if u_id z =? i then set_red z fresh else z) c) P) as K.
  destruct (delete_last _) as [c'' o]. cbn in K. intros E. inversion E; subst c'.
  intros z rr Hz Hr. apply in_app_or in Hz. destruct Hz as [Hz | [<- | []]]; [| discriminate].
  destruct (K z rr Hz Hr) as [(w & Hw & E') | Q]; auto.
  apply (redsub_map_set_red c i fresh P HP w rr Hw E').
Qed.

Lemma ids_redo_in_maps (m : list (N * list uitem)) i fresh td s1 s2 m' :
  redo_in_maps m i fresh td s1 s2 = Some m' ->
  Permutation (ids (flat_map snd m')) (fresh :: ids (flat_map snd m)).
Proof.
  revert m'. induction m as [| [k c] r IH]; intros m'; cbn; [discriminate |].
  destruct (existsb _ c).
  - destruct (redo_in_chain c i fresh td s1 s2) as [c' |] eqn:E; cbn; [| discriminate].
    intros H; inversion H; subst m'. cbn. rewrite !map_app. rewrite (ids_redo_in_chain _ _ _ _ _ _ _ E).
    rewrite <- app_assoc. cbn. apply Permutation_sym. apply Permutation_middle.
  - destruct (redo_in_maps r i fresh td s1 s2) as [r' |] eqn:E; cbn; [| discriminate].
    intros H; inversion H; subst m'. cbn. rewrite !map_app.
    eapply perm_trans; [apply Permutation_app_head, IH; reflexivity |].
    apply Permutation_sym. apply Permutation_middle.
Qed.
Lemma redsub_redo_in_maps (m : list (N * list uitem)) i fresh td s1 s2 m' (P : N -> Prop) :
  P fresh -> redo_in_maps m i fresh td s1 s2 = Some m' -> redsub (flat_map snd m) (flat_map snd m') P.
Proof.
  intros HP. revert m'. induction m as [| [k c] r IH]; intros m'; cbn; [discriminate |].
  destruct (existsb _ c).
  - destruct (redo_in_chain c i fresh td s1 s2) as [c' |] eqn:E; cbn; [| discriminate].
    intros H; inversion H; subst m'. cbn. apply redsub_app; [eapply redsub_redo_in_chain; eauto | apply redsub_refl].
  - destruct (redo_in_maps r i fresh td s1 s2) as [r' |] eqn:E; cbn; [| discriminate].
    intros H; inversion H; subst m'. cbn. apply redsub_app; [apply redsub_refl | auto].
Qed.

Lemma ids_set_chain (m : list (N * list uitem)) k c' extra :
  ids c' = ids (chain_of m k) ++ extra ->
  Permutation (ids (flat_map snd (set_chain m k c'))) (extra ++ ids (flat_map snd m)).
Proof.
  induction m as [| [k' c] r IH]; cbn; intros H.
  - rewrite app_nil_r in *. cbn in H. rewrite H. rewrite app_nil_r. apply Permutation_refl.
  - destruct (k' =? k); cbn; rewrite !map_app.
    + rewrite H. rewrite (app_assoc extra). apply Permutation_app_tail. apply Permutation_app_comm.
    + eapply perm_trans; [apply Permutation_app_head, IH; auto |].
      rewrite !app_assoc. apply Permutation_app_tail. apply Permutation_app_comm.
Qed.
Lemma redsub_set_chain (m : list (N * list uitem)) k c' P :
  redsub (chain_of m k) c' P -> redsub (flat_map snd m) (flat_map snd (set_chain m k c')) P.
Proof.
  induction m as [| [k' c] r IH]; cbn; intros H.
  - rewrite app_nil_r. auto.
  - destruct (k' =? k); cbn.
    + apply redsub_app; auto using redsub_refl.
    + apply redsub_app; auto using redsub_refl.
Qed.
Lemma ids_map_umark (m : list (N * list uitem)) i :
  ids (flat_map snd (map (fun kc => (fst kc, umark_deleted (snd kc) i)) m)) = ids (flat_map snd m).
Proof. induction m as [| [k c] r IH]; cbn; auto. rewrite !map_app, IH, ids_umark. reflexivity. Qed.
Lemma redsub_map_umark (m : list (N * list uitem)) i P :
  redsub (flat_map snd m) (flat_map snd (map (fun kc => (fst kc, umark_deleted (snd kc) i)) m)) P.
Proof. induction m as [| [k c] r IH]; cbn; [apply redsub_refl |]. apply redsub_app; auto using redsub_umark. Qed.

Lemma nodup_app {X} (l1 l2 : list X) : NoDup l1 -> NoDup l2 -> (forall x, In x l1 -> ~ In x l2) -> NoDup (l1 ++ l2).
Proof.
  induction l1 as [| a l1 IH]; cbn; intros H1 H2 D; auto.
  inversion H1; subst. constructor.
  - intros H. apply in_app_or in H. destruct H as [H | H]; [auto | apply (D a); auto].
  - apply IH; auto.
Qed.

Lemma nodup_app_l {X} (l1 l2 : list X) : NoDup (l1 ++ l2) -> NoDup l1.
Proof.
  induction l1 as [| a l1 IH]; cbn; intros H; [constructor |]. inversion H; subst. constructor; auto.
  intros F. apply H2. apply in_or_app; auto.
Qed.
Lemma nodup_app_r {X} (l1 l2 : list X) : NoDup (l1 ++ l2) -> NoDup l2.
Proof. induction l1 as [| a l1 IH]; cbn; intros H; auto. inversion H; auto. Qed.
Lemma nodup_app_disj {X} (l1 l2 : list X) x : NoDup (l1 ++ l2) -> In x l1 -> In x l2 -> False.
Proof.
  induction l1 as [| a l1 IH]; cbn; intros H H1 H2; [destruct H1 |]. inversion H; subst.
  destruct H1 as [-> | H1]; [apply H4; apply in_or_app; auto | auto].
Qed.

Lemma deadin_keeps l l' i : deadin l i -> keeps l l' -> deadin l' i.
Proof.
  intros (y & Hy & E & D) K. destruct (K y Hy) as (y' & Hy' & (A & _ & C)). exists y'. repeat split; auto. congruence.
Qed.

Record tspec (s s' : ustate) (e : ueff) : Prop := {
  ts_next : unext s <= unext s';
  ts_us : ustack s' = ustack s;
  ts_rs : rstack s' = rstack s;
  ts_perm : Permutation (all_ids s') (e_ins e ++ all_ids s);
  ts_ins : forall i, In i (e_ins e) -> unext s <= i < unext s';
  ts_nodup : NoDup (e_ins e);
  ts_reds : redsub (all_items s) (all_items s') (fun r => unext s <= r < unext s');
  ts_del : forall i, In i (e_del e) -> deadin (all_items s') i;
  ts_keeps : skeeps s s' }.

Lemma tspec_refl s : tspec s s eff0.
Proof.
  constructor; cbn; [lia | reflexivity | reflexivity | apply Permutation_refl | intros i [] | constructor
                    | apply redsub_refl | intros i [] | apply skeeps_refl].
Qed.

Lemma tspec_trans s s1 s2 e1 e2 : tspec s s1 e1 -> tspec s1 s2 e2 -> tspec s s2 (eff_app e1 e2).
Proof.
  intros A B. destruct A as [a1 a2 a3 a4 a5 a6 a7 a8 a9]. destruct B as [b1 b2 b3 b4 b5 b6 b7 b8 b9].
  constructor; cbn; try congruence; try lia.
  - eapply perm_trans; [apply b4 |]. eapply perm_trans; [apply Permutation_app_head, a4 |].
    rewrite app_assoc. apply Permutation_app_tail. apply Permutation_app_comm.
  - intros i Hi. apply in_app_or in Hi. destruct Hi as [Hi | Hi]; [apply a5 in Hi | apply b5 in Hi]; lia.
  - apply nodup_app; auto. intros x H1 H2. apply a5 in H1. apply b5 in H2. lia.
  - apply (redsub_trans _ (all_items s1) _ (fun r => unext s <= r < unext s2) (fun r => unext s <= r < unext s2)); [auto | |].
    + eapply redsub_weaken; [| apply a7]. cbn; intros; lia.
    + eapply redsub_weaken; [| apply b7]. cbn; intros; lia.
  - intros i Hi. apply in_app_or in Hi. destruct Hi as [Hi | Hi]; [| auto]. eapply deadin_keeps; [apply a8; auto | apply b9].
  - eapply skeeps_trans; eauto.
Qed.

Lemma deadin_app_l l r i : deadin l i -> deadin (l ++ r) i.
Proof. intros (y & Hy & K). exists y. split; [apply in_or_app; auto | auto]. Qed.
Lemma deadin_app_r l r i : deadin r i -> deadin (l ++ r) i.
Proof. intros (y & Hy & K). exists y. split; [apply in_or_app; auto | auto]. Qed.
Lemma deadin_set_chain (m : list (N * list uitem)) k c i : deadin c i -> deadin (flat_map snd (set_chain m k c)) i.
Proof.
  induction m as [| [k' c'] r IH]; cbn; intros H.
  - rewrite app_nil_r; auto.
  - destruct (k' =? k); cbn; [apply deadin_app_l; auto | apply deadin_app_r; auto].
Qed.

Lemma tspec_do_call s c : tspec s (fst (do_call s c)) (snd (do_call s c)).
Proof.
  pose proof (skeeps_do_call s c) as KP.
  destruct c as [pos v | pos | k v | k]; cbn in *.
  - constructor; cbn.
    + lia.
    + reflexivity.
    + reflexivity.
    + unfold all_ids, all_items; cbn. rewrite !map_app.
      eapply perm_trans; [apply Permutation_app_tail, ids_ibv |]. cbn. apply Permutation_refl.
    + intros i [<- | []]. lia.
    + repeat constructor. intros [].
    + unfold all_items; cbn. apply redsub_app; [apply redsub_ibv; reflexivity | apply redsub_refl].
    + intros i [].
    + exact KP.
  - pose proof (ids_delete_visible (seqc s) pos) as K1. pose proof (redsub_delete_visible (seqc s) pos (fun r => unext s <= r < unext s)) as K2.
    pose proof (dead_delete_visible (seqc s) pos) as K3.
    destruct (delete_visible (seqc s) pos) as [l o]. cbn in *.
    constructor; cbn.
    + lia.
    + reflexivity.
    + reflexivity.
    + unfold all_ids, all_items; cbn. rewrite !map_app, K1. apply Permutation_refl.
    + intros i [].
    + constructor.
    + unfold all_items; cbn. apply redsub_app; [auto | apply redsub_refl].
    + intros i Hi. destruct o as [j |]; [| destruct Hi]. destruct Hi as [<- | []].
      unfold all_items; cbn. apply deadin_app_l. auto.
    + exact KP.
  - pose proof (ids_delete_last (chain_of (mapc s) k)) as K1.
    pose proof (redsub_delete_last (chain_of (mapc s) k) (fun r => unext s <= r < unext s + 1)) as K2.
    pose proof (dead_delete_last (chain_of (mapc s) k)) as K3.
    destruct (delete_last (chain_of (mapc s) k)) as [c0 o]. cbn in *.
    constructor; cbn.
    + lia.
    + reflexivity.
    + reflexivity.
    + unfold all_ids, all_items; cbn. rewrite !map_app.
      eapply perm_trans; [apply Permutation_app_head, (ids_set_chain _ _ _ [unext s]) |].
      * rewrite map_app, K1. reflexivity.
      * cbn. apply Permutation_sym, Permutation_middle.
    + intros i [<- | []]. lia.
    + repeat constructor. intros [].
    + unfold all_items; cbn. apply redsub_app; [apply redsub_refl |]. apply redsub_set_chain.
      intros z rr Hz Hr. apply in_app_or in Hz. destruct Hz as [Hz | [<- | []]]; [| discriminate]. apply (K2 z rr Hz Hr).
    + intros i Hi. destruct o as [j |]; [| destruct Hi]. destruct Hi as [<- | []].
      unfold all_items; cbn. apply deadin_app_r. apply deadin_set_chain. apply deadin_app_l. auto.
    + exact KP.
  - pose proof (ids_delete_last (chain_of (mapc s) k)) as K1.
    pose proof (redsub_delete_last (chain_of (mapc s) k) (fun r => unext s <= r < unext s)) as K2.
    pose proof (dead_delete_last (chain_of (mapc s) k)) as K3.
    destruct (delete_last (chain_of (mapc s) k)) as [c0 o]. cbn in *.
    constructor; cbn.
    + lia.
    + reflexivity.
    + reflexivity.
    + unfold all_ids, all_items; cbn. rewrite !map_app. apply Permutation_app_head.
      destruct o; [| apply Permutation_refl].
      eapply perm_trans; [apply (ids_set_chain _ _ _ []); rewrite app_nil_r; auto | apply Permutation_refl].
    + intros i [].
    + constructor.
    + unfold all_items; cbn. apply redsub_app; [apply redsub_refl |]. destruct o; [| apply redsub_refl].
      apply redsub_set_chain. auto.
    + intros i Hi. destruct o as [j |]; [| destruct Hi]. destruct Hi as [<- | []].
      unfold all_items; cbn. apply deadin_app_r. apply deadin_set_chain. auto.
    + exact KP.
Qed.

Lemma tspec_fold_calls cs : forall s0 s e, tspec s0 s e ->
  let r := fold_left (fun acc c => let '(s1, e1) := acc in let '(s2, e2) := do_call s1 c in (s2, eff_app e1 e2)) cs (s, e) in
  tspec s0 (fst r) (snd r).
Proof.
  induction cs as [| c r IH]; intros s0 s e H; cbn; auto.
  pose proof (tspec_do_call s c) as K. destruct (do_call s c) as [s2 e2]. cbn in K.
  apply IH. eapply tspec_trans; eauto.
Qed.
Lemma tspec_do_txn s cs : tspec s (fst (do_txn s cs)) (snd (do_txn s cs)).
Proof. apply (tspec_fold_calls cs s s eff0). apply tspec_refl. Qed.

Lemma tspec_fold_txns txns : forall s0 s e, tspec s0 s e ->
  let r := fold_left (fun acc cs => let '(s1, e1) := acc in let '(s2, e2) := do_txn s1 cs in (s2, eff_app e1 e2)) txns (s, e) in
  tspec s0 (fst r) (snd r).
Proof.
  induction txns as [| c r IH]; intros s0 s e H; cbn; auto.
  pose proof (tspec_do_txn s c) as K. destruct (do_txn s c) as [s2 e2]. cbn in K.
  apply IH. eapply tspec_trans; eauto.
Qed.

Lemma tspec_add_del s s' e extra :
  tspec s s' e -> (forall i, In i extra -> deadin (all_items s') i) ->
  tspec s s' {| e_ins := e_ins e; e_del := e_del e ++ extra |}.
Proof.
  intros [a1 a2 a3 a4 a5 a6 a7 a8 a9] H. constructor; cbn; auto.
  intros i Hi. apply in_app_or in Hi. destruct Hi; auto.
Qed.

Lemma ufind_in l i y : ufind l i = Some y -> In y l /\ u_id y = i.
Proof.
  induction l as [| z r IH]; cbn; [discriminate |].
  destruct (u_id z =? i) eqn:E.
  - intros H; inversion H; subst. apply N.eqb_eq in E. auto.
  - intros H. destruct (IH H). auto.
Qed.
Lemma ufind_app l1 l2 i : ufind (l1 ++ l2) i = match ufind l1 i with Some y => Some y | None => ufind l2 i end.
Proof. induction l1 as [| z r IH]; cbn; auto. destruct (u_id z =? i); auto. Qed.
Lemma ufind_none l i : ufind l i = None -> ~ In i (ids l).
Proof.
  induction l as [| z r IH]; cbn; auto. destruct (u_id z =? i) eqn:E; [discriminate |].
  intros H [K | K]; [apply N.eqb_neq in E; auto | apply IH; auto].
Qed.
Lemma ufind_some_of_in l i : In i (ids l) -> exists y, ufind l i = Some y.
Proof.
  intros H. destruct (ufind l i) eqn:E; eauto. apply ufind_none in E. contradiction.
Qed.

Lemma dead_umark l i y : ufind l i = Some y -> deadin (umark_deleted l i) i.
Proof.
  induction l as [| z r IH]; cbn; [discriminate |].
  destruct (u_id z =? i) eqn:E.
  - intros _. apply N.eqb_eq in E. exists (set_del z). split; [left; auto | auto].
  - intros H. destruct (IH H) as (w & Hw & K). exists w. split; [right; auto | auto].
Qed.
Lemma dead_map_umark (m : list (N * list uitem)) i y :
  ufind (flat_map snd m) i = Some y -> deadin (flat_map snd (map (fun kc => (fst kc, umark_deleted (snd kc) i)) m)) i.
Proof.
  induction m as [| [k c] r IH]; cbn; [discriminate |].
  rewrite ufind_app. destruct (ufind c i) as [w |] eqn:E.
  - intros _. apply deadin_app_l. eapply dead_umark; eauto.
  - intros H. apply deadin_app_r. auto.
Qed.

Lemma tspec_delete_id s i : tspec s (delete_id s i) eff0.
Proof.
  constructor; cbn.
  - lia. - reflexivity. - reflexivity.
  - unfold all_ids, all_items; cbn. rewrite !map_app, ids_umark, ids_map_umark. apply Permutation_refl.
  - intros j []. - constructor.
  - unfold all_items; cbn. apply redsub_app; [apply redsub_umark | apply redsub_map_umark].
  - intros j [].
  - apply skeeps_delete_id.
Qed.
Lemma dead_delete_id s i y : ufind (all_items s) i = Some y -> deadin (all_items (delete_id s i)) i.
Proof.
  unfold all_items; cbn. rewrite ufind_app. destruct (ufind (seqc s) i) as [w |] eqn:E.
  - intros _. apply deadin_app_l. eapply dead_umark; eauto.
  - intros H. apply deadin_app_r. eapply dead_map_umark; eauto.
Qed.

Lemma tspec_eff0_trans s s1 s2 : tspec s s1 eff0 -> tspec s1 s2 eff0 -> tspec s s2 eff0.
Proof. intros A B. apply (tspec_trans _ _ _ _ _ A B). Qed.

Lemma tspec_delete_fold l : forall s, tspec s (fold_left delete_id l s) eff0.
Proof.
  induction l as [| i r IH]; intros s; cbn; [apply tspec_refl |].
  eapply tspec_eff0_trans; [apply tspec_delete_id | apply IH].
Qed.
Lemma ids_perm_in s s' e : tspec s s' e -> forall i, In i (all_ids s) -> In i (all_ids s').
Proof.
  intros H i Hi. eapply Permutation_in; [apply Permutation_sym, (ts_perm _ _ _ H) |]. apply in_or_app; auto.
Qed.
Lemma dead_delete_fold l : forall s i, In i l -> In i (all_ids s) -> deadin (all_items (fold_left delete_id l s)) i.
Proof.
  induction l as [| j r IH]; intros s i Hi Hs; cbn; [destruct Hi |].
  destruct Hi as [-> | Hi].
  - destruct (ufind_some_of_in _ _ Hs) as (y & Hy).
    eapply deadin_keeps; [eapply dead_delete_id; eauto | apply (ts_keeps _ _ _ (tspec_delete_fold r _))].
  - apply IH; auto. eapply ids_perm_in; [apply tspec_delete_id | auto].
Qed.

Lemma tspec_redo_item s i td s1 s2 :
  tspec s (fst (fst (redo_item s i td s1 s2))) (snd (redo_item s i td s1 s2)).
Proof.
  pose proof (skeeps_redo_item s i td s1 s2) as KP.
  unfold redo_item in *. destruct (ufind (all_items s) i) as [y |]; [| apply tspec_refl].
  destruct (u_red y); [apply tspec_refl |].
  destruct (existsb (fun z => u_id z =? i) (seqc s)) eqn:EX.
  - pose proof (ids_redo_in_seq (seqc s) i (unext s) EX) as K1.
    pose proof (redsub_redo_in_seq (seqc s) i (unext s) (fun r => unext s <= r < unext s + 1)) as K2.
    destruct (redo_in_seq (seqc s) i (unext s)) as [l b]. cbn in *.
    constructor; cbn.
    + lia. + reflexivity. + reflexivity.
    + unfold all_ids, all_items; cbn. rewrite !map_app. apply (Permutation_app_tail _ K1).
    + intros j [<- | []]. lia.
    + repeat constructor. intros [].
    + unfold all_items; cbn. apply redsub_app; [apply K2; lia | apply redsub_refl].
    + intros j [].
    + exact KP.
  - destruct (redo_in_maps (mapc s) i (unext s) td s1 s2) as [m |] eqn:E; cbn in *; [| apply tspec_refl].
    constructor; cbn.
    + lia. + reflexivity. + reflexivity.
    + unfold all_ids, all_items; cbn. rewrite !map_app.
      eapply perm_trans; [apply Permutation_app_head, (ids_redo_in_maps _ _ _ _ _ _ _ E) |].
      apply Permutation_sym, Permutation_middle.
    + intros j [<- | []]. lia.
    + repeat constructor. intros [].
    + unfold all_items; cbn. apply redsub_app; [apply redsub_refl |].
      eapply redsub_redo_in_maps; [| apply E]. cbn. lia.
    + intros j Hj. apply in_map_iff in Hj. destruct Hj as (z & <- & Hz).
      apply filter_In in Hz. destruct Hz as (Hz & G). apply filter_In in Hz. destruct Hz as (Hz & L).
      destruct (KP z Hz) as (z' & Hz' & (A & _ & _)).
      exists z'. split; [exact Hz' | split; [exact A |]].
      destruct (u_del z') eqn:D; auto. exfalso.
      apply negb_true_iff in G. rewrite <- not_true_iff_false in G. apply G.
      apply existsb_exists. exists z'. split.
      * apply filter_In. split; [exact Hz' | rewrite D; reflexivity].
      * apply N.eqb_eq. auto.
    + exact KP.
Qed.

Definition redo_fold (td : list N) (s1 s2 : list stackitem) (l : list N) (acc : ustate * bool * ueff) :=
  fold_left (fun acc i => let '(s0, c0, e0) := acc in
                          let '(s1', c1, e1) := redo_item s0 i td s1 s2 in (s1', c0 || c1, eff_app e0 e1)) l acc.

Lemma tspec_redo_fold td s1 s2 l : forall s0 s c e, tspec s0 s e ->
  tspec s0 (fst (fst (redo_fold td s1 s2 l (s, c, e)))) (snd (redo_fold td s1 s2 l (s, c, e))).
Proof.
  induction l as [| i r IH]; intros s0 s c e H; cbn; auto.
  pose proof (tspec_redo_item s i td s1 s2) as K. destruct (redo_item s i td s1 s2) as [[s1' c1] e1]. cbn in K.
  apply IH. eapply tspec_trans; eauto.
Qed.

Lemma uprocess_unfold s it s1 s2 :
  uprocess s it s1 s2 =
  let items := all_items s in
  let fuel := S (length items) in
  let to_delete := flat_map (fun i => match ufollow fuel items i with
                                      | Some y => if u_del y then [] else [u_id y]
                                      | None => []
                                      end) (st_ins it) in
  let to_redo := filter (fun i => negb (umem i (st_ins it))) (st_del it) in
  let r := redo_fold (st_ins it) s1 s2 to_redo (s, false, eff0) in
  let sa := fst (fst r) in let ca := snd (fst r) in let ea := snd r in
  let live_now := fun i => match ufind (all_items sa) i with Some y => negb (u_del y) | None => false end in
  let newly := filter live_now (rev to_delete) in
  let sb := fold_left delete_id (rev to_delete) sa in
  let changed := ca || negb (match to_delete with [] => true | _ => false end) in
  (sb, changed, {| e_ins := e_ins ea; e_del := e_del ea ++ newly |}).
Proof.
  unfold uprocess, redo_fold. cbv zeta.
  destruct (fold_left _ _ (s, false, eff0)) as [[sa ca] ea]. reflexivity.
Qed.

Lemma tspec_uprocess s it s1 s2 :
  tspec s (fst (fst (uprocess s it s1 s2))) (snd (uprocess s it s1 s2)).
Proof.
  rewrite uprocess_unfold. cbv zeta.
  set (td := flat_map _ (st_ins it)). set (tr := filter _ (st_del it)).
  pose proof (tspec_redo_fold (st_ins it) s1 s2 tr s s false eff0 (tspec_refl s)) as K.
  destruct (redo_fold (st_ins it) s1 s2 tr (s, false, eff0)) as [[sa ca] ea]. cbn in *.
  apply tspec_add_del.
  - pose proof (tspec_trans _ _ _ _ _ K (tspec_delete_fold (rev td) sa)) as K2.
    destruct K2 as [a1 a2 a3 a4 a5 a6 a7 a8 a9]. cbn in *. rewrite app_nil_r in *.
    constructor; auto.
  - intros i Hi. apply filter_In in Hi. destruct Hi as (Hi & L).
    apply dead_delete_fold; auto.
    destruct (ufind (all_items sa) i) as [y |] eqn:E; [| discriminate].
    apply ufind_in in E. destruct E as (E1 & <-). unfold all_ids. apply in_map; auto.
Qed.

Lemma in_sort_insert x y l : In x (sort_insert y l) <-> x = y \/ In x l.
Proof.
  induction l as [| z r IH]; cbn.
  - intuition.
  - destruct (y <? z); cbn; [intuition |]. destruct (y =? z) eqn:E.
    + apply N.eqb_eq in E. subst. cbn. intuition.
    + cbn. rewrite IH. intuition.
Qed.
Lemma in_sort_ids x l : In x (sort_ids l) <-> In x l.
Proof.
  induction l as [| z r IH]; cbn; [intuition |]. rewrite in_sort_insert, IH. intuition.
Qed.

Definition nrange (lo hi : N) : list N := map N.of_nat (seq (N.to_nat lo) (N.to_nat hi - N.to_nat lo)).
Lemma in_nrange lo hi i : In i (nrange lo hi) <-> lo <= i < hi.
Proof.
  unfold nrange. rewrite in_map_iff. split.
  - intros (n & <- & H). apply in_seq in H. lia.
  - intros H. exists (N.to_nat i). split; [apply N2Nat.id | apply in_seq; lia].
Qed.

Record BIg (s : ustate) (fo : list N) (stk : list stackitem) : Prop := {
  bi_nodup : NoDup (all_ids s);
  bi_lt : forall i, In i (all_ids s) -> i < unext s;
  bi_fo : forall i, In i fo -> i < unext s;
  bi_ins : forall E i, In E stk -> In i (st_ins E) -> i < unext s /\ ~ In i fo;
  bi_del : forall E i, In E stk -> In i (st_del E) -> deadin (all_items s) i;
  bi_red : forall y r, In y (all_items s) -> u_red y = Some r -> r < unext s /\ ~ In r fo }.

Lemma big_tspec s s' e fo stk : BIg s fo stk -> tspec s s' e -> BIg s' fo stk.
Proof.
  intros [a1 a2 a3 a4 a5 a6] [b1 b2 b3 b4 b5 b6 b7 b8 b9]. constructor.
  - eapply Permutation_NoDup; [apply Permutation_sym, b4 |]. apply nodup_app; auto.
    intros x H1 H2. apply b5 in H1. apply a2 in H2. lia.
  - intros i Hi. eapply Permutation_in in Hi; [| apply b4]. apply in_app_or in Hi.
    destruct Hi as [Hi | Hi]; [apply b5 in Hi | apply a2 in Hi]; lia.
  - intros i Hi. apply a3 in Hi. lia.
  - intros E i HE Hi. destruct (a4 E i HE Hi). split; auto. lia.
  - intros E i HE Hi. eapply deadin_keeps; [apply (a5 E i HE Hi) | apply b9].
  - intros y r Hy Hr. destruct (b7 y r Hy Hr) as [(z & Hz & Ez) | K].
    + destruct (a6 z r Hz Ez). split; auto. lia.
    + split; [lia |]. intros F. apply a3 in F. lia.
Qed.

Lemma big_push s0 s e fo stk0 stk :
  BIg s0 fo stk0 -> tspec s0 s e -> BIg s fo stk ->
  BIg s fo ({| st_ins := sort_ids (e_ins e); st_del := sort_ids (e_del e) |} :: stk).
Proof.
  intros [a1 a2 a3 a4 a5 a6] [b1 b2 b3 b4 b5 b6 b7 b8 b9] [c1 c2 c3 c4 c5 c6]. constructor; auto.
  - intros E i [<- | HE] Hi; [| eauto]. cbn in Hi. rewrite in_sort_ids in Hi. apply b5 in Hi.
    split; [lia |]. intros F. apply a3 in F. lia.
  - intros E i [<- | HE] Hi; [| eauto]. cbn in Hi. rewrite in_sort_ids in Hi. auto.
Qed.

Lemma big_sub s fo stk stk' : BIg s fo stk -> incl stk' stk -> BIg s fo stk'.
Proof. intros [a1 a2 a3 a4 a5 a6] H. constructor; eauto. Qed.

Lemma big_stacks s fo stk us rs :
  BIg s fo stk -> BIg {| seqc := seqc s; mapc := mapc s; unext := unext s; ustack := us; rstack := rs |} fo stk.
Proof. intros [a1 a2 a3 a4 a5 a6]. constructor; auto. Qed.

Definition BI (s : ustate) (fo : list N) : Prop := BIg s fo (ustack s ++ rstack s).

(* other origins: no new redone pointers *)
Lemma noreds_do_call s c : redsub (all_items s) (all_items (fst (do_call s c))) (fun _ => False).
Proof.
  destruct c as [pos v | pos | k v | k]; cbn in *; unfold all_items.
  - cbn. apply redsub_app; [apply redsub_ibv; reflexivity | apply redsub_refl].
  - pose proof (redsub_delete_visible (seqc s) pos (fun _ => False)) as K2.
    destruct (delete_visible (seqc s) pos) as [l o]. cbn in *. apply redsub_app; [auto | apply redsub_refl].
  - pose proof (redsub_delete_last (chain_of (mapc s) k) (fun _ => False)) as K2.
    destruct (delete_last (chain_of (mapc s) k)) as [c0 o]. cbn in *.
    apply redsub_app; [apply redsub_refl |]. apply redsub_set_chain.
    intros z rr Hz Hr. apply in_app_or in Hz. destruct Hz as [Hz | [<- | []]]; [| discriminate]. apply (K2 z rr Hz Hr).
  - pose proof (redsub_delete_last (chain_of (mapc s) k) (fun _ => False)) as K2.
    destruct (delete_last (chain_of (mapc s) k)) as [c0 o]. cbn in *.
    apply redsub_app; [apply redsub_refl |]. destruct o; [| apply redsub_refl]. apply redsub_set_chain. auto.
Qed.
Lemma noreds_fold_calls cs : forall s0 s e, redsub (all_items s0) (all_items s) (fun _ => False) ->
  redsub (all_items s0) (all_items (fst (fold_left (fun acc c => let '(s1, e1) := acc in let '(s2, e2) := do_call s1 c in (s2, eff_app e1 e2)) cs (s, e)))) (fun _ => False).
Proof.
  induction cs as [| c r IH]; intros s0 s e H; cbn; auto.
  pose proof (noreds_do_call s c) as K. destruct (do_call s c) as [s2 e2]. cbn in K.
  apply IH. apply (redsub_trans _ (all_items s) _ (fun _ => False) (fun _ => False)); auto.
Qed.
Lemma noreds_do_txn s cs : redsub (all_items s) (all_items (fst (do_txn s cs))) (fun _ => False).
Proof. apply noreds_fold_calls. apply redsub_refl. Qed.

Lemma big_foreign s cs fo :
  BI s fo -> BI (other_txn s cs) (fo ++ nrange (unext s) (unext (other_txn s cs))).
Proof.
  unfold BI, other_txn. intros H. pose proof (tspec_do_txn s cs) as T. pose proof (noreds_do_txn s cs) as R.
  pose proof (big_tspec _ _ _ _ _ H T) as [c1 c2 c3 c4 c5 c6].
  destruct H as [a1 a2 a3 a4 a5 a6]. destruct T as [b1 b2 b3 b4 b5 b6 b7 b8 b9].
  rewrite b2, b3. constructor; auto.
  - intros i Hi. apply in_app_or in Hi. destruct Hi as [Hi | Hi]; [auto | apply in_nrange in Hi; lia].
  - intros E i HE Hi. destruct (a4 E i HE Hi) as (L & NF). split; [lia |].
    intros F. apply in_app_or in F. destruct F as [F | F]; [auto | apply in_nrange in F; lia].
  - intros y r Hy Hr. destruct (R y r Hy Hr) as [(z & Hz & Ez) | []].
    destruct (a6 z r Hz Ez) as (L & NF). split; [lia |].
    intros F. apply in_app_or in F. destruct F as [F | F]; [auto | apply in_nrange in F; lia].
Qed.

Lemma bi_tracked_step s txns fo : BI s fo -> BI (tracked_step s txns) fo.
Proof.
  unfold BI, tracked_step. intros H.
  pose proof (tspec_fold_txns txns s s eff0 (tspec_refl s)) as T. cbv zeta in T.
  destruct (fold_left _ txns (s, eff0)) as [s' e]. cbn in T.
  pose proof (big_tspec _ _ _ _ _ H T) as H'.
  destruct (eff_empty e).
  - rewrite (ts_us _ _ _ T), (ts_rs _ _ _ T). auto.
  - cbn. apply big_stacks. rewrite (ts_us _ _ _ T).
    eapply big_sub; [eapply big_push; [apply H | apply T | apply H'] |].
    intros E HE. cbn in HE. rewrite app_nil_r in HE. destruct HE as [<- | HE]; [left; auto | right; apply in_or_app; auto].
Qed.

(* ---- liveness of foreign ids through processing ---- *)
Definition livein (l : list uitem) (i : N) : Prop := exists y, In y l /\ u_id y = i /\ u_del y = false.
Lemma live_ids_iff s i : In i (live_ids s) <-> livein (all_items s) i.
Proof.
  unfold live_ids, livein. rewrite in_map_iff. split.
  - intros (y & E & H). apply filter_In in H. destruct H as (H & L). exists y. repeat split; auto.
    apply negb_true_iff in L. auto.
  - intros (y & H & E & L). exists y. split; auto. apply filter_In. split; auto. rewrite L. reflexivity.
Qed.
Lemma livein_app_l l r i : livein l i -> livein (l ++ r) i.
Proof. intros (y & Hy & K). exists y. split; [apply in_or_app; auto | auto]. Qed.
Lemma livein_app_r l r i : livein r i -> livein (l ++ r) i.
Proof. intros (y & Hy & K). exists y. split; [apply in_or_app; auto | auto]. Qed.
Lemma livein_app_or l r i : livein (l ++ r) i -> livein l i \/ livein r i.
Proof. intros (y & Hy & K). apply in_app_or in Hy. destruct Hy; [left | right]; exists y; auto. Qed.

Lemma nodup_ids_inj c a b : NoDup (ids c) -> In a c -> In b c -> u_id a = u_id b -> a = b.
Proof.
  induction c as [| y r IH]; cbn; intros ND Ha Hb E; [destruct Ha |].
  inversion ND; subst. destruct Ha as [<- | Ha], Hb as [<- | Hb]; auto.
  - exfalso. apply H1. rewrite E. apply in_map; auto.
  - exfalso. apply H1. rewrite <- E. apply in_map; auto.
Qed.

Lemma livein_umark l h i : livein l i -> i <> h -> livein (umark_deleted l h) i.
Proof.
  intros (y & Hy & E & L) NE. induction l as [| z r IH]; cbn; [destruct Hy |].
  destruct (u_id z =? h) eqn:Q.
  - destruct Hy as [<- | Hy].
    + apply N.eqb_eq in Q. congruence.
    + exists y. split; [right; auto | auto].
  - destruct Hy as [<- | Hy].
    + exists z. split; [left; auto | auto].
    + destruct (IH Hy) as (w & Hw & K). exists w. split; [right; auto | auto].
Qed.
Lemma livein_map_umark (m : list (N * list uitem)) h i :
  livein (flat_map snd m) i -> i <> h -> livein (flat_map snd (map (fun kc => (fst kc, umark_deleted (snd kc) h)) m)) i.
Proof.
  intros H NE. induction m as [| [k c] r IH]; cbn in *; auto.
  apply livein_app_or in H. destruct H as [H | H].
  - apply livein_app_l. apply livein_umark; auto.
  - apply livein_app_r. auto.
Qed.
Lemma livein_delete_id s h i : livein (all_items s) i -> i <> h -> livein (all_items (delete_id s h)) i.
Proof.
  unfold all_items; cbn. intros H NE. apply livein_app_or in H. destruct H as [H | H].
  - apply livein_app_l. apply livein_umark; auto.
  - apply livein_app_r. apply livein_map_umark; auto.
Qed.
Lemma livein_delete_fold l : forall s i, livein (all_items s) i -> ~ In i l -> livein (all_items (fold_left delete_id l s)) i.
Proof.
  induction l as [| h r IH]; intros s i H NI; cbn; auto.
  apply IH; [apply livein_delete_id; auto |]; intros F; apply NI; [left | right]; auto.
Qed.

Lemma livein_redo_in_seq l j fresh i : livein l i -> livein (fst (redo_in_seq l j fresh)) i.
Proof.
  intros (y & Hy & E & L). induction l as [| z r IH]; cbn; [destruct Hy |].
  destruct (u_id z =? j) eqn:Q; cbn.
  - destruct Hy as [<- | Hy].
    + exists (set_red z fresh). split; [right; left; auto | auto].
    + exists y. split; [right; right; auto | auto].
  - destruct (redo_in_seq r j fresh) as [r' b] eqn:R. cbn in *. destruct Hy as [<- | Hy].
    + exists z. split; [left; auto | auto].
    + destruct (IH Hy) as (w & Hw & K). exists w. split; [right; auto | auto].
Qed.

Lemma ufollow_spec f l : forall i w, ufollow f l i = Some w ->
  In w l /\ u_red w = None /\ (u_id w = i \/ exists y, In y l /\ u_red y = Some (u_id w)).
Proof.
  induction f as [| f IH]; intros i w; cbn; [discriminate |].
  destruct (ufind l i) as [y |] eqn:E; [| discriminate]. apply ufind_in in E. destruct E as (Hy & Ey).
  destruct (u_red y) as [r |] eqn:R.
  - intros H. destruct (IH r w H) as (A & B & C). split; auto. split; auto. right.
    destruct C as [C | C]; auto. exists y. split; auto. congruence.
  - intros H. inversion H; subst. auto.
Qed.

Lemma right_of_in c i z : right_of c i = Some z -> In z c.
Proof.
  induction c as [| y r IH]; cbn; [discriminate |]. destruct (u_id y =? i).
  - destruct r as [| z' r']; [discriminate |]. intros H; inversion H; subst. right; left; auto.
  - intros H. right. auto.
Qed.
Lemma right_of_none_last c w : NoDup (ids c) -> In w c -> right_of c (u_id w) = None -> exists c0, c = c0 ++ [w].
Proof.
  induction c as [| y r IH]; cbn; intros ND Hw H; [destruct Hw |].
  inversion ND; subst. destruct (u_id y =? u_id w) eqn:Q.
  - apply N.eqb_eq in Q. assert (y = w) as ->.
    { destruct Hw as [Hw | Hw]; auto. exfalso. apply H2. rewrite Q. apply in_map; auto. }
    destruct r; [exists []; reflexivity | discriminate].
  - destruct Hw as [-> | Hw]; [rewrite N.eqb_refl in Q; discriminate |].
    destruct (IH H3 Hw H) as (c0 & ->). exists (y :: c0). reflexivity.
Qed.

Lemma walk_end f c : forall cur td s1 s2, walk_right f c cur td s1 s2 = true ->
  exists fin, right_of c fin = None /\
    (fin = cur \/ exists z w, In z c /\ passable td s1 s2 z = true /\ ufollow (S (length c)) c (u_id z) = Some w /\ u_id w = fin).
Proof.
  induction f as [| f IH]; intros cur td s1 s2; [discriminate |].
  cbn -[ufollow]. destruct (right_of c cur) as [z |] eqn:R.
  - destruct (passable td s1 s2 z) eqn:P; [| discriminate].
    destruct (ufollow (S (length c)) c (u_id z)) as [w |] eqn:F; [| discriminate].
    intros H. destruct (IH _ _ _ _ H) as (fin & A & B). exists fin. split; auto. right.
    destruct B as [-> | B]; auto. exists z, w. repeat split; auto. eapply right_of_in; eauto.
  - intros _. exists cur. auto.
Qed.

Lemma redo_in_chain_fkeep fo c j fresh td s1 s2 c' :
  NoDup (ids c) ->
  (forall y r, In y c -> u_red y = Some r -> ~ In r fo) ->
  (forall i, In i td -> ~ In i fo) ->
  (forall y, In y c -> stack_deleted s1 (u_id y) || stack_deleted s2 (u_id y) = true -> u_del y = true) ->
  (forall y, In y c -> u_id y = j -> u_del y = true) ->
  redo_in_chain c j fresh td s1 s2 = Some c' ->
  forall i, In i fo -> livein c i -> livein c' i.
Proof.
  intros ND HR HT HS HJ. unfold redo_in_chain.
  destruct (ufind c j) as [y0 |] eqn:F0; [| discriminate]. apply ufind_in in F0. destruct F0 as (Hy0 & Ey0).
  destruct (walk_right (S (length c)) c j td s1 s2) eqn:W; [| discriminate].
  destruct (list_last_case c) as [-> | (c0 & w & ->)]; [destruct Hy0 |].
  rewrite map_app. cbn [map]. rewrite delete_last_app. intros H; inversion H; subst c'. clear H.
  intros i Hi (y & Hy & Ey & Ly). apply in_app_or in Hy. destruct Hy as [Hy | [<- | []]].
  - exists (if u_id y =? j then set_red y fresh else y). split.
    + apply in_or_app; left. apply in_or_app; left. apply (in_map (fun z => if u_id z =? j then set_red z fresh else z)); auto.
    + destruct (u_id y =? j); auto.
  - exfalso. (* the last unit is live and foreign: impossible *)
    apply walk_end in W. destruct W as (fin & RN & [-> | (z & w' & Hz & Pz & Fz & Ew)]).
    + (* the walk never moved: the last unit is the re-created one, which is dead *)
      destruct (right_of_none_last _ y0 ND Hy0) as (c1 & E1); [rewrite Ey0; auto |].
      apply app_inj_tail in E1. destruct E1 as (_ & <-).
      rewrite (HJ w) in Ly; [discriminate | apply in_or_app; right; left; auto | auto].
    + apply ufollow_spec in Fz. destruct Fz as (Hw' & Rw' & Cw').
      destruct (right_of_none_last _ w' ND Hw') as (c1 & E1); [rewrite Ew; auto |].
      apply app_inj_tail in E1. destruct E1 as (_ & <-).
      destruct Cw' as [Cw' | (y1 & Hy1 & Ry1)].
      * assert (w = z) as <- by (eapply nodup_ids_inj; eauto).
        unfold passable in Pz. rewrite Rw', Ly in Pz. cbn in Pz.
        destruct (umem (u_id w) td) eqn:M.
        -- unfold umem in M. apply existsb_exists in M. destruct M as (x & Hx & Ex). apply N.eqb_eq in Ex. subst x.
           apply (HT _ Hx). rewrite Ey. auto.
        -- cbn in Pz. rewrite (HS w Hw' Pz) in Ly. discriminate.
      * apply (HR y1 (u_id w) Hy1 Ry1). rewrite Ey. auto.
Qed.

Lemma redo_in_maps_fkeep fo (m : list (N * list uitem)) j fresh td s1 s2 m' :
  NoDup (ids (flat_map snd m)) ->
  (forall y r, In y (flat_map snd m) -> u_red y = Some r -> ~ In r fo) ->
  (forall i, In i td -> ~ In i fo) ->
  (forall y, In y (flat_map snd m) -> stack_deleted s1 (u_id y) || stack_deleted s2 (u_id y) = true -> u_del y = true) ->
  (forall y, In y (flat_map snd m) -> u_id y = j -> u_del y = true) ->
  redo_in_maps m j fresh td s1 s2 = Some m' ->
  forall i, In i fo -> livein (flat_map snd m) i -> livein (flat_map snd m') i.
Proof.
  revert m'. induction m as [| [k c] r IH]; intros m' ND HR HT HS HJ; cbn in *; [discriminate |].
  rewrite map_app in ND.
  destruct (existsb _ c).
  - destruct (redo_in_chain c j fresh td s1 s2) as [c' |] eqn:E; cbn; [| discriminate].
    intros H; inversion H; subst m'. cbn. intros i Hi L. apply livein_app_or in L. destruct L as [L | L].
    + apply livein_app_l. eapply (redo_in_chain_fkeep fo c); eauto.
      * eapply nodup_app_l; eauto.
      * intros y rr Hy. apply HR. apply in_or_app; auto.
      * intros y Hy. apply HS. apply in_or_app; auto.
      * intros y Hy. apply HJ. apply in_or_app; auto.
    + apply livein_app_r. auto.
  - destruct (redo_in_maps r j fresh td s1 s2) as [r' |] eqn:E; cbn; [| discriminate].
    intros H; inversion H; subst m'. cbn. intros i Hi L. apply livein_app_or in L. destruct L as [L | L].
    + apply livein_app_l. auto.
    + apply livein_app_r. eapply IH; eauto.
      * eapply nodup_app_r; eauto.
      * intros y rr Hy. apply HR. apply in_or_app; auto.
      * intros y Hy. apply HS. apply in_or_app; auto.
      * intros y Hy. apply HJ. apply in_or_app; auto.
Qed.

Definition fkeep (fo : list N) (s s' : ustate) : Prop := forall i, In i fo -> livein (all_items s) i -> livein (all_items s') i.

Lemma deadin_dead s i y : NoDup (all_ids s) -> deadin (all_items s) i -> In y (all_items s) -> u_id y = i -> u_del y = true.
Proof.
  intros ND (z & Hz & Ez & Dz) Hy Ey. assert (y = z) as -> by (eapply nodup_ids_inj; eauto; congruence). auto.
Qed.

Lemma stack_deleted_in st i : stack_deleted st i = true -> exists E, In E st /\ In i (st_del E).
Proof.
  unfold stack_deleted. intros H. apply existsb_exists in H. destruct H as (E & HE & M).
  unfold umem in M. apply existsb_exists in M. destruct M as (x & Hx & Ex). apply N.eqb_eq in Ex. subst x. eauto.
Qed.

Lemma redo_item_fkeep fo s j it s1 s2 :
  BIg s fo (it :: s1 ++ s2) -> In j (st_del it) ->
  fkeep fo s (fst (fst (redo_item s j (st_ins it) s1 s2))).
Proof.
  intros [a1 a2 a3 a4 a5 a6] Hj i Hi L. unfold redo_item.
  destruct (ufind (all_items s) j) as [y |]; [| exact L].
  destruct (u_red y); [exact L |].
  destruct (existsb (fun z => u_id z =? j) (seqc s)).
  - pose proof (livein_redo_in_seq (seqc s) j (unext s) i) as K.
    destruct (redo_in_seq (seqc s) j (unext s)) as [l b]. cbn in *.
    unfold all_items in *; cbn. apply livein_app_or in L. destruct L as [L | L]; [apply livein_app_l; auto | apply livein_app_r; auto].
  - destruct (redo_in_maps (mapc s) j (unext s) (st_ins it) s1 s2) as [m |] eqn:E; cbn; [| exact L].
    unfold all_items in *; cbn. apply livein_app_or in L. destruct L as [L | L]; [apply livein_app_l; auto | apply livein_app_r].
    assert (IM : forall y, In y (flat_map snd (mapc s)) -> In y (seqc s ++ flat_map snd (mapc s))) by (intros; apply in_or_app; auto).
    eapply (redo_in_maps_fkeep fo (mapc s)); eauto.
    + unfold all_ids, all_items in a1. rewrite map_app in a1. eapply nodup_app_r; eauto.
    + intros y0 r Hy0 Hr. apply (a6 y0 r (IM _ Hy0) Hr).
    + intros i0 Hi0. apply (a4 it i0); [left; auto | auto].
    + intros y0 Hy0 SD. apply orb_true_iff in SD.
      assert (exists E0, In E0 (it :: s1 ++ s2) /\ In (u_id y0) (st_del E0)) as (E0 & HE0 & HD0).
      { destruct SD as [SD | SD]; apply stack_deleted_in in SD; destruct SD as (E0 & HE0 & HD0); exists E0; split; auto;
          right; apply in_or_app; auto. }
      eapply (deadin_dead s); eauto.
    + intros y0 Hy0 Ey0. eapply (deadin_dead s); eauto. apply (a5 it j); [left; auto | auto].
Qed.

Lemma fkeep_redo_fold fo it s1 s2 l : forall s c e,
  BIg s fo (it :: s1 ++ s2) -> (forall j, In j l -> In j (st_del it)) ->
  fkeep fo s (fst (fst (redo_fold (st_ins it) s1 s2 l (s, c, e)))).
Proof.
  induction l as [| j r IH]; intros s c e B HL; cbn; [intros i _ L; exact L |].
  pose proof (redo_item_fkeep fo s j it s1 s2 B (HL j (or_introl eq_refl))) as K.
  pose proof (tspec_redo_item s j (st_ins it) s1 s2) as T.
  destruct (redo_item s j (st_ins it) s1 s2) as [[s1' c1] e1]. cbn in K, T.
  intros i Hi L. apply IH; auto.
  - eapply big_tspec; eauto.
  - intros j' Hj'. apply HL. right; auto.
Qed.

Lemma uprocess_fkeep fo s it s1 s2 :
  BIg s fo (it :: s1 ++ s2) -> fkeep fo s (fst (fst (uprocess s it s1 s2))).
Proof.
  intros B. rewrite uprocess_unfold. cbv zeta.
  set (td := flat_map _ (st_ins it)). set (tr := filter _ (st_del it)).
  pose proof (fkeep_redo_fold fo it s1 s2 tr s false eff0 B) as K.
  destruct (redo_fold (st_ins it) s1 s2 tr (s, false, eff0)) as [[sa ca] ea]. cbn [fst snd] in *.
  intros i Hi L. apply livein_delete_fold.
  - apply K; auto. intros j Hj. apply filter_In in Hj. tauto.
  - intros F. apply in_rev in F. unfold td in F. apply in_flat_map in F. destruct F as (x & Hx & F).
    destruct (ufollow (S (length (all_items s))) (all_items s) x) as [w |] eqn:FW; [| destruct F].
    destruct (u_del w); [destruct F |]. destruct F as [<- | []].
    apply ufollow_spec in FW. destruct FW as (Hw & _ & [Ew | (y1 & Hy1 & Ry1)]).
    + destruct (bi_ins _ _ _ B it x (or_introl eq_refl) Hx) as (_ & NF). apply NF. rewrite <- Ew. auto.
    + destruct (bi_red _ _ _ B y1 _ Hy1 Ry1) as (_ & NF). auto.
Qed.

Lemma bi_pop_undo_step fo s it rest :
  BI s fo -> ustack s = it :: rest ->
  let r := uprocess s it rest (rstack s) in
  BI {| seqc := seqc (fst (fst r)); mapc := mapc (fst (fst r)); unext := unext (fst (fst r)); ustack := rest;
        rstack := if snd (fst r) && negb (eff_empty (snd r)) then {| st_ins := sort_ids (e_ins (snd r)); st_del := sort_ids (e_del (snd r)) |} :: rstack s else rstack s |} fo
  /\ fkeep fo s (fst (fst r)).
Proof.
  unfold BI. intros B E. rewrite E in B. cbn in B. cbv zeta.
  pose proof (tspec_uprocess s it rest (rstack s)) as T.
  pose proof (uprocess_fkeep fo s it rest (rstack s) B) as K.
  destruct (uprocess s it rest (rstack s)) as [[s' ch] e]. cbn in *. split; auto.
  pose proof (big_tspec _ _ _ _ _ B T) as B'. apply big_stacks.
  destruct (ch && negb (eff_empty e)).
  - eapply big_sub; [eapply big_push; [apply B | apply T | apply B'] |].
    intros x Hx. apply in_app_or in Hx. destruct Hx as [Hx | [<- | Hx]].
    + right. right. apply in_or_app; auto.
    + left. auto.
    + right. right. apply in_or_app; auto.
  - eapply big_sub; [apply B' |]. intros x Hx. right. auto.
Qed.
Lemma bi_pop_redo_step fo s it rest :
  BI s fo -> rstack s = it :: rest ->
  let r := uprocess s it rest (ustack s) in
  BI {| seqc := seqc (fst (fst r)); mapc := mapc (fst (fst r)); unext := unext (fst (fst r));
        ustack := if snd (fst r) && negb (eff_empty (snd r)) then {| st_ins := sort_ids (e_ins (snd r)); st_del := sort_ids (e_del (snd r)) |} :: ustack s else ustack s;
        rstack := rest |} fo
  /\ fkeep fo s (fst (fst r)).
Proof.
  unfold BI. intros B E. rewrite E in B. cbv zeta.
  assert (B0 : BIg s fo (it :: rest ++ ustack s)).
  { eapply big_sub; [apply B |]. intros x [<- | Hx]; [apply in_or_app; right; left; auto |].
    apply in_app_or in Hx. apply in_or_app. destruct Hx; [right; right; auto | left; auto]. }
  pose proof (tspec_uprocess s it rest (ustack s)) as T.
  pose proof (uprocess_fkeep fo s it rest (ustack s) B0) as K.
  destruct (uprocess s it rest (ustack s)) as [[s' ch] e]. cbn in *. split; auto.
  pose proof (big_tspec _ _ _ _ _ B0 T) as B'. apply big_stacks.
  destruct (ch && negb (eff_empty e)).
  - eapply big_sub; [eapply big_push; [apply B0 | apply T | apply B'] |].
    intros x Hx. cbn in Hx. destruct Hx as [<- | Hx]; [left; auto |].
    apply in_app_or in Hx. right. right. apply in_or_app. destruct Hx; auto.
  - eapply big_sub; [apply B' |]. intros x Hx. right. apply in_app_or in Hx. apply in_or_app. destruct Hx; auto.
Qed.

Lemma bi_pop_undo fo fuel : forall s, BI s fo -> BI (fst (pop_undo fuel s)) fo /\ fkeep fo s (fst (pop_undo fuel s)).
Proof.
  induction fuel as [| f IH]; intros s B; cbn [pop_undo].
  - split; auto. intros i _ L; exact L.
  - destruct (ustack s) as [| it rest] eqn:E.
    + split; auto. intros i _ L; exact L.
    + pose proof (bi_pop_undo_step fo s it rest B E) as K. cbv zeta in K.
      destruct (uprocess s it rest (rstack s)) as [[s' ch] e]. cbn [fst snd] in K. destruct K as (K1 & K2).
      destruct ch; cbn [fst].
      * split; auto.
      * cbn [andb] in K1. destruct (IH _ K1) as (I1 & I2). split; auto.
        intros i Hi L. apply I2; [exact Hi | exact (K2 i Hi L)].
Qed.
Lemma bi_pop_redo fo fuel : forall s, BI s fo -> BI (fst (pop_redo fuel s)) fo /\ fkeep fo s (fst (pop_redo fuel s)).
Proof.
  induction fuel as [| f IH]; intros s B; cbn [pop_redo].
  - split; auto. intros i _ L; exact L.
  - destruct (rstack s) as [| it rest] eqn:E.
    + split; auto. intros i _ L; exact L.
    + pose proof (bi_pop_redo_step fo s it rest B E) as K. cbv zeta in K.
      destruct (uprocess s it rest (ustack s)) as [[s' ch] e]. cbn [fst snd] in K. destruct K as (K1 & K2).
      destruct ch; cbn [fst].
      * split; auto.
      * cbn [andb] in K1. destruct (IH _ K1) as (I1 & I2). split; auto.
        intros i Hi L. apply I2; [exact Hi | exact (K2 i Hi L)].
Qed.

(* the instrumented run: fo collects the ids created by AOther actions *)
Definition fstep (sf : ustate * list N) (a : uaction) : ustate * list N :=
  let s' := uact (fst sf) a in
  (s', match a with AOther _ => snd sf ++ nrange (unext (fst sf)) (unext s') | _ => snd sf end).
Definition frun (p : list uaction) : ustate * list N := fold_left fstep p (ustate0, []).

Lemma bi_init : BI ustate0 [].
Proof.
  unfold BI. constructor; cbn.
  - constructor. - intros i []. - intros i []. - intros E i []. - intros E i []. - intros y r [].
Qed.
Lemma bi_fstep sf a : BI (fst sf) (snd sf) -> BI (fst (fstep sf a)) (snd (fstep sf a)).
Proof.
  destruct sf as [s fo]. cbn [fst snd fstep]. intros B. destruct a as [txns | cs | |]; cbn [uact].
  - apply bi_tracked_step; auto.
  - apply big_foreign; auto.
  - apply bi_pop_undo; auto.
  - apply bi_pop_redo; auto.
Qed.
Lemma bi_fold p : forall sf, BI (fst sf) (snd sf) -> BI (fst (fold_left fstep p sf)) (snd (fold_left fstep p sf)).
Proof. induction p as [| a r IH]; intros sf B; cbn; auto. apply IH. apply bi_fstep; auto. Qed.

(* B: for every program (any actions, other origins included), every reached state s: a live unit that another
   origin inserted is still live after an undo call and after a redo call *)
Theorem undo_redo_keep_foreign_units : forall p i,
  let s := fst (frun p) in let fo := snd (frun p) in
  In i fo -> In i (live_ids s) ->
  In i (live_ids (fst (undo s))) /\ In i (live_ids (fst (redo s))).
Proof.
  intros p i s fo Hi L. pose proof (bi_fold p (ustate0, []) bi_init) as B. fold (frun p) in B. fold s fo in B.
  rewrite live_ids_iff in L. rewrite !live_ids_iff. split.
  - apply (proj2 (bi_pop_undo fo _ s B)); auto.
  - apply (proj2 (bi_pop_redo fo _ s B)); auto.
Qed.

(* the foreign ids of a run are exactly the ids allocated by its AOther actions *)
Lemma fstep_fo_spec sf a : snd (fstep sf a) = match a with AOther _ => snd sf ++ nrange (unext (fst sf)) (unext (uact (fst sf) a)) | _ => snd sf end.
Proof. reflexivity. Qed.


(* ---------------------------------------------------------------------------------------------- *)
(* A (bounded). The exhaustive check that was run before attempting the unbounded proof.
   Universe: at position d of a program the available actions are AUndo, ARedo and capture steps whose calls are
   drawn from calls_at (positions {0,1}, keys {1,2}, values distinct per position):
     acts_small d : the 8 single-call steps                                  (10 actions)
     acts_big d   : additionally all 64 two-call steps, each as one transaction of two calls and as two
                    transactions of one call                                 (138 actions)
   inverse_law_bounded covers ALL programs of length 6 over acts_small (10^6 programs, and all their prefixes) and
   ALL programs of length 3 over acts_big (138^3 = 2 628 072 programs, and all their prefixes). *)
Definition calls_at (v : N) : list ucall :=
  [CIns 0 v; CIns 1 (v + 1); CDel 0; CDel 1; CSet 1 (v + 2); CSet 2 (v + 3); CRem 1; CRem 2].
Definition steps1 (v : N) : list uaction := map (fun c => AStep [[c]]) (calls_at v).
Definition steps2 (v : N) : list uaction :=
  flat_map (fun c1 => flat_map (fun c2 => [AStep [[c1; c2]]; AStep [[c1]; [c2]]]) (calls_at (v + 4))) (calls_at v).
Definition acts_small (d : nat) : list uaction := AUndo :: ARedo :: steps1 (N.of_nat d * 8).
Definition acts_big (d : nat) : list uaction := AUndo :: ARedo :: steps1 (N.of_nat d * 8) ++ steps2 (N.of_nat d * 8).

Fixpoint progs (acts : nat -> list uaction) (d n : nat) : list (list uaction) :=
  match n with
  | O => [[]]
  | S n' => flat_map (fun a => map (cons a) (progs acts (S d) n')) (acts d)
  end.
Definition universe : list (list uaction) := progs acts_small 0 6 ++ progs acts_big 0 3.

Fixpoint check (acts : nat -> list uaction) (d n : nat) (s : ustate) (m : mirror) : bool :=
  match n with
  | O => true
  | S n' => forallb (fun a => match mirror_step s m a with Some (s', m') => check acts (S d) n' s' m' | None => false end) (acts d)
  end.

Lemma check_sound acts n : forall d s m, check acts d n s m = true -> forall p, In p (progs acts d n) -> mirror_run s m p = true.
Proof.
  induction n as [| n IH]; intros d s m H p Hp; cbn in *.
  - destruct Hp as [<- | []]. reflexivity.
  - apply in_flat_map in Hp. destruct Hp as (a & Ha & Hp). apply in_map_iff in Hp. destruct Hp as (q & <- & Hq).
    rewrite forallb_forall in H. specialize (H a Ha). cbn.
    destruct (mirror_step s m a) as [[s' m'] |]; [| discriminate]. eapply IH; eauto.
Qed.

Lemma check_small : check acts_small 0 6 ustate0 mirror0 = true.
Proof. vm_compute. reflexivity. Qed.
Lemma check_big : check acts_big 0 3 ustate0 mirror0 = true.
Proof. vm_compute. reflexivity. Qed.

Theorem inverse_law_bounded : forall p, In p universe -> mirror_run ustate0 mirror0 p = true.
Proof.
  intros p Hp. apply in_app_or in Hp. destruct Hp as [Hp | Hp].
  - eapply check_sound; [apply check_small | exact Hp].
  - eapply check_sound; [apply check_big | exact Hp].
Qed.

(* ---------------------------------------------------------------------------------------------- *)
(* D. non-vacuity *)

(* a step that inserts and deletes the same unit is passed over by undo: ONE undo call pops both entries and
   lands on the empty content before the first step *)
Definition ex_passed_over : list uaction := [AStep [[CIns 0 10]]; AStep [[CIns 1 11; CDel 1]]; AUndo].
Example ex_passed_over_ok : mirror_run ustate0 mirror0 ex_passed_over = true.
Proof. vm_compute. reflexivity. Qed.
Example ex_passed_over_cont :
  cont (urun ustate0 (firstn 2 ex_passed_over)) = ([10], []) /\
  cont (urun ustate0 ex_passed_over) = ([], []) /\
  length (ustack (urun ustate0 ex_passed_over)) = 0%nat /\ length (rstack (urun ustate0 ex_passed_over)) = 1%nat.
Proof. vm_compute. auto. Qed.

(* a key written and removed in one step, after an older value was removed in an earlier step: the step is
   invisible, the undo call passes over it and its second pop brings the OLDER value back *)
Definition ex_key_older : list uaction := [AStep [[CSet 1 10]]; AStep [[CRem 1]]; AStep [[CSet 1 11; CRem 1]]; AUndo].
Example ex_key_older_ok : mirror_run ustate0 mirror0 ex_key_older = true.
Proof. vm_compute. reflexivity. Qed.
Example ex_key_older_cont :
  cont (urun ustate0 (firstn 3 ex_key_older)) = ([], []) /\ cont (urun ustate0 ex_key_older) = ([], [(1, 10)]).
Proof. vm_compute. auto. Qed.
(* the same with a visible change in the third step: the first undo call removes only that step, the SECOND
   undo call brings the older value back; two redo calls go forward again *)
Definition ex_key_older2 : list uaction :=
  [AStep [[CSet 1 10]]; AStep [[CRem 1]]; AStep [[CSet 1 11; CRem 1]; [CIns 0 12]]; AUndo; AUndo; ARedo; ARedo].
Example ex_key_older2_ok : mirror_run ustate0 mirror0 ex_key_older2 = true.
Proof. vm_compute. reflexivity. Qed.
Example ex_key_older2_cont :
  cont (urun ustate0 (firstn 3 ex_key_older2)) = ([12], []) /\
  cont (urun ustate0 (firstn 4 ex_key_older2)) = ([], []) /\
  cont (urun ustate0 (firstn 5 ex_key_older2)) = ([], [(1, 10)]) /\
  cont (urun ustate0 ex_key_older2) = ([12], []).
Proof. vm_compute. auto. Qed.

(* redo after undo after a later deletion inside a re-created range: 10 11 12 inserted, all deleted, undo
   re-creates the range, a new step deletes the middle copy, undo re-creates the copy, redo deletes it again;
   two more undo calls and two redo calls walk the whole history *)
Definition ex_recreated_range : list uaction :=
  [AStep [[CIns 0 10; CIns 1 11; CIns 2 12]]; AStep [[CDel 0; CDel 0; CDel 0]]; AUndo; AStep [[CDel 1]]; AUndo; ARedo].
Example ex_recreated_range_ok : mirror_run ustate0 mirror0 (ex_recreated_range ++ [AUndo; AUndo; ARedo; ARedo]) = true.
Proof. vm_compute. reflexivity. Qed.
Example ex_recreated_range_cont :
  map (fun n => cont (urun ustate0 (firstn n (ex_recreated_range ++ [AUndo; AUndo; ARedo; ARedo])))) (seq 0 11) =
  [([], []); ([10; 11; 12], []); ([], []); ([10; 11; 12], []); ([10; 12], []); ([10; 11; 12], []); ([10; 12], []);
   ([10; 11; 12], []); ([], []); ([10; 11; 12], []); ([10; 12], [])].
Proof. vm_compute. reflexivity. Qed.
Example ex_recreated_range_units :
  map (fun x => (u_id x, u_del x, u_red x)) (seqc (urun ustate0 ex_recreated_range)) =
  [(3, false, None); (0, true, Some 3); (6, true, None); (4, true, Some 6); (1, true, Some 4); (5, false, None); (2, true, Some 5)].
Proof. vm_compute. reflexivity. Qed.


(* ---------------------------------------------------------------------------------------------- *)
Print Assumptions undo_never_touches_other_keys_or_values.
Print Assumptions undo_redo_keep_foreign_units.
Print Assumptions inverse_law_bounded.
