(* Programs over an array-like sequence: a list of Array::insert / Array::remove_range calls (types/array.rs), run on the
   block-level model of Crdt/BlockIter.v ([bit_run]) and on the plain list ([bit_run_list], the sequential specification;
   None = the call panics: "Index .. is outside of the range of an array" / "Length exceeded").  [bit_prog_ok] collects
   the side conditions of the inserts along the run of the model: the content is countable and not empty
   (Prelim::into_content; an empty RangePrelim is not inserted at all by insert_range) and the new id is fresh
   (`(client_id, get_clock(client_id))`).  Nothing here is more abstract than BlockIter.v. *)
From Coq Require Import List NArith Bool.
From YV Require Import Codec.UpdateV1 Crdt.Doc Crdt.Blocks Crdt.YataBlocks Crdt.BlockIter.
Import ListNotations.
Open Scope N_scope.

Inductive bit_op := bit_op_ins (i : N) (newid : id) (par : parent) (c : bcontent) | bit_op_rem (i n : N).
Fixpoint bit_run (p : list bit_op) (br : bit_branch) : yib_res bit_branch :=
  match p with
  | [] => yib_ok br
  | bit_op_ins i nid par c :: r => yib_bind (bit_array_insert br i nid par c) (bit_run r)
  | bit_op_rem i n :: r => yib_bind (bit_array_remove_range br i n) (bit_run r)
  end.
(* the sequential specification: None = the call panics *)
Fixpoint bit_run_list (p : list bit_op) (l : list ucontent) : option (list ucontent) :=
  match p with
  | [] => Some l
  | bit_op_ins i _ _ c :: r =>
      if N.of_nat (length l) <? i then None
      else bit_run_list r (firstn (N.to_nat i) l ++ content_units c ++ skipn (N.to_nat i) l)
  | bit_op_rem i n :: r =>
      if N.of_nat (length l) <? i + n then None
      else bit_run_list r (firstn (N.to_nat i) l ++ skipn (N.to_nat (i + n)) l)
  end.
(* side conditions of the inserts, checked along the run of the model *)
Fixpoint bit_prog_ok (p : list bit_op) (br : bit_branch) : Prop :=
  match p with
  | [] => True
  | bit_op_ins i nid par c :: r =>
      bit_content_ok c = true /\ content_len c <> 0 /\ bit_fresh (bit_seq br) nid c = true /\
      (forall br', bit_array_insert br i nid par c = yib_ok br' -> bit_prog_ok r br')
  | bit_op_rem i n :: r => forall br', bit_array_remove_range br i n = yib_ok br' -> bit_prog_ok r br'
  end.
