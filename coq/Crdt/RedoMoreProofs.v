(* RedoMoreProofs.v - follow-up: a larger class of stack entries for which `steps ; undo ; redo` is proved.
   Sections: M1 (prefix rdo_m1_: several re-created map entries / mixed, no re-created parent), M2 (rdo_m2_: a container
   re-created together with one or two children), M3 (rdo_m3_: the `ch = false` continuation of the pop loop), M4 (rdo_m4_: the
   enlarged class and the closed theorems rdo_undo_last_step_closed_partial2 / rdo_inverse_law_nested_steps_partial2).
   Nothing of Crdt/Redo.v, Crdt/RedoProofs.v is changed. *)
From Coq Require Import List NArith Bool Lia Sorted Permutation. Import ListNotations. From YV Require Import Crdt.Redo Crdt.RedoProofs. Open Scope N_scope.

(* ========================================================================================== *)
(* SECTION M1 *)

(* RedoMoreA.v - towards Lemma P for entries in which no re-created item has a re-created parent
   (sequence items and map entries mixed). *)

Definition rdo_m1_cls (st : list rdo_item) (I D : list N) : bool :=
  forallb (fun j => match rdo_get st j with
                    | Some x => match rdo_par x with RdoItem p => negb (rdo_mem p (rdo_i_redo st I D)) | RdoRoot _ => true end
                    | None => false
                    end) (rdo_i_redo st I D).
Definition rdo_m1_cls_union (st : list rdo_item) (I D : list N) : bool := rdo_d2_cls_union st I D || rdo_m1_cls st I D.

(* ---------------------------------------------------------------------------------------------- *)
(* positional invariants: sequence chains (copy immediately in front of the original), key chains (copy appended) *)

Definition rdo_m1_posS (st0 : list rdo_item) (n0 : N) (R : list N) (K : list rdo_item) : Prop :=
  forall P, map rdo_id (rdo_chain K P None) = flat_map (rdo_d2_exp n0 R) (rdo_chain st0 P None).
Definition rdo_m1_posS' (st0 : list rdo_item) (n0 : N) (R : list N) (K : list rdo_item) : Prop :=
  forall P s, s = None -> map rdo_id (rdo_chain K P s) = flat_map (rdo_d2_exp n0 R) (rdo_chain st0 P s).
Definition rdo_m1_cps (n0 : N) (R : list N) (x : rdo_item) : list N :=
  if rdo_mem (rdo_id x) R then [rdo_e_cp n0 R (rdo_id x)] else [].
Definition rdo_m1_posM (st0 : list rdo_item) (n0 : N) (R : list N) (K : list rdo_item) : Prop :=
  forall P k, map rdo_id (rdo_chain K P (Some k)) =
              map rdo_id (rdo_chain st0 P (Some k)) ++ flat_map (rdo_m1_cps n0 R) (rdo_chain st0 P (Some k)).

Lemma rdo_m1_posS_eq : forall st0 n0 R K, rdo_m1_posS st0 n0 R K <-> rdo_m1_posS' st0 n0 R K.
Proof. intros. split. - intros H P s ->. apply H. - intros H P. apply H. auto. Qed.
Print Assumptions rdo_m1_posS_eq.

Lemma rdo_m1_exp_other : forall n0 done i x1, rdo_id x1 <> i -> rdo_d2_exp n0 (done ++ [i]) x1 = rdo_d2_exp n0 done x1.
Proof.
  intros n0 done i x1 N1. unfold rdo_d2_exp. rewrite rdo_e_mem_app. simpl. apply N.eqb_neq in N1. rewrite N1. simpl. rewrite orb_false_r.
  destruct (rdo_mem (rdo_id x1) done) eqn:M; auto. rewrite rdo_e_cp_app_l; auto. apply rdo_d_mem_In; auto.
Qed.
Print Assumptions rdo_m1_exp_other.

Lemma rdo_m1_cps_other : forall n0 done i x1, rdo_id x1 <> i -> rdo_m1_cps n0 (done ++ [i]) x1 = rdo_m1_cps n0 done x1.
Proof.
  intros n0 done i x1 N1. unfold rdo_m1_cps. rewrite rdo_e_mem_app. simpl. apply N.eqb_neq in N1. rewrite N1. simpl. rewrite orb_false_r.
  destruct (rdo_mem (rdo_id x1) done) eqn:M; auto. rewrite rdo_e_cp_app_l; auto. apply rdo_d_mem_In; auto.
Qed.
Print Assumptions rdo_m1_cps_other.

Lemma rdo_m1_cps_self : forall n0 done x, ~ In (rdo_id x) done ->
  rdo_m1_cps n0 (done ++ [rdo_id x]) x = [n0 + N.of_nat (length done)].
Proof.
  intros n0 done x NI. unfold rdo_m1_cps. rewrite rdo_e_mem_app. simpl. rewrite N.eqb_refl. simpl. rewrite orb_true_r.
  rewrite rdo_e_cp_app_r; auto.
Qed.
Print Assumptions rdo_m1_cps_self.

Lemma rdo_m1_cps_out : forall n0 done x, ~ In (rdo_id x) done -> rdo_m1_cps n0 done x = [].
Proof. intros. unfold rdo_m1_cps. rewrite (rdo_d2_mem_false _ _ H). auto. Qed.
Print Assumptions rdo_m1_cps_out.

Lemma rdo_m1_chain_update_ids : forall st i f P s, (forall y, rdo_id (f y) = rdo_id y /\ rdo_par (f y) = rdo_par y /\ rdo_sub (f y) = rdo_sub y) ->
  map rdo_id (rdo_chain (rdo_update st i f) P s) = map rdo_id (rdo_chain st P s).
Proof.
  induction st; intros i f P s Hf; auto. simpl rdo_update. destruct (rdo_id a =? i).
  - rewrite !rdo_d_chain_cons. assert (rdo_in_chain P s (f a) = rdo_in_chain P s a) as ->.
    { unfold rdo_in_chain. destruct (Hf a) as (_ & -> & ->). auto. }
    destruct (rdo_in_chain P s a); auto. simpl. destruct (Hf a) as (-> & _). auto.
  - rewrite !rdo_d_chain_cons. destruct (rdo_in_chain P s a); simpl; rewrite IHst; auto.
Qed.
Print Assumptions rdo_m1_chain_update_ids.

Lemma rdo_m1_set_red_keep : forall n y, rdo_id (rdo_set_red y n) = rdo_id y /\ rdo_par (rdo_set_red y n) = rdo_par y /\ rdo_sub (rdo_set_red y n) = rdo_sub y.
Proof. intros; simpl; auto. Qed.
Print Assumptions rdo_m1_set_red_keep.

(* a chain that does not hold the new copy is unchanged, by ids, by: set_red on i, link of the copy, kill *)
Lemma rdo_m1_chain_other : forall K i n l copy d P s, rdo_in_chain P s copy = false ->
  map rdo_id (rdo_chain (rdo_e_kill d (rdo_link (rdo_update K i (fun y => rdo_set_red y n)) l copy)) P s) = map rdo_id (rdo_chain K P s).
Proof.
  intros K i n l copy d P s H. rewrite rdo_e_kill_chain, rdo_e_kill_ids.
  destruct (rdo_d_chain_link (rdo_update K i (fun y => rdo_set_red y n)) l copy P s) as [L1 _]. rewrite L1; auto.
  apply rdo_m1_chain_update_ids. intros y. apply rdo_m1_set_red_keep.
Qed.
Print Assumptions rdo_m1_chain_other.

Lemma rdo_m1_posS_step_seq : forall st0 n0 done K a item b x i copy,
  rdo_i_nodup (map rdo_id st0) = true -> rdo_i_nodup (map rdo_id K) = true ->
  K = a ++ item :: b -> rdo_id item = i -> rdo_par item = rdo_par x -> rdo_sub item = None ->
  rdo_get st0 i = Some x -> rdo_sub x = None -> ~ In i done ->
  rdo_m1_posS' st0 n0 done K ->
  rdo_id copy = n0 + N.of_nat (length done) -> rdo_par copy = rdo_par x -> rdo_sub copy = None ->
  rdo_m1_posS' st0 n0 (done ++ [i])
    (rdo_link (a ++ rdo_set_red item (rdo_id copy) :: b)
              (hd_error (map rdo_id (filter (rdo_in_chain (rdo_par item) None) (rev a)))) copy).
Proof.
  intros st0 n0 done K a item b x i copy Hn HnK EK Ei Epar Esub Gx Sx NI Hpos Cid Cpar Csub P s HsN.
  set (item' := rdo_set_red item (rdo_id copy)). set (K1 := a ++ item' :: b). set (P0 := rdo_par x) in *.
  pose proof (rdo_d_get_some _ _ _ Gx) as [Hx Ex].
  assert (forall x1, rdo_id x1 <> i -> rdo_d2_exp n0 (done ++ [i]) x1 = rdo_d2_exp n0 done x1) as Hexp.
  { intros x1 N1. unfold rdo_d2_exp. rewrite rdo_e_mem_app. simpl. apply N.eqb_neq in N1. rewrite N1. simpl. rewrite orb_false_r.
    destruct (rdo_mem (rdo_id x1) done) eqn:M; auto. rewrite rdo_e_cp_app_l; auto. apply rdo_d_mem_In; auto. }
  assert (rdo_d2_exp n0 (done ++ [i]) x = [rdo_id copy; i]) as Hexpi.
  { unfold rdo_d2_exp. rewrite Ex, rdo_e_mem_app. simpl. rewrite N.eqb_refl. simpl. rewrite orb_true_r.
    rewrite rdo_e_cp_app_r; auto. rewrite Cid. auto. }
  assert (rdo_d2_exp n0 done x = [i]) as Hexpi0.
  { unfold rdo_d2_exp. rewrite Ex, (rdo_d2_mem_false _ _ NI). auto. }
  assert (forall P1 s1, rdo_chain K1 P1 s1 = rdo_chain a P1 s1 ++ (if rdo_in_chain P1 s1 item then [item'] else []) ++ rdo_chain b P1 s1) as HK1c.
  { intros. unfold K1. rewrite rdo_d_chain_app, rdo_d_chain_cons. change (rdo_in_chain P1 s1 item') with (rdo_in_chain P1 s1 item).
    destruct (rdo_in_chain P1 s1 item); auto. }
  assert (forall P1 s1, rdo_chain K P1 s1 = rdo_chain a P1 s1 ++ (if rdo_in_chain P1 s1 item then [item] else []) ++ rdo_chain b P1 s1) as HKc.
  { intros. rewrite EK, rdo_d_chain_app, rdo_d_chain_cons. destruct (rdo_in_chain P1 s1 item); auto. }
  assert (forall P1 s1, map rdo_id (rdo_chain K1 P1 s1) = map rdo_id (rdo_chain K P1 s1)) as HK1.
  { intros. rewrite HK1c, HKc, !map_app. destruct (rdo_in_chain P1 s1 item); auto. }
  assert (map rdo_id K1 = map rdo_id K) as HK1ids.
  { unfold K1. rewrite EK, !map_app. auto. }
  assert (rdo_i_nodup (map rdo_id K1) = true) as HnK1 by (rewrite HK1ids; auto).
  rewrite Epar. fold P0.
  destruct (rdo_d_ps_dec P P0 s None) as [E|E].
  - inversion E; subst P s. clear E.
    assert (rdo_in_chain P0 None item = true) as Hic by (apply rdo_d_in_chain_spec; auto).
    assert (rdo_in_chain P0 None copy = true) as Hcc by (apply rdo_d_in_chain_spec; auto).
    set (ca := rdo_chain a P0 None) in *. set (cb := rdo_chain b P0 None) in *.
    assert (rdo_chain K1 P0 None = ca ++ item' :: cb) as C1 by (rewrite HK1c, Hic; auto).
    assert (rdo_chain K P0 None = ca ++ item :: cb) as C0 by (rewrite HKc, Hic; auto).
    rewrite rdo_e_filter_rev. change (filter (rdo_in_chain P0 None) a) with ca.
    assert (rdo_chain (rdo_link K1 (hd_error (map rdo_id (rev ca))) copy) P0 None = ca ++ copy :: item' :: cb) as CL.
    { destruct (rev ca) as [|y rc] eqn:Er.
      - assert (ca = []) as Eca by (rewrite <- (rev_involutive ca), Er; auto).
        cbn [map hd_error]. unfold rdo_link. rewrite rdo_d_chain_cons, Hcc, C1, Eca. auto.
      - assert (ca = rev rc ++ [y]) as Eca by (rewrite <- (rev_involutive ca), Er; auto).
        cbn [map hd_error].
        destruct (rdo_d_chain_link K1 (Some (rdo_id y)) copy P0 None) as [_ L2]. rewrite L2; auto.
        + rewrite C1, Eca. unfold rdo_link. rewrite <- !app_assoc. simpl.
          apply rdo_d_insert_after_split; auto.
          assert (rdo_i_nodup (map rdo_id (rev rc ++ y :: item' :: cb)) = true) as Hnc.
          { replace (rev rc ++ y :: item' :: cb) with (rdo_chain K1 P0 None).
            - apply rdo_d_nodup_filter; auto.
            - rewrite C1, Eca, <- app_assoc. auto. }
          intros z Hz. apply (rdo_d2_nodup_mid _ _ _ Hnc). auto.
        + assert (In y ca) as Hy by (rewrite Eca; apply in_or_app; simpl; auto).
          exists y. split.
          * apply rdo_d_get_in; auto. unfold ca in Hy. apply rdo_d_chain_In in Hy. unfold K1. apply in_or_app. tauto.
          * unfold ca in Hy. apply rdo_d_chain_In in Hy. apply rdo_d_in_chain_spec. tauto. }
    rewrite CL.
    pose proof (Hpos P0 None eq_refl) as HP. rewrite C0 in HP.
    assert (In x (rdo_chain st0 P0 None)) as Hxc by (apply rdo_d_chain_In; auto).
    destruct (in_split _ _ Hxc) as [c1 [c2 Ec]].
    assert (rdo_i_nodup (map rdo_id (c1 ++ x :: c2)) = true) as Hnc by (rewrite <- Ec; apply rdo_d_nodup_filter; auto).
    rewrite Ec in HP |- *. rewrite flat_map_app in HP |- *. simpl flat_map in HP |- *.
    rewrite Hexpi0 in HP. rewrite Hexpi.
    rewrite map_app in HP. simpl in HP. rewrite Ei in HP.
    assert (NoDup (map rdo_id ca ++ i :: map rdo_id cb)) as Hnd.
    { apply rdo_d_nodup_spec. rewrite <- Ei. change (rdo_id item :: map rdo_id cb) with (map rdo_id (item :: cb)).
      rewrite <- map_app, <- C0. apply rdo_d_nodup_filter; auto. }
    destruct (rdo_d2_split_uniq _ _ _ _ _ Hnd HP) as [HH1 HH2].
    rewrite map_app. simpl. rewrite HH1, HH2.
    rewrite (rdo_d_flat_map_ext _ _ (rdo_d2_exp n0 (done ++ [i])) (rdo_d2_exp n0 done) c1).
    2:{ intros z Hz. apply Hexp. rewrite <- Ex. apply (rdo_d2_nodup_mid _ _ _ Hnc). auto. }
    rewrite (rdo_d_flat_map_ext _ _ (rdo_d2_exp n0 (done ++ [i])) (rdo_d2_exp n0 done) c2).
    2:{ intros z Hz. apply Hexp. rewrite <- Ex. apply (rdo_d2_nodup_mid _ _ _ Hnc). auto. }
    rewrite Ei. auto.
  - assert (rdo_in_chain P s copy = false) as Hcc.
    { destruct (rdo_in_chain P s copy) eqn:Ec; auto. apply rdo_d_in_chain_spec in Ec. exfalso. apply E.
      destruct Ec as [<- <-]. rewrite Cpar, Csub. auto. }
    destruct (rdo_d_chain_link K1 (hd_error (map rdo_id (filter (rdo_in_chain P0 None) (rev a)))) copy P s) as [L1 _].
    fold item'. fold K1. rewrite L1; auto. rewrite HK1, (Hpos P s HsN).
    apply rdo_d_flat_map_ext. intros x1 H1. symmetry. apply Hexp. intros E1.
    apply rdo_d_chain_In in H1. destruct H1 as [H1 [Hp Hs]].
    pose proof (rdo_d_get_in st0 x1 Hn H1) as G1. rewrite E1, Gx in G1. inversion G1; subst x1.
    apply E. rewrite <- Hp, <- Hs, Sx. auto.
Qed.
Print Assumptions rdo_m1_posS_step_seq.

Lemma rdo_m1_update_ids : forall st i f, (forall y, rdo_id (f y) = rdo_id y) -> map rdo_id (rdo_update st i f) = map rdo_id st.
Proof. induction st; simpl; intros i f H; auto. destruct (rdo_id a =? i); simpl. rewrite H; auto. rewrite IHst; auto. Qed.
Print Assumptions rdo_m1_update_ids.

Lemma rdo_m1_flat_map_nil : forall (A B : Type) (f : A -> list B) l, (forall z, In z l -> f z = []) -> flat_map f l = [].
Proof. induction l; simpl; intros H; auto. rewrite H, IHl; auto. Qed.
Print Assumptions rdo_m1_flat_map_nil.

Lemma rdo_m1_last_split : forall (L : list rdo_item) d, L <> [] -> exists L0 y, L = L0 ++ [y] /\ last (map rdo_id L) d = rdo_id y.
Proof.
  intros L d H. destruct (exists_last H) as (L0 & y & E). exists L0, y. split; auto. rewrite E, map_app. simpl. apply last_last.
Qed.
Print Assumptions rdo_m1_last_split.

Lemma rdo_m1_last_mid : forall (l1 l2 : list N) a d, last (l1 ++ a :: l2) d = last l2 a.
Proof.
  induction l1; intros l2 a0 d.
  - simpl app. apply rdo_e_last_cons.
  - simpl app. rewrite rdo_e_last_cons. destruct l1; simpl app; [apply rdo_e_last_cons|]. rewrite <- (IHl1 l2 a0 a). reflexivity.
Qed.
Print Assumptions rdo_m1_last_mid.

(* the key chains under a sequence step *)
Lemma rdo_m1_posM_step_seq : forall st0 n0 done K a item b x i copy l c,
  rdo_i_nodup (map rdo_id st0) = true -> K = a ++ item :: b ->
  rdo_get st0 i = Some x -> rdo_sub x = None -> rdo_sub copy = None ->
  rdo_m1_posM st0 n0 done K ->
  rdo_m1_posM st0 n0 (done ++ [i]) (rdo_link (a ++ rdo_set_red item c :: b) l copy).
Proof.
  intros st0 n0 done K a item b x i copy l c Hn EK Gx Sx Cs Hpos P k.
  destruct (rdo_d_chain_link (a ++ rdo_set_red item c :: b) l copy P (Some k)) as [L1 _]. rewrite L1.
  2:{ unfold rdo_in_chain. rewrite Cs. simpl. apply andb_false_r. }
  assert (map rdo_id (rdo_chain (a ++ rdo_set_red item c :: b) P (Some k)) = map rdo_id (rdo_chain K P (Some k))) as ->.
  { rewrite EK, !rdo_d_chain_app, !rdo_d_chain_cons. change (rdo_in_chain P (Some k) (rdo_set_red item c)) with (rdo_in_chain P (Some k) item).
    destruct (rdo_in_chain P (Some k) item); rewrite !map_app; auto. }
  rewrite Hpos. f_equal. apply rdo_d_flat_map_ext. intros z Hz. symmetry. apply rdo_m1_cps_other. intros Ez.
  apply rdo_d_chain_In in Hz. destruct Hz as [Hz [_ Hs]].
  pose proof (rdo_d_get_in st0 z Hn Hz) as G. rewrite Ez, Gx in G. inversion G; subst z. congruence.
Qed.
Print Assumptions rdo_m1_posM_step_seq.

(* the sequence chains under a map step *)
Lemma rdo_m1_posS_step_map : forall st0 n0 done K i x k copy d n l,
  rdo_i_nodup (map rdo_id st0) = true -> rdo_get st0 i = Some x -> rdo_sub x = Some k -> rdo_sub copy = Some k ->
  rdo_m1_posS st0 n0 done K ->
  rdo_m1_posS st0 n0 (done ++ [i]) (rdo_e_kill d (rdo_link (rdo_update K i (fun y => rdo_set_red y n)) l copy)).
Proof.
  intros st0 n0 done K i x k copy d n l Hn Gx Sx Cs Hpos P.
  rewrite rdo_m1_chain_other.
  2:{ unfold rdo_in_chain. rewrite Cs. simpl. apply andb_false_r. }
  rewrite Hpos. apply rdo_d_flat_map_ext. intros z Hz. symmetry. apply rdo_m1_exp_other. intros Ez.
  apply rdo_d_chain_In in Hz. destruct Hz as [Hz [_ Hs]].
  pose proof (rdo_d_get_in st0 z Hn Hz) as G. rewrite Ez, Gx in G. inversion G; subst z. congruence.
Qed.
Print Assumptions rdo_m1_posS_step_map.

(* the key chains under a map step: the copy is appended to its chain *)
Lemma rdo_m1_posM_step_map : forall st0 n0 done K i x k copy d n item,
  rdo_i_nodup (map rdo_id st0) = true -> rdo_i_nodup (map rdo_id K) = true ->
  rdo_get st0 i = Some x -> rdo_sub x = Some k -> ~ In i done ->
  rdo_get K i = Some item -> rdo_par item = rdo_par x -> rdo_sub item = Some k ->
  (forall z, In z (rdo_chain st0 (rdo_par x) (Some k)) -> ~ In (rdo_id z) done) ->
  rdo_m1_posM st0 n0 done K ->
  rdo_id copy = n0 + N.of_nat (length done) -> rdo_par copy = rdo_par x -> rdo_sub copy = Some k ->
  rdo_m1_posM st0 n0 (done ++ [i])
    (rdo_e_kill d (rdo_link (rdo_update K i (fun y => rdo_set_red y n)) (Some (last (rdo_rights K i) i)) copy)).
Proof.
  intros st0 n0 done K i x k copy d n item Hn HnK Gx Sx NI Gi Pi Si Huniq Hpos Cid Cpar Csub P k'.
  pose proof (rdo_d_get_some _ _ _ Gx) as [Hx Ex].
  set (P0 := rdo_par x) in *.
  destruct (rdo_d_ps_dec P P0 (Some k') (Some k)) as [E|E].
  - inversion E; subst P k'. clear E.
    rewrite rdo_e_kill_chain, rdo_e_kill_ids.
    set (K1 := rdo_update K i (fun y => rdo_set_red y n)).
    assert (map rdo_id K1 = map rdo_id K) as HK1ids by (apply rdo_m1_update_ids; auto).
    assert (rdo_i_nodup (map rdo_id K1) = true) as HnK1 by (rewrite HK1ids; auto).
    assert (map rdo_id (rdo_chain K1 P0 (Some k)) = map rdo_id (rdo_chain K P0 (Some k))) as HL.
    { apply rdo_m1_chain_update_ids. intros y. apply rdo_m1_set_red_keep. }
    destruct (rdo_e_get_split _ _ _ Gi) as (b & a & EK & NIb & Ei).
    assert (rdo_in_chain P0 (Some k) item = true) as Hic by (apply rdo_d_in_chain_spec; auto).
    assert (rdo_chain K P0 (Some k) = rdo_chain b P0 (Some k) ++ item :: rdo_chain a P0 (Some k)) as C0.
    { rewrite EK, rdo_d_chain_app, rdo_d_chain_cons, Hic. auto. }
    assert (rdo_rights K i = map rdo_id (rdo_chain a P0 (Some k))) as HR.
    { rewrite EK, <- Ei. rewrite rdo_d_rights_spec by (rewrite <- EK; auto). rewrite Pi, Si. auto. }
    assert (rdo_chain K1 P0 (Some k) <> []) as Hne.
    { intros H0. rewrite H0, C0, map_app in HL. simpl in HL. destruct (map rdo_id (rdo_chain b P0 (Some k))); discriminate. }
    destruct (rdo_m1_last_split _ i Hne) as (L0 & y & EL & Ey).
    assert (last (rdo_rights K i) i = rdo_id y) as El.
    { rewrite <- Ey, HL, C0, map_app. simpl map. rewrite Ei, rdo_m1_last_mid, HR. auto. }
    rewrite El.
    assert (In y (rdo_chain K1 P0 (Some k))) as Hy by (rewrite EL; apply in_or_app; simpl; auto).
    destruct (rdo_d_chain_link K1 (Some (rdo_id y)) copy P0 (Some k)) as [_ L2]. rewrite L2.
    2:{ apply rdo_d_in_chain_spec; auto. }
    2:{ exists y. apply rdo_d_chain_In in Hy. split. { apply rdo_d_get_in; tauto. } apply rdo_d_in_chain_spec. tauto. }
    assert (rdo_i_nodup (map rdo_id (L0 ++ [y])) = true) as HnL by (rewrite <- EL; apply rdo_d_nodup_filter; auto).
    unfold rdo_link. rewrite EL. rewrite (rdo_d_insert_after_split L0 y [] (rdo_id y) copy); auto.
    2:{ apply (rdo_d_nodup_app_id L0 y [] HnL). }
    replace (L0 ++ [y; copy]) with ((L0 ++ [y]) ++ [copy]) by (rewrite <- app_assoc; auto).
    rewrite map_app, <- EL, HL, Hpos. simpl map.
    rewrite (rdo_m1_flat_map_nil _ _ (rdo_m1_cps n0 done)).
    2:{ intros z Hz. apply rdo_m1_cps_out. apply Huniq; auto. }
    rewrite app_nil_r. f_equal.
    assert (In x (rdo_chain st0 P0 (Some k))) as Hxc by (apply rdo_d_chain_In; auto).
    destruct (in_split _ _ Hxc) as [c1 [c2 Ec]].
    assert (rdo_i_nodup (map rdo_id (c1 ++ x :: c2)) = true) as Hnc by (rewrite <- Ec; apply rdo_d_nodup_filter; auto).
    assert (forall z, In z c1 \/ In z c2 -> rdo_m1_cps n0 (done ++ [i]) z = []) as Hz0.
    { intros z Hz. rewrite rdo_m1_cps_other.
      - apply rdo_m1_cps_out. apply Huniq. rewrite Ec. apply in_or_app. simpl. tauto.
      - rewrite <- Ex. apply (rdo_d2_nodup_mid _ _ _ Hnc). auto. }
    rewrite Ec, flat_map_app. simpl flat_map.
    rewrite (rdo_m1_flat_map_nil _ _ _ c1) by (intros; apply Hz0; auto).
    rewrite (rdo_m1_flat_map_nil _ _ _ c2) by (intros; apply Hz0; auto).
    rewrite <- Ex. rewrite rdo_m1_cps_self by (rewrite Ex; auto). rewrite Cid. auto.
  - rewrite rdo_m1_chain_other.
    2:{ destruct (rdo_in_chain P (Some k') copy) eqn:Ec; auto. apply rdo_d_in_chain_spec in Ec. exfalso. apply E.
        destruct Ec as [<- Hs]. rewrite Csub in Hs. rewrite Cpar. congruence. }
    rewrite Hpos. f_equal. apply rdo_d_flat_map_ext. intros z Hz. symmetry. apply rdo_m1_cps_other. intros Ez.
    apply rdo_d_chain_In in Hz. destruct Hz as [Hz [Hp Hs]].
    pose proof (rdo_d_get_in st0 z Hn Hz) as G. rewrite Ez, Gx in G. inversion G; subst z.
    apply E. rewrite <- Hp. unfold P0. f_equal. congruence.
Qed.
Print Assumptions rdo_m1_posM_step_map.

(* ---------------------------------------------------------------------------------------------- *)
(* the steps of rdo_redo with both positional invariants *)

Lemma rdo_m1_step_seqA : forall st0 n0 done dk t i, rdo_e_inv st0 n0 done dk t -> NoDup (map rdo_id st0) ->
  rdo_e_condA st0 n0 dk i -> ~ In i done ->
  (forall p x0, rdo_get st0 i = Some x0 -> rdo_par x0 = RdoItem p -> ~ In p (done ++ [i])) ->
  (forall j xj, In j done -> rdo_get st0 j = Some xj -> rdo_par xj <> RdoItem i) ->
  rdo_m1_posS st0 n0 done (rdo_st t) -> rdo_m1_posM st0 n0 done (rdo_st t) ->
  exists t', (forall f ri td s1 s2, rdo_redo (S f) t i ri td s1 s2 = RdoOk (t', Some (rdo_next t))) /\
             rdo_e_inv st0 n0 (done ++ [i]) dk t' /\ rdo_m1_posS st0 n0 (done ++ [i]) (rdo_st t') /\
             rdo_m1_posM st0 n0 (done ++ [i]) (rdo_st t').
Proof.
  intros st0 n0 done dk t i V ND0 CA NI HP NPI PS PM.
  destruct (rdo_e_step_seqA st0 n0 done dk t i V ND0 CA NI HP NPI) as (t' & E & V').
  exists t'. split; auto. split; auto.
  destruct CA as (x & G & LI & RED & SUB & PAR).
  pose proof (rdo_e_inv_get_old _ _ _ _ _ i V LI) as Gi. rewrite G in Gi. simpl in Gi.
  set (item := rdo_e_oldk n0 done dk x) in *.
  destruct (rdo_e_get_split _ _ _ Gi) as (a & b & ST & NIa & Ei).
  assert (REDi: rdo_red item = None). { simpl. apply rdo_e_mem_nin in NI. destruct (rdo_a_get_in _ _ _ G) as (_ & E0). rewrite E0, NI. auto. }
  assert (PARi: match rdo_par item with
                | RdoRoot _ => True
                | RdoItem p => exists pit k, rdo_get (rdo_st t) p = Some pit /\ rdo_del pit = false /\ rdo_cnt pit = RdoType k
                end).
  { simpl. destruct (rdo_par x); auto. destruct PAR as (pit & k & Gp & Dp & Cp & NIp & Lp).
    exists (rdo_e_oldk n0 done dk pit), k. rewrite (rdo_e_inv_get_old _ _ _ _ _ id V Lp), Gp. simpl. split; auto. split; auto.
    rewrite Dp. simpl. destruct (rdo_a_get_in _ _ _ Gp) as (_ & E0). rewrite E0. apply rdo_e_mem_nin; auto. }
  pose proof (rdo_e_redo_seqA 0 t item a b [] [] [] [] ST (rdo_e_v_nd _ _ _ _ _ V) REDi SUB
                (fun y => rdo_e_inv_fresh _ _ _ _ _ y V) PARi) as E2.
  rewrite Ei in E2. rewrite (E 0%nat [] [] [] []) in E2. injection E2 as E3. rewrite E3. cbn [rdo_st].
  assert (Hn : rdo_i_nodup (map rdo_id st0) = true) by (apply rdo_d_nodup_spec; auto).
  split.
  - apply rdo_m1_posS_eq.
    apply (rdo_m1_posS_step_seq st0 n0 done (rdo_st t) a item b x i
           {| rdo_id := rdo_next t; rdo_par := rdo_par item; rdo_sub := None; rdo_cnt := rdo_cnt item;
              rdo_del := false; rdo_keep := true; rdo_red := None;
              rdo_org := hd_error (map rdo_id (filter (rdo_in_chain (rdo_par item) None) (rev a)));
              rdo_rorg := Some i |}); auto.
    + apply rdo_d_nodup_spec. apply V.
    + apply rdo_m1_posS_eq. auto.
    + simpl. apply V.
  - apply (rdo_m1_posM_step_seq st0 n0 done (rdo_st t) a item b x i); auto.
Qed.
Print Assumptions rdo_m1_step_seqA.

Lemma rdo_m1_step_mapA : forall st0 n0 I done dk t i x k f ri s1 s2,
  rdo_e_inv st0 n0 done dk t -> rdo_i_wfp st0 n0 = true ->
  (forall y p, In y st0 -> rdo_del y = false -> rdo_par y = RdoItem p -> In p I -> In (rdo_id y) I) ->
  (forall p, rdo_par x = RdoItem p -> ~ In p (done ++ [i]) /\ ~ In p I) ->
  (forall j xj, In j done -> rdo_get st0 j = Some xj -> rdo_par xj <> RdoItem i) ->
  rdo_a_parlt (rdo_st t) ->
  (forall y p, In y (rdo_st t) -> rdo_del y = false -> rdo_par y = RdoItem p -> In p I -> In (rdo_id y) I) ->
  (forall j xj, In j done -> rdo_get st0 j = Some xj -> rdo_e_mpar n0 done (rdo_par xj) = rdo_par x -> rdo_par xj = rdo_par x) ->
  rdo_get st0 i = Some x -> rdo_red x = None -> rdo_del x = true -> rdo_sub x = Some k -> ~ In i done ->
  match rdo_par x with
  | RdoRoot _ => True
  | RdoItem p => exists pit kk, rdo_get st0 p = Some pit /\ rdo_del pit = false /\ rdo_cnt pit = RdoType kk
  end ->
  (forall j, In j (rdo_rights st0 i) -> In j I /\ ~ In j done /\ exists y, rdo_get st0 j = Some y /\ rdo_red y = None) ->
  (forall j xj, In j done -> rdo_get st0 j = Some xj -> ~ (rdo_par xj = rdo_par x /\ rdo_sub xj = Some k)) ->
  (forall j, In j dk -> In j I) -> (forall j, In j I -> exists y, rdo_get st0 j = Some y) ->
  rdo_m1_posS st0 n0 done (rdo_st t) -> rdo_m1_posM st0 n0 done (rdo_st t) ->
  exists t' d, rdo_redo (S f) t i ri I s1 s2 = RdoOk (t', Some (rdo_next t)) /\
     rdo_e_inv st0 n0 (done ++ [i]) (dk ++ d) t' /\ NoDup d /\
     (forall j, In j d -> In j I /\ rdo_i_isdel st0 j = false /\ ~ In j dk) /\
     rdo_m1_posS st0 n0 (done ++ [i]) (rdo_st t') /\ rdo_m1_posM st0 n0 (done ++ [i]) (rdo_st t').
Proof. intros st0 n0 I done dk t i x k f ri s1 s2 V W C2 PI NPI PLt CLt NEWCH G RED DEL SUB NI PAR C4 UNIQ DKI IP PS PM.
  destruct (rdo_e_step_mapA_x st0 n0 I done dk t i x k f ri s1 s2 V W C2 PI NPI PLt CLt NEWCH G RED DEL SUB NI PAR C4 UNIQ DKI IP)
    as (t' & d & E & V' & NDd & DL & ST).
  exists t', d. split; auto. split; auto. split; auto. split; auto.
  assert (Hn : rdo_i_nodup (map rdo_id st0) = true) by (eapply rdo_d_wfp_nodup; eauto).
  destruct (rdo_a_get_in _ _ _ G) as (Ix & Ex).
  destruct (rdo_e_wfp_item _ _ W _ Ix) as (LI & _). rewrite Ex in LI.
  rewrite ST. split.
  - apply (rdo_m1_posS_step_map st0 n0 done (rdo_st t) i x k); auto.
  - apply (rdo_m1_posM_step_map st0 n0 done (rdo_st t) i x k _ d (rdo_next t) (rdo_e_oldk n0 done dk x)); auto.
    + apply rdo_d_nodup_spec. apply V.
    + rewrite (rdo_e_inv_get_old _ _ _ _ _ i V LI), G. auto.
    + intros z Hz Hd. apply rdo_d_chain_In in Hz. destruct Hz as [Hz [Hp Hs]].
      apply (UNIQ (rdo_id z) z Hd); auto. apply rdo_d_get_in; auto.
    + simpl. apply V.
Qed.
Print Assumptions rdo_m1_step_mapA.

Lemma rdo_m1_fold_A : forall st0 n0 I ri s1 s2 Rall, rdo_i_wfp st0 n0 = true ->
  (forall y p, In y st0 -> rdo_del y = false -> rdo_par y = RdoItem p -> In p I -> In (rdo_id y) I) ->
  (forall j, In j I -> exists y, rdo_get st0 j = Some y) ->
  (forall j xj p, In j Rall -> rdo_get st0 j = Some xj -> rdo_par xj = RdoItem p -> ~ In p Rall /\ ~ In p I) ->
  (forall i, In i Rall -> rdo_e_condF st0 I Rall i) -> NoDup Rall ->
  forall todo done t c dk, rdo_e_inv st0 n0 done dk t -> done ++ todo = Rall ->
    (forall j, In j dk -> In j I /\ rdo_i_isdel st0 j = false) -> NoDup dk ->
    rdo_m1_posS st0 n0 done (rdo_st t) -> rdo_m1_posM st0 n0 done (rdo_st t) ->
    exists t' dk', fold_left (rdo_e_fredo ri I s1 s2) todo (RdoOk (t, c)) = RdoOk (t', c || rdo_is_some (hd_error todo)) /\
       rdo_e_inv st0 n0 Rall dk' t' /\ (forall j, In j dk' -> In j I /\ rdo_i_isdel st0 j = false) /\ NoDup dk' /\
       rdo_m1_posS st0 n0 Rall (rdo_st t') /\ rdo_m1_posM st0 n0 Rall (rdo_st t').
Proof. intros st0 n0 I ri s1 s2 Rall W C2 IP FLAT COND NDR. pose proof (rdo_e_wfp_nodup _ _ W) as ND0.
  induction todo; intros done t c dk V ER DK NDK PS PM.
  - simpl. rewrite app_nil_r in ER. subst done. rewrite orb_false_r. exists t, dk. repeat (split; auto).
  - assert (SUBR: forall j, In j (done ++ [a]) -> In j Rall).
    { intros j Ij. rewrite <- ER. apply in_app_or in Ij. apply in_or_app. simpl in *. tauto. }
    assert (NI: ~ In a done). { rewrite <- ER in NDR. apply rdo_e_nodup_app_l in NDR. destruct NDR as (_ & _ & DJ). intro K. apply (DJ _ K). simpl; auto. }
    assert (IA: In a Rall) by (apply SUBR; apply in_or_app; simpl; auto).
    destruct (COND _ IA) as (x & G & RED & DEL & PAR & MAPC).
    destruct (rdo_a_get_in _ _ _ G) as (Ix & Ex). destruct (rdo_e_wfp_item _ _ W _ Ix) as (LI & WP). rewrite Ex in LI.
    assert (FL1: forall j xj p, In j (done ++ [a]) -> rdo_get st0 j = Some xj -> rdo_par xj = RdoItem p -> ~ In p (done ++ [a]) /\ ~ In p I).
    { intros j xj p Ij Gj Pj. destruct (FLAT j xj p (SUBR _ Ij) Gj Pj) as (A & B). split; auto. }
    assert (STEP: exists t1 d, rdo_redo (S (length (rdo_st t))) t a ri I s1 s2 = RdoOk (t1, Some (rdo_next t)) /\
              rdo_e_inv st0 n0 (done ++ [a]) (dk ++ d) t1 /\ NoDup d /\ (forall j, In j d -> In j I /\ rdo_i_isdel st0 j = false /\ ~ In j dk) /\
              rdo_m1_posS st0 n0 (done ++ [a]) (rdo_st t1) /\ rdo_m1_posM st0 n0 (done ++ [a]) (rdo_st t1)).
    { destruct (rdo_sub x) as [k|] eqn:SUB.
      - destruct (MAPC k eq_refl) as (C4 & UNIQ).
        assert (FLd: forall j xj, In j done -> rdo_get st0 j = Some xj ->
                  rdo_e_mpar n0 done (rdo_par xj) = rdo_par xj /\ forall p, rdo_par xj = RdoItem p -> ~ In p I).
        { intros j xj Ij Gj. split.
          - unfold rdo_e_mpar. destruct (rdo_par xj) eqn:P; auto. destruct (FL1 j xj id) as (A & _); auto. apply in_or_app; auto.
            assert (~ In id done) as K by (intro; apply A; apply in_or_app; auto). apply rdo_e_mem_nin in K. rewrite K. auto.
          - intros p Pp. apply (FL1 j xj p); auto. apply in_or_app; auto. }
        destruct (rdo_e_inv_flat_props _ _ _ _ _ _ V W C2 FLd) as (PLt & CLt).
        apply (rdo_m1_step_mapA st0 n0 I done dk t a x k); auto.
        + intros p Pp. apply (FL1 a x p); auto. apply in_or_app; simpl; auto.
        + intros j xj Ij Gj K. destruct (FL1 j xj a) as (A & _); auto. apply in_or_app; auto. apply A. apply in_or_app; simpl; auto.
        + intros j xj Ij Gj MPj. destruct (FLd j xj Ij Gj) as (MP & _). congruence.
        + intros j Ij. destruct (C4 _ Ij) as (A & B & C). split; auto. split; auto. intro K. apply B. apply SUBR. apply in_or_app; auto.
        + intros j xj Ij Gj. apply (UNIQ j xj); auto. apply SUBR; apply in_or_app; auto. intro K; subst j; auto.
        + intros j Ij. apply DK; auto.
      - destruct (rdo_m1_step_seqA st0 n0 done dk t a V ND0) as (t1 & E & V1 & PS1 & PM1); auto.
        + exists x. repeat (split; auto). destruct (rdo_par x) eqn:P; auto. destruct PAR as (pit & kk & Gp & Dp & Cp).
          exists pit, kk. repeat (split; auto). intro K. apply DK in K. destruct (FLAT a x id IA G P) as (_ & B). tauto.
          destruct (WP id eq_refl). lia.
        + intros p x0 G0 P0. apply (FL1 a x0 p); auto. apply in_or_app; simpl; auto.
        + intros j xj Ij Gj K. destruct (FL1 j xj a) as (A & _); auto. apply in_or_app; auto. apply A. apply in_or_app; simpl; auto.
        + exists t1, []. rewrite app_nil_r. split; auto. split; auto. split. constructor. split. intros j []. split; auto. }
    destruct STEP as (t1 & d & E & V1 & NDd & DL & PS1 & PM1).
    cbn [fold_left]. unfold rdo_e_fredo at 2. cbn [rdo_bind]. rewrite E. cbn [rdo_bind rdo_is_some].
    destruct (IHtodo (done ++ [a]) t1 (c || true) (dk ++ d) V1) as (t' & dk' & E' & V' & DK' & NDK' & PS' & PM').
    + rewrite <- app_assoc. simpl. auto.
    + intros j Ij. apply in_app_or in Ij. destruct Ij as [Ij|Ij]; auto. destruct (DL _ Ij) as (A & B & _); auto.
    + apply rdo_e_nodup_app; auto. intros j Ij. apply DL; auto.
    + auto.
    + auto.
    + exists t', dk'. rewrite E'. split; [| split; [exact V'| split; [exact DK'| split; [exact NDK'| split; [exact PS'|exact PM']]]]]. f_equal. f_equal. simpl. rewrite orb_true_r. auto.
Qed.
Print Assumptions rdo_m1_fold_A.

(* ---------------------------------------------------------------------------------------------- *)
(* the iso from the item-level description and both positional invariants *)

Lemma rdo_m1_flat_map_sing : forall (A B : Type) (f : A -> list B) (g : A -> B) l, (forall z, In z l -> f z = [g z]) -> flat_map f l = map g l.
Proof. induction l; simpl; intros H; auto. rewrite H, IHl; auto. Qed.
Print Assumptions rdo_m1_flat_map_sing.

Lemma rdo_m1_flat_map_map : forall (A B C : Type) (f : A -> B) (g : B -> list C) l, flat_map g (map f l) = flat_map (fun z => g (f z)) l.
Proof. induction l; simpl; auto. rewrite IHl. auto. Qed.
Print Assumptions rdo_m1_flat_map_map.

Theorem rdo_m1_iso_pos : forall st0 n0 I D K,
  rdo_i_nodup (map rdo_id st0) = true -> rdo_i_nodup (map rdo_id K) = true ->
  (forall x q, In x st0 -> rdo_par x = RdoItem q -> q < n0) ->
  (* the item-level description of K *)
  (forall x, In x st0 -> exists y, rdo_get K (rdo_id x) = Some y /\ rdo_del y = rdo_del x || rdo_mem (rdo_id x) I /\ rdo_cnt y = rdo_cnt x) ->
  (forall j x, In j (rdo_i_redo st0 I D) -> rdo_get st0 j = Some x ->
     exists y, rdo_get K (rdo_e_cp n0 (rdo_i_redo st0 I D) j) = Some y /\ rdo_del y = false /\ rdo_cnt y = rdo_cnt x) ->
  (* the class: what is re-created is dead and has no re-created parent; the children of a re-created item are dead *)
  (forall j x, In j (rdo_i_redo st0 I D) -> rdo_get st0 j = Some x ->
     rdo_del x = true /\ forall p, rdo_par x = RdoItem p -> ~ In p (rdo_i_redo st0 I D)) ->
  (forall y p, In y st0 -> rdo_par y = RdoItem p -> In p (rdo_i_redo st0 I D) -> rdo_del y = true) ->
  (* a re-created map entry: the other entries of its key chain are not re-created and are dead or inserted by the entry *)
  (forall j x k z, In j (rdo_i_redo st0 I D) -> rdo_get st0 j = Some x -> rdo_sub x = Some k ->
     In z (rdo_chain st0 (rdo_par x) (Some k)) -> rdo_id z <> j ->
     ~ In (rdo_id z) (rdo_i_redo st0 I D) /\ (rdo_del z = true \/ rdo_mem (rdo_id z) I = true)) ->
  rdo_m1_posS st0 n0 (rdo_i_redo st0 I D) K -> rdo_m1_posM st0 n0 (rdo_i_redo st0 I D) K ->
  rdo_d_iso (rdo_i_flip st0 I D) K (rdo_d2_rho (rdo_i_flip st0 I D) n0 (rdo_i_redo st0 I D)).
Proof.
  intros st0 n0 I D K Hn HnK Hparlt Hold Hnew Hcls Hkids Hmapc HposS HposM.
  set (R := rdo_i_redo st0 I D) in *. set (V := rdo_i_flip st0 I D).
  assert (forall x, rdo_id (rdo_e_ff I D x) = rdo_id x) as Fid by (intros; apply rdo_e_ff_keep).
  assert (forall x, rdo_par (rdo_e_ff I D x) = rdo_par x /\ rdo_sub (rdo_e_ff I D x) = rdo_sub x) as Fps.
  { intros x. destruct (rdo_e_ff_keep I D x) as (_ & A & B & _). auto. }
  assert (forall a, rdo_get V a = option_map (rdo_e_ff I D) (rdo_get st0 a)) as GV.
  { intros a. unfold V. rewrite rdo_e_flip_map. apply rdo_e_get_map; auto. }
  split.
  - intros a b [[Ha Hb]|[Ha [Hb [y [Gy Dy]]]]].
    + destruct (rdo_e_redo_in st0 I D a Ha) as (HD & HI & x & Gx).
      destruct (Hnew a x Ha Gx) as (y & Gy & Dy & Cy).
      pose proof (rdo_d_get_some _ _ _ Gx) as [Hx Ex].
      exists (rdo_e_ff I D x), y. rewrite GV, Gx. subst b. split; auto. split; auto.
      rewrite (rdo_d2_ff_in st0 I D x) by (rewrite Ex; auto). simpl. auto.
    + subst b. rewrite GV in Gy. destruct (rdo_get st0 a) as [x|] eqn:Gx; simpl in Gy; try discriminate.
      inversion Gy; subst y. pose proof (rdo_d_get_some _ _ _ Gx) as [Hx Ex].
      destruct (Hold x Hx) as (z & Gz & Dz & Cz). rewrite Ex in Gz.
      exists (rdo_e_ff I D x), z. rewrite GV, Gx. split; auto. split; auto. split; auto. split.
      * rewrite Dz. rewrite <- (rdo_d2_ff_out st0 I D x); auto. rewrite Ex; auto.
      * destruct (rdo_e_ff_keep I D x) as (_ & _ & _ & C). congruence.
  - intros PA PB sub Hb. apply rdo_d_F2_ids.
    assert ((PA = PB /\ forall a, PA = RdoItem a -> ~ In a R) \/
            (exists a, In a R /\ PA = RdoItem a /\ PB = RdoItem (rdo_e_cp n0 R a))) as [[E HP]|[a [Ha [E1 E2]]]].
    { destruct Hb as [[n [-> ->]]|[a [b [-> [-> [[Ha Hb]|[Ha [Hb _]]]]]]]].
      - left. split; auto. intros; discriminate.
      - right. exists a. subst. auto.
      - left. subst b. split; auto. intros a0 E. inversion E; subst; auto. }
    + subst PB.
      assert (BR: forall sub, map rdo_id (rdo_chain K PA sub) = flat_map (rdo_d2_exp n0 R) (rdo_chain st0 PA sub) ->
                  Forall2 (rdo_d2_rho V n0 R) (map rdo_id (rdo_live (rdo_chain V PA sub))) (map rdo_id (rdo_live (rdo_chain K PA sub)))).
      { clear sub. intros sub Hchain.
      unfold V. rewrite rdo_e_flip_map, rdo_e_chain_map, rdo_d2_live_ids_map; auto.
      rewrite (rdo_d2_live_ids_get K (rdo_chain K PA sub) HnK).
      2:{ intros y Hy. apply rdo_d_chain_In in Hy. tauto. }
      rewrite Hchain, rdo_d2_flat_map_flat_map.
      apply rdo_d2_F2_flat_map. intros x Hx. apply rdo_d_chain_In in Hx. destruct Hx as [Hx _].
      pose proof (rdo_d_get_in st0 x Hn Hx) as Gx.
      destruct (Hold x Hx) as (z & Gz & Dz & Cz).
      unfold rdo_d2_exp. destruct (rdo_mem (rdo_id x) R) eqn:M.
      * apply rdo_d_mem_In in M. rewrite (rdo_d2_ff_in st0 I D x M). simpl.
        destruct (Hnew _ x M Gx) as (y & Gy & Dy & Cy). destruct (Hcls _ x M Gx) as [Dx _].
        unfold rdo_i_isdel. rewrite Gy, Dy, Gz, Dz, Dx. simpl. constructor; auto. left. auto.
      * assert (~ In (rdo_id x) R) as NR by (intro H; apply rdo_d_mem_In in H; congruence).
        rewrite (rdo_d2_ff_out st0 I D x Hn Hx NR). simpl. unfold rdo_i_isdel. rewrite Gz, Dz.
        destruct (rdo_del x || rdo_mem (rdo_id x) I) eqn:Ed; simpl; constructor; auto.
        right. split; auto. split; auto. exists (rdo_e_ff I D x). rewrite GV, Gx. split; auto.
        rewrite (rdo_d2_ff_out st0 I D x Hn Hx NR). auto.
      }
      destruct sub as [k|]; [|apply BR; apply HposS].
      set (C := rdo_chain st0 PA (Some k)).
      destruct (existsb (fun z => rdo_mem (rdo_id z) R) C) eqn:EX.
      2:{ apply BR. rewrite HposM. fold C.
          assert (forall z, In z C -> rdo_mem (rdo_id z) R = false) as NR.
          { intros z Hz. destruct (rdo_mem (rdo_id z) R) eqn:M; auto. rewrite <- EX. symmetry. apply existsb_exists. exists z; auto. }
          rewrite (rdo_m1_flat_map_nil _ _ (rdo_m1_cps n0 R)) by (intros z Hz; unfold rdo_m1_cps; rewrite NR; auto).
          rewrite app_nil_r. symmetry. apply rdo_m1_flat_map_sing. intros z Hz. unfold rdo_d2_exp. rewrite NR; auto. }
      apply existsb_exists in EX. destruct EX as [x [Hxc Mx]]. apply rdo_d_mem_In in Mx.
      pose proof Hxc as Hxc'. apply rdo_d_chain_In in Hxc'. destruct Hxc' as [Hx [Hpx Hsx]].
      pose proof (rdo_d_get_in st0 x Hn Hx) as Gx.
      destruct (in_split _ _ Hxc) as [c1 [c2 Ec]].
      assert (rdo_i_nodup (map rdo_id (c1 ++ x :: c2)) = true) as Hnc by (rewrite <- Ec; apply rdo_d_nodup_filter; auto).
      assert (forall z, In z c1 \/ In z c2 -> In z st0 /\ ~ In (rdo_id z) R /\ rdo_del z || rdo_mem (rdo_id z) I = true) as OTH.
      { intros z Hz. assert (In z C) as HzC by (rewrite Ec; apply in_or_app; simpl; tauto).
        pose proof HzC as HzC'. apply rdo_d_chain_In in HzC'. destruct HzC' as [Hz0 _]. split; auto.
        destruct (Hmapc (rdo_id x) x k z Mx Gx Hsx) as [A B].
        - rewrite Hpx. auto.
        - apply (rdo_d2_nodup_mid _ _ _ Hnc). auto.
        - split; auto. apply orb_true_iff. auto. }
      assert (forall z, In z c1 \/ In z c2 -> rdo_i_isdel K (rdo_id z) = true) as OTHK.
      { intros z Hz. destruct (OTH z Hz) as (Hz0 & _ & Dz). destruct (Hold z Hz0) as (y & Gy & Dy & _).
        unfold rdo_i_isdel. rewrite Gy, Dy. auto. }
      (* the virtual side *)
      assert (map rdo_id (rdo_live (rdo_chain V PA (Some k))) = [rdo_id x]) as ->.
      { unfold V. rewrite rdo_e_flip_map, rdo_e_chain_map, rdo_d2_live_ids_map; auto. fold C. rewrite Ec, flat_map_app. simpl flat_map.
        rewrite (rdo_m1_flat_map_nil _ _ _ c1).
        2:{ intros z Hz. destruct (OTH z (or_introl Hz)) as (Hz0 & NRz & Dz). rewrite (rdo_d2_ff_out st0 I D z Hn Hz0 NRz), Dz. auto. }
        rewrite (rdo_m1_flat_map_nil _ _ _ c2).
        2:{ intros z Hz. destruct (OTH z (or_intror Hz)) as (Hz0 & NRz & Dz). rewrite (rdo_d2_ff_out st0 I D z Hn Hz0 NRz), Dz. auto. }
        rewrite (rdo_d2_ff_in st0 I D x Mx). simpl. auto. }
      (* the real side *)
      assert (map rdo_id (rdo_live (rdo_chain K PA (Some k))) = [rdo_e_cp n0 R (rdo_id x)]) as ->.
      { rewrite (rdo_d2_live_ids_get K (rdo_chain K PA (Some k)) HnK).
        2:{ intros y Hy. apply rdo_d_chain_In in Hy. tauto. }
        rewrite HposM. fold C. rewrite flat_map_app, Ec, map_app, !flat_map_app. simpl map. simpl flat_map.
        rewrite !rdo_m1_flat_map_map.
        rewrite (rdo_m1_flat_map_nil _ _ _ c1) by (intros z Hz; rewrite OTHK; auto).
        rewrite (rdo_m1_flat_map_nil _ _ _ c2) by (intros z Hz; rewrite OTHK; auto).
        destruct (Hold x Hx) as (y & Gy & Dy & _). destruct (Hcls _ x Mx Gx) as [Dx _].
        unfold rdo_i_isdel at 1. rewrite Gy, Dy, Dx. simpl.
        rewrite (rdo_m1_flat_map_nil _ _ (rdo_m1_cps n0 R) c1).
        2:{ intros z Hz. apply rdo_m1_cps_out. apply (OTH z). auto. }
        rewrite (rdo_m1_flat_map_nil _ _ (rdo_m1_cps n0 R) c2).
        2:{ intros z Hz. apply rdo_m1_cps_out. apply (OTH z). auto. }
        unfold rdo_m1_cps at 1. assert (rdo_mem (rdo_id x) R = true) as -> by (apply rdo_d_mem_In; auto).
        simpl. destruct (Hnew _ x Mx Gx) as (yc & Gyc & Dyc & _). unfold rdo_i_isdel. rewrite Gyc, Dyc. auto. }
      constructor; auto. left. auto.
    + subst PA PB.
      assert (rdo_live (rdo_chain V (RdoItem a) sub) = []) as ->.
      { apply rdo_d_live_nil. intros y Hy. apply rdo_d_chain_In in Hy. destruct Hy as [Hy [Hp _]].
        unfold V in Hy. rewrite rdo_e_flip_map in Hy. apply in_map_iff in Hy. destruct Hy as [x [Ey Hx]]. subst y.
        destruct (Fps x) as [Fp _]. rewrite Fp in Hp.
        assert (~ In (rdo_id x) R) as NR.
        { intros H. destruct (Hcls _ x H (rdo_d_get_in st0 x Hn Hx)) as [_ C]. apply (C a); auto. }
        rewrite (rdo_d2_ff_out st0 I D x Hn Hx NR). rewrite (Hkids x a Hx Hp Ha). auto. }
      assert (rdo_chain K (RdoItem (rdo_e_cp n0 R a)) sub = []) as ->.
      { apply (map_eq_nil rdo_id).
        assert (rdo_chain st0 (RdoItem (rdo_e_cp n0 R a)) sub = []) as E0.
        { destruct (rdo_chain st0 (RdoItem (rdo_e_cp n0 R a)) sub) as [|z r] eqn:Ec; auto. exfalso.
          assert (In z (rdo_chain st0 (RdoItem (rdo_e_cp n0 R a)) sub)) as Hz by (rewrite Ec; simpl; auto).
          apply rdo_d_chain_In in Hz. destruct Hz as [Hz [Hp _]]. pose proof (Hparlt z _ Hz Hp) as L.
          unfold rdo_e_cp in L. lia. }
        destruct sub as [k|]; [rewrite HposM | rewrite HposS]; rewrite E0; auto. }
      simpl. constructor.
Qed.
Print Assumptions rdo_m1_iso_pos.

(* ---------------------------------------------------------------------------------------------- *)
(* Lemma P for the class: no re-created item has a re-created parent (sequence items and map entries mixed) *)

Lemma rdo_m1_posS_init : forall st0 n0, rdo_m1_posS st0 n0 [] st0.
Proof. intros st0 n0 P. apply rdo_d2_pos_init. Qed.
Print Assumptions rdo_m1_posS_init.

Lemma rdo_m1_posM_init : forall st0 n0, rdo_m1_posM st0 n0 [] st0.
Proof. intros st0 n0 P k. rewrite rdo_m1_flat_map_nil; auto. rewrite app_nil_r. auto. Qed.
Print Assumptions rdo_m1_posM_init.

Lemma rdo_m1_posS_kill : forall st0 n0 R K d, rdo_m1_posS st0 n0 R K -> rdo_m1_posS st0 n0 R (rdo_e_kill d K).
Proof. intros st0 n0 R K d H P. rewrite rdo_e_kill_chain, rdo_e_kill_ids. apply H. Qed.
Print Assumptions rdo_m1_posS_kill.

Lemma rdo_m1_posM_kill : forall st0 n0 R K d, rdo_m1_posM st0 n0 R K -> rdo_m1_posM st0 n0 R (rdo_e_kill d K).
Proof. intros st0 n0 R K d H P k. rewrite rdo_e_kill_chain, rdo_e_kill_ids. apply H. Qed.
Print Assumptions rdo_m1_posM_kill.

Lemma rdo_m1_cls_spec : forall st I D, rdo_m1_cls st I D = true ->
  forall j x p, In j (rdo_i_redo st I D) -> rdo_get st j = Some x -> rdo_par x = RdoItem p -> ~ In p (rdo_i_redo st I D).
Proof.
  intros st I D H j x p Hj G Hp. unfold rdo_m1_cls in H. rewrite forallb_forall in H. specialize (H j Hj). rewrite G, Hp in H.
  apply negb_true_iff in H. apply rdo_e_mem_nin. auto.
Qed.
Print Assumptions rdo_m1_cls_spec.

Lemma rdo_m1_process_pos : forall s e s1 s2,
  rdo_i_pc (rdo_doc s) (rdo_clock s) (rdo_scope s) (rdo_sins e) (rdo_sdel e) = true -> NoDup (rdo_sdel e) ->
  (forall j x p, In j (rdo_i_redo (rdo_doc s) (rdo_sins e) (rdo_sdel e)) -> rdo_get (rdo_doc s) j = Some x ->
     rdo_par x = RdoItem p -> ~ In p (rdo_i_redo (rdo_doc s) (rdo_sins e) (rdo_sdel e))) ->
  exists t, rdo_process s e s1 s2 =
              RdoOk (t, rdo_is_some (hd_error (rdo_i_redo (rdo_doc s) (rdo_sins e) (rdo_sdel e))) ||
                        rdo_is_some (hd_error (rdo_e_liveI (rdo_doc s) (rdo_sins e)))) /\
            rdo_e_result (rdo_doc s) (rdo_clock s) (rdo_sins e) (rdo_sdel e) t /\
            rdo_m1_posS (rdo_doc s) (rdo_clock s) (rdo_i_redo (rdo_doc s) (rdo_sins e) (rdo_sdel e)) (rdo_st t) /\
            rdo_m1_posM (rdo_doc s) (rdo_clock s) (rdo_i_redo (rdo_doc s) (rdo_sins e) (rdo_sdel e)) (rdo_st t).
Proof. intros s e s1 s2 PC NDD FLAT. apply rdo_e_pc_unpack in PC.
  set (st0 := rdo_doc s) in *. set (I := rdo_sins e) in *. set (D := rdo_sdel e) in *. set (n0 := rdo_clock s) in *.
  set (R := rdo_i_redo st0 I D) in *.
  pose proof (rdo_e_p_wf _ _ _ _ _ PC) as W. pose proof (rdo_e_wfp_nodup _ _ W) as ND0.
  rewrite (rdo_e_process_eq s e s1 s2 (rdo_e_liveI st0 I)).
  2: { rewrite (rdo_e_td st0 (rdo_scope s) I); auto; apply PC. }
  2: apply PC.
  cbv zeta. fold st0 I D R.
  assert (C3: forall j x, In j R -> rdo_get st0 j = Some x -> In x st0 /\ rdo_id x = j /\ rdo_del x = true /\ rdo_red x = None /\
            forall p, rdo_par x = RdoItem p -> rdo_i_isdel st0 p = false /\ ~ In p I).
  { intros j x Ij Gj. destruct (rdo_a_get_in _ _ _ Gj) as (Ix & Ex). split; auto. split; auto.
    destruct (rdo_e_p_c3 _ _ _ _ _ PC x Ix) as (Dx & Rx & Px). rewrite Ex; auto. split; auto. split; auto.
    intros p Pp. rewrite Pp in Px. destruct Px as [?|K]; auto. exfalso. apply (FLAT j x p); auto. }
  destruct (rdo_m1_fold_A st0 n0 I R s1 s2 R W (rdo_e_p_c2 _ _ _ _ _ PC)) with (todo := R) (done := @nil N) (t := rdo_begin s) (c := false) (dk := @nil N)
    as (t1 & dk & E1 & V1 & DK & NDK & PS1 & PM1); auto.
  - intros j Ij. destruct (rdo_e_p_I _ _ _ _ _ PC _ Ij) as (y & G & _). eauto.
  - intros j xj p Ij Gj Pj. split. apply (FLAT j xj p); auto. destruct (C3 j xj Ij Gj) as (_ & _ & _ & _ & Q). apply (Q p); auto.
  - intros i Ii. destruct (rdo_e_redo_in _ _ _ _ Ii) as (ID & NI & x & G). destruct (C3 _ _ Ii G) as (Ix & Ex & Dx & Rx & Px).
    destruct (rdo_e_wfp_item _ _ W _ Ix) as (L & WP).
    exists x. split; auto. split; auto. split; auto. split.
    + destruct (rdo_par x) eqn:P; auto. destruct (Px id eq_refl) as (A & B).
      apply rdo_e_isdel_live in A. destruct A as (pit & Gp & Dp). destruct (WP id eq_refl) as (Lp & y & k & Gy & Cy).
      rewrite Gp in Gy. inversion Gy; subst y. exists pit, k. auto.
    + intros k Sk. assert (SN: rdo_sub x <> None) by congruence. split.
      * intros j Ij. rewrite <- Ex in Ij. apply (rdo_e_p_c4 _ _ _ _ _ PC x Ix); auto. rewrite Ex; auto.
      * intros j xj Ij NE Gj (P1 & S1). destruct (C3 _ _ Ij Gj) as (Ixj & Exj & _).
        destruct (rdo_e_chain_lr st0 x xj ND0 Ix Ixj) as [K|K]; try congruence.
        -- rewrite Exj in K. apply (rdo_e_p_c4 _ _ _ _ _ PC x Ix) in K; auto. destruct K as (_ & K & _). apply K; auto. rewrite Ex; auto.
        -- rewrite Ex in K. apply (rdo_e_p_c4 _ _ _ _ _ PC xj Ixj) in K; auto. destruct K as (_ & K & _). apply K; auto. rewrite Exj; auto. congruence.
  - apply NoDup_filter; auto.
  - apply rdo_e_inv_init; auto. intros x Ix. apply (rdo_e_wfp_item _ _ W _ Ix).
  - intros j [].
  - constructor.
  - apply rdo_m1_posS_init.
  - apply rdo_m1_posM_init.
  - rewrite E1. cbn [rdo_bind].
    destruct (rdo_e_finish st0 n0 (rdo_scope s) I D t1 dk PC V1 DK NDK) as (t2 & dd & E2 & V2 & NDd & IFF & FO & KS).
    + intros j x p Ij Gj Pj. fold R in Pj. destruct (C3 _ _ Ij Gj) as (Ix & Ex & _ & _ & Px). destruct (rdo_e_wfp_item _ _ W _ Ix) as (L & WP).
      unfold rdo_e_mpar in Pj. destruct (rdo_par x) eqn:P; try discriminate.
      assert (rdo_mem id R = false) as M by (apply rdo_e_mem_nin; apply (FLAT j x id); auto). rewrite M in Pj. inversion Pj; subst id.
      split. apply (Px p); auto. destruct (WP p eq_refl) as (Lp & _). pose proof (rdo_e_cp_lt n0 R j Ij). rewrite Ex in Lp, L. fold R. lia.
    + rewrite E2. cbn [rdo_bind]. exists t2. split; auto. split. { exists dd. auto. }
      rewrite KS. split. { apply rdo_m1_posS_kill; auto. } apply rdo_m1_posM_kill; auto.
Qed.
Print Assumptions rdo_m1_process_pos.

Theorem rdo_m1_lemma_P_partial : forall s e s1 s2,
  rdo_i_pc (rdo_doc s) (rdo_clock s) (rdo_scope s) (rdo_sins e) (rdo_sdel e) = true ->
  StronglySorted N.lt (rdo_sdel e) ->
  rdo_m1_cls (rdo_doc s) (rdo_sins e) (rdo_sdel e) = true ->
  exists t ch, rdo_process s e s1 s2 = RdoOk (t, ch) /\
    forall root, rdo_render_root (rdo_st t) root = rdo_i_render_root (rdo_i_flip (rdo_doc s) (rdo_sins e) (rdo_sdel e)) root.
Proof.
  intros s e s1 s2 PC0 SS CLS. pose proof (rdo_m1_cls_spec _ _ _ CLS) as FLAT.
  destruct (rdo_m1_process_pos s e s1 s2 PC0 (rdo_e_ss_nodup _ SS) FLAT) as (t & E & RES & PS & PM).
  destruct (rdo_e_lemma_R s e s1 s2 t _ PC0 SS E) as (_ & _ & _ & LL & _).
  pose proof PC0 as PC. apply rdo_e_pc_unpack in PC.
  set (st0 := rdo_doc s) in *. set (I := rdo_sins e) in *. set (D := rdo_sdel e) in *. set (n0 := rdo_clock s) in *.
  set (R := rdo_i_redo st0 I D) in *.
  pose proof (rdo_e_p_wf _ _ _ _ _ PC) as W. pose proof (rdo_e_wfp_nodup _ _ W) as ND0.
  exists t. eexists. split. { exact E. }
  apply (rdo_e_process_render_partial s e t (rdo_d2_rho (rdo_i_flip st0 I D) n0 R)); auto.
  destruct RES as (dd & V & NDd & IFF & FO).
  apply rdo_m1_iso_pos; auto.
  - eapply rdo_d_wfp_nodup; eauto.
  - apply rdo_d_nodup_spec. apply V.
  - intros x q Hx Hp. destruct (rdo_e_wfp_item _ _ W _ Hx) as (L & WP). destruct (WP q Hp) as (Lq & _). lia.
  - intros x Hx. destruct (rdo_e_wfp_item _ _ W _ Hx) as (L & _).
    exists (rdo_e_oldk n0 R I x). split; [|split; reflexivity].
    rewrite <- (rdo_e_get_filter (fun i => i <? n0) (rdo_st t) (rdo_id x)) by (apply N.ltb_lt; auto).
    change (filter (fun y => rdo_id y <? n0) (rdo_st t)) with (filter (rdo_e_isold n0) (rdo_st t)).
    rewrite FO. rewrite rdo_e_get_map by reflexivity.
    rewrite (rdo_d_get_in st0 x) by (auto; eapply rdo_d_wfp_nodup; eauto). reflexivity.
  - intros j x Hj Gx. destruct (rdo_e_v_new _ _ _ _ _ V j Hj) as (x' & l & r & G0 & G1).
    fold st0 in G0. rewrite Gx in G0. inversion G0; subst x'. eexists. split. { exact G1. } split; reflexivity.
  - intros j x Hj Gx. destruct (rdo_a_get_in _ _ _ Gx) as (Hx & Ex).
    destruct (rdo_e_p_c3 _ _ _ _ _ PC x Hx) as (Dx & _). { rewrite Ex; auto. }
    split; auto. intros p Hp. apply (FLAT j x p Hj Gx Hp).
  - intros y p Hy Hp Hpr. destruct (rdo_e_redo_in _ _ _ _ Hpr) as (_ & _ & xp & Gp).
    destruct (rdo_a_get_in _ _ _ Gp) as (Hxp & Exp).
    destruct (rdo_e_p_c3 _ _ _ _ _ PC xp Hxp) as (Dp & _). { rewrite Exp; auto. }
    pose proof (rdo_e_p_casc _ _ _ _ _ PC) as CS. apply rdo_d_cascade_spec in CS.
    apply (CS y Hy p xp); auto.
  - intros j x k z Hj Gx Sx Hz Nz. destruct (rdo_a_get_in _ _ _ Gx) as (Ix & Ex).
    apply rdo_d_chain_In in Hz. destruct Hz as [Iz [Pz Sz]].
    assert (SN: rdo_sub x <> None) by congruence. assert (SNz: rdo_sub z <> None) by congruence.
    assert (rdo_id x <> rdo_id z) as NE by (rewrite Ex; auto).
    destruct (rdo_e_chain_lr st0 x z ND0 Ix Iz NE Pz) as [K|K]. { congruence. }
    + destruct (rdo_e_p_c4 _ _ _ _ _ PC x Ix) with (j := rdo_id z) as (A & B & _); auto. { rewrite Ex; auto. }
      split; auto. right. apply rdo_d_mem_In. auto.
    + assert (~ In (rdo_id z) R) as NRz.
      { intros Rz. destruct (rdo_e_p_c4 _ _ _ _ _ PC z Iz Rz SNz (rdo_id x) K) as (A & _).
        destruct (rdo_e_redo_in _ _ _ _ Hj) as (_ & NI & _). apply NI. rewrite <- Ex. auto. }
      split; auto. left.
      pose proof (rdo_e_p_ll _ _ _ _ _ PC) as LLs. unfold rdo_i_lastlive in LLs.
      pose proof (rdo_e_all_spec _ _ LLs z Iz) as Hz. simpl in Hz. rewrite Sz in Hz.
      destruct (rdo_del z); auto. simpl in Hz. unfold rdo_right in Hz.
      destruct (rdo_rights st0 (rdo_id z)); [destruct K|]. simpl in Hz. discriminate.
Qed.
Print Assumptions rdo_m1_lemma_P_partial.

Theorem rdo_m1_lemma_P_union_partial : forall s e s1 s2,
  rdo_i_pc (rdo_doc s) (rdo_clock s) (rdo_scope s) (rdo_sins e) (rdo_sdel e) = true ->
  StronglySorted N.lt (rdo_sdel e) ->
  rdo_m1_cls_union (rdo_doc s) (rdo_sins e) (rdo_sdel e) = true ->
  exists t ch, rdo_process s e s1 s2 = RdoOk (t, ch) /\
    forall root, rdo_render_root (rdo_st t) root = rdo_i_render_root (rdo_i_flip (rdo_doc s) (rdo_sins e) (rdo_sdel e)) root.
Proof.
  intros s e s1 s2 PC SS CLS. unfold rdo_m1_cls_union in CLS. apply orb_true_iff in CLS. destruct CLS as [C|C].
  - apply rdo_d2_lemma_P_union_partial; auto.
  - apply rdo_m1_lemma_P_partial; auto.
Qed.
Print Assumptions rdo_m1_lemma_P_union_partial.


(* ========================================================================================== *)
(* SECTION M2 *)

(* RedoMoreB.v (section M2) - Lemma P (render of the result = rdo_i_render_root of rdo_i_flip) for entries that re-create a
   CONTAINER TOGETHER WITH CHILDREN.  PROVED (Qed, closed):
     rdo_m2_lemma_P_partial : rdo_i_pc -> StronglySorted N.lt (rdo_sdel e) -> rdo_m2_cls (rdo_doc s) (rdo_sins e) (rdo_sdel e) = true ->
        exists t ch, rdo_process s e s1 s2 = RdoOk (t, ch) /\ forall root, rdo_render_root (rdo_st t) root = rdo_i_render_root (rdo_i_flip ..) root
     rdo_m2_cls: R = [i; c] with c a child of i (i, c sequence item or map entry), or R = [i; c; c2] with c, c2 children of i, both
        sequence items, c to the right of c2 (rdo_mem c (rdo_rights st c2)).  The parent of i is then a root or alive.
     rdo_m2_pair_iso / _map, rdo_m2_triple_iso / _map: the iso rdo_d_iso (rdo_i_flip ..) (rdo_st t) rho (by rdo_d_iso_add per step, at the
        level of the stores killed by I); legality comes from rdo_e_lemma_R.
     left' of the step below a re-created parent is pinned down in two situations: rdo_m2_tail_seqB_empty (no sibling has a copy: lloop
        and rloop give None, resolve_conflict scans an empty chain, left' = None) and rdo_m2_tail_seqB_right (the only copy below the
        parent's copy belongs to a sibling on the RIGHT: lloop gives None (rdo_e_lloop_B_first), left' = None with or without conflict).
   MISSING: the first child to the LEFT of the second one (left' = its copy), three or more children, grandchildren, i.e. the general
     positional invariant rdo_m2_posB; RedoMoreBTest.v: 5750 of the 6076 entries of the depth-4 sweep outside rdo_d2_cls_union are in
     rdo_m2_cls (coverage 37138 / 37464). *)

Lemma rdo_m2_goodB_none : forall st q o, rdo_chain st (RdoItem q) None = [] -> rdo_e_goodB st q o -> o = None.
Proof. intros st q o CH G. destruct o as [c|]; auto. exfalso. destruct (G c eq_refl) as (z & Gz & Pz & Sz).
  destruct (rdo_a_get_in _ _ _ Gz) as (Iz & _). pose proof (rdo_a_in_chain st (RdoItem q) None z Iz Pz Sz) as K. rewrite CH in K. destruct K. Qed.
Print Assumptions rdo_m2_goodB_none.

Lemma rdo_m2_tail_seqB_empty : forall t item i p q td s1 s2 yq,
  rdo_get (rdo_st t) i = Some item -> rdo_sub item = None ->
  (forall y, In y (rdo_st t) -> rdo_id y < rdo_next t) ->
  rdo_get (rdo_st t) q = Some yq -> rdo_del yq = false ->
  rdo_chain (rdo_st t) (RdoItem q) None = [] ->
  (forall l, In l (rdo_lefts (rdo_st t) i ++ i :: rdo_rights (rdo_st t) i) -> rdo_e_sibB (rdo_st t) q l) ->
  rdo_a_tail t item i (Some q) (RdoItem p) (RdoItem q) td s1 s2 =
    RdoOk ({| rdo_st := rdo_link (rdo_update (rdo_st t) i (fun y => rdo_set_red y (rdo_next t))) None
                          (rdo_e_newk (rdo_next t) (RdoItem q) item None None);
              rdo_next := rdo_next t + 1; rdo_tins := rdo_tins t ++ [rdo_next t]; rdo_tdel := rdo_tdel t |}, Some (rdo_next t)).
Proof. intros t item i p q td s1 s2 yq Gi SUB LT Gq Dq CH SIB.
  assert (LN: (1 <= length (rdo_st t))%nat). { destruct (rdo_st t); simpl in *. discriminate. lia. }
  destruct (rdo_e_lloop_B (rdo_st t) q (rdo_lefts (rdo_st t) i) LN) as (lo & EL & GL). { intros; apply SIB; apply in_or_app; auto. }
  destruct (rdo_e_rloop_B (rdo_st t) q lo (i :: rdo_rights (rdo_st t) i) LN) as (ro & ER & GR). { intros; apply SIB; apply in_or_app; auto. }
  pose proof (rdo_m2_goodB_none _ _ _ CH GL). subst lo. pose proof (rdo_m2_goodB_none _ _ _ CH GR). subst ro.
  set (nid := rdo_next t). set (st2 := rdo_update (rdo_st t) i (fun y => rdo_set_red y nid)).
  assert (CH2: rdo_chain st2 (RdoItem q) None = []).
  { assert (R0: Forall2 rdo_a_R0 (rdo_st t) st2). { apply rdo_a_update_R0. intros y; unfold rdo_a_R0; simpl; auto. }
    pose proof (rdo_a_chain_ids_R0 _ _ R0 (RdoItem q) None) as CI. rewrite CH in CI. simpl in CI.
    destruct (rdo_chain st2 (RdoItem q) None); auto. discriminate. }
  assert (FR: ~ In nid (map rdo_id st2)).
  { unfold st2. rewrite rdo_a_ids_update; auto. intro K. apply in_map_iff in K. destruct K as (y & Ey & Iy). apply LT in Iy. fold nid in Iy. lia. }
  unfold rdo_a_tail, rdo_a_lr, rdo_e_newk. rewrite SUB. cbv zeta. rewrite EL. cbn [rdo_bind]. rewrite ER. cbn [rdo_bind]. fold nid. fold st2.
  unfold rdo_integrate. cbn [rdo_st rdo_neighbour_ok andb negb rdo_detect_conflict].
  unfold rdo_resolve_conflict. cbn [rdo_par rdo_sub]. rewrite CH2. cbn [rdo_scan rdo_link rdo_id].
  match goal with |- context [rdo_right ?S ?I] => destruct (rdo_right S I) end;
    cbn [rdo_bind rdo_st rdo_par rdo_sub rdo_is_some andb orb];
    match goal with |- context [rdo_parent_deleted ?S ?P] =>
      assert (PD: rdo_parent_deleted S P = false) by
        (apply (rdo_e_pdel_link st2 None); auto; unfold st2; rewrite rdo_e_pdel_set_red; simpl; rewrite Gq; auto) end;
    rewrite PD; reflexivity.
Qed.
Print Assumptions rdo_m2_tail_seqB_empty.

(* ============================================================================================== *)
(* a re-created container (sequence item, parent a root or alive) and ONE re-created child (sequence item) *)
Lemma rdo_m2_flip_pair : forall st0 I D i c, NoDup (map rdo_id st0) -> rdo_i_redo st0 I D = [i; c] -> i <> c ->
  rdo_i_flip st0 I D = rdo_update (rdo_update (rdo_e_kill I st0) i rdo_set_live) c rdo_set_live.
Proof. intros st0 I D i c ND HR NE. rewrite rdo_e_flip_map. symmetry. unfold rdo_e_kill.
  assert (IR: forall j, In j (rdo_i_redo st0 I D) -> j = i \/ j = c) by (intros j Ij; rewrite HR in Ij; simpl in Ij; intuition).
  destruct (rdo_e_redo_in st0 I D i) as (IDi & NIi & _). rewrite HR; simpl; auto.
  destruct (rdo_e_redo_in st0 I D c) as (IDc & NIc & _). rewrite HR; simpl; auto.
  set (F := fun x => if rdo_mem (rdo_id x) I then rdo_set_del x else x).
  set (F1 := fun x => if rdo_id x =? i then rdo_set_live x else F x).
  assert (IDF: forall y, rdo_id (F y) = rdo_id y) by (intros y; unfold F; destruct (rdo_mem (rdo_id y) I); auto).
  assert (IDF1: forall y, rdo_id (F1 y) = rdo_id y) by (intros y; unfold F1; destruct (rdo_id y =? i); auto).
  rewrite (rdo_e_update_map F F1 rdo_set_live st0 i); auto.
  - apply rdo_e_update_map; auto.
    + intros x1 I1 E1. unfold F1, rdo_e_ff, F. assert (rdo_id x1 =? i = false) as Q by (apply N.eqb_neq; congruence). rewrite Q, E1.
      apply rdo_e_mem_nin in NIc. rewrite NIc. apply rdo_e_mem_in in IDc. rewrite IDc. auto.
    + intros x1 I1 E1. unfold F1, rdo_e_ff, F. destruct (rdo_id x1 =? i) eqn:Q.
      * apply N.eqb_eq in Q. rewrite Q. apply rdo_e_mem_nin in NIi. rewrite NIi. apply rdo_e_mem_in in IDi. rewrite IDi. auto.
      * destruct (rdo_mem (rdo_id x1) I) eqn:MI; auto. destruct (rdo_mem (rdo_id x1) D) eqn:MD; auto.
        exfalso. apply N.eqb_neq in Q. destruct (IR (rdo_id x1)); auto. unfold rdo_i_redo. apply filter_In. split. apply rdo_e_mem_in; auto.
        rewrite (rdo_a_in_get _ _ ND I1). simpl. rewrite MI. auto.
  - intros x1 I1 E1. unfold F1, F. rewrite E1, N.eqb_refl. apply rdo_e_mem_nin in NIi. rewrite NIi. auto.
  - intros x1 I1 E1. unfold F1. apply N.eqb_neq in E1. rewrite E1. auto.
Qed.
Print Assumptions rdo_m2_flip_pair.

Lemma rdo_m2_pair_iso : forall s e s1 s2 i x c xc,
  rdo_i_pc (rdo_doc s) (rdo_clock s) (rdo_scope s) (rdo_sins e) (rdo_sdel e) = true ->
  rdo_i_redo (rdo_doc s) (rdo_sins e) (rdo_sdel e) = [i; c] -> rdo_get (rdo_doc s) i = Some x -> rdo_sub x = None ->
  rdo_get (rdo_doc s) c = Some xc -> rdo_par xc = RdoItem i ->
  exists t ch, rdo_process s e s1 s2 = RdoOk (t, ch) /\
    exists rho, rdo_d_iso (rdo_i_flip (rdo_doc s) (rdo_sins e) (rdo_sdel e)) (rdo_st t) rho.
Proof. intros s e s1 s2 i x c xc PC0 HR G SUB Gc Pc. pose proof (rdo_e_pc_unpack _ _ _ _ _ PC0) as PC.
  set (st0 := rdo_doc s) in *. set (I := rdo_sins e) in *. set (D := rdo_sdel e) in *. set (n0 := rdo_clock s) in *.
  pose proof (rdo_e_p_wf _ _ _ _ _ PC) as W. pose proof (rdo_e_wfp_nodup _ _ W) as ND0.
  assert (IR: In i (rdo_i_redo st0 I D)) by (rewrite HR; simpl; auto).
  destruct (rdo_e_redo_in _ _ _ _ IR) as (ID & NI & _).
  destruct (rdo_a_get_in _ _ _ G) as (Ix & Ex). destruct (rdo_e_wfp_item _ _ W _ Ix) as (LI & WP). rewrite Ex in LI.
  destruct (rdo_e_p_c3 _ _ _ _ _ PC x Ix) as (Dx & Rx & Px). rewrite Ex; auto.
  assert (IP: forall j, In j I -> exists y, rdo_get st0 j = Some y /\ j < n0).
  { intros j Ij. destruct (rdo_e_p_I _ _ _ _ _ PC _ Ij) as (y & Gy & _). exists y. split; auto.
    destruct (rdo_a_get_in _ _ _ Gy) as (Iy & Ey). rewrite <- Ey. apply (rdo_e_wfp_item _ _ W _ Iy). }
  destruct (rdo_a_get_in _ _ _ Gc) as (Ixc & Exc). destruct (rdo_e_wfp_item _ _ W _ Ixc) as (LC & WPc). rewrite Exc in LC.
  destruct (WPc i Pc) as (Lic & xp' & kc & Gxp' & Cx). rewrite Exc in Lic. rewrite G in Gxp'. inversion Gxp'; subst xp'. clear Gxp'.
  assert (IRc: In c (rdo_i_redo st0 I D)) by (rewrite HR; simpl; auto).
  destruct (rdo_e_redo_in _ _ _ _ IRc) as (IDc & NIc & _).
  destruct (rdo_e_p_c3 _ _ _ _ _ PC xc Ixc) as (Dxc & Rxc & _). rewrite Exc; auto.
  assert (PAL: forall p, rdo_par x = RdoItem p -> p < i /\ ~ In p I /\ exists pit kk, rdo_get st0 p = Some pit /\ rdo_del pit = false /\ rdo_cnt pit = RdoType kk).
  { intros p Pp. destruct (WP p Pp) as (Lp & y & k & Gy & Cy). rewrite Ex in Lp. split; auto. rewrite Pp in Px.
    destruct Px as [(A & B)|K]. 2: { rewrite HR in K. destruct K as [K|[K|[]]]; lia. }
    split; auto. apply rdo_e_isdel_live in A. destruct A as (pit & Gp & Dp). rewrite Gp in Gy. inversion Gy; subst y. eauto. }
  assert (NIn0: ~ In n0 I). { intro K. destruct (IP _ K) as (_ & _ & L). lia. }
  destruct (rdo_e_get_split _ _ _ G) as (a & b & ST & NIa & _).
  (* the process: one rdo_redo, then the deletions *)
  rewrite (rdo_e_process_eq s e s1 s2 (rdo_e_liveI st0 I)).
  2: { rewrite (rdo_e_td st0 (rdo_scope s) I); auto; apply PC. }
  2: apply PC.
  cbv zeta. fold st0 I D. rewrite HR. cbn [fold_left]. unfold rdo_e_fredo. cbn [rdo_bind].
  assert (V0: rdo_e_inv st0 n0 [] [] (rdo_begin s)).
  { apply rdo_e_inv_init; auto. intros y Iy. apply (rdo_e_wfp_item _ _ W _ Iy). }
  destruct (rdo_e_step_seqA st0 n0 [] [] (rdo_begin s) i V0 ND0) as (t1 & E1 & V1).
  { exists x. repeat (split; auto). destruct (rdo_par x) eqn:P; auto. destruct (PAL id eq_refl) as (Lp & NIp & pit & kk & Gp & Dp & Cp).
    exists pit, kk. repeat (split; auto). lia. }
  { intros []. }
  { intros p x0 G0 P0. rewrite G in G0. inversion G0; subst x0. simpl. intros [K|[]]. destruct (PAL p P0). lia. }
  { intros j xj []. }
  simpl app in V1.
  assert (PAR0: match rdo_par x with
                | RdoRoot _ => True
                | RdoItem p => exists pit k, rdo_get (rdo_st (rdo_begin s)) p = Some pit /\ rdo_del pit = false /\ rdo_cnt pit = RdoType k
                end).
  { destruct (rdo_par x) eqn:P; auto. destruct (PAL id eq_refl) as (_ & _ & pit & kk & Gp & Dp & Cp). exists pit, kk. auto. }
  pose proof (rdo_e_redo_seqA (length (rdo_st (rdo_begin s))) (rdo_begin s) x a b [i; c] I s1 s2 ST ND0 Rx SUB
                (fun y Iy => proj1 (rdo_e_wfp_item _ _ W y Iy)) PAR0) as EX.
  rewrite Ex in EX. rewrite E1 in EX. inversion EX as [ET1]. clear EX.
  rewrite E1. cbn [rdo_bind].
  (* second step: the child, below the copy n0 of its parent *)
  assert (CPI: rdo_e_cp n0 [i] i = n0). { unfold rdo_e_cp. simpl. rewrite N.eqb_refl. lia. }
  assert (NX1: rdo_next t1 = n0 + 1). { rewrite (rdo_e_v_next _ _ _ _ _ V1). simpl. lia. }
  pose proof (rdo_e_inv_get_old _ _ _ _ _ c V1 LC) as Gc1. rewrite Gc in Gc1. simpl in Gc1. set (itemc := rdo_e_oldk n0 [i] [] xc) in *.
  assert (REDc: rdo_red itemc = None). { simpl. rewrite Exc. assert (c =? i = false) as Q by (apply N.eqb_neq; lia). rewrite Q. simpl. auto. }
  pose proof (rdo_e_inv_get_old _ _ _ _ _ i V1 LI) as Gp1. rewrite G in Gp1. simpl in Gp1. set (pit1 := rdo_e_oldk n0 [i] [] x) in *.
  assert (Rp1: rdo_red pit1 = Some n0). { simpl. rewrite Ex, N.eqb_refl. simpl. rewrite CPI. auto. }
  assert (Dp1: rdo_del pit1 = true). { simpl. rewrite Dx. auto. }
  destruct (rdo_e_v_new _ _ _ _ _ V1 i (or_introl eq_refl)) as (x2 & lq & rq & G2 & Gq). rewrite G in G2. inversion G2; subst x2. clear G2. rewrite CPI in Gq.
  set (yq := rdo_e_newk n0 (rdo_e_mpar n0 [i] (rdo_par x)) x lq rq) in *.
  rewrite (rdo_e_redo_B (length (rdo_st t1)) t1 c itemc i pit1 n0 yq kc [i; c] I s1 s2 Gc1 REDc Pc Gp1 Dp1 Rp1 Gq eq_refl Cx).
  assert (NOPAR: forall y, In y (rdo_st t1) -> rdo_par y <> RdoItem n0).
  { intros y Iy K0. destruct (rdo_e_inv_item _ _ _ _ _ _ V1 Iy) as [(y0 & I0 & E0)|(j & y0 & l0 & r0 & Ij & Gj & E0)]; subst y; simpl in K0.
    - destruct (rdo_e_wfp_item _ _ W _ I0) as (L0 & WP0). destruct (WP0 _ K0). lia.
    - destruct Ij as [Ej|[]]. subst j. rewrite G in Gj. inversion Gj; subst y0. unfold rdo_e_mpar in K0. destruct (rdo_par x) eqn:PX; try discriminate.
      destruct (PAL id eq_refl) as (Lp & _). assert (rdo_mem id [i] = false) as Q by (simpl; rewrite orb_false_r; apply N.eqb_neq; lia).
      rewrite Q in K0. inversion K0. lia. }
  assert (CHq: forall S, rdo_chain (rdo_st t1) (RdoItem n0) S = []).
  { intros S. destruct (rdo_chain (rdo_st t1) (RdoItem n0) S) as [|y rest] eqn:CE; auto. exfalso.
    assert (In y (rdo_chain (rdo_st t1) (RdoItem n0) S)) as K0 by (rewrite CE; simpl; auto). apply rdo_a_chain_in in K0. destruct K0 as (Iy & Py & _).
    apply (NOPAR y Iy Py). }
  assert (LT1: forall y, In y (rdo_st t1) -> rdo_id y < rdo_next t1) by (intros; eapply rdo_e_inv_fresh; eauto).
  assert (TAILEQ: rdo_a_tail t1 itemc c (Some n0) (RdoItem i) (RdoItem n0) I s1 s2 =
            RdoOk ({| rdo_st := rdo_link (rdo_update (rdo_st t1) c (fun y => rdo_set_red y (rdo_next t1))) None
                                  (rdo_e_newk (rdo_next t1) (RdoItem n0) itemc None None);
                      rdo_next := rdo_next t1 + 1; rdo_tins := rdo_tins t1 ++ [rdo_next t1]; rdo_tdel := rdo_tdel t1 |}, Some (rdo_next t1))).
  { destruct (rdo_sub xc) as [kx|] eqn:SUBc.
    { apply (rdo_e_tail_mapB t1 itemc c i n0 kx I s1 s2 yq Gc1 SUBc); auto. lia. }
  assert (SIB: forall l0, In l0 (rdo_lefts (rdo_st t1) c ++ c :: rdo_rights (rdo_st t1) c) -> rdo_e_sibB (rdo_st t1) n0 l0).
  { destruct (rdo_e_get_split _ _ _ Gc1) as (a1' & b1' & ST1' & NIa1 & Ei1).
    assert (NIa1': ~ In (rdo_id itemc) (map rdo_id a1')) by (rewrite Ei1; auto).
    destruct (rdo_e_lr_app a1' itemc b1' NIa1') as (LF & RT). rewrite <- ST1', Ei1 in LF, RT.
    assert (SIBY: forall y, In y (rdo_st t1) -> rdo_in_chain (rdo_par itemc) (rdo_sub itemc) y = true -> rdo_e_sibB (rdo_st t1) n0 (rdo_id y)).
    { intros y Iy Gy. apply rdo_e_in_chain_eq in Gy. destruct Gy as (Py & Sy). simpl in Py, Sy. rewrite Pc in Py.
      exists y. split. apply rdo_a_in_get; auto. apply V1. split. rewrite Py. simpl. intro K0. inversion K0. lia.
      left. destruct (rdo_e_inv_item _ _ _ _ _ _ V1 Iy) as [(y0 & I0 & E0)|(j & y0 & l1 & r1 & Ij & Gj & E0)]; subst y; simpl in *.
      - rewrite (rdo_e_p_c5 _ _ _ _ _ PC y0 i I0 Py IR). destruct (rdo_id y0 =? i) eqn:Q; auto. simpl.
        exfalso. apply N.eqb_eq in Q. destruct (rdo_e_wfp_item _ _ W _ I0) as (_ & WP0). destruct (WP0 i Py). lia.
      - auto. }
    intros l0 Il. apply in_app_or in Il. destruct Il as [Il|[Il|Il]].
    - rewrite LF in Il. apply in_map_iff in Il. destruct Il as (y & Ey & Iy). apply filter_In in Iy. destruct Iy as (Iy & Gy). apply in_rev in Iy.
      subst l0. apply SIBY; auto. rewrite ST1'. apply in_or_app; auto.
    - subst l0. exists itemc. split; auto. split. change (rdo_par itemc) with (rdo_par xc). rewrite Pc. simpl. intro K0. inversion K0. lia. left; auto.
    - rewrite RT in Il. apply in_map_iff in Il. destruct Il as (y & Ey & Iy). apply filter_In in Iy. destruct Iy as (Iy & Gy).
      subst l0. apply SIBY; auto. rewrite ST1'. apply in_or_app; simpl; auto. }
    apply (rdo_m2_tail_seqB_empty t1 itemc c i n0 I s1 s2 yq Gc1 SUBc LT1 Gq eq_refl (CHq None) SIB). }
  rewrite TAILEQ. cbn [rdo_bind rdo_is_some orb].
  assert (NPI: forall j xj, In j [i] -> rdo_get st0 j = Some xj -> rdo_par xj <> RdoItem c).
  { intros j xj [Ej|[]] Gj K0. subst j. rewrite G in Gj. inversion Gj; subst xj. destruct (PAL c K0). lia. }
  assert (NIc1: ~ In c [i]) by (simpl; intros [K0|[]]; lia).
  pose proof (rdo_e_inv_link st0 n0 [i] [] t1 c xc None None None V1 ND0 Gc NIc1 LC NPI) as V2'. simpl app in V2'.
  assert (MP2: rdo_e_mpar n0 [i; c] (rdo_par xc) = RdoItem n0).
  { rewrite Pc. unfold rdo_e_mpar. simpl. rewrite N.eqb_refl. simpl. unfold rdo_e_cp. simpl. rewrite N.eqb_refl. f_equal. lia. }
  rewrite MP2 in V2'.
  match goal with |- context [fold_left rdo_e_tdfold _ (RdoOk ?T)] => set (t2' := T) in * end.
  destruct (rdo_e_finish st0 n0 (rdo_scope s) I D t2' [] PC) as (t2 & dd & E2 & V2 & NDd & IFF & FO & STF).
  { rewrite HR. exact V2'. }
  { intros j []. }
  { constructor. }
  { rewrite HR. intros j xj q Ij Gj MP. destruct Ij as [Ej|[Ej|[]]]; subst j.
    - rewrite G in Gj. inversion Gj; subst xj. unfold rdo_e_mpar in MP. destruct (rdo_par x) eqn:P; try discriminate. destruct (PAL id eq_refl) as (Lp & NIp & _).
      assert (rdo_mem id [i; c] = false) as M. { simpl. assert (id =? i = false) by (apply N.eqb_neq; lia). assert (id =? c = false) by (apply N.eqb_neq; lia). rewrite H, H0. auto. }
      rewrite M in MP. inversion MP; subst q. split; auto. pose proof (rdo_e_cp_lt n0 [i; c] i (or_introl eq_refl)). lia.
    - rewrite Gc in Gj. inversion Gj; subst xj. rewrite MP2 in MP. inversion MP; subst q. split; auto.
      unfold rdo_e_cp. simpl. assert (i =? c = false) as Q by (apply N.eqb_neq; lia). rewrite Q, N.eqb_refl. lia. }
  rewrite E2. cbn [rdo_bind]. exists t2. eexists. split. reflexivity.
  set (l := hd_error (map rdo_id (filter (rdo_in_chain (rdo_par x) None) (rev a)))) in *.
  set (copy := {| rdo_id := n0; rdo_par := rdo_par x; rdo_sub := None; rdo_cnt := rdo_cnt x; rdo_del := false; rdo_keep := true;
                  rdo_red := None; rdo_org := l; rdo_rorg := Some i |}) in *.
  set (x' := rdo_set_red x n0) in *.
  assert (ST1: rdo_st t1 = rdo_link (a ++ x' :: b) l copy) by (rewrite ET1; reflexivity).
  assert (KX: rdo_mem i I = false) by (apply rdo_e_mem_nin; auto).
  set (ka := rdo_e_kill I a). set (kb := rdo_e_kill I b).
  assert (EK: rdo_e_kill I st0 = ka ++ x :: kb).
  { rewrite ST, rdo_e_kill_app. simpl. rewrite Ex, KX. reflexivity. }
  assert (EK': rdo_e_kill I (a ++ x' :: b) = ka ++ x' :: kb).
  { rewrite rdo_e_kill_app. simpl. rewrite Ex, KX. reflexivity. }
  set (K := ka ++ x :: kb) in *. set (K' := ka ++ x' :: kb) in *.
  assert (IDSK: map rdo_id K = map rdo_id st0) by (rewrite <- EK; apply rdo_e_kill_ids).
  assert (NBK: rdo_i_nodup (map rdo_id K) = true) by (apply rdo_d_nodup_spec; rewrite IDSK; auto).
  assert (NIka: ~ In i (map rdo_id ka)) by (unfold ka; rewrite rdo_e_kill_ids; auto).
  assert (GK: rdo_get K i = Some x). { unfold K. rewrite <- Ex. apply rdo_e_get_app. rewrite Ex; auto. }
  set (rho0 := fun a0 b0 : N => a0 = b0 /\ exists y, rdo_get K a0 = Some y /\ rdo_del y = false).
  pose proof (rdo_d_iso_id K NBK) as ISO0. fold rho0 in ISO0.
  assert (KD: map rdo_d_kd K = map rdo_d_kd K').
  { unfold K, K'. rewrite !map_app. simpl. reflexivity. }
  pose proof (rdo_d_iso_kd K K K K' rho0 eq_refl KD ISO0) as ISO1.
  set (P := rdo_par x) in *. set (g := rdo_in_chain P None) in *.
  assert (GX: g x = true) by (unfold g, P; rewrite <- SUB; apply rdo_e_in_chain_refl).
  assert (GX': g x' = true) by (exact GX).
  assert (GC: g copy = true) by (unfold g, rdo_in_chain; simpl; rewrite rdo_a_par_eqb_refl; auto).
  set (a1 := rdo_chain ka P None). set (a2 := rdo_chain kb P None).
  assert (CHK: rdo_chain K P None = a1 ++ x :: a2).
  { unfold K. rewrite rdo_d_chain_app. unfold rdo_chain at 2. simpl. fold g. rewrite GX. reflexivity. }
  assert (CHK': rdo_chain K' P None = a1 ++ x' :: a2).
  { unfold K'. rewrite rdo_d_chain_app. unfold rdo_chain at 2. simpl. fold g. rewrite GX'. reflexivity. }
  assert (A1: a1 = rdo_e_kill I (filter g a)) by (unfold a1, ka; rewrite rdo_e_kill_chain; reflexivity).
  assert (CHL: rdo_chain (rdo_link K' l copy) P None = a1 ++ copy :: x' :: a2).
  { assert (CC: forall z rest0, g z = true -> rdo_chain (z :: rest0) P None = z :: rdo_chain rest0 P None).
    { intros z rest0 Gz. unfold rdo_chain. simpl. fold g. rewrite Gz. reflexivity. }
    unfold l. destruct (filter g (rev a)) as [|y rest] eqn:F.
    - simpl hd_error. simpl rdo_link. rewrite (CC copy K' GC), CHK'.
      rewrite rdo_e_filter_rev in F. assert (filter g a = []) as FA. { destruct (filter g a); auto. simpl in F. destruct (rev l0); discriminate. }
      rewrite A1, FA. reflexivity.
    - destruct (rdo_e_filter_hd _ _ _ _ _ F) as (m1 & m2 & Er & F1 & F2).
      assert (Ea: a = rev m2 ++ y :: rev m1).
      { rewrite <- (rev_involutive a), Er. rewrite rev_app_distr. simpl. rewrite <- app_assoc. auto. }
      assert (Gy: g y = true). { assert (In y (filter g (rev a))) by (rewrite F; simpl; auto). apply filter_In in H. tauto. }
      set (ky := if rdo_mem (rdo_id y) I then rdo_set_del y else y).
      assert (Eky: rdo_id ky = rdo_id y) by (unfold ky; destruct (rdo_mem (rdo_id y) I); auto).
      assert (Gky: g ky = true). { unfold ky. destruct (rdo_mem (rdo_id y) I); auto. }
      assert (Eka: ka = rdo_e_kill I (rev m2) ++ ky :: rdo_e_kill I (rev m1)).
      { unfold ka. rewrite Ea, rdo_e_kill_app. reflexivity. }
      assert (NIy: ~ In (rdo_id y) (map rdo_id (rdo_e_kill I (rev m2)))).
      { rewrite rdo_e_kill_ids. rewrite ST, Ea, <- app_assoc in ND0. simpl in ND0. apply (rdo_e_nodup_mid _ _ _ ND0). }
      assert (FM1: rdo_chain (rdo_e_kill I (rev m1)) P None = []).
      { rewrite rdo_e_kill_chain. unfold rdo_chain. fold g. rewrite rdo_e_filter_rev, F1. reflexivity. }
      simpl hd_error. simpl rdo_link. unfold K'. rewrite Eka, <- app_assoc. simpl app.
      rewrite (rdo_a_insert_after_app _ ky _ (rdo_id y) copy); auto.
      unfold a1. rewrite Eka. rewrite !rdo_d_chain_app.
      rewrite (CC ky), (CC copy), !rdo_d_chain_app, (CC x'), (CC ky), FM1; auto. fold a2. rewrite <- app_assoc. reflexivity. }
  assert (BREL: rdo_d_brel rho0 P P).
  { unfold P. destruct (rdo_par x) eqn:PX. left; eauto. right. destruct (PAL id eq_refl) as (_ & NIp & pit & kk & Gp & Dp & _).
    exists id, id. split; auto. split; auto. split; auto. exists pit. split; auto.
    rewrite <- EK, rdo_e_get_kill, Gp. simpl. destruct (rdo_a_get_in _ _ _ Gp) as (_ & Ep). rewrite Ep. apply rdo_e_mem_nin in NIp. rewrite NIp. auto. }
  assert (KIDS: forall y, In y K -> rdo_par y = RdoItem i -> rdo_del y = true).
  { intros y Iy Py. rewrite <- EK in Iy. unfold rdo_e_kill in Iy. apply in_map_iff in Iy. destruct Iy as (y0 & Ey & Iy0).
    assert (rdo_del y0 = true) as D0.
    { pose proof (proj1 (rdo_d_cascade_spec st0) (rdo_e_p_casc _ _ _ _ _ PC)) as CP. apply (CP y0 Iy0 i x); auto.
      subst y. destruct (rdo_mem (rdo_id y0) I); auto. }
    subst y. destruct (rdo_mem (rdo_id y0) I); auto. }
  assert (LTK': forall y, In y K' -> rdo_id y < n0 /\ forall p, rdo_par y = RdoItem p -> p < rdo_id y).
  { intros y Iy. assert (exists y0, In y0 st0 /\ rdo_id y = rdo_id y0 /\ rdo_par y = rdo_par y0) as (y0 & I0 & E0 & P0).
    { unfold K' in Iy. apply in_app_or in Iy. destruct Iy as [Iy|[Iy|Iy]].
      - apply rdo_e_in_kill in Iy. destruct Iy as (y0 & I0 & E0). exists y0. split; auto. rewrite ST. apply in_or_app; auto.
      - subst y. exists x. auto.
      - apply rdo_e_in_kill in Iy. destruct Iy as (y0 & I0 & E0). exists y0. split; auto. rewrite ST. apply in_or_app; simpl; auto. }
    destruct (rdo_e_wfp_item _ _ W _ I0) as (L0 & WP0). rewrite E0, P0. split; auto. intros p Pp. apply (WP0 p Pp). }
  assert (GCN: rdo_get K' n0 = None). { apply rdo_e_get_fresh. intros y Iy. destruct (LTK' y Iy). lia. }
  assert (KIDSB: forall y, In y K' -> rdo_par y = RdoItem n0 -> rdo_del y = true).
  { intros y Iy Py. destruct (LTK' y Iy) as (L1 & L2). pose proof (L2 n0 Py). lia. }
  assert (PXO: rdo_par x <> RdoItem i). { intro K0. destruct (PAL i K0). lia. }
  assert (PXC: rdo_par copy <> RdoItem n0). { simpl. intro K0. destruct (PAL n0 K0). lia. }
  assert (CHKs: rdo_chain K (rdo_par x) (rdo_sub x) = a1 ++ x :: a2) by (rewrite SUB; exact CHK).
  pose proof (rdo_d_iso_add K K' rho0 i n0 x copy l a1 a2 a1 (x' :: a2) NBK (rdo_d_fun_id _) (rdo_d_inj_id _) ISO1 GK Dx KIDS GCN
                eq_refl eq_refl eq_refl (eq_sym SUB) KIDSB PXO PXC BREL CHKs CHK' CHL eq_refl) as ISO.
  (* the second re-creation *)
  set (copyc := rdo_e_newk (rdo_next t1) (RdoItem n0) itemc None None) in *.
  set (B1 := rdo_link K' l copy) in *.
  assert (ST2: rdo_st t2 = rdo_link (rdo_update B1 c (fun y => rdo_set_red y (rdo_next t1))) None copyc).
  { rewrite STF. unfold t2'. cbn [rdo_st]. rewrite rdo_e_kill_link, rdo_e_kill_update_red, ST1, rdo_e_kill_link, EK'. reflexivity.
    simpl. apply rdo_e_mem_nin; auto. simpl. apply rdo_e_mem_nin. rewrite NX1. intro K0. destruct (IP _ K0) as (_ & _ & L0). lia. }
  set (B1' := rdo_update B1 c (fun y => rdo_set_red y (rdo_next t1))) in *.
  set (AA1 := rdo_update K i rdo_set_live) in *.
  set (rho1 := fun a0 b0 : N => rho0 a0 b0 \/ a0 = i /\ b0 = n0) in *.
  assert (KD1: map rdo_d_kd B1 = map rdo_d_kd B1'). { unfold B1'. symmetry. apply rdo_d_kd_update. intros y. apply rdo_d_kd_set_red. }
  pose proof (rdo_d_iso_kd AA1 AA1 B1 B1' rho1 eq_refl KD1 ISO) as ISOa.
  assert (NBA1: rdo_i_nodup (map rdo_id AA1) = true). { apply rdo_d_nodup_spec. unfold AA1. rewrite rdo_a_ids_update; auto. rewrite IDSK; auto. }
  assert (FUN1: rdo_d_fun rho1). { apply rdo_d_fun_add. apply rdo_d_fun_id. intros b0 (E0 & y & Gy & Dy). rewrite GK in Gy. inversion Gy; subst y. congruence. }
  assert (INJ1: rdo_d_inj rho1). { apply rdo_d_inj_add. apply rdo_d_inj_id. intros a0 (E0 & y & Gy & Dy). subst a0. rewrite <- EK, rdo_e_get_kill in Gy.
    destruct (rdo_get st0 n0) eqn:G0; simpl in Gy; try discriminate. destruct (rdo_a_get_in _ _ _ G0) as (I0 & E0). pose proof (rdo_e_wfp_item _ _ W _ I0). lia. }
  assert (KXc: rdo_mem c I = false) by (apply rdo_e_mem_nin; auto).
  assert (GKc: rdo_get K c = Some xc). { rewrite <- EK, rdo_e_get_kill, Gc. simpl. rewrite Exc, KXc. auto. }
  assert (GA1c: rdo_get AA1 c = Some xc). { unfold AA1. rewrite rdo_a_get_update; auto. assert (c =? i = false) as Q by (apply N.eqb_neq; lia). rewrite Q. auto. }
  assert (EAA: AA1 = ka ++ rdo_set_live x :: kb). { unfold AA1, K. rewrite <- Ex. apply rdo_e_update_app. rewrite Ex; auto. }
  pose proof (proj1 (rdo_d_cascade_spec st0) (rdo_e_p_casc _ _ _ _ _ PC)) as CP.
  assert (INAA: forall y, In y AA1 -> y = rdo_set_live x \/ In y K).
  { intros y Iy. rewrite EAA in Iy. apply in_app_or in Iy. destruct Iy as [Iy|[Iy|Iy]]; auto; right; unfold K; apply in_or_app; simpl; auto. }
  assert (KIDSG: forall q xq, rdo_get st0 q = Some xq -> rdo_del xq = true -> forall y, In y K -> rdo_par y = RdoItem q -> rdo_del y = true).
  { intros q xq Gq0 Dq0 y Iy Py. rewrite <- EK in Iy. unfold rdo_e_kill in Iy. apply in_map_iff in Iy. destruct Iy as (y0 & Ey & Iy0).
    assert (rdo_del y0 = true) as D0. { apply (CP y0 Iy0 q xq); auto. subst y. destruct (rdo_mem (rdo_id y0) I); auto. }
    subst y. destruct (rdo_mem (rdo_id y0) I); auto. }
  assert (KIDSc: forall y, In y AA1 -> rdo_par y = RdoItem c -> rdo_del y = true).
  { intros y Iy Py. destruct (INAA y Iy) as [E0|Iy0]. subst y. simpl in Py. destruct (PAL c Py). lia. apply (KIDSG c xc); auto. }
  assert (NOPB: forall y, In y B1' -> forall p, rdo_par y = RdoItem p -> p < n0).
  { intros y Iy p Py. unfold B1' in Iy. apply rdo_a_in_update_red in Iy. destruct Iy as (y1 & I1 & P1 & E1'). rewrite P1 in Py.
    unfold B1 in I1. apply rdo_a_link_in in I1. destruct I1 as [E0|I1].
    - subst y1. simpl in Py. destruct (PAL p Py). lia.
    - destruct (LTK' y1 I1) as (L1 & L2). pose proof (L2 p Py). lia. }
  assert (IDB: forall y, In y B1' -> rdo_id y <= n0).
  { intros y Iy. unfold B1' in Iy. apply rdo_a_in_update_red in Iy. destruct Iy as (y1 & I1 & P1 & E1'). rewrite E1'.
    unfold B1 in I1. apply rdo_a_link_in in I1. destruct I1 as [E0|I1]. subst y1. simpl. lia. destruct (LTK' y1 I1). lia. }
  assert (GCN2: rdo_get B1' (rdo_next t1) = None). { apply rdo_e_get_fresh. intros y Iy. pose proof (IDB y Iy). lia. }
  assert (KIDSB2: forall y, In y B1' -> rdo_par y = RdoItem (rdo_next t1) -> rdo_del y = true).
  { intros y Iy Py. pose proof (NOPB y Iy _ Py). lia. }
  assert (PXO2: rdo_par xc <> RdoItem c). { rewrite Pc. intro K0. inversion K0. lia. }
  assert (PXC2: rdo_par copyc <> RdoItem (rdo_next t1)). { simpl. intro K0. inversion K0. lia. }
  assert (BREL2: rdo_d_brel rho1 (rdo_par xc) (rdo_par copyc)).
  { rewrite Pc. simpl. right. exists i, n0. split; auto. split; auto. right. auto. }
  assert (CHA: exists a1c a2c, rdo_chain AA1 (rdo_par xc) (rdo_sub xc) = a1c ++ xc :: a2c).
  { apply in_split. apply rdo_a_in_chain; auto. apply (rdo_a_get_in _ _ _ GA1c). }
  destruct CHA as (a1c & a2c & CHA).
  assert (CHB: forall S, rdo_chain B1' (RdoItem n0) S = []).
  { intros S. destruct (rdo_chain B1' (RdoItem n0) S) as [|y rest] eqn:CE; auto. exfalso.
    assert (In y (rdo_chain B1' (RdoItem n0) S)) as K0 by (rewrite CE; simpl; auto). apply rdo_a_chain_in in K0. destruct K0 as (Iy & Py & _).
    pose proof (NOPB y Iy _ Py). lia. }
  assert (CHB1: rdo_chain B1' (rdo_par copyc) (rdo_sub copyc) = [] ++ []) by (simpl; apply CHB).
  assert (CHB2: rdo_chain (rdo_link B1' None copyc) (rdo_par copyc) (rdo_sub copyc) = [] ++ copyc :: []).
  { simpl rdo_link. simpl rdo_par. simpl rdo_sub. unfold rdo_chain. simpl filter. unfold rdo_in_chain at 1. simpl. rewrite N.eqb_refl, rdo_a_on_eqb_refl. simpl.
    fold (rdo_chain B1' (RdoItem n0) (rdo_sub xc)). rewrite CHB. reflexivity. }
  assert (LEN2: length (rdo_live a1c) = length (rdo_live (@nil rdo_item))).
  { rewrite rdo_d_live_nil. reflexivity. intros y Iy. assert (In y (rdo_chain AA1 (rdo_par xc) (rdo_sub xc))) as K0 by (rewrite CHA; apply in_or_app; auto).
    apply rdo_a_chain_in in K0. destruct K0 as (IyA & Py & _). rewrite Pc in Py. destruct (INAA y IyA) as [E0|Iy0].
    - subst y. simpl in Py. destruct (PAL i Py). lia.
    - apply (KIDS y); auto. }
  pose proof (rdo_d_iso_add AA1 B1' rho1 c (rdo_next t1) xc copyc None a1c a2c [] [] NBA1 FUN1 INJ1 ISOa GA1c Dxc KIDSc GCN2
                eq_refl eq_refl eq_refl eq_refl KIDSB2 PXO2 PXC2 BREL2 CHA CHB1 CHB2 LEN2) as ISO2.
  eexists. rewrite (rdo_m2_flip_pair st0 I D i c ND0 HR), EK, ST2. exact ISO2. lia.
Qed.
Print Assumptions rdo_m2_pair_iso.

(* ============================================================================================== *)
(* the same when the container is a map entry *)
Lemma rdo_m2_pair_iso_map : forall s e s1 s2 i x k c xc,
  rdo_i_pc (rdo_doc s) (rdo_clock s) (rdo_scope s) (rdo_sins e) (rdo_sdel e) = true ->
  rdo_i_redo (rdo_doc s) (rdo_sins e) (rdo_sdel e) = [i; c] -> rdo_get (rdo_doc s) i = Some x -> rdo_sub x = Some k ->
  rdo_get (rdo_doc s) c = Some xc -> rdo_par xc = RdoItem i ->
  exists t ch, rdo_process s e s1 s2 = RdoOk (t, ch) /\
    exists rho, rdo_d_iso (rdo_i_flip (rdo_doc s) (rdo_sins e) (rdo_sdel e)) (rdo_st t) rho.
Proof. intros s e s1 s2 i x k c xc PC0 HR G SUB Gc Pc. pose proof (rdo_e_pc_unpack _ _ _ _ _ PC0) as PC.
  set (st0 := rdo_doc s) in *. set (I := rdo_sins e) in *. set (D := rdo_sdel e) in *. set (n0 := rdo_clock s) in *.
  pose proof (rdo_e_p_wf _ _ _ _ _ PC) as W. pose proof (rdo_e_wfp_nodup _ _ W) as ND0.
  assert (NB0: rdo_i_nodup (map rdo_id st0) = true) by (apply rdo_d_nodup_spec; auto).
  assert (IR: In i (rdo_i_redo st0 I D)) by (rewrite HR; simpl; auto).
  destruct (rdo_e_redo_in _ _ _ _ IR) as (ID & NI & _).
  destruct (rdo_a_get_in _ _ _ G) as (Ix & Ex). destruct (rdo_e_wfp_item _ _ W _ Ix) as (LI & WP). rewrite Ex in LI.
  destruct (rdo_e_p_c3 _ _ _ _ _ PC x Ix) as (Dx & Rx & Px). rewrite Ex; auto.
  assert (IP: forall j, In j I -> exists y, rdo_get st0 j = Some y /\ j < n0).
  { intros j Ij. destruct (rdo_e_p_I _ _ _ _ _ PC _ Ij) as (y & Gy & _). exists y. split; auto.
    destruct (rdo_a_get_in _ _ _ Gy) as (Iy & Ey). rewrite <- Ey. apply (rdo_e_wfp_item _ _ W _ Iy). }
  destruct (rdo_a_get_in _ _ _ Gc) as (Ixc & Exc). destruct (rdo_e_wfp_item _ _ W _ Ixc) as (LC & WPc). rewrite Exc in LC.
  destruct (WPc i Pc) as (Lic & xp' & kc & Gxp' & Cx). rewrite Exc in Lic. rewrite G in Gxp'. inversion Gxp'; subst xp'. clear Gxp'.
  assert (IRc: In c (rdo_i_redo st0 I D)) by (rewrite HR; simpl; auto).
  destruct (rdo_e_redo_in _ _ _ _ IRc) as (IDc & NIc & _).
  destruct (rdo_e_p_c3 _ _ _ _ _ PC xc Ixc) as (Dxc & Rxc & _). rewrite Exc; auto.
  assert (PAL: forall p, rdo_par x = RdoItem p -> p < i /\ ~ In p I /\ exists pit kk, rdo_get st0 p = Some pit /\ rdo_del pit = false /\ rdo_cnt pit = RdoType kk).
  { intros p Pp. destruct (WP p Pp) as (Lp & y & k0 & Gy & Cy). rewrite Ex in Lp. split; auto. rewrite Pp in Px.
    destruct Px as [(A & B)|K]. 2: { rewrite HR in K. destruct K as [K|[K|[]]]; lia. }
    split; auto. apply rdo_e_isdel_live in A. destruct A as (pit & Gp & Dp). rewrite Gp in Gy. inversion Gy; subst y. eauto. }
  assert (NIn0: ~ In n0 I). { intro K. destruct (IP _ K) as (_ & _ & L). lia. }
  assert (C4: forall j, In j (rdo_rights st0 i) -> In j I /\ exists y, rdo_get st0 j = Some y /\ rdo_red y = None).
  { intros j Ij. rewrite <- Ex in Ij. destruct (rdo_e_p_c4 _ _ _ _ _ PC x Ix) with (j := j) as (A & _ & B); auto. rewrite Ex; auto. congruence. }
  destruct (rdo_e_get_split _ _ _ G) as (a & b & ST & NIa & _).
  rewrite (rdo_e_process_eq s e s1 s2 (rdo_e_liveI st0 I)).
  2: { rewrite (rdo_e_td st0 (rdo_scope s) I); auto; apply PC. }
  2: apply PC.
  cbv zeta. fold st0 I D. rewrite HR. cbn [fold_left]. unfold rdo_e_fredo. cbn [rdo_bind].
  assert (V0: rdo_e_inv st0 n0 [] [] (rdo_begin s)).
  { apply rdo_e_inv_init; auto. intros y Iy. apply (rdo_e_wfp_item _ _ W _ Iy). }
  destruct (rdo_e_step_mapA_x st0 n0 I [] [] (rdo_begin s) i x k (length (rdo_st (rdo_begin s))) [i; c] s1 s2 V0 W (rdo_e_p_c2 _ _ _ _ _ PC))
    as (t1 & d & E1 & V1 & NDd & DL & STX).
  { intros p Pp. destruct (PAL p Pp) as (Lp & NIp & _). split; auto. simpl. intros [K|[]]. lia. }
  { intros j xj []. }
  { eapply rdo_e_wfp_parlt; eauto. }
  { apply (rdo_e_p_c2 _ _ _ _ _ PC). }
  { intros j xj []. }
  { exact G. }
  { exact Rx. }
  { exact Dx. }
  { exact SUB. }
  { intros []. }
  { destruct (rdo_par x) eqn:P; auto. destruct (PAL id eq_refl) as (_ & _ & pit & kk & Gp & Dp & Cp). exists pit, kk. auto. }
  { intros j Ij. destruct (C4 j Ij) as (A & B). split; auto. }
  { intros j xj []. }
  { intros j []. }
  { intros j Ij. destruct (IP j Ij) as (y & Gy & _). eauto. }
  simpl app in V1. rewrite E1. cbn [rdo_bind].
  (* second step: the child, below the copy n0 of its parent *)
  assert (CPI: rdo_e_cp n0 [i] i = n0). { unfold rdo_e_cp. simpl. rewrite N.eqb_refl. lia. }
  assert (NX1: rdo_next t1 = n0 + 1). { rewrite (rdo_e_v_next _ _ _ _ _ V1). simpl. lia. }
  pose proof (rdo_e_inv_get_old _ _ _ _ _ c V1 LC) as Gc1. rewrite Gc in Gc1. simpl in Gc1. set (itemc := rdo_e_oldk n0 [i] d xc) in *.
  assert (REDc: rdo_red itemc = None). { simpl. rewrite Exc. assert (c =? i = false) as Q by (apply N.eqb_neq; lia). rewrite Q. simpl. auto. }
  pose proof (rdo_e_inv_get_old _ _ _ _ _ i V1 LI) as Gp1. rewrite G in Gp1. simpl in Gp1. set (pit1 := rdo_e_oldk n0 [i] d x) in *.
  assert (Rp1: rdo_red pit1 = Some n0). { simpl. rewrite Ex, N.eqb_refl. simpl. rewrite CPI. auto. }
  assert (Dp1: rdo_del pit1 = true). { simpl. rewrite Dx. auto. }
  destruct (rdo_e_v_new _ _ _ _ _ V1 i (or_introl eq_refl)) as (x2 & lq & rq & G2 & Gq). rewrite G in G2. inversion G2; subst x2. clear G2. rewrite CPI in Gq.
  set (yq := rdo_e_newk n0 (rdo_e_mpar n0 [i] (rdo_par x)) x lq rq) in *.
  rewrite (rdo_e_redo_B (length (rdo_st t1)) t1 c itemc i pit1 n0 yq kc [i; c] I s1 s2 Gc1 REDc Pc Gp1 Dp1 Rp1 Gq eq_refl Cx).
  assert (NOPAR: forall y, In y (rdo_st t1) -> rdo_par y <> RdoItem n0).
  { intros y Iy K0. destruct (rdo_e_inv_item _ _ _ _ _ _ V1 Iy) as [(y0 & I0 & E0)|(j & y0 & l0 & r0 & Ij & Gj & E0)]; subst y; simpl in K0.
    - destruct (rdo_e_wfp_item _ _ W _ I0) as (L0 & WP0). destruct (WP0 _ K0). lia.
    - destruct Ij as [Ej|[]]. subst j. rewrite G in Gj. inversion Gj; subst y0. unfold rdo_e_mpar in K0. destruct (rdo_par x) eqn:PX; try discriminate.
      destruct (PAL id eq_refl) as (Lp & _). assert (rdo_mem id [i] = false) as Q by (simpl; rewrite orb_false_r; apply N.eqb_neq; lia).
      rewrite Q in K0. inversion K0. lia. }
  assert (CHq: forall S, rdo_chain (rdo_st t1) (RdoItem n0) S = []).
  { intros S. destruct (rdo_chain (rdo_st t1) (RdoItem n0) S) as [|y rest] eqn:CE; auto. exfalso.
    assert (In y (rdo_chain (rdo_st t1) (RdoItem n0) S)) as K0 by (rewrite CE; simpl; auto). apply rdo_a_chain_in in K0. destruct K0 as (Iy & Py & _).
    apply (NOPAR y Iy Py). }
  assert (LT1: forall y, In y (rdo_st t1) -> rdo_id y < rdo_next t1) by (intros; eapply rdo_e_inv_fresh; eauto).
  assert (TAILEQ: rdo_a_tail t1 itemc c (Some n0) (RdoItem i) (RdoItem n0) I s1 s2 =
            RdoOk ({| rdo_st := rdo_link (rdo_update (rdo_st t1) c (fun y => rdo_set_red y (rdo_next t1))) None
                                  (rdo_e_newk (rdo_next t1) (RdoItem n0) itemc None None);
                      rdo_next := rdo_next t1 + 1; rdo_tins := rdo_tins t1 ++ [rdo_next t1]; rdo_tdel := rdo_tdel t1 |}, Some (rdo_next t1))).
  { destruct (rdo_sub xc) as [kx|] eqn:SUBc.
    { apply (rdo_e_tail_mapB t1 itemc c i n0 kx I s1 s2 yq Gc1 SUBc); auto. lia. }
  assert (SIB: forall l0, In l0 (rdo_lefts (rdo_st t1) c ++ c :: rdo_rights (rdo_st t1) c) -> rdo_e_sibB (rdo_st t1) n0 l0).
  { destruct (rdo_e_get_split _ _ _ Gc1) as (a1' & b1' & ST1' & NIa1 & Ei1).
    assert (NIa1': ~ In (rdo_id itemc) (map rdo_id a1')) by (rewrite Ei1; auto).
    destruct (rdo_e_lr_app a1' itemc b1' NIa1') as (LF & RT). rewrite <- ST1', Ei1 in LF, RT.
    assert (SIBY: forall y, In y (rdo_st t1) -> rdo_in_chain (rdo_par itemc) (rdo_sub itemc) y = true -> rdo_e_sibB (rdo_st t1) n0 (rdo_id y)).
    { intros y Iy Gy. apply rdo_e_in_chain_eq in Gy. destruct Gy as (Py & Sy). simpl in Py, Sy. rewrite Pc in Py.
      exists y. split. apply rdo_a_in_get; auto. apply V1. split. rewrite Py. simpl. intro K0. inversion K0. lia.
      left. destruct (rdo_e_inv_item _ _ _ _ _ _ V1 Iy) as [(y0 & I0 & E0)|(j & y0 & l1 & r1 & Ij & Gj & E0)]; subst y; simpl in *.
      - rewrite (rdo_e_p_c5 _ _ _ _ _ PC y0 i I0 Py IR). destruct (rdo_id y0 =? i) eqn:Q; auto. simpl.
        exfalso. apply N.eqb_eq in Q. destruct (rdo_e_wfp_item _ _ W _ I0) as (_ & WP0). destruct (WP0 i Py). lia.
      - auto. }
    intros l0 Il. apply in_app_or in Il. destruct Il as [Il|[Il|Il]].
    - rewrite LF in Il. apply in_map_iff in Il. destruct Il as (y & Ey & Iy). apply filter_In in Iy. destruct Iy as (Iy & Gy). apply in_rev in Iy.
      subst l0. apply SIBY; auto. rewrite ST1'. apply in_or_app; auto.
    - subst l0. exists itemc. split; auto. split. change (rdo_par itemc) with (rdo_par xc). rewrite Pc. simpl. intro K0. inversion K0. lia. left; auto.
    - rewrite RT in Il. apply in_map_iff in Il. destruct Il as (y & Ey & Iy). apply filter_In in Iy. destruct Iy as (Iy & Gy).
      subst l0. apply SIBY; auto. rewrite ST1'. apply in_or_app; simpl; auto. }
    apply (rdo_m2_tail_seqB_empty t1 itemc c i n0 I s1 s2 yq Gc1 SUBc LT1 Gq eq_refl (CHq None) SIB). }
  rewrite TAILEQ. cbn [rdo_bind rdo_is_some orb].
  assert (NPI: forall j xj, In j [i] -> rdo_get st0 j = Some xj -> rdo_par xj <> RdoItem c).
  { intros j xj [Ej|[]] Gj K0. subst j. rewrite G in Gj. inversion Gj; subst xj. destruct (PAL c K0). lia. }
  assert (NIc1: ~ In c [i]) by (simpl; intros [K0|[]]; lia).
  pose proof (rdo_e_inv_link st0 n0 [i] d t1 c xc None None None V1 ND0 Gc NIc1 LC NPI) as V2'. simpl app in V2'.
  assert (MP2: rdo_e_mpar n0 [i; c] (rdo_par xc) = RdoItem n0).
  { rewrite Pc. unfold rdo_e_mpar. simpl. rewrite N.eqb_refl. simpl. unfold rdo_e_cp. simpl. rewrite N.eqb_refl. f_equal. lia. }
  rewrite MP2 in V2'.
  match goal with |- context [fold_left rdo_e_tdfold _ (RdoOk ?T)] => set (t2' := T) in * end.
  destruct (rdo_e_finish st0 n0 (rdo_scope s) I D t2' d PC) as (t2 & dd & E2 & V2 & NDd2 & IFF & FO & STF).
  { rewrite HR. exact V2'. }
  { intros j Ij. destruct (DL j Ij) as (A & B & _). auto. }
  { exact NDd. }
  { rewrite HR. intros j xj q Ij Gj MP. destruct Ij as [Ej|[Ej|[]]]; subst j.
    - rewrite G in Gj. inversion Gj; subst xj. unfold rdo_e_mpar in MP. destruct (rdo_par x) eqn:P; try discriminate. destruct (PAL id eq_refl) as (Lp & NIp & _).
      assert (rdo_mem id [i; c] = false) as M. { simpl. assert (id =? i = false) by (apply N.eqb_neq; lia). assert (id =? c = false) by (apply N.eqb_neq; lia). rewrite H, H0. auto. }
      rewrite M in MP. inversion MP; subst q. split; auto. pose proof (rdo_e_cp_lt n0 [i; c] i (or_introl eq_refl)). lia.
    - rewrite Gc in Gj. inversion Gj; subst xj. rewrite MP2 in MP. inversion MP; subst q. split; auto.
      unfold rdo_e_cp. simpl. assert (i =? c = false) as Q by (apply N.eqb_neq; lia). rewrite Q, N.eqb_refl. lia. }
  rewrite E2. cbn [rdo_bind]. exists t2. eexists. split. reflexivity.
  change (rdo_st (rdo_begin s)) with st0 in STX. change (rdo_next (rdo_begin s)) with n0 in STX.
  set (lst := last (rdo_rights st0 i) i) in *.
  set (copy := {| rdo_id := n0; rdo_par := rdo_par x; rdo_sub := Some k; rdo_cnt := rdo_cnt x; rdo_del := false; rdo_keep := true;
                  rdo_red := None; rdo_org := Some lst; rdo_rorg := None |}) in *.
  set (x' := rdo_set_red x n0) in *.
  assert (KX: rdo_mem i I = false) by (apply rdo_e_mem_nin; auto).
  set (ka := rdo_e_kill I a). set (kb := rdo_e_kill I b).
  assert (EK: rdo_e_kill I st0 = ka ++ x :: kb). { rewrite ST, rdo_e_kill_app. simpl. rewrite Ex, KX. reflexivity. }
  assert (NIka: ~ In i (map rdo_id ka)) by (unfold ka; rewrite rdo_e_kill_ids; auto).
  set (K := ka ++ x :: kb) in *. set (K' := ka ++ x' :: kb) in *.
  assert (UPK: rdo_update K i (fun y => rdo_set_red y n0) = K'). { unfold K, K', x'. rewrite <- Ex. apply rdo_e_update_app. rewrite Ex; auto. }
  assert (IDSK: map rdo_id K = map rdo_id st0) by (rewrite <- EK; apply rdo_e_kill_ids).
  assert (IDSK': map rdo_id K' = map rdo_id st0). { rewrite <- IDSK. unfold K, K'. rewrite !map_app. reflexivity. }
  assert (NBK: rdo_i_nodup (map rdo_id K) = true) by (apply rdo_d_nodup_spec; rewrite IDSK; auto).
  assert (GK: rdo_get K i = Some x). { unfold K. rewrite <- Ex. apply rdo_e_get_app. rewrite Ex; auto. }
  set (rho0 := fun a0 b0 : N => a0 = b0 /\ exists y, rdo_get K a0 = Some y /\ rdo_del y = false).
  pose proof (rdo_d_iso_id K NBK) as ISO0. fold rho0 in ISO0.
  assert (KD: map rdo_d_kd K = map rdo_d_kd K'). { unfold K, K'. rewrite !map_app. simpl. reflexivity. }
  pose proof (rdo_d_iso_kd K K K K' rho0 eq_refl KD ISO0) as ISO1.
  set (P := rdo_par x) in *. set (g := rdo_in_chain P (Some k)) in *.
  assert (GX: g x = true) by (unfold g, P; rewrite <- SUB; apply rdo_e_in_chain_refl).
  assert (GX': g x' = true) by (exact GX).
  assert (GC: g copy = true) by (unfold g, rdo_in_chain; simpl; rewrite rdo_a_par_eqb_refl, N.eqb_refl; auto).
  set (a1 := rdo_chain ka P (Some k)). set (a2 := rdo_chain kb P (Some k)).
  assert (CHK: rdo_chain K P (Some k) = a1 ++ x :: a2).
  { unfold K. rewrite rdo_d_chain_app. unfold rdo_chain at 2. simpl. fold g. rewrite GX. reflexivity. }
  assert (CHK': rdo_chain K' P (Some k) = a1 ++ x' :: a2).
  { unfold K'. rewrite rdo_d_chain_app. unfold rdo_chain at 2. simpl. fold g. rewrite GX'. reflexivity. }
  destruct (rdo_e_lr_app a x b) as (_ & RT). rewrite Ex; auto. rewrite <- ST, Ex, SUB in RT. fold P g in RT.
  assert (A2: a2 = rdo_e_kill I (filter g b)) by (unfold a2, kb; rewrite rdo_e_kill_chain; reflexivity).
  assert (INB: forall y, In y (filter g b) -> In (rdo_id y) I).
  { intros y Iy. apply (C4 (rdo_id y)). rewrite RT. apply in_map; auto. }
  assert (LA2: rdo_live a2 = []) by (rewrite A2; apply rdo_e_live_kill_nil; auto).
  assert (MG: rdo_map_get K' P k = Some lst).
  { rewrite rdo_a_map_get_ids, CHK', map_app. simpl. rewrite Ex, A2, rdo_e_kill_ids, <- RT. apply rdo_e_hd_rev_last. }
  assert (LASTK: rdo_a_last K' P k lst). { apply rdo_a_map_get_last; auto. rewrite IDSK'; auto. }
  assert (CHL: rdo_chain (rdo_link K' (Some lst) copy) P (Some k) = (a1 ++ x' :: a2) ++ copy :: []).
  { simpl rdo_link. rewrite (rdo_a_last_insert K' P k lst copy LASTK GC), CHK'. reflexivity. }
  assert (BREL: rdo_d_brel rho0 P P).
  { unfold P. destruct (rdo_par x) eqn:PX. left; eauto. right. destruct (PAL id eq_refl) as (_ & NIp & pit & kk & Gp & Dp & _).
    exists id, id. split; auto. split; auto. split; auto. exists pit. split; auto.
    rewrite <- EK, rdo_e_get_kill, Gp. simpl. destruct (rdo_a_get_in _ _ _ Gp) as (_ & Ep). rewrite Ep. apply rdo_e_mem_nin in NIp. rewrite NIp. auto. }
  assert (KIDS: forall y, In y K -> rdo_par y = RdoItem i -> rdo_del y = true).
  { intros y Iy Py. rewrite <- EK in Iy. unfold rdo_e_kill in Iy. apply in_map_iff in Iy. destruct Iy as (y0 & Ey & Iy0).
    assert (rdo_del y0 = true) as D0.
    { pose proof (proj1 (rdo_d_cascade_spec st0) (rdo_e_p_casc _ _ _ _ _ PC)) as CP. apply (CP y0 Iy0 i x); auto.
      subst y. destruct (rdo_mem (rdo_id y0) I); auto. }
    subst y. destruct (rdo_mem (rdo_id y0) I); auto. }
  assert (LTK': forall y, In y K' -> rdo_id y < n0 /\ forall p, rdo_par y = RdoItem p -> p < rdo_id y).
  { intros y Iy. assert (exists y0, In y0 st0 /\ rdo_id y = rdo_id y0 /\ rdo_par y = rdo_par y0) as (y0 & I0 & E0 & P0).
    { unfold K' in Iy. apply in_app_or in Iy. destruct Iy as [Iy|[Iy|Iy]].
      - apply rdo_e_in_kill in Iy. destruct Iy as (y0 & I0 & E0). exists y0. split; auto. rewrite ST. apply in_or_app; auto.
      - subst y. exists x. auto.
      - apply rdo_e_in_kill in Iy. destruct Iy as (y0 & I0 & E0). exists y0. split; auto. rewrite ST. apply in_or_app; simpl; auto. }
    destruct (rdo_e_wfp_item _ _ W _ I0) as (L0 & WP0). rewrite E0, P0. split; auto. intros p Pp. apply (WP0 p Pp). }
  assert (GCN: rdo_get K' n0 = None). { apply rdo_e_get_fresh. intros y Iy. destruct (LTK' y Iy). lia. }
  assert (KIDSB: forall y, In y K' -> rdo_par y = RdoItem n0 -> rdo_del y = true).
  { intros y Iy Py. destruct (LTK' y Iy) as (L1 & L2). pose proof (L2 n0 Py). lia. }
  assert (PXO: rdo_par x <> RdoItem i). { intro K0. destruct (PAL i K0). lia. }
  assert (PXC: rdo_par copy <> RdoItem n0). { simpl. intro K0. destruct (PAL n0 K0). lia. }
  assert (CHKs: rdo_chain K (rdo_par x) (rdo_sub x) = a1 ++ x :: a2) by (rewrite SUB; exact CHK).
  assert (CHKb: rdo_chain K' (rdo_par copy) (rdo_sub copy) = (a1 ++ x' :: a2) ++ []) by (rewrite app_nil_r; exact CHK').
  assert (LEN: length (rdo_live a1) = length (rdo_live (a1 ++ x' :: a2))).
  { rewrite rdo_d_live_app. unfold rdo_live at 3. simpl. rewrite Dx. simpl. fold (rdo_live a2). rewrite LA2, app_nil_r. reflexivity. }
  pose proof (rdo_d_iso_add K K' rho0 i n0 x copy (Some lst) a1 a2 (a1 ++ x' :: a2) [] NBK (rdo_d_fun_id _) (rdo_d_inj_id _) ISO1 GK Dx KIDS GCN
                eq_refl eq_refl eq_refl (eq_sym SUB) KIDSB PXO PXC BREL CHKs CHKb CHL LEN) as ISO.
  (* the second re-creation *)
  set (copyc := rdo_e_newk (rdo_next t1) (RdoItem n0) itemc None None) in *.
  set (B1 := rdo_link K' (Some lst) copy) in *.
  assert (KT1: rdo_e_kill I (rdo_st t1) = B1).
  { rewrite STX, rdo_e_kill_absorb, rdo_e_kill_link, rdo_e_kill_update_red, EK, UPK. reflexivity.
    simpl. apply rdo_e_mem_nin; auto. intros j Ij. apply DL; auto. }
  assert (ST2: rdo_st t2 = rdo_link (rdo_update B1 c (fun y => rdo_set_red y (rdo_next t1))) None copyc).
  { rewrite STF. unfold t2'. cbn [rdo_st]. rewrite rdo_e_kill_link, rdo_e_kill_update_red, KT1. reflexivity.
    simpl. apply rdo_e_mem_nin. rewrite NX1. intro K0. destruct (IP _ K0) as (_ & _ & L0). lia. }
  set (B1' := rdo_update B1 c (fun y => rdo_set_red y (rdo_next t1))) in *.
  set (AA1 := rdo_update K i rdo_set_live) in *.
  set (rho1 := fun a0 b0 : N => rho0 a0 b0 \/ a0 = i /\ b0 = n0) in *.
  assert (KD1: map rdo_d_kd B1 = map rdo_d_kd B1'). { unfold B1'. symmetry. apply rdo_d_kd_update. intros y. apply rdo_d_kd_set_red. }
  pose proof (rdo_d_iso_kd AA1 AA1 B1 B1' rho1 eq_refl KD1 ISO) as ISOa.
  assert (NBA1: rdo_i_nodup (map rdo_id AA1) = true). { apply rdo_d_nodup_spec. unfold AA1. rewrite rdo_a_ids_update; auto. rewrite IDSK; auto. }
  assert (FUN1: rdo_d_fun rho1). { apply rdo_d_fun_add. apply rdo_d_fun_id. intros b0 (E0 & y & Gy & Dy). rewrite GK in Gy. inversion Gy; subst y. congruence. }
  assert (INJ1: rdo_d_inj rho1). { apply rdo_d_inj_add. apply rdo_d_inj_id. intros a0 (E0 & y & Gy & Dy). subst a0. rewrite <- EK, rdo_e_get_kill in Gy.
    destruct (rdo_get st0 n0) eqn:G0; simpl in Gy; try discriminate. destruct (rdo_a_get_in _ _ _ G0) as (I0 & E0). pose proof (rdo_e_wfp_item _ _ W _ I0). lia. }
  assert (KXc: rdo_mem c I = false) by (apply rdo_e_mem_nin; auto).
  assert (GKc: rdo_get K c = Some xc). { rewrite <- EK, rdo_e_get_kill, Gc. simpl. rewrite Exc, KXc. auto. }
  assert (GA1c: rdo_get AA1 c = Some xc). { unfold AA1. rewrite rdo_a_get_update; auto. assert (c =? i = false) as Q by (apply N.eqb_neq; lia). rewrite Q. auto. }
  assert (EAA: AA1 = ka ++ rdo_set_live x :: kb). { unfold AA1, K. rewrite <- Ex. apply rdo_e_update_app. rewrite Ex; auto. }
  pose proof (proj1 (rdo_d_cascade_spec st0) (rdo_e_p_casc _ _ _ _ _ PC)) as CP.
  assert (INAA: forall y, In y AA1 -> y = rdo_set_live x \/ In y K).
  { intros y Iy. rewrite EAA in Iy. apply in_app_or in Iy. destruct Iy as [Iy|[Iy|Iy]]; auto; right; unfold K; apply in_or_app; simpl; auto. }
  assert (KIDSG: forall q xq, rdo_get st0 q = Some xq -> rdo_del xq = true -> forall y, In y K -> rdo_par y = RdoItem q -> rdo_del y = true).
  { intros q xq Gq0 Dq0 y Iy Py. rewrite <- EK in Iy. unfold rdo_e_kill in Iy. apply in_map_iff in Iy. destruct Iy as (y0 & Ey & Iy0).
    assert (rdo_del y0 = true) as D0. { apply (CP y0 Iy0 q xq); auto. subst y. destruct (rdo_mem (rdo_id y0) I); auto. }
    subst y. destruct (rdo_mem (rdo_id y0) I); auto. }
  assert (KIDSc: forall y, In y AA1 -> rdo_par y = RdoItem c -> rdo_del y = true).
  { intros y Iy Py. destruct (INAA y Iy) as [E0|Iy0]. subst y. simpl in Py. destruct (PAL c Py). lia. apply (KIDSG c xc); auto. }
  assert (NOPB: forall y, In y B1' -> forall p, rdo_par y = RdoItem p -> p < n0).
  { intros y Iy p Py. unfold B1' in Iy. apply rdo_a_in_update_red in Iy. destruct Iy as (y1 & I1 & P1 & E1'). rewrite P1 in Py.
    unfold B1 in I1. apply rdo_a_link_in in I1. destruct I1 as [E0|I1].
    - subst y1. simpl in Py. destruct (PAL p Py). lia.
    - destruct (LTK' y1 I1) as (L1 & L2). pose proof (L2 p Py). lia. }
  assert (IDB: forall y, In y B1' -> rdo_id y <= n0).
  { intros y Iy. unfold B1' in Iy. apply rdo_a_in_update_red in Iy. destruct Iy as (y1 & I1 & P1 & E1'). rewrite E1'.
    unfold B1 in I1. apply rdo_a_link_in in I1. destruct I1 as [E0|I1]. subst y1. simpl. lia. destruct (LTK' y1 I1). lia. }
  assert (GCN2: rdo_get B1' (rdo_next t1) = None). { apply rdo_e_get_fresh. intros y Iy. pose proof (IDB y Iy). lia. }
  assert (KIDSB2: forall y, In y B1' -> rdo_par y = RdoItem (rdo_next t1) -> rdo_del y = true).
  { intros y Iy Py. pose proof (NOPB y Iy _ Py). lia. }
  assert (PXO2: rdo_par xc <> RdoItem c). { rewrite Pc. intro K0. inversion K0. lia. }
  assert (PXC2: rdo_par copyc <> RdoItem (rdo_next t1)). { simpl. intro K0. inversion K0. lia. }
  assert (BREL2: rdo_d_brel rho1 (rdo_par xc) (rdo_par copyc)).
  { rewrite Pc. simpl. right. exists i, n0. split; auto. split; auto. right. auto. }
  assert (CHA: exists a1c a2c, rdo_chain AA1 (rdo_par xc) (rdo_sub xc) = a1c ++ xc :: a2c).
  { apply in_split. apply rdo_a_in_chain; auto. apply (rdo_a_get_in _ _ _ GA1c). }
  destruct CHA as (a1c & a2c & CHA).
  assert (CHB: forall S, rdo_chain B1' (RdoItem n0) S = []).
  { intros S. destruct (rdo_chain B1' (RdoItem n0) S) as [|y rest] eqn:CE; auto. exfalso.
    assert (In y (rdo_chain B1' (RdoItem n0) S)) as K0 by (rewrite CE; simpl; auto). apply rdo_a_chain_in in K0. destruct K0 as (Iy & Py & _).
    pose proof (NOPB y Iy _ Py). lia. }
  assert (CHB1: rdo_chain B1' (rdo_par copyc) (rdo_sub copyc) = [] ++ []) by (simpl; apply CHB).
  assert (CHB2: rdo_chain (rdo_link B1' None copyc) (rdo_par copyc) (rdo_sub copyc) = [] ++ copyc :: []).
  { simpl rdo_link. simpl rdo_par. simpl rdo_sub. unfold rdo_chain. simpl filter. unfold rdo_in_chain at 1. simpl. rewrite N.eqb_refl, rdo_a_on_eqb_refl. simpl.
    fold (rdo_chain B1' (RdoItem n0) (rdo_sub xc)). rewrite CHB. reflexivity. }
  assert (LEN2: length (rdo_live a1c) = length (rdo_live (@nil rdo_item))).
  { rewrite rdo_d_live_nil. reflexivity. intros y Iy. assert (In y (rdo_chain AA1 (rdo_par xc) (rdo_sub xc))) as K0 by (rewrite CHA; apply in_or_app; auto).
    apply rdo_a_chain_in in K0. destruct K0 as (IyA & Py & _). rewrite Pc in Py. destruct (INAA y IyA) as [E0|Iy0].
    - subst y. simpl in Py. destruct (PAL i Py). lia.
    - apply (KIDS y); auto. }
  pose proof (rdo_d_iso_add AA1 B1' rho1 c (rdo_next t1) xc copyc None a1c a2c [] [] NBA1 FUN1 INJ1 ISOa GA1c Dxc KIDSc GCN2
                eq_refl eq_refl eq_refl eq_refl KIDSB2 PXO2 PXC2 BREL2 CHA CHB1 CHB2 LEN2) as ISO2.
  eexists. rewrite (rdo_m2_flip_pair st0 I D i c ND0 HR), EK, ST2. exact ISO2. lia.
Qed.
Print Assumptions rdo_m2_pair_iso_map.

(* ============================================================================================== *)
(* second child, to the LEFT of the first one: no left sibling has a copy, the chain below q is [z]: linked with left' = None *)
Lemma rdo_m2_firstred_none : forall st cands, (forall l, In l cands -> exists y, rdo_get st l = Some y /\ rdo_red y = None) ->
  rdo_e_firstred st cands = None.
Proof. induction cands; simpl; intros; auto. destruct (H a) as (y & G & R); auto. rewrite G, R. auto. Qed.
Print Assumptions rdo_m2_firstred_none.

Lemma rdo_m2_tail_seqB_right : forall t item i p q td s1 s2 yq z,
  rdo_get (rdo_st t) i = Some item -> rdo_sub item = None -> NoDup (map rdo_id (rdo_st t)) ->
  (forall y, In y (rdo_st t) -> rdo_id y < rdo_next t) ->
  rdo_get (rdo_st t) q = Some yq -> rdo_del yq = false ->
  rdo_chain (rdo_st t) (RdoItem q) None = [z] -> rdo_org z = None -> rdo_rorg z = None -> rdo_id z <> i ->
  (forall l, In l (rdo_lefts (rdo_st t) i ++ i :: rdo_rights (rdo_st t) i) -> rdo_e_sibB (rdo_st t) q l) ->
  (forall l, In l (rdo_lefts (rdo_st t) i) -> exists y, rdo_get (rdo_st t) l = Some y /\ rdo_red y = None) ->
  exists ro, rdo_a_tail t item i (Some q) (RdoItem p) (RdoItem q) td s1 s2 =
    RdoOk ({| rdo_st := rdo_link (rdo_update (rdo_st t) i (fun y => rdo_set_red y (rdo_next t))) None
                          (rdo_e_newk (rdo_next t) (RdoItem q) item None ro);
              rdo_next := rdo_next t + 1; rdo_tins := rdo_tins t ++ [rdo_next t]; rdo_tdel := rdo_tdel t |}, Some (rdo_next t)).
Proof. intros t item i p q td s1 s2 yq z Gi SUB ND LT Gq Dq CH OZ RZ NEz SIB LNR.
  assert (LN: (1 <= length (rdo_st t))%nat). { destruct (rdo_st t); simpl in *. discriminate. lia. }
  pose proof (rdo_e_lloop_B_first (rdo_st t) q (rdo_lefts (rdo_st t) i) LN (fun l Hl => SIB l (in_or_app _ _ _ (or_introl Hl)))) as EL. rewrite (rdo_m2_firstred_none _ _ LNR) in EL.
  destruct (rdo_e_rloop_B (rdo_st t) q None (i :: rdo_rights (rdo_st t) i) LN) as (ro & ER & GR). { intros; apply SIB; apply in_or_app; auto. }
  exists ro.
  set (nid := rdo_next t). set (st2 := rdo_update (rdo_st t) i (fun y => rdo_set_red y nid)).
  assert (Iz: In z (rdo_st t) /\ rdo_par z = RdoItem q /\ rdo_sub z = None). { apply rdo_a_chain_in. rewrite CH. simpl; auto. }
  destruct Iz as (Iz & Pz & Sz).
  assert (UPZ: rdo_update (rdo_st t) i (fun y => rdo_set_red y nid) = st2) by reflexivity.
  assert (CH2: rdo_chain st2 (RdoItem q) None = [z]).
  { unfold st2. rewrite (rdo_d_chain_update (rdo_st t) i (fun y => rdo_set_red y nid) (RdoItem q) None).
    - rewrite CH. simpl. assert (rdo_id z =? i = false) as Q by (apply N.eqb_neq; auto). rewrite Q. reflexivity.
    - apply rdo_d_nodup_spec; auto.
    - intros y. simpl. auto. }
  assert (FR: ~ In nid (map rdo_id st2)).
  { unfold st2. rewrite rdo_a_ids_update; auto. intro K. apply in_map_iff in K. destruct K as (y & Ey & Iy). apply LT in Iy. fold nid in Iy. lia. }
  unfold rdo_a_tail, rdo_a_lr, rdo_e_newk. rewrite SUB. cbv zeta. rewrite EL. cbn [rdo_bind]. rewrite ER. cbn [rdo_bind]. fold nid. fold st2.
  set (copy := {| rdo_id := nid; rdo_par := RdoItem q; rdo_sub := None; rdo_cnt := rdo_cnt item; rdo_del := false; rdo_keep := true;
                  rdo_red := None; rdo_org := None; rdo_rorg := ro |}).
  assert (NB: rdo_neighbour_ok st2 copy ro = true). { apply (rdo_e_goodB_upd (rdo_st t) q ro i nid GR copy); reflexivity. }
  assert (LP: (if rdo_detect_conflict st2 None ro then rdo_resolve_conflict st2 copy None ro else None) = None).
  { destruct ro as [cz|].
    - destruct (GR cz eq_refl) as (z' & Gz' & Pz' & Sz'). destruct (rdo_a_get_in _ _ _ Gz') as (Iz' & Ez').
      assert (In z' (rdo_chain (rdo_st t) (RdoItem q) None)) as K by (apply rdo_a_in_chain; auto). rewrite CH in K. destruct K as [K|[]]. subst z'.
      assert (In z st2) as Iz2. { assert (In z (rdo_chain st2 (RdoItem q) None)) as K by (rewrite CH2; simpl; auto). apply rdo_a_chain_in in K. tauto. }
      assert (ND2: NoDup (map rdo_id st2)) by (unfold st2; rewrite rdo_a_ids_update; auto).
      apply in_split in Iz2. destruct Iz2 as (a & b & E2). rewrite E2 in ND2.
      destruct (rdo_e_lr_app a z b (rdo_e_nodup_mid _ _ _ ND2)) as (LF & _). rewrite <- E2, Ez', Pz, Sz in LF.
      assert (filter (rdo_in_chain (RdoItem q) None) a = []) as FA.
      { pose proof CH2 as C2. unfold rdo_chain in C2. rewrite E2, filter_app in C2. simpl in C2.
        assert (rdo_in_chain (RdoItem q) None z = true) as GZ by (unfold rdo_in_chain; rewrite Pz, Sz, rdo_a_par_eqb_refl; auto). rewrite GZ in C2.
        destruct (filter (rdo_in_chain (RdoItem q) None) a); auto. simpl in C2. inversion C2. destruct l; discriminate. }
      unfold rdo_detect_conflict, rdo_left. rewrite LF, rdo_e_filter_rev, FA. reflexivity.
    - unfold rdo_detect_conflict, rdo_resolve_conflict. cbn [rdo_par rdo_sub copy]. rewrite CH2. cbn [rdo_scan rdo_on_eqb rdo_org rdo_rorg copy].
      rewrite OZ, RZ. reflexivity. }
  unfold rdo_integrate. cbn [rdo_st]. rewrite NB. cbn [rdo_neighbour_ok andb negb]. rewrite LP. cbn [rdo_link rdo_id rdo_sub copy].
  match goal with |- context [rdo_right ?S ?I] => destruct (rdo_right S I) end;
    cbn [rdo_bind rdo_st rdo_par rdo_sub rdo_is_some andb orb copy];
    match goal with |- context [rdo_parent_deleted ?S ?P] =>
      assert (PD: rdo_parent_deleted S P = false) by
        (apply (rdo_e_pdel_link st2 None); auto; unfold st2; rewrite rdo_e_pdel_set_red; simpl; rewrite Gq; auto) end;
    rewrite PD; reflexivity.
Qed.
Print Assumptions rdo_m2_tail_seqB_right.

Lemma rdo_m2_flip_triple : forall st0 I D i c c2, NoDup (map rdo_id st0) -> rdo_i_redo st0 I D = [i; c; c2] -> i <> c -> i <> c2 -> c <> c2 ->
  rdo_i_flip st0 I D = rdo_update (rdo_update (rdo_update (rdo_e_kill I st0) i rdo_set_live) c rdo_set_live) c2 rdo_set_live.
Proof. intros st0 I D i c c2 ND HR N1 N2 N3. rewrite rdo_e_flip_map. symmetry. unfold rdo_e_kill.
  assert (IR: forall j, In j (rdo_i_redo st0 I D) -> j = i \/ j = c \/ j = c2) by (intros j Ij; rewrite HR in Ij; simpl in Ij; intuition).
  assert (INR: forall j, j = i \/ j = c \/ j = c2 -> rdo_mem j I = false /\ rdo_mem j D = true).
  { intros j Hj. destruct (rdo_e_redo_in st0 I D j) as (A & B & _). rewrite HR; simpl; intuition.
    split. apply rdo_e_mem_nin; auto. apply rdo_e_mem_in; auto. }
  set (F := fun x => if rdo_mem (rdo_id x) I then rdo_set_del x else x).
  set (F1 := fun x => if rdo_id x =? i then rdo_set_live x else F x).
  set (F2 := fun x => if rdo_id x =? c then rdo_set_live x else F1 x).
  assert (IDF: forall y, rdo_id (F y) = rdo_id y) by (intros y; unfold F; destruct (rdo_mem (rdo_id y) I); auto).
  assert (IDF1: forall y, rdo_id (F1 y) = rdo_id y) by (intros y; unfold F1; destruct (rdo_id y =? i); auto).
  assert (IDF2: forall y, rdo_id (F2 y) = rdo_id y) by (intros y; unfold F2; destruct (rdo_id y =? c); auto).
  assert (FJ: forall j x1, rdo_id x1 = j -> (j = i \/ j = c \/ j = c2) -> F x1 = x1).
  { intros j x1 E1 Hj. unfold F. rewrite E1. destruct (INR j Hj) as (A & _). rewrite A. auto. }
  rewrite (rdo_e_update_map F F1 rdo_set_live st0 i); auto.
  rewrite (rdo_e_update_map F1 F2 rdo_set_live st0 c); auto.
  - apply rdo_e_update_map; auto.
    + intros x1 I1 E1. unfold F2, F1, rdo_e_ff. assert (rdo_id x1 =? c = false) as Q1 by (apply N.eqb_neq; congruence).
      assert (rdo_id x1 =? i = false) as Q2 by (apply N.eqb_neq; congruence). rewrite Q1, Q2. rewrite (FJ c2 x1); auto.
      destruct (INR c2) as (A & B); auto. rewrite E1, A, B. auto.
    + intros x1 I1 E1. unfold F2, F1, rdo_e_ff. destruct (rdo_id x1 =? c) eqn:Q1.
      * apply N.eqb_eq in Q1. destruct (INR c) as (A & B); auto. rewrite Q1, A, B. auto.
      * destruct (rdo_id x1 =? i) eqn:Q2.
        -- apply N.eqb_eq in Q2. destruct (INR i) as (A & B); auto. rewrite Q2, A, B. auto.
        -- unfold F. destruct (rdo_mem (rdo_id x1) I) eqn:MI; auto. destruct (rdo_mem (rdo_id x1) D) eqn:MD; auto.
           exfalso. apply N.eqb_neq in Q1. apply N.eqb_neq in Q2. destruct (IR (rdo_id x1)) as [?|[?|?]]; auto.
           unfold rdo_i_redo. apply filter_In. split. apply rdo_e_mem_in; auto. rewrite (rdo_a_in_get _ _ ND I1). simpl. rewrite MI. auto.
  - intros x1 I1 E1. unfold F2, F1. rewrite E1, N.eqb_refl. assert (c =? i = false) as Q by (apply N.eqb_neq; congruence). rewrite Q. rewrite (FJ c x1); auto.
  - intros x1 I1 E1. unfold F2. apply N.eqb_neq in E1. rewrite E1. auto.
  - intros x1 I1 E1. unfold F1. rewrite E1, N.eqb_refl. rewrite (FJ i x1); auto.
  - intros x1 I1 E1. unfold F1. apply N.eqb_neq in E1. rewrite E1. auto.
Qed.
Print Assumptions rdo_m2_flip_triple.

Lemma rdo_m2_triple_iso : forall s e s1 s2 i x c xc c2 xc2,
  rdo_i_pc (rdo_doc s) (rdo_clock s) (rdo_scope s) (rdo_sins e) (rdo_sdel e) = true ->
  rdo_i_redo (rdo_doc s) (rdo_sins e) (rdo_sdel e) = [i; c; c2] -> rdo_get (rdo_doc s) i = Some x -> rdo_sub x = None ->
  rdo_get (rdo_doc s) c = Some xc -> rdo_par xc = RdoItem i -> rdo_sub xc = None ->
  rdo_get (rdo_doc s) c2 = Some xc2 -> rdo_par xc2 = RdoItem i -> rdo_sub xc2 = None -> c <> c2 -> In c (rdo_rights (rdo_doc s) c2) ->
  exists t ch, rdo_process s e s1 s2 = RdoOk (t, ch) /\
    exists rho, rdo_d_iso (rdo_i_flip (rdo_doc s) (rdo_sins e) (rdo_sdel e)) (rdo_st t) rho.
Proof. intros s e s1 s2 i x c xc c2 xc2 PC0 HR G SUB Gc Pc SUBc0 Gc2 Pc2 SUBc2 NE12 RIGHT. pose proof (rdo_e_pc_unpack _ _ _ _ _ PC0) as PC.
  set (st0 := rdo_doc s) in *. set (I := rdo_sins e) in *. set (D := rdo_sdel e) in *. set (n0 := rdo_clock s) in *.
  pose proof (rdo_e_p_wf _ _ _ _ _ PC) as W. pose proof (rdo_e_wfp_nodup _ _ W) as ND0.
  assert (IR: In i (rdo_i_redo st0 I D)) by (rewrite HR; simpl; auto).
  destruct (rdo_e_redo_in _ _ _ _ IR) as (ID & NI & _).
  destruct (rdo_a_get_in _ _ _ G) as (Ix & Ex). destruct (rdo_e_wfp_item _ _ W _ Ix) as (LI & WP). rewrite Ex in LI.
  destruct (rdo_e_p_c3 _ _ _ _ _ PC x Ix) as (Dx & Rx & Px). rewrite Ex; auto.
  assert (IP: forall j, In j I -> exists y, rdo_get st0 j = Some y /\ j < n0).
  { intros j Ij. destruct (rdo_e_p_I _ _ _ _ _ PC _ Ij) as (y & Gy & _). exists y. split; auto.
    destruct (rdo_a_get_in _ _ _ Gy) as (Iy & Ey). rewrite <- Ey. apply (rdo_e_wfp_item _ _ W _ Iy). }
  destruct (rdo_a_get_in _ _ _ Gc) as (Ixc & Exc). destruct (rdo_e_wfp_item _ _ W _ Ixc) as (LC & WPc). rewrite Exc in LC.
  destruct (WPc i Pc) as (Lic & xp' & kc & Gxp' & Cx). rewrite Exc in Lic. rewrite G in Gxp'. inversion Gxp'; subst xp'. clear Gxp'.
  assert (IRc: In c (rdo_i_redo st0 I D)) by (rewrite HR; simpl; auto).
  destruct (rdo_e_redo_in _ _ _ _ IRc) as (IDc & NIc & _).
  destruct (rdo_e_p_c3 _ _ _ _ _ PC xc Ixc) as (Dxc & Rxc & _). rewrite Exc; auto.
  destruct (rdo_a_get_in _ _ _ Gc2) as (Ixc2 & Exc2). destruct (rdo_e_wfp_item _ _ W _ Ixc2) as (LC2 & WPc2). rewrite Exc2 in LC2.
  destruct (WPc2 i Pc2) as (Lic2 & _). rewrite Exc2 in Lic2.
  assert (IRc2: In c2 (rdo_i_redo st0 I D)) by (rewrite HR; simpl; auto).
  destruct (rdo_e_redo_in _ _ _ _ IRc2) as (IDc2 & NIc2 & _).
  destruct (rdo_e_p_c3 _ _ _ _ _ PC xc2 Ixc2) as (Dxc2 & Rxc2 & _). rewrite Exc2; auto.
  assert (PAL: forall p, rdo_par x = RdoItem p -> p < i /\ ~ In p I /\ exists pit kk, rdo_get st0 p = Some pit /\ rdo_del pit = false /\ rdo_cnt pit = RdoType kk).
  { intros p Pp. destruct (WP p Pp) as (Lp & y & k & Gy & Cy). rewrite Ex in Lp. split; auto. rewrite Pp in Px.
    destruct Px as [(A & B)|K]. 2: { rewrite HR in K. destruct K as [K|[K|[K|[]]]]; lia. }
    split; auto. apply rdo_e_isdel_live in A. destruct A as (pit & Gp & Dp). rewrite Gp in Gy. inversion Gy; subst y. eauto. }
  assert (NIn0: ~ In n0 I). { intro K. destruct (IP _ K) as (_ & _ & L). lia. }
  destruct (rdo_e_get_split _ _ _ G) as (a & b & ST & NIa & _).
  (* the process: one rdo_redo, then the deletions *)
  rewrite (rdo_e_process_eq s e s1 s2 (rdo_e_liveI st0 I)).
  2: { rewrite (rdo_e_td st0 (rdo_scope s) I); auto; apply PC. }
  2: apply PC.
  cbv zeta. fold st0 I D. rewrite HR. cbn [fold_left]. unfold rdo_e_fredo. cbn [rdo_bind].
  assert (V0: rdo_e_inv st0 n0 [] [] (rdo_begin s)).
  { apply rdo_e_inv_init; auto. intros y Iy. apply (rdo_e_wfp_item _ _ W _ Iy). }
  destruct (rdo_e_step_seqA st0 n0 [] [] (rdo_begin s) i V0 ND0) as (t1 & E1 & V1).
  { exists x. repeat (split; auto). destruct (rdo_par x) eqn:P; auto. destruct (PAL id eq_refl) as (Lp & NIp & pit & kk & Gp & Dp & Cp).
    exists pit, kk. repeat (split; auto). lia. }
  { intros []. }
  { intros p x0 G0 P0. rewrite G in G0. inversion G0; subst x0. simpl. intros [K|[]]. destruct (PAL p P0). lia. }
  { intros j xj []. }
  simpl app in V1.
  assert (PAR0: match rdo_par x with
                | RdoRoot _ => True
                | RdoItem p => exists pit k, rdo_get (rdo_st (rdo_begin s)) p = Some pit /\ rdo_del pit = false /\ rdo_cnt pit = RdoType k
                end).
  { destruct (rdo_par x) eqn:P; auto. destruct (PAL id eq_refl) as (_ & _ & pit & kk & Gp & Dp & Cp). exists pit, kk. auto. }
  pose proof (rdo_e_redo_seqA (length (rdo_st (rdo_begin s))) (rdo_begin s) x a b [i; c; c2] I s1 s2 ST ND0 Rx SUB
                (fun y Iy => proj1 (rdo_e_wfp_item _ _ W y Iy)) PAR0) as EX.
  rewrite Ex in EX. rewrite E1 in EX. inversion EX as [ET1]. clear EX.
  rewrite E1. cbn [rdo_bind].
  (* second step: the child, below the copy n0 of its parent *)
  assert (CPI: rdo_e_cp n0 [i] i = n0). { unfold rdo_e_cp. simpl. rewrite N.eqb_refl. lia. }
  assert (NX1: rdo_next t1 = n0 + 1). { rewrite (rdo_e_v_next _ _ _ _ _ V1). simpl. lia. }
  pose proof (rdo_e_inv_get_old _ _ _ _ _ c V1 LC) as Gc1. rewrite Gc in Gc1. simpl in Gc1. set (itemc := rdo_e_oldk n0 [i] [] xc) in *.
  assert (REDc: rdo_red itemc = None). { simpl. rewrite Exc. assert (c =? i = false) as Q by (apply N.eqb_neq; lia). rewrite Q. simpl. auto. }
  pose proof (rdo_e_inv_get_old _ _ _ _ _ i V1 LI) as Gp1. rewrite G in Gp1. simpl in Gp1. set (pit1 := rdo_e_oldk n0 [i] [] x) in *.
  assert (Rp1: rdo_red pit1 = Some n0). { simpl. rewrite Ex, N.eqb_refl. simpl. rewrite CPI. auto. }
  assert (Dp1: rdo_del pit1 = true). { simpl. rewrite Dx. auto. }
  destruct (rdo_e_v_new _ _ _ _ _ V1 i (or_introl eq_refl)) as (x2 & lq & rq & G2 & Gq). rewrite G in G2. inversion G2; subst x2. clear G2. rewrite CPI in Gq.
  set (yq := rdo_e_newk n0 (rdo_e_mpar n0 [i] (rdo_par x)) x lq rq) in *.
  rewrite (rdo_e_redo_B (length (rdo_st t1)) t1 c itemc i pit1 n0 yq kc [i; c; c2] I s1 s2 Gc1 REDc Pc Gp1 Dp1 Rp1 Gq eq_refl Cx).
  assert (NOPAR: forall y, In y (rdo_st t1) -> rdo_par y <> RdoItem n0).
  { intros y Iy K0. destruct (rdo_e_inv_item _ _ _ _ _ _ V1 Iy) as [(y0 & I0 & E0)|(j & y0 & l0 & r0 & Ij & Gj & E0)]; subst y; simpl in K0.
    - destruct (rdo_e_wfp_item _ _ W _ I0) as (L0 & WP0). destruct (WP0 _ K0). lia.
    - destruct Ij as [Ej|[]]. subst j. rewrite G in Gj. inversion Gj; subst y0. unfold rdo_e_mpar in K0. destruct (rdo_par x) eqn:PX; try discriminate.
      destruct (PAL id eq_refl) as (Lp & _). assert (rdo_mem id [i] = false) as Q by (simpl; rewrite orb_false_r; apply N.eqb_neq; lia).
      rewrite Q in K0. inversion K0. lia. }
  assert (CHq: forall S, rdo_chain (rdo_st t1) (RdoItem n0) S = []).
  { intros S. destruct (rdo_chain (rdo_st t1) (RdoItem n0) S) as [|y rest] eqn:CE; auto. exfalso.
    assert (In y (rdo_chain (rdo_st t1) (RdoItem n0) S)) as K0 by (rewrite CE; simpl; auto). apply rdo_a_chain_in in K0. destruct K0 as (Iy & Py & _).
    apply (NOPAR y Iy Py). }
  assert (LT1: forall y, In y (rdo_st t1) -> rdo_id y < rdo_next t1) by (intros; eapply rdo_e_inv_fresh; eauto).
  assert (TAILEQ: rdo_a_tail t1 itemc c (Some n0) (RdoItem i) (RdoItem n0) I s1 s2 =
            RdoOk ({| rdo_st := rdo_link (rdo_update (rdo_st t1) c (fun y => rdo_set_red y (rdo_next t1))) None
                                  (rdo_e_newk (rdo_next t1) (RdoItem n0) itemc None None);
                      rdo_next := rdo_next t1 + 1; rdo_tins := rdo_tins t1 ++ [rdo_next t1]; rdo_tdel := rdo_tdel t1 |}, Some (rdo_next t1))).
  { destruct (rdo_sub xc) as [kx|] eqn:SUBc.
    { apply (rdo_e_tail_mapB t1 itemc c i n0 kx I s1 s2 yq Gc1 SUBc); auto. lia. }
  assert (SIB: forall l0, In l0 (rdo_lefts (rdo_st t1) c ++ c :: rdo_rights (rdo_st t1) c) -> rdo_e_sibB (rdo_st t1) n0 l0).
  { destruct (rdo_e_get_split _ _ _ Gc1) as (a1' & b1' & ST1' & NIa1 & Ei1).
    assert (NIa1': ~ In (rdo_id itemc) (map rdo_id a1')) by (rewrite Ei1; auto).
    destruct (rdo_e_lr_app a1' itemc b1' NIa1') as (LF & RT). rewrite <- ST1', Ei1 in LF, RT.
    assert (SIBY: forall y, In y (rdo_st t1) -> rdo_in_chain (rdo_par itemc) (rdo_sub itemc) y = true -> rdo_e_sibB (rdo_st t1) n0 (rdo_id y)).
    { intros y Iy Gy. apply rdo_e_in_chain_eq in Gy. destruct Gy as (Py & Sy). simpl in Py, Sy. rewrite Pc in Py.
      exists y. split. apply rdo_a_in_get; auto. apply V1. split. rewrite Py. simpl. intro K0. inversion K0. lia.
      left. destruct (rdo_e_inv_item _ _ _ _ _ _ V1 Iy) as [(y0 & I0 & E0)|(j & y0 & l1 & r1 & Ij & Gj & E0)]; subst y; simpl in *.
      - rewrite (rdo_e_p_c5 _ _ _ _ _ PC y0 i I0 Py IR). destruct (rdo_id y0 =? i) eqn:Q; auto. simpl.
        exfalso. apply N.eqb_eq in Q. destruct (rdo_e_wfp_item _ _ W _ I0) as (_ & WP0). destruct (WP0 i Py). lia.
      - auto. }
    intros l0 Il. apply in_app_or in Il. destruct Il as [Il|[Il|Il]].
    - rewrite LF in Il. apply in_map_iff in Il. destruct Il as (y & Ey & Iy). apply filter_In in Iy. destruct Iy as (Iy & Gy). apply in_rev in Iy.
      subst l0. apply SIBY; auto. rewrite ST1'. apply in_or_app; auto.
    - subst l0. exists itemc. split; auto. split. change (rdo_par itemc) with (rdo_par xc). rewrite Pc. simpl. intro K0. inversion K0. lia. left; auto.
    - rewrite RT in Il. apply in_map_iff in Il. destruct Il as (y & Ey & Iy). apply filter_In in Iy. destruct Iy as (Iy & Gy).
      subst l0. apply SIBY; auto. rewrite ST1'. apply in_or_app; simpl; auto. }
    apply (rdo_m2_tail_seqB_empty t1 itemc c i n0 I s1 s2 yq Gc1 SUBc LT1 Gq eq_refl (CHq None) SIB). }
  rewrite TAILEQ. cbn [rdo_bind rdo_is_some orb].
  assert (NPI: forall j xj, In j [i] -> rdo_get st0 j = Some xj -> rdo_par xj <> RdoItem c).
  { intros j xj [Ej|[]] Gj K0. subst j. rewrite G in Gj. inversion Gj; subst xj. destruct (PAL c K0). lia. }
  assert (NIc1: ~ In c [i]) by (simpl; intros [K0|[]]; lia).
  pose proof (rdo_e_inv_link st0 n0 [i] [] t1 c xc None None None V1 ND0 Gc NIc1 LC NPI) as V2'. simpl app in V2'.
  assert (MP2: rdo_e_mpar n0 [i; c] (rdo_par xc) = RdoItem n0).
  { rewrite Pc. unfold rdo_e_mpar. simpl. rewrite N.eqb_refl. simpl. unfold rdo_e_cp. simpl. rewrite N.eqb_refl. f_equal. lia. }
  rewrite MP2 in V2'.
  match goal with |- context [rdo_redo _ ?T c2 _ _ _ _] => set (t2' := T) in * end.
  assert (V2t: rdo_e_inv st0 n0 [i; c] [] t2') by exact V2'.
  assert (CPI2: rdo_e_cp n0 [i; c] i = n0). { unfold rdo_e_cp. simpl. rewrite N.eqb_refl. lia. }
  assert (CPC2: rdo_e_cp n0 [i; c] c = n0 + 1). { unfold rdo_e_cp. simpl. assert (i =? c = false) as Q by (apply N.eqb_neq; lia). rewrite Q, N.eqb_refl. lia. }
  assert (NX2: rdo_next t2' = n0 + 2). { rewrite (rdo_e_v_next _ _ _ _ _ V2t). simpl. lia. }
  pose proof (rdo_e_inv_get_old _ _ _ _ _ c2 V2t LC2) as Gc2t. rewrite Gc2 in Gc2t. cbn [option_map] in Gc2t. set (itemc2 := rdo_e_oldk n0 [i; c] [] xc2) in *.
  assert (REDc2: rdo_red itemc2 = None).
  { unfold itemc2. simpl. rewrite Exc2. assert (c2 =? i = false) as Q1 by (apply N.eqb_neq; lia). assert (c2 =? c = false) as Q2 by (apply N.eqb_neq; auto).
    rewrite Q1, Q2. simpl. exact Rxc2. }
  pose proof (rdo_e_inv_get_old _ _ _ _ _ i V2t LI) as Gp2. rewrite G in Gp2. cbn [option_map] in Gp2. set (pit2 := rdo_e_oldk n0 [i; c] [] x) in *.
  assert (Rp2: rdo_red pit2 = Some n0). { unfold pit2. simpl. rewrite Ex, N.eqb_refl. simpl. rewrite CPI2. auto. }
  assert (Dp2: rdo_del pit2 = true). { unfold pit2. simpl. rewrite Dx. auto. }
  destruct (rdo_e_v_new _ _ _ _ _ V2t i (or_introl eq_refl)) as (x3 & lq2 & rq2 & G3 & Gq2). rewrite G in G3. inversion G3; subst x3. clear G3. rewrite CPI2 in Gq2.
  set (yq2 := rdo_e_newk n0 (rdo_e_mpar n0 [i; c] (rdo_par x)) x lq2 rq2) in *.
  rewrite (rdo_e_redo_B (length (rdo_st t2')) t2' c2 itemc2 i pit2 n0 yq2 kc [i; c; c2] I s1 s2 Gc2t REDc2 Pc2 Gp2 Dp2 Rp2 Gq2 eq_refl Cx).
  set (copyc := rdo_e_newk (rdo_next t1) (RdoItem n0) itemc None None) in *.
  assert (ST2': rdo_st t2' = copyc :: rdo_update (rdo_st t1) c (fun y => rdo_set_red y (rdo_next t1))) by reflexivity.
  assert (CHU: forall S, rdo_chain (rdo_update (rdo_st t1) c (fun y => rdo_set_red y (rdo_next t1))) (RdoItem n0) S = []).
  { intros S. destruct (rdo_chain (rdo_update (rdo_st t1) c (fun y => rdo_set_red y (rdo_next t1))) (RdoItem n0) S) as [|y rest] eqn:CE; auto. exfalso.
    assert (In y (rdo_chain (rdo_update (rdo_st t1) c (fun y => rdo_set_red y (rdo_next t1))) (RdoItem n0) S)) as K0 by (rewrite CE; simpl; auto).
    apply rdo_a_chain_in in K0. destruct K0 as (Iy & Py & _). apply rdo_a_in_update_red in Iy. destruct Iy as (y1 & I1 & P1 & E1'). rewrite P1 in Py. apply (NOPAR y1 I1 Py). }
  assert (CHz: rdo_chain (rdo_st t2') (RdoItem n0) None = [copyc]).
  { rewrite ST2'. unfold rdo_chain. simpl filter. unfold rdo_in_chain at 1. simpl. rewrite N.eqb_refl, SUBc0. simpl.
    fold (rdo_chain (rdo_update (rdo_st t1) c (fun y => rdo_set_red y (rdo_next t1))) (RdoItem n0) None). rewrite CHU. reflexivity. }
  assert (GZ: rdo_get (rdo_st t2') (n0 + 1) = Some copyc). { rewrite ST2'. simpl. rewrite NX1, N.eqb_refl. reflexivity. }
  pose proof (rdo_e_v_nd _ _ _ _ _ V2t) as NDt2.
  assert (LT2: forall y, In y (rdo_st t2') -> rdo_id y < rdo_next t2') by (intros; eapply rdo_e_inv_fresh; eauto).
  destruct (rdo_e_get_split _ _ _ Gc2t) as (a2' & b2' & ST2s & NIa2 & Ei2).
  assert (NIa2': ~ In (rdo_id itemc2) (map rdo_id a2')) by (rewrite Ei2; auto).
  destruct (rdo_e_lr_app a2' itemc2 b2' NIa2') as (LF2 & RT2). rewrite <- ST2s, Ei2 in LF2, RT2.
  assert (REDY: forall y, In y (rdo_st t2') -> rdo_in_chain (rdo_par itemc2) (rdo_sub itemc2) y = true ->
            rdo_par_item (rdo_par y) <> Some n0 /\ ((rdo_id y <> c /\ rdo_red y = None) \/ (rdo_id y = c /\ rdo_red y = Some (n0 + 1)))).
  { intros y Iy Gy. apply rdo_e_in_chain_eq in Gy. destruct Gy as (Py & Sy). change (rdo_par itemc2) with (rdo_par xc2) in Py. rewrite Pc2 in Py.
    split. rewrite Py. simpl. intro K0. inversion K0. lia.
    destruct (rdo_e_inv_item _ _ _ _ _ _ V2t Iy) as [(y0 & I0 & E0)|(j & y0 & l1 & r1 & Ij & Gj & E0)]; subst y.
    - simpl rdo_par in Py. simpl rdo_id. simpl rdo_red. rewrite (rdo_e_p_c5 _ _ _ _ _ PC y0 i I0 Py IR).
      destruct (rdo_id y0 =? i) eqn:Q1. { exfalso. apply N.eqb_eq in Q1. destruct (rdo_e_wfp_item _ _ W _ I0) as (_ & WP0). destruct (WP0 i Py). lia. }
      destruct (rdo_id y0 =? c) eqn:Q2; simpl.
      + right. apply N.eqb_eq in Q2. split; auto. rewrite Q2, CPC2. reflexivity.
      + left. apply N.eqb_neq in Q2. auto.
    - exfalso. simpl rdo_par in Py. destruct Ij as [Ej|[Ej|[]]]; subst j.
      + rewrite G in Gj. inversion Gj; subst y0. unfold rdo_e_mpar, rdo_e_cp in Py. destruct (rdo_par x) eqn:PX; try discriminate.
        destruct (PAL id eq_refl) as (Lp & _). destruct (rdo_mem id [i; c]); inversion Py; lia.
      + rewrite Gc in Gj. inversion Gj; subst y0. rewrite MP2 in Py. inversion Py. lia. }
  assert (SIBY2: forall y, In y (rdo_st t2') -> rdo_in_chain (rdo_par itemc2) (rdo_sub itemc2) y = true -> rdo_e_sibB (rdo_st t2') n0 (rdo_id y)).
  { intros y Iy Gy. destruct (REDY y Iy Gy) as (NP & [(NE & RN)|(EC & RS)]).
    - exists y. split. apply rdo_a_in_get; auto. split; auto.
    - exists y. split. apply rdo_a_in_get; auto. split; auto. right. exists (n0 + 1), copyc.
      split; [exact RS|split; [exact GZ|split; [reflexivity|exact SUBc0]]]. }
  assert (SIB2: forall l0, In l0 (rdo_lefts (rdo_st t2') c2 ++ c2 :: rdo_rights (rdo_st t2') c2) -> rdo_e_sibB (rdo_st t2') n0 l0).
  { intros l0 Il. apply in_app_or in Il. destruct Il as [Il|[Il|Il]].
    - rewrite LF2 in Il. apply in_map_iff in Il. destruct Il as (y & Ey & Iy). apply filter_In in Iy. destruct Iy as (Iy & Gy). apply in_rev in Iy.
      subst l0. apply SIBY2; auto. rewrite ST2s. apply in_or_app; auto.
    - subst l0. exists itemc2. split; auto. split. change (rdo_par itemc2) with (rdo_par xc2). rewrite Pc2. simpl. intro K0. inversion K0. lia. left; auto.
    - rewrite RT2 in Il. apply in_map_iff in Il. destruct Il as (y & Ey & Iy). apply filter_In in Iy. destruct Iy as (Iy & Gy).
      subst l0. apply SIBY2; auto. rewrite ST2s. apply in_or_app; simpl; auto. }
  assert (NCA: ~ In c (map rdo_id a2')).
  { intro K0. apply in_map_iff in K0. destruct K0 as (y & Ey & Iy).
    pose proof (rdo_e_v_old _ _ _ _ _ V2t) as VO. rewrite ST2s, filter_app in VO. simpl filter in VO.
    assert (OI: rdo_e_isold n0 itemc2 = true) by (unfold rdo_e_isold; simpl; rewrite Exc2; apply N.ltb_lt; auto). rewrite OI in VO.
    symmetry in VO. destruct (rdo_e_map_split _ _ _ _ _ _ _ VO) as (a0 & xz & b0 & E0 & M1 & Fx & M2).
    assert (xz = xc2). { assert (In xz st0) as HI by (rewrite E0; apply in_or_app; simpl; auto). pose proof (rdo_a_in_get _ _ ND0 HI) as Gx'.
      assert (rdo_id xz = c2) as HE. { rewrite <- Ei2, <- Fx. reflexivity. } rewrite HE in Gx'. congruence. }
    subst xz.
    assert (In y (filter (rdo_e_isold n0) a2')) as K1. { apply filter_In. split; auto. unfold rdo_e_isold. rewrite Ey. apply N.ltb_lt; auto. }
    rewrite <- M1 in K1. apply in_map_iff in K1. destruct K1 as (y0 & Ey0 & Iy0).
    assert (In c (map rdo_id a0)) as CA. { rewrite <- Ey, <- Ey0. simpl. apply in_map; auto. }
    assert (NIa0: ~ In (rdo_id xc2) (map rdo_id a0)) by (rewrite E0 in ND0; apply (rdo_e_nodup_mid _ _ _ ND0)).
    destruct (rdo_e_lr_app a0 xc2 b0 NIa0) as (_ & RT0). rewrite <- E0, Exc2 in RT0. pose proof RIGHT as RG. rewrite RT0 in RG.
    apply in_map_iff in RG. destruct RG as (z0 & Ez0 & Iz0). apply filter_In in Iz0. destruct Iz0 as (Iz0 & _).
    pose proof ND0 as NDD. rewrite E0, map_app in NDD. simpl in NDD. destruct (rdo_e_nodup_app_l _ _ NDD) as (_ & _ & DJ).
    apply (DJ c CA). right. rewrite <- Ez0. apply in_map; auto. }
  assert (LNR: forall l0, In l0 (rdo_lefts (rdo_st t2') c2) -> exists y, rdo_get (rdo_st t2') l0 = Some y /\ rdo_red y = None).
  { intros l0 Il. rewrite LF2 in Il. apply in_map_iff in Il. destruct Il as (y & Ey & Iy). apply filter_In in Iy. destruct Iy as (Iy & Gy). apply in_rev in Iy.
    assert (IyT: In y (rdo_st t2')) by (rewrite ST2s; apply in_or_app; auto).
    exists y. subst l0. split. apply rdo_a_in_get; auto. destruct (REDY y IyT Gy) as (_ & [(_ & RN)|(EC & _)]); auto.
    exfalso. apply NCA. rewrite <- EC. apply in_map; auto. }
  assert (NEzc: rdo_id copyc <> c2). { simpl. rewrite NX1. lia. }
  destruct (rdo_m2_tail_seqB_right t2' itemc2 c2 i n0 I s1 s2 yq2 copyc Gc2t SUBc2 NDt2 LT2 Gq2 eq_refl CHz eq_refl eq_refl NEzc SIB2 LNR) as (ro & ET3).
  rewrite ET3. cbn [rdo_bind rdo_is_some orb].
  assert (NPI2: forall j xj, In j [i; c] -> rdo_get st0 j = Some xj -> rdo_par xj <> RdoItem c2).
  { intros j xj [Ej|[Ej|[]]] Gj K0; subst j. rewrite G in Gj. inversion Gj; subst xj. destruct (PAL c2 K0). lia.
    rewrite Gc in Gj. inversion Gj; subst xj. rewrite Pc in K0. inversion K0. lia. }
  assert (NIc2': ~ In c2 [i; c]) by (simpl; intros [K0|[K0|[]]]; [lia|congruence]).
  pose proof (rdo_e_inv_link st0 n0 [i; c] [] t2' c2 xc2 None None ro V2t ND0 Gc2 NIc2' LC2 NPI2) as V3'. simpl app in V3'.
  assert (CP3I: rdo_e_cp n0 [i; c; c2] i = n0). { unfold rdo_e_cp. simpl. rewrite N.eqb_refl. lia. }
  assert (CP3C: rdo_e_cp n0 [i; c; c2] c = n0 + 1). { unfold rdo_e_cp. simpl. assert (i =? c = false) as Q by (apply N.eqb_neq; lia). rewrite Q, N.eqb_refl. lia. }
  assert (CP3D: rdo_e_cp n0 [i; c; c2] c2 = n0 + 2).
  { unfold rdo_e_cp. simpl. assert (i =? c2 = false) as Q by (apply N.eqb_neq; lia). assert (c =? c2 = false) as Q2 by (apply N.eqb_neq; auto). rewrite Q, Q2, N.eqb_refl. lia. }
  assert (MPC3: rdo_e_mpar n0 [i; c; c2] (RdoItem i) = RdoItem n0). { unfold rdo_e_mpar. simpl. rewrite N.eqb_refl. simpl. rewrite CP3I. auto. }
  rewrite Pc2, MPC3 in V3'.
  match goal with |- context [fold_left rdo_e_tdfold _ (RdoOk ?T)] => set (t3' := T) in * end.
  destruct (rdo_e_finish st0 n0 (rdo_scope s) I D t3' [] PC) as (t2 & dd & E2 & V2 & NDd2 & IFF & FO & STF).
  { rewrite HR. exact V3'. }
  { intros j []. }
  { constructor. }
  { rewrite HR. intros j xj q Ij Gj MP. destruct Ij as [Ej|[Ej|[Ej|[]]]]; subst j.
    - rewrite G in Gj. inversion Gj; subst xj. unfold rdo_e_mpar in MP. destruct (rdo_par x) eqn:P; try discriminate. destruct (PAL id eq_refl) as (Lp & NIp & _).
      assert (rdo_mem id [i; c; c2] = false) as M.
      { simpl. assert (id =? i = false) as Q1 by (apply N.eqb_neq; lia). assert (id =? c = false) as Q2 by (apply N.eqb_neq; lia). assert (id =? c2 = false) as Q3 by (apply N.eqb_neq; lia). rewrite Q1, Q2, Q3. auto. }
      rewrite M in MP. inversion MP; subst q. split; auto. rewrite CP3I. lia.
    - rewrite Gc in Gj. inversion Gj; subst xj. rewrite Pc, MPC3 in MP. inversion MP; subst q. split; auto. rewrite CP3C. lia.
    - rewrite Gc2 in Gj. inversion Gj; subst xj. rewrite Pc2, MPC3 in MP. inversion MP; subst q. split; auto. rewrite CP3D. lia. }
  rewrite E2. cbn [rdo_bind]. exists t2. eexists. split. reflexivity.
  set (l := hd_error (map rdo_id (filter (rdo_in_chain (rdo_par x) None) (rev a)))) in *.
  set (copy := {| rdo_id := n0; rdo_par := rdo_par x; rdo_sub := None; rdo_cnt := rdo_cnt x; rdo_del := false; rdo_keep := true;
                  rdo_red := None; rdo_org := l; rdo_rorg := Some i |}) in *.
  set (x' := rdo_set_red x n0) in *.
  assert (ST1: rdo_st t1 = rdo_link (a ++ x' :: b) l copy) by (rewrite ET1; reflexivity).
  assert (KX: rdo_mem i I = false) by (apply rdo_e_mem_nin; auto).
  set (ka := rdo_e_kill I a). set (kb := rdo_e_kill I b).
  assert (EK: rdo_e_kill I st0 = ka ++ x :: kb).
  { rewrite ST, rdo_e_kill_app. simpl. rewrite Ex, KX. reflexivity. }
  assert (EK': rdo_e_kill I (a ++ x' :: b) = ka ++ x' :: kb).
  { rewrite rdo_e_kill_app. simpl. rewrite Ex, KX. reflexivity. }
  set (K := ka ++ x :: kb) in *. set (K' := ka ++ x' :: kb) in *.
  assert (IDSK: map rdo_id K = map rdo_id st0) by (rewrite <- EK; apply rdo_e_kill_ids).
  assert (NBK: rdo_i_nodup (map rdo_id K) = true) by (apply rdo_d_nodup_spec; rewrite IDSK; auto).
  assert (NIka: ~ In i (map rdo_id ka)) by (unfold ka; rewrite rdo_e_kill_ids; auto).
  assert (GK: rdo_get K i = Some x). { unfold K. rewrite <- Ex. apply rdo_e_get_app. rewrite Ex; auto. }
  set (rho0 := fun a0 b0 : N => a0 = b0 /\ exists y, rdo_get K a0 = Some y /\ rdo_del y = false).
  pose proof (rdo_d_iso_id K NBK) as ISO0. fold rho0 in ISO0.
  assert (KD: map rdo_d_kd K = map rdo_d_kd K').
  { unfold K, K'. rewrite !map_app. simpl. reflexivity. }
  pose proof (rdo_d_iso_kd K K K K' rho0 eq_refl KD ISO0) as ISO1.
  set (P := rdo_par x) in *. set (g := rdo_in_chain P None) in *.
  assert (GX: g x = true) by (unfold g, P; rewrite <- SUB; apply rdo_e_in_chain_refl).
  assert (GX': g x' = true) by (exact GX).
  assert (GC: g copy = true) by (unfold g, rdo_in_chain; simpl; rewrite rdo_a_par_eqb_refl; auto).
  set (a1 := rdo_chain ka P None). set (a2 := rdo_chain kb P None).
  assert (CHK: rdo_chain K P None = a1 ++ x :: a2).
  { unfold K. rewrite rdo_d_chain_app. unfold rdo_chain at 2. simpl. fold g. rewrite GX. reflexivity. }
  assert (CHK': rdo_chain K' P None = a1 ++ x' :: a2).
  { unfold K'. rewrite rdo_d_chain_app. unfold rdo_chain at 2. simpl. fold g. rewrite GX'. reflexivity. }
  assert (A1: a1 = rdo_e_kill I (filter g a)) by (unfold a1, ka; rewrite rdo_e_kill_chain; reflexivity).
  assert (CHL: rdo_chain (rdo_link K' l copy) P None = a1 ++ copy :: x' :: a2).
  { assert (CC: forall z rest0, g z = true -> rdo_chain (z :: rest0) P None = z :: rdo_chain rest0 P None).
    { intros z rest0 Gz. unfold rdo_chain. simpl. fold g. rewrite Gz. reflexivity. }
    unfold l. destruct (filter g (rev a)) as [|y rest] eqn:F.
    - simpl hd_error. simpl rdo_link. rewrite (CC copy K' GC), CHK'.
      rewrite rdo_e_filter_rev in F. assert (filter g a = []) as FA. { destruct (filter g a); auto. simpl in F. destruct (rev l0); discriminate. }
      rewrite A1, FA. reflexivity.
    - destruct (rdo_e_filter_hd _ _ _ _ _ F) as (m1 & m2 & Er & F1 & F2).
      assert (Ea: a = rev m2 ++ y :: rev m1).
      { rewrite <- (rev_involutive a), Er. rewrite rev_app_distr. simpl. rewrite <- app_assoc. auto. }
      assert (Gy: g y = true). { assert (In y (filter g (rev a))) by (rewrite F; simpl; auto). apply filter_In in H. tauto. }
      set (ky := if rdo_mem (rdo_id y) I then rdo_set_del y else y).
      assert (Eky: rdo_id ky = rdo_id y) by (unfold ky; destruct (rdo_mem (rdo_id y) I); auto).
      assert (Gky: g ky = true). { unfold ky. destruct (rdo_mem (rdo_id y) I); auto. }
      assert (Eka: ka = rdo_e_kill I (rev m2) ++ ky :: rdo_e_kill I (rev m1)).
      { unfold ka. rewrite Ea, rdo_e_kill_app. reflexivity. }
      assert (NIy: ~ In (rdo_id y) (map rdo_id (rdo_e_kill I (rev m2)))).
      { rewrite rdo_e_kill_ids. rewrite ST, Ea, <- app_assoc in ND0. simpl in ND0. apply (rdo_e_nodup_mid _ _ _ ND0). }
      assert (FM1: rdo_chain (rdo_e_kill I (rev m1)) P None = []).
      { rewrite rdo_e_kill_chain. unfold rdo_chain. fold g. rewrite rdo_e_filter_rev, F1. reflexivity. }
      simpl hd_error. simpl rdo_link. unfold K'. rewrite Eka, <- app_assoc. simpl app.
      rewrite (rdo_a_insert_after_app _ ky _ (rdo_id y) copy); auto.
      unfold a1. rewrite Eka. rewrite !rdo_d_chain_app.
      rewrite (CC ky), (CC copy), !rdo_d_chain_app, (CC x'), (CC ky), FM1; auto. fold a2. rewrite <- app_assoc. reflexivity. }
  assert (BREL: rdo_d_brel rho0 P P).
  { unfold P. destruct (rdo_par x) eqn:PX. left; eauto. right. destruct (PAL id eq_refl) as (_ & NIp & pit & kk & Gp & Dp & _).
    exists id, id. split; auto. split; auto. split; auto. exists pit. split; auto.
    rewrite <- EK, rdo_e_get_kill, Gp. simpl. destruct (rdo_a_get_in _ _ _ Gp) as (_ & Ep). rewrite Ep. apply rdo_e_mem_nin in NIp. rewrite NIp. auto. }
  assert (KIDS: forall y, In y K -> rdo_par y = RdoItem i -> rdo_del y = true).
  { intros y Iy Py. rewrite <- EK in Iy. unfold rdo_e_kill in Iy. apply in_map_iff in Iy. destruct Iy as (y0 & Ey & Iy0).
    assert (rdo_del y0 = true) as D0.
    { pose proof (proj1 (rdo_d_cascade_spec st0) (rdo_e_p_casc _ _ _ _ _ PC)) as CP. apply (CP y0 Iy0 i x); auto.
      subst y. destruct (rdo_mem (rdo_id y0) I); auto. }
    subst y. destruct (rdo_mem (rdo_id y0) I); auto. }
  assert (LTK': forall y, In y K' -> rdo_id y < n0 /\ forall p, rdo_par y = RdoItem p -> p < rdo_id y).
  { intros y Iy. assert (exists y0, In y0 st0 /\ rdo_id y = rdo_id y0 /\ rdo_par y = rdo_par y0) as (y0 & I0 & E0 & P0).
    { unfold K' in Iy. apply in_app_or in Iy. destruct Iy as [Iy|[Iy|Iy]].
      - apply rdo_e_in_kill in Iy. destruct Iy as (y0 & I0 & E0). exists y0. split; auto. rewrite ST. apply in_or_app; auto.
      - subst y. exists x. auto.
      - apply rdo_e_in_kill in Iy. destruct Iy as (y0 & I0 & E0). exists y0. split; auto. rewrite ST. apply in_or_app; simpl; auto. }
    destruct (rdo_e_wfp_item _ _ W _ I0) as (L0 & WP0). rewrite E0, P0. split; auto. intros p Pp. apply (WP0 p Pp). }
  assert (GCN: rdo_get K' n0 = None). { apply rdo_e_get_fresh. intros y Iy. destruct (LTK' y Iy). lia. }
  assert (KIDSB: forall y, In y K' -> rdo_par y = RdoItem n0 -> rdo_del y = true).
  { intros y Iy Py. destruct (LTK' y Iy) as (L1 & L2). pose proof (L2 n0 Py). lia. }
  assert (PXO: rdo_par x <> RdoItem i). { intro K0. destruct (PAL i K0). lia. }
  assert (PXC: rdo_par copy <> RdoItem n0). { simpl. intro K0. destruct (PAL n0 K0). lia. }
  assert (CHKs: rdo_chain K (rdo_par x) (rdo_sub x) = a1 ++ x :: a2) by (rewrite SUB; exact CHK).
  pose proof (rdo_d_iso_add K K' rho0 i n0 x copy l a1 a2 a1 (x' :: a2) NBK (rdo_d_fun_id _) (rdo_d_inj_id _) ISO1 GK Dx KIDS GCN
                eq_refl eq_refl eq_refl (eq_sym SUB) KIDSB PXO PXC BREL CHKs CHK' CHL eq_refl) as ISO.
  (* the second re-creation *)
  set (B1 := rdo_link K' l copy) in *.
  assert (ST2: rdo_e_kill I (rdo_st t2') = rdo_link (rdo_update B1 c (fun y => rdo_set_red y (rdo_next t1))) None copyc).
  { unfold t2'. cbn [rdo_st]. rewrite rdo_e_kill_link, rdo_e_kill_update_red, ST1, rdo_e_kill_link, EK'. reflexivity.
    simpl. apply rdo_e_mem_nin; auto. simpl. apply rdo_e_mem_nin. rewrite NX1. intro K0. destruct (IP _ K0) as (_ & _ & L0). lia. }
  set (B1' := rdo_update B1 c (fun y => rdo_set_red y (rdo_next t1))) in *.
  set (AA1 := rdo_update K i rdo_set_live) in *.
  set (rho1 := fun a0 b0 : N => rho0 a0 b0 \/ a0 = i /\ b0 = n0) in *.
  assert (KD1: map rdo_d_kd B1 = map rdo_d_kd B1'). { unfold B1'. symmetry. apply rdo_d_kd_update. intros y. apply rdo_d_kd_set_red. }
  pose proof (rdo_d_iso_kd AA1 AA1 B1 B1' rho1 eq_refl KD1 ISO) as ISOa.
  assert (NBA1: rdo_i_nodup (map rdo_id AA1) = true). { apply rdo_d_nodup_spec. unfold AA1. rewrite rdo_a_ids_update; auto. rewrite IDSK; auto. }
  assert (FUN1: rdo_d_fun rho1). { apply rdo_d_fun_add. apply rdo_d_fun_id. intros b0 (E0 & y & Gy & Dy). rewrite GK in Gy. inversion Gy; subst y. congruence. }
  assert (INJ1: rdo_d_inj rho1). { apply rdo_d_inj_add. apply rdo_d_inj_id. intros a0 (E0 & y & Gy & Dy). subst a0. rewrite <- EK, rdo_e_get_kill in Gy.
    destruct (rdo_get st0 n0) eqn:G0; simpl in Gy; try discriminate. destruct (rdo_a_get_in _ _ _ G0) as (I0 & E0). pose proof (rdo_e_wfp_item _ _ W _ I0). lia. }
  assert (KXc: rdo_mem c I = false) by (apply rdo_e_mem_nin; auto).
  assert (GKc: rdo_get K c = Some xc). { rewrite <- EK, rdo_e_get_kill, Gc. simpl. rewrite Exc, KXc. auto. }
  assert (GA1c: rdo_get AA1 c = Some xc). { unfold AA1. rewrite rdo_a_get_update; auto. assert (c =? i = false) as Q by (apply N.eqb_neq; lia). rewrite Q. auto. }
  assert (EAA: AA1 = ka ++ rdo_set_live x :: kb). { unfold AA1, K. rewrite <- Ex. apply rdo_e_update_app. rewrite Ex; auto. }
  pose proof (proj1 (rdo_d_cascade_spec st0) (rdo_e_p_casc _ _ _ _ _ PC)) as CP.
  assert (INAA: forall y, In y AA1 -> y = rdo_set_live x \/ In y K).
  { intros y Iy. rewrite EAA in Iy. apply in_app_or in Iy. destruct Iy as [Iy|[Iy|Iy]]; auto; right; unfold K; apply in_or_app; simpl; auto. }
  assert (KIDSG: forall q xq, rdo_get st0 q = Some xq -> rdo_del xq = true -> forall y, In y K -> rdo_par y = RdoItem q -> rdo_del y = true).
  { intros q xq Gq0 Dq0 y Iy Py. rewrite <- EK in Iy. unfold rdo_e_kill in Iy. apply in_map_iff in Iy. destruct Iy as (y0 & Ey & Iy0).
    assert (rdo_del y0 = true) as D0. { apply (CP y0 Iy0 q xq); auto. subst y. destruct (rdo_mem (rdo_id y0) I); auto. }
    subst y. destruct (rdo_mem (rdo_id y0) I); auto. }
  assert (KIDSc: forall y, In y AA1 -> rdo_par y = RdoItem c -> rdo_del y = true).
  { intros y Iy Py. destruct (INAA y Iy) as [E0|Iy0]. subst y. simpl in Py. destruct (PAL c Py). lia. apply (KIDSG c xc); auto. }
  assert (NOPB: forall y, In y B1' -> forall p, rdo_par y = RdoItem p -> p < n0).
  { intros y Iy p Py. unfold B1' in Iy. apply rdo_a_in_update_red in Iy. destruct Iy as (y1 & I1 & P1 & E1'). rewrite P1 in Py.
    unfold B1 in I1. apply rdo_a_link_in in I1. destruct I1 as [E0|I1].
    - subst y1. simpl in Py. destruct (PAL p Py). lia.
    - destruct (LTK' y1 I1) as (L1 & L2). pose proof (L2 p Py). lia. }
  assert (IDB: forall y, In y B1' -> rdo_id y <= n0).
  { intros y Iy. unfold B1' in Iy. apply rdo_a_in_update_red in Iy. destruct Iy as (y1 & I1 & P1 & E1'). rewrite E1'.
    unfold B1 in I1. apply rdo_a_link_in in I1. destruct I1 as [E0|I1]. subst y1. simpl. lia. destruct (LTK' y1 I1). lia. }
  assert (GCN2: rdo_get B1' (rdo_next t1) = None). { apply rdo_e_get_fresh. intros y Iy. pose proof (IDB y Iy). lia. }
  assert (KIDSB2: forall y, In y B1' -> rdo_par y = RdoItem (rdo_next t1) -> rdo_del y = true).
  { intros y Iy Py. pose proof (NOPB y Iy _ Py). lia. }
  assert (PXO2: rdo_par xc <> RdoItem c). { rewrite Pc. intro K0. inversion K0. lia. }
  assert (PXC2: rdo_par copyc <> RdoItem (rdo_next t1)). { simpl. intro K0. inversion K0. lia. }
  assert (BREL2: rdo_d_brel rho1 (rdo_par xc) (rdo_par copyc)).
  { rewrite Pc. simpl. right. exists i, n0. split; auto. split; auto. right. auto. }
  assert (CHA: exists a1c a2c, rdo_chain AA1 (rdo_par xc) (rdo_sub xc) = a1c ++ xc :: a2c).
  { apply in_split. apply rdo_a_in_chain; auto. apply (rdo_a_get_in _ _ _ GA1c). }
  destruct CHA as (a1c & a2c & CHA).
  assert (CHB: forall S, rdo_chain B1' (RdoItem n0) S = []).
  { intros S. destruct (rdo_chain B1' (RdoItem n0) S) as [|y rest] eqn:CE; auto. exfalso.
    assert (In y (rdo_chain B1' (RdoItem n0) S)) as K0 by (rewrite CE; simpl; auto). apply rdo_a_chain_in in K0. destruct K0 as (Iy & Py & _).
    pose proof (NOPB y Iy _ Py). lia. }
  assert (CHB1: rdo_chain B1' (rdo_par copyc) (rdo_sub copyc) = [] ++ []) by (simpl; apply CHB).
  assert (CHB2: rdo_chain (rdo_link B1' None copyc) (rdo_par copyc) (rdo_sub copyc) = [] ++ copyc :: []).
  { simpl rdo_link. simpl rdo_par. simpl rdo_sub. unfold rdo_chain. simpl filter. unfold rdo_in_chain at 1. simpl. rewrite N.eqb_refl, rdo_a_on_eqb_refl. simpl.
    fold (rdo_chain B1' (RdoItem n0) (rdo_sub xc)). rewrite CHB. reflexivity. }
  assert (LEN2: length (rdo_live a1c) = length (rdo_live (@nil rdo_item))).
  { rewrite rdo_d_live_nil. reflexivity. intros y Iy. assert (In y (rdo_chain AA1 (rdo_par xc) (rdo_sub xc))) as K0 by (rewrite CHA; apply in_or_app; auto).
    apply rdo_a_chain_in in K0. destruct K0 as (IyA & Py & _). rewrite Pc in Py. destruct (INAA y IyA) as [E0|Iy0].
    - subst y. simpl in Py. destruct (PAL i Py). lia.
    - apply (KIDS y); auto. }
  pose proof (rdo_d_iso_add AA1 B1' rho1 c (rdo_next t1) xc copyc None a1c a2c [] [] NBA1 FUN1 INJ1 ISOa GA1c Dxc KIDSc GCN2
                eq_refl eq_refl eq_refl eq_refl KIDSB2 PXO2 PXC2 BREL2 CHA CHB1 CHB2 LEN2) as ISO2.
  (* the third re-creation *)
  set (B2 := rdo_link B1' None copyc) in *.
  set (copyc2 := rdo_e_newk (rdo_next t2') (RdoItem n0) itemc2 None ro) in *.
  assert (ST3': rdo_st t3' = rdo_link (rdo_update (rdo_st t2') c2 (fun y => rdo_set_red y (rdo_next t2'))) None copyc2) by reflexivity.
  assert (ST3: rdo_st t2 = rdo_link (rdo_update B2 c2 (fun y => rdo_set_red y (rdo_next t2'))) None copyc2).
  { rewrite STF, ST3', rdo_e_kill_link, rdo_e_kill_update_red, ST2. reflexivity.
    change (rdo_mem (rdo_next t2') I = false). apply rdo_e_mem_nin. rewrite NX2. intro K0. destruct (IP _ K0) as (_ & _ & L0). lia. }
  set (B2' := rdo_update B2 c2 (fun y => rdo_set_red y (rdo_next t2'))) in *.
  set (AA2 := rdo_update AA1 c rdo_set_live) in *.
  set (rho2 := fun a0 b0 : N => rho1 a0 b0 \/ a0 = c /\ b0 = rdo_next t1) in *.
  assert (KD2: map rdo_d_kd B2 = map rdo_d_kd B2'). { unfold B2'. symmetry. apply rdo_d_kd_update. intros y. apply rdo_d_kd_set_red. }
  pose proof (rdo_d_iso_kd AA2 AA2 B2 B2' rho2 eq_refl KD2 ISO2) as ISOb.
  assert (NDA1: NoDup (map rdo_id AA1)) by (apply rdo_d_nodup_spec; auto).
  assert (NBA2: rdo_i_nodup (map rdo_id AA2) = true). { apply rdo_d_nodup_spec. unfold AA2. rewrite rdo_a_ids_update; auto. }
  assert (FUN2: rdo_d_fun rho2).
  { apply rdo_d_fun_add; auto. intros b0 [(E0 & y & Gy & Dy)|(E0 & _)]. rewrite GKc in Gy. inversion Gy; subst y. congruence. lia. }
  assert (INJ2: rdo_d_inj rho2).
  { apply rdo_d_inj_add; auto. intros a0 [(E0 & y & Gy & Dy)|(_ & E0)].
    - subst a0. rewrite <- EK, rdo_e_get_kill in Gy. destruct (rdo_get st0 (rdo_next t1)) eqn:G0; simpl in Gy; try discriminate.
      destruct (rdo_a_get_in _ _ _ G0) as (I0 & E0). pose proof (rdo_e_wfp_item _ _ W _ I0). lia.
    - lia. }
  assert (KXc2: rdo_mem c2 I = false) by (apply rdo_e_mem_nin; auto).
  assert (GKc2: rdo_get K c2 = Some xc2). { rewrite <- EK, rdo_e_get_kill, Gc2. simpl. rewrite Exc2, KXc2. auto. }
  assert (GA2c2: rdo_get AA2 c2 = Some xc2).
  { unfold AA2. rewrite rdo_a_get_update; auto. assert (c2 =? c = false) as Q by (apply N.eqb_neq; auto). rewrite Q.
    unfold AA1. rewrite rdo_a_get_update; auto. assert (c2 =? i = false) as Q2 by (apply N.eqb_neq; lia). rewrite Q2. auto. }
  assert (INAA2: forall y, In y AA2 -> y = rdo_set_live xc \/ In y AA1).
  { intros y Iy. unfold AA2 in Iy. apply rdo_a_in_update in Iy. destruct Iy as [Iy|(x1 & I1 & E1' & E2')]; auto. left. subst y. f_equal.
    pose proof (rdo_a_in_get AA1 x1 NDA1 I1) as Gy. rewrite E1', GA1c in Gy. congruence. }
  assert (KIDSc2: forall y, In y AA2 -> rdo_par y = RdoItem c2 -> rdo_del y = true).
  { intros y Iy Py. destruct (INAA2 y Iy) as [E0|Iy1]. subst y. simpl in Py. rewrite Pc in Py. inversion Py. lia.
    destruct (INAA y Iy1) as [E0|Iy0]. subst y. simpl in Py. destruct (PAL c2 Py). lia. apply (KIDSG c2 xc2); auto. }
  assert (EB2': B2' = copyc :: rdo_update B1' c2 (fun y => rdo_set_red y (rdo_next t2'))).
  { unfold B2', B2. simpl rdo_link. simpl rdo_update. assert (rdo_next t1 =? c2 = false) as Q by (apply N.eqb_neq; lia). rewrite Q. reflexivity. }
  assert (INB2': forall y, In y B2' -> y = copyc \/ exists y1, In y1 B1' /\ rdo_par y = rdo_par y1 /\ rdo_id y = rdo_id y1).
  { intros y Iy. rewrite EB2' in Iy. destruct Iy as [E0|Iy]; auto. right. apply rdo_a_in_update_red in Iy. destruct Iy as (y1 & I1 & P1 & E1'). eauto. }
  assert (IDB2: forall y, In y B2' -> rdo_id y <= n0 + 1).
  { intros y Iy. destruct (INB2' y Iy) as [E0|(y1 & I1 & P1 & E1')]. subst y. simpl. lia. rewrite E1'. pose proof (IDB y1 I1). lia. }
  assert (NOPB2: forall y, In y B2' -> forall p, rdo_par y = RdoItem p -> p <= n0).
  { intros y Iy p Py. destruct (INB2' y Iy) as [E0|(y1 & I1 & P1 & E1')]. subst y. simpl in Py. inversion Py. lia. rewrite P1 in Py. pose proof (NOPB y1 I1 p Py). lia. }
  assert (GCN3: rdo_get B2' (rdo_next t2') = None). { apply rdo_e_get_fresh. intros y Iy. pose proof (IDB2 y Iy). lia. }
  assert (KIDSB3: forall y, In y B2' -> rdo_par y = RdoItem (rdo_next t2') -> rdo_del y = true).
  { intros y Iy Py. pose proof (NOPB2 y Iy _ Py). lia. }
  assert (PXO3: rdo_par xc2 <> RdoItem c2). { rewrite Pc2. intro K0. inversion K0. lia. }
  assert (PXC3: rdo_par copyc2 <> RdoItem (rdo_next t2')). { simpl. intro K0. inversion K0. lia. }
  assert (BREL3: rdo_d_brel rho2 (rdo_par xc2) (rdo_par copyc2)).
  { rewrite Pc2. simpl. right. exists i, n0. split; auto. split; auto. left. right. auto. }
  assert (CHA3: exists a1d a2d, rdo_chain AA2 (rdo_par xc2) (rdo_sub xc2) = a1d ++ xc2 :: a2d).
  { apply in_split. apply rdo_a_in_chain; auto. apply (rdo_a_get_in _ _ _ GA2c2). }
  destruct CHA3 as (a1d & a2d & CHA3).
  assert (CHU2: forall S, rdo_chain (rdo_update B1' c2 (fun y => rdo_set_red y (rdo_next t2'))) (RdoItem n0) S = []).
  { intros S. destruct (rdo_chain (rdo_update B1' c2 (fun y => rdo_set_red y (rdo_next t2'))) (RdoItem n0) S) as [|y rest] eqn:CE; auto. exfalso.
    assert (In y (rdo_chain (rdo_update B1' c2 (fun y => rdo_set_red y (rdo_next t2'))) (RdoItem n0) S)) as K0 by (rewrite CE; simpl; auto).
    apply rdo_a_chain_in in K0. destruct K0 as (Iy & Py & _). apply rdo_a_in_update_red in Iy. destruct Iy as (y1 & I1 & P1 & E1'). rewrite P1 in Py.
    pose proof (NOPB y1 I1 _ Py). lia. }
  assert (GCC: rdo_in_chain (RdoItem n0) None copyc = true). { unfold rdo_in_chain. simpl. rewrite N.eqb_refl, SUBc0. reflexivity. }
  assert (CHB3: rdo_chain B2' (RdoItem n0) None = [copyc]).
  { rewrite EB2', rdo_d_chain_cons, GCC, CHU2. reflexivity. }
  assert (CHB3a: rdo_chain B2' (rdo_par copyc2) (rdo_sub copyc2) = [] ++ [copyc]).
  { change (rdo_par copyc2) with (RdoItem n0). change (rdo_sub copyc2) with (rdo_sub xc2). rewrite SUBc2. exact CHB3. }
  assert (CHB3b: rdo_chain (rdo_link B2' None copyc2) (rdo_par copyc2) (rdo_sub copyc2) = [] ++ copyc2 :: [copyc]).
  { change (rdo_par copyc2) with (RdoItem n0). change (rdo_sub copyc2) with (rdo_sub xc2). rewrite SUBc2.
    change (rdo_link B2' None copyc2) with (copyc2 :: B2'). rewrite rdo_d_chain_cons.
    assert (rdo_in_chain (RdoItem n0) None copyc2 = true) as GC2. { unfold rdo_in_chain. change (rdo_par copyc2) with (RdoItem n0). change (rdo_sub copyc2) with (rdo_sub xc2). rewrite SUBc2. simpl. rewrite N.eqb_refl. reflexivity. }
    rewrite GC2, CHB3. reflexivity. }
  assert (IDCH: map rdo_id (rdo_chain AA2 (RdoItem i) None) = map rdo_id (rdo_chain st0 (RdoItem i) None)).
  { assert (R1: Forall2 rdo_a_R0 AA1 AA2). { apply rdo_a_update_R0. intros y; unfold rdo_a_R0; simpl; auto. }
    assert (R2: Forall2 rdo_a_R0 K AA1). { apply rdo_a_update_R0. intros y; unfold rdo_a_R0; simpl; auto. }
    rewrite (rdo_a_chain_ids_R0 _ _ R1), (rdo_a_chain_ids_R0 _ _ R2). rewrite <- EK, rdo_e_kill_chain, rdo_e_kill_ids. reflexivity. }
  assert (LEN3: length (rdo_live a1d) = length (rdo_live (@nil rdo_item))).
  { rewrite rdo_d_live_nil. reflexivity. intros y Iy.
    assert (In y (rdo_chain AA2 (rdo_par xc2) (rdo_sub xc2))) as K0 by (rewrite CHA3; apply in_or_app; auto).
    apply rdo_a_chain_in in K0. destruct K0 as (IyA & Py & _). rewrite Pc2 in Py.
    destruct (INAA2 y IyA) as [E0|Iy1].
    - exfalso. subst y.
      destruct (rdo_e_get_split _ _ _ Gc2) as (a0 & b0 & E0 & NIa0 & _).
      assert (NIa0': ~ In (rdo_id xc2) (map rdo_id a0)) by (rewrite Exc2; auto).
      destruct (rdo_e_lr_app a0 xc2 b0 NIa0') as (_ & RT0). rewrite <- E0, Exc2, Pc2, SUBc2 in RT0.
      assert (CH0: rdo_chain st0 (RdoItem i) None = rdo_chain a0 (RdoItem i) None ++ xc2 :: rdo_chain b0 (RdoItem i) None).
      { rewrite E0, rdo_d_chain_app. unfold rdo_chain at 2. simpl. unfold rdo_in_chain at 1. rewrite Pc2, SUBc2. simpl. rewrite N.eqb_refl. reflexivity. }
      rewrite Pc2, SUBc2 in CHA3. rewrite CHA3, CH0, !map_app in IDCH. simpl in IDCH. rewrite Exc2 in IDCH.
      assert (NDC: NoDup (map rdo_id (rdo_chain a0 (RdoItem i) None) ++ c2 :: map rdo_id (rdo_chain b0 (RdoItem i) None))).
      { assert (NoDup (map rdo_id (rdo_chain st0 (RdoItem i) None))) as Q. { apply rdo_d_nodup_spec. unfold rdo_chain. apply rdo_d_nodup_filter. apply rdo_d_nodup_spec; auto. }
        rewrite CH0, map_app in Q. simpl in Q. rewrite Exc2 in Q. exact Q. }
      destruct (rdo_d2_split_uniq _ _ _ _ _ NDC (eq_sym IDCH)) as (EA & _).
      assert (In c (map rdo_id a1d)) as CA1. { apply in_map_iff. exists (rdo_set_live xc). split; auto. }
      rewrite <- EA in CA1. apply in_map_iff in CA1. destruct CA1 as (z1 & Ez1 & Iz1). apply rdo_a_chain_in in Iz1. destruct Iz1 as (Iz1 & _).
      pose proof RIGHT as RG. rewrite RT0 in RG. apply in_map_iff in RG. destruct RG as (z0 & Ez0 & Iz0). apply filter_In in Iz0. destruct Iz0 as (Iz0 & _).
      pose proof ND0 as NDD. rewrite E0, map_app in NDD. simpl in NDD. destruct (rdo_e_nodup_app_l _ _ NDD) as (_ & _ & DJ).
      apply (DJ c). rewrite <- Ez1. apply in_map; auto. right. rewrite <- Ez0. apply in_map; auto.
    - destruct (INAA y Iy1) as [E0|Iy0]. subst y. simpl in Py. destruct (PAL i Py). lia. apply (KIDS y); auto. }
  pose proof (rdo_d_iso_add AA2 B2' rho2 c2 (rdo_next t2') xc2 copyc2 None a1d a2d [] [copyc] NBA2 FUN2 INJ2 ISOb GA2c2 Dxc2 KIDSc2 GCN3
                eq_refl eq_refl eq_refl eq_refl KIDSB3 PXO3 PXC3 BREL3 CHA3 CHB3a CHB3b LEN3) as ISO3.
  eexists. rewrite (rdo_m2_flip_triple st0 I D i c c2 ND0 HR), EK, ST3. exact ISO3. lia. lia. auto.
Qed.
Print Assumptions rdo_m2_triple_iso.

Lemma rdo_m2_triple_iso_map : forall s e s1 s2 i x k c xc c2 xc2,
  rdo_i_pc (rdo_doc s) (rdo_clock s) (rdo_scope s) (rdo_sins e) (rdo_sdel e) = true ->
  rdo_i_redo (rdo_doc s) (rdo_sins e) (rdo_sdel e) = [i; c; c2] -> rdo_get (rdo_doc s) i = Some x -> rdo_sub x = Some k ->
  rdo_get (rdo_doc s) c = Some xc -> rdo_par xc = RdoItem i -> rdo_sub xc = None ->
  rdo_get (rdo_doc s) c2 = Some xc2 -> rdo_par xc2 = RdoItem i -> rdo_sub xc2 = None -> c <> c2 -> In c (rdo_rights (rdo_doc s) c2) ->
  exists t ch, rdo_process s e s1 s2 = RdoOk (t, ch) /\
    exists rho, rdo_d_iso (rdo_i_flip (rdo_doc s) (rdo_sins e) (rdo_sdel e)) (rdo_st t) rho.
Proof. intros s e s1 s2 i x k c xc c2 xc2 PC0 HR G SUB Gc Pc SUBc0 Gc2 Pc2 SUBc2 NE12 RIGHT. pose proof (rdo_e_pc_unpack _ _ _ _ _ PC0) as PC.
  set (st0 := rdo_doc s) in *. set (I := rdo_sins e) in *. set (D := rdo_sdel e) in *. set (n0 := rdo_clock s) in *.
  pose proof (rdo_e_p_wf _ _ _ _ _ PC) as W. pose proof (rdo_e_wfp_nodup _ _ W) as ND0.
  assert (NB0: rdo_i_nodup (map rdo_id st0) = true) by (apply rdo_d_nodup_spec; auto).
  assert (IR: In i (rdo_i_redo st0 I D)) by (rewrite HR; simpl; auto).
  destruct (rdo_e_redo_in _ _ _ _ IR) as (ID & NI & _).
  destruct (rdo_a_get_in _ _ _ G) as (Ix & Ex). destruct (rdo_e_wfp_item _ _ W _ Ix) as (LI & WP). rewrite Ex in LI.
  destruct (rdo_e_p_c3 _ _ _ _ _ PC x Ix) as (Dx & Rx & Px). rewrite Ex; auto.
  assert (IP: forall j, In j I -> exists y, rdo_get st0 j = Some y /\ j < n0).
  { intros j Ij. destruct (rdo_e_p_I _ _ _ _ _ PC _ Ij) as (y & Gy & _). exists y. split; auto.
    destruct (rdo_a_get_in _ _ _ Gy) as (Iy & Ey). rewrite <- Ey. apply (rdo_e_wfp_item _ _ W _ Iy). }
  destruct (rdo_a_get_in _ _ _ Gc) as (Ixc & Exc). destruct (rdo_e_wfp_item _ _ W _ Ixc) as (LC & WPc). rewrite Exc in LC.
  destruct (WPc i Pc) as (Lic & xp' & kc & Gxp' & Cx). rewrite Exc in Lic. rewrite G in Gxp'. inversion Gxp'; subst xp'. clear Gxp'.
  assert (IRc: In c (rdo_i_redo st0 I D)) by (rewrite HR; simpl; auto).
  destruct (rdo_e_redo_in _ _ _ _ IRc) as (IDc & NIc & _).
  destruct (rdo_e_p_c3 _ _ _ _ _ PC xc Ixc) as (Dxc & Rxc & _). rewrite Exc; auto.
  destruct (rdo_a_get_in _ _ _ Gc2) as (Ixc2 & Exc2). destruct (rdo_e_wfp_item _ _ W _ Ixc2) as (LC2 & WPc2). rewrite Exc2 in LC2.
  destruct (WPc2 i Pc2) as (Lic2 & _). rewrite Exc2 in Lic2.
  assert (IRc2: In c2 (rdo_i_redo st0 I D)) by (rewrite HR; simpl; auto).
  destruct (rdo_e_redo_in _ _ _ _ IRc2) as (IDc2 & NIc2 & _).
  destruct (rdo_e_p_c3 _ _ _ _ _ PC xc2 Ixc2) as (Dxc2 & Rxc2 & _). rewrite Exc2; auto.
  assert (PAL: forall p, rdo_par x = RdoItem p -> p < i /\ ~ In p I /\ exists pit kk, rdo_get st0 p = Some pit /\ rdo_del pit = false /\ rdo_cnt pit = RdoType kk).
  { intros p Pp. destruct (WP p Pp) as (Lp & y & k0 & Gy & Cy). rewrite Ex in Lp. split; auto. rewrite Pp in Px.
    destruct Px as [(A & B)|K]. 2: { rewrite HR in K. destruct K as [K|[K|[K|[]]]]; lia. }
    split; auto. apply rdo_e_isdel_live in A. destruct A as (pit & Gp & Dp). rewrite Gp in Gy. inversion Gy; subst y. eauto. }
  assert (NIn0: ~ In n0 I). { intro K. destruct (IP _ K) as (_ & _ & L). lia. }
  assert (C4: forall j, In j (rdo_rights st0 i) -> In j I /\ exists y, rdo_get st0 j = Some y /\ rdo_red y = None).
  { intros j Ij. rewrite <- Ex in Ij. destruct (rdo_e_p_c4 _ _ _ _ _ PC x Ix) with (j := j) as (A & _ & B); auto. rewrite Ex; auto. congruence. }
  destruct (rdo_e_get_split _ _ _ G) as (a & b & ST & NIa & _).
  rewrite (rdo_e_process_eq s e s1 s2 (rdo_e_liveI st0 I)).
  2: { rewrite (rdo_e_td st0 (rdo_scope s) I); auto; apply PC. }
  2: apply PC.
  cbv zeta. fold st0 I D. rewrite HR. cbn [fold_left]. unfold rdo_e_fredo. cbn [rdo_bind].
  assert (V0: rdo_e_inv st0 n0 [] [] (rdo_begin s)).
  { apply rdo_e_inv_init; auto. intros y Iy. apply (rdo_e_wfp_item _ _ W _ Iy). }
  destruct (rdo_e_step_mapA_x st0 n0 I [] [] (rdo_begin s) i x k (length (rdo_st (rdo_begin s))) [i; c; c2] s1 s2 V0 W (rdo_e_p_c2 _ _ _ _ _ PC))
    as (t1 & d & E1 & V1 & NDd & DL & STX).
  { intros p Pp. destruct (PAL p Pp) as (Lp & NIp & _). split; auto. simpl. intros [K|[]]. lia. }
  { intros j xj []. }
  { eapply rdo_e_wfp_parlt; eauto. }
  { apply (rdo_e_p_c2 _ _ _ _ _ PC). }
  { intros j xj []. }
  { exact G. }
  { exact Rx. }
  { exact Dx. }
  { exact SUB. }
  { intros []. }
  { destruct (rdo_par x) eqn:P; auto. destruct (PAL id eq_refl) as (_ & _ & pit & kk & Gp & Dp & Cp). exists pit, kk. auto. }
  { intros j Ij. destruct (C4 j Ij) as (A & B). split; auto. }
  { intros j xj []. }
  { intros j []. }
  { intros j Ij. destruct (IP j Ij) as (y & Gy & _). eauto. }
  simpl app in V1. rewrite E1. cbn [rdo_bind].
  (* second step: the child, below the copy n0 of its parent *)
  assert (CPI: rdo_e_cp n0 [i] i = n0). { unfold rdo_e_cp. simpl. rewrite N.eqb_refl. lia. }
  assert (NX1: rdo_next t1 = n0 + 1). { rewrite (rdo_e_v_next _ _ _ _ _ V1). simpl. lia. }
  pose proof (rdo_e_inv_get_old _ _ _ _ _ c V1 LC) as Gc1. rewrite Gc in Gc1. simpl in Gc1. set (itemc := rdo_e_oldk n0 [i] d xc) in *.
  assert (REDc: rdo_red itemc = None). { simpl. rewrite Exc. assert (c =? i = false) as Q by (apply N.eqb_neq; lia). rewrite Q. simpl. auto. }
  pose proof (rdo_e_inv_get_old _ _ _ _ _ i V1 LI) as Gp1. rewrite G in Gp1. simpl in Gp1. set (pit1 := rdo_e_oldk n0 [i] d x) in *.
  assert (Rp1: rdo_red pit1 = Some n0). { simpl. rewrite Ex, N.eqb_refl. simpl. rewrite CPI. auto. }
  assert (Dp1: rdo_del pit1 = true). { simpl. rewrite Dx. auto. }
  destruct (rdo_e_v_new _ _ _ _ _ V1 i (or_introl eq_refl)) as (x2 & lq & rq & G2 & Gq). rewrite G in G2. inversion G2; subst x2. clear G2. rewrite CPI in Gq.
  set (yq := rdo_e_newk n0 (rdo_e_mpar n0 [i] (rdo_par x)) x lq rq) in *.
  rewrite (rdo_e_redo_B (length (rdo_st t1)) t1 c itemc i pit1 n0 yq kc [i; c; c2] I s1 s2 Gc1 REDc Pc Gp1 Dp1 Rp1 Gq eq_refl Cx).
  assert (NOPAR: forall y, In y (rdo_st t1) -> rdo_par y <> RdoItem n0).
  { intros y Iy K0. destruct (rdo_e_inv_item _ _ _ _ _ _ V1 Iy) as [(y0 & I0 & E0)|(j & y0 & l0 & r0 & Ij & Gj & E0)]; subst y; simpl in K0.
    - destruct (rdo_e_wfp_item _ _ W _ I0) as (L0 & WP0). destruct (WP0 _ K0). lia.
    - destruct Ij as [Ej|[]]. subst j. rewrite G in Gj. inversion Gj; subst y0. unfold rdo_e_mpar in K0. destruct (rdo_par x) eqn:PX; try discriminate.
      destruct (PAL id eq_refl) as (Lp & _). assert (rdo_mem id [i] = false) as Q by (simpl; rewrite orb_false_r; apply N.eqb_neq; lia).
      rewrite Q in K0. inversion K0. lia. }
  assert (CHq: forall S, rdo_chain (rdo_st t1) (RdoItem n0) S = []).
  { intros S. destruct (rdo_chain (rdo_st t1) (RdoItem n0) S) as [|y rest] eqn:CE; auto. exfalso.
    assert (In y (rdo_chain (rdo_st t1) (RdoItem n0) S)) as K0 by (rewrite CE; simpl; auto). apply rdo_a_chain_in in K0. destruct K0 as (Iy & Py & _).
    apply (NOPAR y Iy Py). }
  assert (LT1: forall y, In y (rdo_st t1) -> rdo_id y < rdo_next t1) by (intros; eapply rdo_e_inv_fresh; eauto).
  assert (TAILEQ: rdo_a_tail t1 itemc c (Some n0) (RdoItem i) (RdoItem n0) I s1 s2 =
            RdoOk ({| rdo_st := rdo_link (rdo_update (rdo_st t1) c (fun y => rdo_set_red y (rdo_next t1))) None
                                  (rdo_e_newk (rdo_next t1) (RdoItem n0) itemc None None);
                      rdo_next := rdo_next t1 + 1; rdo_tins := rdo_tins t1 ++ [rdo_next t1]; rdo_tdel := rdo_tdel t1 |}, Some (rdo_next t1))).
  { destruct (rdo_sub xc) as [kx|] eqn:SUBc.
    { apply (rdo_e_tail_mapB t1 itemc c i n0 kx I s1 s2 yq Gc1 SUBc); auto. lia. }
  assert (SIB: forall l0, In l0 (rdo_lefts (rdo_st t1) c ++ c :: rdo_rights (rdo_st t1) c) -> rdo_e_sibB (rdo_st t1) n0 l0).
  { destruct (rdo_e_get_split _ _ _ Gc1) as (a1' & b1' & ST1' & NIa1 & Ei1).
    assert (NIa1': ~ In (rdo_id itemc) (map rdo_id a1')) by (rewrite Ei1; auto).
    destruct (rdo_e_lr_app a1' itemc b1' NIa1') as (LF & RT). rewrite <- ST1', Ei1 in LF, RT.
    assert (SIBY: forall y, In y (rdo_st t1) -> rdo_in_chain (rdo_par itemc) (rdo_sub itemc) y = true -> rdo_e_sibB (rdo_st t1) n0 (rdo_id y)).
    { intros y Iy Gy. apply rdo_e_in_chain_eq in Gy. destruct Gy as (Py & Sy). simpl in Py, Sy. rewrite Pc in Py.
      exists y. split. apply rdo_a_in_get; auto. apply V1. split. rewrite Py. simpl. intro K0. inversion K0. lia.
      left. destruct (rdo_e_inv_item _ _ _ _ _ _ V1 Iy) as [(y0 & I0 & E0)|(j & y0 & l1 & r1 & Ij & Gj & E0)]; subst y; simpl in *.
      - rewrite (rdo_e_p_c5 _ _ _ _ _ PC y0 i I0 Py IR). destruct (rdo_id y0 =? i) eqn:Q; auto. simpl.
        exfalso. apply N.eqb_eq in Q. destruct (rdo_e_wfp_item _ _ W _ I0) as (_ & WP0). destruct (WP0 i Py). lia.
      - auto. }
    intros l0 Il. apply in_app_or in Il. destruct Il as [Il|[Il|Il]].
    - rewrite LF in Il. apply in_map_iff in Il. destruct Il as (y & Ey & Iy). apply filter_In in Iy. destruct Iy as (Iy & Gy). apply in_rev in Iy.
      subst l0. apply SIBY; auto. rewrite ST1'. apply in_or_app; auto.
    - subst l0. exists itemc. split; auto. split. change (rdo_par itemc) with (rdo_par xc). rewrite Pc. simpl. intro K0. inversion K0. lia. left; auto.
    - rewrite RT in Il. apply in_map_iff in Il. destruct Il as (y & Ey & Iy). apply filter_In in Iy. destruct Iy as (Iy & Gy).
      subst l0. apply SIBY; auto. rewrite ST1'. apply in_or_app; simpl; auto. }
    apply (rdo_m2_tail_seqB_empty t1 itemc c i n0 I s1 s2 yq Gc1 SUBc LT1 Gq eq_refl (CHq None) SIB). }
  rewrite TAILEQ. cbn [rdo_bind rdo_is_some orb].
  assert (NPI: forall j xj, In j [i] -> rdo_get st0 j = Some xj -> rdo_par xj <> RdoItem c).
  { intros j xj [Ej|[]] Gj K0. subst j. rewrite G in Gj. inversion Gj; subst xj. destruct (PAL c K0). lia. }
  assert (NIc1: ~ In c [i]) by (simpl; intros [K0|[]]; lia).
  pose proof (rdo_e_inv_link st0 n0 [i] d t1 c xc None None None V1 ND0 Gc NIc1 LC NPI) as V2'. simpl app in V2'.
  assert (MP2: rdo_e_mpar n0 [i; c] (rdo_par xc) = RdoItem n0).
  { rewrite Pc. unfold rdo_e_mpar. simpl. rewrite N.eqb_refl. simpl. unfold rdo_e_cp. simpl. rewrite N.eqb_refl. f_equal. lia. }
  rewrite MP2 in V2'.
  match goal with |- context [rdo_redo _ ?T c2 _ _ _ _] => set (t2' := T) in * end.
  assert (V2t: rdo_e_inv st0 n0 [i; c] d t2') by exact V2'.
  assert (CPI2: rdo_e_cp n0 [i; c] i = n0). { unfold rdo_e_cp. simpl. rewrite N.eqb_refl. lia. }
  assert (CPC2: rdo_e_cp n0 [i; c] c = n0 + 1). { unfold rdo_e_cp. simpl. assert (i =? c = false) as Q by (apply N.eqb_neq; lia). rewrite Q, N.eqb_refl. lia. }
  assert (NX2: rdo_next t2' = n0 + 2). { rewrite (rdo_e_v_next _ _ _ _ _ V2t). simpl. lia. }
  pose proof (rdo_e_inv_get_old _ _ _ _ _ c2 V2t LC2) as Gc2t. rewrite Gc2 in Gc2t. cbn [option_map] in Gc2t. set (itemc2 := rdo_e_oldk n0 [i; c] d xc2) in *.
  assert (REDc2: rdo_red itemc2 = None).
  { unfold itemc2. simpl. rewrite Exc2. assert (c2 =? i = false) as Q1 by (apply N.eqb_neq; lia). assert (c2 =? c = false) as Q2 by (apply N.eqb_neq; auto).
    rewrite Q1, Q2. simpl. exact Rxc2. }
  pose proof (rdo_e_inv_get_old _ _ _ _ _ i V2t LI) as Gp2. rewrite G in Gp2. cbn [option_map] in Gp2. set (pit2 := rdo_e_oldk n0 [i; c] d x) in *.
  assert (Rp2: rdo_red pit2 = Some n0). { unfold pit2. simpl. rewrite Ex, N.eqb_refl. simpl. rewrite CPI2. auto. }
  assert (Dp2: rdo_del pit2 = true). { unfold pit2. simpl. rewrite Dx. auto. }
  destruct (rdo_e_v_new _ _ _ _ _ V2t i (or_introl eq_refl)) as (x3 & lq2 & rq2 & G3 & Gq2). rewrite G in G3. inversion G3; subst x3. clear G3. rewrite CPI2 in Gq2.
  set (yq2 := rdo_e_newk n0 (rdo_e_mpar n0 [i; c] (rdo_par x)) x lq2 rq2) in *.
  rewrite (rdo_e_redo_B (length (rdo_st t2')) t2' c2 itemc2 i pit2 n0 yq2 kc [i; c; c2] I s1 s2 Gc2t REDc2 Pc2 Gp2 Dp2 Rp2 Gq2 eq_refl Cx).
  set (copyc := rdo_e_newk (rdo_next t1) (RdoItem n0) itemc None None) in *.
  assert (ST2': rdo_st t2' = copyc :: rdo_update (rdo_st t1) c (fun y => rdo_set_red y (rdo_next t1))) by reflexivity.
  assert (CHU: forall S, rdo_chain (rdo_update (rdo_st t1) c (fun y => rdo_set_red y (rdo_next t1))) (RdoItem n0) S = []).
  { intros S. destruct (rdo_chain (rdo_update (rdo_st t1) c (fun y => rdo_set_red y (rdo_next t1))) (RdoItem n0) S) as [|y rest] eqn:CE; auto. exfalso.
    assert (In y (rdo_chain (rdo_update (rdo_st t1) c (fun y => rdo_set_red y (rdo_next t1))) (RdoItem n0) S)) as K0 by (rewrite CE; simpl; auto).
    apply rdo_a_chain_in in K0. destruct K0 as (Iy & Py & _). apply rdo_a_in_update_red in Iy. destruct Iy as (y1 & I1 & P1 & E1'). rewrite P1 in Py. apply (NOPAR y1 I1 Py). }
  assert (CHz: rdo_chain (rdo_st t2') (RdoItem n0) None = [copyc]).
  { rewrite ST2'. unfold rdo_chain. simpl filter. unfold rdo_in_chain at 1. simpl. rewrite N.eqb_refl, SUBc0. simpl.
    fold (rdo_chain (rdo_update (rdo_st t1) c (fun y => rdo_set_red y (rdo_next t1))) (RdoItem n0) None). rewrite CHU. reflexivity. }
  assert (GZ: rdo_get (rdo_st t2') (n0 + 1) = Some copyc). { rewrite ST2'. simpl. rewrite NX1, N.eqb_refl. reflexivity. }
  pose proof (rdo_e_v_nd _ _ _ _ _ V2t) as NDt2.
  assert (LT2: forall y, In y (rdo_st t2') -> rdo_id y < rdo_next t2') by (intros; eapply rdo_e_inv_fresh; eauto).
  destruct (rdo_e_get_split _ _ _ Gc2t) as (a2' & b2' & ST2s & NIa2 & Ei2).
  assert (NIa2': ~ In (rdo_id itemc2) (map rdo_id a2')) by (rewrite Ei2; auto).
  destruct (rdo_e_lr_app a2' itemc2 b2' NIa2') as (LF2 & RT2). rewrite <- ST2s, Ei2 in LF2, RT2.
  assert (REDY: forall y, In y (rdo_st t2') -> rdo_in_chain (rdo_par itemc2) (rdo_sub itemc2) y = true ->
            rdo_par_item (rdo_par y) <> Some n0 /\ ((rdo_id y <> c /\ rdo_red y = None) \/ (rdo_id y = c /\ rdo_red y = Some (n0 + 1)))).
  { intros y Iy Gy. apply rdo_e_in_chain_eq in Gy. destruct Gy as (Py & Sy). change (rdo_par itemc2) with (rdo_par xc2) in Py. rewrite Pc2 in Py.
    split. rewrite Py. simpl. intro K0. inversion K0. lia.
    destruct (rdo_e_inv_item _ _ _ _ _ _ V2t Iy) as [(y0 & I0 & E0)|(j & y0 & l1 & r1 & Ij & Gj & E0)]; subst y.
    - simpl rdo_par in Py. simpl rdo_id. simpl rdo_red. rewrite (rdo_e_p_c5 _ _ _ _ _ PC y0 i I0 Py IR).
      destruct (rdo_id y0 =? i) eqn:Q1. { exfalso. apply N.eqb_eq in Q1. destruct (rdo_e_wfp_item _ _ W _ I0) as (_ & WP0). destruct (WP0 i Py). lia. }
      destruct (rdo_id y0 =? c) eqn:Q2; simpl.
      + right. apply N.eqb_eq in Q2. split; auto. rewrite Q2, CPC2. reflexivity.
      + left. apply N.eqb_neq in Q2. auto.
    - exfalso. simpl rdo_par in Py. destruct Ij as [Ej|[Ej|[]]]; subst j.
      + rewrite G in Gj. inversion Gj; subst y0. unfold rdo_e_mpar, rdo_e_cp in Py. destruct (rdo_par x) eqn:PX; try discriminate.
        destruct (PAL id eq_refl) as (Lp & _). destruct (rdo_mem id [i; c]); inversion Py; lia.
      + rewrite Gc in Gj. inversion Gj; subst y0. rewrite MP2 in Py. inversion Py. lia. }
  assert (SIBY2: forall y, In y (rdo_st t2') -> rdo_in_chain (rdo_par itemc2) (rdo_sub itemc2) y = true -> rdo_e_sibB (rdo_st t2') n0 (rdo_id y)).
  { intros y Iy Gy. destruct (REDY y Iy Gy) as (NP & [(NE & RN)|(EC & RS)]).
    - exists y. split. apply rdo_a_in_get; auto. split; auto.
    - exists y. split. apply rdo_a_in_get; auto. split; auto. right. exists (n0 + 1), copyc.
      split; [exact RS|split; [exact GZ|split; [reflexivity|exact SUBc0]]]. }
  assert (SIB2: forall l0, In l0 (rdo_lefts (rdo_st t2') c2 ++ c2 :: rdo_rights (rdo_st t2') c2) -> rdo_e_sibB (rdo_st t2') n0 l0).
  { intros l0 Il. apply in_app_or in Il. destruct Il as [Il|[Il|Il]].
    - rewrite LF2 in Il. apply in_map_iff in Il. destruct Il as (y & Ey & Iy). apply filter_In in Iy. destruct Iy as (Iy & Gy). apply in_rev in Iy.
      subst l0. apply SIBY2; auto. rewrite ST2s. apply in_or_app; auto.
    - subst l0. exists itemc2. split; auto. split. change (rdo_par itemc2) with (rdo_par xc2). rewrite Pc2. simpl. intro K0. inversion K0. lia. left; auto.
    - rewrite RT2 in Il. apply in_map_iff in Il. destruct Il as (y & Ey & Iy). apply filter_In in Iy. destruct Iy as (Iy & Gy).
      subst l0. apply SIBY2; auto. rewrite ST2s. apply in_or_app; simpl; auto. }
  assert (NCA: ~ In c (map rdo_id a2')).
  { intro K0. apply in_map_iff in K0. destruct K0 as (y & Ey & Iy).
    pose proof (rdo_e_v_old _ _ _ _ _ V2t) as VO. rewrite ST2s, filter_app in VO. simpl filter in VO.
    assert (OI: rdo_e_isold n0 itemc2 = true) by (unfold rdo_e_isold; simpl; rewrite Exc2; apply N.ltb_lt; auto). rewrite OI in VO.
    symmetry in VO. destruct (rdo_e_map_split _ _ _ _ _ _ _ VO) as (a0 & xz & b0 & E0 & M1 & Fx & M2).
    assert (xz = xc2). { assert (In xz st0) as HI by (rewrite E0; apply in_or_app; simpl; auto). pose proof (rdo_a_in_get _ _ ND0 HI) as Gx'.
      assert (rdo_id xz = c2) as HE. { rewrite <- Ei2, <- Fx. reflexivity. } rewrite HE in Gx'. congruence. }
    subst xz.
    assert (In y (filter (rdo_e_isold n0) a2')) as K1. { apply filter_In. split; auto. unfold rdo_e_isold. rewrite Ey. apply N.ltb_lt; auto. }
    rewrite <- M1 in K1. apply in_map_iff in K1. destruct K1 as (y0 & Ey0 & Iy0).
    assert (In c (map rdo_id a0)) as CA. { rewrite <- Ey, <- Ey0. simpl. apply in_map; auto. }
    assert (NIa0: ~ In (rdo_id xc2) (map rdo_id a0)) by (rewrite E0 in ND0; apply (rdo_e_nodup_mid _ _ _ ND0)).
    destruct (rdo_e_lr_app a0 xc2 b0 NIa0) as (_ & RT0). rewrite <- E0, Exc2 in RT0. pose proof RIGHT as RG. rewrite RT0 in RG.
    apply in_map_iff in RG. destruct RG as (z0 & Ez0 & Iz0). apply filter_In in Iz0. destruct Iz0 as (Iz0 & _).
    pose proof ND0 as NDD. rewrite E0, map_app in NDD. simpl in NDD. destruct (rdo_e_nodup_app_l _ _ NDD) as (_ & _ & DJ).
    apply (DJ c CA). right. rewrite <- Ez0. apply in_map; auto. }
  assert (LNR: forall l0, In l0 (rdo_lefts (rdo_st t2') c2) -> exists y, rdo_get (rdo_st t2') l0 = Some y /\ rdo_red y = None).
  { intros l0 Il. rewrite LF2 in Il. apply in_map_iff in Il. destruct Il as (y & Ey & Iy). apply filter_In in Iy. destruct Iy as (Iy & Gy). apply in_rev in Iy.
    assert (IyT: In y (rdo_st t2')) by (rewrite ST2s; apply in_or_app; auto).
    exists y. subst l0. split. apply rdo_a_in_get; auto. destruct (REDY y IyT Gy) as (_ & [(_ & RN)|(EC & _)]); auto.
    exfalso. apply NCA. rewrite <- EC. apply in_map; auto. }
  assert (NEzc: rdo_id copyc <> c2). { simpl. rewrite NX1. lia. }
  destruct (rdo_m2_tail_seqB_right t2' itemc2 c2 i n0 I s1 s2 yq2 copyc Gc2t SUBc2 NDt2 LT2 Gq2 eq_refl CHz eq_refl eq_refl NEzc SIB2 LNR) as (ro & ET3).
  rewrite ET3. cbn [rdo_bind rdo_is_some orb].
  assert (NPI2: forall j xj, In j [i; c] -> rdo_get st0 j = Some xj -> rdo_par xj <> RdoItem c2).
  { intros j xj [Ej|[Ej|[]]] Gj K0; subst j. rewrite G in Gj. inversion Gj; subst xj. destruct (PAL c2 K0). lia.
    rewrite Gc in Gj. inversion Gj; subst xj. rewrite Pc in K0. inversion K0. lia. }
  assert (NIc2': ~ In c2 [i; c]) by (simpl; intros [K0|[K0|[]]]; [lia|congruence]).
  pose proof (rdo_e_inv_link st0 n0 [i; c] d t2' c2 xc2 None None ro V2t ND0 Gc2 NIc2' LC2 NPI2) as V3'. simpl app in V3'.
  assert (CP3I: rdo_e_cp n0 [i; c; c2] i = n0). { unfold rdo_e_cp. simpl. rewrite N.eqb_refl. lia. }
  assert (CP3C: rdo_e_cp n0 [i; c; c2] c = n0 + 1). { unfold rdo_e_cp. simpl. assert (i =? c = false) as Q by (apply N.eqb_neq; lia). rewrite Q, N.eqb_refl. lia. }
  assert (CP3D: rdo_e_cp n0 [i; c; c2] c2 = n0 + 2).
  { unfold rdo_e_cp. simpl. assert (i =? c2 = false) as Q by (apply N.eqb_neq; lia). assert (c =? c2 = false) as Q2 by (apply N.eqb_neq; auto). rewrite Q, Q2, N.eqb_refl. lia. }
  assert (MPC3: rdo_e_mpar n0 [i; c; c2] (RdoItem i) = RdoItem n0). { unfold rdo_e_mpar. simpl. rewrite N.eqb_refl. simpl. rewrite CP3I. auto. }
  rewrite Pc2, MPC3 in V3'.
  match goal with |- context [fold_left rdo_e_tdfold _ (RdoOk ?T)] => set (t3' := T) in * end.
  destruct (rdo_e_finish st0 n0 (rdo_scope s) I D t3' d PC) as (t2 & dd & E2 & V2 & NDd2 & IFF & FO & STF).
  { rewrite HR. exact V3'. }
  { intros j Ij. destruct (DL j Ij) as (A & B & _). auto. }
  { exact NDd. }
  { rewrite HR. intros j xj q Ij Gj MP. destruct Ij as [Ej|[Ej|[Ej|[]]]]; subst j.
    - rewrite G in Gj. inversion Gj; subst xj. unfold rdo_e_mpar in MP. destruct (rdo_par x) eqn:P; try discriminate. destruct (PAL id eq_refl) as (Lp & NIp & _).
      assert (rdo_mem id [i; c; c2] = false) as M.
      { simpl. assert (id =? i = false) as Q1 by (apply N.eqb_neq; lia). assert (id =? c = false) as Q2 by (apply N.eqb_neq; lia). assert (id =? c2 = false) as Q3 by (apply N.eqb_neq; lia). rewrite Q1, Q2, Q3. auto. }
      rewrite M in MP. inversion MP; subst q. split; auto. rewrite CP3I. lia.
    - rewrite Gc in Gj. inversion Gj; subst xj. rewrite Pc, MPC3 in MP. inversion MP; subst q. split; auto. rewrite CP3C. lia.
    - rewrite Gc2 in Gj. inversion Gj; subst xj. rewrite Pc2, MPC3 in MP. inversion MP; subst q. split; auto. rewrite CP3D. lia. }
  rewrite E2. cbn [rdo_bind]. exists t2. eexists. split. reflexivity.
  change (rdo_st (rdo_begin s)) with st0 in STX. change (rdo_next (rdo_begin s)) with n0 in STX.
  set (lst := last (rdo_rights st0 i) i) in *.
  set (copy := {| rdo_id := n0; rdo_par := rdo_par x; rdo_sub := Some k; rdo_cnt := rdo_cnt x; rdo_del := false; rdo_keep := true;
                  rdo_red := None; rdo_org := Some lst; rdo_rorg := None |}) in *.
  set (x' := rdo_set_red x n0) in *.
  assert (KX: rdo_mem i I = false) by (apply rdo_e_mem_nin; auto).
  set (ka := rdo_e_kill I a). set (kb := rdo_e_kill I b).
  assert (EK: rdo_e_kill I st0 = ka ++ x :: kb). { rewrite ST, rdo_e_kill_app. simpl. rewrite Ex, KX. reflexivity. }
  assert (NIka: ~ In i (map rdo_id ka)) by (unfold ka; rewrite rdo_e_kill_ids; auto).
  set (K := ka ++ x :: kb) in *. set (K' := ka ++ x' :: kb) in *.
  assert (UPK: rdo_update K i (fun y => rdo_set_red y n0) = K'). { unfold K, K', x'. rewrite <- Ex. apply rdo_e_update_app. rewrite Ex; auto. }
  assert (IDSK: map rdo_id K = map rdo_id st0) by (rewrite <- EK; apply rdo_e_kill_ids).
  assert (IDSK': map rdo_id K' = map rdo_id st0). { rewrite <- IDSK. unfold K, K'. rewrite !map_app. reflexivity. }
  assert (NBK: rdo_i_nodup (map rdo_id K) = true) by (apply rdo_d_nodup_spec; rewrite IDSK; auto).
  assert (GK: rdo_get K i = Some x). { unfold K. rewrite <- Ex. apply rdo_e_get_app. rewrite Ex; auto. }
  set (rho0 := fun a0 b0 : N => a0 = b0 /\ exists y, rdo_get K a0 = Some y /\ rdo_del y = false).
  pose proof (rdo_d_iso_id K NBK) as ISO0. fold rho0 in ISO0.
  assert (KD: map rdo_d_kd K = map rdo_d_kd K'). { unfold K, K'. rewrite !map_app. simpl. reflexivity. }
  pose proof (rdo_d_iso_kd K K K K' rho0 eq_refl KD ISO0) as ISO1.
  set (P := rdo_par x) in *. set (g := rdo_in_chain P (Some k)) in *.
  assert (GX: g x = true) by (unfold g, P; rewrite <- SUB; apply rdo_e_in_chain_refl).
  assert (GX': g x' = true) by (exact GX).
  assert (GC: g copy = true) by (unfold g, rdo_in_chain; simpl; rewrite rdo_a_par_eqb_refl, N.eqb_refl; auto).
  set (a1 := rdo_chain ka P (Some k)). set (a2 := rdo_chain kb P (Some k)).
  assert (CHK: rdo_chain K P (Some k) = a1 ++ x :: a2).
  { unfold K. rewrite rdo_d_chain_app. unfold rdo_chain at 2. simpl. fold g. rewrite GX. reflexivity. }
  assert (CHK': rdo_chain K' P (Some k) = a1 ++ x' :: a2).
  { unfold K'. rewrite rdo_d_chain_app. unfold rdo_chain at 2. simpl. fold g. rewrite GX'. reflexivity. }
  destruct (rdo_e_lr_app a x b) as (_ & RT). rewrite Ex; auto. rewrite <- ST, Ex, SUB in RT. fold P g in RT.
  assert (A2: a2 = rdo_e_kill I (filter g b)) by (unfold a2, kb; rewrite rdo_e_kill_chain; reflexivity).
  assert (INB: forall y, In y (filter g b) -> In (rdo_id y) I).
  { intros y Iy. apply (C4 (rdo_id y)). rewrite RT. apply in_map; auto. }
  assert (LA2: rdo_live a2 = []) by (rewrite A2; apply rdo_e_live_kill_nil; auto).
  assert (MG: rdo_map_get K' P k = Some lst).
  { rewrite rdo_a_map_get_ids, CHK', map_app. simpl. rewrite Ex, A2, rdo_e_kill_ids, <- RT. apply rdo_e_hd_rev_last. }
  assert (LASTK: rdo_a_last K' P k lst). { apply rdo_a_map_get_last; auto. rewrite IDSK'; auto. }
  assert (CHL: rdo_chain (rdo_link K' (Some lst) copy) P (Some k) = (a1 ++ x' :: a2) ++ copy :: []).
  { simpl rdo_link. rewrite (rdo_a_last_insert K' P k lst copy LASTK GC), CHK'. reflexivity. }
  assert (BREL: rdo_d_brel rho0 P P).
  { unfold P. destruct (rdo_par x) eqn:PX. left; eauto. right. destruct (PAL id eq_refl) as (_ & NIp & pit & kk & Gp & Dp & _).
    exists id, id. split; auto. split; auto. split; auto. exists pit. split; auto.
    rewrite <- EK, rdo_e_get_kill, Gp. simpl. destruct (rdo_a_get_in _ _ _ Gp) as (_ & Ep). rewrite Ep. apply rdo_e_mem_nin in NIp. rewrite NIp. auto. }
  assert (KIDS: forall y, In y K -> rdo_par y = RdoItem i -> rdo_del y = true).
  { intros y Iy Py. rewrite <- EK in Iy. unfold rdo_e_kill in Iy. apply in_map_iff in Iy. destruct Iy as (y0 & Ey & Iy0).
    assert (rdo_del y0 = true) as D0.
    { pose proof (proj1 (rdo_d_cascade_spec st0) (rdo_e_p_casc _ _ _ _ _ PC)) as CP. apply (CP y0 Iy0 i x); auto.
      subst y. destruct (rdo_mem (rdo_id y0) I); auto. }
    subst y. destruct (rdo_mem (rdo_id y0) I); auto. }
  assert (LTK': forall y, In y K' -> rdo_id y < n0 /\ forall p, rdo_par y = RdoItem p -> p < rdo_id y).
  { intros y Iy. assert (exists y0, In y0 st0 /\ rdo_id y = rdo_id y0 /\ rdo_par y = rdo_par y0) as (y0 & I0 & E0 & P0).
    { unfold K' in Iy. apply in_app_or in Iy. destruct Iy as [Iy|[Iy|Iy]].
      - apply rdo_e_in_kill in Iy. destruct Iy as (y0 & I0 & E0). exists y0. split; auto. rewrite ST. apply in_or_app; auto.
      - subst y. exists x. auto.
      - apply rdo_e_in_kill in Iy. destruct Iy as (y0 & I0 & E0). exists y0. split; auto. rewrite ST. apply in_or_app; simpl; auto. }
    destruct (rdo_e_wfp_item _ _ W _ I0) as (L0 & WP0). rewrite E0, P0. split; auto. intros p Pp. apply (WP0 p Pp). }
  assert (GCN: rdo_get K' n0 = None). { apply rdo_e_get_fresh. intros y Iy. destruct (LTK' y Iy). lia. }
  assert (KIDSB: forall y, In y K' -> rdo_par y = RdoItem n0 -> rdo_del y = true).
  { intros y Iy Py. destruct (LTK' y Iy) as (L1 & L2). pose proof (L2 n0 Py). lia. }
  assert (PXO: rdo_par x <> RdoItem i). { intro K0. destruct (PAL i K0). lia. }
  assert (PXC: rdo_par copy <> RdoItem n0). { simpl. intro K0. destruct (PAL n0 K0). lia. }
  assert (CHKs: rdo_chain K (rdo_par x) (rdo_sub x) = a1 ++ x :: a2) by (rewrite SUB; exact CHK).
  assert (CHKb: rdo_chain K' (rdo_par copy) (rdo_sub copy) = (a1 ++ x' :: a2) ++ []) by (rewrite app_nil_r; exact CHK').
  assert (LEN: length (rdo_live a1) = length (rdo_live (a1 ++ x' :: a2))).
  { rewrite rdo_d_live_app. unfold rdo_live at 3. simpl. rewrite Dx. simpl. fold (rdo_live a2). rewrite LA2, app_nil_r. reflexivity. }
  pose proof (rdo_d_iso_add K K' rho0 i n0 x copy (Some lst) a1 a2 (a1 ++ x' :: a2) [] NBK (rdo_d_fun_id _) (rdo_d_inj_id _) ISO1 GK Dx KIDS GCN
                eq_refl eq_refl eq_refl (eq_sym SUB) KIDSB PXO PXC BREL CHKs CHKb CHL LEN) as ISO.
  (* the second re-creation *)
  set (B1 := rdo_link K' (Some lst) copy) in *.
  assert (KT1: rdo_e_kill I (rdo_st t1) = B1).
  { rewrite STX, rdo_e_kill_absorb, rdo_e_kill_link, rdo_e_kill_update_red, EK, UPK. reflexivity.
    simpl. apply rdo_e_mem_nin; auto. intros j Ij. apply DL; auto. }
  assert (ST2: rdo_e_kill I (rdo_st t2') = rdo_link (rdo_update B1 c (fun y => rdo_set_red y (rdo_next t1))) None copyc).
  { unfold t2'. cbn [rdo_st]. rewrite rdo_e_kill_link, rdo_e_kill_update_red, KT1. reflexivity.
    simpl. apply rdo_e_mem_nin. rewrite NX1. intro K0. destruct (IP _ K0) as (_ & _ & L0). lia. }
  set (B1' := rdo_update B1 c (fun y => rdo_set_red y (rdo_next t1))) in *.
  set (AA1 := rdo_update K i rdo_set_live) in *.
  set (rho1 := fun a0 b0 : N => rho0 a0 b0 \/ a0 = i /\ b0 = n0) in *.
  assert (KD1: map rdo_d_kd B1 = map rdo_d_kd B1'). { unfold B1'. symmetry. apply rdo_d_kd_update. intros y. apply rdo_d_kd_set_red. }
  pose proof (rdo_d_iso_kd AA1 AA1 B1 B1' rho1 eq_refl KD1 ISO) as ISOa.
  assert (NBA1: rdo_i_nodup (map rdo_id AA1) = true). { apply rdo_d_nodup_spec. unfold AA1. rewrite rdo_a_ids_update; auto. rewrite IDSK; auto. }
  assert (FUN1: rdo_d_fun rho1). { apply rdo_d_fun_add. apply rdo_d_fun_id. intros b0 (E0 & y & Gy & Dy). rewrite GK in Gy. inversion Gy; subst y. congruence. }
  assert (INJ1: rdo_d_inj rho1). { apply rdo_d_inj_add. apply rdo_d_inj_id. intros a0 (E0 & y & Gy & Dy). subst a0. rewrite <- EK, rdo_e_get_kill in Gy.
    destruct (rdo_get st0 n0) eqn:G0; simpl in Gy; try discriminate. destruct (rdo_a_get_in _ _ _ G0) as (I0 & E0). pose proof (rdo_e_wfp_item _ _ W _ I0). lia. }
  assert (KXc: rdo_mem c I = false) by (apply rdo_e_mem_nin; auto).
  assert (GKc: rdo_get K c = Some xc). { rewrite <- EK, rdo_e_get_kill, Gc. simpl. rewrite Exc, KXc. auto. }
  assert (GA1c: rdo_get AA1 c = Some xc). { unfold AA1. rewrite rdo_a_get_update; auto. assert (c =? i = false) as Q by (apply N.eqb_neq; lia). rewrite Q. auto. }
  assert (EAA: AA1 = ka ++ rdo_set_live x :: kb). { unfold AA1, K. rewrite <- Ex. apply rdo_e_update_app. rewrite Ex; auto. }
  pose proof (proj1 (rdo_d_cascade_spec st0) (rdo_e_p_casc _ _ _ _ _ PC)) as CP.
  assert (INAA: forall y, In y AA1 -> y = rdo_set_live x \/ In y K).
  { intros y Iy. rewrite EAA in Iy. apply in_app_or in Iy. destruct Iy as [Iy|[Iy|Iy]]; auto; right; unfold K; apply in_or_app; simpl; auto. }
  assert (KIDSG: forall q xq, rdo_get st0 q = Some xq -> rdo_del xq = true -> forall y, In y K -> rdo_par y = RdoItem q -> rdo_del y = true).
  { intros q xq Gq0 Dq0 y Iy Py. rewrite <- EK in Iy. unfold rdo_e_kill in Iy. apply in_map_iff in Iy. destruct Iy as (y0 & Ey & Iy0).
    assert (rdo_del y0 = true) as D0. { apply (CP y0 Iy0 q xq); auto. subst y. destruct (rdo_mem (rdo_id y0) I); auto. }
    subst y. destruct (rdo_mem (rdo_id y0) I); auto. }
  assert (KIDSc: forall y, In y AA1 -> rdo_par y = RdoItem c -> rdo_del y = true).
  { intros y Iy Py. destruct (INAA y Iy) as [E0|Iy0]. subst y. simpl in Py. destruct (PAL c Py). lia. apply (KIDSG c xc); auto. }
  assert (NOPB: forall y, In y B1' -> forall p, rdo_par y = RdoItem p -> p < n0).
  { intros y Iy p Py. unfold B1' in Iy. apply rdo_a_in_update_red in Iy. destruct Iy as (y1 & I1 & P1 & E1'). rewrite P1 in Py.
    unfold B1 in I1. apply rdo_a_link_in in I1. destruct I1 as [E0|I1].
    - subst y1. simpl in Py. destruct (PAL p Py). lia.
    - destruct (LTK' y1 I1) as (L1 & L2). pose proof (L2 p Py). lia. }
  assert (IDB: forall y, In y B1' -> rdo_id y <= n0).
  { intros y Iy. unfold B1' in Iy. apply rdo_a_in_update_red in Iy. destruct Iy as (y1 & I1 & P1 & E1'). rewrite E1'.
    unfold B1 in I1. apply rdo_a_link_in in I1. destruct I1 as [E0|I1]. subst y1. simpl. lia. destruct (LTK' y1 I1). lia. }
  assert (GCN2: rdo_get B1' (rdo_next t1) = None). { apply rdo_e_get_fresh. intros y Iy. pose proof (IDB y Iy). lia. }
  assert (KIDSB2: forall y, In y B1' -> rdo_par y = RdoItem (rdo_next t1) -> rdo_del y = true).
  { intros y Iy Py. pose proof (NOPB y Iy _ Py). lia. }
  assert (PXO2: rdo_par xc <> RdoItem c). { rewrite Pc. intro K0. inversion K0. lia. }
  assert (PXC2: rdo_par copyc <> RdoItem (rdo_next t1)). { simpl. intro K0. inversion K0. lia. }
  assert (BREL2: rdo_d_brel rho1 (rdo_par xc) (rdo_par copyc)).
  { rewrite Pc. simpl. right. exists i, n0. split; auto. split; auto. right. auto. }
  assert (CHA: exists a1c a2c, rdo_chain AA1 (rdo_par xc) (rdo_sub xc) = a1c ++ xc :: a2c).
  { apply in_split. apply rdo_a_in_chain; auto. apply (rdo_a_get_in _ _ _ GA1c). }
  destruct CHA as (a1c & a2c & CHA).
  assert (CHB: forall S, rdo_chain B1' (RdoItem n0) S = []).
  { intros S. destruct (rdo_chain B1' (RdoItem n0) S) as [|y rest] eqn:CE; auto. exfalso.
    assert (In y (rdo_chain B1' (RdoItem n0) S)) as K0 by (rewrite CE; simpl; auto). apply rdo_a_chain_in in K0. destruct K0 as (Iy & Py & _).
    pose proof (NOPB y Iy _ Py). lia. }
  assert (CHB1: rdo_chain B1' (rdo_par copyc) (rdo_sub copyc) = [] ++ []) by (simpl; apply CHB).
  assert (CHB2: rdo_chain (rdo_link B1' None copyc) (rdo_par copyc) (rdo_sub copyc) = [] ++ copyc :: []).
  { simpl rdo_link. simpl rdo_par. simpl rdo_sub. unfold rdo_chain. simpl filter. unfold rdo_in_chain at 1. simpl. rewrite N.eqb_refl, rdo_a_on_eqb_refl. simpl.
    fold (rdo_chain B1' (RdoItem n0) (rdo_sub xc)). rewrite CHB. reflexivity. }
  assert (LEN2: length (rdo_live a1c) = length (rdo_live (@nil rdo_item))).
  { rewrite rdo_d_live_nil. reflexivity. intros y Iy. assert (In y (rdo_chain AA1 (rdo_par xc) (rdo_sub xc))) as K0 by (rewrite CHA; apply in_or_app; auto).
    apply rdo_a_chain_in in K0. destruct K0 as (IyA & Py & _). rewrite Pc in Py. destruct (INAA y IyA) as [E0|Iy0].
    - subst y. simpl in Py. destruct (PAL i Py). lia.
    - apply (KIDS y); auto. }
  pose proof (rdo_d_iso_add AA1 B1' rho1 c (rdo_next t1) xc copyc None a1c a2c [] [] NBA1 FUN1 INJ1 ISOa GA1c Dxc KIDSc GCN2
                eq_refl eq_refl eq_refl eq_refl KIDSB2 PXO2 PXC2 BREL2 CHA CHB1 CHB2 LEN2) as ISO2.
  (* the third re-creation *)
  set (B2 := rdo_link B1' None copyc) in *.
  set (copyc2 := rdo_e_newk (rdo_next t2') (RdoItem n0) itemc2 None ro) in *.
  assert (ST3': rdo_st t3' = rdo_link (rdo_update (rdo_st t2') c2 (fun y => rdo_set_red y (rdo_next t2'))) None copyc2) by reflexivity.
  assert (ST3: rdo_st t2 = rdo_link (rdo_update B2 c2 (fun y => rdo_set_red y (rdo_next t2'))) None copyc2).
  { rewrite STF, ST3', rdo_e_kill_link, rdo_e_kill_update_red, ST2. reflexivity.
    change (rdo_mem (rdo_next t2') I = false). apply rdo_e_mem_nin. rewrite NX2. intro K0. destruct (IP _ K0) as (_ & _ & L0). lia. }
  set (B2' := rdo_update B2 c2 (fun y => rdo_set_red y (rdo_next t2'))) in *.
  set (AA2 := rdo_update AA1 c rdo_set_live) in *.
  set (rho2 := fun a0 b0 : N => rho1 a0 b0 \/ a0 = c /\ b0 = rdo_next t1) in *.
  assert (KD2: map rdo_d_kd B2 = map rdo_d_kd B2'). { unfold B2'. symmetry. apply rdo_d_kd_update. intros y. apply rdo_d_kd_set_red. }
  pose proof (rdo_d_iso_kd AA2 AA2 B2 B2' rho2 eq_refl KD2 ISO2) as ISOb.
  assert (NDA1: NoDup (map rdo_id AA1)) by (apply rdo_d_nodup_spec; auto).
  assert (NBA2: rdo_i_nodup (map rdo_id AA2) = true). { apply rdo_d_nodup_spec. unfold AA2. rewrite rdo_a_ids_update; auto. }
  assert (FUN2: rdo_d_fun rho2).
  { apply rdo_d_fun_add; auto. intros b0 [(E0 & y & Gy & Dy)|(E0 & _)]. rewrite GKc in Gy. inversion Gy; subst y. congruence. lia. }
  assert (INJ2: rdo_d_inj rho2).
  { apply rdo_d_inj_add; auto. intros a0 [(E0 & y & Gy & Dy)|(_ & E0)].
    - subst a0. rewrite <- EK, rdo_e_get_kill in Gy. destruct (rdo_get st0 (rdo_next t1)) eqn:G0; simpl in Gy; try discriminate.
      destruct (rdo_a_get_in _ _ _ G0) as (I0 & E0). pose proof (rdo_e_wfp_item _ _ W _ I0). lia.
    - lia. }
  assert (KXc2: rdo_mem c2 I = false) by (apply rdo_e_mem_nin; auto).
  assert (GKc2: rdo_get K c2 = Some xc2). { rewrite <- EK, rdo_e_get_kill, Gc2. simpl. rewrite Exc2, KXc2. auto. }
  assert (GA2c2: rdo_get AA2 c2 = Some xc2).
  { unfold AA2. rewrite rdo_a_get_update; auto. assert (c2 =? c = false) as Q by (apply N.eqb_neq; auto). rewrite Q.
    unfold AA1. rewrite rdo_a_get_update; auto. assert (c2 =? i = false) as Q2 by (apply N.eqb_neq; lia). rewrite Q2. auto. }
  assert (INAA2: forall y, In y AA2 -> y = rdo_set_live xc \/ In y AA1).
  { intros y Iy. unfold AA2 in Iy. apply rdo_a_in_update in Iy. destruct Iy as [Iy|(x1 & I1 & E1' & E2')]; auto. left. subst y. f_equal.
    pose proof (rdo_a_in_get AA1 x1 NDA1 I1) as Gy. rewrite E1', GA1c in Gy. congruence. }
  assert (KIDSc2: forall y, In y AA2 -> rdo_par y = RdoItem c2 -> rdo_del y = true).
  { intros y Iy Py. destruct (INAA2 y Iy) as [E0|Iy1]. subst y. simpl in Py. rewrite Pc in Py. inversion Py. lia.
    destruct (INAA y Iy1) as [E0|Iy0]. subst y. simpl in Py. destruct (PAL c2 Py). lia. apply (KIDSG c2 xc2); auto. }
  assert (EB2': B2' = copyc :: rdo_update B1' c2 (fun y => rdo_set_red y (rdo_next t2'))).
  { unfold B2', B2. simpl rdo_link. simpl rdo_update. assert (rdo_next t1 =? c2 = false) as Q by (apply N.eqb_neq; lia). rewrite Q. reflexivity. }
  assert (INB2': forall y, In y B2' -> y = copyc \/ exists y1, In y1 B1' /\ rdo_par y = rdo_par y1 /\ rdo_id y = rdo_id y1).
  { intros y Iy. rewrite EB2' in Iy. destruct Iy as [E0|Iy]; auto. right. apply rdo_a_in_update_red in Iy. destruct Iy as (y1 & I1 & P1 & E1'). eauto. }
  assert (IDB2: forall y, In y B2' -> rdo_id y <= n0 + 1).
  { intros y Iy. destruct (INB2' y Iy) as [E0|(y1 & I1 & P1 & E1')]. subst y. simpl. lia. rewrite E1'. pose proof (IDB y1 I1). lia. }
  assert (NOPB2: forall y, In y B2' -> forall p, rdo_par y = RdoItem p -> p <= n0).
  { intros y Iy p Py. destruct (INB2' y Iy) as [E0|(y1 & I1 & P1 & E1')]. subst y. simpl in Py. inversion Py. lia. rewrite P1 in Py. pose proof (NOPB y1 I1 p Py). lia. }
  assert (GCN3: rdo_get B2' (rdo_next t2') = None). { apply rdo_e_get_fresh. intros y Iy. pose proof (IDB2 y Iy). lia. }
  assert (KIDSB3: forall y, In y B2' -> rdo_par y = RdoItem (rdo_next t2') -> rdo_del y = true).
  { intros y Iy Py. pose proof (NOPB2 y Iy _ Py). lia. }
  assert (PXO3: rdo_par xc2 <> RdoItem c2). { rewrite Pc2. intro K0. inversion K0. lia. }
  assert (PXC3: rdo_par copyc2 <> RdoItem (rdo_next t2')). { simpl. intro K0. inversion K0. lia. }
  assert (BREL3: rdo_d_brel rho2 (rdo_par xc2) (rdo_par copyc2)).
  { rewrite Pc2. simpl. right. exists i, n0. split; auto. split; auto. left. right. auto. }
  assert (CHA3: exists a1d a2d, rdo_chain AA2 (rdo_par xc2) (rdo_sub xc2) = a1d ++ xc2 :: a2d).
  { apply in_split. apply rdo_a_in_chain; auto. apply (rdo_a_get_in _ _ _ GA2c2). }
  destruct CHA3 as (a1d & a2d & CHA3).
  assert (CHU2: forall S, rdo_chain (rdo_update B1' c2 (fun y => rdo_set_red y (rdo_next t2'))) (RdoItem n0) S = []).
  { intros S. destruct (rdo_chain (rdo_update B1' c2 (fun y => rdo_set_red y (rdo_next t2'))) (RdoItem n0) S) as [|y rest] eqn:CE; auto. exfalso.
    assert (In y (rdo_chain (rdo_update B1' c2 (fun y => rdo_set_red y (rdo_next t2'))) (RdoItem n0) S)) as K0 by (rewrite CE; simpl; auto).
    apply rdo_a_chain_in in K0. destruct K0 as (Iy & Py & _). apply rdo_a_in_update_red in Iy. destruct Iy as (y1 & I1 & P1 & E1'). rewrite P1 in Py.
    pose proof (NOPB y1 I1 _ Py). lia. }
  assert (GCC: rdo_in_chain (RdoItem n0) None copyc = true). { unfold rdo_in_chain. simpl. rewrite N.eqb_refl, SUBc0. reflexivity. }
  assert (CHB3: rdo_chain B2' (RdoItem n0) None = [copyc]).
  { rewrite EB2', rdo_d_chain_cons, GCC, CHU2. reflexivity. }
  assert (CHB3a: rdo_chain B2' (rdo_par copyc2) (rdo_sub copyc2) = [] ++ [copyc]).
  { change (rdo_par copyc2) with (RdoItem n0). change (rdo_sub copyc2) with (rdo_sub xc2). rewrite SUBc2. exact CHB3. }
  assert (CHB3b: rdo_chain (rdo_link B2' None copyc2) (rdo_par copyc2) (rdo_sub copyc2) = [] ++ copyc2 :: [copyc]).
  { change (rdo_par copyc2) with (RdoItem n0). change (rdo_sub copyc2) with (rdo_sub xc2). rewrite SUBc2.
    change (rdo_link B2' None copyc2) with (copyc2 :: B2'). rewrite rdo_d_chain_cons.
    assert (rdo_in_chain (RdoItem n0) None copyc2 = true) as GC2. { unfold rdo_in_chain. change (rdo_par copyc2) with (RdoItem n0). change (rdo_sub copyc2) with (rdo_sub xc2). rewrite SUBc2. simpl. rewrite N.eqb_refl. reflexivity. }
    rewrite GC2, CHB3. reflexivity. }
  assert (IDCH: map rdo_id (rdo_chain AA2 (RdoItem i) None) = map rdo_id (rdo_chain st0 (RdoItem i) None)).
  { assert (R1: Forall2 rdo_a_R0 AA1 AA2). { apply rdo_a_update_R0. intros y; unfold rdo_a_R0; simpl; auto. }
    assert (R2: Forall2 rdo_a_R0 K AA1). { apply rdo_a_update_R0. intros y; unfold rdo_a_R0; simpl; auto. }
    rewrite (rdo_a_chain_ids_R0 _ _ R1), (rdo_a_chain_ids_R0 _ _ R2). rewrite <- EK, rdo_e_kill_chain, rdo_e_kill_ids. reflexivity. }
  assert (LEN3: length (rdo_live a1d) = length (rdo_live (@nil rdo_item))).
  { rewrite rdo_d_live_nil. reflexivity. intros y Iy.
    assert (In y (rdo_chain AA2 (rdo_par xc2) (rdo_sub xc2))) as K0 by (rewrite CHA3; apply in_or_app; auto).
    apply rdo_a_chain_in in K0. destruct K0 as (IyA & Py & _). rewrite Pc2 in Py.
    destruct (INAA2 y IyA) as [E0|Iy1].
    - exfalso. subst y.
      destruct (rdo_e_get_split _ _ _ Gc2) as (a0 & b0 & E0 & NIa0 & _).
      assert (NIa0': ~ In (rdo_id xc2) (map rdo_id a0)) by (rewrite Exc2; auto).
      destruct (rdo_e_lr_app a0 xc2 b0 NIa0') as (_ & RT0). rewrite <- E0, Exc2, Pc2, SUBc2 in RT0.
      assert (CH0: rdo_chain st0 (RdoItem i) None = rdo_chain a0 (RdoItem i) None ++ xc2 :: rdo_chain b0 (RdoItem i) None).
      { rewrite E0, rdo_d_chain_app. unfold rdo_chain at 2. simpl. unfold rdo_in_chain at 1. rewrite Pc2, SUBc2. simpl. rewrite N.eqb_refl. reflexivity. }
      rewrite Pc2, SUBc2 in CHA3. rewrite CHA3, CH0, !map_app in IDCH. simpl in IDCH. rewrite Exc2 in IDCH.
      assert (NDC: NoDup (map rdo_id (rdo_chain a0 (RdoItem i) None) ++ c2 :: map rdo_id (rdo_chain b0 (RdoItem i) None))).
      { assert (NoDup (map rdo_id (rdo_chain st0 (RdoItem i) None))) as Q. { apply rdo_d_nodup_spec. unfold rdo_chain. apply rdo_d_nodup_filter. apply rdo_d_nodup_spec; auto. }
        rewrite CH0, map_app in Q. simpl in Q. rewrite Exc2 in Q. exact Q. }
      destruct (rdo_d2_split_uniq _ _ _ _ _ NDC (eq_sym IDCH)) as (EA & _).
      assert (In c (map rdo_id a1d)) as CA1. { apply in_map_iff. exists (rdo_set_live xc). split; auto. }
      rewrite <- EA in CA1. apply in_map_iff in CA1. destruct CA1 as (z1 & Ez1 & Iz1). apply rdo_a_chain_in in Iz1. destruct Iz1 as (Iz1 & _).
      pose proof RIGHT as RG. rewrite RT0 in RG. apply in_map_iff in RG. destruct RG as (z0 & Ez0 & Iz0). apply filter_In in Iz0. destruct Iz0 as (Iz0 & _).
      pose proof ND0 as NDD. rewrite E0, map_app in NDD. simpl in NDD. destruct (rdo_e_nodup_app_l _ _ NDD) as (_ & _ & DJ).
      apply (DJ c). rewrite <- Ez1. apply in_map; auto. right. rewrite <- Ez0. apply in_map; auto.
    - destruct (INAA y Iy1) as [E0|Iy0]. subst y. simpl in Py. destruct (PAL i Py). lia. apply (KIDS y); auto. }
  pose proof (rdo_d_iso_add AA2 B2' rho2 c2 (rdo_next t2') xc2 copyc2 None a1d a2d [] [copyc] NBA2 FUN2 INJ2 ISOb GA2c2 Dxc2 KIDSc2 GCN3
                eq_refl eq_refl eq_refl eq_refl KIDSB3 PXO3 PXC3 BREL3 CHA3 CHB3a CHB3b LEN3) as ISO3.
  eexists. rewrite (rdo_m2_flip_triple st0 I D i c c2 ND0 HR), EK, ST3. exact ISO3. lia. lia. auto.
Qed.
Print Assumptions rdo_m2_triple_iso_map.

(* the class: a re-created container i (sequence item or map entry, its parent a root or alive) together with
   - ONE re-created child c (sequence item or map entry), or
   - TWO re-created children c, c2 (in this order in R), both sequence items, c standing to the RIGHT of c2 in the sequence of i *)
Definition rdo_m2_cls (st : list rdo_item) (I D : list N) : bool :=
  match rdo_i_redo st I D with
  | [i; c] => match rdo_get st i, rdo_get st c with
              | Some x, Some xc => rdo_par_eqb (rdo_par xc) (RdoItem i)
              | _, _ => false
              end
  | [i; c; c2] => match rdo_get st i, rdo_get st c, rdo_get st c2 with
                  | Some x, Some xc, Some xc2 =>
                      rdo_par_eqb (rdo_par xc) (RdoItem i) && rdo_par_eqb (rdo_par xc2) (RdoItem i) &&
                      negb (rdo_is_some (rdo_sub xc)) && negb (rdo_is_some (rdo_sub xc2)) && negb (c =? c2) && rdo_mem c (rdo_rights st c2)
                  | _, _, _ => false
                  end
  | _ => false
  end.

Theorem rdo_m2_lemma_P_partial : forall s e s1 s2,
  rdo_i_pc (rdo_doc s) (rdo_clock s) (rdo_scope s) (rdo_sins e) (rdo_sdel e) = true -> StronglySorted N.lt (rdo_sdel e) ->
  rdo_m2_cls (rdo_doc s) (rdo_sins e) (rdo_sdel e) = true ->
  exists t ch, rdo_process s e s1 s2 = RdoOk (t, ch) /\
    forall root, rdo_render_root (rdo_st t) root = rdo_i_render_root (rdo_i_flip (rdo_doc s) (rdo_sins e) (rdo_sdel e)) root.
Proof. intros s e s1 s2 PC SS CLS. unfold rdo_m2_cls in CLS.
  assert (exists t ch, rdo_process s e s1 s2 = RdoOk (t, ch) /\
            exists rho, rdo_d_iso (rdo_i_flip (rdo_doc s) (rdo_sins e) (rdo_sdel e)) (rdo_st t) rho) as (t & ch & EP & rho & ISO).
  { destruct (rdo_i_redo (rdo_doc s) (rdo_sins e) (rdo_sdel e)) as [|i [|c [|c2 [|r0 r]]]] eqn:HR; try discriminate.
    - destruct (rdo_get (rdo_doc s) i) as [x|] eqn:G; try discriminate. destruct (rdo_get (rdo_doc s) c) as [xc|] eqn:Gc; try discriminate.
      apply rdo_a_par_eqb_eq in CLS. destruct (rdo_sub x) as [k|] eqn:SUB.
      + apply (rdo_m2_pair_iso_map s e s1 s2 i x k c xc); auto.
      + apply (rdo_m2_pair_iso s e s1 s2 i x c xc); auto.
    - destruct (rdo_get (rdo_doc s) i) as [x|] eqn:G; try discriminate. destruct (rdo_get (rdo_doc s) c) as [xc|] eqn:Gc; try discriminate.
      destruct (rdo_get (rdo_doc s) c2) as [xc2|] eqn:Gc2; try discriminate.
      repeat rewrite andb_true_iff in CLS. destruct CLS as (((((C1 & C2) & C3) & C4) & C5) & C6).
      apply rdo_a_par_eqb_eq in C1. apply rdo_a_par_eqb_eq in C2.
      assert (S1: rdo_sub xc = None) by (destruct (rdo_sub xc); simpl in C3; congruence).
      assert (S2: rdo_sub xc2 = None) by (destruct (rdo_sub xc2); simpl in C4; congruence).
      assert (NE: c <> c2). { intro K. subst c2. rewrite N.eqb_refl in C5. discriminate. }
      apply rdo_e_mem_in in C6.
      destruct (rdo_sub x) as [k|] eqn:SUB.
      + apply (rdo_m2_triple_iso_map s e s1 s2 i x k c xc c2 xc2); auto.
      + apply (rdo_m2_triple_iso s e s1 s2 i x c xc c2 xc2); auto. }
  exists t, ch. split; auto.
  destruct (rdo_e_lemma_R s e s1 s2 t ch PC SS EP) as (RES & _ & _ & LL & _).
  apply (rdo_e_process_render_partial s e t rho PC SS RES ISO LL).
Qed.
Print Assumptions rdo_m2_lemma_P_partial.


(* ========================================================================================== *)
(* SECTION M3 *)

(* RedoMoreC.v - the `ch = false` continuation of the pop loop (try_process reports "nothing changed"). *)

(* ---------------------------------------------------------------------------------------------- *)
(* (c1) generic core: an entry that satisfies rdo_i_pc and is processed without change leaves the state untouched *)
Lemma rdo_m3_hd_none {A} (l : list A) : rdo_is_some (hd_error l) = false -> l = [].
Proof. destruct l; simpl; auto. discriminate. Qed.

Lemma rdo_m3_nochange s e s1 s2 t :
  rdo_i_pc (rdo_doc s) (rdo_clock s) (rdo_scope s) (rdo_sins e) (rdo_sdel e) = true ->
  StronglySorted N.lt (rdo_sdel e) ->
  rdo_process s e s1 s2 = RdoOk (t, false) ->
  rdo_i_redo (rdo_doc s) (rdo_sins e) (rdo_sdel e) = [] /\ rdo_e_liveI (rdo_doc s) (rdo_sins e) = [] /\
  rdo_i_flip (rdo_doc s) (rdo_sins e) (rdo_sdel e) = rdo_doc s /\
  rdo_st t = rdo_doc s /\ rdo_next t = rdo_clock s /\ rdo_tins t = [] /\ rdo_tdel t = [].
Proof.
  intros PC SS Hp.
  destruct (rdo_e_process_ok_partial s e s1 s2 PC SS) as (t0 & E0 & _). rewrite Hp in E0. inversion E0 as [[Et Ech]]. subst t0.
  symmetry in Ech. apply orb_false_iff in Ech. destruct Ech as [HR HL].
  apply rdo_m3_hd_none in HR. apply rdo_m3_hd_none in HL.
  destruct (rdo_e_process_del_partial s e s1 s2 PC HR) as (t1 & E1 & St & Nx & Ti & _ & Td). rewrite Hp in E1. inversion E1; subst t1.
  assert (ND : NoDup (map rdo_id (rdo_doc s))) by (eapply rdo_e_wfp_nodup; apply (rdo_e_pc_unpack _ _ _ _ _ PC)).
  assert (DEAD : forall x, In x (rdo_doc s) -> In (rdo_id x) (rdo_sins e) -> rdo_del x = true).
  { intros x Hx Hi. destruct (rdo_del x) eqn:Dx; auto. exfalso.
    assert (K : In (rdo_id x) (rdo_e_liveI (rdo_doc s) (rdo_sins e))).
    { unfold rdo_e_liveI. apply filter_In. split; auto. unfold rdo_i_isdel. rewrite (rdo_b_in_get _ x); auto. rewrite Dx; auto. }
    rewrite HL in K. destruct K. }
  assert (FL : rdo_i_flip (rdo_doc s) (rdo_sins e) (rdo_sdel e) = rdo_doc s).
  { unfold rdo_i_flip. rewrite <- (map_id (rdo_doc s)) at 2. apply map_ext_in. intros x Hx.
    destruct (rdo_mem (rdo_id x) (rdo_sins e)) eqn:MI.
    - apply rdo_e_set_del_dead. apply DEAD; auto. apply rdo_f_mem_In; auto.
    - destruct (rdo_mem (rdo_id x) (rdo_sdel e)) eqn:MD; auto. exfalso.
      assert (K : In (rdo_id x) (rdo_i_redo (rdo_doc s) (rdo_sins e) (rdo_sdel e))).
      { apply (rdo_f_redo_intro _ _ _ _ x). apply rdo_f_mem_In; auto. apply rdo_f_mem_false; auto. apply rdo_b_in_get; auto. }
      rewrite HR in K. destruct K. }
  repeat (split; [assumption|]). split. congruence. split; auto. split; auto.
  destruct (rdo_tdel t) as [|j r] eqn:Etd; auto. exfalso.
  destruct (proj1 (Td j) (or_introl eq_refl)) as [Hj Dl].
  assert (K : In j (rdo_e_liveI (rdo_doc s) (rdo_sins e))).
  { unfold rdo_e_liveI. apply filter_In. split; auto. rewrite Dl; auto. }
  rewrite HL in K. destruct K.
Qed.

Lemma rdo_m3_after_txn_same s t mode : rdo_st t = rdo_doc s -> rdo_next t = rdo_clock s -> rdo_tins t = [] -> rdo_tdel t = [] ->
  rdo_after_txn s t mode = s.
Proof.
  intros E1 E2 E3 E4. unfold rdo_after_txn. rewrite E3, E4. cbn [app existsb negb]. rewrite E1, E2. destruct s; reflexivity.
Qed.

(* (c2) the pop loop passes over such an entry *)
Lemma rdo_m3_undo_pass s e rest t :
  rdo_us s = e :: rest ->
  rdo_i_pc (rdo_doc s) (rdo_clock s) (rdo_scope s) (rdo_sins e) (rdo_sdel e) = true -> StronglySorted N.lt (rdo_sdel e) ->
  rdo_process (rdo_f_popped s rest) e rest (rdo_rs s) = RdoOk (t, false) ->
  rdo_after_txn (rdo_f_popped s rest) t RdoUndoing = rdo_f_popped s rest /\ rdo_st t = rdo_doc s /\
  rdo_undo s = rdo_undo (rdo_f_popped s rest).
Proof.
  intros Us PC SS Hp.
  destruct (rdo_m3_nochange (rdo_f_popped s rest) e rest (rdo_rs s) t PC SS Hp) as (_ & _ & _ & E1 & E2 & E3 & E4).
  pose proof (rdo_m3_after_txn_same (rdo_f_popped s rest) t RdoUndoing E1 E2 E3 E4) as EA.
  split; auto. split; auto.
  unfold rdo_undo. rewrite Us. cbn [length]. cbn [rdo_pop]. rewrite Us.
  fold (rdo_f_popped s rest). rewrite Hp. cbn [rdo_bind]. rewrite EA. reflexivity.
Qed.

(* (c3) the same for a redo call *)
Lemma rdo_m3_redo_pass s e rest t :
  rdo_rs s = e :: rest ->
  rdo_i_pc (rdo_doc s) (rdo_clock s) (rdo_scope s) (rdo_sins e) (rdo_sdel e) = true -> StronglySorted N.lt (rdo_sdel e) ->
  rdo_process (rdo_f_rpopped s rest) e rest (rdo_us s) = RdoOk (t, false) ->
  rdo_after_txn (rdo_f_rpopped s rest) t RdoRedoing = rdo_f_rpopped s rest /\ rdo_st t = rdo_doc s /\
  rdo_redo_call s = rdo_redo_call (rdo_f_rpopped s rest).
Proof.
  intros Rs PC SS Hp.
  destruct (rdo_m3_nochange (rdo_f_rpopped s rest) e rest (rdo_us s) t PC SS Hp) as (_ & _ & _ & E1 & E2 & E3 & E4).
  pose proof (rdo_m3_after_txn_same (rdo_f_rpopped s rest) t RdoRedoing E1 E2 E3 E4) as EA.
  split; auto. split; auto.
  unfold rdo_redo_call. rewrite Rs. cbn [length]. cbn [rdo_pop]. rewrite Rs.
  fold (rdo_f_rpopped s rest). rewrite Hp. cbn [rdo_bind]. rewrite EA. reflexivity.
Qed.

(* ---------------------------------------------------------------------------------------------- *)
(* (c1), (c2) for the histories of rdo_undo_last_step_c: steps only, the last step captured with entry e *)
Theorem rdo_m3_invisible_step : forall scope p s0 txns s1,
  rdo_i_steps scope (p ++ [RdoAStep txns]) = true ->
  rdo_run (rdo_state0 scope) p = RdoOk s0 ->
  rdo_act s0 (RdoAStep txns) = RdoOk s1 ->
  length (rdo_us s1) = S (length (rdo_us s0)) ->
  forall e t, rdo_us s1 = e :: rdo_us s0 ->
  rdo_process (rdo_f_popped s1 (rdo_us s0)) e (rdo_us s0) (rdo_rs s1) = RdoOk (t, false) ->
  rdo_st t = rdo_doc s1 /\ rdo_next t = rdo_clock s1 /\ rdo_tins t = [] /\ rdo_tdel t = [] /\
  rdo_i_redo (rdo_doc s1) (rdo_sins e) (rdo_sdel e) = [] /\
  (forall x, In x (rdo_doc s1) -> In (rdo_id x) (rdo_sins e) -> rdo_del x = true) /\
  (forall root, rdo_render_root (rdo_doc s1) root = rdo_render_root (rdo_doc s0) root) /\
  rdo_after_txn (rdo_f_popped s1 (rdo_us s0)) t RdoUndoing = rdo_f_popped s1 (rdo_us s0).
Proof.
  intros scope p s0 txns s1 Hs Hrun Hact Len e t Us Hp.
  destruct (rdo_f_undo_of_process_partial scope p s0 txns s1 Hs Hrun Hact Len) as (e0 & Us0 & Rs & Sc & AI & AD & A & PC & FR & _).
  rewrite Us in Us0. inversion Us0; subst e0. pose proof (rdo_f_asc_ss _ AD) as SD.
  destruct (rdo_m3_nochange (rdo_f_popped s1 (rdo_us s0)) e (rdo_us s0) (rdo_rs s1) t PC SD Hp) as (HR & HL & FL & E1 & E2 & E3 & E4).
  cbn [rdo_doc rdo_clock rdo_f_popped] in *.
  repeat (split; [assumption|]). split; [|split].
  - intros x Hx Hi. destruct (rdo_del x) eqn:Dx; auto. exfalso.
    assert (ND : NoDup (map rdo_id (rdo_doc s1))) by (eapply rdo_e_wfp_nodup; apply (rdo_e_pc_unpack _ _ _ _ _ PC)).
    assert (K : In (rdo_id x) (rdo_e_liveI (rdo_doc s1) (rdo_sins e))).
    { unfold rdo_e_liveI. apply filter_In. split; auto. unfold rdo_i_isdel. rewrite (rdo_b_in_get _ x); auto. rewrite Dx; auto. }
    rewrite HL in K. destruct K.
  - intros root. rewrite <- FR, FL. symmetry.
    apply (rdo_d_render_virtual _ (rdo_clock s1)); apply (rdo_e_pc_unpack _ _ _ _ _ PC).
  - apply rdo_m3_after_txn_same; auto.
Qed.
Print Assumptions rdo_m3_invisible_step.

Theorem rdo_m3_undo_passes_over : forall scope p s0 txns s1,
  rdo_i_steps scope (p ++ [RdoAStep txns]) = true ->
  rdo_run (rdo_state0 scope) p = RdoOk s0 ->
  rdo_act s0 (RdoAStep txns) = RdoOk s1 ->
  length (rdo_us s1) = S (length (rdo_us s0)) ->
  forall e t, rdo_us s1 = e :: rdo_us s0 ->
  rdo_process (rdo_f_popped s1 (rdo_us s0)) e (rdo_us s0) (rdo_rs s1) = RdoOk (t, false) ->
  rdo_undo s1 = rdo_undo (rdo_f_popped s1 (rdo_us s0)) /\
  (rdo_us s0 = [] -> rdo_undo s1 = RdoOk (rdo_f_popped s1 [], false) /\
                     forall root, rdo_render_root (rdo_doc (rdo_f_popped s1 [])) root = rdo_render_root (rdo_doc s0) root).
Proof.
  intros scope p s0 txns s1 Hs Hrun Hact Len e t Us Hp.
  destruct (rdo_f_undo_of_process_partial scope p s0 txns s1 Hs Hrun Hact Len) as (e0 & Us0 & Rs & Sc & AI & AD & A & PC & FR & _).
  rewrite Us in Us0. inversion Us0; subst e0. pose proof (rdo_f_asc_ss _ AD) as SD.
  destruct (rdo_m3_undo_pass s1 e (rdo_us s0) t Us PC SD Hp) as (_ & _ & EU).
  split; auto. intros E0. rewrite EU, E0. split. reflexivity.
  destruct (rdo_m3_invisible_step scope p s0 txns s1 Hs Hrun Hact Len e t Us Hp) as (_ & _ & _ & _ & _ & _ & R & _). exact R.
Qed.
Print Assumptions rdo_m3_undo_passes_over.

(* ---------------------------------------------------------------------------------------------- *)
(* (c4) WHAT BLOCKS THE NEXT ITERATION.  After an invisible step the pop loop goes on with the entry of step n-1.  That
   entry satisfied rdo_i_pc on rdo_doc s0, but rdo_doc s1 holds in addition the (dead) items of the invisible step, and
   rdo_i_pc is NOT monotone under such additions: clause c4 demands that every entry to the right of a re-created map
   entry was inserted by the entry itself.  Example: step n-1 removes key 0, step n sets and removes key 0 again. The
   real undo behaves well (it re-creates the old value); only the precondition is too strong.  What would be needed:
   c4' "every entry to the right of a re-created map entry is in I, or is dead and has no redone pointer" (and Lemma P /
   Lemma R re-proved from that weaker precondition), together with the stability of that precondition under invisible steps. *)
Definition rdo_m3_sc : list N := [0].
Definition rdo_m3_p : list rdo_action :=
  [RdoAStep [[RdoOSet 0 [] 0 (RdoVal 5)]]; RdoAStep [[RdoORem 0 [] 0]]].
Definition rdo_m3_txns : list (list rdo_op) := [[RdoOSet 0 [] 0 (RdoVal 6); RdoORem 0 [] 0]].

Theorem rdo_m3_pc_not_monotone_refuted :
  exists s0 s1 e eold rest t s2,
    rdo_i_steps rdo_m3_sc (rdo_m3_p ++ [RdoAStep rdo_m3_txns]) = true /\
    rdo_run (rdo_state0 rdo_m3_sc) rdo_m3_p = RdoOk s0 /\
    rdo_act s0 (RdoAStep rdo_m3_txns) = RdoOk s1 /\
    rdo_us s0 = eold :: rest /\ rdo_us s1 = e :: rdo_us s0 /\
    rdo_process (rdo_f_popped s1 (rdo_us s0)) e (rdo_us s0) (rdo_rs s1) = RdoOk (t, false) /\
    rdo_i_pc (rdo_doc s0) (rdo_clock s0) rdo_m3_sc (rdo_sins eold) (rdo_sdel eold) = true /\
    rdo_i_pc (rdo_doc s1) (rdo_clock s1) rdo_m3_sc (rdo_sins eold) (rdo_sdel eold) = false /\
    rdo_undo s1 = RdoOk (s2, true) /\ rdo_render_root (rdo_doc s2) 0 = [2; 0; 0; 5; 3].
Proof.
  do 7 eexists.
  split. vm_compute; reflexivity.
  split. vm_compute; reflexivity.
  split. vm_compute; reflexivity.
  split. vm_compute; reflexivity.
  split. vm_compute; reflexivity.
  split. vm_compute; reflexivity.
  split. vm_compute; reflexivity.
  split. vm_compute; reflexivity.
  split. vm_compute; reflexivity.
  vm_compute; reflexivity.
Qed.
Print Assumptions rdo_m3_pc_not_monotone_refuted.

(* ---------------------------------------------------------------------------------------------- *)
(* (c5) FINAL ASSEMBLY, parametric in the class *)
Theorem rdo_m3_undo_last_step_c2 : forall cls, rdo_f_lemma_P_c cls ->
  forall scope p s0 txns s1,
  rdo_i_steps scope (p ++ [RdoAStep txns]) = true ->
  rdo_run (rdo_state0 scope) p = RdoOk s0 ->
  rdo_act s0 (RdoAStep txns) = RdoOk s1 ->
  length (rdo_us s1) = S (length (rdo_us s0)) ->
  forall e, rdo_us s1 = e :: rdo_us s0 -> cls (rdo_doc s1) (rdo_sins e) (rdo_sdel e) = true ->
  exists t ch,
    rdo_process (rdo_f_popped s1 (rdo_us s0)) e (rdo_us s0) (rdo_rs s1) = RdoOk (t, ch) /\
    (forall root, rdo_render_root (rdo_st t) root = rdo_render_root (rdo_doc s0) root) /\
    (ch = true -> exists s2, rdo_undo s1 = RdoOk (s2, true) /\ rdo_us s2 = rdo_us s0 /\ rdo_scope s2 = scope /\
                             forall root, rdo_render_root (rdo_doc s2) root = rdo_render_root (rdo_doc s0) root) /\
    (ch = false -> rdo_undo s1 = rdo_undo (rdo_f_popped s1 (rdo_us s0)) /\ rdo_st t = rdo_doc s1 /\
                   (forall root, rdo_render_root (rdo_doc s1) root = rdo_render_root (rdo_doc s0) root) /\
                   (rdo_us s0 = [] -> rdo_undo s1 = RdoOk (rdo_f_popped s1 [], false))).
Proof.
  intros cls LP scope p s0 txns s1 Hs Hrun Hact Len e Us Cl.
  destruct (rdo_undo_last_step_c cls LP scope p s0 txns s1 Hs Hrun Hact Len e Us Cl) as (t & ch & Rs & PC & SI & SD & Hp & Rt & Hu).
  exists t, ch. repeat (split; [assumption|]). intros ->.
  destruct (rdo_m3_undo_passes_over scope p s0 txns s1 Hs Hrun Hact Len e t Us Hp) as (EU & E0).
  destruct (rdo_m3_invisible_step scope p s0 txns s1 Hs Hrun Hact Len e t Us Hp) as (St & _ & _ & _ & _ & _ & R & _).
  repeat (split; [assumption|]). intros Z. apply E0; auto.
Qed.
Print Assumptions rdo_m3_undo_last_step_c2.

Theorem rdo_m3_inverse_law_nested_c2 : forall cls, rdo_f_lemma_P_c cls -> rdo_f_lemma_R_c cls ->
  forall scope p s0 txns s1,
  rdo_i_steps scope (p ++ [RdoAStep txns]) = true ->
  rdo_run (rdo_state0 scope) p = RdoOk s0 ->
  rdo_act s0 (RdoAStep txns) = RdoOk s1 ->
  length (rdo_us s1) = S (length (rdo_us s0)) ->
  forall e, rdo_us s1 = e :: rdo_us s0 -> cls (rdo_doc s1) (rdo_sins e) (rdo_sdel e) = true ->
  (forall s2 e', rdo_undo s1 = RdoOk (s2, true) -> rdo_rs s2 = [e'] -> cls (rdo_doc s2) (rdo_sins e') (rdo_sdel e') = true) ->
  exists t ch,
    rdo_process (rdo_f_popped s1 (rdo_us s0)) e (rdo_us s0) (rdo_rs s1) = RdoOk (t, ch) /\
    (forall root, rdo_render_root (rdo_st t) root = rdo_render_root (rdo_doc s0) root) /\
    (ch = false -> rdo_undo s1 = rdo_undo (rdo_f_popped s1 (rdo_us s0)) /\ rdo_st t = rdo_doc s1 /\
                   (forall root, rdo_render_root (rdo_doc s1) root = rdo_render_root (rdo_doc s0) root) /\
                   (rdo_us s0 = [] -> rdo_undo s1 = RdoOk (rdo_f_popped s1 [], false))) /\
    (ch = true ->
     exists s2 e' t3 ch3,
       rdo_undo s1 = RdoOk (s2, true) /\ rdo_us s2 = rdo_us s0 /\ rdo_rs s2 = [e'] /\
       (forall root, rdo_render_root (rdo_doc s2) root = rdo_render_root (rdo_doc s0) root) /\
       rdo_process (rdo_f_rpopped s2 []) e' [] (rdo_us s2) = RdoOk (t3, ch3) /\
       (forall root, rdo_render_root (rdo_st t3) root = rdo_render_root (rdo_doc s1) root) /\
       (ch3 = true -> exists s3 e'', rdo_redo_call s2 = RdoOk (s3, true) /\ rdo_rs s3 = [] /\ rdo_us s3 = e'' :: rdo_us s0 /\
                                 forall root, rdo_render_root (rdo_doc s3) root = rdo_render_root (rdo_doc s1) root) /\
       (ch3 = false -> rdo_redo_call s2 = RdoOk (rdo_f_rpopped s2 [], false) /\ rdo_st t3 = rdo_doc s2 /\
                       forall root, rdo_render_root (rdo_doc s2) root = rdo_render_root (rdo_doc s1) root)).
Proof.
  intros cls LP LR scope p s0 txns s1 Hs Hrun Hact Len e Us Cl Cl2.
  destruct (rdo_m3_undo_last_step_c2 cls LP scope p s0 txns s1 Hs Hrun Hact Len e Us Cl) as (t & ch & Hp & Rt & Hu & Hf).
  exists t, ch. repeat (split; [assumption|]). intros Hc. subst ch.
  destruct (rdo_undo_last_step_c cls LP scope p s0 txns s1 Hs Hrun Hact Len e Us Cl) as (t' & ch' & Rs & PC & SI & SD & Hp' & _).
  rewrite Hp in Hp'. inversion Hp'; subst t' ch'. clear Hp'.
  destruct (Hu eq_refl) as (s2 & U & Us2 & Sc2 & R2).
  assert (E2 : s2 = rdo_after_txn (rdo_f_popped s1 (rdo_us s0)) t RdoUndoing).
  { unfold rdo_undo in U. rewrite Us in U. cbn [length rdo_pop] in U. rewrite Us in U.
    fold (rdo_f_popped s1 (rdo_us s0)) in U. rewrite Hp in U. cbn [rdo_bind] in U. inversion U; auto. }
  pose proof Hs as Hs'. apply rdo_f_steps_app in Hs'. destruct Hs' as [Hs1 Hr].
  destruct (rdo_f_JP_reachable _ _ _ Hs1 Hrun) as (J & Sc). rewrite <- Sc in Hr.
  destruct (rdo_f_step_pc _ _ _ J Hr Hact Len) as (e0 & _ & _ & Sc1 & J1 & _). destruct J1 as (T1 & _).
  pose proof (rdo_f_W_hc _ _ _ (rdo_sins e) (rdo_f_T_W _ _ _ T1)) as HC.
  pose proof (LR (rdo_f_popped s1 (rdo_us s0)) e (rdo_us s0) (rdo_rs s1) t true PC SI SD Cl Hp) as RS.
  destruct (rdo_f_lemma_Q_of_result (rdo_f_popped s1 (rdo_us s0)) e t PC HC RS) as (e' & Rs' & _ & _ & PC' & FR').
  cbv zeta in Rs', PC', FR'.
  destruct (rdo_f_after_txn_undo_sorted _ _ _ Rs') as [SI' SD'].
  rewrite <- E2 in Rs', PC', FR'. simpl in Rs', FR'. rewrite Rs in Rs'.
  pose proof (Cl2 s2 e' U Rs') as Cl'.
  destruct (LP (rdo_f_rpopped s2 []) e' [] (rdo_us s2) PC' SI' SD' Cl') as (t3 & ch3 & Hp3 & Rt3).
  assert (Rt3' : forall root, rdo_render_root (rdo_st t3) root = rdo_render_root (rdo_doc s1) root).
  { intros root. rewrite Rt3. apply FR'. }
  exists s2, e', t3, ch3. repeat (split; [assumption|]). split.
  - intros Hc. subst ch3.
    pose proof (LR (rdo_f_rpopped s2 []) e' [] (rdo_us s2) t3 true PC' SI' SD' Cl' Hp3) as RS3.
    pose proof (rdo_f_result_captured _ _ _ _ _ _ PC' RS3) as Cap. simpl in Cap.
    unfold rdo_redo_call. rewrite Rs'. cbn [length rdo_pop]. rewrite Rs'.
    fold (rdo_f_rpopped s2 []). rewrite Hp3. cbn [rdo_bind].
    eexists. eexists. split; [reflexivity|].
    unfold rdo_after_txn. cbn [rdo_scope rdo_f_rpopped]. rewrite Cap. cbn [negb rdo_rs rdo_us rdo_doc rdo_f_rpopped].
    split; auto. split. rewrite Us2. reflexivity.
    intros root. rewrite rdo_f_keep_all_render. auto.
  - intros Hc. subst ch3.
    destruct (rdo_m3_redo_pass s2 e' [] t3 Rs' PC' SD' Hp3) as (_ & St3 & ER).
    split. rewrite ER. reflexivity. split; auto.
    intros root. rewrite <- St3. apply Rt3'.
Qed.
Print Assumptions rdo_m3_inverse_law_nested_c2.
Print Assumptions rdo_m3_nochange.
Print Assumptions rdo_m3_after_txn_same.
Print Assumptions rdo_m3_undo_pass.
Print Assumptions rdo_m3_redo_pass.


(* ========================================================================================== *)
(* SECTION M4 - the enlarged class and the closed theorems *)

(* the class: rdo_d2_cls_union (at most one re-created item, or sequence items with parents that are not re-created)
   || rdo_m1_cls (NO re-created item has a re-created parent: sequence items and map entries mixed, any number)
   || rdo_m2_cls (a re-created container with one child - each a sequence item or a map entry - or with two sequence
      children of which the one with the smaller id stands to the right of the other) *)
Definition rdo_m4_cls (st : list rdo_item) (I D : list N) : bool := rdo_m1_cls_union st I D || rdo_m2_cls st I D.

Lemma rdo_m4_cls_extends : forall st I D, rdo_d2_cls_union st I D = true -> rdo_m4_cls st I D = true.
Proof. intros st I D H. unfold rdo_m4_cls, rdo_m1_cls_union. rewrite H. reflexivity. Qed.
Print Assumptions rdo_m4_cls_extends.

Lemma rdo_m4_lemma_P : rdo_f_lemma_P_c rdo_m4_cls.
Proof.
  intros s e s1 s2 Hpc _ Hsd Hc. unfold rdo_m4_cls in Hc. apply orb_true_iff in Hc. destruct Hc as [Hc | Hc].
  - eapply rdo_m1_lemma_P_union_partial; eauto.
  - eapply rdo_m2_lemma_P_partial; eauto.
Qed.
Print Assumptions rdo_m4_lemma_P.

(* undoing the last captured step shows the content the scope had before it; when try_process reports no change the
   step was invisible and the call goes on exactly as undo in the state without that entry *)
Theorem rdo_undo_last_step_closed_partial2 :
  forall scope p s0 txns s1,
  rdo_i_steps scope (p ++ [RdoAStep txns]) = true ->
  rdo_run (rdo_state0 scope) p = RdoOk s0 ->
  rdo_act s0 (RdoAStep txns) = RdoOk s1 ->
  length (rdo_us s1) = S (length (rdo_us s0)) ->
  forall e, rdo_us s1 = e :: rdo_us s0 -> rdo_m4_cls (rdo_doc s1) (rdo_sins e) (rdo_sdel e) = true ->
  exists t ch,
    rdo_process (rdo_f_popped s1 (rdo_us s0)) e (rdo_us s0) (rdo_rs s1) = RdoOk (t, ch) /\
    (forall root, rdo_render_root (rdo_st t) root = rdo_render_root (rdo_doc s0) root) /\
    (ch = true -> exists s2, rdo_undo s1 = RdoOk (s2, true) /\ rdo_us s2 = rdo_us s0 /\ rdo_scope s2 = scope /\
                             forall root, rdo_render_root (rdo_doc s2) root = rdo_render_root (rdo_doc s0) root) /\
    (ch = false -> rdo_undo s1 = rdo_undo (rdo_f_popped s1 (rdo_us s0)) /\ rdo_st t = rdo_doc s1 /\
                   (forall root, rdo_render_root (rdo_doc s1) root = rdo_render_root (rdo_doc s0) root) /\
                   (rdo_us s0 = [] -> rdo_undo s1 = RdoOk (rdo_f_popped s1 [], false))).
Proof. exact (rdo_m3_undo_last_step_c2 rdo_m4_cls rdo_m4_lemma_P). Qed.
Print Assumptions rdo_undo_last_step_closed_partial2.

Theorem rdo_inverse_law_nested_steps_partial2 :
  forall scope p s0 txns s1,
  rdo_i_steps scope (p ++ [RdoAStep txns]) = true ->
  rdo_run (rdo_state0 scope) p = RdoOk s0 ->
  rdo_act s0 (RdoAStep txns) = RdoOk s1 ->
  length (rdo_us s1) = S (length (rdo_us s0)) ->
  forall e, rdo_us s1 = e :: rdo_us s0 -> rdo_m4_cls (rdo_doc s1) (rdo_sins e) (rdo_sdel e) = true ->
  (forall s2 e', rdo_undo s1 = RdoOk (s2, true) -> rdo_rs s2 = [e'] -> rdo_m4_cls (rdo_doc s2) (rdo_sins e') (rdo_sdel e') = true) ->
  exists t ch,
    rdo_process (rdo_f_popped s1 (rdo_us s0)) e (rdo_us s0) (rdo_rs s1) = RdoOk (t, ch) /\
    (forall root, rdo_render_root (rdo_st t) root = rdo_render_root (rdo_doc s0) root) /\
    (ch = false -> rdo_undo s1 = rdo_undo (rdo_f_popped s1 (rdo_us s0)) /\ rdo_st t = rdo_doc s1 /\
                   (forall root, rdo_render_root (rdo_doc s1) root = rdo_render_root (rdo_doc s0) root) /\
                   (rdo_us s0 = [] -> rdo_undo s1 = RdoOk (rdo_f_popped s1 [], false))) /\
    (ch = true ->
     exists s2 e' t3 ch3,
       rdo_undo s1 = RdoOk (s2, true) /\ rdo_us s2 = rdo_us s0 /\ rdo_rs s2 = [e'] /\
       (forall root, rdo_render_root (rdo_doc s2) root = rdo_render_root (rdo_doc s0) root) /\
       rdo_process (rdo_f_rpopped s2 []) e' [] (rdo_us s2) = RdoOk (t3, ch3) /\
       (forall root, rdo_render_root (rdo_st t3) root = rdo_render_root (rdo_doc s1) root) /\
       (ch3 = true -> exists s3 e'', rdo_redo_call s2 = RdoOk (s3, true) /\ rdo_rs s3 = [] /\ rdo_us s3 = e'' :: rdo_us s0 /\
                                 forall root, rdo_render_root (rdo_doc s3) root = rdo_render_root (rdo_doc s1) root) /\
       (ch3 = false -> rdo_redo_call s2 = RdoOk (rdo_f_rpopped s2 [], false) /\ rdo_st t3 = rdo_doc s2 /\
                       forall root, rdo_render_root (rdo_doc s2) root = rdo_render_root (rdo_doc s1) root)).
Proof. exact (rdo_m3_inverse_law_nested_c2 rdo_m4_cls rdo_m4_lemma_P (rdo_g_lemma_R _)). Qed.
Print Assumptions rdo_inverse_law_nested_steps_partial2.

(* non-vacuity: a container with two children is overwritten in one step (3 re-created items, a re-created parent): the
   entry of the step and the redo entry pushed by the undo are in rdo_m4_cls and NOT in rdo_d2_cls_union; undo and redo
   report a change and restore the contents *)
Definition rdo_m4_hist : list rdo_action :=
  [ RdoAStep [[RdoOSet 1 [] 0 (RdoType 0)]];
    RdoAStep [[RdoOIns 1 [RdoKey 0] 0 (RdoVal 7)]];
    RdoAStep [[RdoOIns 1 [RdoKey 0] 0 (RdoVal 8)]] ].
Definition rdo_m4_last : rdo_action := RdoAStep [[RdoOSet 1 [] 0 (RdoVal 9)]].
Example rdo_m4_cls_nonvacuous :
  match rdo_run (rdo_state0 [1]) rdo_m4_hist with
  | RdoOk s0 =>
      match rdo_act s0 rdo_m4_last with
      | RdoOk s1 =>
          match rdo_us s1, rdo_undo s1 with
          | e :: _, RdoOk (s2, b) =>
              match rdo_rs s2, rdo_redo_call s2 with
              | [e'], RdoOk (s3, b3) =>
                  (rdo_i_steps [1] (rdo_m4_hist ++ [rdo_m4_last]),
                   Nat.eqb (length (rdo_us s1)) (S (length (rdo_us s0))),
                   rdo_i_redo (rdo_doc s1) (rdo_sins e) (rdo_sdel e),
                   rdo_d2_cls_union (rdo_doc s1) (rdo_sins e) (rdo_sdel e),
                   rdo_m4_cls (rdo_doc s1) (rdo_sins e) (rdo_sdel e),
                   rdo_m4_cls (rdo_doc s2) (rdo_sins e') (rdo_sdel e'),
                   b, b3,
                   rdo_render_root (rdo_doc s0) 1, rdo_render_root (rdo_doc s1) 1,
                   rdo_render_root (rdo_doc s2) 1, rdo_render_root (rdo_doc s3) 1)
              | _, _ => (false, false, [], false, false, false, false, false, [], [], [], [])
              end
          | _, _ => (false, false, [], false, false, false, false, false, [], [], [], [])
          end
      | RdoErr _ => (false, false, [], false, false, false, false, false, [], [], [], [])
      end
  | RdoErr _ => (false, false, [], false, false, false, false, false, [], [], [], [])
  end
  = (true, true, [0; 1; 2], false, true, true, true, true,
     [2; 0; 1; 0; 0; 8; 0; 7; 2; 3; 3], [2; 0; 0; 9; 3],
     [2; 0; 1; 0; 0; 8; 0; 7; 2; 3; 3], [2; 0; 0; 9; 3]).
Proof. vm_compute. reflexivity. Qed.
Print Assumptions rdo_m4_cls_nonvacuous.
