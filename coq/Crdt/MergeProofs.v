(* Theorems about the transcription of Update::merge_updates (Merge.v). *)
From Coq Require Import List NArith ZArith Bool Lia ZifyBool ZifyN ZifyNat Permutation Sorted.
From YV Require Import Gen.Consts Lib.Bytes Codec.Varint Codec.AnyCodec Codec.IdSetCodec Codec.UpdateV1
  Codec.V2Cols Codec.V2Proofs Ids.Ranges Ids.RangesProofs Crdt.Doc Crdt.Blocks Crdt.BlocksProofs.
From YV Require Import Crdt.Merge.
Import ListNotations.
Open Scope N_scope.
(* Ids/RangesProofs.v has a definition named inr *)
Notation inr := Datatypes.inr (only parsing).
Notation inl := Datatypes.inl (only parsing).

(* ================================================================================================ *)
(* 1. the sort                                                                                      *)
(* ================================================================================================ *)
Section MrgSort.
Context {A : Type} (lt : A -> A -> bool).

Lemma mrg_insert_tail_perm x rp : Permutation (mrg_insert_tail lt x rp) (x :: rp).
Proof.
  induction rp as [|y r IH]; cbn [mrg_insert_tail]; [reflexivity|].
  destruct (lt x y); [|reflexivity]. rewrite IH. apply perm_swap.
Qed.

Lemma mrg_sort_fold_perm l : forall acc,
  Permutation (fold_left (fun rp x => mrg_insert_tail lt x rp) l acc) (l ++ acc).
Proof.
  induction l as [|a l IH]; intros acc; cbn [fold_left app]; [reflexivity|].
  rewrite IH, mrg_insert_tail_perm. symmetry. apply Permutation_middle.
Qed.

Lemma mrg_sort_perm l : Permutation (mrg_sort lt l) l.
Proof.
  unfold mrg_sort. rewrite <- Permutation_rev, mrg_sort_fold_perm, app_nil_r. reflexivity.
Qed.

Lemma mrg_sort_in l x : In x (mrg_sort lt l) <-> In x l.
Proof.
  split; apply Permutation_in; [apply mrg_sort_perm | symmetry; apply mrg_sort_perm].
Qed.

(* the first element of the result is a minimum for every preorder [le] the test is compatible with -
   nothing else is asked of [lt] (it need not be antisymmetric) *)
Context (P : A -> Prop) (le : A -> A -> Prop).
Hypothesis le_trans : forall x y z, P x -> P y -> P z -> le x y -> le y z -> le x z.
Hypothesis le_refl : forall x, P x -> le x x.
Hypothesis lt_le : forall x y, P x -> P y -> lt x y = true -> le x y.
Hypothesis nlt_le : forall x y, P x -> P y -> lt x y = false -> le y x.

Lemma mrg_insert_tail_min x : P x -> forall rp m, Forall P (rp ++ [m]) ->
  (forall y, In y (rp ++ [m]) -> le m y) ->
  exists r' m', mrg_insert_tail lt x (rp ++ [m]) = r' ++ [m'] /\ (m' = m \/ m' = x) /\
                forall y, In y (r' ++ [m']) -> le m' y.
Proof.
  intros Px. induction rp as [|y r IH]; intros m HP Hm.
  - cbn [app mrg_insert_tail]. apply Forall_inv in HP. destruct (lt x m) eqn:E.
    + exists [m], x. split; [reflexivity|]. split; [now right|].
      intros y [<-|[<-|[]]]; [apply lt_le; assumption | apply le_refl; assumption].
    + exists [x], m. split; [reflexivity|]. split; [now left|].
      intros y [<-|[<-|[]]]; [apply nlt_le; assumption | apply le_refl; assumption].
  - cbn [app mrg_insert_tail]. cbn [app] in HP, Hm.
    pose proof (Forall_inv HP) as Py. pose proof (Forall_inv_tail HP) as HP'.
    assert (Pm : P m). { rewrite Forall_forall in HP'. apply HP'. apply in_or_app. right. now left. }
    destruct (lt x y) eqn:E.
    + destruct (IH m HP') as [r' [m' [E1 [E2 E3]]]]; [intros z Hz; apply Hm; now right|].
      exists (y :: r'), m'. split; [rewrite E1; reflexivity|]. split; [exact E2|].
      intros z [<-|Hz]; [|apply E3; exact Hz].
      destruct E2 as [->| ->]; [apply Hm; now left | apply lt_le; assumption].
    + exists (x :: y :: r), m. split; [reflexivity|]. split; [now left|].
      intros z [<-|Hz]; [|apply Hm; exact Hz].
      apply le_trans with y; try assumption; [apply Hm; now left | apply nlt_le; assumption].
Qed.

Lemma mrg_sort_fold_min l : forall acc, Forall P l -> Forall P acc ->
  (acc = [] \/ exists r m, acc = r ++ [m] /\ forall y, In y acc -> le m y) ->
  let res := fold_left (fun rp x => mrg_insert_tail lt x rp) l acc in
  Forall P res /\ (res = [] \/ exists r m, res = r ++ [m] /\ forall y, In y res -> le m y).
Proof.
  induction l as [|a l IH]; intros acc Hl Ha Hacc; cbn [fold_left]; [split; assumption|].
  pose proof (Forall_inv Hl) as Pa. apply Forall_inv_tail in Hl.
  apply IH; [exact Hl| |].
  - rewrite Forall_forall in *. intros z Hz.
    apply (Permutation_in _ (mrg_insert_tail_perm a acc)) in Hz. destruct Hz as [<-|Hz]; auto.
  - right. destruct Hacc as [->|[r [m [-> Hm]]]].
    + exists [], a. split; [reflexivity|]. intros y [<-|[]]. apply le_refl; exact Pa.
    + destruct (mrg_insert_tail_min a Pa r m Ha Hm) as [r' [m' [E1 [_ E3]]]].
      exists r', m'. rewrite E1. split; [reflexivity|exact E3].
Qed.

Lemma mrg_sort_head_min l : Forall P l ->
  match mrg_sort lt l with [] => True | m :: r => forall y, In y r -> le m y end.
Proof.
  intros Hl. unfold mrg_sort.
  destruct (mrg_sort_fold_min l [] Hl (Forall_nil _) (or_introl eq_refl)) as [_ [->|[r [m [-> Hm]]]]].
  - exact I.
  - rewrite rev_app_distr. cbn [rev app]. intros y Hy. apply Hm. apply in_or_app. left.
    apply in_rev. exact Hy.
Qed.
End MrgSort.

Lemma mrg_sorted_snoc {A} (R : A -> A -> Prop) : forall l x,
  StronglySorted R l -> Forall (fun y => R y x) l -> StronglySorted R (l ++ [x]).
Proof.
  induction l as [|a l IH]; intros x Hs Hf; cbn [app].
  - constructor; constructor.
  - inversion Hs; subst. inversion Hf; subst. constructor; [apply IH; assumption|].
    apply Forall_app. split; [assumption|]. constructor; [assumption|constructor].
Qed.


(* ---- [mrg_sort] is THE stable sort, for every test that is the strict part of a total preorder ----
   (on the elements that satisfy [P]: the decoders that have a current block) *)
Section MrgStable.
Context {A : Type} (lt : A -> A -> bool) (P : A -> Prop).
Hypothesis lt_irrefl : forall x, P x -> lt x x = false.
Hypothesis lt_asym : forall x y, P x -> P y -> lt x y = true -> lt y x = false.
Hypothesis lt_negtrans : forall x y z, P x -> P y -> P z -> lt x y = false -> lt y z = false -> lt x z = false.

(* a list is sorted when no element is_less than an earlier one *)
Definition mrg_is_sorted (l : list A) : Prop := StronglySorted (fun a b => lt b a = false) l.
(* the elements that compare Equal to [c] *)
Definition mrg_eqv (c y : A) : bool := negb (lt c y) && negb (lt y c).

Lemma mrg_insert_tail_elem x rp z : In z (mrg_insert_tail lt x rp) -> z = x \/ In z rp.
Proof.
  intros H. apply (Permutation_in _ (mrg_insert_tail_perm lt x rp)) in H. destruct H as [<-|H]; [now left|now right].
Qed.

Lemma mrg_insert_tail_sorted x : P x -> forall rp, Forall P rp ->
  StronglySorted (fun a b => lt a b = false) rp ->
  StronglySorted (fun a b => lt a b = false) (mrg_insert_tail lt x rp).
Proof.
  intros Px. induction rp as [|y r IH]; intros HP Hs; cbn [mrg_insert_tail]; [constructor; constructor|].
  inversion Hs as [|? ? Hs' Hf]; subst. pose proof (Forall_inv HP) as Py. apply Forall_inv_tail in HP.
  rewrite Forall_forall in Hf, HP. destruct (lt x y) eqn:E.
  - constructor; [apply IH; [apply Forall_forall; exact HP|exact Hs']|]. apply Forall_forall. intros z Hz.
    apply mrg_insert_tail_elem in Hz. destruct Hz as [->|Hz]; [apply lt_asym; assumption|apply Hf; exact Hz].
  - constructor; [exact Hs|]. apply Forall_forall. intros z [<-|Hz]; [exact E|].
    apply (lt_negtrans x y z); auto.
Qed.

Lemma mrg_sorted_rev (R : A -> A -> Prop) : forall l, StronglySorted R l -> StronglySorted (fun a b => R b a) (rev l).
Proof.
  induction l as [|a l IH]; intros Hs; cbn [rev]; [constructor|]. inversion Hs as [|? ? Hs' Hf]; subst.
  apply mrg_sorted_snoc; [apply IH; exact Hs'|]. apply Forall_forall. intros y Hy. apply in_rev in Hy.
  rewrite Forall_forall in Hf. apply Hf. exact Hy.
Qed.

Lemma mrg_sort_sorted l : Forall P l -> mrg_is_sorted (mrg_sort lt l).
Proof.
  intros Hl. unfold mrg_is_sorted, mrg_sort.
  apply (mrg_sorted_rev (fun a b => lt a b = false)).
  assert (H : forall l acc, Forall P l -> Forall P acc -> StronglySorted (fun a b => lt a b = false) acc ->
            Forall P (fold_left (fun rp x => mrg_insert_tail lt x rp) l acc) /\
            StronglySorted (fun a b => lt a b = false) (fold_left (fun rp x => mrg_insert_tail lt x rp) l acc)).
  { clear l Hl. induction l as [|a l IH]; intros acc Hl Ha Hs; cbn [fold_left]; [split; assumption|].
    pose proof (Forall_inv Hl) as Pa. apply Forall_inv_tail in Hl. apply IH; [exact Hl| |].
    - apply Forall_forall. intros z Hz. apply mrg_insert_tail_elem in Hz. rewrite Forall_forall in Ha.
      destruct Hz as [->|Hz]; auto.
    - apply mrg_insert_tail_sorted; assumption. }
  apply H; [exact Hl|constructor|constructor].
Qed.

Lemma mrg_insert_tail_stable c x : P c -> P x -> forall rp, Forall P rp ->
  filter (mrg_eqv c) (mrg_insert_tail lt x rp) = filter (mrg_eqv c) (x :: rp).
Proof.
  intros Pc Px. induction rp as [|y r IH]; intros HP; cbn [mrg_insert_tail]; [reflexivity|].
  pose proof (Forall_inv HP) as Py. apply Forall_inv_tail in HP.
  destruct (lt x y) eqn:E; [|reflexivity].
  cbn [filter]. rewrite (IH HP). cbn [filter].
  destruct (mrg_eqv c y) eqn:Ey; [|reflexivity]. destruct (mrg_eqv c x) eqn:Ex; [|reflexivity].
  exfalso. unfold mrg_eqv in Ey, Ex. apply andb_prop in Ey. apply andb_prop in Ex.
  destruct Ey as [Ey1 Ey2]. destruct Ex as [Ex1 Ex2]. apply negb_true_iff in Ey1, Ey2, Ex1, Ex2.
  rewrite (lt_negtrans x c y Px Pc Py Ex2 Ey1) in E. discriminate.
Qed.

Lemma mrg_filter_rev (f : A -> bool) : forall l, filter f (rev l) = rev (filter f l).
Proof.
  induction l as [|a l IH]; [reflexivity|]. cbn [rev filter]. rewrite filter_app, IH. cbn [filter].
  destruct (f a); cbn [rev]; [reflexivity|apply app_nil_r].
Qed.

(* stability: the elements that compare Equal to [c] keep their order *)
Lemma mrg_sort_stable l c : Forall P l -> P c -> filter (mrg_eqv c) (mrg_sort lt l) = filter (mrg_eqv c) l.
Proof.
  intros Hl Pc. unfold mrg_sort. rewrite mrg_filter_rev.
  assert (H : forall l acc, Forall P l -> Forall P acc ->
            Forall P (fold_left (fun rp x => mrg_insert_tail lt x rp) l acc) /\
            filter (mrg_eqv c) (fold_left (fun rp x => mrg_insert_tail lt x rp) l acc)
            = rev (filter (mrg_eqv c) l) ++ filter (mrg_eqv c) acc).
  { clear l Hl. induction l as [|a l IH]; intros acc Hl Ha; cbn [fold_left]; [split; [exact Ha|reflexivity]|].
    pose proof (Forall_inv Hl) as Pa. apply Forall_inv_tail in Hl.
    assert (Ha' : Forall P (mrg_insert_tail lt a acc)).
    { apply Forall_forall. intros z Hz. apply mrg_insert_tail_elem in Hz. rewrite Forall_forall in Ha.
      destruct Hz as [->|Hz]; auto. }
    destruct (IH _ Hl Ha') as [I1 I2]. split; [exact I1|]. rewrite I2, mrg_insert_tail_stable by assumption.
    cbn [filter]. destruct (mrg_eqv c a); cbn [rev]; [rewrite <- app_assoc; reflexivity|reflexivity]. }
  destruct (H l [] Hl (Forall_nil _)) as [_ ->]. cbn [filter]. rewrite app_nil_r, rev_involutive. reflexivity.
Qed.

(* a sorted list is determined by the order inside its classes of Equal elements *)
Lemma mrg_stable_sorted_unique : forall l1 l2, Forall P l1 -> Forall P l2 ->
  mrg_is_sorted l1 -> mrg_is_sorted l2 ->
  (forall c, P c -> filter (mrg_eqv c) l1 = filter (mrg_eqv c) l2) -> l1 = l2.
Proof.
  assert (Hrefl : forall x, P x -> mrg_eqv x x = true) by (intros x Px; unfold mrg_eqv; rewrite lt_irrefl by exact Px; reflexivity).
  induction l1 as [|a l1 IH]; intros l2 H1 H2 S1 S2 Hf.
  - destruct l2 as [|y l2]; [reflexivity|]. pose proof (Forall_inv H2) as Py.
    specialize (Hf y Py). cbn [filter] in Hf. rewrite (Hrefl y Py) in Hf. discriminate.
  - pose proof (Forall_inv H1) as Pa. apply Forall_inv_tail in H1.
    inversion S1 as [|? ? S1' F1]; subst. rewrite Forall_forall in F1.
    pose proof (Hf a Pa) as Ha. cbn [filter] in Ha. rewrite (Hrefl a Pa) in Ha.
    destruct l2 as [|y l2]; [discriminate|]. pose proof (Forall_inv H2) as Py. apply Forall_inv_tail in H2.
    inversion S2 as [|? ? S2' F2]; subst. rewrite Forall_forall in F2.
    assert (Hya : y = a).
    { cbn [filter] in Ha. destruct (mrg_eqv a y) eqn:Ey; [injection Ha as ->; reflexivity|]. exfalso.
      assert (Hin : In a l2).
      { assert (Hin' : In a (filter (mrg_eqv a) l2)) by (rewrite <- Ha; now left). apply filter_In in Hin'. apply Hin'. }
      pose proof (F2 a Hin) as Hay. cbn beta in Hay.
      assert (Hlt : lt y a = true).
      { unfold mrg_eqv in Ey. rewrite Hay in Ey. cbn [negb andb] in Ey. apply negb_false_iff in Ey. exact Ey. }
      pose proof (Hf y Py) as Hy. cbn [filter] in Hy. rewrite (Hrefl y Py) in Hy.
      assert (Hyin : In y (a :: l1)).
      { assert (Hin' : In y (filter (mrg_eqv y) (a :: l1))) by (cbn [filter]; rewrite Hy; now left).
        apply filter_In in Hin'. apply Hin'. }
      destruct Hyin as [->|Hyin]; [rewrite lt_irrefl in Hlt by exact Pa; discriminate|].
      pose proof (F1 y Hyin) as Hya'. cbn beta in Hya'. congruence. }
    subst y. f_equal. apply IH; try assumption.
    intros c Pc. specialize (Hf c Pc). cbn [filter] in Hf. destruct (mrg_eqv c a); [injection Hf as Hf|]; exact Hf.
Qed.

(* hence: whatever stable sorting procedure is used, its result is the result of [mrg_sort] *)
Theorem mrg_sort_determined : forall l l', Forall P l -> Forall P l' -> mrg_is_sorted l' ->
  (forall c, P c -> filter (mrg_eqv c) l' = filter (mrg_eqv c) l) -> l' = mrg_sort lt l.
Proof.
  intros l l' Hl Hl' Hs Hst. apply mrg_stable_sorted_unique; try assumption.
  - apply Forall_forall. intros z Hz. apply mrg_sort_in in Hz. rewrite Forall_forall in Hl. apply Hl. exact Hz.
  - apply mrg_sort_sorted. exact Hl.
  - intros c Pc. rewrite mrg_sort_stable by assumption. apply Hst. exact Pc.
Qed.
End MrgStable.

(* ================================================================================================ *)
(* 2. the iteration                                                                                 *)
(* ================================================================================================ *)
Lemma mrg_iter_progress (mu : mrg_state -> nat) :
  (forall s s', mrg_step s = inl s' -> (mu s' < mu s)%nat) ->
  forall n s, match mrg_iter n s with inr _ => True | inl s' => (mu s' + 2 ^ n <= mu s)%nat end.
Proof.
  intros Hstep. induction n as [|n IH]; intros s; cbn [mrg_iter].
  - destruct (mrg_step s) as [s'|r] eqn:E; [|exact I]. apply Hstep in E. cbn. lia.
  - pose proof (IH s) as H1. destruct (mrg_iter n s) as [s1|r]; [|exact I].
    pose proof (IH s1) as H2. destruct (mrg_iter n s1) as [s2|r]; [|exact I].
    cbn [Nat.pow]. lia.
Qed.

Lemma mrg_iter_inv (I : mrg_state -> Prop) :
  (forall s s', I s -> mrg_step s = inl s' -> I s') ->
  forall n s, I s ->
  match mrg_iter n s with inl s' => I s' | inr r => exists s0, I s0 /\ mrg_step s0 = inr r end.
Proof.
  intros Hstep. induction n as [|n IH]; intros s Hs; cbn [mrg_iter].
  - destruct (mrg_step s) as [s'|r] eqn:E; [eapply Hstep; eassumption | exists s; split; assumption].
  - pose proof (IH s Hs) as H1. destruct (mrg_iter n s) as [s1|r]; [|exact H1]. apply IH. exact H1.
Qed.
(* ================================================================================================ *)
(* 3. termination (every input)                                                                     *)
(* ================================================================================================ *)
Lemma mrg_skip_written_spec c e : forall d d1 it, mrg_skip_written c e d = (d1, it) ->
  (length d1 <= length d)%nat /\ (it = true -> (length d1 < length d)%nat) /\ (it = false -> d1 = d) /\
  (exists pre, d = pre ++ d1 /\ forall b, In b pre -> mrg_end b <= e /\ c <= mrg_client b) /\
  match d1 with cb :: _ => (mrg_end cb <=? e) && (c <=? mrg_client cb) = false | [] => True end.
Proof.
  induction d as [|b r IH]; intros d1 it H; cbn [mrg_skip_written] in H.
  - injection H as <- <-. split; [cbn; lia|]. split; [discriminate|]. split; [reflexivity|].
    split; [|exact I]. exists []. split; [reflexivity|intros ? []].
  - destruct ((mrg_end b <=? e) && (c <=? mrg_client b)) eqn:E.
    + injection H as <- <-. destruct (mrg_skip_written c e r) as [d1' it'] eqn:E'.
      destruct (IH d1' it' eq_refl) as [H1 [H2 [H3 [[pre [H4 H5]] H6]]]]. cbn [fst length].
      split; [lia|]. split; [lia|]. split; [discriminate|]. split; [|exact H6].
      exists (b :: pre). split; [rewrite H4 at 1; reflexivity|]. intros b' [<-|Hb]; [lia|apply H5; exact Hb].
    + injection H as <- <-. split; [lia|]. split; [discriminate|]. split; [reflexivity|]. split; [|exact E].
      exists []. split; [reflexivity|intros ? []].
Qed.

Lemma mrg_write_succ_len fc : forall d w out d' w' out', mrg_write_succ fc d w out = (d', w', out') ->
  (length d' <= length d)%nat.
Proof.
  induction d as [|x r IH]; intros w out d' w' out' H; cbn [mrg_write_succ] in H.
  - injection H as <- _ _. lia.
  - destruct ((mrg_client x =? fc) && (mrg_clock x =? mrg_end w)).
    + apply IH in H. cbn [length]. lia.
    + injection H as <- _ _. lia.
Qed.

Lemma mrg_write_succ_cases fc : forall d w out d' w' out', mrg_write_succ fc d w out = (d', w', out') ->
  (length d' < length d)%nat \/ (d' = d /\ w' = w /\ out' = out).
Proof.
  intros d w out d' w' out' H. destruct d as [|x r]; cbn [mrg_write_succ] in H.
  - injection H as <- <- <-. right. repeat split.
  - destruct ((mrg_client x =? fc) && (mrg_clock x =? mrg_end w)).
    + apply mrg_write_succ_len in H. left. cbn [length]. lia.
    + injection H as <- <- <-. right. repeat split.
Qed.

Lemma mrg_write_succ_fires fc : forall x r w out d' w' out', mrg_write_succ fc (x :: r) w out = (d', w', out') ->
  mrg_client x = fc -> mrg_clock x = mrg_end w -> (length d' < length (x :: r))%nat.
Proof.
  intros x r w out d' w' out' H H1 H2. cbn [mrg_write_succ] in H.
  rewrite H1, H2, !N.eqb_refl in H. cbn [andb] in H. apply mrg_write_succ_len in H. cbn [length]. lia.
Qed.

(* which blocks are not (yet) covered by curr_write *)
Definition mrg_uncov (cw : option block) (b : block) : bool :=
  match cw with
  | None => true
  | Some w => negb ((mrg_client b =? mrg_client w) && (mrg_end b <=? mrg_end w))
  end.

Lemma mrg_try_squash_some : forall a b m, mrg_try_squash a b = Some m ->
  mrg_client m = mrg_client a /\ mrg_clock m = mrg_clock a /\ mrg_end m = mrg_end a + block_len b /\
  mrg_is_skip m = mrg_is_skip a /\ mrg_same_type a b = true.
Proof.
  intros a b m Hm. destruct a, b; cbn [mrg_try_squash] in Hm; try discriminate; injection Hm as <-;
    unfold mrg_end, mrg_clock, mrg_client; cbn [block_id block_len mrg_is_skip mrg_same_type]; repeat split; lia.
Qed.

Lemma mrg_squash_or_write_len : forall a d1 o out d2 w out2, mrg_squash_or_write a d1 o out = (d2, w, out2) ->
  (length d2 <= length d1)%nat.
Proof.
  intros a d1 o out d2 w out2 H. unfold mrg_squash_or_write in H.
  destruct (mrg_try_squash a o); injection H as <- _ _; [lia|]. destruct d1; cbn [tl length]; lia.
Qed.

(* the three-way branch, entered with the first decoder untouched (nothing was skipped) *)
Lemma mrg_branch_progress : forall cwb cb r1 out d2 w out2,
  mrg_branch (mrg_client cb) cwb cb r1 out = (d2, w, out2) ->
  (mrg_client cb = mrg_client cwb -> mrg_end cwb < mrg_end cb) ->
  (length d2 < length (cb :: r1))%nat \/
  (d2 = cb :: r1 /\
   (mrg_clock cb = mrg_end w \/
    (mrg_client w = mrg_client cwb /\ mrg_end cwb <= mrg_end w /\ mrg_end cb <= mrg_end w))).
Proof.
  intros cwb cb r1 out d2 w out2 H Hunc. unfold mrg_branch in H.
  destruct (negb (mrg_client cb =? mrg_client cwb)) eqn:Eb1.
  { injection H as <- _ _. left. cbn [length]. lia. }
  apply negb_false_iff, N.eqb_eq in Eb1. specialize (Hunc Eb1).
  destruct (mrg_end cwb <? mrg_clock cb) eqn:Egap.
  { apply N.ltb_lt in Egap. right.
    destruct cwb as [i o ro p ps c|i n|i n]; injection H as <- <- <-; (split; [reflexivity|]);
      unfold mrg_end, mrg_clock, mrg_client in *; cbn [block_id block_len cl ck] in *; lia. }
  apply N.ltb_ge in Egap. unfold mrg_overlap, mrg_squash_or_write in H.
  destruct (0 <? mrg_end cwb - mrg_clock cb) eqn:Ediff.
  - apply N.ltb_lt in Ediff.
    destruct cwb as [i o ro p ps c|i n|i n], cb as [j o' ro' p' ps' c'|j m|j m];
      cbn [mrg_splice mrg_try_squash fst snd tl] in H; injection H as <- <- <-;
      try (left; cbn [length]; lia);
      right; (split; [reflexivity|]); right;
      unfold mrg_end, mrg_clock, mrg_client in *; cbn [block_id block_len cl ck] in *; lia.
  - apply N.ltb_ge in Ediff.
    destruct cwb as [i o ro p ps c|i n|i n], cb as [j o' ro' p' ps' c'|j m|j m];
      cbn [mrg_try_squash tl] in H; injection H as <- <- <-;
      try (left; cbn [length]; lia);
      right; (split; [reflexivity|]); right;
      unfold mrg_end, mrg_clock, mrg_client in *; cbn [block_id block_len cl ck] in *; lia.
Qed.

Definition mrg_round_progress_stmt (d : list block) (cw : option block) (d' : list block) (cw' : option block) : Prop :=
  (length d' < length d)%nat \/
  (d' = d /\ exists w w' cb, cw = Some w /\ cw' = Some w' /\ mrg_client w' = mrg_client w /\
     mrg_end w <= mrg_end w' /\ In cb d /\ mrg_uncov cw cb = true /\ mrg_uncov cw' cb = false).

(* a pass either consumes a block of the first decoder, or leaves the decoders alone and makes curr_write
   cover one more of their blocks *)
Lemma mrg_round_progress : forall d cw out d' cw' out', d <> [] ->
  mrg_round d cw out = (d', cw', out') -> mrg_round_progress_stmt d cw d' cw'.
Proof.
  intros d cw out d' cw' out' Hne H. unfold mrg_round_progress_stmt.
  destruct d as [|cur dtl]; [congruence|]. clear Hne. unfold mrg_round in H.
  destruct cw as [cwb|].
  2:{ destruct (mrg_write_succ (mrg_client cur) dtl cur out) as [[d2 w] out2] eqn:E.
      injection H as <- _ _. apply mrg_write_succ_len in E. left. cbn [length]. lia. }
  destruct (mrg_skip_written (mrg_client cwb) (mrg_end cwb) (cur :: dtl)) as [d1 it] eqn:Esk.
  destruct (mrg_skip_written_spec _ _ _ _ _ Esk) as [L1 [L2 [L3 [_ L4]]]]. cbn [fst snd] in H.
  destruct d1 as [|cb r1].
  { injection H as <- _ _. left. destruct it; [apply L2; reflexivity|]. specialize (L3 eq_refl). discriminate. }
  destruct (negb (mrg_client cb =? mrg_client cur) || it && (mrg_end cwb <? mrg_clock cb)) eqn:Econt.
  { injection H as <- _ _. destruct it; [left; apply L2; reflexivity|].
    specialize (L3 eq_refl). injection L3 as -> ->. rewrite N.eqb_refl in Econt. discriminate. }
  apply orb_false_elim in Econt. destruct Econt as [Ec1 Ec2].
  apply negb_false_iff, N.eqb_eq in Ec1.
  destruct (mrg_branch (mrg_client cur) cwb cb r1 out) as [[d2 w] out2] eqn:Ebr. cbn [fst snd] in H.
  destruct (mrg_write_succ (mrg_client cur) d2 w out2) as [[d3 w3] out3] eqn:Ews. cbn [fst snd] in H.
  injection H as <- <- _. pose proof (mrg_write_succ_len _ _ _ _ _ _ _ Ews) as Lw.
  assert (Hlen2 : (length d2 <= length (cb :: r1))%nat).
  { clear -Ebr. unfold mrg_branch, mrg_overlap in Ebr.
    destruct (negb _); [injection Ebr as <- _ _; cbn [length]; lia|].
    destruct (_ <? mrg_clock cb); [destruct cwb; injection Ebr as <- _ _; lia|].
    destruct (0 <? _); [destruct cwb|]; apply mrg_squash_or_write_len in Ebr; cbn [length] in *; lia. }
  destruct it; [left; specialize (L2 eq_refl); lia|].
  specialize (L3 eq_refl). injection L3 as -> ->. clear L1 L2 Ec2 Ec1.
  assert (Hunc' : mrg_client cur = mrg_client cwb -> mrg_end cwb < mrg_end cur).
  { intros Ec. rewrite Ec, N.leb_refl, andb_true_r in L4. apply N.leb_gt in L4. exact L4. }
  destruct (mrg_branch_progress _ _ _ _ _ _ _ Ebr Hunc') as [G|[-> [G2|[G1 [G2 G3]]]]].
  - left. lia.
  - left. eapply mrg_write_succ_fires; [exact Ews|reflexivity|exact G2].
  - destruct (mrg_write_succ_cases _ _ _ _ _ _ _ Ews) as [G|[-> [-> _]]]; [left; exact G|].
    right. split; [reflexivity|]. exists cwb, w, cur.
    split; [reflexivity|]. split; [reflexivity|]. split; [exact G1|]. split; [exact G2|]. split; [now left|].
    unfold mrg_uncov.
    destruct (N.eq_dec (mrg_client cur) (mrg_client cwb)) as [Ec|Ec].
    + specialize (Hunc' Ec). rewrite G1, Ec, N.eqb_refl. cbn [andb]. split; apply eq_true_iff_eq; lia.
    + exfalso. (* different client: the first branch consumes *)
      unfold mrg_branch in Ebr. replace (negb (mrg_client cur =? mrg_client cwb)) with true in Ebr by lia.
      injection Ebr as E _ _. apply (f_equal (@length _)) in E. cbn [length] in E. lia.
Qed.

(* ---- the measure ---- *)
Lemma mrg_concat_filter_current : forall ds, concat (filter mrg_has_current ds) = concat ds.
Proof.
  induction ds as [|d ds IH]; [reflexivity|]. cbn [filter concat].
  destruct d; cbn [mrg_has_current concat app]; rewrite IH; reflexivity.
Qed.

Lemma mrg_perm_concat {A} : forall (l l' : list (list A)), Permutation l l' -> Permutation (concat l) (concat l').
Proof.
  induction 1; cbn [concat].
  - reflexivity.
  - apply Permutation_app_head. assumption.
  - rewrite !app_assoc. apply Permutation_app_tail. apply Permutation_app_comm.
  - etransitivity; eassumption.
Qed.

Lemma mrg_filter_len_perm {A} (f : A -> bool) : forall l l', Permutation l l' ->
  length (filter f l) = length (filter f l').
Proof.
  induction 1; cbn [filter]; try reflexivity.
  - destruct (f x); cbn [length]; congruence.
  - destruct (f x), (f y); reflexivity.
  - congruence.
Qed.

Lemma mrg_filter_len_le {A} (f : A -> bool) : forall l, (length (filter f l) <= length l)%nat.
Proof. induction l as [|x l IH]; cbn [filter length]; [lia|]. destruct (f x); cbn [length]; lia. Qed.

Lemma mrg_filter_len_mono {A} (f f' : A -> bool) : forall l,
  (forall b, In b l -> f' b = true -> f b = true) -> (length (filter f' l) <= length (filter f l))%nat.
Proof.
  induction l as [|x l IH]; intros H; cbn [filter length]; [lia|].
  assert (IH' : (length (filter f' l) <= length (filter f l))%nat) by (apply IH; intros; apply H; [now right|assumption]).
  destruct (f' x) eqn:E'; [rewrite (H x (or_introl eq_refl) E'); cbn [length]; lia|].
  destruct (f x); cbn [length]; lia.
Qed.

Lemma mrg_filter_len_strict {A} (f f' : A -> bool) : forall l,
  (forall b, In b l -> f' b = true -> f b = true) ->
  (exists b, In b l /\ f b = true /\ f' b = false) ->
  (length (filter f' l) < length (filter f l))%nat.
Proof.
  induction l as [|x l IH]; intros H [b [Hb [H1 H2]]]; [destruct Hb|].
  cbn [filter].
  assert (Hm : (length (filter f' l) <= length (filter f l))%nat)
    by (apply mrg_filter_len_mono; intros; apply H; [now right|assumption]).
  destruct Hb as [<-|Hb].
  - rewrite H1, H2. cbn [length]. lia.
  - assert (IH' : (length (filter f' l) < length (filter f l))%nat).
    { apply IH; [intros; apply H; [now right|assumption]|]. exists b. repeat split; assumption. }
    destruct (f' x) eqn:E'; [rewrite (H x (or_introl eq_refl) E')|destruct (f x)]; cbn [length]; lia.
Qed.

Definition mrg_mu (s : mrg_state) : nat :=
  let all := concat (mrg_decs s) in
  (length all * length all + length (filter (mrg_uncov (mrg_cw s)) all))%nat.

Lemma mrg_step_decreases : forall s s', mrg_step s = inl s' -> (mrg_mu s' < mrg_mu s)%nat.
Proof.
  intros [ds cw out] s' H. unfold mrg_step in H. cbn [mrg_decs mrg_cw mrg_out] in H.
  destruct (mrg_sort mrg_dec_lt (filter mrg_has_current ds)) as [|d rest] eqn:Es; [discriminate|].
  destruct (mrg_round d cw out) as [[d' cw'] out'] eqn:Er. injection H as <-.
  assert (Hperm : Permutation (d ++ concat rest) (concat ds)).
  { rewrite <- (mrg_concat_filter_current ds). change (d ++ concat rest) with (concat (d :: rest)).
    apply mrg_perm_concat. rewrite <- Es. apply mrg_sort_perm. }
  assert (Hne : d <> []).
  { assert (Hin : In d (filter mrg_has_current ds)) by (apply (mrg_sort_in mrg_dec_lt); rewrite Es; now left).
    apply filter_In in Hin. destruct Hin as [_ Hc]. destruct d; [discriminate|congruence]. }
  unfold mrg_mu. cbn [mrg_decs mrg_cw concat].
  rewrite <- (Permutation_length Hperm), <- (mrg_filter_len_perm (mrg_uncov cw) _ _ Hperm).
  destruct (mrg_round_progress _ _ _ _ _ _ Hne Er) as [Hl|[-> [w [w' [cb [-> [-> [Hc [He [Hin [Hu Hu']]]]]]]]]]].
  - pose proof (mrg_filter_len_le (mrg_uncov cw') (d' ++ concat rest)) as Hk.
    rewrite !app_length in *. nia.
  - apply Nat.add_lt_mono_l. apply mrg_filter_len_strict.
    + intros b _ Hb. unfold mrg_uncov in *. rewrite Hc in Hb.
      apply negb_true_iff. apply negb_true_iff in Hb. lia.
    + exists cb. split; [apply in_or_app; now left|]. split; assumption.
Qed.

Lemma mrg_iter_terminates : forall n s, (mrg_mu s < 2 ^ n)%nat -> exists r, mrg_iter n s = inr r.
Proof.
  intros n s H. pose proof (mrg_iter_progress mrg_mu mrg_step_decreases n s) as P.
  destruct (mrg_iter n s) as [s'|r]; [lia|]. exists r. reflexivity.
Qed.

Lemma mrg_fuel_bound : forall us, (mrg_mu (mrg_init us) < 2 ^ mrg_fuel us)%nat.
Proof.
  intros us. unfold mrg_fuel, mrg_mu, mrg_remaining.
  set (all := concat (mrg_decs (mrg_init us))).
  pose proof (mrg_filter_len_le (mrg_uncov (mrg_cw (mrg_init us))) all) as Hk.
  set (r := N.of_nat (length all)).
  set (m := r * r + r + 1).
  assert (Hm : 0 < m) by (unfold m; lia).
  pose proof (N.log2_spec m Hm) as [_ Hlog].
  assert (Hpow : (2 ^ S (N.to_nat (N.log2 m)) = N.to_nat (2 ^ N.succ (N.log2 m)))%nat).
  { rewrite N2Nat.inj_pow, N2Nat.inj_succ. reflexivity. }
  rewrite Hpow.
  assert ((length all * length all + length all < N.to_nat m)%nat); [|lia].
  unfold m, r. nia.
Qed.

(* (a) the fuel computed by [mrg_merge_updates] is sufficient, for EVERY argument list *)
Theorem mrg_fuel_sufficient : forall us, mrg_merge_updates_fuel (mrg_fuel us) us <> None.
Proof.
  intros us. unfold mrg_merge_updates_fuel.
  destruct (mrg_iter_terminates _ _ (mrg_fuel_bound us)) as [r ->]. discriminate.
Qed.

Corollary mrg_merge_updates_eq : forall us,
  exists s, mrg_iter (mrg_fuel us) (mrg_init us) = inr s /\ mrg_merge_updates us = mrg_finish us s.
Proof.
  intros us. destruct (mrg_iter_terminates _ _ (mrg_fuel_bound us)) as [r Hr].
  exists r. split; [exact Hr|]. unfold mrg_merge_updates, mrg_merge_updates_fuel. rewrite Hr. reflexivity.
Qed.

(* ================================================================================================ *)
(* 4. units of blocks: which ids they carry                                                         *)
(* ================================================================================================ *)
Lemma mrg_item_units_range : forall us c k o ro p ps x, In x (units_of_item c k o ro p ps us) ->
  cl (xid x) = c /\ k <= ck (xid x) /\ ck (xid x) < k + N.of_nat (length us).
Proof.
  induction us as [|u us IH]; intros c k o ro p ps x H; cbn [units_of_item] in H; [destruct H|].
  destruct H as [<-|H].
  - cbn [xid oid cl ck length]. lia.
  - apply IH in H. cbn [length]. lia.
Qed.

Lemma mrg_item_units_cover : forall us c k o ro p ps j, k <= j -> j < k + N.of_nat (length us) ->
  exists x, In x (units_of_item c k o ro p ps us) /\ xid x = mkid c j.
Proof.
  induction us as [|u us IH]; intros c k o ro p ps j H1 H2; cbn [length] in H2; [lia|].
  cbn [units_of_item]. destruct (N.eq_dec j k) as [->|Hne].
  - eexists. split; [now left|]. reflexivity.
  - destruct (IH c (k + 1) (Some (mkid c k)) ro p ps j) as [x [Hx Hi]]; [lia|lia|].
    exists x. split; [now right|exact Hi].
Qed.

Lemma mrg_gc_units_range : forall n c k x, In x (gc_units c k n) ->
  cl (xid x) = c /\ k <= ck (xid x) /\ ck (xid x) < k + N.of_nat n.
Proof.
  induction n as [|n IH]; intros c k x H; cbn [gc_units] in H; [destruct H|].
  destruct H as [<-|H].
  - cbn [xid cl ck]. lia.
  - apply IH in H. lia.
Qed.

Lemma mrg_gc_units_cover : forall n c k j, k <= j -> j < k + N.of_nat n ->
  exists x, In x (gc_units c k n) /\ xid x = mkid c j.
Proof.
  induction n as [|n IH]; intros c k j H1 H2; [lia|].
  cbn [gc_units]. destruct (N.eq_dec j k) as [->|Hne].
  - eexists. split; [now left|]. reflexivity.
  - destruct (IH c (k + 1) j) as [x [Hx Hi]]; [lia|lia|]. exists x. split; [now right|exact Hi].
Qed.

Lemma mrg_units_range : forall b x, blk_wf b = true -> In x (units_of_block b) ->
  cl (xid x) = mrg_client b /\ mrg_clock b <= ck (xid x) /\ ck (xid x) < mrg_end b.
Proof.
  intros b x Hwf H. unfold mrg_end, mrg_clock, mrg_client.
  destruct b as [i o ro p ps c|i n|i n]; cbn [units_of_block block_id block_len blk_wf] in *.
  - apply mrg_item_units_range in H. rewrite (blk_content_len_units c Hwf) in H. exact H.
  - apply mrg_gc_units_range in H. rewrite N2Nat.id in H. exact H.
  - destruct H.
Qed.

Lemma mrg_units_cover : forall b j, blk_wf b = true -> mrg_is_skip b = false ->
  mrg_clock b <= j -> j < mrg_end b -> exists x, In x (units_of_block b) /\ xid x = mkid (mrg_client b) j.
Proof.
  intros b j Hwf Hs H1 H2. unfold mrg_end, mrg_clock, mrg_client in *.
  destruct b as [i o ro p ps c|i n|i n]; cbn [units_of_block block_id block_len blk_wf mrg_is_skip] in *.
  - apply mrg_item_units_cover; [exact H1|]. rewrite (blk_content_len_units c Hwf). exact H2.
  - apply mrg_gc_units_cover; [exact H1|]. rewrite N2Nat.id. exact H2.
  - discriminate.
Qed.

Definition mrg_functional (U : list xop) : Prop :=
  forall x y, In x U -> In y U -> xid x = xid y -> x = y.

(* ---- Block::splice against blk_split ---- *)
Lemma mrg_splice_split : forall b k l r, blk_split b k = Some (l, r) ->
  snd (mrg_splice b k) = r /\ mrg_same_type b r = true /\
  fst (mrg_splice b k) = match b with BItem _ _ _ _ _ _ => l | _ => b end.
Proof.
  intros b k l r H. unfold blk_split in H. destruct ((0 <? k) && (k <? block_len b)); [|discriminate].
  destruct b as [i o ro p ps c|i n|i n]; cbn [mrg_splice mrg_same_type fst snd].
  - destruct (blk_content_split c k) as [[c1 c2]|] eqn:E; [|discriminate]. injection H as <- <-.
    assert (Hc : mrg_content_splice c k = (c1, c2)).
    { destruct c; cbn [blk_content_split mrg_content_splice] in *; try discriminate;
        try (injection E as <- <-; reflexivity).
      destruct (str_len16 (fst (blk_split_str s k)) =? k); [|discriminate]. injection E as <- <-. reflexivity. }
    rewrite Hc. cbn [fst snd]. repeat split.
  - injection H as <- <-. repeat split.
  - injection H as <- <-. repeat split.
Qed.

(* ---- the order of blocks ---- *)
Definition mrg_before (a b : block) : Prop :=
  mrg_client b < mrg_client a \/ (mrg_client a = mrg_client b /\ mrg_end a <= mrg_clock b).
Definition mrg_key_le (a b : block) : Prop :=
  mrg_client b < mrg_client a \/ (mrg_client a = mrg_client b /\ mrg_clock a <= mrg_clock b).

Lemma mrg_before_trans : forall a b c, mrg_before a b -> mrg_before b c -> mrg_before a c.
Proof. unfold mrg_before, mrg_end. intros a b c H1 H2. lia. Qed.
Lemma mrg_before_key_le : forall a b, mrg_before a b -> mrg_key_le a b.
Proof. unfold mrg_before, mrg_key_le, mrg_end. intros a b H. lia. Qed.
Lemma mrg_key_le_trans : forall a b c, mrg_key_le a b -> mrg_key_le b c -> mrg_key_le a c.
Proof. unfold mrg_key_le. intros a b c H1 H2. lia. Qed.
Lemma mrg_key_le_refl : forall a, mrg_key_le a a.
Proof. unfold mrg_key_le. intros a. lia. Qed.

(* ---- the comparison of the sort and [mrg_key_le] ---- *)
Definition mrg_dec_le (d1 d2 : list block) : Prop :=
  match d1, d2 with h1 :: _, h2 :: _ => mrg_key_le h1 h2 | _, _ => True end.

Lemma mrg_dec_lt_le : forall d1 d2, d1 <> [] -> d2 <> [] -> mrg_dec_lt d1 d2 = true -> mrg_dec_le d1 d2.
Proof.
  intros [|h1 r1] [|h2 r2] H1 H2 H; try congruence. cbn [mrg_dec_lt mrg_dec_le] in *.
  unfold mrg_cmp_blocks, mrg_key_le in *.
  destruct (N.compare_spec (mrg_client h1) (mrg_client h2)) as [Ec|Ec|Ec]; [|discriminate|lia].
  destruct (N.compare_spec (mrg_clock h1) (mrg_clock h2)) as [Ek|Ek|Ek]; [lia|lia|discriminate].
Qed.

Lemma mrg_dec_nlt_le : forall d1 d2, d1 <> [] -> d2 <> [] -> mrg_dec_lt d1 d2 = false -> mrg_dec_le d2 d1.
Proof.
  intros [|h1 r1] [|h2 r2] H1 H2 H; try congruence. cbn [mrg_dec_lt mrg_dec_le] in *.
  unfold mrg_cmp_blocks, mrg_key_le in *.
  destruct (N.compare_spec (mrg_client h1) (mrg_client h2)) as [Ec|Ec|Ec]; [|lia|discriminate].
  destruct (N.compare_spec (mrg_clock h1) (mrg_clock h2)) as [Ek|Ek|Ek]; [lia| |lia].
  destruct (negb (mrg_is_skip h1) || mrg_is_skip h2); discriminate.
Qed.

Lemma mrg_sorted_decoders_head_min : forall ds d rest,
  mrg_sort mrg_dec_lt (filter mrg_has_current ds) = d :: rest ->
  forall d', In d' rest -> mrg_dec_le d d' /\ d' <> [].
Proof.
  intros ds d rest Es d' Hd'.
  assert (HP : Forall (fun x : list block => x <> []) (filter mrg_has_current ds)).
  { apply Forall_forall. intros x Hx. apply filter_In in Hx. destruct Hx as [_ Hx]. destruct x; [discriminate|congruence]. }
  pose proof (mrg_sort_head_min mrg_dec_lt (fun x => x <> []) mrg_dec_le) as Hmin.
  specialize (Hmin).
  assert (Htr : forall x y z : list block, x <> [] -> y <> [] -> z <> [] -> mrg_dec_le x y -> mrg_dec_le y z -> mrg_dec_le x z).
  { intros [|a ?] [|b ?] [|c ?] ? ? ?; try congruence. cbn [mrg_dec_le]. apply mrg_key_le_trans. }
  assert (Hrf : forall x : list block, x <> [] -> mrg_dec_le x x).
  { intros [|a ?] ?; [congruence|]. cbn [mrg_dec_le]. apply mrg_key_le_refl. }
  specialize (Hmin Htr Hrf mrg_dec_lt_le mrg_dec_nlt_le _ HP). rewrite Es in Hmin.
  split; [apply Hmin; exact Hd'|].
  assert (Hin : In d' (filter mrg_has_current ds)).
  { apply (mrg_sort_in mrg_dec_lt). rewrite Es. now right. }
  rewrite Forall_forall in HP. apply HP. exact Hin.
Qed.

(* ================================================================================================ *)
(* 5. the written blocks                                                                            *)
(* ================================================================================================ *)
Definition mrg_out_blocks (out : list (N * list block)) : list block := flat_map snd out.
Definition mrg_out_units (out : list (N * list block)) : list xop :=
  flat_map (fun cb => flat_map units_of_block (snd cb)) out.

Lemma mrg_out_units_blocks : forall out x,
  In x (mrg_out_units out) <-> exists b, In b (mrg_out_blocks out) /\ In x (units_of_block b).
Proof.
  intros out x. unfold mrg_out_units, mrg_out_blocks. rewrite in_flat_map. split.
  - intros [cb [H1 H2]]. apply in_flat_map in H2. destruct H2 as [b [H2 H3]].
    exists b. split; [|exact H3]. apply in_flat_map. exists cb. split; assumption.
  - intros [b [H1 H2]]. apply in_flat_map in H1. destruct H1 as [cb [H1 H3]].
    exists cb. split; [exact H1|]. apply in_flat_map. exists b. split; assumption.
Qed.

Lemma mrg_add_client_blocks_in : forall l c bs b,
  In b (mrg_out_blocks (add_client_blocks l c bs)) <-> In b (mrg_out_blocks l) \/ In b bs.
Proof.
  unfold mrg_out_blocks. induction l as [|[c' b'] r IH]; intros c bs b; cbn [add_client_blocks].
  - cbn [flat_map snd In]. rewrite app_nil_r. tauto.
  - destruct (c' =? c); cbn [flat_map snd]; rewrite !in_app_iff; [tauto|]. rewrite IH. tauto.
Qed.

Lemma mrg_add_block_units : forall out w x,
  In x (mrg_out_units (mrg_add_block out w)) <-> In x (mrg_out_units out) \/ In x (units_of_block w).
Proof.
  intros out w x. rewrite !mrg_out_units_blocks. unfold mrg_add_block. split.
  - intros [b [H1 H2]]. apply mrg_add_client_blocks_in in H1. destruct H1 as [H1|[<-|[]]].
    + left. exists b. split; assumption.
    + right. exact H2.
  - intros [[b [H1 H2]]|H].
    + exists b. split; [|exact H2]. apply mrg_add_client_blocks_in. now left.
    + exists w. split; [|exact H]. apply mrg_add_client_blocks_in. right. now left.
Qed.

(* (b) the shape of the result: one entry per client, clients strictly descending (the order in which they
   are first written), every entry non-empty and holding blocks of its client, and the blocks - read entry
   after entry - in [mrg_before] order: within a client increasing clocks, no overlap *)
Definition mrg_out_ok (out : list (N * list block)) : Prop :=
  (forall c bs, In (c, bs) out -> bs <> [] /\ forall b, In b bs -> mrg_client b = c) /\
  StronglySorted (fun c c' : N => c' < c) (map fst out) /\
  StronglySorted mrg_before (mrg_out_blocks out).

Lemma mrg_add_client_keys : forall l c bs k,
  In k (map fst (add_client_blocks l c bs)) -> In k (map fst l) \/ k = c.
Proof.
  induction l as [|[c' b'] r IH]; intros c bs k H; cbn [add_client_blocks] in H.
  - destruct H as [<-|[]]. now right.
  - destruct (c' =? c); cbn [map fst] in *; [now left|].
    destruct H as [<-|H]; [left; now left|]. apply IH in H. destruct H; [left; now right|now right].
Qed.

Lemma mrg_add_block_ok : forall out w, mrg_out_ok out ->
  (forall b, In b (mrg_out_blocks out) -> mrg_before b w) ->
  mrg_out_blocks (mrg_add_block out w) = mrg_out_blocks out ++ [w] /\ mrg_out_ok (mrg_add_block out w).
Proof.
  intros out w Hok Hb.
  assert (Heq : mrg_out_blocks (mrg_add_block out w) = mrg_out_blocks out ++ [w] /\
                (forall c bs, In (c, bs) (mrg_add_block out w) -> bs <> [] /\ forall b, In b bs -> mrg_client b = c) /\
                StronglySorted (fun c c' : N => c' < c) (map fst (mrg_add_block out w))).
  { destruct Hok as [He [Hk _]]. unfold mrg_add_block, mrg_out_blocks in *.
    induction out as [|[c' bs'] r IH]; cbn [add_client_blocks].
    - cbn [flat_map snd map fst app]. split; [reflexivity|]. split.
      + intros c bs [E|[]]. injection E as <- <-. split; [discriminate|]. intros b [<-|[]]. reflexivity.
      + constructor; constructor.
    - cbn [map fst] in Hk. inversion Hk as [|? ? Hk1 Hk2]; subst.
      destruct (He c' bs' (or_introl eq_refl)) as [Hne Hcl].
      destruct (c' =? mrg_client w) eqn:E.
      + apply N.eqb_eq in E.
        assert (Hr : r = []).
        { destruct r as [|[c'' bs''] r']; [reflexivity|]. exfalso.
          destruct (He c'' bs'' (or_intror (or_introl eq_refl))) as [Hne' Hcl'].
          destruct bs'' as [|b bs'']; [congruence|].
          cbn [map fst] in Hk2. apply Forall_inv in Hk2.
          specialize (Hcl' b (or_introl eq_refl)).
          assert (Hbw : mrg_before b w).
          { apply Hb. cbn [flat_map snd]. apply in_or_app. right. apply in_or_app. left. now left. }
          unfold mrg_before in Hbw. lia. }
        subst r. cbn [flat_map snd map fst]. rewrite !app_nil_r. split; [reflexivity|]. split.
        * intros c bs [Ein|[]]. injection Ein as <- <-. split; [destruct bs'; discriminate|].
          intros b Hin. apply in_app_iff in Hin. destruct Hin as [Hin|[<-|[]]]; [apply Hcl; exact Hin|congruence].
        * exact Hk.
      + apply N.eqb_neq in E.
        destruct IH as [IH1 [IH2 IH3]].
        * intros c bs Hin. apply He. now right.
        * exact Hk1.
        * intros b Hin. apply Hb. cbn [flat_map snd]. apply in_or_app. now right.
        * cbn [flat_map snd map fst]. rewrite IH1, app_assoc. split; [reflexivity|]. split.
          -- intros c bs [Ein|Hin]; [injection Ein as <- <-; split; assumption|apply IH2; exact Hin].
          -- constructor; [exact IH3|]. apply Forall_forall. intros k Hk'.
             apply mrg_add_client_keys in Hk'. destruct Hk' as [Hk'| ->].
             ++ rewrite Forall_forall in Hk2. apply Hk2. exact Hk'.
             ++ destruct bs' as [|b bs']; [congruence|].
                specialize (Hcl b (or_introl eq_refl)).
                assert (Hbw : mrg_before b w).
                { apply Hb. cbn [flat_map snd]. apply in_or_app. left. now left. }
                unfold mrg_before in Hbw. lia. }
  destruct Heq as [H1 [H2 H3]]. split; [exact H1|]. split; [exact H2|]. split; [exact H3|].
  rewrite H1. apply mrg_sorted_snoc; [apply Hok|]. apply Forall_forall. exact Hb.
Qed.

(* ================================================================================================ *)
(* 6. the invariant of the loop                                                                     *)
(* ================================================================================================ *)
Definition mrg_pending (ds : list (list block)) (b : block) : Prop := exists d, In d ds /\ In b d.
Definition mrg_written (cw : option block) (out : list (N * list block)) (x : xop) : Prop :=
  (exists w, cw = Some w /\ In x (units_of_block w)) \/ In x (mrg_out_units out).

Ltac mrg_acc := unfold mrg_end, mrg_clock, mrg_client in *; cbn [block_id block_len cl ck] in *.

Section MrgInv.
(* every block the decoders were given (Skip blocks are not given to them) *)
Variable B0 : list block.
Hypothesis HB0 : forall b, In b B0 -> mrg_is_skip b = false /\ blk_wf b = true /\ 0 < block_len b.
(* views of one history: one id, one unit - as seen through [pi] (the identity, or a function that forgets
   what the wire format does not always carry) *)
Variable T : Type.
Variable pi : xop -> T.
Hypothesis Hfun : forall x y, In x (flat_map units_of_block B0) -> In y (flat_map units_of_block B0) ->
  xid x = xid y -> pi x = pi y.

(* written / in a block, up to [pi] *)
Definition mrg_wr (cw : option block) (out : list (N * list block)) (x : xop) : Prop :=
  exists y, mrg_written cw out y /\ pi y = pi x.
Definition mrg_inu (o : block) (x : xop) : Prop := exists y, In y (units_of_block o) /\ pi y = pi x.
(* where one block ends inside another one, that one can be cut (true for every content but a string cut
   inside a surrogate pair) *)
Hypothesis Hcut : forall a b, In a B0 -> In b B0 -> mrg_client a = mrg_client b ->
  mrg_clock b < mrg_end a -> mrg_end a < mrg_end b -> blk_split b (mrg_end a - mrg_clock b) <> None.

Definition mrg_good (o : block) : Prop :=
  blk_wf o = true /\ 0 < block_len o /\ incl (units_of_block o) (flat_map units_of_block B0) /\
  (mrg_is_skip o = false -> exists a, In a B0 /\ mrg_client a = mrg_client o /\ mrg_end a = mrg_end o).

Record mrg_inv (ds : list (list block)) (cw : option block) (out : list (N * list block)) : Prop := {
  mrg_inv_sorted : forall d, In d ds -> StronglySorted mrg_before d;
  mrg_inv_input : forall b, mrg_pending ds b -> In b B0;
  mrg_inv_cw : forall w, cw = Some w -> mrg_good w;
  mrg_inv_out : incl (mrg_out_units out) (flat_map units_of_block B0);
  mrg_inv_complete : forall x, In x (flat_map units_of_block B0) ->
     (exists b, mrg_pending ds b /\ In x (units_of_block b)) \/ mrg_wr cw out x;
  mrg_inv_stale : forall w b x, cw = Some w -> mrg_pending ds b -> In x (units_of_block b) ->
     cl (xid x) = mrg_client w -> ck (xid x) < mrg_end w -> mrg_wr cw out x;
  mrg_inv_clients : forall w b, cw = Some w -> mrg_pending ds b -> mrg_client b <= mrg_client w;
  mrg_inv_start : cw = None -> out = [];
  mrg_inv_ok : mrg_out_ok out;
  mrg_inv_bound : forall w b, cw = Some w -> In b (mrg_out_blocks out) -> mrg_before b w;
  mrg_inv_outwf : forall b, In b (mrg_out_blocks out) -> blk_wf b = true /\ 0 < block_len b
}.

Lemma mrg_good_input : forall b, In b B0 -> mrg_good b.
Proof.
  intros b Hb. destruct (HB0 b Hb) as [H1 [H2 H3]]. split; [exact H2|]. split; [exact H3|]. split.
  - intros x Hx. apply in_flat_map. exists b. split; assumption.
  - intros _. exists b. repeat split. exact Hb.
Qed.

Lemma mrg_xid_eta : forall x, xid x = mkid (cl (xid x)) (ck (xid x)).
Proof. intros x. destruct (xid x). reflexivity. Qed.

(* a unit of the history whose id lies in a block is (up to [pi]) the unit of that block *)
Lemma mrg_agree : forall o x, mrg_good o -> mrg_is_skip o = false ->
  In x (flat_map units_of_block B0) -> cl (xid x) = mrg_client o ->
  mrg_clock o <= ck (xid x) -> ck (xid x) < mrg_end o -> mrg_inu o x.
Proof.
  intros o x [Hwf [_ [Hin _]]] Hs Hx Hc H1 H2.
  destruct (mrg_units_cover o (ck (xid x)) Hwf Hs H1 H2) as [y [Hy Hi]].
  exists y. split; [exact Hy|].
  apply Hfun; [apply Hin; exact Hy|exact Hx|]. rewrite Hi, <- Hc. symmetry. apply mrg_xid_eta.
Qed.

Lemma mrg_pending_units_in : forall ds cw out b x, mrg_inv ds cw out -> mrg_pending ds b ->
  In x (units_of_block b) -> In x (flat_map units_of_block B0).
Proof.
  intros ds cw out b x I Hb Hx. apply in_flat_map. exists b. split; [apply (mrg_inv_input _ _ _ I); exact Hb|exact Hx].
Qed.

Lemma mrg_pending_cons_inv : forall b r rest b', mrg_pending ((b :: r) :: rest) b' ->
  b' = b \/ mrg_pending (r :: rest) b'.
Proof.
  intros b r rest b' [d [[<-|Hd] Hb]].
  - destruct Hb as [<-|Hb]; [now left|]. right. exists r. split; [now left|exact Hb].
  - right. exists d. split; [now right|exact Hb].
Qed.

Lemma mrg_pending_tail : forall b r rest b', mrg_pending (r :: rest) b' -> mrg_pending ((b :: r) :: rest) b'.
Proof.
  intros b r rest b' [d [[<-|Hd] Hb]].
  - exists (b :: r). split; [now left|now right].
  - exists d. split; [now right|exact Hb].
Qed.

(* the decoder drops a block that curr_write covers *)
Lemma mrg_inv_drop : forall b r rest w out, mrg_inv ((b :: r) :: rest) (Some w) out ->
  mrg_client b = mrg_client w -> mrg_end b <= mrg_end w -> mrg_inv (r :: rest) (Some w) out.
Proof.
  intros b r rest w out I Hc He.
  assert (Hsub : forall b', mrg_pending (r :: rest) b' -> mrg_pending ((b :: r) :: rest) b') by (apply mrg_pending_tail).
  constructor.
  - intros d [<-|Hd].
    + pose proof (mrg_inv_sorted _ _ _ I (b :: r) (or_introl eq_refl)) as Hs. inversion Hs; assumption.
    + apply (mrg_inv_sorted _ _ _ I). now right.
  - intros b' Hb'. apply (mrg_inv_input _ _ _ I). apply Hsub. exact Hb'.
  - apply (mrg_inv_cw _ _ _ I).
  - apply (mrg_inv_out _ _ _ I).
  - intros x Hx. destruct (mrg_inv_complete _ _ _ I x Hx) as [[b' [Hb' Hx']]|Hw]; [|now right].
    apply mrg_pending_cons_inv in Hb'. destruct Hb' as [->|Hb'].
    + right. assert (Hbp : mrg_pending ((b :: r) :: rest) b) by (exists (b :: r); split; now left).
      destruct (HB0 b (mrg_inv_input _ _ _ I b Hbp)) as [_ [Hwf _]].
      destruct (mrg_units_range b x Hwf Hx') as [R1 [R2 R3]].
      apply (mrg_inv_stale _ _ _ I w b x eq_refl Hbp Hx'); lia.
    + left. exists b'. split; assumption.
  - intros w' b' x Hw Hb'. apply (mrg_inv_stale _ _ _ I w' b' x Hw). apply Hsub. exact Hb'.
  - intros w' b' Hw Hb'. apply (mrg_inv_clients _ _ _ I w' b' Hw). apply Hsub. exact Hb'.
  - discriminate.
  - apply (mrg_inv_ok _ _ _ I).
  - apply (mrg_inv_bound _ _ _ I).
  - apply (mrg_inv_outwf _ _ _ I).
Qed.

Lemma mrg_written_add : forall w out o x,
  mrg_written (Some w) out x -> mrg_written (Some o) (mrg_add_block out w) x.
Proof.
  intros w out o x [[w' [E H]]|H]; right; apply mrg_add_block_units.
  - injection E as <-. now right.
  - now left.
Qed.
Lemma mrg_wr_add : forall w out o x, mrg_wr (Some w) out x -> mrg_wr (Some o) (mrg_add_block out w) x.
Proof. intros w out o x [y [H E]]. exists y. split; [apply mrg_written_add; exact H|exact E]. Qed.

(* curr_write is written and replaced by [o] *)
Lemma mrg_inv_adv : forall ds w out o, mrg_inv ds (Some w) out -> mrg_good o -> mrg_before w o ->
  (forall b x, mrg_pending ds b -> In x (units_of_block b) -> cl (xid x) = mrg_client o ->
     ck (xid x) < mrg_end o -> mrg_inu o x \/ mrg_wr (Some w) out x) ->
  (forall b, mrg_pending ds b -> mrg_client b <= mrg_client o) ->
  mrg_inv ds (Some o) (mrg_add_block out w).
Proof.
  intros ds w out o I Hg Hwo Hst Hcl.
  destruct (mrg_add_block_ok out w (mrg_inv_ok _ _ _ I) (fun b => mrg_inv_bound _ _ _ I w b eq_refl)) as [Hbl Hok].
  constructor.
  - apply (mrg_inv_sorted _ _ _ I).
  - apply (mrg_inv_input _ _ _ I).
  - intros w' E. injection E as <-. exact Hg.
  - intros x Hx. apply mrg_add_block_units in Hx. destruct Hx as [Hx|Hx].
    + apply (mrg_inv_out _ _ _ I). exact Hx.
    + destruct (mrg_inv_cw _ _ _ I w eq_refl) as [_ [_ [Hin _]]]. apply Hin. exact Hx.
  - intros x Hx. destruct (mrg_inv_complete _ _ _ I x Hx) as [Hp|Hw]; [now left|].
    right. apply mrg_wr_add. exact Hw.
  - intros w' b x E Hb Hx H1 H2. injection E as <-.
    destruct (Hst b x Hb Hx H1 H2) as [[y [Hy Ey]]|H].
    + exists y. split; [|exact Ey]. left. exists o. split; [reflexivity|exact Hy].
    + apply mrg_wr_add. exact H.
  - intros w' b E Hb. injection E as <-. apply Hcl. exact Hb.
  - discriminate.
  - exact Hok.
  - intros w' b E Hb. injection E as <-. rewrite Hbl in Hb. apply in_app_iff in Hb.
    destruct Hb as [Hb|[<-|[]]]; [|exact Hwo].
    eapply mrg_before_trans; [apply (mrg_inv_bound _ _ _ I w b eq_refl Hb)|exact Hwo].
  - intros b Hb. rewrite Hbl in Hb. apply in_app_iff in Hb.
    destruct Hb as [Hb|[<-|[]]]; [apply (mrg_inv_outwf _ _ _ I); exact Hb|].
    destruct (mrg_inv_cw _ _ _ I w eq_refl) as [G1 [G2 _]]. split; assumption.
Qed.

(* curr_write absorbs [o] (two GC ranges) *)
Lemma mrg_inv_squash : forall ds w out o m, mrg_inv ds (Some w) out -> mrg_try_squash w o = Some m ->
  mrg_is_skip w = false -> mrg_good o -> mrg_client o = mrg_client w -> mrg_clock o = mrg_end w ->
  (forall b x, mrg_pending ds b -> In x (units_of_block b) -> cl (xid x) = mrg_client o ->
     ck (xid x) < mrg_end o -> mrg_inu o x \/ mrg_wr (Some w) out x) ->
  mrg_inv ds (Some m) out.
Proof.
  intros ds w out o m I Hsq Hsk Hg Hc Hk Hst.
  destruct (mrg_inv_cw _ _ _ I w eq_refl) as [Gw1 [Gw2 [Gw3 Gw4]]].
  destruct Hg as [Go1 [Go2 [Go3 Go4]]].
  destruct w as [i a b c d e|i n|i n], o as [j a' b' c' d' e'|j n'|j n']; cbn [mrg_try_squash] in Hsq; try discriminate.
  injection Hsq as <-.
  mrg_acc.
  assert (Hu : units_of_block (BGC i (n + n')) = units_of_block (BGC i n) ++ units_of_block (BGC j n')).
  { cbn [units_of_block]. replace (N.to_nat (n + n')) with (N.to_nat n + N.to_nat n')%nat by lia.
    rewrite blk_gc_units_app, N2Nat.id, Hc, Hk. reflexivity. }
  assert (Hwr : forall x, mrg_written (Some (BGC i n)) out x -> mrg_written (Some (BGC i (n + n'))) out x).
  { intros x [[w' [E H]]|H]; [|now right]. injection E as <-. left. eexists. split; [reflexivity|].
    rewrite Hu. apply in_or_app. now left. }
  constructor.
  - apply (mrg_inv_sorted _ _ _ I).
  - apply (mrg_inv_input _ _ _ I).
  - intros w' E. injection E as <-. split; [reflexivity|]. split; [cbn [block_len]; lia|]. split.
    + rewrite Hu. apply incl_app; assumption.
    + intros _. destruct (Go4 eq_refl) as [a [Ha1 [Ha2 Ha3]]]. exists a. split; [exact Ha1|].
      mrg_acc. lia.
  - apply (mrg_inv_out _ _ _ I).
  - intros x Hx. destruct (mrg_inv_complete _ _ _ I x Hx) as [Hp|[y [Hw Ey]]]; [now left|]. right.
    exists y. split; [apply Hwr; exact Hw|exact Ey].
  - intros w' b x E Hb Hx H1 H2. injection E as <-.
    mrg_acc.
    destruct (Hst b x Hb Hx) as [[y [Hy Ey]]|[y [Hy Ey]]]; [lia|lia| |exists y; split; [apply Hwr; exact Hy|exact Ey]].
    exists y. split; [|exact Ey]. left. eexists. split; [reflexivity|]. rewrite Hu. apply in_or_app. now right.
  - intros w' b E Hb. injection E as <-. apply (mrg_inv_clients _ _ _ I _ b eq_refl Hb).
  - discriminate.
  - apply (mrg_inv_ok _ _ _ I).
  - intros w' b E Hb. injection E as <-. apply (mrg_inv_bound _ _ _ I _ b eq_refl Hb).
  - apply (mrg_inv_outwf _ _ _ I).
Qed.

(* the first block *)
Lemma mrg_inv_first : forall ds o, mrg_inv ds None [] -> mrg_good o ->
  (forall b x, mrg_pending ds b -> In x (units_of_block b) -> cl (xid x) = mrg_client o ->
     ck (xid x) < mrg_end o -> mrg_inu o x) ->
  (forall b, mrg_pending ds b -> mrg_client b <= mrg_client o) ->
  mrg_inv ds (Some o) [].
Proof.
  intros ds o I Hg Hst Hcl. constructor.
  - apply (mrg_inv_sorted _ _ _ I).
  - apply (mrg_inv_input _ _ _ I).
  - intros w' E. injection E as <-. exact Hg.
  - intros x [].
  - intros x Hx. destruct (mrg_inv_complete _ _ _ I x Hx) as [Hp|[y [[[w [E _]]|[]] _]]]; [now left|discriminate].
  - intros w' b x E Hb Hx H1 H2. injection E as <-. destruct (Hst b x Hb Hx H1 H2) as [y [Hy Ey]].
    exists y. split; [|exact Ey]. left. exists o. split; [reflexivity|exact Hy].
  - intros w' b E Hb. injection E as <-. apply Hcl. exact Hb.
  - reflexivity.
  - apply (mrg_inv_ok _ _ _ I).
  - intros w' b E [].
  - intros b [].
Qed.

(* the stale-units condition for a block that continues curr_write *)
Lemma mrg_stale_contig : forall ds w out o, mrg_inv ds (Some w) out -> mrg_good o -> mrg_is_skip o = false ->
  mrg_client o = mrg_client w -> mrg_clock o = mrg_end w ->
  forall b x, mrg_pending ds b -> In x (units_of_block b) -> cl (xid x) = mrg_client o ->
     ck (xid x) < mrg_end o -> mrg_inu o x \/ mrg_wr (Some w) out x.
Proof.
  intros ds w out o I Hg Hs Hc Hk b x Hb Hx H1 H2.
  destruct (N.lt_ge_cases (ck (xid x)) (mrg_end w)) as [Hlt|Hge].
  - right. apply (mrg_inv_stale _ _ _ I w b x eq_refl Hb Hx); [congruence|exact Hlt].
  - left. apply mrg_agree; try assumption; [|lia].
    eapply mrg_pending_units_in; eassumption.
Qed.

(* the same for a block that is first in [mrg_key_le] order among everything the decoders hold *)
Lemma mrg_stale_min : forall ds cw out o, mrg_inv ds cw out -> mrg_good o -> mrg_is_skip o = false ->
  (forall b, mrg_pending ds b -> mrg_key_le o b) ->
  forall b x, mrg_pending ds b -> In x (units_of_block b) -> cl (xid x) = mrg_client o ->
     ck (xid x) < mrg_end o -> mrg_inu o x.
Proof.
  intros ds cw out o I Hg Hs Hmin b x Hb Hx H1 H2.
  destruct (HB0 b (mrg_inv_input _ _ _ I b Hb)) as [_ [Hwf _]].
  destruct (mrg_units_range b x Hwf Hx) as [R1 [R2 R3]].
  specialize (Hmin b Hb). unfold mrg_key_le in Hmin.
  apply mrg_agree; try assumption; [|lia].
  eapply mrg_pending_units_in; eassumption.
Qed.

Lemma mrg_pending_head : forall b r rest, mrg_pending ((b :: r) :: rest) b.
Proof. intros b r rest. exists (b :: r). split; now left. Qed.

Lemma mrg_inv_drop_prefix : forall pre d1 rest w out, mrg_inv ((pre ++ d1) :: rest) (Some w) out ->
  (forall b, In b pre -> mrg_end b <= mrg_end w /\ mrg_client w <= mrg_client b) ->
  mrg_inv (d1 :: rest) (Some w) out.
Proof.
  induction pre as [|b pre IH]; intros d1 rest w out I Hp; [exact I|].
  cbn [app] in I. apply IH; [|intros b' Hb'; apply Hp; now right].
  destruct (Hp b (or_introl eq_refl)) as [H1 H2].
  pose proof (mrg_inv_clients _ _ _ I w b eq_refl (mrg_pending_head _ _ _)) as H3.
  apply (mrg_inv_drop b); [exact I|lia|exact H1].
Qed.

(* curr_write is replaced by the current block of the first decoder, which continues it, and the decoder
   moves on *)
Lemma mrg_inv_take_contig : forall x r rest w out, mrg_inv ((x :: r) :: rest) (Some w) out ->
  mrg_client x = mrg_client w -> mrg_clock x = mrg_end w ->
  mrg_inv (r :: rest) (Some x) (mrg_add_block out w).
Proof.
  intros x r rest w out I Hc Hk.
  pose proof (mrg_inv_input _ _ _ I x (mrg_pending_head _ _ _)) as Hx.
  destruct (HB0 x Hx) as [Hs _].
  apply (mrg_inv_drop x); [|reflexivity|lia].
  apply mrg_inv_adv; [exact I|apply mrg_good_input; exact Hx| | |].
  - right. split; [congruence|lia].
  - apply mrg_stale_contig; try assumption. apply mrg_good_input; exact Hx.
  - intros b Hb. rewrite Hc. apply (mrg_inv_clients _ _ _ I w b eq_refl Hb).
Qed.

Lemma mrg_inv_write_succ : forall d rest w out d' w' out', mrg_inv (d :: rest) (Some w) out ->
  mrg_write_succ (mrg_client w) d w out = (d', w', out') ->
  mrg_inv (d' :: rest) (Some w') out' /\ mrg_client w' = mrg_client w.
Proof.
  induction d as [|x r IH]; intros rest w out d' w' out' I H; cbn [mrg_write_succ] in H.
  - injection H as <- <- <-. split; [exact I|reflexivity].
  - destruct ((mrg_client x =? mrg_client w) && (mrg_clock x =? mrg_end w)) eqn:E.
    + apply andb_prop in E. destruct E as [E1 E2]. apply N.eqb_eq in E1. apply N.eqb_eq in E2.
      rewrite <- E1 in H.
      destruct (IH rest x (mrg_add_block out w) d' w' out' (mrg_inv_take_contig _ _ _ _ _ I E1 E2) H) as [H1 H2].
      split; [exact H1|congruence].
    + injection H as <- <- <-. split; [exact I|reflexivity].
Qed.

Lemma mrg_write_succ_nonskip : forall fc d w out d' w' out', mrg_write_succ fc d w out = (d', w', out') ->
  (forall b, In b d -> mrg_is_skip b = false) ->
  (mrg_is_skip w = false \/ exists x r, d = x :: r /\ mrg_client x = fc /\ mrg_clock x = mrg_end w) ->
  mrg_is_skip w' = false.
Proof.
  intros fc. induction d as [|x r IH]; intros w out d' w' out' H Hd Hw; cbn [mrg_write_succ] in H.
  - injection H as _ <- _. destruct Hw as [Hw|[x [r [E _]]]]; [exact Hw|discriminate].
  - destruct ((mrg_client x =? fc) && (mrg_clock x =? mrg_end w)) eqn:E.
    + apply IH in H; [exact H|intros b Hb; apply Hd; now right|]. left. apply Hd. now left.
    + injection H as _ <- _. destruct Hw as [Hw|[x' [r' [E' [H1 H2]]]]]; [exact Hw|].
      injection E' as <- <-. rewrite H1, H2, !N.eqb_refl in E. discriminate.
Qed.

Lemma mrg_try_squash_item : forall a b, mrg_try_squash a b <> None -> mrg_same_type a b = true.
Proof. intros a b H. destruct a, b; cbn [mrg_try_squash mrg_same_type] in *; congruence. Qed.

(* the end of the third branch: [o] is what follows curr_write (the current block or its cut-off right part) *)
Lemma mrg_inv_squash_or_write : forall cb r1 rest cwb out o d1' d2 w out2,
  mrg_inv ((cb :: r1) :: rest) (Some cwb) out -> mrg_is_skip cwb = false ->
  mrg_good o -> mrg_is_skip o = false -> mrg_client o = mrg_client cwb -> mrg_clock o = mrg_end cwb ->
  mrg_client cb = mrg_client cwb -> mrg_end cb = mrg_end o ->
  tl d1' = r1 -> (mrg_try_squash cwb o <> None -> d1' = cb :: r1) ->
  mrg_squash_or_write cwb d1' o out = (d2, w, out2) ->
  mrg_inv (d2 :: rest) (Some w) out2 /\ mrg_client w = mrg_client cb /\ mrg_is_skip w = false.
Proof.
  intros cb r1 rest cwb out o d1' d2 w out2 I Hsk Hg Hso Hc Hk Hcb He Htl Hd1 H.
  unfold mrg_squash_or_write in H. destruct (mrg_try_squash cwb o) as [m|] eqn:Esq.
  - injection H as <- <- <-. rewrite Hd1 by discriminate.
    destruct (mrg_try_squash_some _ _ _ Esq) as [S1 [S2 [S3 [S4 S5]]]].
    split; [|split; congruence].
    eapply mrg_inv_squash; try eassumption. apply mrg_stale_contig; assumption.
  - injection H as <- <- <-. rewrite Htl. split; [|split; [congruence|exact Hso]].
    apply (mrg_inv_drop cb); [|congruence|lia].
    apply mrg_inv_adv; [exact I|exact Hg| | |].
    + right. split; [congruence|lia].
    + apply mrg_stale_contig; assumption.
    + intros b Hb. rewrite Hc. apply (mrg_inv_clients _ _ _ I cwb b eq_refl Hb).
Qed.

Lemma mrg_inv_branch : forall cb r1 rest cwb out d2 w out2,
  mrg_inv ((cb :: r1) :: rest) (Some cwb) out -> mrg_is_skip cwb = false ->
  (mrg_client cb = mrg_client cwb -> mrg_end cwb < mrg_end cb) ->
  (mrg_client cb <> mrg_client cwb \/ mrg_end cwb < mrg_clock cb ->
     forall b, mrg_pending ((cb :: r1) :: rest) b -> mrg_key_le cb b) ->
  mrg_branch (mrg_client cb) cwb cb r1 out = (d2, w, out2) ->
  mrg_inv (d2 :: rest) (Some w) out2 /\ mrg_client w = mrg_client cb /\
  (mrg_is_skip w = false \/ (d2 = cb :: r1 /\ mrg_clock cb = mrg_end w)).
Proof.
  intros cb r1 rest cwb out d2 w out2 I Hsk Hunc Hmin H.
  pose proof (mrg_inv_input _ _ _ I cb (mrg_pending_head _ _ _)) as Hcb.
  destruct (HB0 cb Hcb) as [Hcs [Hcwf Hclen]].
  pose proof (mrg_good_input cb Hcb) as Hcg.
  pose proof (mrg_inv_clients _ _ _ I cwb cb eq_refl (mrg_pending_head _ _ _)) as Hcl.
  unfold mrg_branch in H.
  destruct (negb (mrg_client cb =? mrg_client cwb)) eqn:Eb1.
  { (* another client *)
    apply negb_true_iff, N.eqb_neq in Eb1. injection H as <- <- <-.
    specialize (Hmin (or_introl Eb1)).
    split; [|split; [reflexivity|now left]].
    apply (mrg_inv_drop cb); [|reflexivity|lia].
    apply mrg_inv_adv; [exact I|exact Hcg| | |].
    - left. lia.
    - intros b x Hb Hx H1 H2. left. eapply mrg_stale_min; eassumption.
    - intros b Hb. specialize (Hmin b Hb). unfold mrg_key_le in Hmin. lia. }
  apply negb_false_iff, N.eqb_eq in Eb1. specialize (Hunc Eb1).
  destruct (mrg_end cwb <? mrg_clock cb) eqn:Egap.
  { (* a gap: Skip *)
    apply N.ltb_lt in Egap. specialize (Hmin (or_intror Egap)).
    set (sk := BSkip (mkid (mrg_client cb) (mrg_end cwb)) (mrg_clock cb - mrg_end cwb)).
    assert (Hres : (d2, w, out2) = (cb :: r1, sk, mrg_add_block out cwb)).
    { destruct cwb; try discriminate; symmetry; exact H. }
    injection Hres as -> -> ->.
    split; [|split; [reflexivity|right; split; [reflexivity|unfold sk; mrg_acc; lia]]].
    apply mrg_inv_adv; [exact I| | | |].
    - split; [reflexivity|]. split; [unfold sk; cbn [block_len]; lia|]. split; [intros x []|discriminate].
    - right. unfold sk. mrg_acc. lia.
    - intros b x Hb Hx H1 H2. exfalso.
      destruct (HB0 b (mrg_inv_input _ _ _ I b Hb)) as [_ [Hwf _]].
      destruct (mrg_units_range b x Hwf Hx) as [R1 [R2 R3]].
      specialize (Hmin b Hb). unfold mrg_key_le in Hmin. unfold sk in *. mrg_acc. lia.
    - intros b Hb. pose proof (mrg_inv_clients _ _ _ I cwb b eq_refl Hb). unfold sk. mrg_acc. lia. }
  (* overlap *)
  apply N.ltb_ge in Egap. unfold mrg_overlap in H.
  destruct (0 <? mrg_end cwb - mrg_clock cb) eqn:Ediff.
  - apply N.ltb_lt in Ediff.
    destruct (mrg_inv_cw _ _ _ I cwb eq_refl) as [_ [_ [_ Hwit]]].
    destruct (Hwit Hsk) as [a [Ha1 [Ha2 Ha3]]].
    destruct (blk_split cb (mrg_end cwb - mrg_clock cb)) as [[l r]|] eqn:Esp.
    2:{ exfalso. apply (Hcut a cb Ha1 Hcb); [congruence|lia|lia|]. rewrite Ha3. exact Esp. }
    destruct (mrg_splice_split _ _ _ _ Esp) as [P1 [P2 P3]].
    destruct (blk_split_wf _ _ _ _ Hcwf Esp) as [W1 [W2 [W3 [W4 [W5 W6]]]]].
    pose proof (blk_split_units _ _ _ _ Hcwf Esp) as Wu.
    assert (Hor : mrg_client r = mrg_client cb /\ mrg_clock r = mrg_end cwb /\ mrg_end r = mrg_end cb).
    { unfold mrg_client, mrg_end, mrg_clock in *. rewrite W6, W4. cbn [cl ck]. lia. }
    destruct Hor as [O1 [O2 O3]].
    assert (Hrs : mrg_is_skip r = false).
    { destruct cb, r; cbn [mrg_same_type mrg_is_skip] in *; congruence. }
    assert (Hrg : mrg_good r).
    { split; [exact W2|]. split; [unfold mrg_end in *; lia|]. split.
      - intros x Hx. destruct Hcg as [_ [_ [Hin _]]]. apply Hin. rewrite Wu. apply in_or_app. now right.
      - intros _. exists cb. repeat split; [exact Hcb|congruence|congruence]. }
    assert (Hfin : mrg_squash_or_write cwb (fst (mrg_splice cb (mrg_end cwb - mrg_clock cb)) :: r1)
                     (snd (mrg_splice cb (mrg_end cwb - mrg_clock cb))) out = (d2, w, out2)).
    { destruct cwb; try discriminate; exact H. }
    rewrite P1 in Hfin.
    eapply mrg_inv_squash_or_write in Hfin; try eassumption; try congruence; try reflexivity.
    + destruct Hfin as [F1 [F2 F3]]. split; [exact F1|]. split; [exact F2|now left].
    + intros Hsq. rewrite P3.
      destruct cb; [|reflexivity|reflexivity]. exfalso.
      destruct cwb, r; cbn [mrg_same_type mrg_try_squash] in *; congruence.
  - apply N.ltb_ge in Ediff.
    eapply mrg_inv_squash_or_write in H; try eassumption; try congruence; try reflexivity; try lia.
    destruct H as [F1 [F2 F3]]. split; [exact F1|]. split; [exact F2|now left].
Qed.

(* one pass through the loop body *)
Lemma mrg_inv_round : forall d rest cw out d' cw' out',
  mrg_inv (d :: rest) cw out -> (forall w, cw = Some w -> mrg_is_skip w = false) ->
  (forall h r, d = h :: r -> forall b, mrg_pending (d :: rest) b -> mrg_key_le h b) ->
  mrg_round d cw out = (d', cw', out') ->
  mrg_inv (d' :: rest) cw' out' /\ (forall w, cw' = Some w -> mrg_is_skip w = false).
Proof.
  intros d rest cw out d' cw' out' I J Hmin H.
  destruct d as [|cur dtl]; [injection H as <- <- <-; split; assumption|].
  specialize (Hmin cur dtl eq_refl). unfold mrg_round in H.
  pose proof (mrg_inv_input _ _ _ I cur (mrg_pending_head _ _ _)) as Hcur.
  destruct (HB0 cur Hcur) as [Hcs [Hcwf Hclen]].
  assert (Hns : forall d0, (forall b, In b d0 -> mrg_pending ((cur :: dtl) :: rest) b) ->
                forall b, In b d0 -> mrg_is_skip b = false).
  { intros d0 Hd0 b Hb. apply (HB0 b). apply (mrg_inv_input _ _ _ I). apply Hd0. exact Hb. }
  destruct cw as [cwb|].
  2:{ (* the first block *)
    destruct (mrg_write_succ (mrg_client cur) dtl cur out) as [[d2 w] out2] eqn:Ews. cbn [fst snd] in H.
    injection H as <- <- <-. pose proof (mrg_inv_start _ _ _ I eq_refl) as Eo. subst out.
    assert (I1 : mrg_inv (dtl :: rest) (Some cur) []).
    { apply (mrg_inv_drop cur); [|reflexivity|lia].
      apply mrg_inv_first; [exact I|apply mrg_good_input; exact Hcur| |].
      - eapply mrg_stale_min; try eassumption. apply mrg_good_input; exact Hcur.
      - intros b Hb. specialize (Hmin b Hb). unfold mrg_key_le in Hmin. lia. }
    destruct (mrg_inv_write_succ _ _ _ _ _ _ _ I1 Ews) as [I2 _]. split; [exact I2|].
    intros w0 E. injection E as <-. eapply mrg_write_succ_nonskip; [exact Ews| |now left].
    apply Hns. intros b Hb. exists (cur :: dtl). split; [now left|now right]. }
  specialize (J cwb eq_refl).
  destruct (mrg_skip_written (mrg_client cwb) (mrg_end cwb) (cur :: dtl)) as [d1 it] eqn:Esk.
  destruct (mrg_skip_written_spec _ _ _ _ _ Esk) as [L1 [L2 [L3 [[pre [L5 L6]] L4]]]]. cbn [fst snd] in H.
  assert (I1 : mrg_inv (d1 :: rest) (Some cwb) out).
  { apply (mrg_inv_drop_prefix pre); [rewrite <- L5; exact I|exact L6]. }
  assert (Jc : forall w0, Some cwb = Some w0 -> mrg_is_skip w0 = false) by (intros w0 E; injection E as <-; exact J).
  destruct d1 as [|cb r1]; [injection H as <- <- <-; split; assumption|].
  destruct (negb (mrg_client cb =? mrg_client cur) || it && (mrg_end cwb <? mrg_clock cb)) eqn:Econt;
    [injection H as <- <- <-; split; assumption|].
  apply orb_false_elim in Econt. destruct Econt as [Ec1 Ec2].
  apply negb_false_iff, N.eqb_eq in Ec1.
  destruct (mrg_branch (mrg_client cur) cwb cb r1 out) as [[d2 w] out2] eqn:Ebr. cbn [fst snd] in H.
  destruct (mrg_write_succ (mrg_client cur) d2 w out2) as [[d3 w3] out3] eqn:Ews. cbn [fst snd] in H.
  injection H as <- <- <-. rewrite <- Ec1 in Ebr, Ews.
  assert (Hunc : mrg_client cb = mrg_client cwb -> mrg_end cwb < mrg_end cb).
  { intros Ec. rewrite Ec, N.leb_refl, andb_true_r in L4. apply N.leb_gt in L4. exact L4. }
  assert (Hmin' : mrg_client cb <> mrg_client cwb \/ mrg_end cwb < mrg_clock cb ->
                  forall b, mrg_pending ((cb :: r1) :: rest) b -> mrg_key_le cb b).
  { intros Hor. destruct it.
    - exfalso. destruct pre as [|p0 pre]; [specialize (L2 eq_refl); rewrite L5 in L2; cbn [app] in L2; lia|].
      cbn [app] in L5. injection L5 as <- L5.
      destruct (L6 cur (or_introl eq_refl)) as [_ Hge].
      pose proof (mrg_inv_clients _ _ _ I cwb cur eq_refl (mrg_pending_head _ _ _)) as Hle.
      cbn [andb] in Ec2. apply N.ltb_ge in Ec2. lia.
    - specialize (L3 eq_refl). injection L3 as -> ->. exact Hmin. }
  destruct (mrg_inv_branch _ _ _ _ _ _ _ _ I1 J Hunc Hmin' Ebr) as [I2 [Hcw Hsk]].
  rewrite <- Hcw in Ews. destruct (mrg_inv_write_succ _ _ _ _ _ _ _ I2 Ews) as [I3 _].
  split; [exact I3|]. intros w0 E. injection E as <-.
  eapply mrg_write_succ_nonskip; [exact Ews| |].
  - intros b Hb. apply (HB0 b). apply (mrg_inv_input _ _ _ I2). exists d2. split; [now left|exact Hb].
  - destruct Hsk as [Hsk|[-> Hsk]]; [now left|]. right. exists cb, r1. repeat split; [congruence|exact Hsk].
Qed.

Lemma mrg_inv_subset : forall ds ds' cw out,
  (forall d, In d ds' -> In d ds) -> (forall b, mrg_pending ds b -> mrg_pending ds' b) ->
  mrg_inv ds cw out -> mrg_inv ds' cw out.
Proof.
  intros ds ds' cw out H1 H2 I.
  assert (H3 : forall b, mrg_pending ds' b -> mrg_pending ds b).
  { intros b [d [Hd Hb]]. exists d. split; [apply H1; exact Hd|exact Hb]. }
  constructor.
  - intros d Hd. apply (mrg_inv_sorted _ _ _ I). apply H1. exact Hd.
  - intros b Hb. apply (mrg_inv_input _ _ _ I). apply H3. exact Hb.
  - apply (mrg_inv_cw _ _ _ I).
  - apply (mrg_inv_out _ _ _ I).
  - intros x Hx. destruct (mrg_inv_complete _ _ _ I x Hx) as [[b [Hb Hx']]|Hw]; [|now right].
    left. exists b. split; [apply H2; exact Hb|exact Hx'].
  - intros w b x E Hb. apply (mrg_inv_stale _ _ _ I w b x E). apply H3. exact Hb.
  - intros w b E Hb. apply (mrg_inv_clients _ _ _ I w b E). apply H3. exact Hb.
  - apply (mrg_inv_start _ _ _ I).
  - apply (mrg_inv_ok _ _ _ I).
  - apply (mrg_inv_bound _ _ _ I).
  - apply (mrg_inv_outwf _ _ _ I).
Qed.

Definition mrg_state_inv (s : mrg_state) : Prop :=
  mrg_inv (mrg_decs s) (mrg_cw s) (mrg_out s) /\ (forall w, mrg_cw s = Some w -> mrg_is_skip w = false).

Lemma mrg_state_inv_step : forall s s', mrg_state_inv s -> mrg_step s = inl s' -> mrg_state_inv s'.
Proof.
  intros [ds cw out] s' [I J] H. unfold mrg_step in H. cbn [mrg_decs mrg_cw mrg_out] in *.
  destruct (mrg_sort mrg_dec_lt (filter mrg_has_current ds)) as [|d rest] eqn:Es; [discriminate|].
  destruct (mrg_round d cw out) as [[d' cw'] out'] eqn:Er. injection H as <-.
  assert (Hin : forall x, In x (d :: rest) <-> In x (filter mrg_has_current ds)).
  { intros x. rewrite <- Es. apply mrg_sort_in. }
  assert (I1 : mrg_inv (d :: rest) cw out).
  { apply (mrg_inv_subset ds); [| |exact I].
    - intros x Hx. apply Hin in Hx. apply filter_In in Hx. apply Hx.
    - intros b [x [Hx Hb]]. exists x. split; [|exact Hb]. apply Hin. apply filter_In. split; [exact Hx|].
      destruct x; [destruct Hb|reflexivity]. }
  unfold mrg_state_inv. cbn [mrg_decs mrg_cw mrg_out].
  apply (mrg_inv_round d rest cw out); [exact I1|exact J| |exact Er].
  intros h r -> b [x [[<-|Hx] Hb]].
  - destruct Hb as [<-|Hb]; [apply mrg_key_le_refl|]. apply mrg_before_key_le.
    pose proof (mrg_inv_sorted _ _ _ I1 (h :: r) (or_introl eq_refl)) as Hs.
    inversion Hs as [|? ? _ Hf]; subst. rewrite Forall_forall in Hf. apply Hf. exact Hb.
  - destruct (mrg_sorted_decoders_head_min _ _ _ Es x Hx) as [Hle Hne].
    destruct x as [|h' r']; [congruence|]. cbn [mrg_dec_le] in Hle.
    destruct Hb as [<-|Hb]; [exact Hle|]. eapply mrg_key_le_trans; [exact Hle|]. apply mrg_before_key_le.
    pose proof (mrg_inv_sorted _ _ _ I1 (h' :: r') (or_intror Hx)) as Hs.
    inversion Hs as [|? ? _ Hf]; subst. rewrite Forall_forall in Hf. apply Hf. exact Hb.
Qed.

Lemma mrg_inv_init : forall ds, (forall d, In d ds -> StronglySorted mrg_before d) ->
  (forall b, mrg_pending ds b <-> In b B0) -> mrg_state_inv (mrg_mkst ds None []).
Proof.
  intros ds Hs Hp. split; [|discriminate]. cbn [mrg_decs mrg_cw mrg_out]. constructor; try discriminate.
  - exact Hs.
  - intros b Hb. apply Hp. exact Hb.
  - intros x [].
  - intros x Hx. left. apply in_flat_map in Hx. destruct Hx as [b [Hb Hx]]. exists b. split; [apply Hp; exact Hb|exact Hx].
  - reflexivity.
  - split; [intros c bs []|]. split; constructor.
  - intros b [].
Qed.

(* what is known when the loop has stopped *)
Lemma mrg_state_inv_final : forall s r, mrg_state_inv s -> mrg_step s = inr r ->
  let fin := match mrg_cw r with Some b => mrg_add_block (mrg_out r) b | None => mrg_out r end in
  incl (mrg_out_units fin) (flat_map units_of_block B0) /\
  (forall x, In x (flat_map units_of_block B0) -> exists y, In y (mrg_out_units fin) /\ pi y = pi x) /\
  mrg_out_ok fin /\
  (forall b, In b (mrg_out_blocks fin) -> blk_wf b = true /\ 0 < block_len b).
Proof.
  intros [ds cw out] r [I J] H. unfold mrg_step in H. cbn [mrg_decs mrg_cw mrg_out] in *.
  destruct (mrg_sort mrg_dec_lt (filter mrg_has_current ds)) as [|d rest] eqn:Es.
  2:{ destruct (mrg_round d cw out) as [[? ?] ?]. discriminate. }
  injection H as <-. cbn [mrg_cw mrg_out].
  assert (Hnone : forall b, ~ mrg_pending ds b).
  { intros b [x [Hx Hb]]. assert (Hin : In x (filter mrg_has_current ds)).
    { apply filter_In. split; [exact Hx|]. destruct x; [destruct Hb|reflexivity]. }
    apply (mrg_sort_in mrg_dec_lt) in Hin. rewrite Es in Hin. destruct Hin. }
  destruct cw as [w|].
  - destruct (mrg_add_block_ok out w (mrg_inv_ok _ _ _ I) (fun b => mrg_inv_bound _ _ _ I w b eq_refl)) as [Hbl Hok].
    split; [|split; [|split; [exact Hok|]]].
    + intros x Hx. apply mrg_add_block_units in Hx. destruct Hx as [Hx|Hx]; [apply (mrg_inv_out _ _ _ I); exact Hx|].
      destruct (mrg_inv_cw _ _ _ I w eq_refl) as [_ [_ [Hin _]]]. apply Hin. exact Hx.
    + intros x Hx. destruct (mrg_inv_complete _ _ _ I x Hx) as [[b [Hb _]]|[y [[[w' [E Hw]]|Hw] Ey]]].
      * destruct (Hnone b Hb).
      * injection E as <-. exists y. split; [|exact Ey]. apply mrg_add_block_units. now right.
      * exists y. split; [|exact Ey]. apply mrg_add_block_units. now left.
    + intros b Hb. rewrite Hbl in Hb. apply in_app_iff in Hb.
      destruct Hb as [Hb|[<-|[]]]; [apply (mrg_inv_outwf _ _ _ I); exact Hb|].
      destruct (mrg_inv_cw _ _ _ I w eq_refl) as [G1 [G2 _]]. split; assumption.
  - split; [apply (mrg_inv_out _ _ _ I)|split; [|split; [apply (mrg_inv_ok _ _ _ I)|apply (mrg_inv_outwf _ _ _ I)]]].
    intros x Hx. destruct (mrg_inv_complete _ _ _ I x Hx) as [[b [Hb _]]|[y [[[w' [E Hw]]|Hw] Ey]]].
    + destruct (Hnone b Hb).
    + discriminate.
    + exists y. split; assumption.
Qed.

(* curr_write is never a Skip block at the top of the loop *)
Lemma mrg_cw_never_skip_inv : forall s, mrg_state_inv s -> forall w, mrg_cw s = Some w -> mrg_is_skip w = false.
Proof. intros s [_ J]. exact J. Qed.

End MrgInv.

(* ================================================================================================ *)
(* 7. the boolean well-formedness predicate                                                         *)
(* ================================================================================================ *)
Lemma mrg_any_eqb_eq : forall a b, mrg_any_eqb a b = true -> a = b.
Proof.
  fix IH 1. intros a b. destruct a, b; cbn [mrg_any_eqb]; try discriminate; intros H; try reflexivity.
  - apply eqb_prop in H. congruence.
  - apply Z.eqb_eq in H. congruence.
  - apply N.eqb_eq in H. congruence.
  - apply N.eqb_eq in H. congruence.
  - apply N.eqb_eq in H. congruence.
  - apply blk_bytes_eqb_eq in H. congruence.
  - apply blk_bytes_eqb_eq in H. congruence.
  - f_equal. revert l0 H. induction l as [|x l IHl]; intros [|y l0] H; try discriminate; [reflexivity|].
    apply andb_prop in H. destruct H as [H1 H2]. apply IH in H1. apply IHl in H2. congruence.
  - f_equal. revert l0 H. induction l as [|[k x] l IHl]; intros [|[k' y] l0] H; try discriminate; [reflexivity|].
    apply andb_prop in H. destruct H as [H1 H2]. apply andb_prop in H1. destruct H1 as [H0 H1].
    apply blk_bytes_eqb_eq in H0. apply IH in H1. apply IHl in H2. congruence.
Qed.

Lemma mrg_scope_eqb_eq : forall a b, mrg_scope_eqb a b = true -> a = b.
Proof.
  intros [x|x|x] [y|y|y] H; cbn [mrg_scope_eqb] in H; try discriminate;
    [apply blk_bytes_eqb_eq in H|apply blk_id_eqb_eq in H|apply blk_id_eqb_eq in H]; congruence.
Qed.

Lemma mrg_tyref_eqb_eq : forall a b, mrg_tyref_eqb a b = true -> a = b.
Proof.
  intros a b H. destruct a, b; cbn [mrg_tyref_eqb] in H; try discriminate; try reflexivity.
  - apply blk_bytes_eqb_eq in H. congruence.
  - unfold mrg_weaklink_eqb in H. destruct w as [s1 a1 e1 b1], w0 as [s2 a2 e2 b2].
    cbn [wl_start wl_start_after wl_end wl_end_after] in H.
    repeat (apply andb_prop in H; destruct H as [H ?]).
    apply mrg_scope_eqb_eq in H. repeat match goal with E : Bool.eqb _ _ = true |- _ => apply eqb_prop in E end.
    match goal with E : mrg_scope_eqb _ _ = true |- _ => apply mrg_scope_eqb_eq in E end. congruence.
Qed.

Lemma mrg_ucontent_eqb_eq : forall a b, mrg_ucontent_eqb a b = true -> a = b.
Proof.
  intros a b H. destruct a, b; cbn [mrg_ucontent_eqb] in H; try discriminate; try reflexivity.
  - apply N.eqb_eq in H. congruence.
  - apply blk_bytes_eqb_eq in H. congruence.
  - apply blk_bytes_eqb_eq in H. congruence.
  - apply blk_bytes_eqb_eq in H. congruence.
  - apply andb_prop in H. destruct H as [H1 H2]. apply blk_bytes_eqb_eq in H1. apply blk_bytes_eqb_eq in H2. congruence.
  - apply mrg_tyref_eqb_eq in H. congruence.
  - apply mrg_any_eqb_eq in H. congruence.
  - apply andb_prop in H. destruct H as [H1 H2]. apply blk_bytes_eqb_eq in H1. apply mrg_any_eqb_eq in H2. congruence.
Qed.

Lemma mrg_xop_eqb_eq : forall a b, mrg_xop_eqb a b = true -> a = b.
Proof.
  intros [x|i] [y|j] H; cbn [mrg_xop_eqb] in H; try discriminate.
  - destruct x as [x1 x2 x3 x4 x5 x6], y as [y1 y2 y3 y4 y5 y6]. cbn [oid oorigin ororigin oparent osub ocont] in H.
    do 5 (apply andb_prop in H; destruct H as [H ?]).
    apply blk_id_eqb_eq in H.
    repeat match goal with E : oid_eqb _ _ = true |- _ => apply blk_oid_eqb_eq in E end.
    match goal with E : parent_eqb _ _ = true |- _ => apply blk_parent_eqb_eq in E end.
    match goal with E : okey_eqb _ _ = true |- _ => apply blk_okey_eqb_eq in E end.
    match goal with E : mrg_ucontent_eqb _ _ = true |- _ => apply mrg_ucontent_eqb_eq in E end.
    congruence.
  - apply blk_id_eqb_eq in H. congruence.
Qed.

Lemma mrg_agree_gen_b_spec : forall pi bs, mrg_agree_gen_b pi bs = true ->
  forall x y, In x (flat_map units_of_block bs) -> In y (flat_map units_of_block bs) -> xid x = xid y -> pi x = pi y.
Proof.
  intros pi bs H x y Hx Hy E. unfold mrg_agree_gen_b in H. rewrite forallb_forall in H.
  specialize (H x Hx). rewrite forallb_forall in H. specialize (H y Hy).
  rewrite E, blk_id_eqb_refl in H. cbn [negb orb] in H. apply mrg_xop_eqb_eq. exact H.
Qed.

Lemma mrg_cuts_b_spec : forall bs, mrg_cuts_b bs = true -> forall a b, In a bs -> In b bs ->
  mrg_client a = mrg_client b -> mrg_clock b < mrg_end a -> mrg_end a < mrg_end b ->
  blk_split b (mrg_end a - mrg_clock b) <> None.
Proof.
  intros bs H a b Ha Hb H1 H2 H3. unfold mrg_cuts_b in H. rewrite forallb_forall in H.
  specialize (H a Ha). rewrite forallb_forall in H. specialize (H b Hb).
  replace ((mrg_client a =? mrg_client b) && (mrg_clock b <? mrg_end a) && (mrg_end a <? mrg_end b)) with true in H by lia.
  cbn [negb orb] in H. destruct (blk_split b (mrg_end a - mrg_clock b)); [discriminate|discriminate H].
Qed.

Lemma mrg_before_b_spec : forall a b, mrg_before_b a b = true <-> mrg_before a b.
Proof. intros a b. unfold mrg_before_b, mrg_before. lia. Qed.

Lemma mrg_sorted_b_spec : forall d, mrg_sorted_b d = true -> StronglySorted mrg_before d.
Proof.
  intros d H. apply Sorted_StronglySorted; [intros a b c; apply mrg_before_trans|].
  induction d as [|a r IH]; [constructor|]. cbn [mrg_sorted_b] in H. apply andb_prop in H. destruct H as [H1 H2].
  constructor; [apply IH; exact H2|]. destruct r as [|b r]; constructor. apply mrg_before_b_spec. exact H1.
Qed.

(* ---- IntoBlocks against the block lists of an update ---- *)
Lemma mrg_insert_client_perm : forall x l, Permutation (mrg_insert_client x l) (x :: l).
Proof.
  intros x. induction l as [|y r IH]; cbn [mrg_insert_client]; [reflexivity|].
  destruct (fst y <=? fst x); [reflexivity|]. rewrite IH. apply perm_swap.
Qed.
Lemma mrg_sort_clients_perm : forall l, Permutation (mrg_sort_clients l) l.
Proof.
  unfold mrg_sort_clients. induction l as [|x l IH]; cbn [fold_right]; [reflexivity|].
  rewrite mrg_insert_client_perm. apply perm_skip. exact IH.
Qed.

Lemma mrg_into_blocks_in : forall u b,
  In b (mrg_into_blocks u) <-> In b (mrg_out_blocks (u_blocks u)) /\ mrg_is_skip b = false.
Proof.
  intros u b. unfold mrg_into_blocks, mrg_out_blocks. rewrite filter_In, negb_true_iff.
  assert (Hp : Permutation (flat_map snd (mrg_sort_clients (u_blocks u))) (flat_map snd (u_blocks u))).
  { apply Permutation_flat_map. apply mrg_sort_clients_perm. }
  split; intros [H1 H2]; (split; [|exact H2]); [apply (Permutation_in _ Hp)|apply (Permutation_in _ (Permutation_sym Hp))]; exact H1.
Qed.

Lemma mrg_units_of_update_in : forall u x,
  In x (units_of_update u) <-> exists b, In b (mrg_into_blocks u) /\ In x (units_of_block b).
Proof.
  intros u x. change (units_of_update u) with (mrg_out_units (u_blocks u)). rewrite mrg_out_units_blocks.
  split; intros [b [H1 H2]]; exists b; (split; [|exact H2]).
  - apply mrg_into_blocks_in. split; [exact H1|]. destruct b; try reflexivity. destruct H2.
  - apply mrg_into_blocks_in in H1. apply H1.
Qed.

(* every block handed to the decoders *)
Definition mrg_input_blocks (us : list update) : list block := concat (map mrg_into_blocks us).

Lemma mrg_input_blocks_in : forall us b, In b (mrg_input_blocks us) <-> exists u, In u us /\ In b (mrg_into_blocks u).
Proof.
  intros us b. unfold mrg_input_blocks. rewrite in_concat. split.
  - intros [d [Hd Hb]]. apply in_map_iff in Hd. destruct Hd as [u [<- Hu]]. exists u. split; assumption.
  - intros [u [Hu Hb]]. exists (mrg_into_blocks u). split; [apply in_map; exact Hu|exact Hb].
Qed.

Lemma mrg_init_pending : forall us b, mrg_pending (mrg_decs (mrg_init us)) b <-> In b (mrg_input_blocks us).
Proof.
  intros us b. rewrite mrg_input_blocks_in. unfold mrg_init, mrg_pending. cbn [mrg_decs]. split.
  - intros [d [Hd Hb]]. apply in_map_iff in Hd. destruct Hd as [u [<- Hu]]. apply filter_In in Hu.
    exists u. split; [apply Hu|exact Hb].
  - intros [u [Hu Hb]]. exists (mrg_into_blocks u). split; [|exact Hb]. apply in_map. apply filter_In.
    split; [exact Hu|]. unfold mrg_blocks_nonempty. destruct (u_blocks u) eqn:E; [|reflexivity].
    unfold mrg_into_blocks in Hb. rewrite E in Hb. destruct Hb.
Qed.

Lemma mrg_units_union_in : forall us x,
  In x (flat_map units_of_block (mrg_input_blocks us)) <-> exists u, In u us /\ In x (units_of_update u).
Proof.
  intros us x. rewrite in_flat_map. split.
  - intros [b [Hb Hx]]. apply mrg_input_blocks_in in Hb. destruct Hb as [u [Hu Hb]].
    exists u. split; [exact Hu|]. apply mrg_units_of_update_in. exists b. split; assumption.
  - intros [u [Hu Hx]]. apply mrg_units_of_update_in in Hx. destruct Hx as [b [Hb Hx]].
    exists b. split; [|exact Hx]. apply mrg_input_blocks_in. exists u. split; assumption.
Qed.

(* ---- what [mrg_wf_gen] gives ---- *)
Lemma mrg_wf_gen_spec : forall pi us, mrg_wf_gen pi us = true ->
  (forall d, In d (map mrg_into_blocks us) -> StronglySorted mrg_before d) /\
  (forall b, In b (mrg_input_blocks us) -> mrg_is_skip b = false /\ blk_wf b = true /\ 0 < block_len b) /\
  (forall x y, In x (flat_map units_of_block (mrg_input_blocks us)) ->
     In y (flat_map units_of_block (mrg_input_blocks us)) -> xid x = xid y -> pi x = pi y) /\
  (forall a b, In a (mrg_input_blocks us) -> In b (mrg_input_blocks us) -> mrg_client a = mrg_client b ->
     mrg_clock b < mrg_end a -> mrg_end a < mrg_end b -> blk_split b (mrg_end a - mrg_clock b) <> None).
Proof.
  intros pi us H. unfold mrg_wf_gen in H. apply andb_prop in H. destruct H as [H H3].
  apply andb_prop in H. destruct H as [H1 H2]. rewrite forallb_forall in H1.
  split; [|split; [|split]].
  - intros d Hd. specialize (H1 d Hd). apply andb_prop in H1. apply mrg_sorted_b_spec. apply H1.
  - intros b Hb. pose proof Hb as Hb'. apply mrg_input_blocks_in in Hb'. destruct Hb' as [u [Hu Hbu]].
    split; [apply mrg_into_blocks_in in Hbu; apply Hbu|].
    specialize (H1 (mrg_into_blocks u) (in_map _ _ _ Hu)). apply andb_prop in H1. destruct H1 as [H1 _].
    rewrite forallb_forall in H1. specialize (H1 b Hbu). unfold mrg_block_ok in H1.
    apply andb_prop in H1. destruct H1 as [Ha Hb2]. split; [exact Ha|apply N.ltb_lt; exact Hb2].
  - apply mrg_agree_gen_b_spec. exact H2.
  - apply mrg_cuts_b_spec. exact H3.
Qed.

(* ================================================================================================ *)
(* 8. the theorems                                                                                  *)
(* ================================================================================================ *)
Lemma mrg_wf_init_inv : forall pi us, mrg_wf_gen pi us = true ->
  mrg_state_inv (mrg_input_blocks us) xop pi (mrg_init us).
Proof.
  intros pi us Hwf. destruct (mrg_wf_gen_spec pi us Hwf) as [W1 _].
  apply mrg_inv_init.
  - intros d Hd. apply W1. unfold mrg_init in Hd. cbn [mrg_decs] in Hd. apply in_map_iff in Hd.
    destruct Hd as [u [<- Hu]]. apply in_map. apply filter_In in Hu. apply Hu.
  - apply mrg_init_pending.
Qed.

Lemma mrg_wf_run : forall pi us, mrg_wf_gen pi us = true ->
  exists s0 r, mrg_state_inv (mrg_input_blocks us) xop pi s0 /\ mrg_step s0 = inr r /\
               mrg_merge_updates us = mrg_finish us r.
Proof.
  intros pi us Hwf. destruct (mrg_wf_gen_spec pi us Hwf) as [W1 [W2 [W3 W4]]].
  destruct (mrg_merge_updates_eq us) as [r [Hr Hm]].
  pose proof (mrg_iter_inv (mrg_state_inv (mrg_input_blocks us) xop pi)
                (mrg_state_inv_step _ W2 xop pi W3 W4) (mrg_fuel us) _ (mrg_wf_init_inv pi us Hwf)) as Hit.
  rewrite Hr in Hit. destruct Hit as [s0 [Hs0 Hst]]. exists s0, r. split; [exact Hs0|split; [exact Hst|exact Hm]].
Qed.

(* (c) UNIT PRESERVATION, general form: seen through [pi], the units of the result are exactly the units of the
   arguments; and (without [pi]) every unit of the result is literally a unit of some argument *)
Theorem mrg_units_preserved_gen : forall pi us, mrg_wf_gen pi us = true ->
  (forall y, In y (units_of_update (mrg_merge_updates us)) -> exists u, In u us /\ In y (units_of_update u)) /\
  (forall t, In t (map pi (units_of_update (mrg_merge_updates us))) <->
             exists u, In u us /\ In t (map pi (units_of_update u))).
Proof.
  intros pi us Hwf.
  destruct (mrg_wf_run pi us Hwf) as [s0 [r [Hs0 [Hst Hm]]]].
  destruct (mrg_state_inv_final _ _ _ s0 r Hs0 Hst) as [Hincl [Hall _]].
  assert (Hsound : forall y, In y (units_of_update (mrg_merge_updates us)) -> exists u, In u us /\ In y (units_of_update u)).
  { intros y Hy. apply mrg_units_union_in. apply Hincl. rewrite Hm in Hy. exact Hy. }
  split; [exact Hsound|]. intros t. split.
  - intros Ht. apply in_map_iff in Ht. destruct Ht as [y [<- Hy]]. destruct (Hsound y Hy) as [u [Hu Hyu]].
    exists u. split; [exact Hu|]. apply in_map. exact Hyu.
  - intros [u [Hu Ht]]. apply in_map_iff in Ht. destruct Ht as [x [<- Hx]].
    destruct (Hall x) as [y [Hy Ey]]; [apply mrg_units_union_in; exists u; split; assumption|].
    rewrite <- Ey. apply in_map. rewrite Hm. exact Hy.
Qed.

(* (c) for arguments whose units agree exactly: no unit lost, none invented, none changed *)
Theorem mrg_units_preserved : forall us, mrg_wf us = true ->
  forall x, In x (units_of_update (mrg_merge_updates us)) <-> exists u, In u us /\ In x (units_of_update u).
Proof.
  intros us Hwf x. destruct (mrg_units_preserved_gen (fun x => x) us Hwf) as [_ H].
  specialize (H x). rewrite map_id in H. rewrite H. split; intros [u [Hu Hx]]; exists u; (split; [exact Hu|]).
  - rewrite map_id in Hx. exact Hx.
  - rewrite map_id. exact Hx.
Qed.

(* (c) for arguments whose units agree up to the parent information that the wire format leaves out *)
Theorem mrg_units_preserved_norm : forall us, mrg_wf_norm us = true ->
  (forall y, In y (units_of_update (mrg_merge_updates us)) -> exists u, In u us /\ In y (units_of_update u)) /\
  (forall t, In t (map mrg_unit_norm (units_of_update (mrg_merge_updates us))) <->
             exists u, In u us /\ In t (map mrg_unit_norm (units_of_update u))).
Proof. intros us Hwf. exact (mrg_units_preserved_gen mrg_unit_norm us Hwf). Qed.

(* (b) the result is well-formed: see [mrg_out_ok] *)
Theorem mrg_output_ok_gen : forall pi us, mrg_wf_gen pi us = true -> mrg_out_ok (u_blocks (mrg_merge_updates us)).
Proof.
  intros pi us Hwf. destruct (mrg_wf_run pi us Hwf) as [s0 [r [Hs0 [Hst Hm]]]].
  destruct (mrg_state_inv_final _ _ _ s0 r Hs0 Hst) as [_ [_ [Hok _]]].
  rewrite Hm. exact Hok.
Qed.
Theorem mrg_output_ok : forall us, mrg_wf us = true -> mrg_out_ok (u_blocks (mrg_merge_updates us)).
Proof. intros us. apply mrg_output_ok_gen. Qed.
Theorem mrg_output_ok_norm : forall us, mrg_wf_norm us = true -> mrg_out_ok (u_blocks (mrg_merge_updates us)).
Proof. intros us. apply mrg_output_ok_gen. Qed.

(* ---- no unit twice ---- *)
Lemma mrg_item_units_nodup : forall us c k o ro p ps, NoDup (map xid (units_of_item c k o ro p ps us)).
Proof.
  induction us as [|u us IH]; intros c k o ro p ps; cbn [units_of_item map]; constructor; [|apply IH].
  intros Hin. apply in_map_iff in Hin. destruct Hin as [x [E Hx]]. apply mrg_item_units_range in Hx.
  cbn [xid oid] in E. rewrite E in Hx. cbn [ck] in Hx. lia.
Qed.
Lemma mrg_gc_units_nodup : forall n c k, NoDup (map xid (gc_units c k n)).
Proof.
  induction n as [|n IH]; intros c k; cbn [gc_units map]; constructor; [|apply IH].
  intros Hin. apply in_map_iff in Hin. destruct Hin as [x [E Hx]]. apply mrg_gc_units_range in Hx.
  cbn [xid] in E. rewrite E in Hx. cbn [ck] in Hx. lia.
Qed.
Lemma mrg_block_units_nodup : forall b, NoDup (map xid (units_of_block b)).
Proof.
  intros [i o ro p ps c|i n|i n]; cbn [units_of_block]; [apply mrg_item_units_nodup|apply mrg_gc_units_nodup|constructor].
Qed.

Lemma mrg_sorted_units_nodup : forall bs, StronglySorted mrg_before bs -> (forall b, In b bs -> blk_wf b = true) ->
  NoDup (map xid (flat_map units_of_block bs)).
Proof.
  induction bs as [|b bs IH]; intros Hs Hwf; cbn [flat_map map]; [constructor|].
  inversion Hs as [|? ? Hs' Hf]; subst. rewrite Forall_forall in Hf. rewrite map_app.
  assert (IH' : NoDup (map xid (flat_map units_of_block bs))) by (apply IH; [exact Hs'|intros; apply Hwf; now right]).
  assert (Hdis : forall i, In i (map xid (units_of_block b)) -> ~ In i (map xid (flat_map units_of_block bs))).
  { intros i H1 H2. apply in_map_iff in H1. destruct H1 as [x [<- Hx]].
    apply in_map_iff in H2. destruct H2 as [y [E Hy]]. apply in_flat_map in Hy. destruct Hy as [b' [Hb' Hy]].
    destruct (mrg_units_range b x (Hwf b (or_introl eq_refl)) Hx) as [X1 [X2 X3]].
    destruct (mrg_units_range b' y (Hwf b' (or_intror Hb')) Hy) as [Y1 [Y2 Y3]].
    specialize (Hf b' Hb'). unfold mrg_before in Hf. rewrite E in *. lia. }
  clear IH Hs Hs' Hf Hwf. pose proof (mrg_block_units_nodup b) as Hb.
  induction (map xid (units_of_block b)) as [|i l IHl]; cbn [app]; [exact IH'|].
  inversion Hb; subst. constructor.
  - intros Hin. apply in_app_iff in Hin. destruct Hin as [Hin|Hin]; [contradiction|]. apply (Hdis i); [now left|exact Hin].
  - apply IHl; [intros j Hj; apply Hdis; now right|assumption].
Qed.

Lemma mrg_out_units_flat : forall out, mrg_out_units out = flat_map units_of_block (mrg_out_blocks out).
Proof.
  unfold mrg_out_units, mrg_out_blocks. induction out as [|[c bs] out IH]; [reflexivity|].
  cbn [flat_map snd]. rewrite flat_map_app, IH. reflexivity.
Qed.

(* (c), third part: every id occurs once in the result *)
Theorem mrg_output_units_nodup_gen : forall pi us, mrg_wf_gen pi us = true ->
  NoDup (map xid (units_of_update (mrg_merge_updates us))).
Proof.
  intros pi us Hwf.
  destruct (mrg_wf_run pi us Hwf) as [s0 [r [Hs0 [Hst Hm]]]].
  destruct (mrg_state_inv_final _ _ _ s0 r Hs0 Hst) as [_ [_ [[_ [_ Hok]] Hbw]]].
  rewrite Hm. unfold mrg_finish, units_of_update. cbn [u_blocks].
  change (flat_map (fun cb : N * list block => flat_map units_of_block (snd cb)) ?o) with (mrg_out_units o).
  rewrite mrg_out_units_flat. apply mrg_sorted_units_nodup; [assumption|]. intros b Hb. apply Hbw. exact Hb.
Qed.
Theorem mrg_output_units_nodup : forall us, mrg_wf us = true ->
  NoDup (map xid (units_of_update (mrg_merge_updates us))).
Proof. intros us. apply mrg_output_units_nodup_gen. Qed.
Theorem mrg_output_units_nodup_norm : forall us, mrg_wf_norm us = true ->
  NoDup (map xid (units_of_update (mrg_merge_updates us))).
Proof. intros us. apply mrg_output_units_nodup_gen. Qed.

(* ================================================================================================ *)
(* 9. the delete set of the result                                                                  *)
(* ================================================================================================ *)
(* an id set as IdSet keeps it: clients ascending (BTreeMap), canonical ranges *)
Definition mrg_ds_ok (m : idset) : Prop :=
  StronglySorted (fun a b : N * idrange => fst a < fst b) m /\ forall c r, In (c, r) m -> canon r.

Lemma mrg_im_get_in : forall (m : idset) c r, im_get m c = Some r -> In (c, r) m.
Proof.
  induction m as [|[c' r'] m IH]; intros c r H; cbn [im_get] in H; [discriminate|].
  destruct (c' =? c) eqn:E; [apply N.eqb_eq in E; injection H as <-; subst; now left|].
  destruct (c <? c'); [discriminate|]. right. apply IH. exact H.
Qed.

Lemma mrg_im_in_get : forall (m : idset) c r,
  StronglySorted (fun a b : N * idrange => fst a < fst b) m -> In (c, r) m -> im_get m c = Some r.
Proof.
  induction m as [|[c' r'] m IH]; intros c r Hs Hin; [destruct Hin|].
  inversion Hs as [|? ? Hs' Hf]; subst. rewrite Forall_forall in Hf. cbn [im_get].
  destruct Hin as [E|Hin].
  - injection E as -> ->. rewrite N.eqb_refl. reflexivity.
  - specialize (Hf _ Hin). cbn [fst] in Hf.
    replace (c' =? c) with false by lia. replace (c <? c') with false by lia. apply IH; assumption.
Qed.

Lemma mrg_im_set_spec : forall (m : idset) c r,
  StronglySorted (fun a b : N * idrange => fst a < fst b) m ->
  StronglySorted (fun a b : N * idrange => fst a < fst b) (im_set m c r) /\
  forall c' r', In (c', r') (im_set m c r) <-> (c' = c /\ r' = r) \/ (c' <> c /\ In (c', r') m).
Proof.
  induction m as [|[c0 r0] m IH]; intros c r Hs; cbn [im_set].
  - split; [constructor; constructor|]. intros c' r'. cbn [In]. split.
    + intros [E|[]]. injection E as <- <-. left. split; reflexivity.
    + intros [[-> ->]|[_ []]]. now left.
  - inversion Hs as [|? ? Hs' Hf]; subst. pose proof Hf as Hf'. rewrite Forall_forall in Hf'.
    destruct (c0 =? c) eqn:E.
    + apply N.eqb_eq in E. subst c0. split; [constructor; assumption|].
      intros c' r'. cbn [In]. split.
      * intros [E|Hin]; [injection E as <- <-; left; split; reflexivity|].
        right. split; [|now right]. specialize (Hf' _ Hin). cbn [fst] in Hf'. lia.
      * intros [[-> ->]|[Hne [E|Hin]]]; [now left| |now right]. injection E as -> _. congruence.
    + apply N.eqb_neq in E. destruct (c <? c0) eqn:E2.
      * apply N.ltb_lt in E2. split.
        -- constructor; [exact Hs|]. constructor; [exact E2|]. apply Forall_forall. intros x Hx.
           specialize (Hf' _ Hx). cbn [fst] in *. lia.
        -- intros c' r'. cbn [In]. split.
           ++ intros [E3|[E3|Hin]].
              ** injection E3 as <- <-. left. split; reflexivity.
              ** injection E3 as <- <-. right. split; [congruence|now left].
              ** right. split; [|now right]. specialize (Hf' _ Hin). cbn [fst] in Hf'. lia.
           ++ intros [[-> ->]|[Hne [E3|Hin]]]; [now left|right; now left|right; now right].
      * apply N.ltb_ge in E2. destruct (IH c r Hs') as [IH1 IH2]. split.
        -- constructor; [exact IH1|]. apply Forall_forall. intros [c' r'] Hx. apply IH2 in Hx. cbn [fst].
           destruct Hx as [[-> _]|[_ Hx]]; [lia|]. specialize (Hf' _ Hx). exact Hf'.
        -- intros c' r'. cbn [In]. rewrite IH2. split.
           ++ intros [E3|[H|[H1 H2]]]; [injection E3 as <- <-; right; split; [congruence|now left]|now left|].
              right. split; [exact H1|now right].
           ++ intros [H|[H1 [E3|H2]]]; [right; now left|now left|]. right. right. split; assumption.
Qed.

Lemma mrg_ds_mem_den : forall m c k,
  mrg_ds_mem m c k = match im_get m c with Some r => den r k | None => false end.
Proof. reflexivity. Qed.

Lemma mrg_im_get_set : forall (m : idset) c r c', StronglySorted (fun a b : N * idrange => fst a < fst b) m ->
  im_get (im_set m c r) c' = if c' =? c then Some r else im_get m c'.
Proof.
  intros m c r c' Hs. destruct (mrg_im_set_spec m c r Hs) as [S1 S2].
  destruct (c' =? c) eqn:E.
  - apply N.eqb_eq in E. subst. apply mrg_im_in_get; [exact S1|]. apply S2. left. split; reflexivity.
  - apply N.eqb_neq in E. destruct (im_get m c') as [r'|] eqn:G.
    + apply mrg_im_in_get; [exact S1|]. apply S2. right. split; [exact E|]. apply mrg_im_get_in. exact G.
    + destruct (im_get (im_set m c r) c') as [r'|] eqn:G'; [|reflexivity].
      apply mrg_im_get_in in G'. apply S2 in G'. destruct G' as [[-> _]|[_ G']]; [congruence|].
      apply mrg_im_in_get in G'; [congruence|exact Hs].
Qed.

(* one step of IdMapInner::merge_with *)
Lemma mrg_merge_step_spec : forall (m : idset) c r, mrg_ds_ok m -> canon r ->
  let m' := match im_get m c with
            | Some r0 => im_set m c (merge ueq umerge r0 r)
            | None => im_set m c r
            end in
  mrg_ds_ok m' /\ forall c' k, mrg_ds_mem m' c' k = mrg_ds_mem m c' k || ((c' =? c) && den r k).
Proof.
  intros m c r [Hs Hc] Hr. cbn zeta.
  assert (Hgen : forall rn, canon rn ->
            (forall k, den rn k = (match im_get m c with Some r0 => den r0 k | None => false end) || den r k) ->
            mrg_ds_ok (im_set m c rn) /\
            forall c' k, mrg_ds_mem (im_set m c rn) c' k = mrg_ds_mem m c' k || ((c' =? c) && den r k)).
  { intros rn Hrn Hd. destruct (mrg_im_set_spec m c rn Hs) as [S1 S2]. split.
    - split; [exact S1|]. intros c' r' Hin. apply S2 in Hin. destruct Hin as [[_ ->]|[_ Hin]]; [exact Hrn|].
      apply (Hc c' r' Hin).
    - intros c' k. rewrite !mrg_ds_mem_den, mrg_im_get_set by exact Hs.
      destruct (c' =? c) eqn:E.
      + apply N.eqb_eq in E. subst c'. rewrite Hd. cbn [andb]. reflexivity.
      + cbn [andb]. rewrite orb_false_r. reflexivity. }
  destruct (im_get m c) as [r0|] eqn:G.
  - assert (Hr0 : canon r0) by (apply (Hc c r0); apply mrg_im_get_in; exact G).
    destruct (merge_spec r0 r Hr0 Hr) as [M1 M2]. apply Hgen; [exact M1|exact M2].
  - apply Hgen; [exact Hr|]. intros k. reflexivity.
Qed.

Lemma mrg_im_merge_with_spec : forall (other m : idset), mrg_ds_ok m -> mrg_ds_ok other ->
  mrg_ds_ok (im_merge_with ueq umerge m other) /\
  forall c k, mrg_ds_mem (im_merge_with ueq umerge m other) c k = mrg_ds_mem m c k || mrg_ds_mem other c k.
Proof.
  unfold im_merge_with. induction other as [|[c0 r0] other IH]; intros m Hm Ho; cbn [fold_left].
  - split; [exact Hm|]. intros c k. rewrite mrg_ds_mem_den. cbn [im_get]. rewrite orb_false_r. reflexivity.
  - destruct Ho as [Hos Hoc]. inversion Hos as [|? ? Hos' Hf]; subst.
    assert (Ho' : mrg_ds_ok other) by (split; [exact Hos'|intros c r Hin; apply (Hoc c r); now right]).
    assert (Hr0 : canon r0) by (apply (Hoc c0 r0); now left).
    destruct (mrg_merge_step_spec m c0 r0 Hm Hr0) as [S1 S2]. cbn zeta in S1, S2.
    destruct (IH _ S1 Ho') as [I1 I2]. split; [exact I1|].
    intros c k. rewrite I2, S2. rewrite (mrg_ds_mem_den ((c0, r0) :: other)). cbn [im_get].
    rewrite N.eqb_sym. destruct (c0 =? c) eqn:E.
    + apply N.eqb_eq in E. subst c0. cbn [andb].
      assert (Hn : mrg_ds_mem other c k = false).
      { rewrite mrg_ds_mem_den. destruct (im_get other c) as [r'|] eqn:G; [|reflexivity].
        apply mrg_im_get_in in G. rewrite Forall_forall in Hf. specialize (Hf _ G). cbn [fst] in Hf. lia. }
      rewrite Hn, orb_false_r. reflexivity.
    + cbn [andb]. rewrite orb_false_r. apply N.eqb_neq in E.
      destruct (c <? c0) eqn:E2; [|reflexivity].
      apply N.ltb_lt in E2. rewrite (mrg_ds_mem_den other). destruct (im_get other c) as [r'|] eqn:G; [|reflexivity].
      apply mrg_im_get_in in G. rewrite Forall_forall in Hf. specialize (Hf _ G). cbn [fst] in Hf. lia.
Qed.

(* (c), second part: the delete set of the result is the union of the delete sets of the arguments
   (for every argument list whose delete sets are what IdSet keeps: clients ascending, canonical ranges) *)
Theorem mrg_ds_union : forall us, (forall u, In u us -> mrg_ds_ok (u_ds u)) ->
  mrg_ds_ok (u_ds (mrg_merge_updates us)) /\
  forall c k, mrg_ds_mem (u_ds (mrg_merge_updates us)) c k = existsb (fun u => mrg_ds_mem (u_ds u) c k) us.
Proof.
  intros us Hus.
  assert (Hds : u_ds (mrg_merge_updates us) = mrg_merge_ds us).
  { destruct (mrg_merge_updates_eq us) as [s [_ ->]]. reflexivity. }
  rewrite Hds. unfold mrg_merge_ds.
  assert (Hgen : forall l acc, (forall u, In u l -> mrg_ds_ok (u_ds u)) -> mrg_ds_ok acc ->
            mrg_ds_ok (fold_left (fun acc u => im_merge_with ueq umerge acc (u_ds u)) l acc) /\
            forall c k, mrg_ds_mem (fold_left (fun acc u => im_merge_with ueq umerge acc (u_ds u)) l acc) c k
                        = mrg_ds_mem acc c k || existsb (fun u => mrg_ds_mem (u_ds u) c k) l).
  { induction l as [|u l IH]; intros acc Hl Hacc; cbn [fold_left existsb].
    - split; [exact Hacc|]. intros c k. rewrite orb_false_r. reflexivity.
    - destruct (mrg_im_merge_with_spec (u_ds u) acc Hacc (Hl u (or_introl eq_refl))) as [M1 M2].
      destruct (IH _ (fun u' Hu' => Hl u' (or_intror Hu')) M1) as [I1 I2]. split; [exact I1|].
      intros c k. rewrite I2, M2, orb_assoc. reflexivity. }
  destruct (Hgen us [] Hus) as [G1 G2]; [split; [constructor|intros c r []]|].
  split; [exact G1|]. intros c k. rewrite G2. reflexivity.
Qed.

(* ================================================================================================ *)
(* 10. corollaries                                                                                  *)
(* ================================================================================================ *)
(* well-formedness only speaks about which updates occur in the list *)
Lemma mrg_wf_gen_incl : forall pi us us', (forall u, In u us' -> In u us) ->
  mrg_wf_gen pi us = true -> mrg_wf_gen pi us' = true.
Proof.
  intros pi us us' Hin H. unfold mrg_wf_gen in *.
  assert (Hb : incl (concat (map mrg_into_blocks us')) (concat (map mrg_into_blocks us))).
  { intros b Hb. apply mrg_input_blocks_in in Hb. destruct Hb as [u [Hu Hb]]. apply mrg_input_blocks_in.
    exists u. split; [apply Hin; exact Hu|exact Hb]. }
  assert (Hu : incl (flat_map units_of_block (concat (map mrg_into_blocks us')))
                    (flat_map units_of_block (concat (map mrg_into_blocks us)))).
  { intros x Hx. apply in_flat_map in Hx. destruct Hx as [b [Hb' Hx]]. apply in_flat_map. exists b.
    split; [apply Hb; exact Hb'|exact Hx]. }
  apply andb_prop in H. destruct H as [H H3]. apply andb_prop in H. destruct H as [H1 H2].
  apply andb_true_intro. split; [apply andb_true_intro; split|].
  - rewrite forallb_forall in *. intros d Hd. apply H1. apply in_map_iff in Hd. destruct Hd as [u [<- Hd]].
    apply in_map. apply Hin. exact Hd.
  - unfold mrg_agree_gen_b in *. rewrite forallb_forall in *. intros x Hx. specialize (H2 x (Hu x Hx)).
    rewrite forallb_forall in *. intros y Hy. apply H2. apply Hu. exact Hy.
  - unfold mrg_cuts_b in *. rewrite forallb_forall in *. intros x Hx. specialize (H3 x (Hb x Hx)).
    rewrite forallb_forall in *. intros y Hy. apply H3. apply Hb. exact Hy.
Qed.
Lemma mrg_wf_incl : forall us us', (forall u, In u us' -> In u us) -> mrg_wf us = true -> mrg_wf us' = true.
Proof. intros us us'. apply mrg_wf_gen_incl. Qed.

(* (d) the unit set of the result depends only on WHICH updates are merged: not on their order, not on
   repetitions *)
Theorem mrg_merge_same_updates_units_gen : forall pi us us', (forall u, In u us <-> In u us') ->
  mrg_wf_gen pi us = true ->
  forall t, In t (map pi (units_of_update (mrg_merge_updates us))) <->
            In t (map pi (units_of_update (mrg_merge_updates us'))).
Proof.
  intros pi us us' Hsame Hwf t.
  assert (Hwf' : mrg_wf_gen pi us' = true) by (apply (mrg_wf_gen_incl pi us); [intros u Hu; apply Hsame; exact Hu|exact Hwf]).
  destruct (mrg_units_preserved_gen pi us Hwf) as [_ H1]. destruct (mrg_units_preserved_gen pi us' Hwf') as [_ H2].
  rewrite H1, H2. split; intros [u [Hu Hx]]; exists u; (split; [apply Hsame; exact Hu|exact Hx]).
Qed.

Theorem mrg_merge_same_updates_units : forall us us', (forall u, In u us <-> In u us') -> mrg_wf us = true ->
  forall x, In x (units_of_update (mrg_merge_updates us)) <-> In x (units_of_update (mrg_merge_updates us')).
Proof.
  intros us us' Hsame Hwf x.
  pose proof (mrg_merge_same_updates_units_gen (fun x => x) us us' Hsame Hwf x) as H.
  rewrite !map_id in H. exact H.
Qed.

Corollary mrg_merge_order_units : forall a b, mrg_wf (a ++ b) = true ->
  forall x, In x (units_of_update (mrg_merge_updates (a ++ b))) <->
            In x (units_of_update (mrg_merge_updates (b ++ a))).
Proof.
  intros a b Hwf. apply mrg_merge_same_updates_units; [|exact Hwf].
  intros u. rewrite !in_app_iff. tauto.
Qed.

Corollary mrg_merge_order_units_norm : forall a b, mrg_wf_norm (a ++ b) = true ->
  forall t, In t (map mrg_unit_norm (units_of_update (mrg_merge_updates (a ++ b)))) <->
            In t (map mrg_unit_norm (units_of_update (mrg_merge_updates (b ++ a)))).
Proof.
  intros a b Hwf. apply mrg_merge_same_updates_units_gen; [|exact Hwf].
  intros u. rewrite !in_app_iff. tauto.
Qed.

Corollary mrg_merge_permutation_units : forall us us', Permutation us us' -> mrg_wf us = true ->
  forall x, In x (units_of_update (mrg_merge_updates us)) <-> In x (units_of_update (mrg_merge_updates us')).
Proof.
  intros us us' Hp Hwf. apply mrg_merge_same_updates_units; [|exact Hwf].
  intros u. split; apply Permutation_in; [exact Hp|symmetry; exact Hp].
Qed.

(* merging a merge = merging flat (unit level), given that the inner result is well-formed together with the
   other arguments.  That hypothesis is discharged in section 14 (mrg_wf_gen_closed), which gives the theorems
   without it: mrg_merge_nested_units, mrg_merge_nested_units_norm.  The two statements below are kept as the
   lemmas they are proved from. *)
Theorem mrg_merge_nested_units_gen_partial : forall pi a b, mrg_wf_gen pi (a ++ b) = true ->
  mrg_wf_gen pi (mrg_merge_updates a :: b) = true ->
  forall t, In t (map pi (units_of_update (mrg_merge_updates (mrg_merge_updates a :: b)))) <->
            In t (map pi (units_of_update (mrg_merge_updates (a ++ b)))).
Proof.
  intros pi a b Hwf Hwf' t.
  assert (Hwa : mrg_wf_gen pi a = true)
    by (apply (mrg_wf_gen_incl pi (a ++ b)); [intros u Hu; apply in_or_app; now left|exact Hwf]).
  destruct (mrg_units_preserved_gen pi _ Hwf') as [_ H1]. destruct (mrg_units_preserved_gen pi _ Hwf) as [_ H2].
  destruct (mrg_units_preserved_gen pi _ Hwa) as [_ H3].
  rewrite H1, H2. split.
  - intros [u [[<-|Hu] Hx]].
    + apply H3 in Hx. destruct Hx as [u [Hu Hx]]. exists u. split; [apply in_or_app; now left|exact Hx].
    + exists u. split; [apply in_or_app; now right|exact Hx].
  - intros [u [Hu Hx]]. apply in_app_iff in Hu. destruct Hu as [Hu|Hu].
    + exists (mrg_merge_updates a). split; [now left|]. apply H3. exists u. split; assumption.
    + exists u. split; [now right|exact Hx].
Qed.

Theorem mrg_merge_nested_units_partial : forall a b, mrg_wf (a ++ b) = true ->
  mrg_wf (mrg_merge_updates a :: b) = true ->
  forall x, In x (units_of_update (mrg_merge_updates (mrg_merge_updates a :: b))) <->
            In x (units_of_update (mrg_merge_updates (a ++ b))).
Proof.
  intros a b Hwf Hwf' x.
  pose proof (mrg_merge_nested_units_gen_partial (fun x => x) a b Hwf Hwf' x) as H.
  rewrite !map_id in H. exact H.
Qed.

(* curr_write is never a Skip block at the top of the loop (the `extend existing skip` branch and the
   `skip.len -= diff` of merge_updates are dead code on well-formed arguments) *)
Theorem mrg_cw_never_skip_gen : forall pi us, mrg_wf_gen pi us = true -> forall n,
  match mrg_iter n (mrg_init us) with
  | inl s | inr s => forall w, mrg_cw s = Some w -> mrg_is_skip w = false
  end.
Proof.
  intros pi us Hwf n. destruct (mrg_wf_gen_spec pi us Hwf) as [W1 [W2 [W3 W4]]].
  pose proof (mrg_iter_inv (mrg_state_inv (mrg_input_blocks us) xop pi)
                (mrg_state_inv_step _ W2 xop pi W3 W4) n _ (mrg_wf_init_inv pi us Hwf)) as Hit.
  destruct (mrg_iter n (mrg_init us)) as [s|r].
  - apply Hit.
  - destruct Hit as [s0 [[_ J] Hst]]. unfold mrg_step in Hst.
    destruct (mrg_sort mrg_dec_lt (filter mrg_has_current (mrg_decs s0))) as [|d rest].
    + injection Hst as <-. exact J.
    + destruct (mrg_round d (mrg_cw s0) (mrg_out s0)) as [[? ?] ?]. discriminate.
Qed.
Theorem mrg_cw_never_skip : forall us, mrg_wf us = true -> forall n,
  match mrg_iter n (mrg_init us) with
  | inl s | inr s => forall w, mrg_cw s = Some w -> mrg_is_skip w = false
  end.
Proof. intros us. apply mrg_cw_never_skip_gen. Qed.

(* ================================================================================================ *)
(* 11. (e) the gap / prefix / filler shape                                                          *)
(* ================================================================================================ *)
(* one client typed "ab" "cde" "fg" "hi"; [mrg_ex_gap] knows [0..2) and [7..9), [mrg_ex_prefix] knows [0..5)
   as one block, [mrg_ex_filler] knows [5..7) (these are the arguments of cases 1-6 of MergeCases.v) *)
Definition mrg_ex_gap : update :=
  {| u_blocks := [(1, [BItem (mkid 1 0) None None (PNamed [116]) None (BString [97; 98]);
                       BSkip (mkid 1 2) 5;
                       BItem (mkid 1 7) (Some (mkid 1 6)) None PUnknown None (BString [104; 105])])];
     u_ds := [] |}.
Definition mrg_ex_prefix : update :=
  {| u_blocks := [(1, [BItem (mkid 1 0) None None (PNamed [116]) None (BString [97; 98; 99; 100; 101])])];
     u_ds := [] |}.
Definition mrg_ex_filler : update :=
  {| u_blocks := [(1, [BItem (mkid 1 5) (Some (mkid 1 4)) None PUnknown None (BString [102; 103])])];
     u_ds := [] |}.

Definition mrg_ex_clocks (us : list update) : list N :=
  map (fun x => ck (xid x)) (units_of_update (mrg_merge_updates us)).

Example mrg_ex_wf : mrg_wf [mrg_ex_prefix; mrg_ex_gap; mrg_ex_filler] = true.
Proof. vm_compute; reflexivity. Qed.

(* in every argument order the result holds the nine units, the filler [5..7) included *)
Example mrg_ex_filler_kept :
  mrg_ex_clocks [mrg_ex_prefix; mrg_ex_gap; mrg_ex_filler] = [0; 1; 2; 3; 4; 5; 6; 7; 8] /\
  mrg_ex_clocks [mrg_ex_prefix; mrg_ex_filler; mrg_ex_gap] = [0; 1; 2; 3; 4; 5; 6; 7; 8] /\
  mrg_ex_clocks [mrg_ex_gap; mrg_ex_prefix; mrg_ex_filler] = [0; 1; 2; 3; 4; 5; 6; 7; 8] /\
  mrg_ex_clocks [mrg_ex_gap; mrg_ex_filler; mrg_ex_prefix] = [0; 1; 2; 3; 4; 5; 6; 7; 8] /\
  mrg_ex_clocks [mrg_ex_filler; mrg_ex_prefix; mrg_ex_gap] = [0; 1; 2; 3; 4; 5; 6; 7; 8] /\
  mrg_ex_clocks [mrg_ex_filler; mrg_ex_gap; mrg_ex_prefix] = [0; 1; 2; 3; 4; 5; 6; 7; 8].
Proof. vm_compute. repeat split. Qed.

(* the block lists: the prefix first keeps it whole, the gap first cuts it at 2 *)
Example mrg_ex_prefix_first :
  u_blocks (mrg_merge_updates [mrg_ex_prefix; mrg_ex_gap; mrg_ex_filler]) =
  [(1, [BItem (mkid 1 0) None None (PNamed [116]) None (BString [97; 98; 99; 100; 101]);
        BItem (mkid 1 5) (Some (mkid 1 4)) None PUnknown None (BString [102; 103]);
        BItem (mkid 1 7) (Some (mkid 1 6)) None PUnknown None (BString [104; 105])])].
Proof. vm_compute; reflexivity. Qed.
Example mrg_ex_gap_first :
  u_blocks (mrg_merge_updates [mrg_ex_gap; mrg_ex_prefix; mrg_ex_filler]) =
  [(1, [BItem (mkid 1 0) None None (PNamed [116]) None (BString [97; 98]);
        BItem (mkid 1 2) (Some (mkid 1 1)) None (PNamed [116]) None (BString [99; 100; 101]);
        BItem (mkid 1 5) (Some (mkid 1 4)) None PUnknown None (BString [102; 103]);
        BItem (mkid 1 7) (Some (mkid 1 6)) None PUnknown None (BString [104; 105])])].
Proof. vm_compute; reflexivity. Qed.

(* a view that starts in the middle of a run ([3..9), written with its origin and without parent) next to the
   prefix [0..5) (which names the parent): the units at 3 and 4 differ in the parent field only *)
Definition mrg_ex_suffix3 : update :=
  {| u_blocks := [(1, [BItem (mkid 1 3) (Some (mkid 1 2)) None PUnknown None (BString [100; 101; 102; 103; 104; 105])])];
     u_ds := [] |}.
Example mrg_ex_suffix_wf : mrg_wf [mrg_ex_prefix; mrg_ex_suffix3] = false /\ mrg_wf_norm [mrg_ex_prefix; mrg_ex_suffix3] = true.
Proof. vm_compute. split; reflexivity. Qed.
Example mrg_ex_suffix_clocks :
  mrg_ex_clocks [mrg_ex_prefix; mrg_ex_suffix3] = [0; 1; 2; 3; 4; 5; 6; 7; 8] /\
  mrg_ex_clocks [mrg_ex_suffix3; mrg_ex_prefix] = [0; 1; 2; 3; 4; 5; 6; 7; 8].
Proof. vm_compute. split; reflexivity. Qed.

(* an Item and a GC block for the same ids are NOT views of one history in the sense of [mrg_wf]
   (the units differ); merge_updates then keeps whichever comes first in the argument list *)
Example mrg_ex_item_gc_not_wf :
  mrg_wf [ {| u_blocks := [(1, [BItem (mkid 1 0) None None (PNamed [116]) None (BString [97; 98])])]; u_ds := [] |};
           {| u_blocks := [(1, [BGC (mkid 1 0) 2])]; u_ds := [] |} ] = false.
Proof. vm_compute; reflexivity. Qed.

(* ================================================================================================ *)
(* 12. the comparison function (after fix fd4802e) and the sort                                      *)
(* ================================================================================================ *)
(* what the comparison function computes: the lexicographic order of (client descending, clock ascending,
   non-Skip before Skip) *)
Definition mrg_rank (b : block) : N := if mrg_is_skip b then 1 else 0.
Definition mrg_klt (a b : block) : Prop :=
  mrg_client b < mrg_client a \/
  (mrg_client a = mrg_client b /\
   (mrg_clock a < mrg_clock b \/ (mrg_clock a = mrg_clock b /\ mrg_rank a < mrg_rank b))).
Definition mrg_keq (a b : block) : Prop :=
  mrg_client a = mrg_client b /\ mrg_clock a = mrg_clock b /\ mrg_rank a = mrg_rank b.

Lemma mrg_cmp_blocks_spec : forall a b,
  match mrg_cmp_blocks a b with
  | Lt => mrg_klt a b
  | Eq => mrg_keq a b
  | Gt => mrg_klt b a
  end.
Proof.
  intros a b. unfold mrg_cmp_blocks, mrg_klt, mrg_keq.
  destruct (N.compare_spec (mrg_client a) (mrg_client b)) as [Ec|Ec|Ec]; [|lia|lia].
  destruct (N.compare_spec (mrg_clock a) (mrg_clock b)) as [Ek|Ek|Ek]; [| |lia].
  - unfold mrg_rank. destruct a, b; cbn [mrg_same_type mrg_is_skip]; lia.
  - destruct (negb (mrg_is_skip a) || mrg_is_skip b); lia.
Qed.

Lemma mrg_klt_keq_excl : forall a b, (mrg_klt a b -> ~ mrg_keq a b /\ ~ mrg_klt b a) /\ (mrg_keq a b -> ~ mrg_klt b a).
Proof. intros a b. unfold mrg_klt, mrg_keq. lia. Qed.

(* the comparison function is a total preorder on blocks (hence on the decoders' current blocks):
   reflexive-Equal, cmp a b is the opposite of cmp b a, and "not Greater" is transitive; Equal is transitive too *)
Theorem mrg_cmp_total_preorder :
  (forall a, mrg_cmp_blocks a a = Eq) /\
  (forall a b, mrg_cmp_blocks a b = CompOpp (mrg_cmp_blocks b a)) /\
  (forall a b c, mrg_cmp_blocks a b <> Gt -> mrg_cmp_blocks b c <> Gt -> mrg_cmp_blocks a c <> Gt) /\
  (forall a b c, mrg_cmp_blocks a b = Eq -> mrg_cmp_blocks b c = Eq -> mrg_cmp_blocks a c = Eq).
Proof.
  split; [|split; [|split]].
  - intros a. pose proof (mrg_cmp_blocks_spec a a) as H. destruct (mrg_cmp_blocks a a); [reflexivity| |];
      unfold mrg_klt in H; lia.
  - intros a b. pose proof (mrg_cmp_blocks_spec a b) as H1. pose proof (mrg_cmp_blocks_spec b a) as H2.
    destruct (mrg_cmp_blocks a b), (mrg_cmp_blocks b a); cbn [CompOpp]; try reflexivity; exfalso;
      unfold mrg_klt, mrg_keq in *; lia.
  - intros a b c Hab Hbc Hac.
    pose proof (mrg_cmp_blocks_spec a b) as H1. pose proof (mrg_cmp_blocks_spec b c) as H2.
    pose proof (mrg_cmp_blocks_spec a c) as H3. rewrite Hac in H3.
    destruct (mrg_cmp_blocks a b); [| |congruence]; (destruct (mrg_cmp_blocks b c); [| |congruence]);
      unfold mrg_klt, mrg_keq in *; lia.
  - intros a b c Hab Hbc.
    pose proof (mrg_cmp_blocks_spec a b) as H1. pose proof (mrg_cmp_blocks_spec b c) as H2.
    pose proof (mrg_cmp_blocks_spec a c) as H3. rewrite Hab in H1. rewrite Hbc in H2.
    destruct (mrg_cmp_blocks a c); [reflexivity| |]; exfalso; unfold mrg_klt, mrg_keq in *; lia.
Qed.

(* an Item and a GC block with the same id now tie (before the fix each was Less than the other) *)
Example mrg_cmp_item_gc_tie :
  let i := BItem (mkid 1 0) None None (PNamed [116]) None (BString [97; 98]) in
  let g := BGC (mkid 1 0) 2 in
  mrg_cmp_blocks i g = Eq /\ mrg_cmp_blocks g i = Eq.
Proof. vm_compute. split; reflexivity. Qed.

(* is_less of decoders that have a current block: the strict part of a total preorder *)
Lemma mrg_dec_lt_strict :
  (forall x : list block, x <> [] -> mrg_dec_lt x x = false) /\
  (forall x y : list block, x <> [] -> y <> [] -> mrg_dec_lt x y = true -> mrg_dec_lt y x = false) /\
  (forall x y z : list block, x <> [] -> y <> [] -> z <> [] ->
     mrg_dec_lt x y = false -> mrg_dec_lt y z = false -> mrg_dec_lt x z = false).
Proof.
  destruct mrg_cmp_total_preorder as [T1 [T2 [T3 _]]]. split; [|split].
  - intros [|a r] H; [congruence|]. cbn [mrg_dec_lt]. rewrite T1. reflexivity.
  - intros [|a r] [|b s] Hx Hy H; try congruence. cbn [mrg_dec_lt] in *. rewrite (T2 b a).
    destruct (mrg_cmp_blocks a b); try discriminate. reflexivity.
  - intros [|a r] [|b s] [|c t] Hx Hy Hz H1 H2; try congruence. cbn [mrg_dec_lt] in *.
    (* not (x < y) is y <= x *)
    assert (Hba : mrg_cmp_blocks b a <> Gt) by (rewrite (T2 b a); destruct (mrg_cmp_blocks a b); cbn; congruence).
    assert (Hcb : mrg_cmp_blocks c b <> Gt) by (rewrite (T2 c b); destruct (mrg_cmp_blocks b c); cbn; congruence).
    pose proof (T3 c b a Hcb Hba) as Hca. rewrite (T2 c a) in Hca.
    destruct (mrg_cmp_blocks a c); cbn in Hca; congruence.
Qed.

(* the sort of merge_updates is determined: ANY list that is sorted for the comparison function and keeps the
   order of the decoders that compare Equal - which is what a stable sort_by returns, whatever its algorithm
   and whatever the number of decoders - is the list [mrg_sort] computes *)
Theorem mrg_sort_decoders_determined : forall (ds ds' : list (list block)),
  Forall (fun d => d <> []) ds -> Forall (fun d => d <> []) ds' ->
  mrg_is_sorted mrg_dec_lt ds' ->
  (forall c, c <> [] -> filter (mrg_eqv mrg_dec_lt c) ds' = filter (mrg_eqv mrg_dec_lt c) ds) ->
  ds' = mrg_sort mrg_dec_lt ds.
Proof.
  destruct mrg_dec_lt_strict as [S1 [S2 S3]].
  intros ds ds'. apply (mrg_sort_determined mrg_dec_lt (fun d : list block => d <> []) S1 S2 S3).
Qed.

(* and [mrg_sort] is such a list *)
Theorem mrg_sort_decoders_stable_sorted : forall ds : list (list block), Forall (fun d => d <> []) ds ->
  Permutation (mrg_sort mrg_dec_lt ds) ds /\ mrg_is_sorted mrg_dec_lt (mrg_sort mrg_dec_lt ds) /\
  forall c, c <> [] -> filter (mrg_eqv mrg_dec_lt c) (mrg_sort mrg_dec_lt ds) = filter (mrg_eqv mrg_dec_lt c) ds.
Proof.
  destruct mrg_dec_lt_strict as [S1 [S2 S3]]. intros ds Hds. split; [apply mrg_sort_perm|]. split.
  - apply (mrg_sort_sorted mrg_dec_lt (fun d : list block => d <> []) S2 S3). exact Hds.
  - intros c Hc. apply (mrg_sort_stable mrg_dec_lt (fun d : list block => d <> []) S3); assumption.
Qed.

(* ================================================================================================ *)
(* 13. the cut condition follows from unit agreement and valid UTF-8                                 *)
(* ================================================================================================ *)
Ltac Zify.zify_post_hook ::= Z.div_mod_to_equations.

(* a high surrogate: the first UTF-16 unit of a character outside the BMP *)
Definition mrg_hi (u : N) : Prop := 55296 <= u /\ u < 56320.

(* one well-formed char at the head of a string: blk_char_decomp, and which UTF-16 units it has *)
Lemma mrg_char_decomp : forall b0 rr r', utf8_step (b0 :: rr) = Some r' ->
  exists c, b0 :: rr = c ++ r' /\
    (forall t, utf16_units (c ++ t) = utf16_units c ++ utf16_units t) /\
    (forall k t, take16 k (c ++ t) =
       if k =? 0 then ([], c ++ t)
       else (c ++ fst (take16 (k - utf16_len_byte b0) t), snd (take16 (k - utf16_len_byte b0) t))) /\
    utf16_len c = utf16_len_byte b0 /\
    ((utf16_len_byte b0 = 1 /\ exists u, utf16_units c = [u] /\ ~ mrg_hi u) \/
     (utf16_len_byte b0 = 2 /\ exists hi lo, utf16_units c = [hi; lo] /\ mrg_hi hi /\ ~ mrg_hi lo)).
Proof.
  intros b0 rr r' H. cbn [utf8_step] in H.
  step_cases H; apply blk_some_inj in H; subst;
  match goal with
  | |- exists c, ?x0 :: ?x1 :: ?x2 :: ?x3 :: ?r = c ++ ?r /\ _ => exists [x0; x1; x2; x3]
  | |- exists c, ?x0 :: ?x1 :: ?x2 :: ?r = c ++ ?r /\ _ => exists [x0; x1; x2]
  | |- exists c, ?x0 :: ?x1 :: ?r = c ++ ?r /\ _ => exists [x0; x1]
  | |- exists c, ?x0 :: ?r = c ++ ?r /\ _ => exists [x0]
  end;
  (split; [reflexivity|]);
  (split; [intro t; cbn [app]; rewrite !blk_u16_cons; blk_ltb_facts; reflexivity|]);
  (split; [intros k t; cbn [app take16]; blk_cont_facts; destruct (k =? 0); reflexivity|]);
  (split; [unfold utf16_len; cbn [fold_left]; unfold utf16_len_byte; blk_ltb_facts; reflexivity|]).
  all: rewrite blk_u16_cons; unfold utf16_len_byte; blk_ltb_facts; rewrite ?blk_u16_nil; cbv zeta.
  all: try (left; split; [reflexivity|]; eexists; split; [reflexivity|]; unfold mrg_hi, cont, in_range in *; lia).
  all: right; split; [reflexivity|]; eexists; eexists; split; [reflexivity|]; unfold mrg_hi, cont, in_range in *; lia.
Qed.

Lemma mrg_valid_head_not_cont : forall b r, utf8_valid (b :: r) = true -> cont b = false.
Proof.
  intros b r H. destruct (blk_valid_step _ _ H) as [r' [E _]]. cbn [utf8_step] in E.
  step_cases E; unfold cont, in_range in *; lia.
Qed.

Lemma mrg_take16_zero : forall t, utf8_valid t = true -> fst (take16 0 t) = [].
Proof.
  intros [|b r] H; [reflexivity|]. cbn [take16]. rewrite (mrg_valid_head_not_cont b r H). reflexivity.
Qed.

(* cutting a valid string after k UTF-16 units gives k units, unless unit k-1 is a high surrogate *)
Lemma mrg_take16_exact_or_hi_n : forall n s k, (length s <= n)%nat -> utf8_valid s = true ->
  0 < k -> k < utf16_len s ->
  utf16_len (fst (take16 k s)) = k \/
  exists hi, nth_error (utf16_units s) (N.to_nat (k - 1)) = Some hi /\ mrg_hi hi.
Proof.
  induction n as [|n IH]; intros s k Hl Hs Hk0 Hk.
  - destruct s; [unfold utf16_len in Hk; cbn [fold_left] in Hk; lia|cbn [length] in Hl; lia].
  - destruct s as [|b0 r]; [unfold utf16_len in Hk; cbn [fold_left] in Hk; lia|].
    destruct (blk_valid_step _ _ Hs) as [r' [E [Hr' Hlen]]].
    destruct (mrg_char_decomp _ _ _ E) as [c [Hc [Happ [Htake [Hlc Hu]]]]].
    rewrite Hc in *. rewrite Htake. replace (k =? 0) with false by lia. cbn [fst].
    rewrite blk_utf16_len_app in *. rewrite Happ. rewrite Hlc in *.
    assert (Hn : (length r' <= n)%nat).
    { lia. }
    destruct Hu as [[Hw [u [Hcu Hnh]]]|[Hw [hi [lo [Hcu [Hhi Hlo]]]]]]; rewrite Hw in *; rewrite Hcu.
    + destruct (N.eq_dec k 1) as [->|Hk1].
      * left. change (1 - 1) with 0. rewrite (mrg_take16_zero r' Hr'). cbn. lia.
      * destruct (IH r' (k - 1) Hn Hr') as [H|[h [H1 H2]]]; [lia|lia|left; lia|].
        right. exists h. split; [|exact H2].
        replace (N.to_nat (k - 1)) with (length [u] + N.to_nat (k - 1 - 1))%nat by (cbn [length]; lia).
        rewrite nth_error_app2 by lia. rewrite Nat.add_comm, Nat.add_sub. exact H1.
    + destruct (N.eq_dec k 1) as [->|Hk1]; [right; exists hi; split; [reflexivity|exact Hhi]|].
      destruct (N.eq_dec k 2) as [->|Hk2].
      * left. change (2 - 2) with 0. rewrite (mrg_take16_zero r' Hr'). cbn. lia.
      * destruct (IH r' (k - 2) Hn Hr') as [H|[h [H1 H2]]]; [lia|lia|left; lia|].
        right. exists h. split; [|exact H2].
        replace (N.to_nat (k - 1)) with (length [hi; lo] + N.to_nat (k - 2 - 1))%nat by (cbn [length]; lia).
        rewrite nth_error_app2 by lia. rewrite Nat.add_comm, Nat.add_sub. exact H1.
Qed.

(* the last UTF-16 unit of a valid string is not a high surrogate *)
Lemma mrg_last_unit_not_hi_n : forall n s, (length s <= n)%nat -> utf8_valid s = true ->
  forall us u, utf16_units s = us ++ [u] -> ~ mrg_hi u.
Proof.
  induction n as [|n IH]; intros s Hl Hs us u Hu.
  - destruct s; [destruct us; discriminate|cbn [length] in Hl; lia].
  - destruct s as [|b0 r]; [destruct us; discriminate|].
    destruct (blk_valid_step _ _ Hs) as [r' [E [Hr' Hlen]]].
    destruct (mrg_char_decomp _ _ _ E) as [c [Hc [Happ [_ [_ Hcu]]]]].
    rewrite Hc, Happ in Hu.
    assert (Hn : (length r' <= n)%nat) by (cbn [length] in *; lia).
    destruct (utf16_units r') as [|x xs] eqn:Er.
    + rewrite app_nil_r in Hu.
      destruct Hcu as [[_ [u0 [Hcu Hnh]]]|[_ [hi [lo [Hcu [_ Hlo]]]]]]; rewrite Hcu in Hu.
      * destruct us as [|? [|? ?]]; try discriminate. injection Hu as <-. exact Hnh.
      * destruct us as [|? [|? [|? ?]]]; try discriminate. injection Hu as _ <-. exact Hlo.
    + destruct (exists_last (l := x :: xs)) as [us' [u' Eu]]; [discriminate|].
      rewrite Eu, app_assoc in Hu. apply app_inj_tail in Hu. destruct Hu as [_ <-].
      apply (IH r' Hn Hr' us' u'). rewrite Er. exact Eu.
Qed.

Lemma mrg_take16_exact_or_hi : forall s k, utf8_valid s = true -> 0 < k -> k < utf16_len s ->
  utf16_len (fst (take16 k s)) = k \/
  exists hi, nth_error (utf16_units s) (N.to_nat (k - 1)) = Some hi /\ mrg_hi hi.
Proof. intros s k. apply (mrg_take16_exact_or_hi_n (length s)). lia. Qed.
Lemma mrg_last_unit_not_hi : forall s us u, utf8_valid s = true -> utf16_units s = us ++ [u] -> ~ mrg_hi u.
Proof. intros s us u Hs. apply (mrg_last_unit_not_hi_n (length s)); [lia|exact Hs]. Qed.

(* the unit with clock k + j of an item carries the j-th element of its content *)
Lemma mrg_item_units_nth : forall us c k o ro p ps x, In x (units_of_item c k o ro p ps us) ->
  exists j, nth_error (map Some us) j = Some (blk_xcont x) /\ ck (xid x) = k + N.of_nat j.
Proof.
  induction us as [|u us IH]; intros c k o ro p ps x H; cbn [units_of_item] in H; [destruct H|].
  destruct H as [<-|H].
  - exists 0%nat. split; [reflexivity|]. cbn [xid oid ck]. lia.
  - apply IH in H. destruct H as [j [H1 H2]]. exists (S j). split; [exact H1|lia].
Qed.

Lemma mrg_nth_error_last {A} : forall (l : list A) v, nth_error l (length l - 1) = Some v -> exists us, l = us ++ [v].
Proof.
  intros l v H. destruct l as [|a l] using rev_ind; [discriminate|].
  rewrite app_length in H. cbn [length] in H. replace (length l + 1 - 1)%nat with (length l) in H by lia.
  rewrite nth_error_app2 in H by lia. rewrite Nat.sub_diag in H. injection H as <-. exists l. reflexivity.
Qed.

(* [pi] does not forget the content of a unit *)
Definition mrg_keeps_content (pi : xop -> xop) : Prop := forall x y, pi x = pi y -> blk_xcont x = blk_xcont y.
Lemma mrg_keeps_content_id : mrg_keeps_content (fun x => x).
Proof. intros x y H. congruence. Qed.
Lemma mrg_keeps_content_norm : mrg_keeps_content mrg_unit_norm.
Proof.
  intros [[i1 o1 r1 p1 s1 c1]|i] [[i2 o2 r2 p2 s2 c2]|j] H; unfold mrg_unit_norm in H;
    cbn [oid oorigin ororigin oparent osub ocont] in H; cbn [blk_xcont ocont];
    try (destruct o1, r1; discriminate H); try (destruct o2, r2; discriminate H); try reflexivity.
  destruct o1, r1, o2, r2; injection H; intros; subst; reflexivity.
Qed.

(* where a block ends strictly inside another block whose units agree with its own, that block can be cut *)
Theorem mrg_cut_ok : forall pi a b, mrg_keeps_content pi ->
  blk_wf a = true -> blk_wf b = true -> mrg_is_skip a = false -> mrg_is_skip b = false -> 0 < block_len a ->
  (forall x y, In x (units_of_block a) -> In y (units_of_block b) -> xid x = xid y -> pi x = pi y) ->
  mrg_client a = mrg_client b -> mrg_clock b < mrg_end a -> mrg_end a < mrg_end b ->
  blk_split b (mrg_end a - mrg_clock b) <> None.
Proof.
  intros pi a b Hpi Hwa Hwb Hsa Hsb Hla Hag Hc H1 H2.
  set (k := mrg_end a - mrg_clock b).
  assert (Hk0 : 0 < k) by (unfold k; lia).
  assert (Hk : k < block_len b) by (unfold k, mrg_end in *; lia).
  unfold blk_split. replace ((0 <? k) && (k <? block_len b)) with true by lia.
  destruct b as [i o ro p ps c|i n|i n]; [|discriminate|discriminate].
  destruct (blk_content_split c k) as [[c1 c2]|] eqn:Esp; [discriminate|]. exfalso.
  cbn [block_len blk_wf] in *.
  destruct c as [n|l|bb|s|j|kk j|t|l|g oo]; cbn [blk_content_split content_len] in *; try discriminate; try lia.
  (* a string *)
  destruct (blk_take16_valid s k Hwb) as [Hv1 _].
  unfold blk_split_str in Esp. rewrite (blk_str_len16_valid _ Hv1) in Esp.
  rewrite (blk_str_len16_valid _ Hwb) in Hk.
  destruct (mrg_take16_exact_or_hi s k Hwb Hk0 Hk) as [He|[hi [Hnth Hhi]]].
  { rewrite He, N.eqb_refl in Esp. discriminate. }
  clear Esp.
  set (bb := BItem i o ro p ps (BString s)) in *.
  assert (Hlb : block_len bb = utf16_len s) by (cbn [bb block_len content_len]; apply blk_str_len16_valid; exact Hwb).
  (* the unit of b before the cut *)
  destruct (mrg_units_cover bb (mrg_clock bb + k - 1) Hwb eq_refl) as [y [Hy Hiy]]; [lia|unfold mrg_end; lia|].
  assert (Hcy : blk_xcont y = Some (UString hi)).
  { cbn [bb units_of_block] in Hy. apply mrg_item_units_nth in Hy. destruct Hy as [j [Hj1 Hj2]].
    rewrite Hiy in Hj2. cbn [ck] in Hj2. unfold mrg_clock in Hj2. cbn [bb block_id] in Hj2.
    assert (Ej : j = N.to_nat (k - 1)) by lia. subst j.
    rewrite (blk_str_units_valid s Hwb), map_map, nth_error_map, Hnth in Hj1. cbn [option_map] in Hj1.
    injection Hj1 as <-. reflexivity. }
  (* the last unit of a *)
  destruct (mrg_units_cover a (mrg_end a - 1) Hwa Hsa) as [x [Hx Hix]]; [unfold mrg_end; lia|lia|].
  assert (Hxy : xid x = xid y).
  { rewrite Hix, Hiy, Hc. f_equal. unfold k. lia. }
  pose proof (Hpi _ _ (Hag x y Hx Hy Hxy)) as Hcx. rewrite Hcy in Hcx.
  destruct a as [ia oa roa pa psa ca|ia na|ia na]; [| |discriminate].
  2:{ cbn [units_of_block] in Hx. clear -Hx Hcx. revert Hx. generalize (cl ia) (ck ia). 
      induction (N.to_nat na) as [|m IH]; intros c0 k0 Hx; cbn [gc_units] in Hx; [destruct Hx|].
      destruct Hx as [<-|Hx]; [discriminate|]. eapply IH; exact Hx. }
  cbn [units_of_block] in Hx. apply mrg_item_units_nth in Hx. destruct Hx as [j [Hj1 Hj2]].
  rewrite Hix in Hj2. cbn [ck] in Hj2. unfold mrg_end, mrg_clock in Hj2. cbn [block_id block_len] in *.
  pose proof (blk_content_len_units ca Hwa) as Hlen.
  assert (Ej : j = (length (content_units ca) - 1)%nat) by lia. subst j.
  rewrite Hcx, nth_error_map in Hj1.
  destruct (nth_error (content_units ca) (length (content_units ca) - 1)) as [v|] eqn:Ev; [|discriminate].
  cbn [option_map] in Hj1. injection Hj1 as ->.
  pose proof (nth_error_In _ _ Ev) as Hin.
  destruct ca as [n|l|bb'|sa|j|kk j|t|l|g oo]; cbn [blk_wf blk_content_wf] in Hwa.
  - cbn [content_units] in Hin. apply repeat_spec in Hin. discriminate.
  - cbn [content_units] in Hin. apply in_map_iff in Hin. destruct Hin as [? [? _]]. discriminate.
  - destruct Hin as [?|[]]. discriminate.
  - rewrite (blk_str_units_valid sa Hwa) in Ev. rewrite map_length, nth_error_map in Ev.
    destruct (nth_error (utf16_units sa) (length (utf16_units sa) - 1)) as [u|] eqn:Eu; [|discriminate].
    cbn [option_map] in Ev. injection Ev as ->.
    apply mrg_nth_error_last in Eu. destruct Eu as [us Eu].
    exact (mrg_last_unit_not_hi sa us hi Hwa Eu Hhi).
  - destruct Hin as [?|[]]. discriminate.
  - destruct Hin as [?|[]]. discriminate.
  - destruct Hin as [?|[]]. discriminate.
  - cbn [content_units] in Hin. apply in_map_iff in Hin. destruct Hin as [? [? _]]. discriminate.
  - destruct Hin as [?|[]]. discriminate.
Qed.

(* hence [mrg_cuts_b] is redundant in [mrg_wf] / [mrg_wf_norm]: it follows from the other two conjuncts *)
Theorem mrg_cuts_redundant : forall pi us, mrg_keeps_content pi ->
  forallb (fun d => forallb mrg_block_ok d && mrg_sorted_b d) (map mrg_into_blocks us) = true ->
  mrg_agree_gen_b pi (concat (map mrg_into_blocks us)) = true ->
  mrg_cuts_b (concat (map mrg_into_blocks us)) = true.
Proof.
  intros pi us Hpi H1 H2. unfold mrg_cuts_b. apply forallb_forall. intros a Ha. apply forallb_forall. intros b Hb.
  destruct ((mrg_client a =? mrg_client b) && (mrg_clock b <? mrg_end a) && (mrg_end a <? mrg_end b)) eqn:E;
    [|reflexivity].
  cbn [negb orb].
  assert (Hok : forall x, In x (concat (map mrg_into_blocks us)) ->
            mrg_is_skip x = false /\ blk_wf x = true /\ 0 < block_len x).
  { intros x Hx. pose proof Hx as Hx'. apply (mrg_input_blocks_in us) in Hx'. destruct Hx' as [u [Hu Hxu]].
    split; [apply mrg_into_blocks_in in Hxu; apply Hxu|].
    rewrite forallb_forall in H1. specialize (H1 _ (in_map _ _ _ Hu)). apply andb_prop in H1. destruct H1 as [H1 _].
    rewrite forallb_forall in H1. specialize (H1 x Hxu). unfold mrg_block_ok in H1. apply andb_prop in H1.
    destruct H1 as [Hw Hl]. split; [exact Hw|apply N.ltb_lt; exact Hl]. }
  destruct (Hok a Ha) as [Sa [Wa La]]. destruct (Hok b Hb) as [Sb [Wb _]].
  assert (Hne : blk_split b (mrg_end a - mrg_clock b) <> None).
  { apply (mrg_cut_ok pi a b Hpi Wa Wb Sa Sb La); try lia.
    intros x y Hx Hy. apply (mrg_agree_gen_b_spec pi _ H2); apply in_flat_map; [exists a|exists b]; split; assumption. }
  destruct (blk_split b (mrg_end a - mrg_clock b)); [reflexivity|congruence].
Qed.

Corollary mrg_wf_gen_core : forall pi us, mrg_keeps_content pi ->
  mrg_wf_gen pi us = forallb (fun d => forallb mrg_block_ok d && mrg_sorted_b d) (map mrg_into_blocks us)
                     && mrg_agree_gen_b pi (concat (map mrg_into_blocks us)).
Proof.
  intros pi us Hpi. unfold mrg_wf_gen.
  destruct (forallb _ (map mrg_into_blocks us)) eqn:E1; [|reflexivity].
  destruct (mrg_agree_gen_b pi _) eqn:E2; [|reflexivity].
  cbn [andb]. apply (mrg_cuts_redundant pi us Hpi E1 E2).
Qed.

(* [mrg_wf] and [mrg_wf_norm] without their third conjunct *)
Corollary mrg_wf_norm_core : forall us,
  mrg_wf_norm us = forallb (fun d => forallb mrg_block_ok d && mrg_sorted_b d) (map mrg_into_blocks us)
                   && mrg_agree_gen_b mrg_unit_norm (concat (map mrg_into_blocks us)).
Proof.
  intros us. unfold mrg_wf_norm, mrg_wf_gen.
  destruct (forallb _ (map mrg_into_blocks us)) eqn:E1; [|reflexivity].
  destruct (mrg_agree_gen_b mrg_unit_norm _) eqn:E2; [|reflexivity].
  cbn [andb]. apply (mrg_cuts_redundant mrg_unit_norm us mrg_keeps_content_norm E1 E2).
Qed.
Corollary mrg_wf_core : forall us,
  mrg_wf us = forallb (fun d => forallb mrg_block_ok d && mrg_sorted_b d) (map mrg_into_blocks us)
              && mrg_agree_b (concat (map mrg_into_blocks us)).
Proof.
  intros us. unfold mrg_wf, mrg_wf_gen, mrg_agree_b.
  destruct (forallb _ (map mrg_into_blocks us)) eqn:E1; [|reflexivity].
  destruct (mrg_agree_gen_b (fun x => x) _) eqn:E2; [|reflexivity].
  cbn [andb]. apply (mrg_cuts_redundant (fun x => x) us mrg_keeps_content_id E1 E2).
Qed.

Ltac Zify.zify_post_hook ::= idtac.

(* ================================================================================================ *)
(* 14. the result of a merge is well-formed together with the other updates: merging a merge         *)
(* ================================================================================================ *)
Lemma mrg_any_eqb_refl : forall a, mrg_any_eqb a a = true.
Proof.
  fix IH 1. intros a. destruct a; cbn [mrg_any_eqb]; try reflexivity.
  - apply eqb_reflx.
  - apply Z.eqb_refl.
  - apply N.eqb_refl.
  - apply N.eqb_refl.
  - apply N.eqb_refl.
  - apply blk_bytes_eqb_refl.
  - apply blk_bytes_eqb_refl.
  - induction l as [|x l IHl]; [reflexivity|]. rewrite IH, IHl. reflexivity.
  - induction l as [|[k x] l IHl]; [reflexivity|]. rewrite blk_bytes_eqb_refl, IH, IHl. reflexivity.
Qed.
Lemma mrg_scope_eqb_refl : forall a, mrg_scope_eqb a a = true.
Proof. intros [x|x|x]; cbn [mrg_scope_eqb]; [apply blk_bytes_eqb_refl|apply blk_id_eqb_refl|apply blk_id_eqb_refl]. Qed.
Lemma mrg_tyref_eqb_refl : forall a, mrg_tyref_eqb a a = true.
Proof.
  intros a. destruct a; cbn [mrg_tyref_eqb]; try reflexivity; [apply blk_bytes_eqb_refl|].
  unfold mrg_weaklink_eqb. rewrite !mrg_scope_eqb_refl, !eqb_reflx. reflexivity.
Qed.
Lemma mrg_ucontent_eqb_refl : forall a, mrg_ucontent_eqb a a = true.
Proof.
  intros a. destruct a; cbn [mrg_ucontent_eqb]; try reflexivity;
    rewrite ?blk_bytes_eqb_refl, ?N.eqb_refl, ?mrg_tyref_eqb_refl, ?mrg_any_eqb_refl; reflexivity.
Qed.
Lemma mrg_xop_eqb_refl : forall a, mrg_xop_eqb a a = true.
Proof.
  intros [x|i]; cbn [mrg_xop_eqb]; [|apply blk_id_eqb_refl].
  rewrite blk_id_eqb_refl, !blk_oid_eqb_refl, blk_parent_eqb_refl, blk_okey_eqb_refl, mrg_ucontent_eqb_refl. reflexivity.
Qed.

Lemma mrg_agree_gen_b_complete : forall pi bs,
  (forall x y, In x (flat_map units_of_block bs) -> In y (flat_map units_of_block bs) -> xid x = xid y -> pi x = pi y) ->
  mrg_agree_gen_b pi bs = true.
Proof.
  intros pi bs H. unfold mrg_agree_gen_b. apply forallb_forall. intros x Hx. apply forallb_forall. intros y Hy.
  destruct (id_eqb (xid x) (xid y)) eqn:E; [|reflexivity]. cbn [negb orb].
  apply blk_id_eqb_eq in E. rewrite (H x y Hx Hy E). apply mrg_xop_eqb_refl.
Qed.

Lemma mrg_sorted_b_complete : forall d, StronglySorted mrg_before d -> mrg_sorted_b d = true.
Proof.
  induction d as [|a r IH]; intros H; [reflexivity|]. inversion H as [|? ? Hs Hf]; subst.
  cbn [mrg_sorted_b]. rewrite (IH Hs), andb_true_r. destruct r as [|b r]; [reflexivity|].
  apply mrg_before_b_spec. apply Forall_inv in Hf. exact Hf.
Qed.

Lemma mrg_sort_clients_id : forall l, StronglySorted (fun c c' : N => c' < c) (map fst l) -> mrg_sort_clients l = l.
Proof.
  unfold mrg_sort_clients. induction l as [|x l IH]; intros H; [reflexivity|].
  cbn [map] in H. inversion H as [|? ? Hs Hf]; subst. cbn [fold_right]. rewrite (IH Hs).
  destruct l as [|y l]; [reflexivity|]. cbn [mrg_insert_client]. cbn [map] in Hf. apply Forall_inv in Hf.
  replace (fst y <=? fst x) with true by lia. reflexivity.
Qed.

Lemma mrg_sorted_filter {A} (R : A -> A -> Prop) (f : A -> bool) : forall l,
  StronglySorted R l -> StronglySorted R (filter f l).
Proof.
  induction l as [|a l IH]; intros H; [constructor|]. inversion H as [|? ? Hs Hf]; subst. cbn [filter].
  destruct (f a); [|apply IH; exact Hs]. constructor; [apply IH; exact Hs|].
  apply Forall_forall. intros y Hy. apply filter_In in Hy. rewrite Forall_forall in Hf. apply Hf. apply Hy.
Qed.

(* the blocks of the result, as IntoBlocks hands them to the next merge *)
Lemma mrg_output_into_blocks : forall pi us, mrg_wf_gen pi us = true ->
  forallb mrg_block_ok (mrg_into_blocks (mrg_merge_updates us)) = true /\
  mrg_sorted_b (mrg_into_blocks (mrg_merge_updates us)) = true.
Proof.
  intros pi us Hwf. destruct (mrg_wf_run pi us Hwf) as [s0 [r [Hs0 [Hst Hm]]]].
  destruct (mrg_state_inv_final _ _ _ s0 r Hs0 Hst) as [_ [_ [[_ [Hk Hok]] Hbw]]].
  unfold mrg_into_blocks. rewrite Hm. unfold mrg_finish. cbn [u_blocks].
  rewrite (mrg_sort_clients_id _ Hk). split.
  - apply forallb_forall. intros b Hb. apply filter_In in Hb. destruct Hb as [Hb _].
    destruct (Hbw b Hb) as [H1 H2]. unfold mrg_block_ok. rewrite H1. apply N.ltb_lt. exact H2.
  - apply mrg_sorted_b_complete. apply mrg_sorted_filter. exact Hok.
Qed.

(* closure: if a ++ b is well-formed, so is (merge a) :: b *)
Theorem mrg_wf_gen_closed : forall pi a b, mrg_keeps_content pi ->
  mrg_wf_gen pi (a ++ b) = true -> mrg_wf_gen pi (mrg_merge_updates a :: b) = true.
Proof.
  intros pi a b Hpi Hwf.
  assert (Hwa : mrg_wf_gen pi a = true)
    by (apply (mrg_wf_gen_incl pi (a ++ b)); [intros u Hu; apply in_or_app; now left|exact Hwf]).
  destruct (mrg_wf_gen_spec pi _ Hwf) as [_ [_ [Wagree _]]].
  rewrite (mrg_wf_gen_core pi (a ++ b) Hpi) in Hwf. rewrite (mrg_wf_gen_core pi (mrg_merge_updates a :: b) Hpi).
  apply andb_prop in Hwf. destruct Hwf as [H1 H2].
  apply andb_true_intro. split.
  - cbn [map forallb]. rewrite map_app, forallb_app in H1. apply andb_prop in H1. destruct H1 as [_ H1b].
    rewrite H1b, andb_true_r.
    destruct (mrg_output_into_blocks pi a Hwa) as [O1 O2]. rewrite O1, O2. reflexivity.
  - apply mrg_agree_gen_b_complete.
    assert (Hsub : forall x, In x (flat_map units_of_block (concat (map mrg_into_blocks (mrg_merge_updates a :: b)))) ->
              In x (flat_map units_of_block (mrg_input_blocks (a ++ b)))).
    { intros x Hx. apply (mrg_units_union_in (mrg_merge_updates a :: b)) in Hx. destruct Hx as [u [[<-|Hu] Hx]].
      - destruct (mrg_units_preserved_gen pi a Hwa) as [Hs _]. destruct (Hs x Hx) as [u [Hu Hxu]].
        apply mrg_units_union_in. exists u. split; [apply in_or_app; now left|exact Hxu].
      - apply mrg_units_union_in. exists u. split; [apply in_or_app; now right|exact Hx]. }
    intros x y Hx Hy. apply Wagree; apply Hsub; assumption.
Qed.

(* (d) merging a merge = merging flat, at unit level: no extra hypothesis any more *)
Theorem mrg_merge_nested_units_gen : forall pi a b, mrg_keeps_content pi -> mrg_wf_gen pi (a ++ b) = true ->
  forall t, In t (map pi (units_of_update (mrg_merge_updates (mrg_merge_updates a :: b)))) <->
            In t (map pi (units_of_update (mrg_merge_updates (a ++ b)))).
Proof.
  intros pi a b Hpi Hwf. apply mrg_merge_nested_units_gen_partial; [exact Hwf|].
  apply mrg_wf_gen_closed; assumption.
Qed.

Theorem mrg_merge_nested_units : forall a b, mrg_wf (a ++ b) = true ->
  forall x, In x (units_of_update (mrg_merge_updates (mrg_merge_updates a :: b))) <->
            In x (units_of_update (mrg_merge_updates (a ++ b))).
Proof.
  intros a b Hwf x. pose proof (mrg_merge_nested_units_gen (fun x => x) a b mrg_keeps_content_id Hwf x) as H.
  rewrite !map_id in H. exact H.
Qed.

Theorem mrg_merge_nested_units_norm : forall a b, mrg_wf_norm (a ++ b) = true ->
  forall t, In t (map mrg_unit_norm (units_of_update (mrg_merge_updates (mrg_merge_updates a :: b)))) <->
            In t (map mrg_unit_norm (units_of_update (mrg_merge_updates (a ++ b)))).
Proof. intros a b Hwf. apply mrg_merge_nested_units_gen; [exact mrg_keeps_content_norm|exact Hwf]. Qed.

(* in particular the result of a merge is itself well-formed *)
Corollary mrg_wf_norm_merge : forall us, mrg_wf_norm us = true -> mrg_wf_norm [mrg_merge_updates us] = true.
Proof.
  intros us H. apply (mrg_wf_gen_closed mrg_unit_norm us [] mrg_keeps_content_norm). rewrite app_nil_r. exact H.
Qed.

Print Assumptions mrg_fuel_sufficient.
Print Assumptions mrg_units_preserved_gen.
Print Assumptions mrg_units_preserved.
Print Assumptions mrg_units_preserved_norm.
Print Assumptions mrg_output_ok_gen.
Print Assumptions mrg_output_units_nodup_gen.
Print Assumptions mrg_ds_union.
Print Assumptions mrg_merge_same_updates_units_gen.
Print Assumptions mrg_merge_order_units.
Print Assumptions mrg_merge_order_units_norm.
Print Assumptions mrg_merge_nested_units_gen_partial.
Print Assumptions mrg_cut_ok.
Print Assumptions mrg_cuts_redundant.
Print Assumptions mrg_wf_norm_core.
Print Assumptions mrg_wf_gen_closed.
Print Assumptions mrg_merge_nested_units.
Print Assumptions mrg_merge_nested_units_norm.
Print Assumptions mrg_cw_never_skip_gen.
Print Assumptions mrg_ex_filler_kept.
Print Assumptions mrg_cmp_total_preorder.
Print Assumptions mrg_sort_decoders_determined.
Print Assumptions mrg_sort_decoders_stable_sorted.
