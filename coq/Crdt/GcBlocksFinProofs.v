(* Theorem 4 of the garbage collector, the marks invariant through the Item::gc recursion. *)
From Coq Require Import List NArith Bool Lia PeanoNat Arith.
From YV Require Import Codec.UpdateV1 Ids.Ranges Crdt.Doc Crdt.Blocks Crdt.BlocksProofs Crdt.Merge Crdt.ApplyDelete
  Crdt.ApplyDeleteProofs Crdt.WriteBlocks Crdt.GcBlocks Crdt.GcBlocksProofs Crdt.GcBlocksMore Crdt.GcBlocksMoreProofs.
Import ListNotations.
Open Scope N_scope.

Definition gcb_parent_is (c : gcb_cell) (j : id) : Prop :=
  match gcb_blk c with BItem _ _ _ (PId p) _ _ => p = j | _ => False end.
(* the marked id m is a deleted item of the store st0 the run started from, its parent j is a deleted type item of
   st0, and the Branch of j has been drained (Item::gc ran on j with its condition true: `branch.start.take()`,
   `branch.map.drain()`) in the store st *)
Definition gcb_mark_ok (st0 st : gcb_store) (m : id) : Prop :=
  exists pos c j, gcb_get_item st0 m = Some (pos, c) /\ gcb_del c = true /\ gcb_parent_is c j
    /\ gcb_dead_type st0 j = true /\ gcb_branch_of (gcb_branches st) j = Some gcb_empty_branch.

Lemma gcb_mark_ok_fwd : forall st0 st st' m, Forall2 (gcb_brel st) (gcb_branches st) (gcb_branches st') ->
  gcb_mark_ok st0 st m -> gcb_mark_ok st0 st' m.
Proof.
  intros st0 st st' m HB (pos & c & j & H1 & H2 & H3 & H4 & H5). exists pos, c, j. repeat split; try assumption.
  pose proof (gcb_branch_of_rel st _ _ j HB) as Q. rewrite H5 in Q. destruct Q as (br' & -> & [->| ->]); reflexivity.
Qed.

Lemma gcb_branch_of_clear : forall brs i j, gcb_branch_of brs j = Some gcb_empty_branch ->
  gcb_branch_of (gcb_clear_branch brs i) j = Some gcb_empty_branch.
Proof.
  induction brs as [|[p b] r IH]; intros i j H; cbn [gcb_branch_of gcb_clear_branch] in *; [discriminate|].
  destruct (gcb_key_is i p) eqn:Ei; cbn [gcb_branch_of]; destruct (gcb_key_is j p) eqn:Ej; auto.
Qed.
Lemma gcb_branch_of_clear_self : forall brs i b, gcb_branch_of brs i = Some b ->
  gcb_branch_of (gcb_clear_branch brs i) i = Some gcb_empty_branch.
Proof.
  induction brs as [|[p b0] r IH]; intros i b H; cbn [gcb_branch_of gcb_clear_branch] in *; [discriminate|].
  destruct (gcb_key_is i p) eqn:Ei; cbn [gcb_branch_of]; rewrite Ei; [reflexivity|exact (IH i b H)].
Qed.
Lemma gcb_branch_of_in : forall brs i b, gcb_branch_of brs i = Some b -> In (PId i, b) brs.
Proof.
  induction brs as [|[p b0] r IH]; intros i b H; cbn [gcb_branch_of] in H; [discriminate|].
  destruct (gcb_key_is i p) eqn:Ei; [|right; exact (IH i b H)]. inversion H; subst. left. rewrite (gcb_key_is_eq _ _ Ei). reflexivity.
Qed.

Lemma gcb_ptr_ok_child : forall st0 i br0 m, gcb_ptr_ok st0 = true -> gcb_branch_of (gcb_branches st0) i = Some br0 ->
  In m (gcb_seq br0 ++ flat_map snd (gcb_map br0)) -> exists pos c, gcb_get_item st0 m = Some (pos, c) /\ gcb_parent_is c i.
Proof.
  intros st0 i br0 m Hp Hb Hin. unfold gcb_ptr_ok in Hp.
  pose proof (proj1 (forallb_forall _ _) Hp _ (gcb_branch_of_in _ _ _ Hb)) as H1. cbn [fst snd] in H1.
  pose proof (proj1 (forallb_forall _ _) H1 _ Hin) as H2. cbn beta in H2.
  destruct (gcb_get_item st0 m) as [[pos c]|]; [|discriminate]. exists pos, c. split; [reflexivity|].
  unfold gcb_parent_is. destruct (gcb_blk c) as [x o ro p ps ct| |]; try discriminate.
  apply blk_parent_eqb_eq in H2. subst p. reflexivity.
Qed.

Lemma gcb_wsrel_crelL : forall st st', gcb_srelR gcb_wrel st st' -> gcb_crelL gcb_crel (gcb_clients st) (gcb_clients st').
Proof. intros st st' H. exact (proj1 (gcb_wrel_srel _ _ H)). Qed.

Lemma gcb_map_at_branches : forall st c pos f, gcb_branches (gcb_map_at st c pos f) = gcb_branches st.
Proof.
  intros st c pos f. unfold gcb_map_at. destruct (gcb_get_client (gcb_clients st) c); [|reflexivity].
  destruct (nth_error l pos); reflexivity.
Qed.

Definition gcb_new_ok (st0 st' : gcb_store) (mk : gcb_marked) (i : id) (pgc : bool) (m : id) : Prop :=
  In m (gcb_marked_ids mk) \/ gcb_mark_ok st0 st' m \/ (m = i /\ pgc = true /\ gcb_dead_item st0 i = true).

Lemma gcb_item_gc_marks : forall st0, gcb_ptr_ok st0 = true -> forall fuel st mk i pgc st' mk',
  gcb_srelR gcb_wrel st0 st -> gcb_item_gc fuel st mk i pgc = adl_ok (st', mk') ->
  forall m, In m (gcb_marked_ids mk') -> gcb_new_ok st0 st' mk i pgc m.
Proof.
  intros st0 Hp. induction fuel as [|f IH]; intros st mk i pgc st' mk' H0 H; [discriminate|].
  pose proof (gcb_item_gc_rel _ _ _ _ _ _ _ H) as Hfull. cbn [gcb_item_gc] in H.
  destruct (gcb_get_item st i) as [[pos c]|] eqn:Eg; [|discriminate].
  destruct (gcb_del c && (pgc || negb (gcb_keep c))) eqn:Ec; [|inversion H; subst; intros m Hm; left; exact Hm].
  apply andb_true_iff in Ec. destruct Ec as [Hdel _].
  match type of H with adl_bind ?X _ = _ => destruct X as [acc|] eqn:EX; [|discriminate] end. cbn [adl_bind] in H.
  (* the children *)
  assert (HX : gcb_srelR gcb_wrel st (fst acc) /\
               forall m, In m (gcb_marked_ids (snd acc)) -> In m (gcb_marked_ids mk) \/ gcb_mark_ok st0 (fst acc) m).
  { assert (Htriv : gcb_srelR gcb_wrel st st /\ forall m, In m (gcb_marked_ids mk) -> In m (gcb_marked_ids mk) \/ gcb_mark_ok st0 st m)
      by (split; [apply gcb_srelR_refl; exact gcb_wrel_refl|auto]).
    destruct (gcb_is_type c) eqn:Et; [|inversion EX; subst; exact Htriv].
    destruct (gcb_branch_of (gcb_branches st) i) as [br|] eqn:Eb; [|inversion EX; subst; exact Htriv].
    match type of EX with adl_bind ?X _ = _ => destruct X as [acc1|] eqn:E1; [|discriminate] end. cbn [adl_bind] in EX.
    match type of EX with adl_bind ?X _ = _ => destruct X as [acc2|] eqn:E2; [|discriminate] end. cbn [adl_bind] in EX.
    inversion EX; subst acc. cbn [fst snd]. clear EX.
    set (kids := gcb_seq br ++ flat_map snd (gcb_map br)).
    set (Q := fun a : gcb_store * gcb_marked => gcb_srelR gcb_wrel st (fst a) /\
               forall m, In m (gcb_marked_ids (snd a)) ->
                 In m (gcb_marked_ids mk) \/ gcb_mark_ok st0 (fst a) m \/ (In m kids /\ gcb_dead_item st0 m = true)).
    assert (Hstep : forall a x a', In x kids -> Q a -> gcb_item_gc f (fst a) (snd a) x true = adl_ok a' -> Q a').
    { intros a x [s1 m1] Hx [Qa1 Qa2] E. pose proof (gcb_item_gc_rel _ _ _ _ _ _ _ E) as HR. split.
      - exact (gcb_wrel_srel_trans _ _ _ Qa1 HR).
      - intros m Hm. cbn [fst snd] in *.
        destruct (IH _ _ _ _ _ _ (gcb_wrel_srel_trans _ _ _ H0 Qa1) E m Hm) as [G|[G|(G1 & _ & G3)]].
        + destruct (Qa2 m G) as [G'|[G'|G']]; [left; exact G'|right; left; exact (gcb_mark_ok_fwd _ _ _ _ (proj2 HR) G')|right; right; exact G'].
        + right. left. exact G.
        + subst m. right. right. auto. }
    assert (Q0 : Q (st, mk)) by (split; [apply gcb_srelR_refl; exact gcb_wrel_refl|intros m Hm; left; exact Hm]).
    assert (Q1 : Q acc1).
    { revert Q0 E1. generalize (st, mk). assert (Hk : forall x, In x (gcb_seq br) -> In x kids) by (intros x Hx; apply in_or_app; left; exact Hx).
      revert Hk. generalize (gcb_seq br). induction l as [|x r IHl]; intros Hk a Qa E; cbn [adl_fold] in E; [inversion E; subst; exact Qa|].
      destruct (gcb_item_gc f (fst a) (snd a) x true) as [a1|] eqn:Ex; [|discriminate]. cbn [adl_bind] in E.
      apply (IHl (fun y Hy => Hk y (or_intror Hy)) a1); [|exact E]. exact (Hstep a x a1 (Hk x (or_introl eq_refl)) Qa Ex). }
    assert (Q2 : Q acc2).
    { revert Q1 E2. generalize acc1.
      assert (Hk : forall kv x, In kv (gcb_map br) -> In x (snd kv) -> In x kids).
      { intros kv x Hkv Hx. apply in_or_app. right. apply in_flat_map. exists kv. split; assumption. }
      revert Hk. generalize (gcb_map br). induction l as [|kv r IHl]; intros Hk a Qa E; cbn [adl_fold] in E; [inversion E; subst; exact Qa|].
      match type of E with adl_bind ?X _ = _ => destruct X as [a1|] eqn:Ekv; [|discriminate] end. cbn [adl_bind] in E.
      apply (IHl (fun kv0 y Hkv0 Hy => Hk kv0 y (or_intror Hkv0) Hy) a1); [|exact E].
      assert (Hk' : forall x, In x (snd kv) -> In x kids) by (intros x Hx; exact (Hk kv x (or_introl eq_refl) Hx)).
      revert Qa Ekv. generalize a. revert Hk'. generalize (snd kv). induction l as [|x r0 IHl0]; intros Hk' a0 Qa0 E0; cbn [adl_fold] in E0; [inversion E0; subst; exact Qa0|].
      destruct (gcb_item_gc f (fst a0) (snd a0) x true) as [a2|] eqn:Ex; [|discriminate]. cbn [adl_bind] in E0.
      apply (IHl0 (fun y Hy => Hk' y (or_intror Hy)) a2); [|exact E0]. exact (Hstep a0 x a2 (Hk' x (or_introl eq_refl)) Qa0 Ex). }
    destruct Q2 as [R2 M2].
    assert (Hdt : gcb_dead_type st0 i = true).
    { apply (gcb_dead_type_back st0 st i (gcb_wsrel_crelL _ _ H0)). unfold gcb_dead_type. rewrite Eg, Hdel, Et. reflexivity. }
    pose proof (gcb_branch_of_rel st _ _ i (proj2 R2)) as B2. rewrite Eb in B2. destruct B2 as (br2 & B2 & _).
    split.
    - split; cbn [gcb_clients gcb_branches]; [exact (proj1 R2)|]. apply gcb_clear_branch_F2; [exact (proj2 R2)|].
      unfold gcb_dead_type. rewrite Eg, Hdel, Et. reflexivity.
    - intros m Hm. destruct (M2 m Hm) as [G|[G|[G1 G2]]]; [left; exact G| |]; right.
      + destruct G as (p1 & c1 & j & A1 & A2 & A3 & A4 & A5). exists p1, c1, j. repeat split; try assumption.
        cbn [gcb_branches]. apply gcb_branch_of_clear. exact A5.
      + (* a child of i, marked while i was being drained *)
        pose proof (gcb_branch_of_rel st0 _ _ i (proj2 H0)) as B0.
        destruct (gcb_branch_of (gcb_branches st0) i) as [br0|] eqn:Eb0; [|rewrite Eb in B0; discriminate].
        destruct B0 as (br' & B0 & Hbr). rewrite Eb in B0. inversion B0; subst br'.
        assert (Hin0 : In m (gcb_seq br0 ++ flat_map snd (gcb_map br0))).
        { destruct Hbr as [->| ->]; [exact G1|]. unfold kids in G1. cbn in G1. destruct G1. }
        destruct (gcb_ptr_ok_child st0 i br0 m Hp Eb0 Hin0) as (pm & cm & Gm & Pm).
        exists pm, cm, i. unfold gcb_dead_item in G2. rewrite Gm in G2. repeat split; try assumption.
        cbn [gcb_branches]. exact (gcb_branch_of_clear_self _ _ _ B2). }
  destruct HX as [RX MX]. destruct pgc.
  - inversion H; subst. intros m Hm. apply gcb_marked_ids_mark in Hm. destruct Hm as [->|Hm].
    + right. right. repeat split. destruct (gcb_get_item_back st0 st i pos c (gcb_wsrel_crelL _ _ H0) Eg) as (c0 & G0 & Hc0).
      unfold gcb_dead_item. rewrite G0. destruct (gcb_crel_back_item _ _ Hc0) as (_ & -> & _); [|exact Hdel].
      destruct (gcb_get_item_inv _ _ _ _ Eg) as (_ & _ & _ & _ & Q). exact Q.
    + destruct (MX m Hm) as [G|G]; [left; exact G|right; left; exact G].
  - inversion H; subst. intros m Hm. destruct (MX m Hm) as [G|G]; [left; exact G|right; left].
    destruct G as (p1 & c1 & j & A1 & A2 & A3 & A4 & A5). exists p1, c1, j. repeat split; try assumption.
    rewrite gcb_map_at_branches. exact A5.
Qed.

Definition gcb_mok (st0 : gcb_store) (s : gcb_mstate) : Prop :=
  gcb_srelR gcb_wrel st0 (fst (fst s)) /\ forall m, In m (gcb_marked_ids (snd (fst s))) -> gcb_mark_ok st0 (fst (fst s)) m.

Lemma gcb_fold_pres : forall (A B : Type) (P : A -> Prop) (f : A -> B -> adl_res A) (l : list B),
  (forall a x a', P a -> f a x = adl_ok a' -> P a') -> forall a af, P a -> adl_fold f l a = adl_ok af -> P af.
Proof.
  intros A B P f l Hs. induction l as [|x r IH]; intros a af Ha H; cbn [adl_fold] in H; [inversion H; subst; exact Ha|].
  destruct (f a x) as [a1|] eqn:E; [|discriminate]. cbn [adl_bind] in H. exact (IH a1 af (Hs a x a1 Ha E) H).
Qed.

Lemma gcb_item_gc_mok : forall st0 g st mk mb mb' it st1 mk1, gcb_ptr_ok st0 = true -> gcb_mok st0 (st, mk, mb) ->
  gcb_item_gc g st mk it false = adl_ok (st1, mk1) -> gcb_mok st0 (st1, mk1, mb').
Proof.
  intros st0 g st mk mb mb' it st1 mk1 Hp [H1 H2] E. cbn [fst snd] in *. pose proof (gcb_item_gc_rel _ _ _ _ _ _ _ E) as HR. split; cbn [fst snd].
  - exact (gcb_wrel_srel_trans _ _ _ H1 HR).
  - intros m Hm. destruct (gcb_item_gc_marks st0 Hp _ _ _ _ _ _ _ H1 E m Hm) as [G|[G|(_ & G & _)]]; [|exact G|discriminate].
    exact (gcb_mark_ok_fwd _ _ _ _ (proj2 HR) (H2 m G)).
Qed.

Lemma gcb_walk_mok : forall st0, gcb_ptr_ok st0 = true -> forall fuel g client push s start e i s',
  gcb_mok st0 s -> gcb_walk fuel g client push s start e i = adl_ok s' -> gcb_mok st0 s'.
Proof.
  intros st0 Hp. induction fuel as [|f IH]; intros g client push [[st mk] mb] start e i s' Hs H; cbn [gcb_walk] in H; [discriminate|].
  destruct (gcb_get_client (gcb_clients st) client) as [bl|]; [|discriminate].
  destruct (Nat.ltb i (length bl)); [|inversion H; subst; exact Hs].
  destruct (nth_error bl i) as [c|]; [|discriminate].
  destruct (adl_add32 start (block_len (gcb_blk c))) as [start'|]; [|discriminate]. cbn [adl_bind] in H.
  destruct (e <? start'); [inversion H; subst; exact Hs|].
  destruct (gcb_blk c) as [it o ro p ps ct| |]; try (exact (IH _ _ _ _ _ _ _ _ Hs H)).
  destruct (gcb_item_gc g st mk it false) as [[st1 mk1]|] eqn:E; [|discriminate]. cbn [adl_bind fst snd] in H.
  exact (IH _ _ _ _ _ _ _ _ (gcb_item_gc_mok _ _ _ _ _ _ _ _ _ Hp Hs E) H).
Qed.

Lemma gcb_mark_in_scope_mok : forall st0 g push s ds s', gcb_ptr_ok st0 = true -> gcb_mok st0 s ->
  gcb_mark_in_scope g push s ds = adl_ok s' -> gcb_mok st0 s'.
Proof.
  intros st0 g push s ds s' Hp Hs H. unfold gcb_mark_in_scope in H. refine (gcb_fold_pres _ _ (gcb_mok st0) _ _ _ _ _ Hs H).
  intros a cr a' Ha Hc. unfold gcb_mark_client in Hc. destruct (gcb_get_client (gcb_clients (fst (fst a))) (fst cr)); [|inversion Hc; subst; exact Ha].
  refine (gcb_fold_pres _ _ (gcb_mok st0) _ _ _ _ _ Ha Hc). intros a0 x a0' Ha0 Hr. unfold gcb_mark_range in Hr.
  destruct (gcb_get_client (gcb_clients (fst (fst a0))) (fst cr)) as [bl|]; [|inversion Hr; subst; exact Ha0].
  destruct (adl_list_clock (map gcb_abs bl)) as [clk|]; cbn [adl_bind] in Hr; [|discriminate].
  destruct (clk <=? e_start x); [inversion Hr; subst; exact Ha0|].
  destruct (gcb_find_index bl (e_start x)) as [[i|]|]; cbn [adl_bind] in Hr; try discriminate; [|inversion Hr; subst; exact Ha0].
  exact (gcb_walk_mok st0 Hp _ _ _ _ _ _ _ _ _ Ha0 Hr).
Qed.

Lemma gcb_mark_all_list_mok : forall st0, gcb_ptr_ok st0 = true -> forall g client n s i s',
  gcb_mok st0 s -> gcb_mark_all_list g client s n i = adl_ok s' -> gcb_mok st0 s'.
Proof.
  intros st0 Hp g client. induction n as [|m IH]; intros [[st mk] mb] i s' Hs H; cbn [gcb_mark_all_list] in H; [inversion H; subst; exact Hs|].
  destruct (gcb_get_client (gcb_clients st) client) as [bl|]; [|discriminate].
  destruct (nth_error bl i) as [c|]; [|discriminate].
  destruct (gcb_blk c) as [it o ro p ps ct| |]; try (exact (IH _ _ _ Hs H)).
  destruct (gcb_del c); [|exact (IH _ _ _ Hs H)].
  destruct (gcb_item_gc g st mk it false) as [[st1 mk1]|] eqn:E; [|discriminate]. cbn [adl_bind fst snd] in H.
  exact (IH _ _ _ (gcb_item_gc_mok _ _ _ _ _ _ _ _ _ Hp Hs E) H).
Qed.

(* Theorem 4, mark phase.  Whatever the argument of the collector: every id the mark phase hands to collect_marked is
   a deleted item of the store the run started from whose parent is a deleted type item of that store, and that
   parent's Branch was drained by this run (Item::gc ran on the parent with its condition true). *)
Theorem gcb_marks_only_below_collected_types : forall st ods s, gcb_ptr_ok st = true -> gcb_marks_of st ods = adl_ok s ->
  forall m, In m (gcb_marked_ids (snd (fst s))) -> gcb_mark_ok st (fst (fst s)) m.
Proof.
  intros st ods s Hp H. assert (H0 : gcb_mok st (st, [], [])) by (split; [apply gcb_srelR_refl; exact gcb_wrel_refl|intros m []]).
  destruct ods as [ds|]; cbn [gcb_marks_of] in H.
  - exact (proj2 (gcb_mark_in_scope_mok _ _ _ _ _ _ Hp H0 H)).
  - unfold gcb_mark_all in H. cbn [fst] in H. refine (proj2 (gcb_fold_pres _ _ (gcb_mok st) _ _ _ _ _ H0 H)).
    intros a x a' Ha Hx. exact (gcb_mark_all_list_mok st Hp _ _ _ _ _ _ Ha Hx).
Qed.
Print Assumptions gcb_marks_only_below_collected_types.
