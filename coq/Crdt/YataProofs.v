(* Machine-checked facts about the unit-level YATA integration of Crdt/Doc.v.
   Stdlib only; no axioms.  Every numbered theorem is followed by Print Assumptions. *)
From Coq Require Import List NArith ZArith Bool Lia Permutation.
From YV Require Import Lib.Bytes Codec.UpdateV1 Ids.Ranges Crdt.Doc.
Import ListNotations.
Open Scope N_scope.

(* ====================================================================== *)
(* 0. id equality                                                          *)
(* ====================================================================== *)

Lemma id_eqb_eq : forall a b, id_eqb a b = true <-> a = b.
Proof.
  intros [c1 k1] [c2 k2]. unfold id_eqb. cbn [cl ck].
  rewrite andb_true_iff, !N.eqb_eq. split.
  - intros [H1 H2]. subst. reflexivity.
  - intros H. inversion H. split; reflexivity.
Qed.

Lemma id_eqb_refl : forall a, id_eqb a a = true.
Proof. intros a. apply id_eqb_eq. reflexivity. Qed.

Lemma id_eqb_neq : forall a b, id_eqb a b = false <-> a <> b.
Proof.
  intros a b. split.
  - intros H E. apply id_eqb_eq in E. congruence.
  - intros H. destruct (id_eqb a b) eqn:E; [|reflexivity].
    apply id_eqb_eq in E. contradiction.
Qed.

(* ====================================================================== *)
(* 1. split_after                                                          *)
(* ====================================================================== *)

Lemma split_after_app : forall i l a b, split_after i l = Some (a, b) -> l = a ++ b.
Proof.
  intros i l. induction l as [|y r IH]; intros a b H; cbn [split_after] in H.
  - discriminate.
  - destruct (id_eqb (did y) i).
    + inversion H; subst. reflexivity.
    + destruct (split_after i r) as [[a' b']|] eqn:E; [|discriminate].
      inversion H; subst. cbn [app]. f_equal. apply IH. reflexivity.
Qed.

(* the left part ends with the FIRST item of [l] whose id is [i] *)
Lemma split_after_last : forall i l a b, split_after i l = Some (a, b) ->
  exists a' y, a = a' ++ [y] /\ did y = i /\ (forall z, In z a' -> did z <> i).
Proof.
  intros i l. induction l as [|y r IH]; intros a b H; cbn [split_after] in H.
  - discriminate.
  - destruct (id_eqb (did y) i) eqn:Ey.
    + inversion H; subst. exists [], y. split; [reflexivity|]. split.
      * apply id_eqb_eq. exact Ey.
      * intros z [].
    + destruct (split_after i r) as [[a' b']|] eqn:E; [|discriminate].
      inversion H; subst.
      destruct (IH _ _ eq_refl) as (a'' & y' & Ha & Hy & Hn).
      exists (y :: a''), y'. split; [subst a'; reflexivity|]. split; [exact Hy|].
      intros z [Hz|Hz].
      * subst z. apply id_eqb_neq. exact Ey.
      * apply Hn. exact Hz.
Qed.

Lemma split_after_none : forall i l,
  split_after i l = None <-> (forall z, In z l -> did z <> i).
Proof.
  intros i l. induction l as [|y r IH]; cbn [split_after].
  - split; [intros _ z []|reflexivity].
  - destruct (id_eqb (did y) i) eqn:Ey.
    + split; [discriminate|]. intros H. exfalso.
      apply (H y (or_introl eq_refl)). apply id_eqb_eq. exact Ey.
    + destruct (split_after i r) as [[a b]|] eqn:E.
      * split; [discriminate|]. intros H.
        assert (Hr : forall z, In z r -> did z <> i) by (intros z Hz; apply H; right; exact Hz).
        apply IH in Hr. discriminate.
      * split; [|reflexivity]. intros _ z [Hz|Hz].
        -- subst z. apply id_eqb_neq. exact Ey.
        -- apply IH; [reflexivity|exact Hz].
Qed.

Lemma split_after_first : forall i pre y r,
  (forall z, In z pre -> did z <> i) -> did y = i ->
  split_after i (pre ++ y :: r) = Some (pre ++ [y], r).
Proof.
  intros i pre. induction pre as [|h t IH]; intros y r Hn Hy; cbn [app split_after].
  - rewrite Hy, id_eqb_refl. reflexivity.
  - assert (Eh : id_eqb (did h) i = false).
    { apply id_eqb_neq. apply Hn. left. reflexivity. }
    rewrite Eh. rewrite IH; [reflexivity| |exact Hy].
    intros z Hz. apply Hn. right. exact Hz.
Qed.

(* ====================================================================== *)
(* 2. integration only inserts                                             *)
(* ====================================================================== *)

(* the (left part, scanned part) decomposition used by yata_insert *)
Definition yi_split (l : list ditem) (x : ditem) : list ditem * list ditem :=
  match oorigin (d_op x) with
  | None => ([], l)
  | Some o => match split_after o l with Some p => p | None => ([], l) end
  end.

Lemma yata_insert_unfold : forall l x,
  yata_insert l x =
  let n := yata_scan (d_op x) (snd (yi_split l x)) 0 0 [] [] in
  fst (yi_split l x) ++ firstn n (snd (yi_split l x)) ++ x :: skipn n (snd (yi_split l x)).
Proof.
  intros l x. unfold yata_insert, yi_split.
  destruct (oorigin (d_op x)) as [o|]; [|reflexivity].
  destruct (split_after o l) as [[a b]|]; reflexivity.
Qed.

Lemma yi_split_app : forall l x, l = fst (yi_split l x) ++ snd (yi_split l x).
Proof.
  intros l x. unfold yi_split.
  destruct (oorigin (d_op x)) as [o|]; [|reflexivity].
  destruct (split_after o l) as [[a b]|] eqn:E; [|reflexivity].
  cbn [fst snd]. eapply split_after_app. exact E.
Qed.

Theorem yata_insert_inserts_once : forall l x,
  exists l1 l2, l = l1 ++ l2 /\ yata_insert l x = l1 ++ x :: l2.
Proof.
  intros l x. rewrite yata_insert_unfold. cbv zeta.
  set (pre := fst (yi_split l x)). set (suf := snd (yi_split l x)).
  set (n := yata_scan (d_op x) suf 0 0 [] []).
  exists (pre ++ firstn n suf), (skipn n suf). split.
  - rewrite <- app_assoc, firstn_skipn. apply yi_split_app.
  - rewrite <- app_assoc. reflexivity.
Qed.
Print Assumptions yata_insert_inserts_once.

(* ====================================================================== *)
(* 3. relative order of existing items is preserved                        *)
(* ====================================================================== *)

Lemma insert_keeps_one : forall (A : Type) (x : A) l1' l2' l b r,
  l1' ++ l2' = l ++ b :: r -> exists m2 m3, l1' ++ x :: l2' = m2 ++ b :: m3.
Proof.
  intros A x l1'. induction l1' as [|h t IH]; intros l2' l b r H; cbn [app] in *.
  - exists (x :: l), r. rewrite H. reflexivity.
  - destruct l as [|h' l']; cbn [app] in H; inversion H; subst.
    + exists [], (t ++ x :: l2'). reflexivity.
    + destruct (IH _ _ _ _ H2) as (m2 & m3 & E). exists (h' :: m2), m3.
      rewrite E. reflexivity.
Qed.

Lemma insert_keeps_two : forall (A : Type) (x : A) l1' l2' l1 a l2 b l3,
  l1' ++ l2' = l1 ++ a :: l2 ++ b :: l3 ->
  exists m1 m2 m3, l1' ++ x :: l2' = m1 ++ a :: m2 ++ b :: m3.
Proof.
  intros A x l1'. induction l1' as [|h t IH]; intros l2' l1 a l2 b l3 H; cbn [app] in *.
  - exists (x :: l1), l2, l3. rewrite H. reflexivity.
  - destruct l1 as [|h' l1']; cbn [app] in H; inversion H; subst.
    + destruct (insert_keeps_one A x _ _ _ _ _ H2) as (m2 & m3 & E).
      exists [], m2, m3. rewrite E. reflexivity.
    + destruct (IH _ _ _ _ _ _ H2) as (m1 & m2 & m3 & E).
      exists (h' :: m1), m2, m3. rewrite E. reflexivity.
Qed.

Theorem yata_insert_order_stable : forall l x a b l1 l2 l3,
  l = l1 ++ a :: l2 ++ b :: l3 ->
  exists m1 m2 m3, yata_insert l x = m1 ++ a :: m2 ++ b :: m3.
Proof.
  intros l x a b l1 l2 l3 H.
  destruct (yata_insert_inserts_once l x) as (p & q & Hl & Hi).
  rewrite Hi. eapply insert_keeps_two. rewrite <- Hl. exact H.
Qed.
Print Assumptions yata_insert_order_stable.

(* ====================================================================== *)
(* 4. membership and length                                                *)
(* ====================================================================== *)

Theorem yata_insert_mem : forall l x y, In y (yata_insert l x) <-> y = x \/ In y l.
Proof.
  intros l x y. destruct (yata_insert_inserts_once l x) as (p & q & Hl & Hi).
  rewrite Hi, Hl, !in_app_iff. cbn [In]. intuition congruence.
Qed.
Print Assumptions yata_insert_mem.

Theorem yata_insert_length : forall l x, length (yata_insert l x) = S (length l).
Proof.
  intros l x. destruct (yata_insert_inserts_once l x) as (p & q & Hl & Hi).
  rewrite Hi, Hl, !app_length. cbn [length]. lia.
Qed.
Print Assumptions yata_insert_length.

Theorem yata_insert_perm : forall l x, Permutation (x :: l) (yata_insert l x).
Proof.
  intros l x. destruct (yata_insert_inserts_once l x) as (p & q & Hl & Hi).
  rewrite Hi, Hl. apply Permutation_middle.
Qed.
Print Assumptions yata_insert_perm.

(* ====================================================================== *)
(* 5. the scan is bounded and never steps over the right origin            *)
(* ====================================================================== *)

Ltac scan_cases :=
  repeat match goal with
         | |- context [if ?c then _ else _] => destruct c
         | |- context [match ?c with Some _ => _ | None => _ end] => destruct c
         end.

Lemma yata_scan_le : forall x rest k lft conf before,
  (lft <= k)%nat -> (yata_scan x rest k lft conf before <= k + length rest)%nat.
Proof.
  intros x rest. induction rest as [|o rest' IH]; intros k lft conf before H;
    cbn [yata_scan length].
  - lia.
  - scan_cases; try lia;
      match goal with
      | |- (yata_scan _ _ ?k' ?l' ?c' ?b' <= _)%nat => specialize (IH k' l' c' b'); lia
      end.
Qed.

(* The scan stops at (or before) the first item carrying the right-origin id.
   No uniqueness hypothesis on [p] is needed: an earlier item with id [r] only
   makes the scan stop earlier. *)
Lemma yata_scan_stops_at_rorigin : forall x r p y q k lft conf before,
  ororigin x = Some r -> did y = r -> (lft <= k)%nat ->
  (yata_scan x (p ++ y :: q) k lft conf before <= k + length p)%nat.
Proof.
  intros x r p. induction p as [|o p' IH]; intros y q k lft conf before Hr Hy H;
    cbn [app yata_scan length].
  - rewrite Hr, Hy. cbn [oid_eqb]. rewrite id_eqb_refl. lia.
  - scan_cases; try lia;
      match goal with
      | |- (yata_scan _ _ ?k' ?l' ?c' ?b' <= _)%nat =>
          specialize (IH y q k' l' c' b' Hr Hy); lia
      end.
Qed.

(* the form asked for, with the (unneeded) "first occurrence" hypothesis *)
Lemma yata_scan_stops_at_rorigin' : forall x r rest p y q k lft conf before,
  ororigin x = Some r -> rest = p ++ y :: q -> did y = r ->
  (forall z, In z p -> did z <> r) -> (lft <= k)%nat ->
  (yata_scan x rest k lft conf before <= k + length p)%nat.
Proof.
  intros; subst rest. eapply yata_scan_stops_at_rorigin; eassumption.
Qed.

Lemma NoDup_did_head : forall pre y rest,
  NoDup (map did (pre ++ y :: rest)) -> forall z, In z pre -> did z <> did y.
Proof.
  intros pre y rest H z Hz E.
  rewrite map_app in H. cbn [map] in H. apply NoDup_remove_2 in H.
  apply H. apply in_or_app. left. rewrite <- E. apply in_map. exact Hz.
Qed.

Lemma firstn_skipn_le_app : forall (A : Type) n (mid rest : list A),
  (n <= length mid)%nat ->
  firstn n (mid ++ rest) = firstn n mid /\ skipn n (mid ++ rest) = skipn n mid ++ rest.
Proof.
  intros A n mid rest H. rewrite firstn_app, skipn_app.
  replace (n - length mid)%nat with 0%nat by lia. cbn [firstn skipn].
  rewrite app_nil_r. split; reflexivity.
Qed.

(* General form: the origin item [yo] is the first item of [l] with id [o]
   (hypothesis on [pre]); the right-origin item [yr] is anywhere to its right.
   Then [x] lands strictly between them, and nothing else moves. *)
Theorem yata_insert_between_origins_gen : forall l x o r pre yo mid yr post,
  oorigin (d_op x) = Some o -> ororigin (d_op x) = Some r ->
  l = pre ++ yo :: mid ++ yr :: post -> did yo = o -> did yr = r ->
  (forall z, In z pre -> did z <> o) ->
  exists m1 m2, mid = m1 ++ m2 /\
                yata_insert l x = pre ++ yo :: m1 ++ x :: m2 ++ yr :: post.
Proof.
  intros l x o r pre yo mid yr post Ho Hr Hl Hyo Hyr Hpre. subst l.
  unfold yata_insert. rewrite Ho.
  rewrite (split_after_first o pre yo (mid ++ yr :: post) Hpre Hyo).
  cbv beta iota zeta.
  set (n := yata_scan (d_op x) (mid ++ yr :: post) 0 0 [] []).
  assert (Hn : (n <= length mid)%nat).
  { subst n. pose proof (yata_scan_stops_at_rorigin (d_op x) r mid yr post 0 0 [] [] Hr Hyr).
    lia. }
  destruct (firstn_skipn_le_app _ n mid (yr :: post) Hn) as [Ef Es].
  exists (firstn n mid), (skipn n mid). split.
  - symmetry. apply firstn_skipn.
  - rewrite Ef, Es. rewrite <- !app_assoc. reflexivity.
Qed.
Print Assumptions yata_insert_between_origins_gen.

(* The requested form: ids of [l] are pairwise distinct.  [l] is decomposed with the
   origin item strictly left of the right-origin item; in the result the new item is
   strictly right of [yo] and strictly left of [yr], and every other item keeps its place. *)
Theorem yata_insert_between_origins : forall l x o r pre yo mid yr post,
  oorigin (d_op x) = Some o -> ororigin (d_op x) = Some r ->
  NoDup (map did l) ->
  l = pre ++ yo :: mid ++ yr :: post -> did yo = o -> did yr = r ->
  exists m1 m2, mid = m1 ++ m2 /\
                yata_insert l x = pre ++ yo :: m1 ++ x :: m2 ++ yr :: post.
Proof.
  intros l x o r pre yo mid yr post Ho Hr Hnd Hl Hyo Hyr.
  eapply yata_insert_between_origins_gen; try eassumption.
  subst l o. eapply NoDup_did_head. exact Hnd.
Qed.
Print Assumptions yata_insert_between_origins.

(* no constraint from the right: x lies strictly right of its origin item
   (whatever ororigin is: absent, not in the list, or even left of the origin) *)
Theorem yata_insert_right_of_origin_gen : forall l x o pre yo post,
  oorigin (d_op x) = Some o ->
  l = pre ++ yo :: post -> did yo = o ->
  (forall z, In z pre -> did z <> o) ->
  exists m1 m2, post = m1 ++ m2 /\ yata_insert l x = pre ++ yo :: m1 ++ x :: m2.
Proof.
  intros l x o pre yo post Ho Hl Hyo Hpre. subst l.
  unfold yata_insert. rewrite Ho.
  rewrite (split_after_first o pre yo post Hpre Hyo).
  cbv beta iota zeta.
  set (n := yata_scan (d_op x) post 0 0 [] []).
  exists (firstn n post), (skipn n post). split.
  - symmetry. apply firstn_skipn.
  - rewrite <- !app_assoc. reflexivity.
Qed.

Theorem yata_insert_right_of_origin : forall l x o pre yo post,
  oorigin (d_op x) = Some o -> NoDup (map did l) ->
  l = pre ++ yo :: post -> did yo = o ->
  exists m1 m2, post = m1 ++ m2 /\ yata_insert l x = pre ++ yo :: m1 ++ x :: m2.
Proof.
  intros l x o pre yo post Ho Hnd Hl Hyo.
  eapply yata_insert_right_of_origin_gen; try eassumption.
  subst l o. eapply NoDup_did_head. exact Hnd.
Qed.
Print Assumptions yata_insert_right_of_origin.

(* no origin in this list (origin absent, or its id not among the items of [l]):
   x lies strictly left of the right-origin item *)
Theorem yata_insert_left_of_rorigin_gen : forall l x r mid yr post,
  (forall o, oorigin (d_op x) = Some o -> forall z, In z l -> did z <> o) ->
  ororigin (d_op x) = Some r ->
  l = mid ++ yr :: post -> did yr = r ->
  exists m1 m2, mid = m1 ++ m2 /\ yata_insert l x = m1 ++ x :: m2 ++ yr :: post.
Proof.
  intros l x r mid yr post Hno Hr Hl Hyr.
  assert (Hs : yi_split l x = ([], l)).
  { unfold yi_split. destruct (oorigin (d_op x)) as [o|]; [|reflexivity].
    assert (E : split_after o l = None) by (apply split_after_none; apply Hno; reflexivity).
    rewrite E. reflexivity. }
  rewrite yata_insert_unfold, Hs. cbn [fst snd app]. cbv zeta. subst l.
  set (n := yata_scan (d_op x) (mid ++ yr :: post) 0 0 [] []).
  assert (Hn : (n <= length mid)%nat).
  { subst n. pose proof (yata_scan_stops_at_rorigin (d_op x) r mid yr post 0 0 [] [] Hr Hyr).
    lia. }
  destruct (firstn_skipn_le_app _ n mid (yr :: post) Hn) as [Ef Es].
  exists (firstn n mid), (skipn n mid). split.
  - symmetry. apply firstn_skipn.
  - rewrite Ef, Es. reflexivity.
Qed.

Theorem yata_insert_left_of_rorigin : forall l x r mid yr post,
  oorigin (d_op x) = None -> ororigin (d_op x) = Some r ->
  l = mid ++ yr :: post -> did yr = r ->
  exists m1 m2, mid = m1 ++ m2 /\ yata_insert l x = m1 ++ x :: m2 ++ yr :: post.
Proof.
  intros l x r mid yr post Ho Hr Hl Hyr.
  eapply yata_insert_left_of_rorigin_gen; try eassumption.
  intros o E. congruence.
Qed.
Print Assumptions yata_insert_left_of_rorigin.

(* ====================================================================== *)
(* 6. deletion is monotone                                                 *)
(* ====================================================================== *)

Definition del_le (d1 d2 : doc) : Prop :=
  forall i k x, find_item i (d_lists d1) = Some (k, x) -> d_del x = true ->
  exists k' x', find_item i (d_lists d2) = Some (k', x') /\ d_del x' = true.

Lemma del_le_refl : forall d, del_le d d.
Proof. intros d i k x H1 H2. exists k, x. split; assumption. Qed.

Lemma del_le_trans : forall d1 d2 d3, del_le d1 d2 -> del_le d2 d3 -> del_le d1 d3.
Proof.
  intros d1 d2 d3 H12 H23 i k x H1 H2.
  destruct (H12 i k x H1 H2) as (k' & x' & H1' & H2').
  exact (H23 i k' x' H1' H2').
Qed.

(* lookup results compared: found stays found (and deleted stays deleted),
   not found stays not found *)
Definition opt_le (a b : option ditem) : Prop :=
  match a, b with
  | None, None => True
  | Some x, Some y => d_del x = true -> d_del y = true
  | _, _ => False
  end.

Lemma opt_le_refl : forall a, opt_le a a.
Proof. intros [x|]; cbn; auto. Qed.

Lemma opt_le_trans : forall a b c, opt_le a b -> opt_le b c -> opt_le a c.
Proof. intros [x|] [y|] [z|]; cbn; intuition. Qed.

(* per-id comparison of two list tables, position by position; the second table may
   have extra entries at the end (set_list appends when the key is new) *)
Inductive lle (j : id) : list (seqkey * list ditem) -> list (seqkey * list ditem) -> Prop :=
| lle_nil : forall ls, lle j [] ls
| lle_cons : forall k1 l1 k2 l2 r1 r2,
    opt_le (find_in_list j l1) (find_in_list j l2) -> lle j r1 r2 ->
    lle j ((k1, l1) :: r1) ((k2, l2) :: r2).

Lemma lle_refl : forall j ls, lle j ls ls.
Proof.
  intros j ls. induction ls as [|[k l] r IH]; constructor; [apply opt_le_refl|exact IH].
Qed.

Lemma lle_trans : forall j a b c, lle j a b -> lle j b c -> lle j a c.
Proof.
  intros j a b c H. revert c. induction H as [|k1 l1 k2 l2 r1 r2 Ho Hr IH]; intros c Hc.
  - constructor.
  - inversion Hc; subst. constructor.
    + eapply opt_le_trans; eassumption.
    + apply IH. assumption.
Qed.

Lemma lle_find : forall j ls1 ls2, lle j ls1 ls2 ->
  forall k x, find_item j ls1 = Some (k, x) -> d_del x = true ->
  exists k' x', find_item j ls2 = Some (k', x') /\ d_del x' = true.
Proof.
  intros j ls1 ls2 H. induction H as [|k1 l1 k2 l2 r1 r2 Ho Hr IH]; intros k x Hf Hd;
    cbn [find_item] in *.
  - discriminate.
  - unfold opt_le in Ho.
    destruct (find_in_list j l1) as [a|] eqn:E1; destruct (find_in_list j l2) as [b|] eqn:E2;
      try contradiction.
    + inversion Hf; subst. exists k2, b. split; [reflexivity|auto].
    + eapply IH; eassumption.
Qed.

Lemma del_le_of_lle : forall d1 d2,
  (forall j k x, find_item j (d_lists d1) = Some (k, x) -> lle j (d_lists d1) (d_lists d2)) ->
  del_le d1 d2.
Proof.
  intros d1 d2 H i k x Hf Hd. eapply lle_find; [eapply H|..]; eassumption.
Qed.

(* --- general helper lemmas about set_list / mark_deleted / delete_children --- *)

Lemma set_list_lle : forall j k l' ls,
  opt_le (find_in_list j (get_list k ls)) (find_in_list j l') ->
  lle j ls (set_list k l' ls).
Proof.
  intros j k l' ls. induction ls as [|[k0 l0] r IH]; intros H; cbn [set_list get_list] in *.
  - constructor.
  - destruct (seqkey_eqb k0 k).
    + constructor; [exact H|apply lle_refl].
    + constructor; [apply opt_le_refl|apply IH; exact H].
Qed.

Lemma mark_deleted_opt_le : forall j i l,
  opt_le (find_in_list j l) (find_in_list j (mark_deleted i l)).
Proof.
  intros j i l. induction l as [|h t IH]; cbn [mark_deleted find_in_list].
  - exact I.
  - destruct (id_eqb (did h) i).
    + cbn [find_in_list]. unfold did at 2. cbn [d_op]. fold (did h).
      destruct (id_eqb (did h) j).
      * cbn. auto.
      * apply opt_le_refl.
    + cbn [find_in_list]. destruct (id_eqb (did h) j).
      * cbn. auto.
      * exact IH.
Qed.

Lemma map_delete_opt_le : forall j l,
  opt_le (find_in_list j l) (find_in_list j (map (fun x => mkditem (d_op x) true) l)).
Proof.
  intros j l. induction l as [|h t IH]; cbn [map find_in_list].
  - exact I.
  - unfold did at 2. cbn [d_op]. fold (did h).
    destruct (id_eqb (did h) j).
    + cbn. auto.
    + exact IH.
Qed.

Lemma map_cond_delete_lle : forall j (hit : seqkey -> bool) ls,
  lle j ls (map (fun kl : seqkey * list ditem =>
                   if hit (fst kl)
                   then (fst kl, map (fun x => mkditem (d_op x) true) (snd kl))
                   else kl) ls).
Proof.
  intros j hit ls. induction ls as [|[k l] r IH]; cbn [map fst snd].
  - constructor.
  - destruct (hit k).
    + constructor; [apply map_delete_opt_le|exact IH].
    + constructor; [apply opt_le_refl|exact IH].
Qed.

Lemma delete_children_lle : forall j fuel parents ls,
  lle j ls (delete_children fuel parents ls).
Proof.
  intros j fuel. induction fuel as [|f IH]; intros parents ls; cbn [delete_children].
  - apply lle_refl.
  - destruct parents as [|p ps]; [apply lle_refl|].
    eapply lle_trans; [|apply IH].
    apply (map_cond_delete_lle j
             (fun k => match fst k with PId q => mem_id q (p :: ps) | _ => false end)).
Qed.

(* --- delete_item, apply_ds --- *)

Theorem delete_item_del_le : forall i d, del_le d (delete_item i d).
Proof.
  intros i d. unfold delete_item.
  destruct (find_item i (d_lists d)) as [[k x]|]; [|apply del_le_refl].
  destruct (d_del x); [apply del_le_refl|].
  apply del_le_of_lle. intros j _ _ _. cbn [d_lists].
  destruct (is_type x).
  - eapply lle_trans; [|apply delete_children_lle].
    apply set_list_lle, mark_deleted_opt_le.
  - apply set_list_lle, mark_deleted_opt_le.
Qed.
Print Assumptions delete_item_del_le.

Lemma fold_delete_del_le : forall (is : list id) d,
  del_le d (fold_left (fun d i => delete_item i d) is d).
Proof.
  intros is. induction is as [|i r IH]; intros d; cbn [fold_left].
  - apply del_le_refl.
  - eapply del_le_trans; [apply delete_item_del_le|apply IH].
Qed.

Theorem apply_ds_del_le : forall d s, del_le d (apply_ds d s).
Proof. intros d s. unfold apply_ds. apply fold_delete_del_le. Qed.
Print Assumptions apply_ds_del_le.

(* --- integrate_op --- *)

Lemma find_in_list_insert : forall j x l1 l2, did x <> j ->
  find_in_list j (l1 ++ x :: l2) = find_in_list j (l1 ++ l2).
Proof.
  intros j x l1 l2 Hn. induction l1 as [|h t IH]; cbn [app find_in_list].
  - apply id_eqb_neq in Hn. rewrite Hn. reflexivity.
  - destruct (id_eqb (did h) j); [reflexivity|exact IH].
Qed.

Lemma yata_insert_find_other : forall j l x, did x <> j ->
  find_in_list j (yata_insert l x) = find_in_list j l.
Proof.
  intros j l x Hn. destruct (yata_insert_inserts_once l x) as (p & q & Hl & Hi).
  rewrite Hi, Hl. apply find_in_list_insert. exact Hn.
Qed.

(* The hypothesis [integrated d (oid o) = false] is needed: if an item with id [oid o]
   already sits, deleted, in some list L2 and the re-integration places a fresh
   non-deleted copy into a list L1 that comes earlier in the table, then
   [find_item (oid o)] returns the non-deleted copy afterwards.
   Pairwise distinctness of the ids in [d] is NOT needed. *)
Theorem integrate_op_del_le : forall d o,
  integrated d (oid o) = false -> del_le d (integrate_op d o).
Proof.
  intros d o Hni.
  assert (Hf : find_item (oid o) (d_lists d) = None).
  { unfold integrated in Hni. destruct (find_item (oid o) (d_lists d)); [discriminate|reflexivity]. }
  unfold integrate_op. destruct (resolve_parent o d) as [key|].
  2:{ intros i k x H1 H2. cbn [d_lists]. exists k, x. split; assumption. }
  cbv zeta.
  set (x := mkditem (mkop (oid o) (oorigin o) (ororigin o) (fst key) (snd key) (ocont o))
                    (match ocont o with UDeleted => true | _ => false end)).
  set (d1 := mkdoc (set_list key (yata_insert (get_list key (d_lists d)) x) (d_lists d)) (d_gc d)).
  assert (H1 : del_le d d1).
  { apply del_le_of_lle. intros j k y Hj. subst d1. cbn [d_lists].
    apply set_list_lle. rewrite yata_insert_find_other; [apply opt_le_refl|].
    subst x. unfold did. cbn [d_op oid]. intros E. subst j. congruence. }
  clearbody d1.
  match goal with
  | |- del_le _ (if ?c then delete_item ?i ?D else _) =>
      assert (H2 : del_le d D);
      [| destruct c; [eapply del_le_trans; [exact H2|apply delete_item_del_le]|exact H2]]
  end.
  repeat match goal with
         | |- del_le _ (match ?e with _ => _ end) => destruct e
         end;
    (exact H1 || (eapply del_le_trans; [exact H1|apply delete_item_del_le])).
Qed.
Print Assumptions integrate_op_del_le.

Theorem integrate_x_del_le : forall d x,
  integrated d (xid x) = false -> del_le d (integrate_x d x).
Proof.
  intros d [o|i] H; cbn [integrate_x xid] in *.
  - apply integrate_op_del_le. exact H.
  - intros j k y H1 H2. cbn [d_lists]. exists k, y. split; assumption.
Qed.
Print Assumptions integrate_x_del_le.

(* --- bonus: delivery checks [integrated] before integrating, so the hypothesis of
       integrate_x_del_le is discharged by the delivery loop itself --- *)

Lemma deliver_pass_del_le : forall waiting d kept progress,
  del_le d (fst (fst (deliver_pass d waiting kept progress))).
Proof.
  intros waiting. induction waiting as [|x r IH]; intros d kept progress; cbn [deliver_pass].
  - cbn [fst]. apply del_le_refl.
  - destruct (integrated d (xid x)) eqn:Ei; [apply IH|].
    destruct (ready d x); [|apply IH].
    eapply del_le_trans; [apply integrate_x_del_le; exact Ei|apply IH].
Qed.

Lemma deliver_loop_del_le : forall fuel d waiting,
  del_le d (fst (deliver_loop fuel d waiting)).
Proof.
  intros fuel. induction fuel as [|f IH]; intros d waiting; cbn [deliver_loop].
  - cbn [fst]. apply del_le_refl.
  - pose proof (deliver_pass_del_le waiting d [] false) as Hp.
    destruct (deliver_pass d waiting [] false) as [[d' w'] pr]. cbn [fst] in Hp.
    destruct pr.
    + eapply del_le_trans; [exact Hp|apply IH].
    + cbn [fst]. exact Hp.
Qed.

Theorem deliver_del_le : forall d waiting, del_le d (fst (deliver d waiting)).
Proof. intros d waiting. unfold deliver. apply deliver_loop_del_le. Qed.
Print Assumptions deliver_del_le.

(* item 1 / item 5 lemmas are closed too *)
Print Assumptions split_after_app.
Print Assumptions split_after_last.
Print Assumptions yata_scan_le.
Print Assumptions yata_scan_stops_at_rorigin.
