(* All ways of reading an XML tree agree (XmlWalk.v): the transcribed read paths against the specification. *)
From Coq Require Import List NArith Bool Arith Lia.
From YV Require Import Lib.Bytes Codec.UpdateV1.
From YV Require Import Crdt.XmlWalk.
Import ListNotations.
Local Open Scope nat_scope.

(* ---------- the pointer structure of the zipper ---------- *)
(* l = the cursors reached from x by following `right` (resp. `left`) to the end *)
Fixpoint xw_rchain (x : xw_cursor) (l : list xw_cursor) : Prop :=
  match l with
  | [] => xw_right x = None
  | y :: l' => xw_right x = Some y /\ xw_rchain y l'
  end.
Fixpoint xw_lchain (x : xw_cursor) (l : list xw_cursor) : Prop :=
  match l with
  | [] => xw_left x = None
  | y :: l' => xw_left x = Some y /\ xw_lchain y l'
  end.

Lemma xw_rchain_fun : forall l1 l2 x, xw_rchain x l1 -> xw_rchain x l2 -> l1 = l2.
Proof.
  induction l1 as [|a l1 IH]; intros [|b l2] x H1 H2; simpl in *; auto.
  - destruct H2 as [H2 _]. congruence.
  - destruct H1 as [H1 _]. congruence.
  - destruct H1 as [H1 H1'], H2 as [H2 H2']. rewrite H1 in H2. inversion H2; subst.
    f_equal. eauto.
Qed.
Lemma xw_lchain_fun : forall l1 l2 x, xw_lchain x l1 -> xw_lchain x l2 -> l1 = l2.
Proof.
  induction l1 as [|a l1 IH]; intros [|b l2] x H1 H2; simpl in *; auto.
  - destruct H2 as [H2 _]. congruence.
  - destruct H1 as [H1 _]. congruence.
  - destruct H1 as [H1 H1'], H2 as [H2 H2']. rewrite H1 in H2. inversion H2; subst.
    f_equal. eauto.
Qed.

Lemma xw_sibs_rchain : forall i d k bl cl up rs l x,
  xw_rchain (xw_mkcur x (xw_mkfr i d k bl cl l rs :: up)) (xw_sibs (xw_mkfr i d k bl cl) up (x :: l) rs).
Proof.
  induction rs as [|r rs IH]; intros l x; simpl.
  - reflexivity.
  - split; [reflexivity | apply IH].
Qed.
Lemma xw_sibs_lchain : forall i d k bl cl up l rs x,
  xw_lchain (xw_mkcur x (xw_mkfr i d k bl cl l rs :: up)) (xw_sibs_l (xw_mkfr i d k bl cl) up l (x :: rs)).
Proof.
  induction l as [|a l IH]; intros rs x; simpl.
  - reflexivity.
  - split; [reflexivity | apply IH].
Qed.

Lemma xw_rights_rchain : forall c, xw_rchain c (xw_rights c).
Proof.
  intros [n [|[i d k bl cl l rs] up]]; unfold xw_rights; simpl.
  - reflexivity.
  - apply xw_sibs_rchain.
Qed.
Lemma xw_lefts_lchain : forall c, xw_lchain c (xw_lefts c).
Proof.
  intros [n [|[i d k bl cl l rs] up]]; unfold xw_lefts; simpl.
  - reflexivity.
  - apply xw_sibs_lchain.
Qed.

Lemma xw_right_left : forall x y, xw_right x = Some y -> xw_left y = Some x.
Proof.
  intros [n [|[i d k bl cl l [|r rs]] up]] y H; unfold xw_right in H; simpl in H; try discriminate.
  inversion H; subst. reflexivity.
Qed.
Lemma xw_left_right : forall x y, xw_left x = Some y -> xw_right y = Some x.
Proof.
  intros [n [|[i d k bl cl [|a l] rs] up]] y H; unfold xw_left in H; simpl in H; try discriminate.
  inversion H; subst. reflexivity.
Qed.

(* walking right along a chain, then looking back *)
Lemma xw_rchain_back : forall A x y B L,
  xw_rchain x (A ++ y :: B) -> xw_lchain x L ->
  xw_rchain y B /\ xw_lchain y (rev A ++ x :: L).
Proof.
  induction A as [|a A IH]; intros x y B L Hr Hl; simpl in *.
  - destruct Hr as [Hr Hr']. split; auto. split; auto. apply xw_right_left; auto.
  - destruct Hr as [Hr Hr'].
    assert (Hla : xw_lchain a (x :: L)) by (simpl; split; auto using xw_right_left).
    destruct (IH a y B (x :: L) Hr' Hla) as [H1 H2]. split; auto.
    rewrite <- app_assoc. simpl. exact H2.
Qed.

Lemma xw_kid_cursors_start : forall c,
  match xw_start c with
  | None => xw_kid_cursors c = []
  | Some k0 => xw_kid_cursors c = k0 :: xw_rights k0 /\ xw_left k0 = None
  end.
Proof.
  intros [[i d k bl cl [|x r]] ctx]; unfold xw_start, xw_kid_cursors; simpl; auto.
Qed.

Lemma xw_sibs_up : forall i d k bl cl up rs l x,
  In x (xw_sibs (xw_mkfr i d k bl cl) up l rs) ->
  xw_up x = Some (xw_mkcur (xw_mk i d k bl cl (rev l ++ rs)) up).
Proof.
  induction rs as [|r rs IH]; intros l x H; simpl in H; [contradiction|].
  destruct H as [H | H].
  - subst x. reflexivity.
  - apply IH in H. rewrite H. simpl. rewrite <- app_assoc. reflexivity.
Qed.

Lemma xw_kid_cursors_focus : forall c, map xw_focus (xw_kid_cursors c) = xw_kids (xw_focus c).
Proof.
  intros [[i d k bl cl ks] ctx]. unfold xw_kid_cursors. simpl.
  generalize (@nil xw_node). induction ks as [|x r IH]; intros l; simpl; auto.
  f_equal. apply IH.
Qed.

Lemma xw_filter_map_focus : forall l,
  map xw_focus (filter xw_clive l) = filter xw_live (map xw_focus l).
Proof.
  induction l as [|x r IH]; simpl; auto. unfold xw_clive at 1.
  destruct (xw_live (xw_focus x)); simpl; rewrite IH; auto.
Qed.

Lemma xw_visible_children_at_focus : forall c,
  map xw_focus (xw_visible_children_at c) = xw_visible_children (xw_focus c).
Proof.
  intros c. unfold xw_visible_children_at, xw_visible_children.
  rewrite xw_filter_map_focus, xw_kid_cursors_focus. reflexivity.
Qed.

Lemma xw_kid_cursors_length : forall c, length (xw_kid_cursors c) = length (xw_kids (xw_focus c)).
Proof. intros c. rewrite <- xw_kid_cursors_focus, map_length. reflexivity. Qed.

(* a child list, seen from one of its members *)
Lemma xw_kid_cursors_split : forall c A x B,
  xw_kid_cursors c = A ++ x :: B -> B = xw_rights x /\ rev A = xw_lefts x.
Proof.
  intros c A x B H.
  pose proof (xw_kid_cursors_start c) as Hs.
  destruct (xw_start c) as [k0|].
  - destruct Hs as [Hk Hl]. rewrite Hk in H.
    destruct A as [|a A]; simpl in H; inversion H; subst.
    + split; auto. apply (xw_lchain_fun _ _ x); [exact Hl | apply xw_lefts_lchain].
    + pose proof (xw_rights_rchain a) as Hr. rewrite H2 in Hr.
      destruct (xw_rchain_back A a x B [] Hr Hl) as [H3 H4]. split.
      * apply (xw_rchain_fun _ _ x); [exact H3 | apply xw_rights_rchain].
      * apply (xw_lchain_fun _ _ x); [|apply xw_lefts_lchain].
        simpl. exact H4.
  - rewrite Hs in H. destruct A; discriminate.
Qed.

Lemma xw_xml_out_some : forall c, xw_xml_out c = Some c.
Proof. intros c. unfold xw_xml_out. destruct (xw_kind_of (xw_focus c)); reflexivity. Qed.

(* ---------- loops along a chain ---------- *)
Lemma xw_branch_first_loop_spec : forall l x fuel,
  xw_rchain x l -> length l < fuel ->
  xw_branch_first_loop fuel (Some x) = Some (hd_error (filter xw_clive (x :: l))).
Proof.
  induction l as [|y l IH]; intros x fuel Hc Hf; (destruct fuel as [|f]; [lia|]); simpl in *.
  - unfold xw_clive, xw_live, xw_is_deleted. destruct (xw_del (xw_focus x)); simpl; auto.
    rewrite Hc. destruct f; reflexivity.
  - destruct Hc as [Hr Hc].
    unfold xw_clive at 1. unfold xw_live, xw_is_deleted. destruct (xw_del (xw_focus x)); simpl; auto.
    rewrite Hr. rewrite (IH y f Hc) by lia. reflexivity.
Qed.

Lemma xw_get_at_loop_spec : forall l x fuel index,
  xw_rchain x l -> length l < fuel ->
  xw_get_at_loop fuel (Some x) index =
  Some (match nth_error (filter xw_clive (x :: l)) index with Some y => Some (y, 0) | None => None end).
Proof.
  induction l as [|y l IH]; intros x fuel index Hc Hf; (destruct fuel as [|f]; [lia|]); simpl in *.
  - unfold xw_clive, xw_live, xw_is_deleted, xw_countable, xw_item_len.
    destruct (xw_del (xw_focus x)); simpl.
    + rewrite Hc. destruct f; simpl; destruct index; reflexivity.
    + destruct index as [|j]; simpl; auto. rewrite Hc. destruct f; simpl; destruct j; reflexivity.
  - destruct Hc as [Hr Hc].
    unfold xw_clive at 1. unfold xw_live, xw_is_deleted, xw_countable, xw_item_len.
    destruct (xw_del (xw_focus x)); simpl.
    + rewrite Hr. rewrite (IH y f index Hc) by lia. reflexivity.
    + destruct index as [|j]; simpl; auto. rewrite Hr. rewrite Nat.sub_0_r.
      rewrite (IH y f j Hc) by lia. reflexivity.
Qed.

(* ---------- small list facts ---------- *)
Lemma xw_filter_none_or_first : forall {A} (p : A -> bool) (l : list A),
  filter p l = [] \/ exists a y b, l = a ++ y :: b /\ filter p a = [] /\ p y = true.
Proof.
  intros A p. induction l as [|x r IH]; simpl; auto.
  destruct (p x) eqn:E.
  - right. exists [], x, r. auto.
  - destruct IH as [IH | (a & y & b & H1 & H2 & H3)]; auto.
    right. exists (x :: a), y, b. subst r. simpl. rewrite E. auto.
Qed.

Lemma xw_filter_split : forall {A} (p : A -> bool) (l : list A) a x b,
  filter p l = a ++ x :: b ->
  exists l1 l2, l = l1 ++ x :: l2 /\ filter p l1 = a /\ filter p l2 = b.
Proof.
  intros A p. induction l as [|y r IH]; intros a x b H; simpl in H.
  - destruct a; discriminate.
  - destruct (p y) eqn:E.
    + destruct a as [|a0 a]; simpl in H; inversion H; subst.
      * exists [], r. auto.
      * destruct (IH _ _ _ H2) as (l1 & l2 & H3 & H4 & H5).
        exists (a0 :: l1), l2. subst r. simpl. rewrite E. subst. auto.
    + destruct (IH _ _ _ H) as (l1 & l2 & H3 & H4 & H5).
      exists (y :: l1), l2. subst r. simpl. rewrite E. auto.
Qed.

Lemma xw_filter_rev : forall {A} (p : A -> bool) (l : list A), filter p (rev l) = rev (filter p l).
Proof.
  intros A p. induction l as [|x r IH]; simpl; auto.
  rewrite filter_app, IH. simpl. destruct (p x); simpl; auto. rewrite app_nil_r. reflexivity.
Qed.

Lemma xw_filter_length_le : forall {A} (p : A -> bool) (l : list A), length (filter p l) <= length l.
Proof. intros A p. induction l as [|x r IH]; simpl; auto. destruct (p x); simpl; lia. Qed.

Lemma xw_nth_error_split_len : forall {A} (l : list A) i x,
  nth_error l i = Some x -> exists a b, l = a ++ x :: b /\ length a = i.
Proof. intros A l i x H. apply nth_error_split in H. exact H. Qed.

Lemma xw_skipn_app_cons : forall {A} (a : list A) x b, skipn (S (length a)) (a ++ x :: b) = b.
Proof. intros A a x b. induction a as [|y a IH]; simpl; auto. Qed.
Lemma xw_firstn_app_len : forall {A} (a b : list A), firstn (length a) (a ++ b) = a.
Proof. intros A a b. induction a as [|y a IH]; simpl; [destruct b; reflexivity | f_equal; auto]. Qed.

Lemma xw_sibs_length : forall mk up rs l, length (xw_sibs mk up l rs) = length rs.
Proof. induction rs as [|r rs IH]; intros l; simpl; auto. Qed.
Lemma xw_sibs_l_length : forall mk up l rs, length (xw_sibs_l mk up l rs) = length l.
Proof. induction l as [|a l IH]; intros rs; simpl; auto. Qed.

Lemma xw_rights_length : forall c, length (xw_rights c) < xw_row_fuel c \/ (xw_ctx c = [] /\ xw_rights c = []).
Proof.
  intros [n [|f up]]; unfold xw_rights, xw_row_fuel; simpl; auto.
  left. rewrite xw_sibs_length. lia.
Qed.
Lemma xw_row_fuel_eq : forall c, xw_ctx c <> [] ->
  xw_row_fuel c = S (length (xw_lefts c) + length (xw_rights c)).
Proof.
  intros [n [|f up]] H; [simpl in H; congruence|]. unfold xw_rights, xw_lefts, xw_row_fuel; simpl.
  rewrite xw_sibs_length, xw_sibs_l_length. reflexivity.
Qed.

Lemma xw_kid_ctx : forall c x, In x (xw_kid_cursors c) -> xw_ctx x <> [].
Proof.
  intros [[i d k bl cl ks] ctx] x. unfold xw_kid_cursors. simpl.
  generalize (@nil xw_node). induction ks as [|y r IH]; intros l H; simpl in H; [contradiction|].
  destruct H as [H|H]; [subst; simpl; discriminate | eauto].
Qed.

Lemma xw_kid_cursors_around : forall c x, In x (xw_kid_cursors c) ->
  xw_kid_cursors c = rev (xw_lefts x) ++ x :: xw_rights x.
Proof.
  intros c x H. apply in_split in H. destruct H as (A & B & H).
  destruct (xw_kid_cursors_split c A x B H) as [H1 H2].
  rewrite <- H1, <- H2, rev_involutive. exact H.
Qed.

Lemma xw_kid_row_fuel : forall c x, In x (xw_kid_cursors c) ->
  xw_row_fuel x = length (xw_kids (xw_focus c)).
Proof.
  intros c x H. rewrite (xw_row_fuel_eq x (xw_kid_ctx c x H)).
  rewrite <- xw_kid_cursors_length, (xw_kid_cursors_around c x H).
  rewrite app_length, rev_length. simpl. lia.
Qed.

(* ---------- (a) first_child, get, len ---------- *)
Theorem xw_first_child_fuel_spec : forall c fuel, xw_kids_fuel c <= fuel ->
  xw_first_child_fuel fuel c = Some (hd_error (xw_visible_children_at c)).
Proof.
  intros c fuel Hf. unfold xw_first_child_fuel, xw_visible_children_at.
  pose proof (xw_kid_cursors_start c) as Hs. pose proof (xw_kid_cursors_length c) as Hl.
  unfold xw_kids_fuel in Hf.
  destruct (xw_start c) as [k0|].
  - destruct Hs as [Hk _]. rewrite Hk in *. simpl in Hl.
    rewrite (xw_branch_first_loop_spec (xw_rights k0) k0 fuel (xw_rights_rchain k0)) by lia.
    destruct (hd_error (filter xw_clive (k0 :: xw_rights k0))); auto.
    rewrite xw_xml_out_some. reflexivity.
  - rewrite Hs. destruct fuel; reflexivity.
Qed.

Theorem xw_get_fuel_spec : forall c fuel index, xw_kids_fuel c <= fuel ->
  xw_get_fuel fuel c index = Some (nth_error (xw_visible_children_at c) index).
Proof.
  intros c fuel index Hf. unfold xw_get_fuel, xw_visible_children_at.
  pose proof (xw_kid_cursors_start c) as Hs. pose proof (xw_kid_cursors_length c) as Hl.
  unfold xw_kids_fuel in Hf.
  destruct (xw_start c) as [k0|].
  - destruct Hs as [Hk _]. rewrite Hk in *. simpl in Hl.
    rewrite (xw_get_at_loop_spec (xw_rights k0) k0 fuel index (xw_rights_rchain k0)) by lia.
    destruct (nth_error (filter xw_clive (k0 :: xw_rights k0)) index); auto.
    rewrite xw_xml_out_some. reflexivity.
  - rewrite Hs. destruct fuel; destruct index; reflexivity.
Qed.

Theorem xw_first_child_at_spec : forall c, xw_first_child_at c = hd_error (xw_visible_children_at c).
Proof. intros c. unfold xw_first_child_at. rewrite xw_first_child_fuel_spec; auto. Qed.
Theorem xw_get_at_spec : forall c i, xw_get_at c i = nth_error (xw_visible_children_at c) i.
Proof. intros c i. unfold xw_get_at. rewrite xw_get_fuel_spec; auto. Qed.

(* Branch::len is the cached block_len: right iff the cache is *)
Theorem xw_len_at_spec : forall c, xw_cached_ok (xw_focus c) ->
  xw_len_at c = length (xw_visible_children_at c).
Proof.
  intros c [H _]. unfold xw_len_at. rewrite H, <- xw_visible_children_at_focus, map_length. reflexivity.
Qed.

(* ---------- (c) parent ---------- *)
Theorem xw_parent_spec : forall c x, In x (xw_kid_cursors c) -> xw_parent x = Some c.
Proof.
  intros c x H. unfold xw_parent, xw_item.
  pose proof (xw_kid_ctx c x H) as Hc. destruct (xw_ctx x) as [|f0 up0] eqn:E; [congruence|]. clear Hc E.
  destruct c as [[i d k bl cl ks] ctx]. unfold xw_kid_cursors in H. simpl in H.
  rewrite (xw_sibs_up _ _ _ _ _ _ _ _ _ H). simpl. apply xw_xml_out_some.
Qed.
Theorem xw_parent_visible : forall c x, In x (xw_visible_children_at c) -> xw_parent x = Some c.
Proof. intros c x H. apply filter_In in H. apply xw_parent_spec, H. Qed.
Theorem xw_parent_top : forall n, xw_parent (xw_top n) = None.
Proof. reflexivity. Qed.

(* ---------- (b) siblings ---------- *)
Definition xw_dchain (fwd : bool) := if fwd then xw_rchain else xw_lchain.

Lemma xw_dchain_app : forall fwd A x y B, xw_dchain fwd x (A ++ y :: B) -> xw_dchain fwd y B.
Proof.
  intros fwd. induction A as [|a A IH]; intros x y B H; destruct fwd; simpl in *;
    destruct H as [_ H]; eauto.
Qed.

Lemma xw_sib_move_spec : forall fwd l x fuel,
  xw_dchain fwd x l -> length l < fuel ->
  xw_sib_move fwd fuel (Some x) = Some (hd_error (filter xw_clive l), hd_error (filter xw_clive l)).
Proof.
  intros fwd. induction l as [|y l IH]; intros x fuel Hc Hf; (destruct fuel as [|f]; [simpl in Hf; lia|]).
  - simpl. assert (E : (if fwd then xw_right x else xw_left x) = None) by (destruct fwd; exact Hc).
    rewrite E. destruct f; reflexivity.
  - assert (E : (if fwd then xw_right x else xw_left x) = Some y /\ xw_dchain fwd y l)
      by (destruct fwd; exact Hc).
    destruct E as [E Hc']. simpl. rewrite E.
    unfold xw_clive, xw_live, xw_is_deleted. destruct (xw_del (xw_focus y)); simpl.
    + apply IH; auto. simpl in Hf. lia.
    + rewrite xw_xml_out_some. reflexivity.
Qed.

Lemma xw_sib_move_none : forall fwd fuel, xw_sib_move fwd fuel None = Some (None, None).
Proof. intros fwd [|f]; reflexivity. Qed.

Lemma xw_sib_collect_spec : forall fwd n l x fuel ifuel,
  length l <= n -> xw_dchain fwd x l -> length l < ifuel -> length (filter xw_clive l) < fuel ->
  xw_sib_collect fwd fuel ifuel (Some x) = Some (filter xw_clive l).
Proof.
  intros fwd. induction n as [|n IH]; intros l x fuel ifuel Hn Hc Hi Hf;
    (destruct fuel as [|f]; [lia|]); simpl; rewrite (xw_sib_move_spec fwd l x ifuel Hc Hi).
  - destruct l; [reflexivity | simpl in Hn; lia].
  - destruct (xw_filter_none_or_first xw_clive l) as [E | (a & y & b & E1 & E2 & E3)].
    + rewrite E. reflexivity.
    + subst l. rewrite filter_app in *. simpl in *. rewrite E2, E3 in *. simpl in *.
      rewrite app_length in *. simpl in *.
      rewrite (IH b y f ifuel); auto; try lia. eapply xw_dchain_app; eauto.
Qed.

Theorem xw_siblings_fuel_spec : forall fwd c fuel, xw_row_fuel c < fuel ->
  xw_siblings_fuel fwd fuel c = Some (filter xw_clive (if fwd then xw_rights c else xw_lefts c)).
Proof.
  intros fwd c fuel Hf. unfold xw_siblings_fuel, xw_siblings_new, xw_item.
  destruct (xw_ctx c) as [|f0 up0] eqn:E.
  - destruct fuel; [lia|]. simpl.
    unfold xw_rights, xw_lefts. rewrite E. destruct fwd; reflexivity.
  - assert (Hc : xw_ctx c <> []) by congruence.
    pose proof (xw_row_fuel_eq c Hc) as Hr.
    set (l := if fwd then xw_rights c else xw_lefts c).
    assert (Hl : length l <= length (xw_lefts c) + length (xw_rights c)) by (subst l; destruct fwd; lia).
    apply (xw_sib_collect_spec fwd (length l)); auto; try lia.
    + subst l. destruct fwd; simpl; [apply xw_rights_rchain | apply xw_lefts_lchain].
    + pose proof (xw_filter_length_le xw_clive l). lia.
Qed.

(* forward: the live items to the right; backward: the live items to the left, nearest first *)
Theorem xw_siblings_fwd_rights : forall c, xw_siblings_fwd c = filter xw_clive (xw_rights c).
Proof. intros c. unfold xw_siblings_fwd. rewrite (xw_siblings_fuel_spec true); auto. Qed.
Theorem xw_siblings_back_lefts : forall c, xw_siblings_back c = filter xw_clive (xw_lefts c).
Proof. intros c. unfold xw_siblings_back. rewrite (xw_siblings_fuel_spec false); auto. Qed.

(* the visible children of c, seen from the i-th of them *)
Lemma xw_visible_around : forall c i x,
  nth_error (xw_visible_children_at c) i = Some x ->
  exists a b, xw_visible_children_at c = a ++ x :: b /\ length a = i /\
              filter xw_clive (xw_rights x) = b /\ filter xw_clive (xw_lefts x) = rev a /\
              In x (xw_kid_cursors c).
Proof.
  intros c i x H. destruct (xw_nth_error_split_len _ _ _ H) as (a & b & E & L).
  exists a, b. unfold xw_visible_children_at in *.
  destruct (xw_filter_split _ _ _ _ _ E) as (l1 & l2 & E1 & E2 & E3).
  destruct (xw_kid_cursors_split c l1 x l2 E1) as [H1 H2].
  repeat split; auto.
  - rewrite <- H1. exact E3.
  - rewrite <- H2, xw_filter_rev, E2. reflexivity.
  - rewrite E1. apply in_or_app. right. left. reflexivity.
Qed.

Theorem xw_siblings_spec : forall c i x,
  nth_error (xw_visible_children_at c) i = Some x ->
  xw_siblings_fwd x = skipn (S i) (xw_visible_children_at c) /\
  xw_siblings_back x = rev (firstn i (xw_visible_children_at c)).
Proof.
  intros c i x H. destruct (xw_visible_around c i x H) as (a & b & E & L & Hr & Hl & _).
  rewrite xw_siblings_fwd_rights, xw_siblings_back_lefts, Hr, Hl, E. subst i. split.
  - rewrite xw_skipn_app_cons. reflexivity.
  - rewrite xw_firstn_app_len. reflexivity.
Qed.

(* forward from the first child = the tail of children *)
Theorem xw_siblings_first_child : forall c x,
  xw_first_child_at c = Some x -> xw_siblings_fwd x = tl (xw_visible_children_at c).
Proof.
  intros c x H. rewrite xw_first_child_at_spec in H.
  assert (H0 : nth_error (xw_visible_children_at c) 0 = Some x)
    by (destruct (xw_visible_children_at c); simpl in *; congruence).
  destruct (xw_siblings_spec c 0 x H0) as [H1 _]. rewrite H1.
  destruct (xw_visible_children_at c); reflexivity.
Qed.

(* next / next_back mixed on one iterator: Siblings is ONE pointer that moves by one visible position;
   it is not a double-ended range (next_back does not start from the far end, and after a next() it
   comes back over the items next() returned, the starting node included) *)
Lemma xw_sib_run_none : forall fuel script,
  xw_sib_run_fuel fuel script None = Some (map (fun _ => None) script).
Proof.
  intros fuel. induction script as [|b r IH]; simpl; auto.
  rewrite xw_sib_move_none, IH. reflexivity.
Qed.
Lemma xw_walk_spec_none : forall {A} (v : list A) script,
  xw_walk_spec v script None = map (fun _ => None) script.
Proof. intros A v. induction script as [|b r IH]; simpl; auto. rewrite IH. reflexivity. Qed.

Lemma xw_hd_rev_nth : forall {A} (a : list A) x b j,
  length a = S j -> hd_error (rev a) = nth_error (a ++ x :: b) j.
Proof.
  intros A a x b j H. destruct (rev a) as [|y r] eqn:E.
  - apply (f_equal (@length A)) in E. rewrite rev_length in E. simpl in E. lia.
  - assert (Ea : a = rev r ++ [y]) by (rewrite <- (rev_involutive a), E; reflexivity).
    subst a. rewrite app_length, rev_length in H. simpl in H.
    rewrite <- app_assoc. simpl. rewrite nth_error_app2; rewrite rev_length; [|lia].
    replace (j - length r) with 0 by lia. reflexivity.
Qed.

Lemma xw_sib_run_spec : forall c fuel script i x,
  length (xw_kids (xw_focus c)) <= fuel ->
  nth_error (xw_visible_children_at c) i = Some x ->
  xw_sib_run_fuel fuel script (Some x) = Some (xw_walk_spec (xw_visible_children_at c) script (Some i)).
Proof.
  intros c fuel. induction script as [|b r IH]; intros i x Hf H; simpl; auto.
  destruct (xw_visible_around c i x H) as (a & bb & E & L & Hr & Hl & Hin).
  pose proof (xw_kid_row_fuel c x Hin) as Hrf.
  pose proof (xw_row_fuel_eq x (xw_kid_ctx c x Hin)) as Hrf2.
  destruct b.
  - rewrite (xw_sib_move_spec true (xw_rights x) x fuel (xw_rights_rchain x)) by lia.
    rewrite Hr, E, app_length. simpl. destruct bb as [|y bb]; simpl.
    + replace (S i <? length a + 1) with false by (symmetry; apply Nat.ltb_ge; lia).
      rewrite xw_sib_run_none, xw_walk_spec_none. reflexivity.
    + replace (S i <? length a + S (S (length bb))) with true by (symmetry; apply Nat.ltb_lt; lia).
      assert (Hy : nth_error (a ++ x :: y :: bb) (S i) = Some y).
      { rewrite nth_error_app2 by lia. replace (S i - length a) with 1 by lia. reflexivity. }
      rewrite Hy. rewrite <- E in *. rewrite (IH (S i) y Hf Hy). reflexivity.
  - rewrite (xw_sib_move_spec false (xw_lefts x) x fuel (xw_lefts_lchain x)) by lia.
    rewrite Hl. destruct i as [|j].
    + destruct a; [|discriminate]. simpl. rewrite xw_sib_run_none, xw_walk_spec_none. reflexivity.
    + rewrite (xw_hd_rev_nth a x bb j L), <- E.
      destruct (nth_error (xw_visible_children_at c) j) as [y|] eqn:Hy.
      * rewrite (IH j y Hf Hy). reflexivity.
      * exfalso. apply nth_error_None in Hy. rewrite E, app_length in Hy. simpl in Hy. lia.
Qed.

Theorem xw_siblings_mixed_spec : forall c i x script,
  nth_error (xw_visible_children_at c) i = Some x ->
  xw_siblings_run script x = xw_walk_spec (xw_visible_children_at c) script (Some i).
Proof.
  intros c i x script H. unfold xw_siblings_run, xw_siblings_new, xw_item.
  destruct (xw_visible_around c i x H) as (_ & _ & _ & _ & _ & _ & Hin).
  pose proof (xw_kid_ctx c x Hin) as Hc. destruct (xw_ctx x) as [|f0 up0] eqn:E; [congruence|].
  rewrite (xw_sib_run_spec c _ script i x); auto.
  rewrite (xw_kid_row_fuel c x Hin). lia.
Qed.

(* ---------- (a) children: XmlNodes over BlockIter ---------- *)
(* where the inner loop of slice stops, started on x with a free slot (len = 1, read = 0) *)
Fixpoint xw_inner_res (c : xw_cursor) (j : nat) (nx : option xw_cursor) (x : xw_cursor) (l : list xw_cursor) : xw_slice :=
  if xw_clive x then
    match l with
    | r :: _ => xw_mksl (xw_mkbi c j 0 nx false) (Some r) 0 1 (Some x)
    | [] => xw_mksl (xw_mkbi c j 0 nx true) (Some x) 0 1 (Some x)
    end
  else
    match l with
    | r :: l' => xw_inner_res c j nx r l'
    | [] => xw_mksl (xw_mkbi c j 0 nx true) (Some x) 1 0 None
    end.

Lemma xw_bi_slice_inner_spec : forall l x fuel c j nx,
  xw_rchain x l -> length l < fuel ->
  xw_bi_slice_inner fuel (xw_mksl (xw_mkbi c j 0 nx false) (Some x) 1 0 None) = Some (xw_inner_res c j nx x l).
Proof.
  induction l as [|y l IH]; intros x fuel c j nx Hc Hf; (destruct fuel as [|f]; [simpl in Hf; lia|]);
    simpl in Hc; simpl xw_inner_res; unfold xw_clive, xw_live;
    simpl; unfold xw_is_deleted; destruct (xw_del (xw_focus x)); simpl.
  - rewrite Hc. destruct f; reflexivity.
  - rewrite Hc. destruct f; reflexivity.
  - destruct Hc as [Hr Hc]. rewrite Hr. apply IH; auto. simpl in Hf. lia.
  - destruct Hc as [Hr Hc]. rewrite Hr. destruct f; reflexivity.
Qed.

Lemma xw_inner_res_cases : forall c j nx l x, xw_rchain x l ->
  (filter xw_clive (x :: l) = [] /\
   exists z, xw_inner_res c j nx x l = xw_mksl (xw_mkbi c j 0 nx true) (Some z) 1 0 None)
  \/ (exists y, filter xw_clive (x :: l) = [y] /\
      xw_inner_res c j nx x l = xw_mksl (xw_mkbi c j 0 nx true) (Some y) 0 1 (Some y))
  \/ (exists y r rest, filter xw_clive (x :: l) = y :: filter xw_clive (r :: rest) /\
      xw_rchain r rest /\ length rest < length l /\
      xw_inner_res c j nx x l = xw_mksl (xw_mkbi c j 0 nx false) (Some r) 0 1 (Some y)).
Proof.
  intros c j nx. induction l as [|r l IH]; intros x Hc; simpl in Hc.
  - simpl. destruct (xw_clive x).
    + right. left. exists x. auto.
    + left. split; auto. exists x. auto.
  - destruct Hc as [Hr Hc]. simpl xw_inner_res. simpl filter. destruct (xw_clive x).
    + right. right. exists x, r, l. simpl. repeat split; auto.
    + destruct (IH r Hc) as [[H1 [z H2]] | [[y [H1 H2]] | (y & r' & rest & H1 & H2 & H3 & H4)]].
      * left. split; auto. exists z. auto.
      * right. left. exists y. auto.
      * right. right. exists y, r', rest. simpl in *. repeat split; auto.
Qed.

Lemma xw_nodes_next_end : forall ifuel c j nx, 1 <= ifuel ->
  exists it', xw_nodes_next ifuel (xw_mkbi c j 0 nx true) = Some (None, it').
Proof.
  intros ifuel c j nx Hf. destruct ifuel as [|f]; [lia|].
  unfold xw_nodes_next, xw_bi_slice1. simpl.
  destruct (_ <? j + 1); simpl; eauto.
Qed.

Lemma xw_nodes_collect_end : forall fuel ifuel c j nx, 1 <= fuel -> 1 <= ifuel ->
  xw_nodes_collect fuel ifuel (xw_mkbi c j 0 nx true) = Some [].
Proof.
  intros fuel ifuel c j nx H1 H2. destruct fuel as [|f]; [lia|]. simpl.
  destruct (xw_nodes_next_end ifuel c j nx H2) as [it' E]. rewrite E. reflexivity.
Qed.

Lemma xw_nodes_next_spec : forall c j x l ifuel,
  xw_rchain x l -> length l + 2 <= ifuel -> j + 1 <= xw_clen (xw_focus c) ->
  (filter xw_clive (x :: l) = [] /\
   exists it', xw_nodes_next ifuel (xw_mkbi c j 0 (Some x) false) = Some (None, it'))
  \/ (exists y, filter xw_clive (x :: l) = [y] /\
      xw_nodes_next ifuel (xw_mkbi c j 0 (Some x) false) = Some (Some y, xw_mkbi c (j + 1) 0 (Some y) true))
  \/ (exists y r rest, filter xw_clive (x :: l) = y :: filter xw_clive (r :: rest) /\
      xw_rchain r rest /\ length rest < length l /\
      xw_nodes_next ifuel (xw_mkbi c j 0 (Some x) false) = Some (Some y, xw_mkbi c (j + 1) 0 (Some r) false)).
Proof.
  intros c j x l ifuel Hc Hf Hj.
  assert (E0 : (xw_clen (xw_focus c) <? j + 1) = false) by (apply Nat.ltb_ge; lia).
  destruct ifuel as [|[|f]]; try lia.
  remember (xw_nodes_next (S (S f)) (xw_mkbi c j 0 (Some x) false)) as R eqn:ER.
  unfold xw_nodes_next, xw_bi_slice1 in ER.
  unfold xw_bi_content_len, xw_bi_index, xw_bi_branch in ER. rewrite E0 in ER.
  unfold xw_bi_set_index in ER. simpl xw_bi_next in ER. simpl xw_bi_rel in ER. simpl xw_bi_end in ER.
  simpl xw_bi_branch in ER. simpl xw_bi_index in ER.
  unfold xw_bi_slice_outer at 1 in ER. fold xw_bi_slice_outer in ER.
  simpl xw_sl_len in ER. simpl xw_sl_it in ER. simpl xw_bi_end in ER.
  change (0 <? 1) with true in ER. cbv iota in ER. change (negb false) with true in ER. cbv iota in ER.
  rewrite (xw_bi_slice_inner_spec l x (S (S f)) c (j + 1) (Some x) Hc) in ER by lia.
  destruct (xw_inner_res_cases c (j + 1) (Some x) l x Hc)
    as [[H1 [z H2]] | [[y [H1 H2]] | (y & r & rest & H1 & H2 & H3 & H4)]].
  - left. split; auto. rewrite H2 in ER. simpl in ER. subst R. eauto.
  - right. left. exists y. split; auto. rewrite H2 in ER. simpl in ER. rewrite xw_xml_out_some in ER.
    rewrite Nat.sub_0_r in ER. exact ER.
  - right. right. exists y, r, rest. repeat split; auto. rewrite H4 in ER. simpl in ER.
    rewrite xw_xml_out_some, Nat.sub_0_r in ER. exact ER.
Qed.

Lemma xw_nodes_next_full : forall ifuel c j nx e, xw_clen (xw_focus c) < j + 1 ->
  xw_nodes_next ifuel (xw_mkbi c j 0 nx e) = Some (None, xw_mkbi c j 0 nx e).
Proof.
  intros ifuel c j nx e H. unfold xw_nodes_next, xw_bi_slice1, xw_bi_content_len. simpl.
  replace (xw_clen (xw_focus c) <? j + 1) with true by (symmetry; apply Nat.ltb_lt; lia).
  reflexivity.
Qed.

Lemma xw_nodes_collect_spec : forall c n l x j fuel ifuel,
  length l <= n -> xw_rchain x l -> n + 2 <= ifuel -> n + 2 <= fuel ->
  xw_nodes_collect fuel ifuel (xw_mkbi c j 0 (Some x) false)
  = Some (firstn (xw_clen (xw_focus c) - j) (filter xw_clive (x :: l))).
Proof.
  intros c. induction n as [|n IH]; intros l x j fuel ifuel Hn Hc Hi Hf;
    (destruct fuel as [|fu]; [lia|]); simpl xw_nodes_collect.
  - destruct (le_lt_dec (j + 1) (xw_clen (xw_focus c))) as [Hj|Hj].
    + destruct (xw_nodes_next_spec c j x l ifuel Hc ltac:(lia) Hj)
        as [[H1 [it' H2]] | [[y [H1 H2]] | (y & r & rest & H1 & H2 & H3 & H4)]].
      * rewrite H2, H1. rewrite firstn_nil. reflexivity.
      * rewrite H2, H1. rewrite xw_nodes_collect_end by lia.
        replace (xw_clen (xw_focus c) - j) with (S (xw_clen (xw_focus c) - j - 1)) by lia.
        simpl. rewrite firstn_nil. reflexivity.
      * lia.
    + rewrite xw_nodes_next_full by lia.
      replace (xw_clen (xw_focus c) - j) with 0 by lia. reflexivity.
  - destruct (le_lt_dec (j + 1) (xw_clen (xw_focus c))) as [Hj|Hj].
    + destruct (xw_nodes_next_spec c j x l ifuel Hc ltac:(lia) Hj)
        as [[H1 [it' H2]] | [[y [H1 H2]] | (y & r & rest & H1 & H2 & H3 & H4)]].
      * rewrite H2, H1. rewrite firstn_nil. reflexivity.
      * rewrite H2, H1. rewrite xw_nodes_collect_end by lia.
        replace (xw_clen (xw_focus c) - j) with (S (xw_clen (xw_focus c) - j - 1)) by lia.
        simpl. rewrite firstn_nil. reflexivity.
      * rewrite H4, H1. rewrite (IH rest r (j + 1) fu ifuel) by (auto; lia).
        replace (xw_clen (xw_focus c) - j) with (S (xw_clen (xw_focus c) - (j + 1))) by lia.
        reflexivity.
    + rewrite xw_nodes_next_full by lia.
      replace (xw_clen (xw_focus c) - j) with 0 by lia. reflexivity.
Qed.

(* children() yields the visible children, as many as the cached content_len allows *)
Theorem xw_children_fuel_spec : forall c fuel, S (xw_kids_fuel c) <= fuel ->
  xw_children_fuel fuel c = Some (firstn (xw_clen (xw_focus c)) (xw_visible_children_at c)).
Proof.
  intros c fuel Hf. unfold xw_children_fuel, xw_bi_new, xw_visible_children_at, xw_kids_fuel in *.
  pose proof (xw_kid_cursors_start c) as Hs. pose proof (xw_kid_cursors_length c) as Hl.
  destruct (xw_start c) as [k0|]; simpl xw_is_none.
  - destruct Hs as [Hk _]. rewrite Hk in *. simpl in Hl.
    rewrite (xw_nodes_collect_spec c (length (xw_rights k0)) (xw_rights k0) k0 0 fuel fuel);
      auto using xw_rights_rchain; try lia.
    rewrite Nat.sub_0_r. reflexivity.
  - rewrite Hs. simpl. rewrite firstn_nil. apply xw_nodes_collect_end; lia.
Qed.

Theorem xw_children_at_spec : forall c, xw_cached_ok (xw_focus c) ->
  xw_children_at c = xw_visible_children_at c.
Proof.
  intros c [_ H]. unfold xw_children_at. rewrite xw_children_fuel_spec by lia. simpl.
  apply firstn_all2. rewrite H, <- xw_visible_children_at_focus, map_length. lia.
Qed.

(* without the assumption on the cache: a prefix *)
Theorem xw_children_at_prefix : forall c,
  xw_children_at c = firstn (xw_clen (xw_focus c)) (xw_visible_children_at c).
Proof. intros c. unfold xw_children_at. rewrite xw_children_fuel_spec by lia. reflexivity. Qed.

(* ---------- (d) TreeWalker ---------- *)
Lemma xw_pre_node_eq : forall n,
  xw_pre_node n = if xw_del n then []
                  else n :: (if xw_container (xw_kind_of n) then xw_pre_list (xw_kids n) else []).
Proof.
  intros [i d k bl cl ks]. simpl. destruct d; reflexivity.
Qed.
Lemma xw_size_eq : forall n, xw_size n = S (xw_size_list (xw_kids n)).
Proof.
  intros [i d k bl cl ks]. reflexivity.
Qed.
Lemma xw_size_pos : forall n, 1 <= xw_size n.
Proof. intros n. rewrite xw_size_eq. lia. Qed.
Lemma xw_size_list_app : forall a b, xw_size_list (a ++ b) = xw_size_list a + xw_size_list b.
Proof. induction a as [|x a IH]; intros b; simpl; auto. rewrite IH. lia. Qed.

(* what is still to come after the subtree of the current item: the right siblings at every level up to
   (and excluding) the root of the walk *)
Fixpoint xw_spec_after (local : list xw_frame) : list xw_node :=
  match local with [] => [] | f :: r => xw_pre_list (xw_f_right f) ++ xw_spec_after r end.
Fixpoint xw_msize_after (local : list xw_frame) : nat :=
  match local with [] => 0 | f :: r => xw_size_list (xw_f_right f) + xw_msize_after r end.
Definition xw_todo (n : xw_cursor) (local : list xw_frame) : list xw_node :=
  xw_pre_node (xw_focus n) ++ xw_spec_after local.
Definition xw_mtodo (n : xw_cursor) (local : list xw_frame) : nat :=
  xw_size (xw_focus n) + xw_msize_after local.
Definition xw_todo_after (n : xw_cursor) (local : list xw_frame) : list xw_node :=
  (if xw_live (xw_focus n) && xw_container (xw_kind_of (xw_focus n))
   then xw_pre_list (xw_kids (xw_focus n)) else []) ++ xw_spec_after local.

Lemma xw_path_eqb_refl : forall a, xw_path_eqb a a = true.
Proof. induction a as [|x a IH]; simpl; auto. rewrite Nat.eqb_refl. exact IH. Qed.
Lemma xw_path_eqb_len : forall a b, xw_path_eqb a b = true -> length a = length b.
Proof.
  induction a as [|x a IH]; intros [|y b] H; simpl in *; try discriminate; auto.
  apply andb_true_iff in H. destruct H as [_ H]. f_equal. auto.
Qed.
Lemma xw_same_deeper : forall fn f rest root,
  xw_same (xw_mkcur fn (f :: rest ++ xw_ctx root)) root = false.
Proof.
  intros fn f rest root. unfold xw_same, xw_path. simpl xw_ctx.
  destruct (xw_path_eqb _ _) eqn:E; auto. apply xw_path_eqb_len in E.
  simpl in E. rewrite !map_length, app_length in E. lia.
Qed.
Lemma xw_same_here : forall fn root, xw_same (xw_mkcur fn (xw_ctx root)) root = true.
Proof. intros fn root. unfold xw_same, xw_path. simpl. apply xw_path_eqb_refl. Qed.

Lemma xw_tw_climb_none : forall check fuel root, xw_tw_climb check fuel root None = Some None.
Proof. intros check [|f] root; reflexivity. Qed.

Lemma xw_tw_climb_spec : forall local n root fuel,
  xw_under root n local -> local <> [] -> length local <= fuel ->
  exists r, xw_tw_climb true fuel root (Some n) = Some r /\
    match r with
    | None => xw_spec_after local = []
    | Some m => exists local', local' <> [] /\ xw_under root m local' /\
                xw_todo m local' = xw_spec_after local /\ xw_mtodo m local' <= xw_msize_after local
    end.
Proof.
  induction local as [|fr rest IH]; intros n root fuel [Hctx Hzip] Hne Hf; [congruence|].
  destruct fuel as [|f]; [simpl in Hf; lia|].
  destruct n as [fn cn]. simpl in Hctx, Hzip. subst cn.
  destruct fr as [i d k bl cl lf [|r rs]].
  - (* no right sibling *)
    simpl xw_tw_climb. unfold xw_right, xw_up. simpl.
    destruct rest as [|fr2 rest'].
    + simpl app. rewrite xw_same_here. simpl. rewrite xw_tw_climb_none.
      exists None. split; auto.
    + simpl app. rewrite xw_same_deeper. simpl.
      set (p := xw_mkcur (xw_plug fn (xw_mkfr i d k bl cl lf [])) (fr2 :: rest' ++ xw_ctx root)).
      assert (Hu : xw_under root p (fr2 :: rest')) by (split; [reflexivity | exact Hzip]).
      destruct (IH p root f Hu ltac:(discriminate) ltac:(simpl in *; lia)) as [r [E Hr]].
      exists r. split; [exact E|]. destruct r as [m|]; simpl; auto.
  - (* a right sibling *)
    simpl xw_tw_climb. unfold xw_right. simpl.
    eexists. split; [reflexivity|]. simpl.
    exists (xw_mkfr i d k bl cl (fn :: lf) rs :: rest). split; [discriminate|]. split; [|split].
    + split; [reflexivity|]. simpl. rewrite <- Hzip. unfold xw_plug. simpl.
      rewrite <- app_assoc. reflexivity.
    + unfold xw_todo. simpl. rewrite <- app_assoc. reflexivity.
    + unfold xw_mtodo. simpl. lia.
Qed.

Lemma xw_todo_after_deleted : forall m local,
  xw_is_deleted m = true -> xw_todo_after m local = xw_todo m local.
Proof.
  intros m local H. unfold xw_todo_after, xw_todo, xw_live. unfold xw_is_deleted in H.
  rewrite xw_pre_node_eq, H. reflexivity.
Qed.
Lemma xw_todo_live : forall m local,
  xw_is_deleted m = false -> xw_todo m local = xw_focus m :: xw_todo_after m local.
Proof.
  intros m local H. unfold xw_todo_after, xw_todo, xw_live. unfold xw_is_deleted in H.
  rewrite xw_pre_node_eq, H. reflexivity.
Qed.

(* one round of the do-while loop *)
Lemma xw_tw_body_spec : forall local n root cf,
  xw_under root n local -> local <> [] -> length local <= cf ->
  exists r,
    match xw_try_descend n with
    | Some ptr => Some (Some ptr)
    | None => xw_tw_climb true cf root (Some n)
    end = Some r /\
    match r with
    | None => xw_todo_after n local = []
    | Some m => exists local', local' <> [] /\ xw_under root m local' /\
                xw_todo m local' = xw_todo_after n local /\ xw_mtodo m local' < xw_mtodo n local
    end.
Proof.
  intros local n root cf Hu Hne Hcf.
  assert (Hclimb : xw_try_descend n = None ->
            xw_todo_after n local = xw_spec_after local ->
            exists r, xw_tw_climb true cf root (Some n) = Some r /\
              match r with
              | None => xw_todo_after n local = []
              | Some m => exists local', local' <> [] /\ xw_under root m local' /\
                          xw_todo m local' = xw_todo_after n local /\ xw_mtodo m local' < xw_mtodo n local
              end).
  { intros _ Ht. destruct (xw_tw_climb_spec local n root cf Hu Hne Hcf) as [r [E Hr]].
    exists r. split; auto. destruct r as [m|].
    - destruct Hr as (l' & H1 & H2 & H3 & H4). exists l'. repeat split; auto; try apply H2.
      + congruence.
      + unfold xw_mtodo at 2. pose proof (xw_size_pos (xw_focus n)). lia.
    - congruence. }
  destruct n as [[i d k bl cl ks] cn].
  destruct Hu as [Hctx Hzip]. simpl in Hctx, Hzip.
  assert (Hdesc : xw_container k = true -> d = false -> forall x r, ks = x :: r ->
            exists r0,
              Some (Some (xw_mkcur x (xw_mkfr i d k bl cl [] r :: cn))) = Some r0 /\
              match r0 with
              | None => True
              | Some m => exists local', local' <> [] /\ xw_under root m local' /\
                  xw_todo m local' = xw_todo_after (xw_mkcur (xw_mk i d k bl cl ks) cn) local /\
                  xw_mtodo m local' < xw_mtodo (xw_mkcur (xw_mk i d k bl cl ks) cn) local
              end).
  { intros Hk Hd x r Hks. subst ks d. eexists. split; [reflexivity|].
    exists (xw_mkfr i false k bl cl [] r :: local). split; [discriminate|]. split; [|split].
    - split; [simpl; rewrite Hctx; reflexivity | exact Hzip].
    - unfold xw_todo, xw_todo_after, xw_live. simpl. rewrite Hk. simpl.
      rewrite <- app_assoc. reflexivity.
    - unfold xw_mtodo. simpl xw_focus. rewrite (xw_size_eq (xw_mk _ _ _ _ _ _)). simpl. lia. }
  unfold xw_try_descend, xw_is_deleted, xw_start. simpl.
  destruct k as [tag| |]; destruct d; destruct ks as [|x r]; simpl;
    try (apply Hclimb; [reflexivity | unfold xw_todo_after, xw_live; simpl; reflexivity]).
  - destruct (Hdesc eq_refl eq_refl x r eq_refl) as [r0 [E Hr]]. exists r0. split; auto.
    destruct r0; auto. inversion E.
  - destruct (Hdesc eq_refl eq_refl x r eq_refl) as [r0 [E Hr]]. exists r0. split; auto.
    destruct r0; auto. inversion E.
Qed.

Lemma xw_zipup_size : forall local n,
  xw_size n + xw_msize_after local + length local <= xw_size (xw_zipup n local).
Proof.
  induction local as [|f r IH]; intros n; simpl; [lia|].
  specialize (IH (xw_plug n f)). unfold xw_plug in IH at 1. rewrite xw_size_eq in IH. simpl in IH.
  rewrite xw_size_list_app in IH. simpl in IH. lia.
Qed.
Lemma xw_under_size : forall root n local, xw_under root n local ->
  xw_mtodo n local + length local <= xw_size (xw_focus root).
Proof.
  intros root n local [_ H]. rewrite <- H. unfold xw_mtodo. apply xw_zipup_size.
Qed.

Lemma xw_tw_loop_spec : forall N n local root cf lf,
  xw_under root n local -> local <> [] -> xw_mtodo n local <= N -> N <= lf ->
  xw_size (xw_focus root) <= cf ->
  exists r, xw_tw_loop true cf lf root (Some n) = Some r /\
    match r with
    | None => xw_todo_after n local = []
    | Some m => xw_is_deleted m = false /\ exists local', local' <> [] /\ xw_under root m local' /\
                xw_todo m local' = xw_todo_after n local /\ xw_mtodo m local' < xw_mtodo n local
    end.
Proof.
  induction N as [|N IH]; intros n local root cf lf Hu Hne HN Hlf Hcf.
  - unfold xw_mtodo in HN. pose proof (xw_size_pos (xw_focus n)). lia.
  - destruct lf as [|lf']; [lia|]. simpl xw_tw_loop.
    pose proof (xw_under_size root n local Hu) as Hsz.
    destruct (xw_tw_body_spec local n root cf Hu Hne ltac:(lia)) as [r1 [E1 H1]].
    rewrite E1. destruct r1 as [m|].
    + destruct H1 as (l1 & Hne1 & Hu1 & Ht1 & Hm1).
      destruct (xw_is_deleted m) eqn:Ed.
      * destruct (IH m l1 root cf lf' Hu1 Hne1 ltac:(lia) ltac:(lia) Hcf) as [r [E Hr]].
        exists r. split; auto. rewrite (xw_todo_after_deleted m l1 Ed), Ht1 in Hr.
        destruct r as [m2|]; auto.
        destruct Hr as (Hd2 & l2 & Hne2 & Hu2 & Ht2 & Hm2).
        split; auto. exists l2. repeat split; auto; try apply Hu2. lia.
      * exists (Some m). split; auto. split; auto. exists l1. auto.
    + exists None. auto.
Qed.

Lemma xw_tw_run_spec : forall N n local root cf lf fuel fst,
  xw_under root n local -> local <> [] -> xw_mtodo n local <= N ->
  xw_size (xw_focus root) <= cf -> xw_size (xw_focus root) <= lf -> N < fuel ->
  fst = false \/ xw_is_deleted n = true ->
  exists l, xw_tw_collect true cf lf fuel (xw_mktw (Some n) root fst) = Some l /\
            map xw_focus l = xw_todo_after n local /\ Forall (xw_below root) l.
Proof.
  induction N as [|N IH]; intros n local root cf lf fuel fst Hu Hne HN Hcf Hlf Hfu Hfst.
  - unfold xw_mtodo in HN. pose proof (xw_size_pos (xw_focus n)). lia.
  - destruct fuel as [|fu]; [lia|]. simpl xw_tw_collect. unfold xw_tw_next.
    simpl xw_tw_current. simpl xw_tw_first. simpl xw_tw_root. cbv beta iota.
    assert (Ec : negb fst || xw_is_deleted n = true)
      by (destruct Hfst as [H|H]; rewrite H; [reflexivity | apply orb_true_r]).
    rewrite Ec.
    pose proof (xw_under_size root n local Hu) as Hsz.
    destruct (xw_tw_loop_spec (xw_mtodo n local) n local root cf lf Hu Hne ltac:(lia) ltac:(lia) Hcf)
      as [r [E Hr]].
    rewrite E. destruct r as [m|].
    + destruct Hr as (Hd & l1 & Hne1 & Hu1 & Ht1 & Hm1). rewrite xw_xml_out_some.
      destruct (IH m l1 root cf lf fu false Hu1 Hne1 ltac:(lia) Hcf Hlf ltac:(lia) (or_introl eq_refl))
        as [l [El [Hl1 Hl2]]].
      rewrite El. exists (m :: l). split; auto. split.
      * simpl. rewrite Hl1, <- Ht1. symmetry. apply xw_todo_live. exact Hd.
      * constructor; auto. exists l1. auto.
    + exists []. split; auto.
Qed.

Lemma xw_tw_collect_first_live : forall cf lf fu k0 root,
  xw_is_deleted k0 = false ->
  xw_tw_collect true cf lf (S fu) (xw_mktw (Some k0) root true)
  = match xw_tw_collect true cf lf fu (xw_mktw (Some k0) root false) with
    | Some l => Some (k0 :: l) | None => None end.
Proof.
  intros cf lf fu k0 root H. unfold xw_is_deleted in H. simpl. unfold xw_tw_next, xw_is_deleted. simpl.
  rewrite H. simpl. rewrite xw_xml_out_some. reflexivity.
Qed.

(* the walker started at c yields exactly the visible descendants of c in pre-order, all of them
   positions strictly below c; any fuel from the size of c's subtree on is enough *)
Theorem xw_successors_fuel_spec : forall c fuel, xw_size (xw_focus c) <= fuel ->
  exists l, xw_successors_fuel true fuel c = Some l /\
            map xw_focus l = xw_preorder (xw_focus c) /\ Forall (xw_below c) l.
Proof.
  intros [[i d k bl cl ks] cn] fuel Hf. unfold xw_successors_fuel, xw_tw_new, xw_start, xw_preorder.
  simpl xw_focus in *. simpl xw_kids. simpl xw_ctx.
  destruct ks as [|x r].
  - exists []. simpl. auto.
  - set (root := xw_mkcur (xw_mk i d k bl cl (x :: r)) cn).
    set (fr := xw_mkfr i d k bl cl [] r).
    set (k0 := xw_mkcur x (fr :: cn)).
    assert (Hu : xw_under root k0 [fr]) by (split; reflexivity).
    assert (Hm : xw_mtodo k0 [fr] < xw_size (xw_focus root)).
    { unfold xw_mtodo. rewrite (xw_size_eq (xw_focus root)). simpl. lia. }
    assert (Ht : xw_todo k0 [fr] = xw_pre_list (x :: r)).
    { unfold xw_todo. simpl. rewrite app_nil_r. reflexivity. }
    destruct (xw_is_deleted k0) eqn:Ed.
    + destruct (xw_tw_run_spec (xw_mtodo k0 [fr]) k0 [fr] root fuel fuel (S fuel) true Hu
                  ltac:(discriminate) ltac:(lia) Hf Hf ltac:(simpl in *; lia) (or_intror Ed))
        as [l [E [H1 H2]]].
      exists l. split; auto. split; auto. rewrite H1, <- Ht. apply xw_todo_after_deleted, Ed.
    + destruct (xw_tw_run_spec (xw_mtodo k0 [fr]) k0 [fr] root fuel fuel fuel false Hu
                  ltac:(discriminate) ltac:(lia) Hf Hf ltac:(simpl in *; lia) (or_introl eq_refl))
        as [l [E [H1 H2]]].
      exists (k0 :: l). split; [|split].
      * rewrite (xw_tw_collect_first_live fuel fuel fuel k0 root Ed), E. reflexivity.
      * change (map xw_focus (k0 :: l)) with (xw_focus k0 :: map xw_focus l).
        rewrite H1, <- Ht. symmetry. apply xw_todo_live, Ed.
      * constructor; auto. exists [fr]. split; [discriminate | exact Hu].
Qed.

Theorem xw_successors_spec : forall c,
  map xw_focus (xw_successors c) = xw_preorder (xw_focus c) /\ Forall (xw_below c) (xw_successors c).
Proof.
  intros c. unfold xw_successors.
  destruct (xw_successors_fuel_spec c (xw_size (xw_focus c)) (le_n _)) as [l [E [H1 H2]]].
  rewrite E. simpl. auto.
Qed.

(* a position below c lies in c's subtree: its path from the top extends c's, and it is part of the same tree *)
Lemma xw_below_path : forall c x, xw_below c x ->
  exists p, p <> [] /\ xw_path x = p ++ xw_path c.
Proof.
  intros c x (local & Hne & Hctx & _). unfold xw_path. rewrite Hctx, map_app.
  exists (map (fun f => length (xw_f_left f)) local). split; auto.
  destruct local; [congruence | discriminate].
Qed.
Lemma xw_below_whole : forall c x, xw_below c x -> xw_whole x = xw_whole c.
Proof.
  intros c x (local & _ & Hctx & Hzip). unfold xw_whole. rewrite Hctx, <- Hzip.
  generalize (xw_focus x). clear Hctx Hzip. induction local as [|f r IH]; intros n; simpl; [reflexivity | apply IH].
Qed.

(* the seeded regression: without `current.parent == self.root` a walker started on a nested element
   runs on into the right siblings of its ancestors *)
Definition xw_ex_leaf (k : N) (t : N) : xw_node := xw_mk (mkid 9 k) false (xw_k_elem [t]) 0 0 [].
Definition xw_ex_tree : xw_node :=
  xw_mk (mkid 0 0) false xw_k_frag 3 3
    [xw_mk (mkid 9 0) false (xw_k_elem [97%N]) 2 2 [xw_ex_leaf 1 98; xw_ex_leaf 2 99];
     xw_ex_leaf 3 100; xw_ex_leaf 4 101].
Definition xw_ex_nested : xw_cursor :=
  match xw_find xw_ex_tree (mkid 9 0) with Some c => c | None => xw_top xw_ex_tree end.

Example xw_ex_nested_ok :
  map xw_cid (xw_successors xw_ex_nested) = [mkid 9 1; mkid 9 2] /\
  map xw_id (xw_preorder (xw_focus xw_ex_nested)) = [mkid 9 1; mkid 9 2].
Proof. vm_compute. split; reflexivity. Qed.
Example xw_ex_nested_no_root_check :
  map xw_cid (xw_successors_no_root_check xw_ex_nested) = [mkid 9 1; mkid 9 2; mkid 9 3; mkid 9 4].
Proof. vm_compute. reflexivity. Qed.
Theorem xw_successors_no_root_check_refuted :
  ~ (forall c, map xw_focus (xw_successors_no_root_check c) = xw_preorder (xw_focus c)).
Proof. intros H. specialize (H xw_ex_nested). vm_compute in H. discriminate. Qed.
(* started at the top of a tree the two agree on this example: the missing test only shows on nested starts *)
Example xw_ex_top_no_root_check :
  map xw_cid (xw_successors_no_root_check (xw_top xw_ex_tree)) = map xw_cid (xw_successors (xw_top xw_ex_tree)).
Proof. vm_compute. reflexivity. Qed.

(* Siblings mixes next / next_back on one pointer: after next() the following next_back() returns the
   node the iterator was created on (replayed against the implementation: tests/xw_dump.rs xw_siblings_mixed) *)
Example xw_ex_siblings_mixed :
  match xw_find xw_ex_tree (mkid 9 3) with
  | Some c => map (option_map xw_cid) (xw_siblings_run [true; false] c) = [Some (mkid 9 4); Some (mkid 9 3)]
  | None => False
  end.
Proof. vm_compute. reflexivity. Qed.

(* ---------- node-level statements ---------- *)
Lemma xw_nth_error_map : forall {A B} (f : A -> B) l i, nth_error (map f l) i = option_map f (nth_error l i).
Proof. intros A B f. induction l as [|x r IH]; intros [|i]; simpl; auto. Qed.
Lemma xw_hd_error_map : forall {A B} (f : A -> B) l, hd_error (map f l) = option_map f (hd_error l).
Proof. intros A B f [|x r]; reflexivity. Qed.

(* (a) all ways of reading the children of n agree *)
Theorem xw_children_spec : forall n,
  (xw_cached_ok n -> xw_children n = xw_visible_children n) /\
  (xw_cached_ok n -> xw_len n = length (xw_visible_children n)) /\
  (forall i, xw_get n i = nth_error (xw_visible_children n) i) /\
  xw_first_child n = hd_error (xw_visible_children n) /\
  xw_children n = firstn (xw_clen n) (xw_visible_children n).
Proof.
  intros n. pose proof (xw_visible_children_at_focus (xw_top n)) as Hv. simpl xw_focus in Hv.
  repeat split.
  - intros H. unfold xw_children. rewrite xw_children_at_spec by exact H. exact Hv.
  - intros H. unfold xw_len. rewrite xw_len_at_spec by exact H. rewrite <- Hv, map_length. reflexivity.
  - intros i. unfold xw_get. rewrite xw_get_at_spec, <- Hv, xw_nth_error_map. reflexivity.
  - unfold xw_first_child. rewrite xw_first_child_at_spec, <- Hv, xw_hd_error_map. reflexivity.
  - unfold xw_children. rewrite xw_children_at_prefix, <- Hv, firstn_map. reflexivity.
Qed.

(* reading a nested node in place = reading it on its own *)
Theorem xw_at_focus : forall c,
  map xw_focus (xw_children_at c) = xw_children (xw_focus c) /\
  xw_len_at c = xw_len (xw_focus c) /\
  (forall i, option_map xw_focus (xw_get_at c i) = xw_get (xw_focus c) i) /\
  option_map xw_focus (xw_first_child_at c) = xw_first_child (xw_focus c).
Proof.
  intros c. destruct (xw_children_spec (xw_focus c)) as (_ & _ & Hg & Hf & Hc).
  pose proof (xw_visible_children_at_focus c) as Hv. repeat split.
  - rewrite Hc, xw_children_at_prefix, <- Hv, firstn_map. reflexivity.
  - intros i. rewrite Hg, xw_get_at_spec, <- Hv, xw_nth_error_map. reflexivity.
  - rewrite Hf, xw_first_child_at_spec, <- Hv, xw_hd_error_map. reflexivity.
Qed.

(* ---------- well-formedness: the assumption on the caches, and that it is maintained ---------- *)
Fixpoint xw_node_induction (P : xw_node -> Prop)
    (H : forall i d k bl cl ks, Forall P ks -> P (xw_mk i d k bl cl ks)) (n : xw_node) : P n :=
  match n with
  | xw_mk i d k bl cl ks =>
    H i d k bl cl ks
      ((fix go (l : list xw_node) : Forall P l :=
          match l with
          | [] => Forall_nil P
          | x :: r => Forall_cons x (xw_node_induction P H x) (go r)
          end) ks)
  end.

Lemma xw_wfb_eq : forall i d k bl cl ks,
  xw_wfb (xw_mk i d k bl cl ks) =
  (bl =? length (filter xw_live ks)) && (cl =? length (filter xw_live ks))
  && (if d then forallb xw_del ks else true)
  && (match k with xw_k_text => match ks with [] => true | _ => false end | _ => true end)
  && forallb xw_wfb ks.
Proof. reflexivity. Qed.

Lemma xw_wf_inv : forall i d k bl cl ks, xw_wf (xw_mk i d k bl cl ks) ->
  bl = length (filter xw_live ks) /\ cl = length (filter xw_live ks) /\
  (d = true -> forallb xw_del ks = true) /\ (k = xw_k_text -> ks = []) /\ Forall xw_wf ks.
Proof.
  intros i d k bl cl ks H. unfold xw_wf in H. rewrite xw_wfb_eq in H.
  repeat (apply andb_true_iff in H; destruct H as [H ?]).
  apply Nat.eqb_eq in H. apply Nat.eqb_eq in H3. repeat split; auto.
  - intros ->. auto.
  - intros ->. destruct ks; auto. discriminate.
  - apply Forall_forall. intros x Hx. eapply forallb_forall in H0; eauto.
Qed.
Lemma xw_wf_intro : forall i d k bl cl ks,
  bl = length (filter xw_live ks) -> cl = length (filter xw_live ks) ->
  (d = true -> forallb xw_del ks = true) -> (k = xw_k_text -> ks = []) -> Forall xw_wf ks ->
  xw_wf (xw_mk i d k bl cl ks).
Proof.
  intros i d k bl cl ks H1 H2 H3 H4 H5. unfold xw_wf. rewrite xw_wfb_eq.
  repeat (apply andb_true_iff; split).
  - apply Nat.eqb_eq; auto.
  - apply Nat.eqb_eq; auto.
  - destruct d; auto.
  - destruct k; auto. rewrite H4; auto.
  - apply forallb_forall. intros x Hx. rewrite Forall_forall in H5. apply H5; auto.
Qed.

Theorem xw_wf_cached : forall n, xw_wf n -> xw_cached_ok n.
Proof.
  intros [i d k bl cl ks] H. apply xw_wf_inv in H. destruct H as (H1 & H2 & _).
  split; simpl; auto.
Qed.

(* every node of a well-formed tree is well-formed: what a cursor into it focuses on *)
Theorem xw_wf_focus : forall c, xw_wf (xw_whole c) -> xw_wf (xw_focus c).
Proof.
  intros [n ctx]. unfold xw_whole. simpl. revert n.
  induction ctx as [|f r IH]; intros n H; simpl in *; auto.
  apply IH in H. unfold xw_plug in H. apply xw_wf_inv in H. destruct H as (_ & _ & _ & _ & H).
  rewrite Forall_forall in H. apply H. apply in_or_app. right. left. reflexivity.
Qed.
Corollary xw_wf_focus_cached : forall c, xw_wf (xw_whole c) -> xw_cached_ok (xw_focus c).
Proof. intros c H. apply xw_wf_cached, xw_wf_focus, H. Qed.

(* on well-formed trees the kind test of the specification is redundant *)
Lemma xw_pre_node_naive_eq : forall n,
  xw_pre_node_naive n = if xw_del n then [] else n :: flat_map xw_pre_node_naive (xw_kids n).
Proof. intros [i d k bl cl ks]. simpl. destruct d; reflexivity. Qed.
Theorem xw_pre_node_naive_spec : forall n, xw_wf n -> xw_pre_node n = xw_pre_node_naive n.
Proof.
  apply (xw_node_induction (fun n => xw_wf n -> xw_pre_node n = xw_pre_node_naive n)).
  intros i d k bl cl ks IH H. rewrite xw_pre_node_eq, xw_pre_node_naive_eq. simpl.
  destruct d; auto. f_equal. apply xw_wf_inv in H. destruct H as (_ & _ & _ & Ht & Hk).
  assert (E : xw_pre_list ks = flat_map xw_pre_node_naive ks).
  { clear -IH Hk. induction ks as [|x r IHr]; simpl; auto.
    inversion IH; inversion Hk; subst. rewrite H1 by auto. f_equal. auto. }
  destruct k; simpl; auto. rewrite (Ht eq_refl). reflexivity.
Qed.
Theorem xw_preorder_naive_spec : forall n, xw_wf n -> xw_preorder n = xw_preorder_naive n.
Proof.
  intros [i d k bl cl ks] H. unfold xw_preorder, xw_preorder_naive. simpl.
  apply xw_wf_inv in H. destruct H as (_ & _ & _ & _ & Hk).
  induction ks as [|x r IH]; simpl; auto. inversion Hk; subst.
  rewrite IH by auto. rewrite xw_pre_node_naive_spec by auto. reflexivity.
Qed.

(* delete *)
Lemma xw_mark_deleted_eq : forall i d k bl cl ks,
  xw_mark_deleted (xw_mk i d k bl cl ks) =
  if d then xw_mk i d k bl cl ks
  else xw_mk i true k (bl - length (filter xw_live ks)) (cl - length (filter xw_live ks))
             (map xw_mark_deleted ks).
Proof. reflexivity. Qed.
Lemma xw_mark_deleted_del : forall n, xw_del (xw_mark_deleted n) = true.
Proof. intros [i d k bl cl ks]. rewrite xw_mark_deleted_eq. destruct d; reflexivity. Qed.
Lemma xw_all_deleted_live : forall ks, forallb xw_del ks = true -> filter xw_live ks = [].
Proof.
  induction ks as [|x r IH]; simpl; auto. intros H. apply andb_true_iff in H. destruct H as [H1 H2].
  unfold xw_live. rewrite H1. simpl. auto.
Qed.
Lemma xw_map_mark_deleted : forall ks, forallb xw_del (map xw_mark_deleted ks) = true.
Proof. induction ks as [|x r IH]; simpl; auto. rewrite xw_mark_deleted_del. exact IH. Qed.

Theorem xw_wf_mark_deleted : forall n, xw_wf n -> xw_wf (xw_mark_deleted n).
Proof.
  apply (xw_node_induction (fun n => xw_wf n -> xw_wf (xw_mark_deleted n))).
  intros i d k bl cl ks IH H. rewrite xw_mark_deleted_eq. destruct d; auto.
  apply xw_wf_inv in H. destruct H as (H1 & H2 & _ & H4 & H5).
  pose proof (xw_all_deleted_live _ (xw_map_mark_deleted ks)) as E.
  apply xw_wf_intro; try rewrite E; simpl; try lia.
  - intros _. apply xw_map_mark_deleted.
  - intros Hk. rewrite (H4 Hk). reflexivity.
  - clear -IH H5. induction ks as [|x r IHr]; simpl; constructor;
      inversion IH; inversion H5; subst; auto.
Qed.

Lemma xw_map_nth_same_del : forall (g : xw_node -> xw_node) ks j,
  (forall x, xw_del (g x) = xw_del x) ->
  length (filter xw_live (xw_map_nth g j ks)) = length (filter xw_live ks) /\
  forallb xw_del (xw_map_nth g j ks) = forallb xw_del ks.
Proof.
  intros g. induction ks as [|x r IH]; intros j Hg; [destruct j; auto|].
  assert (El : xw_live (g x) = xw_live x) by (unfold xw_live; rewrite Hg; reflexivity).
  destruct j as [|j]; cbn [xw_map_nth filter forallb].
  - rewrite El, Hg. destruct (xw_live x); auto.
  - destruct (IH j Hg) as [H1 H2]. rewrite H2.
    destruct (xw_live x); cbn [length]; auto.
Qed.
Lemma xw_map_nth_forall : forall (P : xw_node -> Prop) (g : xw_node -> xw_node) ks j,
  Forall P ks -> (forall x, In x ks -> P x -> P (g x)) -> Forall P (xw_map_nth g j ks).
Proof.
  intros P g. induction ks as [|x r IH]; intros j H Hg.
  - destruct j; constructor.
  - inversion H; subst. destruct j as [|j]; cbn [xw_map_nth]; constructor; auto.
    + apply Hg; simpl; auto.
    + apply IH; auto. intros y Hy. apply Hg. simpl. auto.
Qed.
Lemma xw_map_nth_nil : forall g j ks, ks = [] -> xw_map_nth g j ks = [].
Proof. intros g j ks ->. destruct j; reflexivity. Qed.

Lemma xw_map_nth_mark : forall ks j,
  length (filter xw_live (xw_map_nth xw_mark_deleted j ks)) =
  length (filter xw_live ks) - match nth_error ks j with Some x => if xw_live x then 1 else 0 | None => 0 end
  /\ (forallb xw_del ks = true -> forallb xw_del (xw_map_nth xw_mark_deleted j ks) = true).
Proof.
  induction ks as [|x r IH]; intros j; simpl.
  - destruct j; simpl; auto.
  - destruct j as [|j]; simpl.
    + unfold xw_live at 1. rewrite xw_mark_deleted_del. simpl. split.
      * destruct (xw_live x); simpl; lia.
      * intros H. apply andb_true_iff in H. apply H.
    + destruct (IH j) as [H1 H2]. split.
      * destruct (xw_live x) eqn:E; simpl; auto. rewrite H1.
        destruct (nth_error r j) as [y|] eqn:Ey; try lia.
        destruct (xw_live y) eqn:Ely; try lia.
        assert (1 <= length (filter xw_live r)); [|lia].
        apply nth_error_In in Ey. assert (Hy : In y (filter xw_live r)) by (apply filter_In; auto).
        destruct (filter xw_live r); simpl in *; [contradiction | lia].
      * intros H. apply andb_true_iff in H. destruct H as [Ha Hb]. rewrite Ha. auto.
Qed.

Theorem xw_wf_delete_child : forall j n, xw_wf n -> xw_wf (xw_delete_child j n).
Proof.
  intros j [i d k bl cl ks] H. apply xw_wf_inv in H. destruct H as (H1 & H2 & H3 & H4 & H5).
  unfold xw_delete_child. destruct (xw_map_nth_mark ks j) as [E1 E2].
  apply xw_wf_intro; try (rewrite E1; lia); auto.
  - intros Hk. apply xw_map_nth_nil. auto.
  - apply xw_map_nth_forall; auto. intros x _. apply xw_wf_mark_deleted.
Qed.

(* insert *)
Lemma xw_filter_insert : forall j (new : xw_node) ks,
  length (filter xw_live (firstn j ks ++ new :: skipn j ks)) =
  length (filter xw_live ks) + (if xw_live new then 1 else 0).
Proof.
  intros j new ks.
  assert (E : length (filter xw_live ks) =
              length (filter xw_live (firstn j ks)) + length (filter xw_live (skipn j ks))).
  { rewrite <- (firstn_skipn j ks) at 1. rewrite filter_app, app_length. reflexivity. }
  rewrite filter_app, app_length, E. cbn [filter]. destruct (xw_live new); cbn [length]; lia.
Qed.
Lemma xw_forall_insert : forall (P : xw_node -> Prop) j new ks,
  Forall P ks -> P new -> Forall P (firstn j ks ++ new :: skipn j ks).
Proof.
  intros P j new ks H Hn. apply Forall_app. split.
  - apply Forall_forall. intros x Hx. rewrite Forall_forall in H. apply H.
    rewrite <- (firstn_skipn j ks). apply in_or_app. auto.
  - constructor; auto. apply Forall_forall. intros x Hx. rewrite Forall_forall in H. apply H.
    rewrite <- (firstn_skipn j ks). apply in_or_app. auto.
Qed.

Theorem xw_wf_insert_child : forall j new n,
  xw_wf n -> xw_wf new -> xw_container (xw_kind_of n) = true -> xw_wf (xw_insert_child j new n).
Proof.
  intros j new [i d k bl cl ks] H Hnew Hk. apply xw_wf_inv in H. destruct H as (H1 & H2 & H3 & H4 & H5).
  unfold xw_insert_child. simpl in Hk. destruct d.
  - pose proof (xw_filter_insert j (xw_mark_deleted new) ks) as E.
    unfold xw_live at 3 in E. rewrite xw_mark_deleted_del in E. simpl in E.
    apply xw_wf_intro; try (rewrite E; lia).
    + intros _. rewrite forallb_app. simpl. rewrite xw_mark_deleted_del.
      specialize (H3 eq_refl). rewrite <- (firstn_skipn j ks), forallb_app in H3.
      apply andb_true_iff in H3. destruct H3 as [Ha Hb]. rewrite Ha, Hb. reflexivity.
    + intros ->. discriminate.
    + apply xw_forall_insert; auto. apply xw_wf_mark_deleted. auto.
  - pose proof (xw_filter_insert j new ks) as E.
    apply xw_wf_intro; try (rewrite E; lia).
    + discriminate.
    + intros ->. discriminate.
    + apply xw_forall_insert; auto.
Qed.

Lemma xw_delete_child_del : forall j n, xw_del (xw_delete_child j n) = xw_del n.
Proof. intros j [i d k bl cl ks]. reflexivity. Qed.
Lemma xw_insert_child_del : forall j new n, xw_del (xw_insert_child j new n) = xw_del n.
Proof. intros j new [i d k bl cl ks]. simpl. destruct d; reflexivity. Qed.

(* a change that keeps a node well-formed and does not touch its own deleted flag keeps the whole tree well-formed *)
Theorem xw_wf_at_path : forall (f : xw_node -> xw_node),
  (forall m, xw_wf m -> xw_wf (f m)) -> (forall m, xw_del (f m) = xw_del m) ->
  forall p n, xw_wf n -> xw_wf (xw_at_path p f n) /\ xw_del (xw_at_path p f n) = xw_del n.
Proof.
  intros f Hf Hd. induction p as [|j p IH]; intros n H; simpl; auto.
  destruct n as [i d k bl cl ks]. split; [|reflexivity].
  apply xw_wf_inv in H. destruct H as (H1 & H2 & H3 & H4 & H5).
  assert (Hg : forall x, xw_del (xw_at_path p f x) = xw_del x).
  { intros x. clear -Hd. revert x. induction p as [|j' p' IHp]; intros x; simpl; auto.
    destruct x; reflexivity. }
  destruct (xw_map_nth_same_del (xw_at_path p f) ks j Hg) as [E1 E2].
  apply xw_wf_intro; try (rewrite E1; auto).
  - intros Hdd. rewrite E2. auto.
  - intros Hk. apply xw_map_nth_nil. auto.
  - apply xw_map_nth_forall; auto. intros x _ Hx. apply IH. exact Hx.
Qed.

(* the two write paths, anywhere in the tree *)
Theorem xw_wf_delete : forall p j t, xw_wf t -> xw_wf (xw_at_path p (xw_delete_child j) t).
Proof.
  intros p j t H. apply xw_wf_at_path; auto.
  - intros m. apply xw_wf_delete_child.
  - apply xw_delete_child_del.
Qed.
Theorem xw_wf_insert : forall p j new t, xw_wf t -> xw_wf new ->
  xw_wf (xw_at_path p (fun m => if xw_container (xw_kind_of m) then xw_insert_child j new m else m) t).
Proof.
  intros p j new t H Hn. apply xw_wf_at_path; auto.
  - intros m Hm. destruct (xw_container (xw_kind_of m)) eqn:E; auto. apply xw_wf_insert_child; auto.
  - intros m. destruct (xw_container (xw_kind_of m)); auto. apply xw_insert_child_del.
Qed.
Theorem xw_wf_empty : forall i d k, xw_wf (xw_mk i d k 0 0 []).
Proof. intros i d k. unfold xw_wf. simpl. destruct d, k; reflexivity. Qed.

(* ---------- (e) termination: every loop returns within an explicit amount of fuel ---------- *)
(* the `while self.can_forward(item, len)` loop of BlockIter::try_forward (not reached by the XML read
   paths: every item is countable, so the inner loop of slice leaves only with len = 0 or at the end) *)
Lemma xw_bi_fwd_loop_end : forall f it item len, xw_bi_end it = true ->
  xw_bi_fwd_loop f it item len = Some (xw_fl_done, it, item, len).
Proof.
  intros f it item len H. destruct f; simpl; unfold xw_bi_can_forward; rewrite H; reflexivity.
Qed.
Lemma xw_bi_fwd_loop_terminates : forall l i fuel it len,
  xw_rchain i l -> length l < fuel -> xw_bi_fwd_loop fuel it (Some i) len <> None.
Proof.
  induction l as [|y l IH]; intros i fuel it len Hc Hf; (destruct fuel as [|f]; [simpl in Hf; lia|]);
    simpl in Hc; simpl xw_bi_fwd_loop;
    (destruct (xw_bi_can_forward it (Some i) len); [|discriminate]);
    match goal with |- match ?e with _ => _ end <> None => destruct e as [[brk it1] len1] end;
    (destruct brk; [discriminate|]); (destruct (xw_bi_end it1); [discriminate|]).
  - rewrite Hc, xw_bi_fwd_loop_end by reflexivity. discriminate.
  - destruct Hc as [Hr Hc]. rewrite Hr. apply IH; auto. simpl in Hf. lia.
Qed.
Lemma xw_bi_try_forward_terminates : forall it len fuel,
  match xw_bi_next it with Some i => length (xw_rights i) < fuel | None => True end ->
  xw_bi_try_forward fuel it len <> None.
Proof.
  intros it len fuel H. unfold xw_bi_try_forward.
  destruct ((len =? 0) && xw_is_none (xw_bi_next it)); [discriminate|].
  destruct ((xw_bi_content_len it <? xw_bi_index it + len) || xw_is_none (xw_bi_next it)) eqn:E;
    [discriminate|].
  destruct (xw_bi_next it) as [i|] eqn:En.
  - match goal with |- context [let '(_, _) := ?e in _] => destruct e as [it' len'] end.
    pose proof (xw_bi_fwd_loop_terminates (xw_rights i) i fuel it' len' (xw_rights_rchain i) H) as Ht.
    destruct (xw_bi_fwd_loop fuel it' (Some i) len') as [[[[fl a] b] c0]|];
      [destruct fl; discriminate | congruence].
  - simpl in E. rewrite orb_true_r in E. discriminate.
Qed.

Lemma xw_sibs_row : forall i d k bl cl up rs l y,
  In y (xw_sibs (xw_mkfr i d k bl cl) up l rs) -> xw_row_fuel y = length l + length rs /\ xw_ctx y <> [].
Proof.
  induction rs as [|r rs IH]; intros l y H; simpl in H; [contradiction|].
  destruct H as [H|H].
  - subst y. unfold xw_row_fuel. simpl. split; [lia | discriminate].
  - apply IH in H. simpl in H. simpl. destruct H. split; auto. lia.
Qed.
Lemma xw_sibs_l_row : forall i d k bl cl up l rs y,
  In y (xw_sibs_l (xw_mkfr i d k bl cl) up l rs) -> xw_row_fuel y = length l + length rs /\ xw_ctx y <> [].
Proof.
  induction l as [|a l IH]; intros rs y H; simpl in H; [contradiction|].
  destruct H as [H|H].
  - subst y. unfold xw_row_fuel. simpl. split; [lia | discriminate].
  - apply IH in H. simpl in H. simpl. destruct H. split; auto. lia.
Qed.
Lemma xw_row_same : forall (fwd : bool) x y, In y (if fwd then xw_rights x else xw_lefts x) ->
  xw_row_fuel y = xw_row_fuel x /\ xw_ctx y <> [].
Proof.
  intros fwd [n [|[i d k bl cl lf rs] up]] y H.
  - destruct fwd; contradiction.
  - destruct fwd; unfold xw_rights, xw_lefts in H; simpl in H.
    + apply xw_sibs_row in H. unfold xw_row_fuel at 2. simpl in *. destruct H. split; auto; lia.
    + apply xw_sibs_l_row in H. unfold xw_row_fuel at 2. simpl in *. destruct H. split; auto; lia.
Qed.

(* any script of next / next_back calls, from any item (deleted ones included) *)
Theorem xw_sib_run_terminates : forall script x fuel,
  xw_ctx x <> [] -> xw_row_fuel x <= fuel -> xw_sib_run_fuel fuel script (Some x) <> None.
Proof.
  induction script as [|b r IH]; intros x fuel Hx Hf; simpl; [discriminate|].
  pose proof (xw_row_fuel_eq x Hx) as Hr.
  set (l := if b then xw_rights x else xw_lefts x).
  assert (Hc : xw_dchain b x l) by (subst l; destruct b; [apply xw_rights_rchain | apply xw_lefts_lchain]).
  assert (Hl : length l < fuel) by (subst l; destruct b; lia).
  rewrite (xw_sib_move_spec b l x fuel Hc Hl).
  destruct (hd_error (filter xw_clive l)) as [y|] eqn:E.
  - assert (Hy : In y l).
    { destruct (filter xw_clive l) as [|z t] eqn:Ef; [discriminate|]. inversion E; subst z.
      assert (In y (filter xw_clive l)) by (rewrite Ef; left; reflexivity).
      apply filter_In in H. apply H. }
    destruct (xw_row_same b x y Hy) as [H1 H2].
    specialize (IH y fuel H2 ltac:(lia)).
    destruct (xw_sib_run_fuel fuel r (Some y)); [discriminate | congruence].
  - rewrite xw_sib_run_none. discriminate.
Qed.

(* the fuel each read path is given is enough; any larger amount gives the same answer
   (xw_*_fuel_spec above state the value for every fuel from the bound on) *)
Theorem xw_termination : forall c,
  (forall fuel, xw_kids_fuel c <= fuel -> xw_first_child_fuel fuel c <> None) /\
  (forall fuel i, xw_kids_fuel c <= fuel -> xw_get_fuel fuel c i <> None) /\
  (forall fuel, S (xw_kids_fuel c) <= fuel -> xw_children_fuel fuel c <> None) /\
  (forall fwd fuel, xw_row_fuel c < fuel -> xw_siblings_fuel fwd fuel c <> None) /\
  (forall script fuel, xw_row_fuel c <= fuel -> xw_sib_run_fuel fuel script (xw_siblings_new c) <> None) /\
  (forall fuel, xw_size (xw_focus c) <= fuel -> xw_successors_fuel true fuel c <> None).
Proof.
  intros c. repeat split.
  - intros fuel H. rewrite xw_first_child_fuel_spec by auto. discriminate.
  - intros fuel i H. rewrite xw_get_fuel_spec by auto. discriminate.
  - intros fuel H. rewrite xw_children_fuel_spec by auto. discriminate.
  - intros fwd fuel H. rewrite xw_siblings_fuel_spec by auto. discriminate.
  - intros script fuel H. unfold xw_siblings_new, xw_item.
    destruct (xw_ctx c) as [|f0 up0] eqn:E.
    + rewrite xw_sib_run_none. discriminate.
    + apply xw_sib_run_terminates; auto. congruence.
  - intros fuel H. destruct (xw_successors_fuel_spec c fuel H) as [l [E _]]. rewrite E. discriminate.
Qed.

(* ---------- summary of (a) - (d) at cursor level ---------- *)
Theorem xw_read_paths_agree : forall c, xw_cached_ok (xw_focus c) ->
  let v := xw_visible_children_at c in
  xw_children_at c = v /\ xw_len_at c = length v /\
  (forall i, xw_get_at c i = nth_error v i) /\ xw_first_child_at c = hd_error v /\
  (forall i x, nth_error v i = Some x ->
     xw_siblings_fwd x = skipn (S i) v /\ xw_siblings_back x = rev (firstn i v) /\ xw_parent x = Some c) /\
  map xw_focus (xw_successors c) = xw_preorder (xw_focus c) /\ Forall (xw_below c) (xw_successors c).
Proof.
  intros c H v. subst v. repeat split.
  - apply xw_children_at_spec, H.
  - apply xw_len_at_spec, H.
  - intros i. apply xw_get_at_spec.
  - apply xw_first_child_at_spec.
  - apply (xw_siblings_spec c i x H0).
  - apply (xw_siblings_spec c i x H0).
  - apply xw_parent_visible. eapply nth_error_In; eauto.
  - apply xw_successors_spec.
  - apply xw_successors_spec.
Qed.

Print Assumptions xw_children_spec.
Print Assumptions xw_children_at_spec.
Print Assumptions xw_children_at_prefix.
Print Assumptions xw_len_at_spec.
Print Assumptions xw_get_at_spec.
Print Assumptions xw_first_child_at_spec.
Print Assumptions xw_at_focus.
Print Assumptions xw_siblings_spec.
Print Assumptions xw_siblings_first_child.
Print Assumptions xw_siblings_fwd_rights.
Print Assumptions xw_siblings_back_lefts.
Print Assumptions xw_siblings_mixed_spec.
Print Assumptions xw_parent_spec.
Print Assumptions xw_parent_top.
Print Assumptions xw_successors_spec.
Print Assumptions xw_successors_fuel_spec.
Print Assumptions xw_successors_no_root_check_refuted.
Print Assumptions xw_termination.
Print Assumptions xw_sib_run_terminates.
Print Assumptions xw_bi_try_forward_terminates.
Print Assumptions xw_read_paths_agree.
Print Assumptions xw_wf_focus_cached.
Print Assumptions xw_preorder_naive_spec.
Print Assumptions xw_wf_delete.
Print Assumptions xw_wf_insert.
Print Assumptions xw_wf_empty.
