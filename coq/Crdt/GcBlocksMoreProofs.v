(* More proofs about the block-level garbage collector: the squash that follows it (commit step 8 on merge_blocks,
   TransactionMut::gc followed by the commit of its transaction). *)
From Coq Require Import List NArith Bool Lia PeanoNat Arith.
From YV Require Import Codec.UpdateV1 Ids.Ranges Crdt.Doc Crdt.Blocks Crdt.BlocksProofs Crdt.Merge Crdt.ApplyDelete
  Crdt.ApplyDeleteProofs Crdt.WriteBlocks Crdt.WriteBlocksProofs Crdt.GcBlocks Crdt.GcBlocksProofs.
From YV.Crdt Require Import GcBlocksMore.
Import ListNotations.
Open Scope N_scope.

(* ================================================================================================ *)
(* 1. one squash: the condition of the code, and what the merged cell is                            *)
(* ================================================================================================ *)
(* ClientBlockList::squash_left: `left.is_deleted() == right.is_deleted() && left.same_type(right) &&
   left.try_squash(right)` *)
Definition gcb_sq_cond (st : gcb_store) (a b : gcb_cell) : Prop :=
  Bool.eqb (gcb_is_deleted a) (gcb_is_deleted b) = true /\ gcb_can_squash st a b = true.
(* what the squash does to the pointer structure *)
Definition gcb_after_sq (st : gcb_store) (b : gcb_cell) : gcb_store :=
  match gcb_blk b with
  | BItem ib _ _ _ _ _ => gcb_mkstore (gcb_clients st) (gcb_unlink (gcb_branches st) ib)
  | _ => st
  end.

(* the condition, field by field (ItemPtr::try_squash; `redone`, `linked` not modelled; keep is NOT compared:
   the merged item is kept if either was) *)
Theorem gcb_sq_cond_spec : forall st a b, gcb_sq_cond st a b ->
  (exists ia na ib nb, gcb_blk a = BGC ia na /\ gcb_blk b = BGC ib nb) \/
  (exists ia na ib nb, gcb_blk a = BSkip ia na /\ gcb_blk b = BSkip ib nb) \/
  (exists ia oa ro p ps ca cb,
     gcb_blk a = BItem ia oa ro p ps ca /\
     gcb_blk b = BItem (mkid (cl ia) (ck ia + content_len ca)) (Some (mkid (cl ia) (ck ia + content_len ca - 1))) ro p ps cb /\
     gcb_del a = gcb_del b /\ blk_content_squashable ca cb = true /\
     gcb_right_is st ia (mkid (cl ia) (ck ia + content_len ca)) = true).
Proof.
  intros st a b [_ H]. unfold gcb_can_squash in H.
  destruct (gcb_blk a) as [ia oa roa pa psa ca|ia na|ia na] eqn:Ea; destruct (gcb_blk b) as [ib ob rob pb psb cb|ib nb|ib nb] eqn:Eb;
    try discriminate.
  - right. right. apply andb_prop in H. destruct H as [H Hs]. apply andb_prop in H. destruct H as [H He].
    apply andb_prop in H. destruct H as [Hc Hr].
    destruct (blk_item_conditions_inv _ _ _ _ _ _ _ _ _ _ _ _ Hc) as (-> & -> & <- & <- & <-).
    exists ia, oa, roa, pa, psa, ca, cb. repeat split; try assumption. all: try (apply eqb_prop; exact He).
  - left. exists ia, na, ib, nb. split; reflexivity.
  - right. left. exists ia, na, ib, nb. split; reflexivity.
Qed.
Print Assumptions gcb_sq_cond_spec.

Lemma gcb_pair_facts : forall st c a1 a b r, wbf_contig c a1 (gcb_blk a :: gcb_blk b :: r) = true -> gcb_sq_cond st a b ->
  blk_can_squash (gcb_blk a) (gcb_blk b) = true /\ blk_wf (gcb_blk a) = true /\ blk_wf (gcb_blk b) = true /\
  0 < block_len (gcb_blk a) /\ mrg_clock (gcb_blk b) = mrg_end (gcb_blk a) /\
  wbf_contig c a1 (blk_squash (gcb_blk a) (gcb_blk b) :: r) = true.
Proof.
  intros st c a1 a b r H [He Hc]. apply wbf_contig_cons in H. destruct H as (Ca & Ka & La & Wa & H).
  apply wbf_contig_cons in H. destruct H as (Cb & Kb & Lb & Wb & H).
  assert (Hcs : blk_can_squash (gcb_blk a) (gcb_blk b) = true).
  { unfold gcb_can_squash in Hc. unfold mrg_client, mrg_clock, mrg_end in *.
    destruct (gcb_blk a) as [ia oa roa pa psa ca|ia na|ia na]; destruct (gcb_blk b) as [ib ob rob pb psb cb|ib nb|ib nb]; try discriminate.
    - cbn [blk_can_squash]. apply andb_prop in Hc. destruct Hc as [Hc Hs]. apply andb_prop in Hc. destruct Hc as [Hc _].
      apply andb_prop in Hc. destruct Hc as [Hc _]. rewrite Hc, Hs. reflexivity.
    - cbn [block_id block_len blk_can_squash] in *. unfold blk_range_adjacent. rewrite Ca, Cb, N.eqb_refl. cbn [andb]. apply N.eqb_eq. unfold mrg_clock in *. cbn [block_id] in *. lia.
    - cbn [block_id block_len blk_can_squash] in *. unfold blk_range_adjacent. rewrite Ca, Cb, N.eqb_refl. cbn [andb]. apply N.eqb_eq. unfold mrg_clock in *. cbn [block_id] in *. lia. }
  destruct (blk_squash_wf _ _ Wa Wb Hcs) as (Ws & Ls & Is).
  repeat split; try assumption. apply wbf_contig_cons. unfold mrg_client, mrg_clock, mrg_end in *. rewrite Is, Ls.
  repeat split; try assumption; try lia. unfold mrg_clock in *. rewrite Is.
  replace (ck (block_id (gcb_blk a)) + (block_len (gcb_blk a) + block_len (gcb_blk b)))
    with (ck (block_id (gcb_blk b)) + block_len (gcb_blk b)) by lia. exact H.
Qed.

Lemma gcb_sq_deleted : forall a b, Bool.eqb (gcb_is_deleted a) (gcb_is_deleted b) = true ->
  blk_can_squash (gcb_blk a) (gcb_blk b) = true ->
  gcb_is_deleted (gcb_squash_cells a b) = gcb_is_deleted a /\ gcb_is_deleted b = gcb_is_deleted a /\
  mrg_is_skip (gcb_blk (gcb_squash_cells a b)) = mrg_is_skip (gcb_blk a) /\ mrg_is_skip (gcb_blk b) = mrg_is_skip (gcb_blk a).
Proof.
  intros a b He Hc. apply eqb_prop in He. unfold gcb_is_deleted, wbf_is_deleted, gcb_squash_cells in *. cbn [fst snd gcb_blk gcb_del] in *.
  destruct (gcb_blk a); destruct (gcb_blk b); cbn in Hc; try discriminate; cbn; auto.
Qed.

Lemma gcb_sq_cell_ids : forall a b, Bool.eqb (gcb_is_deleted a) (gcb_is_deleted b) = true ->
  blk_can_squash (gcb_blk a) (gcb_blk b) = true -> blk_wf (gcb_blk a) = true -> blk_wf (gcb_blk b) = true ->
  mrg_clock (gcb_blk b) = mrg_end (gcb_blk a) ->
  gcb_cell_ids (gcb_squash_cells a b) = gcb_cell_ids a ++ gcb_cell_ids b.
Proof.
  intros a b He Hc Wa Wb Hk. destruct (gcb_sq_deleted a b He Hc) as (D1 & D2 & _).
  destruct (blk_squash_wf _ _ Wa Wb Hc) as (_ & Ls & Is). unfold gcb_cell_ids. rewrite D1, D2.
  change (gcb_blk (gcb_squash_cells a b)) with (blk_squash (gcb_blk a) (gcb_blk b)). unfold mrg_clock in *. rewrite Is, Ls.
  rewrite N2Nat.inj_add, seq_app, map_app. f_equal. cbn [plus]. rewrite Hk. unfold mrg_end, mrg_clock.
  rewrite (adl_seq_add (N.to_nat (block_len (gcb_blk b))) (N.to_nat (block_len (gcb_blk a)))), map_map.
  apply map_ext. intros j. f_equal. lia.
Qed.

(* ================================================================================================ *)
(* 2. one squash inside a list                                                                      *)
(* ================================================================================================ *)
Lemma gcb_list_wf_mid : forall l c a0 x, gcb_list_wf c a0 (l ++ x) = true -> exists a1, gcb_list_wf c a1 x = true.
Proof.
  induction l as [|y l IH]; intros c a0 x H; [eauto|]. unfold gcb_list_wf in *. cbn [app map] in H.
  apply wbf_contig_cons in H. destruct H as (_ & _ & _ & _ & H). exact (IH _ _ _ H).
Qed.

Lemma gcb_list_wf_replace : forall l c a0 x y, gcb_list_wf c a0 (l ++ x) = true ->
  (forall a1, gcb_list_wf c a1 x = true -> gcb_list_wf c a1 y = true) -> gcb_list_wf c a0 (l ++ y) = true.
Proof.
  induction l as [|z l IH]; intros c a0 x y H Hxy; [exact (Hxy _ H)|]. unfold gcb_list_wf in *. cbn [app map] in *.
  apply wbf_contig_cons in H. destruct H as (H1 & H2 & H3 & H4 & H). apply wbf_contig_cons. repeat split; try assumption.
  exact (IH _ _ _ _ H Hxy).
Qed.

Lemma gcb_list_clock_app : forall l x r, wbf_list_clock (l ++ x :: r) = wbf_list_clock (x :: r).
Proof.
  induction l as [|z l IH]; intros x r; [reflexivity|]. cbn [app]. rewrite wbf_list_clock_cons.
  destruct (l ++ x :: r) eqn:E; [destruct l; discriminate|]. rewrite <- E. apply IH.
Qed.

Lemma gcb_step_facts : forall st c a0 l a b r, gcb_list_wf c a0 (l ++ a :: b :: r) = true -> gcb_sq_cond st a b ->
  gcb_list_wf c a0 (l ++ gcb_squash_cells a b :: r) = true
  /\ gcb_list_ids (l ++ gcb_squash_cells a b :: r) = gcb_list_ids (l ++ a :: b :: r)
  /\ gcb_dead_units (l ++ gcb_squash_cells a b :: r) = gcb_dead_units (l ++ a :: b :: r)
  /\ gcb_list_units (l ++ gcb_squash_cells a b :: r) = gcb_list_units (l ++ a :: b :: r)
  /\ wbf_list_clock (map gcb_blk (l ++ gcb_squash_cells a b :: r)) = wbf_list_clock (map gcb_blk (l ++ a :: b :: r)).
Proof.
  intros st c a0 l a b r H Hc. destruct (gcb_list_wf_mid _ _ _ _ H) as (a1 & H1). unfold gcb_list_wf in H1. cbn [map] in H1.
  destruct (gcb_pair_facts st c a1 a b _ H1 Hc) as (Hcs & Wa & Wb & La & Hk & _).
  destruct (gcb_sq_deleted a b (proj1 Hc) Hcs) as (D1 & D2 & S1 & S2).
  pose proof (blk_squash_units _ _ Wa Wb ltac:(unfold blk_nonempty; apply N.ltb_lt; exact La) Hcs) as Hu.
  split; [|split; [|split; [|split]]].
  - apply (gcb_list_wf_replace l c a0 (a :: b :: r)); [exact H|]. intros a2 H2. unfold gcb_list_wf in *. cbn [map] in *.
    exact (proj2 (proj2 (proj2 (proj2 (proj2 (gcb_pair_facts st c a2 a b _ H2 Hc)))))).
  - unfold gcb_list_ids. rewrite !flat_map_app. f_equal. cbn [flat_map]. rewrite S1, S2, app_assoc. f_equal.
    destruct (mrg_is_skip (gcb_blk a)); [reflexivity|]. exact (gcb_sq_cell_ids a b (proj1 Hc) Hcs Wa Wb Hk).
  - unfold gcb_dead_units. rewrite !flat_map_app. f_equal. cbn [flat_map]. rewrite app_assoc. f_equal.
    unfold gcb_cell_dead_units. rewrite D1, D2. change (gcb_blk (gcb_squash_cells a b)) with (blk_squash (gcb_blk a) (gcb_blk b)).
    destruct (gcb_is_deleted a); [rewrite Hu, map_app; reflexivity|reflexivity].
  - unfold gcb_list_units. rewrite !flat_map_app. f_equal. cbn [flat_map]. rewrite app_assoc. f_equal.
    unfold gcb_cell_units. rewrite D1, D2. change (gcb_blk (gcb_squash_cells a b)) with (blk_squash (gcb_blk a) (gcb_blk b)).
    rewrite Hu, map_app. reflexivity.
  - destruct (blk_squash_wf _ _ Wa Wb Hcs) as (_ & Ls & Is). rewrite !map_app. cbn [map].
    rewrite !gcb_list_clock_app. rewrite (wbf_list_clock_cons (gcb_blk a)). rewrite !wbf_list_clock_cons.
    change (gcb_blk (gcb_squash_cells a b)) with (blk_squash (gcb_blk a) (gcb_blk b)).
    destruct (map gcb_blk r); [|reflexivity]. unfold mrg_end, mrg_clock in *. rewrite Is, Ls. lia.
Qed.

(* chains of squashes on one list, the pointer structure following *)
Inductive gcb_lchain : gcb_store * list gcb_cell -> gcb_store * list gcb_cell -> Prop :=
| gcb_lchain_refl : forall x, gcb_lchain x x
| gcb_lchain_step : forall st l a b r y, gcb_sq_cond st a b ->
    gcb_lchain (gcb_after_sq st b, l ++ gcb_squash_cells a b :: r) y -> gcb_lchain (st, l ++ a :: b :: r) y.

Lemma gcb_split_two : forall (A : Type) (bl : list A) l a b, nth_error bl l = Some a -> nth_error bl (S l) = Some b ->
  bl = firstn l bl ++ a :: b :: skipn (S (S l)) bl.
Proof.
  intros A bl. induction bl as [|x r IH]; intros [|l] a b H1 H2; cbn in *; try discriminate.
  - inversion H1; subst. destruct r; cbn in *; [discriminate|]. inversion H2; subst. reflexivity.
  - f_equal. exact (IH l a b H1 H2).
Qed.

(* Theorem 1a.  ClientBlockList::squash_left removes a boundary only between two cells for which the condition of
   the code holds (gcb_sq_cond_spec spells it out); each removal unlinks the right item from its branch. *)
Theorem gcb_squash_left_chain : forall fuel st bl pos st' bl',
  gcb_squash_left fuel st bl pos = adl_ok (st', bl') -> gcb_lchain (st, bl) (st', bl').
Proof.
  induction fuel as [|f IH]; intros st bl pos st' bl' H; cbn [gcb_squash_left] in H; [discriminate|].
  destruct pos as [|l]; [inversion H; subst; constructor|].
  destruct (nth_error bl l) as [a|] eqn:Ea; [|discriminate]. destruct (nth_error bl (S l)) as [b|] eqn:Eb; [|discriminate].
  destruct (Bool.eqb (gcb_is_deleted a) (gcb_is_deleted b) && gcb_can_squash st a b) eqn:Ec; [|inversion H; subst; constructor].
  apply andb_true_iff in Ec. rewrite (gcb_split_two _ bl l a b Ea Eb) at 1.
  apply (gcb_lchain_step st _ a b _ (st', bl') Ec). exact (IH _ _ _ _ _ H).
Qed.
Print Assumptions gcb_squash_left_chain.

(* what a chain preserves on a well-formed list *)
Lemma gcb_lchain_facts : forall x y, gcb_lchain x y -> forall c a0, gcb_list_wf c a0 (snd x) = true ->
  gcb_list_wf c a0 (snd y) = true /\ gcb_list_ids (snd y) = gcb_list_ids (snd x)
  /\ gcb_dead_units (snd y) = gcb_dead_units (snd x) /\ gcb_list_units (snd y) = gcb_list_units (snd x)
  /\ wbf_list_clock (map gcb_blk (snd y)) = wbf_list_clock (map gcb_blk (snd x))
  /\ gcb_clients (fst y) = gcb_clients (fst x) /\ ((snd x = [] -> False) -> snd y = [] -> False)
  /\ (length (snd y) <= length (snd x))%nat.
Proof.
  intros x y H. induction H as [x|st l a b r y Hc H IH]; intros c a0 Hw; [repeat split; auto|]. cbn [fst snd] in *.
  destruct (gcb_step_facts st c a0 l a b r Hw Hc) as (F1 & F2 & F3 & F4 & F5).
  destruct (IH c a0 F1) as (G1 & G2 & G3 & G4 & G5 & G6 & G7 & G8).
  repeat split; try congruence.
  - rewrite G6. unfold gcb_after_sq. destruct (gcb_blk b); reflexivity.
  - intros _. apply G7. destruct l; discriminate.
  - rewrite app_length in *. cbn [length] in *. lia.
Qed.

(* ================================================================================================ *)
(* 3. the store: commit step 8 (merge_blocks) and TransactionMut::gc + commit                        *)
(* ================================================================================================ *)
Definition gcb_view {X : Type} (V : list gcb_cell -> X) (st : gcb_store) : list (N * X) :=
  map (fun cb => (fst cb, V (snd cb))) (gcb_clients st).

Lemma gcb_set_client_view : forall (X : Type) (V : list gcb_cell -> X) cs c bl bl',
  gcb_get_client cs c = Some bl -> V bl' = V bl ->
  map (fun cb => (fst cb, V (snd cb))) (gcb_set_client cs c bl') = map (fun cb => (fst cb, V (snd cb))) cs.
Proof.
  intros X V. induction cs as [|[c' b'] r IH]; intros c bl bl' Hg HV; cbn in *; [reflexivity|].
  destruct (c' =? c); cbn [map fst snd].
  - inversion Hg; subst. rewrite HV. reflexivity.
  - rewrite (IH c bl bl' Hg HV). reflexivity.
Qed.

Lemma gcb_set_client_wf : forall cs c bl bl', forallb (fun cb => gcb_list_wf (fst cb) 0 (snd cb)) cs = true ->
  gcb_get_client cs c = Some bl -> (forall k, gcb_list_wf k 0 bl = true -> gcb_list_wf k 0 bl' = true) ->
  forallb (fun cb => gcb_list_wf (fst cb) 0 (snd cb)) (gcb_set_client cs c bl') = true.
Proof.
  induction cs as [|[c' b'] r IH]; intros c bl bl' H Hg HV; cbn [gcb_set_client gcb_get_client forallb fst snd] in *; [reflexivity|].
  apply andb_true_iff in H. destruct H as [H1 H2]. destruct (c' =? c); cbn [forallb fst snd].
  - inversion Hg; subst. rewrite (HV _ H1), H2. reflexivity.
  - rewrite H1, (IH c bl bl' H2 Hg HV). reflexivity.
Qed.

Lemma gcb_get_client_wf : forall cs c bl, forallb (fun cb => gcb_list_wf (fst cb) 0 (snd cb)) cs = true ->
  gcb_get_client cs c = Some bl -> gcb_list_wf c 0 bl = true.
Proof.
  induction cs as [|[c' b'] r IH]; intros c bl H Hg; cbn [gcb_get_client forallb fst snd] in *; [discriminate|].
  apply andb_true_iff in H. destruct H as [H1 H2]. destruct (c' =? c) eqn:E; [|exact (IH _ _ H2 Hg)].
  apply N.eqb_eq in E. inversion Hg; subst. exact H1.
Qed.

(* what the squash preserves of a store whose lists are well formed *)
Definition gcb_sqrel (st st' : gcb_store) : Prop :=
  gcb_lists_wf st = true ->
  gcb_lists_wf st' = true /\ gcb_ids st' = gcb_ids st
  /\ gcb_store_units st' = gcb_store_units st
  /\ gcb_view gcb_dead_units st' = gcb_view gcb_dead_units st
  /\ gcb_view (fun bl => wbf_list_clock (map gcb_blk bl)) st' = gcb_view (fun bl => wbf_list_clock (map gcb_blk bl)) st
  /\ gcb_view (fun bl => match bl with [] => true | _ => false end) st' =
     gcb_view (fun bl => match bl with [] => true | _ => false end) st.
Lemma gcb_sqrel_refl : forall st, gcb_sqrel st st.
Proof. intros st H. repeat split; auto. Qed.
Lemma gcb_sqrel_trans : forall a b c, gcb_sqrel a b -> gcb_sqrel b c -> gcb_sqrel a c.
Proof.
  intros a b c H1 H2 Ha. destruct (H1 Ha) as (B1 & B2 & B3 & B4 & B5 & B6). destruct (H2 B1) as (C1 & C2 & C3 & C4 & C5 & C6).
  repeat split; congruence.
Qed.

Lemma gcb_merge_one_sqrel : forall st i st', gcb_merge_one st i = adl_ok st' -> gcb_sqrel st st'.
Proof.
  intros st i st' H. unfold gcb_merge_one in H.
  destruct (gcb_get_client (gcb_clients st) (cl i)) as [bl|] eqn:Hg; [|inversion H; subst; apply gcb_sqrel_refl].
  destruct (gcb_find_index bl (ck i)) as [[p|]|]; cbn [adl_bind] in H; try discriminate; [|inversion H; subst; apply gcb_sqrel_refl].
  destruct (if Nat.ltb (S p) (length bl) then Some (S p) else if Nat.ltb 0 p then Some p else None) as [q|];
    [|inversion H; subst; apply gcb_sqrel_refl].
  destruct (gcb_squash_left (S (length bl)) st bl q) as [[st1 bl1]|] eqn:Es; [|discriminate]. cbn [adl_bind fst snd] in H.
  inversion H; subst st'. clear H. intros Hw.
  pose proof (gcb_lchain_facts _ _ (gcb_squash_left_chain _ _ _ _ _ _ Es)) as F. cbn [fst snd] in F.
  pose proof (gcb_get_client_wf _ _ _ Hw Hg) as Hbl.
  destruct (F _ _ Hbl) as (F1 & F2 & F3 & F4 & F5 & F6 & F7 & F8).
  unfold gcb_lists_wf, gcb_ids, gcb_store_units, gcb_view. cbn [gcb_clients]. rewrite F6.
  repeat split.
  - apply (gcb_set_client_wf _ _ bl bl1 Hw Hg). intros k Hk. exact (proj1 (F _ _ Hk)).
  - exact (gcb_set_client_view _ gcb_list_ids _ _ _ _ Hg F2).
  - exact (gcb_set_client_view _ gcb_list_units _ _ _ _ Hg F4).
  - exact (gcb_set_client_view _ gcb_dead_units _ _ _ _ Hg F3).
  - exact (gcb_set_client_view _ (fun bl => wbf_list_clock (map gcb_blk bl)) _ _ _ _ Hg F5).
  - apply (gcb_set_client_view _ (fun bl => match bl with [] => true | _ => false end) _ _ _ _ Hg).
    destruct bl1; destruct bl; try reflexivity.
    + exfalso. apply F7; [discriminate|reflexivity].
    + cbn [length] in F8. lia.
Qed.

Lemma gcb_merge_blocks_sqrel : forall mb st st', gcb_merge_blocks st mb = adl_ok st' -> gcb_sqrel st st'.
Proof.
  intros mb st st' H. unfold gcb_merge_blocks in H.
  refine (gcb_fold_inv _ _ gcb_sqrel _ _ gcb_sqrel_refl gcb_sqrel_trans _ _ _ H). intros a x a' _. apply gcb_merge_one_sqrel.
Qed.

Lemma gcb_deleted_ids_view : forall st, wbf_deleted_ids (gcb_to_wbf st) = flat_map snd (gcb_view gcb_dead_units st).
Proof.
  intros st. unfold wbf_deleted_ids, gcb_to_wbf, gcb_view. induction (gcb_clients st) as [|cb r IH]; [reflexivity|].
  cbn [map flat_map fst snd]. rewrite IH. f_equal. unfold gcb_dead_units, gcb_cell_dead_units, gcb_is_deleted.
  induction (snd cb) as [|c l IHl]; [reflexivity|]. cbn [map flat_map fst snd]. rewrite IHl. reflexivity.
Qed.

Lemma gcb_local_sv_view : forall st, wbf_local_sv (gcb_to_wbf st) = gcb_view (fun bl => wbf_list_clock (map gcb_blk bl)) st.
Proof.
  intros st. unfold wbf_local_sv, gcb_to_wbf, gcb_view. induction (gcb_clients st) as [|cb r IH]; [reflexivity|].
  cbn [map fst snd]. rewrite IH, map_map. reflexivity.
Qed.

(* Theorem 1b.  commit step 8 (squash at merge_blocks) on a store whose lists are well formed (ids of the client,
   contiguous from 0, positive lengths, valid strings): well-formedness, the unit ids with their deletedness
   (gcb_ids), every unit with its content, origins, parent and deletedness (gcb_store_units: what a peer can be sent,
   hence also the rendering of what is visible, unit by unit), the deleted unit ids (what IdSet::from_store covers),
   the end of every list (state vector) are the same afterwards. *)
Theorem gcb_merge_blocks_preserves : forall st mb st', gcb_lists_wf st = true -> gcb_merge_blocks st mb = adl_ok st' ->
  gcb_lists_wf st' = true /\ gcb_ids st' = gcb_ids st /\ gcb_store_units st' = gcb_store_units st
  /\ wbf_deleted_ids (gcb_to_wbf st') = wbf_deleted_ids (gcb_to_wbf st)
  /\ wbf_local_sv (gcb_to_wbf st') = wbf_local_sv (gcb_to_wbf st).
Proof.
  intros st mb st' Hw H. destruct (gcb_merge_blocks_sqrel _ _ _ H Hw) as (B1 & B2 & B3 & B4 & B5 & _).
  repeat split; try assumption.
  - rewrite !gcb_deleted_ids_view, B4. reflexivity.
  - rewrite !gcb_local_sv_view. exact B5.
Qed.
Print Assumptions gcb_merge_blocks_preserves.

(* the delete set a peer is sent covers the same ids (both sets are canonical: wbf_delete_set_exact) *)
Theorem gcb_merge_blocks_delete_set : forall st mb st', gcb_lists_wf st = true -> gcb_wf st = true -> gcb_wf st' = true ->
  gcb_merge_blocks st mb = adl_ok st' ->
  forall c k, mrg_ds_mem (wbf_delete_set (gcb_to_wbf st')) c k = mrg_ds_mem (wbf_delete_set (gcb_to_wbf st)) c k.
Proof.
  intros st mb st' Hw W1 W2 H c k. destruct (gcb_merge_blocks_preserves _ _ _ Hw H) as (_ & _ & _ & Hd & _).
  destruct (wbf_delete_set_exact _ W1) as (_ & _ & M1 & _). destruct (wbf_delete_set_exact _ W2) as (_ & _ & M2 & _).
  destruct (mrg_ds_mem (wbf_delete_set (gcb_to_wbf st)) c k) eqn:E.
  - apply M2. rewrite Hd. apply M1. exact E.
  - destruct (mrg_ds_mem (wbf_delete_set (gcb_to_wbf st')) c k) eqn:E'; [|reflexivity].
    apply M2 in E'. rewrite Hd in E'. apply M1 in E'. congruence.
Qed.
Print Assumptions gcb_merge_blocks_delete_set.

(* ---- the collector keeps lists well formed ---- *)
Lemma gcb_crel_wf : forall c c', gcb_crel c c' -> blk_wf (gcb_blk c) = true -> blk_wf (gcb_blk c') = true.
Proof.
  intros c c' [->|(_ & _ & [[_ ->]| ->])] H; [exact H| |]; destruct c as [b d k n]; destruct b; cbn in *; auto.
Qed.
Lemma gcb_list_wf_crel : forall l l', Forall2 gcb_crel l l' -> forall c a, gcb_list_wf c a l = true -> gcb_list_wf c a l' = true.
Proof.
  intros l l' H. induction H as [|x y r r' Hxy H IH]; intros c a Hw; [exact Hw|]. unfold gcb_list_wf in *. cbn [map] in *.
  apply wbf_contig_cons in Hw. destruct Hw as (H1 & H2 & H3 & H4 & H5). apply wbf_contig_cons.
  destruct (gcb_sig_fields _ _ (gcb_crel_sig _ _ Hxy)) as (E1 & E2 & E3 & _ & _ & E6).
  rewrite E1, E2, E3, E6. repeat split; try assumption; [exact (gcb_crel_wf _ _ Hxy H4)|exact (IH _ _ H5)].
Qed.
Lemma gcb_lists_wf_srel : forall st st', gcb_srel st st' -> gcb_lists_wf st = true -> gcb_lists_wf st' = true.
Proof.
  intros st st' [H _] Hw. unfold gcb_lists_wf in *. induction H as [|a b r r' [E HF] H IH]; [reflexivity|].
  cbn [forallb] in *. apply andb_true_iff in Hw. destruct Hw as [H1 H2]. rewrite E, (gcb_list_wf_crel _ _ HF _ _ H1), (IH H2). reflexivity.
Qed.

Lemma gcb_item_unit_ids : forall us c k o ro p ps,
  map xid (units_of_item c k o ro p ps us) = map xid (gc_units c k (length us)).
Proof.
  induction us as [|u r IH]; intros c k o ro p ps; [reflexivity|]. cbn [units_of_item gc_units length map xid oid]. f_equal. apply IH.
Qed.
Lemma gcb_block_unit_ids : forall i o ro p ps ct, blk_content_wf ct = true ->
  map xid (units_of_block (BItem i o ro p ps ct)) = map xid (gc_units (cl i) (ck i) (N.to_nat (content_len ct))).
Proof.
  intros i o ro p ps ct H. cbn [units_of_block]. rewrite gcb_item_unit_ids. f_equal. f_equal.
  rewrite <- (blk_content_len_units ct H). rewrite Nat2N.id. reflexivity.
Qed.
(* the collector does not change the ids a cell covers *)
Lemma gcb_crel_unit_ids : forall c c', gcb_crel c c' -> blk_wf (gcb_blk c) = true ->
  map xid (units_of_block (gcb_blk c')) = map xid (units_of_block (gcb_blk c)).
Proof.
  intros c c' [->|(H1 & H2 & [[_ ->]| ->])] Hw; [reflexivity| |]; destruct c as [b d k n]; destruct b as [i o ro p ps ct| |]; cbn in *; try discriminate.
  - change (map xid (units_of_block (BItem i o ro p ps (BDeleted (content_len ct)))) = map xid (units_of_block (BItem i o ro p ps ct))).
    rewrite (gcb_block_unit_ids i o ro p ps ct Hw), (gcb_block_unit_ids i o ro p ps (BDeleted (content_len ct)) eq_refl). reflexivity.
  - change (map xid (gc_units (cl i) (ck i) (N.to_nat (content_len ct))) = map xid (units_of_block (BItem i o ro p ps ct))).
    rewrite (gcb_block_unit_ids i o ro p ps ct Hw). reflexivity.
Qed.
Lemma gcb_dead_units_crel : forall l l', Forall2 gcb_crel l l' -> forall c a, gcb_list_wf c a l = true ->
  gcb_dead_units l' = gcb_dead_units l.
Proof.
  intros l l' H. induction H as [|x y r r' Hxy H IH]; intros c a Hw; [reflexivity|]. unfold gcb_list_wf in Hw. cbn [map] in Hw.
  apply wbf_contig_cons in Hw. destruct Hw as (_ & _ & _ & H4 & H5). unfold gcb_dead_units in *. cbn [flat_map].
  rewrite (IH c _ H5). f_equal. unfold gcb_cell_dead_units.
  destruct (gcb_sig_fields _ _ (gcb_crel_sig _ _ Hxy)) as (_ & _ & _ & _ & -> & _).
  rewrite (gcb_crel_unit_ids _ _ Hxy H4). reflexivity.
Qed.

(* Theorem 1c.  TransactionMut::gc(ods) followed by the commit of its transaction (collector, then the squash at
   merge_blocks): unit ids with deletedness, deleted ids, list ends and well-formedness are preserved; what
   changes is the content of deleted units (gcb_collect_all_srel) and block boundaries between cells that satisfy
   the squash condition (gcb_squash_left_chain, gcb_sq_cond_spec). *)
Theorem gcb_gc_api_preserves : forall st ods st', gcb_lists_wf st = true -> gcb_gc_api st ods = adl_ok st' ->
  gcb_lists_wf st' = true /\ gcb_ids st' = gcb_ids st
  /\ wbf_deleted_ids (gcb_to_wbf st') = wbf_deleted_ids (gcb_to_wbf st)
  /\ wbf_local_sv (gcb_to_wbf st') = wbf_local_sv (gcb_to_wbf st).
Proof.
  intros st ods st' Hw H. unfold gcb_gc_api in H. destruct (gcb_collect_all st ods) as [[st1 mb]|] eqn:Ec; [|discriminate].
  cbn [adl_bind fst snd] in H. pose proof (gcb_collect_all_srel _ _ _ _ Ec) as HS.
  pose proof (gcb_lists_wf_srel _ _ HS Hw) as Hw1.
  destruct (gcb_merge_blocks_preserves _ _ _ Hw1 H) as (B1 & B2 & _ & B4 & B5).
  destruct (gcb_preserves_ids _ _ _ _ Ec) as (C1 & _ & _ & C4 & _).
  repeat split; try congruence.
  rewrite B4, !gcb_deleted_ids_view. f_equal. unfold gcb_view. destruct HS as [HC _]. unfold gcb_lists_wf in Hw.
  induction HC as [|a b r r' [E HF] HC IH]; [reflexivity|]. cbn [map forallb] in *. apply andb_true_iff in Hw. destruct Hw as [W1 W2].
  rewrite (IH W2), E. f_equal. f_equal. exact (gcb_dead_units_crel _ _ HF _ _ W1).
Qed.
Print Assumptions gcb_gc_api_preserves.


(* Theorem 1d.  The pointer structure follows the block list: one squash drops exactly the id of the right cell from
   the Item ids of the list, and - when the cells are items - exactly that id from every sequence and map chain
   (gcb_unlink: `self.right = other.right`, the map entry rewired to the left item); for GC / Skip ranges nothing
   changes in the branches. *)
Theorem gcb_step_branch_consistent : forall st l a b r, gcb_sq_cond st a b ->
  gcb_item_ids (l ++ gcb_squash_cells a b :: r) = gcb_item_ids l ++ gcb_item_ids [a] ++ gcb_item_ids r
  /\ gcb_item_ids (l ++ a :: b :: r) = gcb_item_ids l ++ gcb_item_ids [a] ++ gcb_item_ids [b] ++ gcb_item_ids r
  /\ gcb_branches (gcb_after_sq st b) =
     match gcb_item_ids [b] with ib :: _ => gcb_unlink (gcb_branches st) ib | [] => gcb_branches st end
  /\ (forall ib p br, gcb_item_ids [b] = [ib] -> In (p, br) (gcb_branches (gcb_after_sq st b)) ->
        ~ In ib (gcb_seq br) /\ forall kv, In kv (gcb_map br) -> ~ In ib (snd kv)).
Proof.
  intros st l a b r [_ Hc]. unfold gcb_item_ids, gcb_after_sq. rewrite !flat_map_app. cbn [flat_map]. rewrite !app_nil_r.
  unfold gcb_can_squash in Hc. change (gcb_blk (gcb_squash_cells a b)) with (blk_squash (gcb_blk a) (gcb_blk b)).
  destruct (gcb_blk a) as [ia oa roa pa psa ca|ia na|ia na]; destruct (gcb_blk b) as [ib ob rob pb psb cb|ib nb|ib nb];
    try discriminate; cbn [blk_squash app]; repeat split; try discriminate.
  all: match goal with
       | E : [_] = [_], Hin : In (_, _) (gcb_branches _) |- _ =>
           inversion E; subst; cbn [gcb_branches] in Hin; unfold gcb_unlink in Hin; apply in_map_iff in Hin;
           destruct Hin as ([p0 b0] & E0 & _); inversion E0; subst; cbn [gcb_seq gcb_map fst snd] in *
       end.
  - intros Q. apply filter_In in Q. destruct Q as [_ Q]. rewrite blk_id_eqb_refl in Q. discriminate.
  - intros kv Hkv. apply in_map_iff in Hkv. destruct Hkv as (kv0 & <- & _).
    cbn [snd]. intros Q. apply filter_In in Q. destruct Q as [_ Q]. rewrite blk_id_eqb_refl in Q. discriminate.
Qed.
Print Assumptions gcb_step_branch_consistent.

(* ================================================================================================ *)
(* 4. Theorem 6 at unit level (partial): the units a peer can be sent                               *)
(* ================================================================================================ *)
Definition gcb_urel (u u' : xop * bool) : Prop :=
  snd u' = snd u /\ xid (fst u') = xid (fst u) /\ (snd u = false -> u' = u).

Lemma gcb_map_eq_F2 : forall (A B : Type) (f : A -> B) l l', map f l' = map f l -> Forall2 (fun x y => f y = f x) l l'.
Proof.
  intros A B f. induction l as [|x r IH]; intros [|y r'] H; cbn in H; try discriminate; constructor.
  - inversion H; reflexivity.
  - apply IH. inversion H; reflexivity.
Qed.

Lemma gcb_cell_units_crel : forall c c', gcb_crel c c' -> blk_wf (gcb_blk c) = true ->
  Forall2 gcb_urel (gcb_cell_units c) (gcb_cell_units c').
Proof.
  intros c c' Hc Hw. pose proof (gcb_crel_unit_ids _ _ Hc Hw) as Hi.
  destruct (gcb_sig_fields _ _ (gcb_crel_sig _ _ Hc)) as (_ & _ & _ & _ & Hd & _).
  destruct Hc as [->|(H1 & H2 & _)].
  - apply gcb_F2_refl. intros u. repeat split; auto.
  - assert (Dc : gcb_is_deleted c = true).
    { unfold gcb_is_deleted, wbf_is_deleted. cbn [fst snd]. unfold gcb_is_item in H1. destruct (gcb_blk c); try discriminate. exact H2. }
    unfold gcb_cell_units. rewrite Hd, Dc. apply gcb_map_eq_F2 in Hi. clear - Hi.
    induction Hi as [|x y r r' Hxy Hi IH]; cbn [map]; constructor; [|exact IH].
    repeat split; cbn [fst snd]; [exact Hxy|discriminate].
Qed.

Lemma gcb_F2_app : forall (A B : Type) (R : A -> B -> Prop) l1 l1' l2 l2', Forall2 R l1 l1' -> Forall2 R l2 l2' ->
  Forall2 R (l1 ++ l2) (l1' ++ l2').
Proof. intros A B R l1 l1' l2 l2' H1 H2. induction H1; cbn; [exact H2|constructor; assumption]. Qed.

(* the units of the collected store (what encode_diff can send, Crdt/WriteBlocks.v wbf_diff_units: the units of the
   store filtered by the peer's vector) correspond one to one to those of the uncollected store: same id, same
   deletedness, and identical unless deleted.  The step from here to "integrates to the same visible content" is
   Crdt/GcProofs.v gc_commutes_with_run (not connected). *)
Theorem gcb_peer_units_partial : forall st ods st' mb, gcb_lists_wf st = true -> gcb_collect_all st ods = adl_ok (st', mb) ->
  Forall2 (fun cu cu' => fst cu' = fst cu /\ Forall2 gcb_urel (snd cu) (snd cu')) (gcb_store_units st) (gcb_store_units st').
Proof.
  intros st ods st' mb Hw H. destruct (gcb_collect_all_srel _ _ _ _ H) as [HC _]. unfold gcb_store_units, gcb_lists_wf in *.
  induction HC as [|a b r r' [E HF] HC IH]; cbn [map forallb] in *; constructor.
  - apply andb_true_iff in Hw. destruct Hw as [W _]. cbn [fst snd]. split; [exact E|]. clear - HF W. revert W. generalize 0.
    unfold gcb_list_wf, gcb_list_units. induction HF as [|c c' l l' Hc HF IH]; intros a0 W; [constructor|]. cbn [map flat_map] in *.
    apply wbf_contig_cons in W. destruct W as (_ & _ & _ & W4 & W5).
    apply gcb_F2_app; [exact (gcb_cell_units_crel _ _ Hc W4)|exact (IH _ W5)].
  - apply andb_true_iff in Hw. destruct Hw as [_ W]. exact (IH W).
Qed.
Print Assumptions gcb_peer_units_partial.
